import Mathlib.Analysis.SpecialFunctions.Gaussian.GaussianIntegral
import PysphVerif.Lemmas.KernelIntegral
import PysphVerif.Lemmas.KernelWrapper
import PysphVerif.Gen.Kernels
import PysphVerif.Gen.KernelWrapper
/-!
# C08 — every SPH kernel is normalised, compactly supported and self-consistent

`Gen/Kernels.lean` is regenerated on every run from `pysph/base/kernels.py`
(one table per kernel class and admissible dimension, `all`).  The theorems
below quantify over EVERY table in `all`, every `h > 0`, every `r` (real
numbers), and are about the real functions the tables denote
(`Lemmas/Kernel.lean`):

  `W K r h`, `dwdq K r h`, `gradH K r h`, `gradient K i x0 x1 x2 r h`.

Each is obtained from an executable check on the rational tables, discharged
here by `decide +kernel` (the `table_…` theorems — these are what break when a
coefficient, a power of `h`, a breakpoint or `fac` changes in the source), and a
soundness lemma proved once for all tables.
-/
set_option linter.unusedSectionVars false
namespace PysphVerif.C08
open PysphVerif.Kernel PysphVerif.Poly PysphVerif.Gen.Kernels Set

/-! ## facts about the generated tables (re-checked against today's source) -/

/-- pieces are consecutive from `q = 0` to `radius_scale`; dimensions are 1–3;
`kernel` and `dwdq` scale as `h^-dim`; `fac > 0` -/
theorem table_wellformed : ∀ K ∈ all, chainOk K = true ∧ 1 ≤ K.dim ∧ K.dim ≤ 3 ∧
    K.hpowW = K.dim ∧ K.hpowDw = K.dim ∧ 0 < K.facQ ∧ 0 < K.rmin := by decide +kernel

/-- beyond the last breakpoint every polynomial is zero, and a piece that is
closed at the edge vanishes there (value and `dwdq`) -/
theorem table_support : ∀ K ∈ all, supportOk K = true := by decide +kernel

/-- the `dwdq` coefficient lists are the formal derivatives of the `kernel`
lists (with the `exp(-q²)` product rule for the Gaussian family) -/
theorem table_dwdq_is_derivative : ∀ K ∈ all, derivOk K = true := by decide +kernel

/-- `gradient_h = −fac·h^-(d+1)·(d·w + q·w')`, coefficient-wise -/
theorem table_gradh : ∀ K ∈ all, gradhOk K = true := by decide +kernel

/-- sign certificate: `dwdq ≤ 0` on every piece and no upward jump (super-Gaussian exempt) -/
theorem table_dw_nonpos : ∀ K ∈ all, K.name ≠ "SuperGaussian" → signOk K = true := by
  decide +kernel

/-- spline and Wendland families: value and first derivative match at every
breakpoint and vanish at the support edge (the Gaussian family is truncated) -/
theorem table_pieces_C1 : ∀ K ∈ all, K.gauss = false → c1Ok K = true := by decide +kernel

/-- the `rij ≤ 1e-12` guard returns zero -/
theorem table_origin : ∀ K ∈ all, originOk K = true := by decide +kernel

/-- `grad[i] = wdash · h⁻¹ · rij⁻¹ · xij[i]` -/
theorem table_gradient_shape : ∀ K ∈ all, gradOk K = true := by decide +kernel

/-- polynomial kernels: `S_d · fac · Σ_pieces ∫ q^(d-1) w(q) dq = 1` exactly, the
powers of π cancelling (`S_1 = 2, S_2 = 2π, S_3 = 4π`) -/
theorem table_normalised : ∀ K ∈ all, K.gauss = false → normOk K = true := by decide +kernel

/-- Gaussian family: `fac = π^(-d/2)` -/
theorem table_gauss_fac : ∀ K ∈ all, K.gauss = true → gaussFacOk K = true := by decide +kernel

/-! ## the property, over ℝ -/

/-- **support**: kernel, `dwdq` and all three gradient components vanish for
`r ≥ radius_scale · h`. -/
theorem support (K : KTable) (hK : K ∈ all) (r h : ℝ) (hh : 0 < h)
    (hr : (K.radius : ℝ) * h ≤ r) :
    W K r h = 0 ∧ dwdq K r h = 0 ∧
      ∀ x0 x1 x2 : ℝ, gradient K 0 x0 x1 x2 r h = 0 ∧ gradient K 1 x0 x1 x2 r h = 0 ∧
        gradient K 2 x0 x1 x2 r h = 0 := by
  obtain ⟨h1, h2⟩ := W_support (table_support K hK) hh hr
  refine ⟨h1, h2, ?_⟩
  intro x0 x1 x2
  by_cases hr0 : (K.rmin : ℝ) < r
  · obtain ⟨g0, g1, g2⟩ := gradient_shape (table_gradient_shape K hK) hr0 x0 x1 x2 h
    rw [g0, g1, g2, h2]; simp
  · rw [not_lt] at hr0
    exact ⟨gradient_origin (table_origin K hK) hr0 _ _ _ _ _,
      gradient_origin (table_origin K hK) hr0 _ _ _ _ _,
      gradient_origin (table_origin K hK) hr0 _ _ _ _ _⟩

/-- **dwdq is the derivative of the kernel's shape function** at every `q` that is
not a breakpoint. -/
theorem dwdq_is_derivative (K : KTable) (hK : K ∈ all) (q : ℝ)
    (hq : ∀ p ∈ K.pieces, q ≠ (p.hi : ℝ)) : HasDerivAt (wR K) (dwR K q) q :=
  wR_hasDerivAt (table_dwdq_is_derivative K hK) hq

/-- **dwdq is `h` times `dW/dr`** (for `r` above the `1e-12` guard, `r/h` not a breakpoint). -/
theorem dwdq_is_h_dWdr (K : KTable) (hK : K ∈ all) (r h : ℝ) (hr : (K.rmin : ℝ) < r)
    (hq : ∀ p ∈ K.pieces, r * h⁻¹ ≠ (p.hi : ℝ)) :
    HasDerivAt (fun r' => W K r' h) (dwdq K r h * h⁻¹) r := by
  have h1 := W_hasDerivAt_r (K := K) (r := r) (h := h) (dwdq_is_derivative K hK _ hq)
  obtain ⟨_, _, _, hw, hd, _, _⟩ := table_wellformed K hK
  refine h1.congr_deriv ?_
  unfold dwdq
  rw [if_pos hr, hw, hd]

/-- **gradient_h is `dW/dh`** (`r/h` not a breakpoint). -/
theorem gradh_is_dW_dh (K : KTable) (hK : K ∈ all) (r h : ℝ) (hh : 0 < h)
    (hq : ∀ p ∈ K.pieces, r * h⁻¹ ≠ (p.hi : ℝ)) :
    HasDerivAt (fun h' => W K r h') (gradH K r h) h :=
  W_hasDerivAt_h (table_gradh K hK) hh.ne' (dwdq_is_derivative K hK _ hq)

/-- **gradient shape**: above the guard the gradient is `dwdq · h⁻¹ / r · xij`, i.e.
`dW/dr` times the unit separation vector. -/
theorem gradient_is_dwdq_times_unit_vector (K : KTable) (hK : K ∈ all) (r h x0 x1 x2 : ℝ)
    (hr : (K.rmin : ℝ) < r) :
    gradient K 0 x0 x1 x2 r h = dwdq K r h * h⁻¹ / r * x0 ∧
    gradient K 1 x0 x1 x2 r h = dwdq K r h * h⁻¹ / r * x1 ∧
    gradient K 2 x0 x1 x2 r h = dwdq K r h * h⁻¹ / r * x2 :=
  gradient_shape (table_gradient_shape K hK) hr x0 x1 x2 h

/-- **gradient is zero at (and within `1e-12` of) `r = 0`**. -/
theorem gradient_zero_at_origin (K : KTable) (hK : K ∈ all) (r h x0 x1 x2 : ℝ)
    (hr : r ≤ (K.rmin : ℝ)) (i : ℕ) :
    dwdq K r h = 0 ∧ gradient K i x0 x1 x2 r h = 0 :=
  ⟨dwdq_origin (table_origin K hK) hr h, gradient_origin (table_origin K hK) hr i x0 x1 x2 h⟩

theorem facR_pos (K : KTable) (hK : K ∈ all) : 0 < facR K := by
  obtain ⟨_, _, _, _, _, hf, _⟩ := table_wellformed K hK
  have : (0 : ℝ) < (K.facQ : ℝ) := by exact_mod_cast hf
  exact mul_pos this (zpow_pos (Real.sqrt_pos.2 Real.pi_pos) _)

/-- **non-increasing in `r`** (every kernel except the super-Gaussian, at every `h > 0`),
across all breakpoints and the truncation edge. -/
theorem kernel_nonincreasing (K : KTable) (hK : K ∈ all) (hn : K.name ≠ "SuperGaussian")
    (h : ℝ) (hh : 0 < h) : AntitoneOn (fun r => W K r h) (Ici (0 : ℝ)) := by
  obtain ⟨hc, _⟩ := table_wellformed K hK
  have hanti := wR_antitone hc (table_support K hK) (table_dwdq_is_derivative K hK)
    (table_dw_nonpos K hK hn)
  intro x hx y hy hxy
  have hi : 0 ≤ h⁻¹ := (inv_pos.2 hh).le
  have hx' : (0 : ℝ) ≤ x * h⁻¹ := mul_nonneg hx hi
  have hy' : (0 : ℝ) ≤ y * h⁻¹ := mul_nonneg hy hi
  have := hanti (mem_Ici.2 hx') (mem_Ici.2 hy') (mul_le_mul_of_nonneg_right hxy hi)
  exact mul_le_mul_of_nonneg_left this (mul_nonneg (facR_pos K hK).le (pow_nonneg hi _))

/-- **non-negative** (every kernel except the super-Gaussian). -/
theorem kernel_nonneg (K : KTable) (hK : K ∈ all) (hn : K.name ≠ "SuperGaussian")
    (r h : ℝ) (hh : 0 < h) (hr : 0 ≤ r) : 0 ≤ W K r h := by
  obtain ⟨hc, _⟩ := table_wellformed K hK
  have hi : 0 ≤ h⁻¹ := (inv_pos.2 hh).le
  have := wR_nonneg hc (table_support K hK) (table_dwdq_is_derivative K hK)
    (table_dw_nonpos K hK hn) (mul_nonneg hr hi)
  exact mul_nonneg (mul_nonneg (facR_pos K hK).le (pow_nonneg hi _)) this

/-! ### spline and Wendland families: C¹, so no breakpoint needs to be excluded -/

/-- `dwdq` is the derivative of the shape function at EVERY `q` (breakpoints and the support
edge included) for the twelve polynomial tables. -/
theorem dwdq_is_derivative_everywhere (K : KTable) (hK : K ∈ all) (hg : K.gauss = false)
    (q : ℝ) : HasDerivAt (wR K) (dwR K q) q :=
  wR_hasDerivAt_C1 (table_wellformed K hK).1 (table_dwdq_is_derivative K hK)
    (table_pieces_C1 K hK hg) q

theorem dwdq_is_h_dWdr_everywhere (K : KTable) (hK : K ∈ all) (hg : K.gauss = false) (r h : ℝ)
    (hr : (K.rmin : ℝ) < r) : HasDerivAt (fun r' => W K r' h) (dwdq K r h * h⁻¹) r := by
  have h1 := W_hasDerivAt_r (K := K) (r := r) (h := h) (dwdq_is_derivative_everywhere K hK hg _)
  obtain ⟨_, _, _, hw, hd, _, _⟩ := table_wellformed K hK
  refine h1.congr_deriv ?_
  unfold dwdq
  rw [if_pos hr, hw, hd]

theorem gradh_is_dW_dh_everywhere (K : KTable) (hK : K ∈ all) (hg : K.gauss = false) (r h : ℝ)
    (hh : 0 < h) : HasDerivAt (fun h' => W K r h') (gradH K r h) h :=
  W_hasDerivAt_h (table_gradh K hK) hh.ne' (dwdq_is_derivative_everywhere K hK hg _)

/-! ### normalisation (radial form: `∫_{ℝ^d} W = S_d ∫₀^∞ r^(d-1) W dr`, the polar-coordinate
step itself is not mechanised) -/

/-- **normalised**: `S_d · fac · ∫₀^R q^(d-1) w(q) dq = 1` for every polynomial kernel table,
where `w` is the (piece-wise, `lookup`-based) shape function. -/
theorem normalised (K : KTable) (hK : K ∈ all) (hg : K.gauss = false) :
    sphereR K.dim * facR K * ∫ x in (0 : ℝ)..(K.radius : ℝ), x ^ (K.dim - 1) * wR K x = 1 :=
  radial_normalised (table_wellformed K hK).1 (table_normalised K hK hg)

/-- … and at every smoothing length: `S_d · ∫₀^{R·h} r^(d-1) W(r,h) dr = 1`. -/
theorem normalised_every_h (K : KTable) (hK : K ∈ all) (hg : K.gauss = false) (h : ℝ)
    (hh : 0 < h) :
    sphereR K.dim * ∫ r in (0 : ℝ)..((K.radius : ℝ) * h), r ^ (K.dim - 1) * W K r h = 1 := by
  obtain ⟨_, hd1, _, hw, _, _, _⟩ := table_wellformed K hK
  rw [W_radial_integral K hw hd1 hh, ← mul_assoc]
  exact normalised K hK hg

/-- Gaussian family: `fac · π^(d/2) = 1`. -/
theorem gauss_family_fac (K : KTable) (hK : K ∈ all) (hg : K.gauss = true) :
    facR K * Real.sqrt Real.pi ^ K.dim = 1 := by
  have h := table_gauss_fac K hK hg
  simp only [gaussFacOk, Bool.and_eq_true, beq_iff_eq] at h
  have hs : Real.sqrt Real.pi ≠ 0 := (Real.sqrt_pos.2 Real.pi_pos).ne'
  unfold facR
  rw [h.1.2, h.2, zpow_neg, zpow_natCast]
  simp [hs]

/-- Gaussian family: the UNTRUNCATED kernel `fac·exp(-|x|²)` has unit mass over `ℝ^d`
(`exp(-|x|²) = Π exp(-xᵢ²)`, so the mass is `fac · (∫ exp(-x²))^d`); the code truncates it at
`q = 3` (`table_support`), which removes the stated tail. -/
theorem gaussian_untruncated_mass (K : KTable) (hK : K ∈ all) (hg : K.gauss = true) :
    facR K * (∫ x : ℝ, Real.exp (-x ^ 2)) ^ K.dim = 1 := by
  have h := integral_gaussian 1
  simp only [neg_mul, one_mul, div_one] at h
  rw [h]
  exact gauss_family_fac K hK hg

/-! ## the compiled wrappers `c_kernels.<Kernel>Wrapper`: histories of calls on one object

`Gen/KernelWrapper.lean` is the statement-by-statement transcription of the template class
`${classname}Wrapper` of `c_kernels.pyx.mako` (regenerated on every run).  A wrapper re-uses two
scratch members (`xij`, `grad`) for every call; callers keep the returned results while they
go on calling it.  `observe o code s cs` is what a caller that kept EVERY result of the
history `cs` (started with arbitrary scratch contents `s`) sees when it looks at them after
the last call; `observeNow` what it saw at each return. -/
section wrapper
open PysphVerif.KernelWrapper

/-- the template's `kernel` and `gradient` bodies are the expected ones: three separation
stores into the object's own `xij`, the Euclidean norm, the kernel call, and a `return` of a
number / of a tuple `grad[0], grad[1], grad[2]` of new floats -/
theorem table_wrapper_code : Gen.KernelWrapper.code = canonical := by decide

/-- no wrapper method returns an object over the wrapper's own storage -/
theorem table_wrapper_returns_values :
    Gen.KernelWrapper.code.kernel.ret.isValue = true ∧
      Gen.KernelWrapper.code.gradient.ret.isValue = true := by decide

/-- **retained results are never changed by later calls** — any number type, any kernel object
(even one whose `gradient` leaves stale components), any history, any initial scratch contents -/
theorem wrapper_retained_results_unchanged {α : Type} (o : Ops α) (s : St α)
    (cs : List (Call α)) :
    observe o Gen.KernelWrapper.code s cs = observeNow o Gen.KernelWrapper.code s cs :=
  observe_eq_observeNow o _ table_wrapper_returns_values.1 table_wrapper_returns_values.2 cs s

/-- **history independence**: with a kernel whose `gradient` stores all three components, every
retained result of every history is the pure function of that call's own arguments
(`xij = xi − xj`, `rij = sqrt(xij·xij)`, then the kernel's `kernel` / `gradient`) -/
theorem wrapper_history_independent {α : Type} (o : Ops α)
    (hfull : ∀ x r h b b', o.gradient x r h b = o.gradient x r h b') (z : V3 α) (s : St α)
    (cs : List (Call α)) :
    observe o Gen.KernelWrapper.code s cs = cs.map (pureResult o z) := by
  rw [table_wrapper_code]
  exact observe_canonical o hfull z cs s

/-- **the wrapper returns the kernel's numbers**: over ℝ, on every generated table, every history:
`Wrapper.kernel = W(|xi − xj|, h)`, `Wrapper.gradient[i] = gradient_i(xi − xj, |xi − xj|, h)` -/
theorem wrapper_returns_kernel_values (K : KTable) (s : St ℝ) (cs : List (Call ℝ)) :
    observe (realOps K) Gen.KernelWrapper.code s cs = cs.map (wrapperSpec K) := by
  rw [wrapper_history_independent (realOps K) (fun _ _ _ _ _ => rfl) ⟨0, 0, 0⟩ s cs]
  exact List.map_congr_left (fun c _ => pureResult_realOps K _ c)

/-- … hence `Wrapper.gradient` is `dW/dr` times the unit separation vector above the guard … -/
theorem wrapper_gradient_is_dWdr_times_unit_vector (K : KTable) (hK : K ∈ all) (c : Call ℝ)
    (hc : c.isGrad = true) (hr : (K.rmin : ℝ) < distR c) :
    wrapperSpec K c =
      [dwdq K (distR c) c.h * c.h⁻¹ / distR c * (sepR c).x,
       dwdq K (distR c) c.h * c.h⁻¹ / distR c * (sepR c).y,
       dwdq K (distR c) c.h * c.h⁻¹ / distR c * (sepR c).z] := by
  obtain ⟨g0, g1, g2⟩ := gradient_is_dwdq_times_unit_vector K hK (distR c) c.h
    (sepR c).x (sepR c).y (sepR c).z hr
  simp only [wrapperSpec, hc, if_true, g0, g1, g2]

/-- … and vanishes (all three components, and the kernel value) outside the support. -/
theorem wrapper_support (K : KTable) (hK : K ∈ all) (c : Call ℝ) (hh : 0 < c.h)
    (hr : (K.radius : ℝ) * c.h ≤ distR c) :
    wrapperSpec K c = if c.isGrad then [0, 0, 0] else [0] := by
  obtain ⟨hw, _, hg⟩ := support K hK (distR c) c.h hh hr
  obtain ⟨g0, g1, g2⟩ := hg (sepR c).x (sepR c).y (sepR c).z
  unfold wrapperSpec
  split <;> simp [hw, g0, g1, g2]

/-- the model can tell the difference: a `return` of a view of `self.grad` is overwritten by
the next call (integers, a toy kernel whose gradient is the separation itself) -/
example :
    let o : Ops Int := ⟨(· - ·), (· + ·), (· * ·), id, fun _ r _ => r, fun x _ _ _ => x, 0⟩
    let viewCode : Code := { canonical with gradient := { canonical.gradient with ret := .view .grad } }
    let cs : List (Call Int) := [⟨true, ⟨1, 0, 0⟩, ⟨0, 0, 0⟩, 1⟩, ⟨true, ⟨5, 7, 0⟩, ⟨0, 0, 0⟩, 1⟩]
    observeNow o viewCode ⟨⟨0, 0, 0⟩, ⟨0, 0, 0⟩⟩ cs = [[1, 0, 0], [5, 7, 0]] ∧
    observe o viewCode ⟨⟨0, 0, 0⟩, ⟨0, 0, 0⟩⟩ cs = [[5, 7, 0], [5, 7, 0]] ∧
    observe o canonical ⟨⟨9, 9, 9⟩, ⟨9, 9, 9⟩⟩ cs = [[1, 0, 0], [5, 7, 0]] := by decide

/-- … and a kernel that skips its stores (here: outside `|x| < 3`) makes results depend on the
history although they are values — the hypothesis `hfull` is what excludes it -/
example :
    let o : Ops Int := ⟨(· - ·), (· + ·), (· * ·), id, fun _ r _ => r,
      fun x _ _ b => if x.x < 3 then x else b, 0⟩
    let cs : List (Call Int) := [⟨true, ⟨1, 0, 0⟩, ⟨0, 0, 0⟩, 1⟩, ⟨true, ⟨5, 7, 0⟩, ⟨0, 0, 0⟩, 1⟩]
    observe o canonical ⟨⟨0, 0, 0⟩, ⟨0, 0, 0⟩⟩ cs = [[1, 0, 0], [1, 0, 0]] := by decide

end wrapper

/-! ## non-vacuity: the tables are not trivial -/

example : CubicSpline_2 ∈ all ∧ (CubicSpline_2.pieceAt (3/2)).w = [2, -3, 3/2, -1/4] ∧
    eval (CubicSpline_2.pieceAt (3/2)).w (3/2) = 1/32 := by decide +kernel

example : all.length = 21 ∧ (all.filter (fun K => K.gauss)).length = 6 ∧
    (all.filter (fun K => K.name == "SuperGaussian")).length = 3 := by decide +kernel

/-- the breakpoint hypothesis of `dwdq_is_derivative` / `gradh_is_dW_dh` is satisfiable:
`q = 1/2` is interior to the first piece of the 1-D cubic spline -/
example : CubicSpline_1 ∈ all ∧ ∀ p ∈ CubicSpline_1.pieces, (1 / 2 : ℝ) ≠ (p.hi : ℝ) := by
  refine ⟨by decide +kernel, ?_⟩
  intro p hp
  have h : ∀ p ∈ CubicSpline_1.pieces, (1 / 2 : ℚ) ≠ p.hi := by decide +kernel
  intro heq
  have h2 : ((1 / 2 : ℚ) : ℝ) = (p.hi : ℝ) := by push_cast; exact heq
  exact h p hp (Rat.cast_injective h2)

/-- the exemption is needed: the super-Gaussian's polynomial factor is negative at `q = 2` -/
example : eval (SuperGaussian_3.pieceAt 2).w 2 = -3/2 := by decide +kernel

end PysphVerif.C08
