import PysphVerif.Gen.Kernels
/-! # C08 — property theorems (under construction) -/
namespace PysphVerif.C08
open PysphVerif.Kernel PysphVerif.Gen.Kernels
theorem tables_chain : ∀ K ∈ all, chainOk K = true := by decide +kernel
end PysphVerif.C08
