import PysphVerif.Lemmas.AdaptDt
/-!
# C19 — the adaptive time step is the documented minimum over all particles

Property theorems only (helper lemmas live in `Lemmas/`).  They are about
`Model/AdaptDt.lean`, which transcribes `Integrator.compute_time_step` and
friends and is tied to the code by bit-exact differential execution.

All statements hold over every linearly ordered field `α`, every list of
arrays (any number, some empty, some lacking properties), every `cfl`, with
`sqrt` an arbitrary function that is positive on positives and monotone on
non-negatives.
-/
set_option linter.unusedSectionVars false
set_option linter.unusedTactic false
set_option linter.unreachableTactic false
namespace PysphVerif.C19
open PysphVerif.AdaptDt

variable {α : Type} [Field α] [LinearOrder α] [IsStrictOrderedRing α]

/-- all `dt_adapt` values of real particles, over the arrays that have it -/
def adaptVals (arrs : List (Arr α)) : List α := critVals Arr.dtAdapt arrs

/-! ## `hmin` is the smallest smoothing length -/

/-- `compute_h_minimum` returns +inf exactly when there is no particle at all,
and otherwise a smoothing length that occurs and is ≤ every other one. -/
theorem hmin_is_smallest_h (arrs : List (Arr α)) (hwf : WF arrs) :
    match hMinimum arrs with
    | none => allH arrs = []
    | some h => h ∈ allH arrs ∧ ∀ x ∈ allH arrs, h ≤ x :=
  hMinimum_isExtMin arrs hwf

/-! ## explicit `dt_adapt` override -/

private theorem explicit_fold (arrs seen : List (Arr α)) (e : Ext α)
    (he : IsExtMin e (adaptVals seen)) :
    ∃ e', arrs.foldl explicitStep (some e) = some e' ∧
      IsExtMin e' (adaptVals (seen ++ arrs)) := by
  induction arrs generalizing seen e with
  | nil => exact ⟨e, rfl, by simpa using he⟩
  | cons pa rest ih =>
    simp only [List.foldl_cons]
    have happ : adaptVals (seen ++ [pa]) = adaptVals seen ++
        (match pa.dtAdapt with | some v => v | none => []) := by
      simp only [adaptVals, critVals, List.flatMap_append, List.flatMap_cons, List.flatMap_nil,
        List.append_nil]
      cases pa.dtAdapt <;> rfl
    simp only [explicitStep]
    cases hda : pa.dtAdapt with
    | none =>
      have h1 : IsExtMin e (adaptVals (seen ++ [pa])) := by
        rw [happ, hda]; simpa using he
      obtain ⟨e', h, h'⟩ := ih (seen ++ [pa]) e h1
      exact ⟨e', h, by simpa [List.append_assoc] using h'⟩
    | some vals =>
      by_cases hlen : vals.length > 0
      · have hne : vals ≠ [] := by
          intro h; rw [h] at hlen; exact absurd hlen (by simp)
        obtain ⟨m, hm⟩ := npMin_isSome_of_ne_nil hne
        simp only [hlen, if_true, hm]
        have h1 : IsExtMin (extMin e (some m)) (adaptVals (seen ++ [pa])) := by
          rw [happ, hda]; exact isExtMin_append_min he (npMin_spec hm)
        obtain ⟨e', h, h'⟩ := ih (seen ++ [pa]) _ h1
        exact ⟨e', h, by simpa [List.append_assoc] using h'⟩
      · have hnil : vals = [] := by
          cases vals with
          | nil => rfl
          | cons a as => exact absurd (by simp) hlen
        simp only [hlen, if_false, extMin_none_right]
        have h1 : IsExtMin e (adaptVals (seen ++ [pa])) := by
          rw [happ, hda, hnil]; simpa using he
        obtain ⟨e', h, h'⟩ := ih (seen ++ [pa]) e h1
        exact ⟨e', h, by simpa [List.append_assoc] using h'⟩

/-- `_get_explicit_dt_adapt`: when some array carries `dt_adapt`, the result is
the minimum of `dt_adapt` over the real particles of all arrays if that is
positive, `None` if it is not, `inf` if no real particle carries the property;
it never raises.  Without the property the result is `None`. -/
theorem explicit_spec (arrs : List (Arr α)) :
    (arrs.any (fun pa => pa.dtAdapt.isSome) = false → explicitDtAdapt arrs = Res.none) ∧
    (arrs.any (fun pa => pa.dtAdapt.isSome) = true →
      (adaptVals arrs = [] ∧ explicitDtAdapt arrs = Res.inf) ∨
      (∃ m, m ∈ adaptVals arrs ∧ (∀ x ∈ adaptVals arrs, m ≤ x) ∧
        explicitDtAdapt arrs = if 0 < m then Res.val m else Res.none)) := by
  constructor
  · intro h; simp [explicitDtAdapt, explicitDtAdaptWith, hasDtAdapt, h]
  · intro h
    obtain ⟨e', hf, he'⟩ := explicit_fold arrs [] none (by simp [adaptVals, critVals, IsExtMin])
    simp only [List.nil_append] at he'
    cases e' with
    | none =>
      left
      refine ⟨he', ?_⟩
      simp only [explicitDtAdapt, explicitDtAdaptWith, hasDtAdapt, h, if_true]
      rw [hf]
    | some m =>
      right
      refine ⟨m, he'.1, he'.2, ?_⟩
      simp only [explicitDtAdapt, explicitDtAdaptWith, hasDtAdapt, h, if_true]
      rw [hf]

/-- The explicit value, when there is one, is what `compute_time_step` returns. -/
theorem explicit_override (sqrt : α → α) (arrs : List (Arr α)) (cfl d : α)
    (fixedH : Option (Ext α)) (h : explicitDtAdapt arrs = Res.val d) :
    computeTimeStep sqrt arrs cfl fixedH = Res.val d := by
  simp [computeTimeStep, computeTimeStepFrom, h]

/-! ## the three-criterion formula -/

/-- the candidate steps of the criteria that are present and positive -/
def candidates (sqrt : α → α) (arrs : List (Arr α)) (h : α) : List α :=
  (if 0 < (factors arrs).1 then [h / (factors arrs).1] else []) ++
  (if 0 < (factors arrs).2.1 then [sqrt (h / sqrt (factors arrs).2.1)] else []) ++
  (if 0 < (factors arrs).2.2 then [h / (factors arrs).2.2] else [])

private theorem extMin3 (a b c : Ext α) (la lb lc : List α)
    (ha : IsExtMin a la) (hb : IsExtMin b lb) (hc : IsExtMin c lc) :
    IsExtMin (extMin (extMin a b) c) (la ++ lb ++ lc) := by
  have hab : IsExtMin (extMin a b) (la ++ lb) := by
    cases b with
    | none =>
      have : lb = [] := hb
      subst this; rw [extMin_none_right]; simpa using ha
    | some m => exact isExtMin_append_min ha hb
  cases c with
  | none =>
    have : lc = [] := hc
    subst this; rw [extMin_none_right]; simpa using hab
  | some m => exact isExtMin_append_min hab hc

/-- `compute_time_step` without an explicit `dt_adapt`: the result is `None`
when no criterion is present and positive, and otherwise `cfl` times the
smallest of `hmin/max(dt_cfl)`, `sqrt(hmin/sqrt(max(dt_force)))`,
`hmin/max(dt_visc)` over the criteria that are present and positive (`None`
again if that minimum is not positive). -/
theorem formula (sqrt : α → α) (arrs : List (Arr α)) (cfl h : α)
    (hexp : explicitDtAdapt arrs = Res.none) (hh : hMinimum arrs = some h) :
    (candidates sqrt arrs h = [] ∧ computeTimeStep sqrt arrs cfl none = Res.none) ∨
    (∃ m, m ∈ candidates sqrt arrs h ∧ (∀ c ∈ candidates sqrt arrs h, m ≤ c) ∧
      computeTimeStep sqrt arrs cfl none = if m ≤ 0 then Res.none else Res.val (cfl * m)) := by
  have key : IsExtMin
      (extMin (extMin (if 0 < (factors arrs).1 then some (h / (factors arrs).1) else none)
        (if 0 < (factors arrs).2.1 then some (sqrt (h / sqrt (factors arrs).2.1)) else none))
        (if 0 < (factors arrs).2.2 then some (h / (factors arrs).2.2) else none))
      (candidates sqrt arrs h) := by
    unfold candidates
    apply extMin3
    · split <;> simp [IsExtMin]
    · split <;> simp [IsExtMin]
    · split <;> simp [IsExtMin]
  have hct : computeTimeStep sqrt arrs cfl none =
      match (extMin (extMin (if 0 < (factors arrs).1 then some (h / (factors arrs).1) else none)
        (if 0 < (factors arrs).2.1 then some (sqrt (h / sqrt (factors arrs).2.1)) else none))
        (if 0 < (factors arrs).2.2 then some (h / (factors arrs).2.2) else none)) with
      | none => Res.none
      | some m => if m ≤ 0 then Res.none else Res.val (cfl * m) := by
    simp only [computeTimeStep, computeTimeStepFrom, hexp, hh]
    rfl
  rw [hct]
  generalize (extMin (extMin (if 0 < (factors arrs).1 then some (h / (factors arrs).1) else none)
        (if 0 < (factors arrs).2.1 then some (sqrt (h / sqrt (factors arrs).2.1)) else none))
        (if 0 < (factors arrs).2.2 then some (h / (factors arrs).2.2) else none)) = e at key
  cases e with
  | none => left; exact ⟨key, rfl⟩
  | some m => right; exact ⟨m, key.1, key.2, rfl⟩

/-- The maxima entering the formula are taken over *all* arrays that have the
criterion: each factor dominates every real particle's value and is either
`-1` (criterion absent / no particle) or one of those values. -/
theorem factors_are_maxima (arrs : List (Arr α)) :
    ((∀ x ∈ critVals Arr.dtCfl arrs, x ≤ (factors arrs).1) ∧
      ((factors arrs).1 = -1 ∨ (factors arrs).1 ∈ critVals Arr.dtCfl arrs)) ∧
    ((∀ x ∈ critVals Arr.dtForce arrs, x ≤ (factors arrs).2.1) ∧
      ((factors arrs).2.1 = -1 ∨ (factors arrs).2.1 ∈ critVals Arr.dtForce arrs)) ∧
    ((∀ x ∈ critVals Arr.dtVisc arrs, x ≤ (factors arrs).2.2) ∧
      ((factors arrs).2.2 = -1 ∨ (factors arrs).2.2 ∈ critVals Arr.dtVisc arrs)) :=
  ⟨factor_spec _ arrs, factor_spec _ arrs, factor_spec _ arrs⟩

/-! ## the value never exceeds what any single particle allows -/

/-- Every particle `i` (smoothing length `hi`, anywhere) and every positive
criterion value `v` of any real particle bound the step:
`dt ≤ cfl·hi/v` (CFL and viscous criteria), `dt ≤ cfl·sqrt(hi/sqrt v)` (force). -/
theorem never_exceeds_any_particle (sqrt : α → α)
    (sqrt_pos : ∀ x, 0 < x → 0 < sqrt x)
    (sqrt_mono : ∀ x y, 0 ≤ x → x ≤ y → sqrt x ≤ sqrt y)
    (arrs : List (Arr α)) (hwf : WF arrs) (cfl d : α) (hcfl : 0 ≤ cfl)
    (hpos : ∀ x ∈ allH arrs, 0 ≤ x)
    (hexp : explicitDtAdapt arrs = Res.none)
    (hres : computeTimeStep sqrt arrs cfl none = Res.val d) :
    ∀ hi ∈ allH arrs,
      (∀ v ∈ critVals Arr.dtCfl arrs, 0 < v → d ≤ cfl * (hi / v)) ∧
      (∀ v ∈ critVals Arr.dtForce arrs, 0 < v → d ≤ cfl * sqrt (hi / sqrt v)) ∧
      (∀ v ∈ critVals Arr.dtVisc arrs, 0 < v → d ≤ cfl * (hi / v)) := by
  intro hi hhi
  have hmin := hmin_is_smallest_h arrs hwf
  cases hh : hMinimum arrs with
  | none =>
    simp only [computeTimeStep, computeTimeStepFrom, hexp, hh] at hres
    cases hres
  | some h =>
    rw [hh] at hmin
    obtain ⟨hmem, hle⟩ := hmin
    have hh0 : 0 ≤ h := hpos h hmem
    have hhi' : h ≤ hi := hle hi hhi
    obtain ⟨⟨c1, _⟩, ⟨f1, _⟩, ⟨v1, _⟩⟩ := factors_are_maxima arrs
    rcases formula sqrt arrs cfl h hexp hh with ⟨_, hnone⟩ | ⟨m, hm, hmle, hval⟩
    · rw [hnone] at hres; cases hres
    · rw [hval] at hres
      by_cases hm0 : m ≤ 0
      · simp [hm0] at hres
      · simp only [hm0, if_false, Res.val.injEq] at hres
        subst hres
        refine ⟨?_, ?_, ?_⟩
        · intro v hv hv0
          have hfv : v ≤ (factors arrs).1 := c1 v hv
          have hf0 : 0 < (factors arrs).1 := lt_of_lt_of_le hv0 hfv
          have hc : h / (factors arrs).1 ∈ candidates sqrt arrs h := by
            simp [candidates, hf0]
          have h1 : m ≤ h / (factors arrs).1 := hmle _ hc
          have h2 : h / (factors arrs).1 ≤ hi / v :=
            div_le_div₀ (le_trans hh0 hhi') hhi' hv0 hfv
          exact mul_le_mul_of_nonneg_left (le_trans h1 h2) hcfl
        · intro v hv hv0
          have hfv : v ≤ (factors arrs).2.1 := f1 v hv
          have hf0 : 0 < (factors arrs).2.1 := lt_of_lt_of_le hv0 hfv
          have hc : sqrt (h / sqrt (factors arrs).2.1) ∈ candidates sqrt arrs h := by
            simp [candidates, hf0]
          have h1 : m ≤ sqrt (h / sqrt (factors arrs).2.1) := hmle _ hc
          have hs : sqrt v ≤ sqrt (factors arrs).2.1 := sqrt_mono _ _ (le_of_lt hv0) hfv
          have hsv : 0 < sqrt v := sqrt_pos _ hv0
          have h2 : h / sqrt (factors arrs).2.1 ≤ hi / sqrt v :=
            div_le_div₀ (le_trans hh0 hhi') hhi' hsv hs
          have h3 : 0 ≤ h / sqrt (factors arrs).2.1 :=
            div_nonneg hh0 (le_of_lt (sqrt_pos _ hf0))
          exact mul_le_mul_of_nonneg_left (le_trans h1 (sqrt_mono _ _ h3 h2)) hcfl
        · intro v hv hv0
          have hfv : v ≤ (factors arrs).2.2 := v1 v hv
          have hf0 : 0 < (factors arrs).2.2 := lt_of_lt_of_le hv0 hfv
          have hc : h / (factors arrs).2.2 ∈ candidates sqrt arrs h := by
            simp [candidates, hf0]
          have h1 : m ≤ h / (factors arrs).2.2 := hmle _ hc
          have h2 : h / (factors arrs).2.2 ≤ hi / v :=
            div_le_div₀ (le_trans hh0 hhi') hhi' hv0 hfv
          exact mul_le_mul_of_nonneg_left (le_trans h1 h2) hcfl

/-- With an explicit `dt_adapt` the step is ≤ every real particle's value. -/
theorem explicit_never_exceeds (sqrt : α → α) (arrs : List (Arr α)) (cfl d : α)
    (fixedH : Option (Ext α)) (h : explicitDtAdapt arrs = Res.val d) :
    computeTimeStep sqrt arrs cfl fixedH = Res.val d ∧ ∀ x ∈ adaptVals arrs, d ≤ x := by
  refine ⟨explicit_override sqrt arrs cfl d fixedH h, ?_⟩
  obtain ⟨h1, h2⟩ := explicit_spec arrs
  by_cases hany : arrs.any (fun pa => pa.dtAdapt.isSome) = true
  · rcases h2 hany with ⟨_, hinf⟩ | ⟨m, _, hle, hval⟩
    · rw [hinf] at h; cases h
    · rw [hval] at h
      by_cases hm : 0 < m
      · simp only [hm, if_true, Res.val.injEq] at h
        subst h; exact hle
      · simp [hm] at h
  · have : arrs.any (fun pa => pa.dtAdapt.isSome) = false := by simpa using hany
    rw [h1 this] at h; cases h

/-! ## fallback -/

/-- When no criterion applies the solver keeps the fixed (undamped) step. -/
theorem fallback_when_none (sqrt : α → α) (arrs : List (Arr α)) (cfl und : α)
    (fixedH : Option (Ext α)) (h : computeTimeStep sqrt arrs cfl fixedH = Res.none) :
    solverTimestep sqrt arrs cfl und fixedH = Res.val und := by
  simp [solverTimestep, solverTimestepOf, h]

/-- and otherwise exactly what the integrator proposed. -/
theorem solver_uses_integrator_value (sqrt : α → α) (arrs : List (Arr α)) (cfl und d : α)
    (fixedH : Option (Ext α)) (h : computeTimeStep sqrt arrs cfl fixedH = Res.val d) :
    solverTimestep sqrt arrs cfl und fixedH = Res.val d := by
  simp [solverTimestep, solverTimestepOf, h]

/-! ## later calls: the cached `_has_dt_adapt` flag -/

/-- As long as the set of arrays carrying `dt_adapt` is what it was when the
flag was cached (particles may come and go, the property does not), a later
call returns exactly what a first call on the current arrays would: the cache
never makes the step depend on the history of the particle data. -/
theorem cached_flag_harmless (sqrt : α → α) (arrs0 arrs : List (Arr α)) (cfl : α)
    (fixedH : Option (Ext α)) (h : hasDtAdapt arrs = hasDtAdapt arrs0) :
    computeTimeStepCached (hasDtAdapt arrs0) sqrt arrs cfl fixedH =
      computeTimeStep sqrt arrs cfl fixedH := by
  simp [computeTimeStepCached, computeTimeStep, explicitDtAdapt, h]

/-! ## whole histories: the integrator as a state machine

`set_fixed_h` and `compute_time_step` are called many times in a run, on
arrays that change in between.  The theorems below say that the state the
integrator carries (`_has_dt_adapt`, `fixed_h`, `h_minimum`) never makes a
step depend on anything but (i) the arrays *now*, (ii) the smallest `h` at the
latest `set_fixed_h(True)` while it is in force, and (iii) whether some array
carried `dt_adapt` at the first call. -/

theorem irun_snoc (sqrt : α → α) (ops : List (IOp α)) (op : IOp α) :
    irun sqrt (ops ++ [op]) = (istep sqrt (irun sqrt ops) op).1 := by
  simp [irun, List.foldl_append]

theorem lastFixed_snoc (ops : List (IOp α)) (op : IOp α) :
    lastFixed (ops ++ [op]) = lastFixedStep (lastFixed ops) op := by
  simp [lastFixed, List.foldl_append]

theorem flagOf_snoc (ops : List (IOp α)) (op : IOp α) :
    flagOf (ops ++ [op]) = flagStep (flagOf ops) op := by
  simp [flagOf, List.foldl_append]

/-- how the state after a history relates to the history -/
def Tracks (s : IState α) (ops : List (IOp α)) : Prop :=
  s.flag = flagOf ops ∧
  (s.fixedH = true → ∃ h, s.hMin = some h ∧ lastFixed ops = some h) ∧
  (s.fixedH = false → lastFixed ops = none)

theorem tracks_step (sqrt : α → α) (s : IState α) (ops : List (IOp α)) (op : IOp α)
    (h : Tracks s ops) : Tracks (istep sqrt s op).1 (ops ++ [op]) := by
  obtain ⟨hf, ht, hn⟩ := h
  unfold Tracks
  rw [lastFixed_snoc, flagOf_snoc]
  cases op with
  | setFixedH b arrs =>
    cases b with
    | true =>
      refine ⟨by simpa [istep, IState.setFixedH, flagStep] using hf, ?_, ?_⟩
      · intro _; exact ⟨hMinimum arrs, by simp [istep, IState.setFixedH], rfl⟩
      · intro hc; simp [istep, IState.setFixedH] at hc
    | false =>
      refine ⟨by simpa [istep, IState.setFixedH, flagStep] using hf, ?_, ?_⟩
      · intro hc; simp [istep, IState.setFixedH] at hc
      · intro _; rfl
  | cts arrs cfl =>
    have hflag : ∀ b, s.flag = some b → flagStep (flagOf ops) (IOp.cts arrs cfl) = some b := by
      intro b hb; rw [← hf, hb]; rfl
    have hflag0 : s.flag = none →
        flagStep (flagOf ops) (IOp.cts arrs cfl) = some (hasDtAdapt arrs) := by
      intro hb; rw [← hf, hb]; rfl
    simp only [istep, IState.cts, lastFixedStep]
    cases hsf : s.flag with
    | none =>
      rw [hflag0 hsf]
      simp only [Option.getD_none]
      cases hex : explicitDtAdaptWith (hasDtAdapt arrs) arrs with
      | none =>
        simp only
        cases hfx : s.fixedH with
        | true =>
          obtain ⟨h, hh, hl⟩ := ht hfx
          simp only [hh, if_true]
          exact ⟨by first | rfl | trivial | simp, fun _ => ⟨h, rfl, hl⟩, fun hc => by simp at hc⟩
        | false =>
          simp only [Bool.false_eq_true, if_false]
          exact ⟨by first | rfl | trivial | simp, fun hc => by simp at hc, fun _ => hn hfx⟩
      | val d => exact ⟨by first | rfl | trivial | simp, ht, hn⟩
      | inf => exact ⟨by first | rfl | trivial | simp, ht, hn⟩
      | error => exact ⟨by first | rfl | trivial | simp, ht, hn⟩
    | some b =>
      rw [hflag b hsf]
      simp only [Option.getD_some]
      cases hex : explicitDtAdaptWith b arrs with
      | none =>
        simp only
        cases hfx : s.fixedH with
        | true =>
          obtain ⟨h, hh, hl⟩ := ht hfx
          simp only [hh, if_true]
          exact ⟨by first | rfl | trivial | simp, fun _ => ⟨h, rfl, hl⟩, fun hc => by simp at hc⟩
        | false =>
          simp only [Bool.false_eq_true, if_false]
          exact ⟨by first | rfl | trivial | simp, fun hc => by simp at hc, fun _ => hn hfx⟩
      | val d => exact ⟨by first | rfl | trivial | simp, ht, hn⟩
      | inf => exact ⟨by first | rfl | trivial | simp, ht, hn⟩
      | error => exact ⟨by first | rfl | trivial | simp, ht, hn⟩

theorem tracks_foldl (sqrt : α → α) (ops : List (IOp α)) (s : IState α) (ops0 : List (IOp α))
    (h : Tracks s ops0) :
    Tracks (ops.foldl (fun s op => (istep sqrt s op).1) s) (ops0 ++ ops) := by
  induction ops generalizing s ops0 with
  | nil => simpa using h
  | cons op ops ih =>
    have := ih (istep sqrt s op).1 (ops0 ++ [op]) (tracks_step sqrt s ops0 op h)
    simpa [List.append_assoc] using this

/-- every reachable integrator state tracks its history -/
theorem tracks_run (sqrt : α → α) (ops : List (IOp α)) : Tracks (irun sqrt ops) ops := by
  have h0 : Tracks (IState.init : IState α) [] :=
    ⟨rfl, fun hc => by simp [IState.init] at hc, fun _ => rfl⟩
  simpa [irun] using tracks_foldl sqrt ops IState.init [] h0

/-- **Any call of any history.**  After an arbitrary sequence `pre` of
`set_fixed_h` / `compute_time_step` calls on arbitrary (changing) arrays, the
next `compute_time_step` on `arrs` returns what the stateless formula gives for
`arrs`, with `hmin` the smallest `h` recorded at the latest `set_fixed_h(True)`
still in force (else the smallest `h` of `arrs`), and with the `dt_adapt` flag
of the first call. -/
theorem history_cts (sqrt : α → α) (pre : List (IOp α)) (arrs : List (Arr α)) (cfl : α) :
    ((irun sqrt pre).cts sqrt arrs cfl).2 =
      computeTimeStepCached ((flagOf pre).getD (hasDtAdapt arrs)) sqrt arrs cfl
        (lastFixed pre) := by
  obtain ⟨hf, ht, hn⟩ := tracks_run sqrt pre
  generalize irun sqrt pre = s at hf ht hn ⊢
  simp only [IState.cts, computeTimeStepCached, hf]
  generalize (flagOf pre).getD (hasDtAdapt arrs) = fl
  cases hex : explicitDtAdaptWith fl arrs with
  | none =>
    simp only
    cases hfx : s.fixedH with
    | true =>
      obtain ⟨h, hh, hl⟩ := ht hfx
      simp only [hh, if_true, hl]
    | false =>
      simp only [Bool.false_eq_true, if_false, hn hfx]
  | val d => rfl
  | inf => rfl
  | error => rfl

/-- **The caches are harmless.**  If the set of arrays carrying `dt_adapt` is
what it was at the first call, any later call of any history returns exactly
what a *fresh* integrator (one `set_fixed_h`, one `compute_time_step`) returns
on the current arrays — so every theorem above about `computeTimeStep` holds at
every step of every run. -/
theorem history_cts_fresh (sqrt : α → α) (pre : List (IOp α)) (arrs : List (Arr α)) (cfl : α)
    (hflag : ∀ b, flagOf pre = some b → b = hasDtAdapt arrs) :
    ((irun sqrt pre).cts sqrt arrs cfl).2 = computeTimeStep sqrt arrs cfl (lastFixed pre) := by
  rw [history_cts]
  cases hfo : flagOf pre with
  | none => rfl
  | some b => rw [hflag b hfo]; rfl

/-- `set_fixed_h(True)` always refreshes `h_minimum`: whatever happened before
(including an earlier `set_fixed_h(True)` on other smoothing lengths), the next
step uses the smallest `h` of the arrays given to the latest call. -/
theorem refix_refreshes (sqrt : α → α) (pre : List (IOp α)) (arrs' arrs : List (Arr α))
    (cfl : α) :
    ((irun sqrt (pre ++ [IOp.setFixedH true arrs'])).cts sqrt arrs cfl).2 =
      computeTimeStepCached ((flagOf pre).getD (hasDtAdapt arrs)) sqrt arrs cfl
        (some (hMinimum arrs')) := by
  rw [history_cts, lastFixed_snoc, flagOf_snoc]; rfl

/-- `set_fixed_h(False)` drops the cached value for good: the next step uses
the smallest `h` of the current arrays. -/
theorem unfix_recomputes (sqrt : α → α) (pre : List (IOp α)) (arrs' arrs : List (Arr α))
    (cfl : α) :
    ((irun sqrt (pre ++ [IOp.setFixedH false arrs'])).cts sqrt arrs cfl).2 =
      computeTimeStepCached ((flagOf pre).getD (hasDtAdapt arrs)) sqrt arrs cfl none := by
  rw [history_cts, lastFixed_snoc, flagOf_snoc]; rfl

/-- the `AttributeError` branch of the model (`fixed_h` set, `h_minimum` never
assigned) is unreachable -/
theorem fixed_has_hmin (sqrt : α → α) (ops : List (IOp α))
    (h : (irun sqrt ops).fixedH = true) : ((irun sqrt ops).hMin).isSome = true := by
  obtain ⟨h', hh, _⟩ := (tracks_run sqrt ops).2.1 h
  simp [hh]

/-- non-vacuity: a history with two `set_fixed_h(True)` calls on different `h` -/
example :
    let a : Arr ℚ := { nAll := 1, hAll := [2], dtAdapt := none,
                        dtCfl := some [1], dtForce := none, dtVisc := none }
    let b : Arr ℚ := { nAll := 1, hAll := [1], dtAdapt := none,
                        dtCfl := some [1], dtForce := none, dtVisc := none }
    ((irun (fun x => x) [IOp.setFixedH true [a], IOp.cts [a] 1, IOp.setFixedH true [b]]).cts
        (fun x => x) [b] 1).2 = Res.val 1 := by decide +kernel

/-! ## order independence

"The minimum over all particles" does not depend on how the particles are
split over arrays, on the order of the arrays, or on the order of the particles
inside an array: `hmin` and the explicit `dt_adapt` step are functions of the
*multiset* of values only.  (A scan that stopped early, skipped the first
array or compared only neighbours would break these.) -/

/-- the extended minimum of a list is unique and invariant under permutation -/
theorem extMin_unique_of_perm {e e' : Ext α} {l l' : List α}
    (he : IsExtMin e l) (he' : IsExtMin e' l') (hp : l.Perm l') : e = e' := by
  cases e with
  | none =>
    have hl : l = [] := he
    subst hl
    have hl' : l' = [] := List.Perm.eq_nil hp.symm
    subst hl'
    cases e' with
    | none => rfl
    | some m => exact absurd he'.1 (by simp)
  | some m =>
    obtain ⟨hm, hmin⟩ := he
    cases e' with
    | none =>
      have hl' : l' = [] := he'
      subst hl'
      have : l = [] := List.Perm.eq_nil hp
      subst this
      exact absurd hm (by simp)
    | some m' =>
      obtain ⟨hm', hmin'⟩ := he'
      have h1 : m ≤ m' := hmin m' (hp.mem_iff.mpr hm')
      have h2 : m' ≤ m := hmin' m (hp.mem_iff.mp hm)
      rw [le_antisymm h1 h2]

/-- `compute_h_minimum` depends only on the multiset of smoothing lengths. -/
theorem hmin_multiset_only (arrs arrs' : List (Arr α)) (hwf : WF arrs) (hwf' : WF arrs')
    (hp : (allH arrs).Perm (allH arrs')) : hMinimum arrs = hMinimum arrs' :=
  extMin_unique_of_perm (hMinimum_isExtMin arrs hwf) (hMinimum_isExtMin arrs' hwf') hp

/-- ... in particular not on the order in which the arrays are visited. -/
theorem hmin_array_order_independent (arrs arrs' : List (Arr α)) (hwf : WF arrs)
    (hp : arrs.Perm arrs') : hMinimum arrs = hMinimum arrs' := by
  refine hmin_multiset_only arrs arrs' hwf ?_ ?_
  · intro pa hpa; exact hwf pa (hp.mem_iff.mpr hpa)
  · exact List.Perm.flatMap_right _ hp

/-- `_get_explicit_dt_adapt` depends only on the multiset of `dt_adapt` values of
the real particles (given that some array carries the property in both). -/
theorem explicit_multiset_only (arrs arrs' : List (Arr α))
    (h : arrs.any (fun pa => pa.dtAdapt.isSome) = true)
    (h' : arrs'.any (fun pa => pa.dtAdapt.isSome) = true)
    (hp : (adaptVals arrs).Perm (adaptVals arrs')) :
    explicitDtAdapt arrs = explicitDtAdapt arrs' := by
  rcases (explicit_spec arrs).2 h with ⟨hnil, hr⟩ | ⟨m, hm, hmin, hr⟩
  · rcases (explicit_spec arrs').2 h' with ⟨_, hr'⟩ | ⟨m', hm', _, _⟩
    · rw [hr, hr']
    · rw [hnil] at hp
      rw [List.Perm.eq_nil hp.symm] at hm'
      exact absurd hm' (by simp)
  · rcases (explicit_spec arrs').2 h' with ⟨hnil', _⟩ | ⟨m', hm', hmin', hr'⟩
    · rw [hnil'] at hp
      rw [List.Perm.eq_nil hp] at hm
      exact absurd hm (by simp)
    · have h1 : m ≤ m' := hmin m' (hp.mem_iff.mpr hm')
      have h2 : m' ≤ m := hmin' m (hp.mem_iff.mp hm)
      rw [hr, hr', le_antisymm h1 h2]

/-- ... in particular not on the order in which the arrays are visited. -/
theorem explicit_array_order_independent (arrs arrs' : List (Arr α)) (hp : arrs.Perm arrs') :
    explicitDtAdapt arrs = explicitDtAdapt arrs' := by
  have hany : arrs.any (fun pa => pa.dtAdapt.isSome) = arrs'.any (fun pa => pa.dtAdapt.isSome) := by
    rw [Bool.eq_iff_iff]
    simp only [List.any_eq_true]
    constructor
    · rintro ⟨x, hx, hx'⟩; exact ⟨x, hp.mem_iff.mp hx, hx'⟩
    · rintro ⟨x, hx, hx'⟩; exact ⟨x, hp.mem_iff.mpr hx, hx'⟩
  cases hb : arrs.any (fun pa => pa.dtAdapt.isSome) with
  | false =>
    rw [(explicit_spec arrs).1 hb, (explicit_spec arrs').1 (hany ▸ hb)]
  | true =>
    refine explicit_multiset_only arrs arrs' hb (hany ▸ hb) ?_
    exact List.Perm.flatMap_right _ hp

private theorem factor_fold_ge (sel : Arr α → Option (List α)) (arrs : List (Arr α)) (acc : α) :
    acc ≤ arrs.foldl (factorStep sel) acc := by
  induction arrs generalizing acc with
  | nil => exact le_refl _
  | cons pa rest ih =>
    simp only [List.foldl_cons]
    refine le_trans ?_ (ih _)
    unfold factorStep
    cases sel pa with
    | none => exact le_refl _
    | some v =>
      simp only [pymax]
      split
      · exact le_of_lt ‹_›
      · exact le_refl _

private theorem factor_perm (sel : Arr α → Option (List α)) (arrs arrs' : List (Arr α))
    (hp : arrs.Perm arrs') :
    arrs.foldl (factorStep sel) (-1) = arrs'.foldl (factorStep sel) (-1) := by
  have hv : (critVals sel arrs).Perm (critVals sel arrs') := List.Perm.flatMap_right _ hp
  obtain ⟨hub, hmem⟩ := factor_spec sel arrs
  obtain ⟨hub', hmem'⟩ := factor_spec sel arrs'
  have hge := factor_fold_ge sel arrs (-1)
  have hge' := factor_fold_ge sel arrs' (-1)
  rcases hmem with h | h <;> rcases hmem' with h' | h'
  · rw [h, h']
  · exact le_antisymm (by rw [h]; exact hge') (hub _ (hv.mem_iff.mpr h'))
  · exact le_antisymm (hub' _ (hv.mem_iff.mp h)) (by rw [h']; exact hge)
  · exact le_antisymm (hub' _ (hv.mem_iff.mp h)) (hub _ (hv.mem_iff.mpr h'))

/-- the three criterion maxima do not depend on the order of the arrays -/
theorem factors_array_order_independent (arrs arrs' : List (Arr α)) (hp : arrs.Perm arrs') :
    factors arrs = factors arrs' := by
  simp only [factors, factor_perm _ arrs arrs' hp]

/-- **The whole of `compute_time_step` is independent of the order in which the
particle arrays are handed to the integrator.** -/
theorem compute_time_step_array_order_independent (sqrt : α → α) (arrs arrs' : List (Arr α))
    (cfl : α) (fixedH : Option (Ext α)) (hwf : WF arrs) (hp : arrs.Perm arrs') :
    computeTimeStep sqrt arrs cfl fixedH = computeTimeStep sqrt arrs' cfl fixedH := by
  simp only [computeTimeStep, computeTimeStepFrom,
    explicit_array_order_independent arrs arrs' hp,
    factors_array_order_independent arrs arrs' hp,
    hmin_array_order_independent arrs arrs' hwf hp]

/-- More particles never raise `hmin`: if every smoothing length present in
`arrs` is also present in `arrs'` (particles were added, arrays were split or
merged), the new minimum exists and is ≤ the old one.  (A scan that stops
early or skips an array breaks this.) -/
theorem hmin_antitone_in_particles (arrs arrs' : List (Arr α)) (hwf : WF arrs) (hwf' : WF arrs')
    (hsub : ∀ x ∈ allH arrs, x ∈ allH arrs') (h : α) (hh : hMinimum arrs = some h) :
    ∃ h', hMinimum arrs' = some h' ∧ h' ≤ h := by
  have h1 := hMinimum_isExtMin arrs hwf
  have h2 := hMinimum_isExtMin arrs' hwf'
  rw [hh] at h1
  obtain ⟨hm, _⟩ := h1
  cases hm' : hMinimum arrs' with
  | none =>
    rw [hm'] at h2
    have : allH arrs' = [] := h2
    have hx := hsub h hm
    rw [this] at hx
    exact absurd hx (by simp)
  | some m' =>
    rw [hm'] at h2
    exact ⟨m', rfl, h2.2 h (hsub h hm)⟩

/-- non-vacuity: the same five particles split and ordered in two ways -/
example :
    let a : Arr ℚ := { nAll := 3, hAll := [3, 1, 2], dtAdapt := some [5, 4, 6],
                        dtCfl := none, dtForce := none, dtVisc := none }
    let b : Arr ℚ := { nAll := 2, hAll := [7, 9], dtAdapt := some [8, 7],
                        dtCfl := none, dtForce := none, dtVisc := none }
    let c : Arr ℚ := { nAll := 4, hAll := [9, 2, 7, 1], dtAdapt := some [7, 6, 8, 4],
                        dtCfl := none, dtForce := none, dtVisc := none }
    let d : Arr ℚ := { nAll := 1, hAll := [3], dtAdapt := some [5],
                        dtCfl := none, dtForce := none, dtVisc := none }
    (allH [a, b]).Perm (allH [c, d]) ∧ hMinimum [a, b] = some 1 ∧ hMinimum [c, d] = some 1 ∧
    explicitDtAdapt [a, b] = Res.val 4 ∧ explicitDtAdapt [d, c] = Res.val 4 := by
  refine ⟨by decide, ?_, ?_, ?_, ?_⟩ <;> decide +kernel

/-! ## parallel runs -/

theorem reduceMin_spec (a : α) (others : List α) :
    ∃ m, reduceMin (some a) others = some m ∧ m ∈ a :: others ∧ ∀ o ∈ a :: others, m ≤ o := by
  induction others generalizing a with
  | nil => exact ⟨a, rfl, by simp, by simp⟩
  | cons o rest ih =>
    have hstep : reduceStep (some a) o = some (if o < a then o else a) := by
      simp only [reduceStep, extMin, extLt_some_some]
      by_cases h : o < a <;> simp [h]
    obtain ⟨m, hm, hmem, hle⟩ := ih (if o < a then o else a)
    refine ⟨m, by simpa [reduceMin, hstep] using hm, ?_, ?_⟩
    · simp only [List.mem_cons] at hmem ⊢
      rcases hmem with h | h
      · by_cases hc : o < a
        · right; left; simpa [hc] using h
        · left; simpa [hc] using h
      · right; right; exact h
    · intro x hx
      simp only [List.mem_cons] at hx
      have hmin : m ≤ (if o < a then o else a) := hle _ (by simp)
      rcases hx with rfl | rfl | hx
      · by_cases hc : o < x
        · simp only [hc, if_true] at hmin; exact le_trans hmin (le_of_lt hc)
        · simpa [hc] using hmin
      · by_cases hc : x < a
        · simpa [hc] using hmin
        · simp only [hc, if_false] at hmin; exact le_trans hmin (not_lt.mp hc)
      · exact hle x (by simp [hx])

/-- the offer of a rank whose `compute_time_step` returned `None` or a value -/
def offerOf (big : α) : Res α → α
  | Res.val d => d
  | _ => big

/-- **Parallel run = minimum over the ranks that have a constraint, else the fixed step.**
With `offers` = this rank's offer followed by the other ranks' (each a positive step or the
sentinel): if some rank offers less than the sentinel the result is the smallest offer (so it
never exceeds what any rank's particles allow); if none does, no criterion applies anywhere
and the fixed step is kept. -/
theorem par_is_min_or_fixed (big und : α) (loc : Res α) (others : List α)
    (hloc : loc = Res.none ∨ ∃ d, loc = Res.val d) :
    ∃ m, m ∈ offerOf big loc :: others ∧ (∀ o ∈ offerOf big loc :: others, m ≤ o) ∧
      solverTimestepPar big und loc others = if big ≤ m then Res.val und else Res.val m := by
  have hoff : parOffer big loc = some (some (offerOf big loc)) := by
    rcases hloc with rfl | ⟨d, rfl⟩ <;> rfl
  obtain ⟨m, hm, hmem, hle⟩ := reduceMin_spec (offerOf big loc) others
  exact ⟨m, hmem, hle, by simp [solverTimestepPar, solverTimestepParOrig, hoff, hm]⟩

/-- no rank has a constraint ⇒ the fixed step is kept (what the `fix:` commit restored) -/
theorem par_no_rank_constrained_keeps_fixed (big und : α) (others : List α)
    (h : ∀ o ∈ others, big ≤ o) :
    solverTimestepPar big und Res.none others = Res.val und := by
  obtain ⟨m, hmem, _, hres⟩ := par_is_min_or_fixed big und Res.none others (Or.inl rfl)
  have : big ≤ m := by
    simp only [offerOf, List.mem_cons] at hmem
    rcases hmem with rfl | hm
    · exact le_refl _
    · exact h m hm
  rw [hres, if_pos this]

/-- a single rank behaves like the serial solver (steps below the sentinel) -/
theorem par_single_rank_eq_serial (big und : α) (loc : Res α)
    (hloc : loc = Res.none ∨ ∃ d, loc = Res.val d ∧ d < big) :
    solverTimestepPar big und loc [] = solverTimestepOf loc und := by
  rcases hloc with rfl | ⟨d, rfl, hd⟩
  · simp [solverTimestepPar, solverTimestepParOrig, parOffer, reduceMin, solverTimestepOf]
  · simp [solverTimestepPar, solverTimestepParOrig, parOffer, reduceMin, solverTimestepOf,
      not_le.mpr hd]

/-- the code before the `fix:` commit lost the fixed step: with no constraint on any rank it
proposed the sentinel itself (the run then jumps to `tf` in one step) -/
theorem par_orig_loses_fixed_step :
    solverTimestepParOrig (100 : ℚ) Res.none [100] = Res.val 100 := by decide +kernel

example : solverTimestepPar (100 : ℚ) (1/100) Res.none [100] = Res.val (1/100) ∧
    solverTimestepPar (100 : ℚ) (1/100) Res.none [3/1000, 100] = Res.val (3/1000) ∧
    solverTimestepPar (100 : ℚ) (1/100) (Res.val (1/500)) [3/1000, 100] = Res.val (1/500) := by
  decide +kernel

/-! ## non-vacuity: concrete states meeting the hypotheses (over ℚ) -/

/-- two arrays, the second empty, `h` above one: the step is `cfl·hmin/max` -/
example :
    let a1 : Arr ℚ := { nAll := 2, hAll := [2, 4], dtAdapt := none,
                        dtCfl := some [1, 2], dtForce := none, dtVisc := none }
    let a2 : Arr ℚ := { nAll := 0, hAll := [], dtAdapt := none,
                        dtCfl := some [], dtForce := none, dtVisc := some [] }
    WF [a1, a2] ∧ explicitDtAdapt [a1, a2] = Res.none ∧ hMinimum [a1, a2] = some 2 ∧
    computeTimeStep (fun x => x) [a1, a2] (1/4) none = Res.val (1/4) := by
  refine ⟨?_, ?_, ?_, ?_⟩
  · intro pa hpa; simp at hpa; rcases hpa with rfl | rfl <;> rfl
  · decide +kernel
  · decide +kernel
  · decide +kernel

example :
    let a1 : Arr ℚ := { nAll := 2, hAll := [2, 4], dtAdapt := some [1/100, 1/50],
                        dtCfl := some [1, 2], dtForce := none, dtVisc := none }
    explicitDtAdapt [a1] = Res.val (1/100) := by decide +kernel

end PysphVerif.C19
