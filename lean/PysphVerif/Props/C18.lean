import PysphVerif.Lemmas.ControllerLive2
/-!
# C18 — the solver controller never loses a command or a wake-up

Property theorems about `Model/Controller.lean`, the small-step model of
`pysph/solver/controller.py` at synchronisation-primitive granularity (tied to
the real `CommandManager` by forced-schedule differential execution,
harness/c18.py).

Quantifiers: every theorem over `Reachable cfg progs s` holds for **every**
protocol variant `cfg` (the pinned code `Cfg.orig`, the repaired code
`Cfg.fixed`, and the mixtures), **any number** of interface threads running
**arbitrary** operation lists `progs`, and **every** schedule (reachability is
closed under steps of any enabled thread).

The `…_reachable` theorems exhibit, in the model of the code as pinned
(`Cfg.orig`), the schedules that block threads forever; the harness replays
them on the real code.
-/
namespace PysphVerif.C18
open PysphVerif.Controller

/-! ## every queued command is executed exactly once, in order, at a control point -/

/-- At every reachable state the ids ever appended to `queue` are exactly: the
executed ones (in execution order), then the one the solver has popped and is
about to run, then the ones still queued — no id is lost, duplicated or
reordered; in particular no command is executed twice. -/
theorem queue_exactly_once (cfg : Cfg) (progs : Tid → List Op) (s : State)
    (hr : Reachable cfg progs s) :
    s.queuedLog = execIds s ++ inflight s ++ s.queue ∧
    s.queuedLog.Nodup ∧ (execIds s).Nodup := by
  have h := (reachable_inv hr).1
  refine ⟨h.fifo, h.nodup, ?_⟩
  have hn := h.nodup
  rw [h.fifo] at hn
  exact (List.nodup_append.mp (List.nodup_append.mp hn).1).1

/-- A command runs only in the solver thread, inside `run_queued_commands`
(i.e. at a control point, under `qlock` and `res_lock`), and what is logged is
the popped id with the solver's current `count` and the command's result. -/
theorem executed_only_at_control_point (cfg : Cfg) (s s' : State) (t : Tid) (evs : List Ev)
    (hs : step cfg s t = some (s', evs)) (hne : s'.execLog ≠ s.execLog) :
    t = 0 ∧ ∃ ctx id c, s.spc = SPc.runAcqRes ctx id c ∧
      s'.execLog = s.execLog ++ [(id, s.count, cmdVal c s.count)] := by
  unfold step at hs
  split at hs
  · rename_i ht
    refine ⟨ht, ?_⟩
    rcases stepSolver_execLog hs with h | h
    · exact absurd h hne
    · exact h
  · exact absurd (stepIface_execLog hs).1 hne

/-- Every queued command still pending is eventually the solver's to run: the
queue is served first-in first-out by the step that pops it (no reordering). -/
theorem queue_is_fifo (cfg : Cfg) (progs : Tid → List Op) (s : State)
    (hr : Reachable cfg progs s) (id : Nat) (hid : id ∈ s.queue) :
    id ∈ s.queuedLog ∧ id ∉ execIds s := by
  have h := (reachable_inv hr).1
  have hn := h.nodup
  rw [h.fifo] at hn ⊢
  refine ⟨by simp [hid], fun hx => ?_⟩
  have := (List.nodup_append.mp hn).2.2 id (by simp [hx]) id hid
  exact this rfl

/-! ## results -/

/-- What `get_result` hands out for task `k` is the value computed by the one
execution of `k`, and it is handed out at most once per task. -/
theorem result_delivered_is_execution_result (cfg : Cfg) (progs : Tid → List Op) (s : State)
    (hr : Reachable cfg progs s) :
    (∀ k v, (k, v) ∈ s.delivered → ∃ n, (k, n, v) ∈ s.execLog) ∧
    (s.delivered.map (·.1)).Nodup ∧
    (∀ k v, (k, v) ∈ s.results → ∃ n, (k, n, v) ∈ s.execLog) := by
  have h := (reachable_inv hr).1
  exact ⟨fun k v hk => h.res k v (Or.inr hk), (List.nodup_append.mp h.resNodup).2.1,
    fun k v hk => h.res k v (Or.inl hk)⟩

/-- `get_result(k)` gets past the per-command lock only after `k` has run. -/
theorem get_result_blocks_until_run (cfg : Cfg) (progs : Tid → List Op) (s : State)
    (hr : Reachable cfg progs s) (t : Tid) (k : Nat) (hk : holding (s.th t).pc = some k) :
    k ∈ execIds s :=
  (reachable_inv hr).1.holds t k hk

/-- …and a task that was queued and has not run yet still has its lock held, so
`get_result` blocks on it. -/
theorem unexecuted_command_lock_is_held (cfg : Cfg) (progs : Tid → List Op) (s : State)
    (hr : Reachable cfg progs s) (k : Nat) (hq : k ∈ s.queuedLog) (hx : k ∉ execIds s) :
    k ∈ s.cLocked := by
  rcases (reachable_inv hr).1.locked k hq with h | h
  · exact h
  · exact absurd h hx

/-! ## pause / wait / cont (safety) -/

/-- Once the solver has honoured thread `t`'s pause request (`t ∈ paused`; in
the repaired code this is what `wait()` waits for), `t` is still in `pause`, the
solver sits inside the `while self.pause` loop of `wait_for_cmd`, and no step of
any thread makes the solver progress (`count` is unchanged) or takes `t` out of
`paused` — except `t`'s own `cont()`. -/
theorem paused_solver_makes_no_progress_until_cont (cfg : Cfg) (progs : Tid → List Op)
    (s : State) (hr : Reachable cfg progs s) (t : Tid) (ht : t ∈ s.paused) :
    t ∈ s.pause ∧ InLoop s.spc ∧
    ∀ u s' evs, step cfg s u = some (s', evs) →
      s'.count = s.count ∧ (t ∈ s'.paused ∨ (u = t ∧ (s.th t).pc = IPc.cAcqP)) := by
  have hp := reachable_pinv hr
  have hl : InLoop s.spc := hp.loop (by intro e; rw [e] at ht; cases ht)
  refine ⟨hp.sub t ht, hl, ?_⟩
  intro u s' evs hs
  unfold step at hs
  split at hs
  · have := stepSolver_count hs
    refine ⟨this.1 ?_, Or.inl (this.2 t ht)⟩
    intro e; rw [e] at hl; exact hl
  · refine ⟨(stepIface_execLog hs).2, ?_⟩
    rcases (stepIface_pause (reachable_inv hr).2 hs).2 with ⟨_, e⟩ | ⟨_, e⟩ | ⟨_, hpc, e⟩
    · left; rw [e]; exact ht
    · left; rw [e]; exact ht
    · by_cases hut : t = u
      · right; subst hut; exact ⟨rfl, hpc⟩
      · left; rw [e]; simp [ht, hut]

/-- In the repaired code a `wait()` issued under an active `pause_on_next`
returns only when the solver has honoured the request (hence, by the previous
theorem, sits at a control point and stays there until `cont()`). -/
theorem wait_returns_only_when_honoured (cfg : Cfg) (hw : cfg.waitPred = true) (s s' : State)
    (t : Tid) (evs : List Ev) (ht0 : t ≠ 0) (hs : step cfg s t = some (s', evs))
    (hpc : (s.th t).pc = IPc.wAcqP ∨ (s.th t).pc = IPc.wReacqP)
    (hret : (s'.th t).pc = IPc.wRelP) (hp : t ∈ s.pause) : t ∈ s.paused := by
  unfold step at hs
  simp only [ht0, if_false] at hs
  unfold stepIface at hs
  rcases hpc with hpc | hpc <;> rw [hpc] at hs <;> simp only [hw, if_true] at hs <;>
    split at hs
  all_goals first
    | (cases hs; done)
    | (simp only [Option.some.injEq, Prod.mk.injEq] at hs
       obtain ⟨rfl, -⟩ := hs
       simp only [setPc_th_same] at hret
       split at hret
       · cases hret
       · rename_i hm
         simp only [mustWait, hp, decide_true, Bool.true_and, Bool.not_eq_true',
           decide_eq_false_iff_not, Decidable.not_not] at hm
         exact hm)

/-! ## the repaired protocol: the wake-up cannot be lost, the pause fragment never deadlocks -/

/-- Repaired `wait()` (any variant with the predicate loop and the un-nested
`cont()`): a thread sitting un-notified in `plock`'s wait set has an active
pause request that the solver has NOT yet honoured — or the solver is exactly at
its `notify_all`.  So the state of `lost_wakeup_reachable` (waiter blocked, its
request already served, solver past the notify) is unreachable. -/
theorem wait_wakeup_not_lost (cfg : Cfg) (hw : cfg.waitPred = true) (hn : cfg.contNested = false)
    (progs : Tid → List Op) (s : State) (hr : Reachable cfg progs s) (u : Tid)
    (hu : u ∈ s.pWait) :
    (s.th u).pc = IPc.wBlocked ∧ u ∈ s.pause ∧ (u ∉ s.paused ∨ s.spc = SPc.ntaP) :=
  ⟨(reachable_w hw hn hr).waiting u hu, (reachable_w hw hn hr).kept u hu⟩

/-- `plock` is held by at most one thread, and only at the program counters
that the code holds it at (repaired `wait`/`cont`). -/
theorem plock_mutual_exclusion (cfg : Cfg) (hw : cfg.waitPred = true) (hn : cfg.contNested = false)
    (progs : Tid → List Op) (s : State) (hr : Reachable cfg progs s) (u v : Tid)
    (hu : holdsP (s.th u).pc = true) (hv : holdsP (s.th v).pc = true) : u = v := by
  have h := reachable_w hw hn hr
  have := (h.owner u hu).symm.trans (h.owner v hv)
  exact Option.some.inj this

/-- **No deadlock in the pause fragment of the repaired protocol.**  For any
number of interface threads running well-formed programs over `get`, blocking
`set`, `pause_on_next`, `wait`, `cont` (balanced pause sections, `wait`/`cont`
only inside), in every reachable state under every schedule some thread can
take a step; in particular the states of `lost_wakeup_reachable` and
`lock_order_deadlock_reachable` (same programs!) are unreachable after the
repair. -/
theorem no_deadlock_pause_fragment (ps : List (List Op))
    (hwf : ∀ p ∈ ps, WFp false p = true) (s : State)
    (hr : Reachable Cfg.fixed (progsOf ps) s) :
    ∃ t, t ≤ ps.length ∧ enabled Cfg.fixed s t = true :=
  frag_not_stuck (reachable_f hwf hr) (reachable_w rfl rfl hr) (reachable_pinv hr)

/-- …and whenever the solver itself is blocked, it is an *interface* thread
that can move (so a blocked solver is always released by its controllers). -/
theorem blocked_solver_has_enabled_controller (ps : List (List Op))
    (hwf : ∀ p ∈ ps, WFp false p = true) (s : State)
    (hr : Reachable Cfg.fixed (progsOf ps) s) (hb : enabled Cfg.fixed s 0 = false) :
    ∃ t, 1 ≤ t ∧ t ≤ ps.length ∧ enabled Cfg.fixed s t = true := by
  obtain ⟨t, ht, he⟩ := no_deadlock_pause_fragment ps hwf s hr
  refine ⟨t, ?_, ht, he⟩
  cases t with
  | zero => rw [hb] at he; cases he
  | succ k => exact Nat.succ_le_succ (Nat.zero_le _)

example : WFp false [Op.pause, Op.wait, Op.get, Op.cont, Op.setNow 3] = true := by decide

/-! ## the pinned protocol blocks threads forever (`Cfg.orig`) -/

private def oneThread (ops : List Op) : State := init (progsOf [ops])

/-- F7 — lost wake-up.  Interface thread: `pause_on_next()`; solver: control
point, `plock.notify_all()`, `qlock.wait()`; interface thread: `wait()`.  Both
threads are blocked, nothing is enabled, the program still has `cont()` to run. -/
theorem lost_wakeup_reachable :
    let sched := [1, 1, 1, 1, 0, 0, 0, 0, 0, 0, 0, 0, 1, 1, 1]
    let s := run Cfg.orig (oneThread [Op.pause, Op.wait, Op.cont]) sched
    runs Cfg.orig (oneThread [Op.pause, Op.wait, Op.cont]) sched = true ∧
    (s.th 1).pc = IPc.wBlocked ∧ (s.th 1).prog = [Op.cont] ∧ s.spc = SPc.blocked ∧
    enabled Cfg.orig s 0 = false ∧ enabled Cfg.orig s 1 = false := by
  decide

/-- `cont()` takes `qlock` inside `plock`, `wait_for_cmd` takes `plock` inside
`qlock`: AB-BA deadlock of interface thread and solver. -/
theorem lock_order_deadlock_reachable :
    let sched := [1, 1, 1, 1, 0, 0, 0, 0, 1, 1, 1]
    let s := run Cfg.orig (oneThread [Op.pause, Op.cont]) sched
    runs Cfg.orig (oneThread [Op.pause, Op.cont]) sched = true ∧
    (s.th 1).pc = IPc.cAcqQ ∧ s.pOwner = some 1 ∧ s.spc = SPc.acqP ∧ s.qOwner = some 0 ∧
    enabled Cfg.orig s 0 = false ∧ enabled Cfg.orig s 1 = false := by
  decide

/-- A command queued while the solver is paused is not run before some
`cont()`: the pausing thread's own `get_result` blocks forever. -/
theorem get_result_while_paused_deadlock_reachable :
    let prog := [Op.pause, Op.wait, Op.queue Cmd.probe, Op.getMine 0, Op.cont]
    let sched := [1, 1, 1, 1, 1, 1, 1, 0, 0, 0, 0, 0, 0, 0, 0, 1, 1, 1, 1, 1, 1, 1, 1, 1]
    let s := run Cfg.orig (oneThread prog) sched
    runs Cfg.orig (oneThread prog) sched = true ∧
    (s.th 1).pc = IPc.rAcqC 0 ∧ s.queue = [0] ∧ s.spc = SPc.blocked ∧
    enabled Cfg.orig s 0 = false ∧ enabled Cfg.orig s 1 = false := by
  decide

/-- With two interface threads the second thread's `pause_on_next()` (a
`plock.notify()`) makes the first thread's `wait()` return although the solver
has not reached a control point (`spc = start`, `count = 0`). -/
theorem early_wait_return_reachable :
    let progs := progsOf [[Op.pause, Op.wait, Op.cont], [Op.pause, Op.cont]]
    let sched := [1, 1, 1, 1, 1, 1, 1, 2, 2, 2, 2, 1, 1]
    let s := run Cfg.orig (init progs) sched
    runs Cfg.orig (init progs) sched = true ∧
    (s.th 1).pc = IPc.idle ∧ (s.th 1).prog = [Op.cont] ∧ s.spc = SPc.start ∧ s.count = 0 := by
  decide

/-! ## the repaired protocol on the same schedules (examples, not the general claim) -/

/-- the lost-wake-up schedule, continued: `wait()` sees its request honoured,
`cont()` releases the solver, everything finishes -/
example :
    let sched := [1, 1, 1, 1, 0, 0, 0, 0, 0, 0, 0, 0, 1, 1, 1, 1, 1, 1, 1, 1, 1, 1, 0, 0]
    let s := run Cfg.fixed (oneThread [Op.pause, Op.wait, Op.cont]) sched
    runs Cfg.fixed (oneThread [Op.pause, Op.wait, Op.cont]) sched = true ∧
    (s.th 1).pc = IPc.idle ∧ (s.th 1).prog = [] ∧ s.pause = [] ∧ s.paused = [] ∧
    enabled Cfg.fixed s 0 = true := by
  decide

/-- non-vacuity of the safety theorems: a reachable state of the repaired
protocol in which a command has been queued while the solver was paused, run
at that control point, and its result fetched by the pausing thread -/
example :
    let prog := [Op.pause, Op.wait, Op.queue Cmd.probe, Op.getMine 0, Op.cont]
    let sched := [1, 1, 1, 1, 0, 0, 0, 0, 0, 0, 0, 0, 1, 1, 1, 1, 1, 1, 1, 1, 1, 1, 1,
                  0, 0, 0, 0, 0, 0, 0, 0, 1, 1, 1, 1]
    let s := run Cfg.fixed (oneThread prog) sched
    runs Cfg.fixed (oneThread prog) sched = true ∧
    s.execLog = [(0, 1, Val.cnt 1)] ∧ s.delivered = [(0, Val.cnt 1)] ∧ s.paused = [1] ∧
    (s.th 1).prog = [Op.cont] := by
  decide

example : ∃ s, Reachable Cfg.fixed (progsOf [[Op.pause, Op.wait, Op.cont]]) s ∧ s.paused = [1] :=
  ⟨run Cfg.fixed (oneThread [Op.pause, Op.wait, Op.cont]) [1, 1, 1, 1, 0, 0, 0, 0, 0],
   reachable_run _ Reachable.init (by decide), by decide⟩

/-! ## liveness of the repaired protocol — statement only

The full claim "no interleaving leaves the solver or an interface thread
blocked forever" for the repaired protocol INCLUDING queued commands and
`get_result`.  Proved above for the pause fragment (`no_deadlock_pause_fragment`);
with queued commands it is NOT proved here (it needs the ownership invariant of
`res_lock` and the per-command locks as well, and that the solver never raises);
that part is sampled on the real code by the harness (every well-formed
program must finish under a fair continuation of every sampled schedule) and
its three counterexamples for the pinned protocol are the theorems above. -/

/-- per thread: `pause_on_next … [wait] … cont` balanced, `wait`/`cont` only
inside, `get_result` only of own earlier tasks, once each -/
def WellFormedProg : Bool → Nat → List Nat → List Op → Bool
  | paused, _, _, [] => !paused
  | paused, nq, got, Op.pause :: r => !paused && WellFormedProg true nq got r
  | paused, nq, got, Op.wait :: r => paused && WellFormedProg paused nq got r
  | paused, nq, got, Op.cont :: r => paused && WellFormedProg false nq got r
  | paused, nq, got, Op.queue _ :: r => WellFormedProg paused (nq + 1) got r
  | paused, nq, got, Op.getMine j :: r =>
    decide (j < nq) && !decide (j ∈ got) && WellFormedProg paused nq (j :: got) r
  | _, _, _, Op.getResult _ :: _ => false
  | paused, nq, got, _ :: r => WellFormedProg paused nq got r

/-- in every reachable state of the repaired protocol running well-formed
programs of `n` interface threads, if some interface thread has not finished
then some thread can take a step (no deadlock), -/
def no_deadlock_statement : Prop :=
  ∀ (n : Nat) (ps : List (List Op)), ps.length = n →
    (∀ p ∈ ps, WellFormedProg false 0 [] p = true) →
    ∀ s, Reachable Cfg.fixed (progsOf ps) s →
      (∃ t, 1 ≤ t ∧ t ≤ n ∧ ¬ ((s.th t).pc = IPc.idle ∧ (s.th t).prog = [])) →
      ∃ t, t ≤ n ∧ enabled Cfg.fixed s t = true

end PysphVerif.C18
