import PysphVerif.Lemmas.ControllerStarve
import PysphVerif.Lemmas.ControllerFair3
/-!
# C18 — the solver controller never loses a command or a wake-up

Property theorems about `Model/Controller.lean`, the small-step model of
`pysph/solver/controller.py` at synchronisation-primitive granularity (tied to
the real `CommandManager` by forced-schedule differential execution,
harness/c18.py).

Quantifiers: every theorem over `Reachable cfg progs s` holds for **every**
protocol variant `cfg` (the pinned code `Cfg.orig`, the repaired code
`Cfg.fixed`, and the mixtures), **any number** of interface threads running
**arbitrary** operation lists `progs`, and **every** schedule (reachability is
closed under steps of any enabled thread).

The `…_reachable` theorems exhibit, in the model of the code as pinned
(`Cfg.orig`), the schedules that block threads forever; the harness replays
them on the real code.
-/
namespace PysphVerif.C18
open PysphVerif.Controller

/-! ## every queued command is executed exactly once, in order, at a control point -/

/-- At every reachable state the ids ever appended to `queue` are exactly: the
executed ones (in execution order), then the one the solver has popped and is
about to run, then the ones still queued — no id is lost, duplicated or
reordered; in particular no command is executed twice. -/
theorem queue_exactly_once (cfg : Cfg) (progs : Tid → List Op) (s : State)
    (hr : Reachable cfg progs s) :
    s.queuedLog = execIds s ++ inflight s ++ s.queue ∧
    s.queuedLog.Nodup ∧ (execIds s).Nodup := by
  have h := (reachable_inv hr).1
  refine ⟨h.fifo, h.nodup, ?_⟩
  have hn := h.nodup
  rw [h.fifo] at hn
  exact (List.nodup_append.mp (List.nodup_append.mp hn).1).1

/-- A command runs only in the solver thread, inside `run_queued_commands`
(i.e. at a control point, under `qlock` and `res_lock`), and what is logged is
the popped id with the solver's current `count` and the command's result. -/
theorem executed_only_at_control_point (cfg : Cfg) (s s' : State) (t : Tid) (evs : List Ev)
    (hs : step cfg s t = some (s', evs)) (hne : s'.execLog ≠ s.execLog) :
    t = 0 ∧ ∃ ctx id c, s.spc = SPc.runAcqRes ctx id c ∧
      s'.execLog = s.execLog ++ [(id, s.count, cmdVal c s.count)] := by
  unfold step at hs
  split at hs
  · rename_i ht
    refine ⟨ht, ?_⟩
    rcases stepSolver_execLog hs with h | h
    · exact absurd h hne
    · exact h
  · exact absurd (stepIface_execLog hs).1 hne

/-- Every queued command still pending is eventually the solver's to run: the
queue is served first-in first-out by the step that pops it (no reordering). -/
theorem queue_is_fifo (cfg : Cfg) (progs : Tid → List Op) (s : State)
    (hr : Reachable cfg progs s) (id : Nat) (hid : id ∈ s.queue) :
    id ∈ s.queuedLog ∧ id ∉ execIds s := by
  have h := (reachable_inv hr).1
  have hn := h.nodup
  rw [h.fifo] at hn ⊢
  refine ⟨by simp [hid], fun hx => ?_⟩
  have := (List.nodup_append.mp hn).2.2 id (by simp [hx]) id hid
  exact this rfl

/-! ## results -/

/-- What `get_result` hands out for task `k` is the value computed by the one
execution of `k`, and it is handed out at most once per task. -/
theorem result_delivered_is_execution_result (cfg : Cfg) (progs : Tid → List Op) (s : State)
    (hr : Reachable cfg progs s) :
    (∀ k v, (k, v) ∈ s.delivered → ∃ n, (k, n, v) ∈ s.execLog) ∧
    (s.delivered.map (·.1)).Nodup ∧
    (∀ k v, (k, v) ∈ s.results → ∃ n, (k, n, v) ∈ s.execLog) := by
  have h := (reachable_inv hr).1
  exact ⟨fun k v hk => h.res k v (Or.inr hk), (List.nodup_append.mp h.resNodup).2.1,
    fun k v hk => h.res k v (Or.inl hk)⟩

/-- `get_result(k)` gets past the per-command lock only after `k` has run. -/
theorem get_result_blocks_until_run (cfg : Cfg) (progs : Tid → List Op) (s : State)
    (hr : Reachable cfg progs s) (t : Tid) (k : Nat) (hk : holding (s.th t).pc = some k) :
    k ∈ execIds s :=
  (reachable_inv hr).1.holds t k hk

/-- …and a task that was queued and has not run yet still has its lock held, so
`get_result` blocks on it. -/
theorem unexecuted_command_lock_is_held (cfg : Cfg) (progs : Tid → List Op) (s : State)
    (hr : Reachable cfg progs s) (k : Nat) (hq : k ∈ s.queuedLog) (hx : k ∉ execIds s) :
    k ∈ s.cLocked := by
  rcases (reachable_inv hr).1.locked k hq with h | h
  · exact h
  · exact absurd h hx

/-! ## pause / wait / cont (safety) -/

/-- Once the solver has honoured thread `t`'s pause request (`t ∈ paused`; in
the repaired code this is what `wait()` waits for), `t` is still in `pause`, the
solver sits inside the `while self.pause` loop of `wait_for_cmd`, and no step of
any thread makes the solver progress (`count` is unchanged) or takes `t` out of
`paused` — except `t`'s own `cont()`. -/
theorem paused_solver_makes_no_progress_until_cont (cfg : Cfg) (progs : Tid → List Op)
    (s : State) (hr : Reachable cfg progs s) (t : Tid) (ht : t ∈ s.paused) :
    t ∈ s.pause ∧ InLoop s.spc ∧
    ∀ u s' evs, step cfg s u = some (s', evs) →
      s'.count = s.count ∧ (t ∈ s'.paused ∨ (u = t ∧ (s.th t).pc = IPc.cAcqP)) := by
  have hp := reachable_pinv hr
  have hl : InLoop s.spc := hp.loop (by intro e; rw [e] at ht; cases ht)
  refine ⟨hp.sub t ht, hl, ?_⟩
  intro u s' evs hs
  unfold step at hs
  split at hs
  · have := stepSolver_count hs
    refine ⟨this.1 ?_, Or.inl (this.2 t ht)⟩
    intro e; rw [e] at hl; exact hl
  · refine ⟨(stepIface_execLog hs).2, ?_⟩
    rcases (stepIface_pause (reachable_inv hr).2 hs).2 with ⟨_, e⟩ | ⟨_, e⟩ | ⟨_, hpc, e⟩
    · left; rw [e]; exact ht
    · left; rw [e]; exact ht
    · by_cases hut : t = u
      · right; subst hut; exact ⟨rfl, hpc⟩
      · left; rw [e]; simp [ht, hut]

/-- In the repaired code a `wait()` issued under an active `pause_on_next`
returns only when the solver has honoured the request (hence, by the previous
theorem, sits at a control point and stays there until `cont()`). -/
theorem wait_returns_only_when_honoured (cfg : Cfg) (hw : cfg.waitPred = true) (s s' : State)
    (t : Tid) (evs : List Ev) (ht0 : t ≠ 0) (hs : step cfg s t = some (s', evs))
    (hpc : (s.th t).pc = IPc.wAcqP ∨ (s.th t).pc = IPc.wReacqP)
    (hret : (s'.th t).pc = IPc.wRelP) (hp : t ∈ s.pause) : t ∈ s.paused := by
  unfold step at hs
  simp only [ht0, if_false] at hs
  unfold stepIface at hs
  rcases hpc with hpc | hpc <;> rw [hpc] at hs <;> simp only [hw, if_true] at hs <;>
    split at hs
  all_goals first
    | (cases hs; done)
    | (simp only [Option.some.injEq, Prod.mk.injEq] at hs
       obtain ⟨rfl, -⟩ := hs
       simp only [setPc_th_same] at hret
       split at hret
       · cases hret
       · rename_i hm
         simp only [mustWait, hp, decide_true, Bool.true_and, Bool.not_eq_true',
           decide_eq_false_iff_not, Decidable.not_not] at hm
         exact hm)

/-! ## the repaired protocol: the wake-up cannot be lost, the pause fragment never deadlocks -/

/-- Repaired `wait()` (any variant with the predicate loop and the un-nested
`cont()`): a thread sitting un-notified in `plock`'s wait set has an active
pause request that the solver has NOT yet honoured — or the solver is exactly at
its `notify_all`.  So the state of `lost_wakeup_reachable` (waiter blocked, its
request already served, solver past the notify) is unreachable. -/
theorem wait_wakeup_not_lost (cfg : Cfg) (hw : cfg.waitPred = true) (hn : cfg.contNested = false)
    (progs : Tid → List Op) (s : State) (hr : Reachable cfg progs s) (u : Tid)
    (hu : u ∈ s.pWait) :
    (s.th u).pc = IPc.wBlocked ∧ u ∈ s.pause ∧ (u ∉ s.paused ∨ s.spc = SPc.ntaP) :=
  ⟨(reachable_w hw hn hr).waiting u hu, (reachable_w hw hn hr).kept u hu⟩

/-- `plock` is held by at most one thread, and only at the program counters
that the code holds it at (repaired `wait`/`cont`). -/
theorem plock_mutual_exclusion (cfg : Cfg) (hw : cfg.waitPred = true) (hn : cfg.contNested = false)
    (progs : Tid → List Op) (s : State) (hr : Reachable cfg progs s) (u v : Tid)
    (hu : holdsP (s.th u).pc = true) (hv : holdsP (s.th v).pc = true) : u = v := by
  have h := reachable_w hw hn hr
  have := (h.owner u hu).symm.trans (h.owner v hv)
  exact Option.some.inj this

/-! ## the solver thread never raises; lock ownership -/

/-- For every protocol variant, program and schedule the solver thread never
reaches `crashed`: `self.queue_dict[lock_id]` always finds its entry, and
`self.queue_lock_map[lock_id].release()` always finds the lock, held (the
two places where `run_queued_commands` could raise and end the solver thread). -/
theorem solver_never_raises (cfg : Cfg) (progs : Tid → List Op) (s : State)
    (hr : Reachable cfg progs s) :
    s.spc ≠ SPc.crashed ∧
    (∀ id ∈ s.queue, (lookupCmd s.qdict id).isSome = true) ∧
    (∀ ctx id, s.spc = SPc.runRelC ctx id → id ∈ s.cLocked ∧ id ∈ s.lockmap) := by
  have hS := reachable_safe hr
  have hI := (reachable_inv hr).1
  refine ⟨hS.alive, hS.qd, ?_⟩
  intro ctx id hspc
  exact hS.unrel id (execIds_sub_queued hI (hI.relc ctx id hspc)) (Or.inr (by rw [hspc]; rfl))

/-- `get_result(k)` gets past the per-command lock only after the solver has
RELEASED it (not merely run the command): the solver's `release()` never
races with a `get_result` holding the same lock. -/
theorem get_result_holds_lock_only_after_release (cfg : Cfg) (progs : Tid → List Op) (s : State)
    (hr : Reachable cfg progs s) (t : Tid) (k : Nat) (hk : holding (s.th t).pc = some k)
    (ctx : Ctx) : s.spc ≠ SPc.runRelC ctx k := by
  intro e
  exact (reachable_safe hr).hold t k hk (by rw [e]; rfl)

/-- Repaired protocol: the dispatch lock, `res_lock` and `qlock` are each held
by at most one thread, exactly at the program counters where the code holds
them (both directions), for every program and schedule. -/
theorem lock_ownership (progs : Tid → List Op) (s : State)
    (hr : Reachable Cfg.fixed progs s) :
    (∀ u, ownsD (s.th u).pc = true ↔ s.dlock = some u) ∧
    (∀ u, ownsRes (s.th u).pc = true → s.resLock = some u) ∧
    (sOwnsRes s.spc = true → s.resLock = some 0) ∧
    (∀ v, s.resLock = some v → (v = 0 ∧ sOwnsRes s.spc = true) ∨ ownsRes (s.th v).pc = true) ∧
    (∀ u, ownsQ (s.th u).pc = true → s.qOwner = some u) ∧
    (sOwnsQ s.spc = true → s.qOwner = some 0) ∧
    (∀ v, s.qOwner = some v → (v = 0 ∧ sOwnsQ s.spc = true) ∨ ownsQ (s.th v).pc = true) ∧
    (∀ v, s.pOwner = some v →
      (v = 0 ∧ (s.spc = SPc.ntaP ∨ s.spc = SPc.relP)) ∨ holdsP (s.th v).pc = true) := by
  have h := reachable_locks hr
  exact ⟨fun u => ⟨h.ld.d1 u, h.ld.d2 u⟩, h.lr.r1, h.lr.r2, h.lr.r3, h.lq.q1, h.lq.q2, h.lq.q3,
    h.lp.p3⟩

/-- A held per-command lock belongs to the dispatching thread that is about
to queue the task, or to a `get_result` call that got past it, or else the
task is queued and the solver has not released its lock yet. -/
theorem command_lock_ownership (progs : Tid → List Op) (s : State)
    (hr : Reachable Cfg.fixed progs s) (k : Nat) (hk : k ∈ s.cLocked) :
    (∃ v c, (s.th v).pc = IPc.qAcqQ c k) ∨ (∃ v, holding (s.th v).pc = some k) ∨
    (k ∈ s.queuedLog ∧ (k ∉ execIds s ∨ ∃ ctx, s.spc = SPc.runRelC ctx k)) := by
  apply Classical.byContradiction
  intro hc
  simp only [not_or, not_exists] at hc
  obtain ⟨h1, h2, h3⟩ := hc
  obtain ⟨hq, hx⟩ := (reachable_locks hr).co.cown k hk (fun v c => h1 v c) (fun v => h2 v)
  apply h3
  refine ⟨hq, ?_⟩
  rcases hx with hx | hx
  · exact Or.inl hx
  · right
    cases hspc : s.spc <;> simp [hspc, relcId] at hx
    rename_i ctx id
    exact ⟨ctx, by rw [hx]⟩

/-- Repaired `dispatch`/`wait_for_cmd`: the solver goes to sleep in
`qlock.wait()` only with an empty queue, and while it sleeps un-notified the
queue is empty unless the thread holding `qlock` is the dispatcher that has
just appended and is about to `notify_all()` — the wake-up of a command queued
while the solver is paused cannot be lost (cf.
`get_result_while_paused_deadlock_reachable` for the pinned code). -/
theorem dispatch_wakeup_not_lost (progs : Tid → List Op) (s : State)
    (hr : Reachable Cfg.fixed progs s) :
    (s.spc = SPc.waitQ → s.queue = []) ∧
    (s.spc = SPc.blocked → s.qWaiting = true) ∧
    (s.spc = SPc.blocked → s.queue ≠ [] →
      ∃ u id, s.qOwner = some u ∧ (s.th u).pc = IPc.qNtaQ id) := by
  have h := (reachable_locks hr).lq
  refine ⟨h.wq, h.bw, ?_⟩
  intro hb hne
  apply Classical.byContradiction
  intro hc
  apply hne
  apply h.nq hb
  intro u hu
  cases hpc : (s.th u).pc <;> simp only [isQNta]
  exact absurd ⟨u, _, hu, hpc⟩ hc

/-! ## the repaired protocol never deadlocks — all operations -/

/-- **No deadlock, repaired protocol, all operations.**  Any number of
interface threads; programs are arbitrary lists over `get`, blocking `set`,
queued (non-blocking) commands, `get_result` of ARBITRARY task ids (own,
foreign, never issued, already fetched), `pause_on_next`, `wait`, `cont` in any
order and nesting — the only requirement (`WF`) is that no program ENDS inside
a pause section (after its last `pause_on_next` a thread eventually calls
`cont`).  Then in every reachable state, under every schedule, some thread can
take a step.  In particular `get_result` between `pause_on_next` and `cont`
(the deadlock `get_result_while_paused_deadlock_reachable` of the pinned code)
is fine after the repair. -/
theorem no_deadlock (ps : List (List Op)) (hwf : ∀ p ∈ ps, WF false p = true) (s : State)
    (hr : Reachable Cfg.fixed (progsOf ps) s) :
    ∃ t, t ≤ ps.length ∧ enabled Cfg.fixed s t = true :=
  full_not_stuck (reachable_live hwf hr) (reachable_w rfl rfl hr) (reachable_pinv hr)
    (reachable_locks hr) (reachable_safe hr) (reachable_inv hr).1

/-- …and whenever the solver itself is blocked, it is an *interface* thread
that can move (so a blocked solver is always released by its controllers). -/
theorem blocked_solver_has_enabled_controller (ps : List (List Op))
    (hwf : ∀ p ∈ ps, WF false p = true) (s : State)
    (hr : Reachable Cfg.fixed (progsOf ps) s) (hb : enabled Cfg.fixed s 0 = false) :
    ∃ t, 1 ≤ t ∧ t ≤ ps.length ∧ enabled Cfg.fixed s t = true := by
  obtain ⟨t, ht, he⟩ := no_deadlock ps hwf s hr
  refine ⟨t, ?_, ht, he⟩
  cases t with
  | zero => rw [hb] at he; cases he
  | succ k => exact Nat.succ_le_succ (Nat.zero_le _)

/-- The requirement cannot be dropped: a program that ends inside a pause
section leaves the solver asleep for good with nobody left to wake it. -/
theorem unbalanced_pause_blocks_solver :
    let sched := [1, 1, 1, 1, 0, 0, 0, 0, 0, 0, 0, 0]
    let s := run Cfg.fixed (init (progsOf [[Op.pause]])) sched
    WF false [Op.pause] = false ∧
    runs Cfg.fixed (init (progsOf [[Op.pause]])) sched = true ∧ s.spc = SPc.blocked ∧
    (s.th 1).pc = IPc.idle ∧ (s.th 1).prog = [] ∧
    enabled Cfg.fixed s 0 = false ∧ enabled Cfg.fixed s 1 = false := by
  decide

/-- the pause fragment (programs over `get`, blocking `set`, balanced
`pause_on_next … wait … cont`) as a special case -/
theorem no_deadlock_pause_fragment (ps : List (List Op))
    (hwf : ∀ p ∈ ps, WFp false p = true) (s : State)
    (hr : Reachable Cfg.fixed (progsOf ps) s) :
    ∃ t, t ≤ ps.length ∧ enabled Cfg.fixed s t = true :=
  no_deadlock ps (fun p hp => wf_of_wfp false p (hwf p hp)) s hr

example : WF false [Op.pause, Op.wait, Op.queue Cmd.probe, Op.getMine 0, Op.getResult 7,
    Op.cont, Op.queue (Cmd.set 3), Op.getResult 0, Op.wait, Op.cont] = true := by decide

example : WFp false [Op.pause, Op.wait, Op.get, Op.cont, Op.setNow 3] = true := by decide

/-! ## the pinned protocol blocks threads forever (`Cfg.orig`) -/

private def oneThread (ops : List Op) : State := init (progsOf [ops])

/-- F7 — lost wake-up.  Interface thread: `pause_on_next()`; solver: control
point, `plock.notify_all()`, `qlock.wait()`; interface thread: `wait()`.  Both
threads are blocked, nothing is enabled, the program still has `cont()` to run. -/
theorem lost_wakeup_reachable :
    let sched := [1, 1, 1, 1, 0, 0, 0, 0, 0, 0, 0, 0, 1, 1, 1]
    let s := run Cfg.orig (oneThread [Op.pause, Op.wait, Op.cont]) sched
    runs Cfg.orig (oneThread [Op.pause, Op.wait, Op.cont]) sched = true ∧
    (s.th 1).pc = IPc.wBlocked ∧ (s.th 1).prog = [Op.cont] ∧ s.spc = SPc.blocked ∧
    enabled Cfg.orig s 0 = false ∧ enabled Cfg.orig s 1 = false := by
  decide

/-- `cont()` takes `qlock` inside `plock`, `wait_for_cmd` takes `plock` inside
`qlock`: AB-BA deadlock of interface thread and solver. -/
theorem lock_order_deadlock_reachable :
    let sched := [1, 1, 1, 1, 0, 0, 0, 0, 1, 1, 1]
    let s := run Cfg.orig (oneThread [Op.pause, Op.cont]) sched
    runs Cfg.orig (oneThread [Op.pause, Op.cont]) sched = true ∧
    (s.th 1).pc = IPc.cAcqQ ∧ s.pOwner = some 1 ∧ s.spc = SPc.acqP ∧ s.qOwner = some 0 ∧
    enabled Cfg.orig s 0 = false ∧ enabled Cfg.orig s 1 = false := by
  decide

/-- A command queued while the solver is paused is not run before some
`cont()`: the pausing thread's own `get_result` blocks forever. -/
theorem get_result_while_paused_deadlock_reachable :
    let prog := [Op.pause, Op.wait, Op.queue Cmd.probe, Op.getMine 0, Op.cont]
    let sched := [1, 1, 1, 1, 1, 1, 1, 0, 0, 0, 0, 0, 0, 0, 0, 1, 1, 1, 1, 1, 1, 1, 1, 1]
    let s := run Cfg.orig (oneThread prog) sched
    runs Cfg.orig (oneThread prog) sched = true ∧
    (s.th 1).pc = IPc.rAcqC 0 ∧ s.queue = [0] ∧ s.spc = SPc.blocked ∧
    enabled Cfg.orig s 0 = false ∧ enabled Cfg.orig s 1 = false := by
  decide

/-- With two interface threads the second thread's `pause_on_next()` (a
`plock.notify()`) makes the first thread's `wait()` return although the solver
has not reached a control point (`spc = start`, `count = 0`). -/
theorem early_wait_return_reachable :
    let progs := progsOf [[Op.pause, Op.wait, Op.cont], [Op.pause, Op.cont]]
    let sched := [1, 1, 1, 1, 1, 1, 1, 2, 2, 2, 2, 1, 1]
    let s := run Cfg.orig (init progs) sched
    runs Cfg.orig (init progs) sched = true ∧
    (s.th 1).pc = IPc.idle ∧ (s.th 1).prog = [Op.cont] ∧ s.spc = SPc.start ∧ s.count = 0 := by
  decide

/-! ## the repaired protocol on the same schedules (examples, not the general claim) -/

/-- the lost-wake-up schedule, continued: `wait()` sees its request honoured,
`cont()` releases the solver, everything finishes -/
example :
    let sched := [1, 1, 1, 1, 0, 0, 0, 0, 0, 0, 0, 0, 1, 1, 1, 1, 1, 1, 1, 1, 1, 1, 0, 0]
    let s := run Cfg.fixed (oneThread [Op.pause, Op.wait, Op.cont]) sched
    runs Cfg.fixed (oneThread [Op.pause, Op.wait, Op.cont]) sched = true ∧
    (s.th 1).pc = IPc.idle ∧ (s.th 1).prog = [] ∧ s.pause = [] ∧ s.paused = [] ∧
    enabled Cfg.fixed s 0 = true := by
  decide

/-- non-vacuity of the safety theorems: a reachable state of the repaired
protocol in which a command has been queued while the solver was paused, run
at that control point, and its result fetched by the pausing thread -/
example :
    let prog := [Op.pause, Op.wait, Op.queue Cmd.probe, Op.getMine 0, Op.cont]
    let sched := [1, 1, 1, 1, 0, 0, 0, 0, 0, 0, 0, 0, 1, 1, 1, 1, 1, 1, 1, 1, 1, 1, 1,
                  0, 0, 0, 0, 0, 0, 0, 0, 1, 1, 1, 1]
    let s := run Cfg.fixed (oneThread prog) sched
    runs Cfg.fixed (oneThread prog) sched = true ∧
    s.execLog = [(0, 1, Val.cnt 1)] ∧ s.delivered = [(0, Val.cnt 1)] ∧ s.paused = [1] ∧
    (s.th 1).prog = [Op.cont] := by
  decide

example : ∃ s, Reachable Cfg.fixed (progsOf [[Op.pause, Op.wait, Op.cont]]) s ∧ s.paused = [1] :=
  ⟨run Cfg.fixed (oneThread [Op.pause, Op.wait, Op.cont]) [1, 1, 1, 1, 0, 0, 0, 0, 0],
   reachable_run _ Reachable.init (by decide), by decide⟩

/-! ## progress: a ranking function, and termination under a helpful scheduler -/

/-- **Ranking function.**  `muIface` (remaining primitives of all interface
threads), `muSolver` (32·|queue| + the solver's distance to its next pop / next
`paused.update`), `muWait` (position inside the `while …: plock.wait()` loops),
ordered lexicographically (`MuLt`).  In every reachable state of well-formed
programs that is not final, some enabled step strictly decreases the rank: any
step of any enabled interface thread does, and when no interface thread can
move the solver can, and its step does. -/
theorem some_enabled_step_decreases_rank (ps : List (List Op))
    (hwf : ∀ p ∈ ps, WF false p = true) (s : State)
    (hr : Reachable Cfg.fixed (progsOf ps) s) (hnf : ¬ Final ps.length s) :
    ∃ t s' evs, t ≤ ps.length ∧ step Cfg.fixed s t = some (s', evs) ∧ MuLt ps.length s' s :=
  exists_decreasing_step hwf hr hnf

/-- every step of an interface thread decreases the rank (whoever is scheduled) -/
theorem interface_step_decreases_rank (ps : List (List Op)) (s s' : State) (t : Tid)
    (evs : List Ev) (hr : Reachable Cfg.fixed (progsOf ps) s) (ht1 : 1 ≤ t)
    (htn : t ≤ ps.length) (hs : step Cfg.fixed s t = some (s', evs)) : MuLt ps.length s' s := by
  have ht0 : t ≠ 0 := Nat.ne_of_gt ht1
  have hst : stepIface Cfg.fixed s t = some (s', evs) := by simpa [step, ht0] using hs
  obtain ⟨hoth, hcase⟩ := iface_rank (reachable_w (cfg := Cfg.fixed) rfl rfl hr).waiting ht0 hst
  rcases hcase with hlt | ⟨heq, hwlt, hsame, hmu⟩
  · left
    apply sumTo_lt
    · intro j _ _
      by_cases hj : j = t
      · subst hj; exact Nat.le_of_lt hlt
      · exact Nat.le_of_eq (hoth j hj)
    · exact ⟨t, ht1, htn, hlt⟩
  · right
    refine ⟨?_, Or.inr ⟨hmu, ?_⟩⟩
    · apply sumTo_congr
      intro j _ _
      by_cases hj : j = t
      · subst hj; exact heq
      · exact hoth j hj
    · apply sumTo_lt
      · intro j _ _
        by_cases hj : j = t
        · subst hj; exact Nat.le_of_lt hwlt
        · rw [hsame j hj]; exact Nat.le_refl _
      · exact ⟨t, ht1, htn, hwlt⟩

/-- **Nobody is ever blocked for good.**  From EVERY reachable state of
well-formed programs (any number of threads, all operations) there is a finite
continuation after which every interface thread has returned from its last
call and every command ever queued has been executed exactly once.  (So there
is no partial deadlock either — no subset of threads can be stuck while the
solver keeps spinning.) -/
theorem can_always_finish (ps : List (List Op)) (hwf : ∀ p ∈ ps, WF false p = true) (s : State)
    (hr : Reachable Cfg.fixed (progsOf ps) s) :
    ∃ sched, (∀ t ∈ sched, t ≤ ps.length) ∧ runs Cfg.fixed s sched = true ∧
      (∀ t, 1 ≤ t → t ≤ ps.length →
        ((run Cfg.fixed s sched).th t).pc = IPc.idle ∧ ((run Cfg.fixed s sched).th t).prog = []) ∧
      (run Cfg.fixed s sched).queuedLog = execIds (run Cfg.fixed s sched) ∧
      (execIds (run Cfg.fixed s sched)).Nodup := by
  obtain ⟨sched, h1, h2, h3, h4, h5⟩ := can_finish hwf s hr
  refine ⟨sched, h1, h2, h3, ?_⟩
  have hq := queue_exactly_once Cfg.fixed (progsOf ps) _ (reachable_run sched hr h2)
  rw [h4, h5] at hq
  simp only [List.append_nil] at hq
  exact ⟨hq.1, hq.2.2⟩

/-! ## termination under strong fairness -/

/-- **Fair termination.**  Any number of interface threads running well-formed
programs (all operations), ANY infinite schedule `σ : Nat → Tid` (an entry
naming a thread that is not enabled is a no-op) that is strongly fair — every
thread that is enabled infinitely often is scheduled, while enabled,
infinitely often.  Then the run reaches a state in which every interface
thread has returned from its last call and every command ever queued has been
executed exactly once.  Proof: the pair (`muIface`, `muWait2`) never increases
and strictly decreases with every interface step, so interface steps are
finitely many; afterwards, if from some point on no interface thread were ever
enabled, the solver would always be enabled and each of its steps would
decrease `muSolver` (`stuck_idle_all_done` excludes the one idle edge), which
fairness forbids; so some interface thread is enabled infinitely often and
fairness gives it one more step — contradiction. -/
theorem terminates_under_strong_fairness (ps : List (List Op))
    (hwf : ∀ p ∈ ps, WF false p = true) (σ : Nat → Tid) (hfair : StronglyFair ps σ) :
    ∃ i, (∀ t, 1 ≤ t → t ≤ ps.length →
        ((trace ps σ i).th t).pc = IPc.idle ∧ ((trace ps σ i).th t).prog = []) ∧
      (trace ps σ i).queuedLog = execIds (trace ps σ i) ∧ (execIds (trace ps σ i)).Nodup := by
  obtain ⟨i, h3, h4, h5⟩ := fair_terminates hwf σ hfair
  refine ⟨i, h3, ?_⟩
  have hq := queue_exactly_once Cfg.fixed (progsOf ps) _ (trace_reachable ps σ i)
  rw [h4, h5] at hq
  simp only [List.append_nil] at hq
  exact ⟨hq.1, hq.2.2⟩

/-- the fairness hypothesis is satisfiable: every set of well-formed programs
has a strongly fair schedule (so `terminates_under_strong_fairness` is not
vacuous) -/
theorem strongly_fair_schedule_exists (ps : List (List Op))
    (hwf : ∀ p ∈ ps, WF false p = true) : ∃ σ, StronglyFair ps σ :=
  strongly_fair_exists hwf

/-- Weak fairness (only *continuously* enabled threads must be scheduled) is
NOT enough, in the model as with CPython's unfair locks: after thread 1 has
reached `with self.qlock:` inside `dispatch` (three steps), let the solver run
alone for any number `k` of rounds.  Every solver step is enabled; at the
start of each round thread 1 is enabled, two solver steps later (the solver is
inside `with self.qlock`) it is not — so it is never continuously enabled, the
schedule "solver only" is weakly fair, and thread 1 never moves. -/
theorem weak_fairness_is_not_enough (k : Nat) :
    let s0 := run Cfg.fixed (init (progsOf [[Op.queue Cmd.probe]])) [1, 1, 1]
    let sk := run Cfg.fixed s0 (rounds k)
    runs Cfg.fixed (init (progsOf [[Op.queue Cmd.probe]])) [1, 1, 1] = true ∧
    runs Cfg.fixed s0 (rounds k) = true ∧ (sk.th 1).pc = IPc.qAcqQ Cmd.probe 0 ∧
    ¬ Final 1 sk ∧ enabled Cfg.fixed sk 1 = true ∧
    enabled Cfg.fixed (run Cfg.fixed sk [0, 0]) 1 = false ∧
    runs Cfg.fixed sk [0, 0, 0, 0, 0] = true := by
  intro s0 sk
  have hidle : Idle s0 := ⟨by decide, by decide, by decide, by decide⟩
  have hpc0 : (s0.th 1).pc = IPc.qAcqQ Cmd.probe 0 := by decide
  obtain ⟨e1, e2⟩ := idle_rounds k hidle
  have hsk : sk = { s0 with count := s0.count + k } := e1
  have hidlek : Idle sk := by rw [hsk]; exact ⟨hidle.spc, hidle.q, hidle.queue, hidle.pause⟩
  have hpck : (sk.th 1).pc = IPc.qAcqQ Cmd.probe 0 := by rw [hsk]; exact hpc0
  obtain ⟨p1, p2, p3⟩ := idle_parked hidlek (t := 1) (by decide) hpck
  refine ⟨by decide, e2, hpck, ?_, p1, p2, p3⟩
  intro hf
  have := (hf.1 1 (Nat.le_refl _) (Nat.le_refl _)).1
  rw [hpck] at this; cases this

/-! ## the statement announced earlier (`no_deadlock_statement`) now holds -/

/-- per thread: `pause_on_next … [wait] … cont` balanced, `wait`/`cont` only
inside, `get_result` only of own earlier tasks, once each -/
def WellFormedProg : Bool → Nat → List Nat → List Op → Bool
  | paused, _, _, [] => !paused
  | paused, nq, got, Op.pause :: r => !paused && WellFormedProg true nq got r
  | paused, nq, got, Op.wait :: r => paused && WellFormedProg paused nq got r
  | paused, nq, got, Op.cont :: r => paused && WellFormedProg false nq got r
  | paused, nq, got, Op.queue _ :: r => WellFormedProg paused (nq + 1) got r
  | paused, nq, got, Op.getMine j :: r =>
    decide (j < nq) && !decide (j ∈ got) && WellFormedProg paused nq (j :: got) r
  | _, _, _, Op.getResult _ :: _ => false
  | paused, nq, got, _ :: r => WellFormedProg paused nq got r

/-- in every reachable state of the repaired protocol running well-formed
programs of `n` interface threads, if some interface thread has not finished
then some thread can take a step (no deadlock), -/
def no_deadlock_statement : Prop :=
  ∀ (n : Nat) (ps : List (List Op)), ps.length = n →
    (∀ p ∈ ps, WellFormedProg false 0 [] p = true) →
    ∀ s, Reachable Cfg.fixed (progsOf ps) s →
      (∃ t, 1 ≤ t ∧ t ≤ n ∧ ¬ ((s.th t).pc = IPc.idle ∧ (s.th t).prog = [])) →
      ∃ t, t ≤ n ∧ enabled Cfg.fixed s t = true

theorem wf_of_wellFormedProg : ∀ (b : Bool) (nq : Nat) (got : List Nat) (p : List Op),
    WellFormedProg b nq got p = true → WF b p = true
  | b, nq, got, [] => by simp [WellFormedProg, WF]
  | b, nq, got, op :: r => by
    intro h
    cases op <;>
      simp only [WellFormedProg, WF, Bool.and_eq_true, Bool.not_eq_true', decide_eq_true_eq,
        decide_eq_false_iff_not] at h ⊢
    · exact wf_of_wellFormedProg b nq got r h
    · exact wf_of_wellFormedProg b nq got r h
    · exact wf_of_wellFormedProg b (nq + 1) got r h
    · cases h
    · exact wf_of_wellFormedProg b nq _ r h.2
    · exact wf_of_wellFormedProg true nq got r h.2
    · obtain ⟨hb, h⟩ := h; subst hb; exact wf_of_wellFormedProg true nq got r h
    · exact wf_of_wellFormedProg false nq got r h.2

/-- the announced statement, a special case of `no_deadlock` (which needs
neither the restriction on `get_result` ids nor an unfinished thread) -/
theorem no_deadlock_statement_holds : no_deadlock_statement := by
  intro n ps hn hwf s hr _
  subst hn
  exact no_deadlock ps (fun p hp => wf_of_wellFormedProg false 0 [] p (hwf p hp)) s hr

end PysphVerif.C18
