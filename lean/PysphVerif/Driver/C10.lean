import PysphVerif.Driver.Common
import PysphVerif.Model.SolverLoop
/-!
Line protocol for C10 (Float, bit patterns):

  `solve dt=<f> tf=<f> pfreq=<nat> out=<fl> ndamp=<nat> damp=<fl> max=<nat> adaptive=<0|1> seq=<list of N|f>`

`damp` lists the damping factors for count = 0 … ndamp-1 (the harness evaluates
the documented sine formula), `seq` the values successive calls of
`integrator.compute_time_step` return (`N` = None; `None` after the list ends).
`EPSILON` is the module constant 2⁻⁵¹ and is NOT taken from the line.

Answer: the event trace, blank separated:
  `d:<t>:<count>:<solver_data dt>`  dump_output
  `b` / `a`                         pre / post step callbacks
  `s:<t>:<dt>`                      integrator.step(t, dt)
and finally `e:<t>:<count>:<dt>` (the solver's t, count, dt after solve()).
-/
namespace PysphVerif.Driver.C10
open PysphVerif.Wire PysphVerif.SolverLoop

/-- `numpy.finfo(float).eps*2` = 2⁻⁵¹ -/
def EPSILON : Float := Float.ofBits 0x3CC0000000000000

def nan : Float := Float.ofBits 0x7FF8000000000000

def parseSeqItem (s : String) : Option (Option Float) :=
  if s = "N" then some none else (parseFloatBits? s).map some

def parseBool? (s : String) : Option Bool :=
  if s = "0" then some false else if s = "1" then some true else none

def showEv : Ev Float → String
  | Ev.dump s => s!"d:{showFloatBits s.t}:{s.count}:{showFloatBits (solverData s)}"
  | Ev.pre => "b"
  | Ev.step s => s!"s:{showFloatBits s.t}:{showFloatBits s.dt}"
  | Ev.post => "a"

def handleWith (slv : Cfg Float → Float → St Float × List (Ev Float)) (rest : List String) :
    String :=
    let kv := kvs rest
    let r : Option String := do
      let dt ← (lookup kv "dt") >>= parseFloatBits?
      let tf ← (lookup kv "tf") >>= parseFloatBits?
      let pfreq ← (lookup kv "pfreq") >>= parseNat?
      let out ← (lookup kv "out") >>= parseList? parseFloatBits?
      let ndamp ← (lookup kv "ndamp") >>= parseNat?
      let damp ← (lookup kv "damp") >>= parseList? parseFloatBits?
      let mx ← (lookup kv "max") >>= parseNat?
      let ad ← (lookup kv "adaptive") >>= parseBool?
      let seq ← (lookup kv "seq") >>= parseList? parseSeqItem
      if pfreq = 0 then none
      else if damp.length ≠ ndamp then none
      else
        let dampA := damp.toArray
        let seqA := seq.toArray
        let c : Cfg Float :=
          { tf := tf, EPS := EPSILON, pfreq := pfreq, outT := out, nDamp := ndamp,
            maxSteps := mx, adaptive := ad,
            dampFac := fun k => dampA.getD k nan,
            adapt := fun k => seqA.getD k none,
            cast := Float.ofNat }
        let r := slv c dt
        let evs := r.2.map showEv
        let fin := s!"e:{showFloatBits r.1.t}:{r.1.count}:{showFloatBits r.1.dt}"
        pure (" ".intercalate (evs ++ [fin]))
    match r with
    | some s => s
    | none => "bad-op"

def handle (line : String) : String :=
  match tokens line with
  | "solve" :: rest => handleWith solve rest
  -- the model of the code before the fix (only used to validate `Pinned.*` once)
  | "solve-pinned" :: rest => handleWith Pinned.solve rest
  | _ => "bad-op"

end PysphVerif.Driver.C10

def main : IO Unit := PysphVerif.Driver.loopPure PysphVerif.Driver.C10.handle
