import PysphVerif.Driver.Common
import PysphVerif.Model.Nnps
import PysphVerif.Model.NnpsStore
import PysphVerif.Model.NnpsZOrder
import PysphVerif.Model.NnpsStrat
import PysphVerif.Model.NnpsBounds
import PysphVerif.Model.NnpsAlias
/-!
Line protocol for C01 (exact rationals):

  `q rs=<rat> tiny=<rat> A x=<rl> y=<rl> z=<rl> h=<rl> A x=… …`

answers one line

  `cs=<rat> hmin=<rat|none> P <d>:<s>:<l0>|<l1>|… P …`

and `self …` (same arguments, meant for small inputs) additionally
`grid=<ok|BAD> tree=<ok|BAD> cache=<ok|BAD> store=<ok|BAD> zorder=<ok|BAD> strat=<ok|BAD>` after
`hmin=`,

with one `P` block per (destination array d, source array s) in row order
`d*narrays+s`; `l_i` is the brute-force neighbour list of destination particle
`i` (comma separated source indices, `_` when empty; the block body is `-` for
an empty destination array).  `grid` reports whether the Grid-family model
(3×3×3 stencil candidates with the model's own origin = componentwise minimum)
returned the same lists (a self-test of the executable model; the theorem
`nbrs_exact_grid` proves it must), `tree` the same for a one-level tree built
by splitting the source array in index halves, `cache` for the cache model
under a two-thread round-robin schedule, `store` for the five per-class storage
models of `Model/NnpsStore.lean` (LinkedList head/next over flattened cells,
BoxSort dense index, SpatialHash chains with table sizes 1 and 7, DictBoxSort,
CellIndexing packed sorted keys with sufficient bit widths), `zorder` for the z-order models of
`Model/NnpsZOrder.lean` (ZOrderNNPS; ExtendedZOrderNNPS asymmetric with H = 2 and symmetric with
H = 2, 3: shared cell ids, nbr_boxes rows with both passes, lengths, row walk), `strat` for the
models of `Model/NnpsStrat.lean` (StratifiedHashNNPS with (levels, H) = (1,1), (2,1), (3,2) and
table sizes 1 and 7; StratifiedSFCNNPS with 1, 2, 3 levels).

  `zo maxkey=<n> H=<n> A c=<x:y:z,…|_> A …`

runs the z-order bookkeeping on integer cells (computed by the harness with the same double
operations as `find_cell_id_raw`) and answers, per array `a`, `K<a>=<sorted keys>`
`C<a>=<cids by pid>` `P<a>=<pids, ascending inside every run of equal keys>`, then `maxcid=<n>`
and per array `R<a>=<row of cid 0>|<row of cid 1>|…` (the found start indices before the first
-1), to be compared with `get_keys / get_cids / get_pids / get_nbr_boxes` of the real object.

  `cell rs=<rat> tiny=<rat> H h=<rl> H h=<rl> …`  answers `cs=<rat> hmin=<rat|none>`.

  `lev kind=<hash|sfc> rs=<rat> cs=<rat> hmin=<rat> eps=<rat> L=<n> H h=<rl> H h=<rl> …`

answers `V <levels of the first array> V …` (`_` for an empty array): the level of every particle
as `StratifiedHashNNPS._get_hash_id` / `StratifiedSFCNNPS._get_level` computes it, read in exact
arithmetic on the exact values of the doubles (`eps` is the exact value of the double `EPS`); the
harness compares the per-level counts with `count_particles` / `get_number_of_particles` of the
real objects.

  `tree rs=<rat> T <node> S x=… y=… z=… h=… D x=… y=… z=… h=… D …`

where `<node>` is the preorder dump of a REAL octree (exact rational values of its doubles):
`L <xmin> <ymin> <zmin> <hmax> <length> <pids|_>` for a leaf,
`N <xmin> <ymin> <zmin> <hmax> <length> <k>` followed by its `k` non-NULL children for an inner
node; `S` is the source array the tree was built from, each `D` a destination array.  Answers

  `inv=<ok|BAD> nodup=<ok|BAD> all=<ok|BAD> query=<ok|BAD> nodes=<n> npids=<n>`

`inv` = `Tree.invB` (the hypothesis `TreeInv` of `tree_query_exact`, see `invB_sound`), `nodup`
and `all` = the other two hypotheses (leaf index lists hold every source index exactly once),
`query` = the model's traversal of this tree returns the brute-force list (as a set) for every
destination particle.

  `bounds big=<x> pad=<x> eps=<x> half=<x> cs=<x> A x=<xl> y=<xl> z=<xl> A …`

(doubles as bit patterns) runs `NNPS._compute_bounds` / `_get_number_of_cells` / `find_cell_id` of
`Model/NnpsBounds.lean` at `Float`, i.e. with the operations of the compiled code in the same order,
and answers

  `lo=<x,x,x> hi=<x,x,x> nc=<n,n,n> valid=<ok|BAD> face=<n> top=<n> hiface=<n>`

`lo / hi` must equal `nps.xmin / nps.xmax` of the real object bit for bit, `nc` the
`ncells_per_dim` of LinkedListNNPS / BoxSortNNPS; `valid` = every particle of every array is binned
into a valid cell (`allValid`, the conclusion of `padded_bounds_valid` evaluated in doubles);
`face` = number of (particle, axis) pairs whose `(x - xmin)/cs` is a positive whole number in
doubles (the particle sits exactly on a cell face of the real grid), `top` = number of axes on
which that holds for the largest coordinate, `hiface` = number of axes on which
`cell_size1*(xmax - xmin)` is a positive whole number.

  `alias rs=<rat> A x=… y=… z=… h=… A … O <op> <op> …`

runs a history of query-API calls on the ownership model of `Model/NnpsAlias.lean`:
`c:<obj>:<s>:<d>:<i>:<a>` cached query of object `obj` for destination `i` of array `d` among
source `s` with output array `a`; `n:<obj>:<s>:<d>:<i>:<a>:<p>` un-cached query (`p` = 1:
`prealloc=True`); `r:<obj>` reset of the caches of `obj`.  Answers `safe=<ok|BAD> R <l0>|<l1>|…`
with the list the caller reads after every call (`-` for a reset).
-/
namespace PysphVerif.Driver.C01
open PysphVerif.Wire PysphVerif.Nnps

/-- split token list at every occurrence of `sep` -/
def groups (sep : String) (toks : List String) : List (List String) :=
  let r := toks.foldl (fun (acc : List (List String)) t =>
    if t = sep then [] :: acc else
    match acc with
    | [] => [[t]]
    | g :: gs => (t :: g) :: gs) [[]]
  r.reverse.map List.reverse

def zip4 : List Rat → List Rat → List Rat → List Rat → Option (List (Pt Rat))
  | [], [], [], [] => some []
  | x :: xs, y :: ys, z :: zs, h :: hs =>
    (zip4 xs ys zs hs).map (fun r => { x := x, y := y, z := z, h := h } :: r)
  | _, _, _, _ => none

def parseArr (toks : List String) : Option (List (Pt Rat)) := do
  let kv := kvs toks
  let x ← (lookup kv "x") >>= parseList? parseRat?
  let y ← (lookup kv "y") >>= parseList? parseRat?
  let z ← (lookup kv "z") >>= parseList? parseRat?
  let h ← (lookup kv "h") >>= parseList? parseRat?
  zip4 x y z h

def showNat (n : Nat) : String := toString n

def minBy (f : Pt Rat → Rat) (ps : List (Pt Rat)) : Rat :=
  match ps with
  | [] => 0
  | p :: rest => rest.foldl (fun m q => if f q < m then f q else m) (f p)
def maxBy (f : Pt Rat → Rat) (ps : List (Pt Rat)) : Rat :=
  match ps with
  | [] => 0
  | p :: rest => rest.foldl (fun m q => if m < f q then f q else m) (f p)

/-- a one-level tree over `src`: root cube = bounding cube, two leaves holding
the index halves with their own bounding cubes and hmax -/
def mkLeaf (src : List (Pt Rat)) (idx : List Nat) : Tree Rat :=
  let ps := idx.filterMap (fun j => src[j]?)
  let x0 := minBy (·.x) ps
  let y0 := minBy (·.y) ps
  let z0 := minBy (·.z) ps
  let len := maxA (maxA (maxBy (·.x) ps - x0) (maxBy (·.y) ps - y0)) (maxBy (·.z) ps - z0)
  Tree.leaf { x := x0, y := y0, z := z0, h := maxBy (·.h) ps } len idx

def mkTree (src : List (Pt Rat)) : Tree Rat :=
  let n := src.length
  let all := List.range n
  let a := all.take (n / 2)
  let b := all.drop (n / 2)
  let x0 := minBy (·.x) src
  let y0 := minBy (·.y) src
  let z0 := minBy (·.z) src
  let len := maxA (maxA (maxBy (·.x) src - x0) (maxBy (·.y) src - y0)) (maxBy (·.z) src - z0)
  Tree.node { x := x0, y := y0, z := z0, h := maxBy (·.h) src } len
    ((if a.isEmpty then [] else [mkLeaf src a]) ++ (if b.isEmpty then [] else [mkLeaf src b]))

def sortNat (l : List Nat) : List Nat := (l.toArray.qsort (· < ·)).toList

/-- smallest `b` with `m < 2^b` -/
def bitsFor (m : Nat) : Nat := (List.range 33).find? (fun b => decide (m < 2 ^ b)) |>.getD 33

def maxInt (l : List Int) : Int := l.foldl (fun m x => if m < x then x else m) 0

/-- the five storage models against brute force for one (src, q) -/
def storeOk (rs cs : Rat) (o : Pt Rat) (arrs : List (List (Pt Rat))) (s : Nat) (src : List (Pt Rat))
    (q : Pt Rat) (bf : List Nat) : Bool :=
  let allp := arrs.flatMap id
  let cells := allp.map (cell3 Rat.floor cs o) ++ [cell3 Rat.floor cs o q]
  let nc : Nat × Nat × Nat := ((maxInt (cells.map (·.1)) + 1).toNat,
    (maxInt (cells.map (·.2.1)) + 1).toNat, (maxInt (cells.map (·.2.2)) + 1).toNat)
  let n := src.length
  let cellAt := cellAtOf Rat.floor cs o src
  let cq := cell3 Rat.floor cs o q
  let fin := fun (c : List Nat) => sortNat (nbrsOf rs src q c)
  let ll := fin (llCands nc (nc.1 * nc.2.1 * nc.2.2) n cellAt cq)
  let occ := occupied (allp.map (fun p => flattenCell nc (cell3 Rat.floor cs o p)))
  let box := fin (boxCands nc occ n cellAt cq)
  let sh1 := fin (shCands (spatialHash 1) n cellAt (hAtOf src) cq)
  let sh7 := fin (shCands (spatialHash 7) n cellAt (hAtOf src) cq)
  let items := (List.range arrs.length).flatMap (fun a =>
    dictItems a (arrs.getD a []).length (cellAtOf Rat.floor cs o (arrs.getD a [])))
  let dict := fin (dictCands (dictBuild items) s cq)
  let ci := fin (ciCands (bitsFor n) (bitsFor (nc.1 + 1)) (bitsFor (nc.2.1 + 1)) n cellAt cq)
  let want := sortNat bf
  decide (ll = want) && decide (box = want) && decide (sh1 = want) && decide (sh7 = want) &&
    decide (dict = want) && decide (ci = want)

/-- componentwise largest cell of all particles (the cell of `xmax`) -/
def zMaxKey (cs : Rat) (o : Pt Rat) (allp : List (Pt Rat)) : Nat :=
  let cells := allp.map (cell3 Rat.floor cs o)
  1 + zKey (maxInt (cells.map (·.1)), maxInt (cells.map (·.2.1)), maxInt (cells.map (·.2.2)))

/-- the rows and lengths of source `s`, computed once and tabulated for the cell ids below
`maxcid` (data, not a closure: the compiled code would otherwise recompute them per query) -/
def zTables (maskLen maxcid : Nat) (zs : List ZArr) (nbrOf : ZArr → Cell → Nat → List Int)
    (s : Nat) : Option (ZArr × Array (List Int) × Array Nat) :=
  match zs[s]? with
  | none => none
  | some a =>
    let rows := zRows maskLen zs s a (nbrOf a)
    let lens := zLengths a
    some (a, ((List.range maxcid).map rows).toArray, ((List.range maxcid).map lens).toArray)

/-- the body of `zCandsGen` on the tabulated rows / lengths -/
def zQuery (t : Option (ZArr × Array (List Int) × Array Nat)) (b : ZArr) (i : Nat) : List Nat :=
  match t with
  | none => []
  | some (a, rowsA, lensA) => zCandsRow a (fun c => lensA.getD c 1) (rowsA.getD (b.cids i) [])

/-- one z-order model (given by its box function) against brute force for all queries -/
def zModelOk (rs : Rat) (arrs : List (List (Pt Rat))) (maskLen : Nat) (ins : List ZIn)
    (nbrOf : List ZArr → Nat → ZArr → Cell → Nat → List Int)
    (bfs : Nat → Nat → List (List Nat)) : Bool :=
  let r := zBuild ins
  let zs := r.1
  (List.range arrs.length).all (fun s =>
    let src := arrs.getD s []
    let t := zTables maskLen r.2 zs (nbrOf zs s) s
    (List.range arrs.length).all (fun d =>
      let dst := arrs.getD d []
      match zs[d]? with
      | none => false
      | some b =>
        ((List.range dst.length).zip (dst.zip (bfs d s))).all (fun (i, q, bf) =>
          decide (sortNat (nbrsOf rs src q (zQuery t b i)) = sortNat bf))))

/-- the z-order models against brute force: ZOrderNNPS, ExtendedZOrderNNPS asymmetric (H = 2)
and symmetric (H = 2, 3); plus the top-level functions themselves on one query -/
def zorderOk (rs cs : Rat) (o : Pt Rat) (arrs : List (List (Pt Rat)))
    (bfs : Nat → Nat → List (List Nat)) : Bool :=
  let allp := arrs.flatMap id
  let hs := arrs.map (fun a => hAtOf a)
  let sub := fun (H : Nat) => cs / (H : Rat)
  -- `zInOfPts Rat.floor c o sortPids` with the cells tabulated (the same function of `j`)
  let insOf := fun (c : Rat) => arrs.map (fun arr =>
    let z := zInOfPts Rat.floor c o sortPids arr
    let cellsA := ((List.range arr.length).map z.cellAt).toArray
    ({ n := z.n, cellAt := fun j => cellsA.getD j (0, 0, 0), pids := z.pids } : ZIn))
  let mk1 := zMaxKey cs o allp
  let mk2 := zMaxKey (sub 2) o allp
  let mk3 := zMaxKey (sub 3) o allp
  let mk := fun (c : Rat) => if c = cs then mk1 else if c = sub 2 then mk2 else mk3
  let symOf := fun (H : Nat) (zs : List ZArr) (s : Nat) (a : ZArr) =>
    zNbrSym Rat.ceil (mk (sub H)) H rs (sub H) (zs.zip hs) a (hs.getD s (fun _ => 0))
  let z1 := zModelOk rs arrs 27 (insOf cs) (fun _ _ a c _ => zNbrIdx (mk cs) (maskZ 1) a c) bfs
  let a2 := zModelOk rs arrs 125 (insOf (sub 2)) (fun _ _ a c _ => zNbrIdx (mk (sub 2)) (maskZ 2) a c) bfs
  -- the symmetric box test evaluates the per-cell hmax tables for every mask entry: larger masks
  -- only on smaller inputs
  let s2 := if allp.length ≤ 18 then zModelOk rs arrs 125 (insOf (sub 2)) (symOf 2) bfs else true
  let s3 := if allp.length ≤ 12 then zModelOk rs arrs 343 (insOf (sub 3)) (symOf 3) bfs else true
  -- top level, one query: destination particle 0 of array 0 against the last array
  let s := arrs.length - 1
  let top := match (arrs.getD 0 [])[0]?, (bfs 0 s)[0]? with
    | some q, some bf =>
      let src := arrs.getD s []
      let fin := fun (c : List Nat) => sortNat (nbrsOf rs src q c)
      decide (fin (zOrderCands (mk cs) (insOf cs) s 0 0) = sortNat bf) &&
      decide (fin (extZOrderAsymCands (mk (sub 2)) 2 (insOf (sub 2)) s 0 0) = sortNat bf) &&
      decide (fin (extZOrderSymCands Rat.ceil (mk (sub 2)) 2 rs (sub 2) (insOf (sub 2)) hs s 0 0) =
        sortNat bf) &&
      decide (fin (extZOrderSymCands Rat.ceil (mk (sub 3)) 3 rs (sub 3) (insOf (sub 3)) hs s 0 0) =
        sortNat bf)
    | _, _ => true
  z1 && a2 && s2 && s3 && top

/-- the stratified models against brute force for all queries -/
def stratOk (rs cs : Rat) (hm : Option Rat) (o : Pt Rat) (arrs : List (List (Pt Rat)))
    (bfs : Nat → Nat → List (List Nat)) : Bool :=
  let hmin := hm.getD 0
  let pairs := (List.range arrs.length).flatMap (fun d => (List.range arrs.length).map (fun s => (d, s)))
  let hashOk := fun (L H size : Nat) => pairs.all (fun (d, s) =>
    let src := arrs.getD s []
    ((arrs.getD d []).zip (bfs d s)).all (fun (q, bf) =>
      decide (sortNat (nbrsOf rs src q (stratHashCands Rat.floor Rat.ceil (spatialHash size) rs cs hmin
        (1 / 1000000) L H o src q)) = sortNat bf)))
  let sfcOk := fun (L : Nat) =>
    let ins := arrs.map (fun arr =>
      let z := sInOfPtsFixed Rat.floor rs cs L o sortPids 64 arr
      -- tabulated (same functions of the particle index)
      let lv := ((List.range arr.length).map z.levelOf).toArray
      let cl := (List.range L).map (fun k => ((List.range arr.length).map (z.cellAtL k)).toArray)
      ({ n := z.n, levelOf := fun j => lv.getD j 0,
         cellAtL := fun k j => (cl.getD k #[]).getD j (0, 0, 0), pids := z.pids } : SIn))
    let hs := arrs.map (fun a => hAtOf a)
    pairs.all (fun (d, s) =>
      let src := arrs.getD s []
      ((List.range (arrs.getD d []).length).zip ((arrs.getD d []).zip (bfs d s))).all (fun (i, q, bf) =>
        decide (sortNat (nbrsOf rs src q (sfcCands Rat.ceil 64 L (sfcCell rs cs L) ins hs s d i)) =
          sortNat bf)))
  hashOk 1 1 7 && hashOk 2 1 1 && hashOk 3 2 7 && sfcOk 1 && sfcOk 2 && sfcOk 3

def parseCell (s : String) : Option Cell :=
  match s.splitOn ":" with
  | [a, b, c] =>
    match parseInt? a, parseInt? b, parseInt? c with
    | some a, some b, some c => some (a, b, c)
    | _, _, _ => none
  | _ => none

/-- pids in ascending order inside every run of equal keys (`std::sort` is not stable) -/
def canonRuns (key : Nat → Nat) (pids : List Nat) : List Nat :=
  let ks := runKeys (pids.map key)
  ks.flatMap (fun k => sortNat (pids.filter (fun p => key p = k)))

def handleZo (maxKey H : Nat) (cellss : List (List Cell)) : String :=
  let ins : List ZIn := cellss.map (fun cells =>
    { n := cells.length, cellAt := fun i => cells.getD i (0, 0, 0),
      pids := sortPids (fun p => zKey (cells.getD p (0, 0, 0))) cells.length })
  let r := zBuild ins
  let zs := r.1
  let per := (List.range zs.length).map (fun k =>
    match zs[k]? with
    | none => ""
    | some a =>
      "K" ++ toString k ++ "=" ++ showList showNat a.keys ++
      " C" ++ toString k ++ "=" ++ showList showNat ((List.range a.n).map a.cids) ++
      " P" ++ toString k ++ "=" ++ showList showNat (canonRuns a.key a.pids))
  let rows := (List.range zs.length).map (fun k =>
    match zs[k]? with
    | none => ""
    | some a =>
      let rw := zRows ((2 * H + 1) ^ 3) zs k a (fun c _ => zNbrIdx maxKey (maskZ H) a c)
      "R" ++ toString k ++ "=" ++ (if r.2 = 0 then "-" else "|".intercalate
        ((List.range r.2).map (fun cid =>
          showList (fun (x : Int) => toString x) ((rw cid).takeWhile (fun x => decide (0 ≤ x)))))))
  " ".intercalate per ++ " maxcid=" ++ toString r.2 ++ " " ++ " ".intercalate rows

def handleQ (self : Bool) (rs tiny : Rat) (arrs : List (List (Pt Rat))) : String :=
  let hss := arrs.map (fun a => a.map (·.h))
  let cs := cellSize rs tiny hss
  let hm := hminScaled rs hss
  let allp := arrs.flatMap id
  let o : Pt Rat := { x := minBy (·.x) allp, y := minBy (·.y) allp, z := minBy (·.z) allp, h := 0 }
  let narr := arrs.length
  let pairs := (List.range narr).flatMap (fun d => (List.range narr).map (fun s => (d, s)))
  let res := pairs.map (fun (d, s) =>
    let dst := arrs.getD d []
    let src := arrs.getD s []
    let bf := dst.map (fun q => bruteForce rs src q)
    let gr := if self then dst.map (fun q => gridNbrs Rat.floor rs cs o src q) else bf
    let t := mkTree src
    let tr := if self then dst.map (fun q => sortNat (treeNbrs rs src q t)) else bf
    -- cache model: fills in the order n-1 … 0 alternating between threads 1 and 0,
    -- then serial gets for every destination
    let find := fun i => match dst[i]? with
      | some q => bruteForce rs src q
      | none => []
    let sched := ((List.range dst.length).reverse).map (fun i => (i % 2, i))
    let c0 := Cache.run find Cache.reset (sched.filter (fun td => td.2 % 3 ≠ 0))
    let views := if self then (List.range dst.length).map (fun i => (Cache.get find c0 i).2) else bf
    let st := if self then (dst.zip bf).all (fun (q, b) => storeOk rs cs o arrs s src q b) else true
    (d, s, bf, decide (gr = bf), decide (tr = bf), decide (views = bf), st))
  let gridOk := res.all (fun r => r.2.2.2.1)
  let treeOk := res.all (fun r => r.2.2.2.2.1)
  let cacheOk := res.all (fun r => r.2.2.2.2.2.1)
  let storeOk := res.all (fun r => r.2.2.2.2.2.2)
  let bfs := fun (d s : Nat) => (res.find? (fun r => r.1 = d && r.2.1 = s)).map (·.2.2.1) |>.getD []
  let zoOk := if self then zorderOk rs cs o arrs bfs else true
  let stOk := if self then stratOk rs cs hm o arrs bfs else true
  let blocks := res.map (fun (d, s, bf, _) =>
    "P " ++ toString d ++ ":" ++ toString s ++ ":" ++
      (if bf.isEmpty then "-" else "|".intercalate (bf.map (showList showNat))))
  "cs=" ++ showRat cs ++ " hmin=" ++ (match hm with | some m => showRat m | none => "none") ++
    (if self then " grid=" ++ (if gridOk then "ok" else "BAD") ++
      " tree=" ++ (if treeOk then "ok" else "BAD") ++
      " cache=" ++ (if cacheOk then "ok" else "BAD") ++
      " store=" ++ (if storeOk then "ok" else "BAD") ++
      " zorder=" ++ (if zoOk then "ok" else "BAD") ++
      " strat=" ++ (if stOk then "ok" else "BAD") else "") ++
    (if blocks.isEmpty then "" else " " ++ " ".intercalate blocks)

mutual
/-- preorder parser with fuel -/
def parseTreeF : Nat → List String → Option (Tree Rat × List String)
  | 0, _ => none
  | f + 1, tag :: x :: y :: z :: hm :: len :: a :: rest =>
    match parseRat? x, parseRat? y, parseRat? z, parseRat? hm, parseRat? len with
    | some x, some y, some z, some hm, some len =>
      if tag = "L" then
        (parseList? parseNat? a).map (fun ids =>
          (Tree.leaf { x := x, y := y, z := z, h := hm } len ids, rest))
      else if tag = "N" then
        match parseNat? a with
        | some k =>
          (parseChildrenF f k rest).map (fun (ch, r) =>
            (Tree.node { x := x, y := y, z := z, h := hm } len ch, r))
        | none => none
      else none
    | _, _, _, _, _ => none
  | _, _ => none
def parseChildrenF : Nat → Nat → List String → Option (List (Tree Rat) × List String)
  | _, 0, rest => some ([], rest)
  | 0, _ + 1, _ => none
  | f + 1, k + 1, toks =>
    match parseTreeF f toks with
    | some (t, r) => (parseChildrenF f k r).map (fun (ts, r') => (t :: ts, r'))
    | none => none
end

def okBad (b : Bool) : String := if b then "ok" else "BAD"

def handleTree (rs : Rat) (t : Tree Rat) (src : List (Pt Rat)) (dsts : List (List (Pt Rat))) : String :=
  let pids := Tree.pids t
  let inv := Tree.invB src t
  let nodup := decide (sortNat pids).Nodup
  let all := (List.range src.length).all (fun j => pids.contains j)
  let query := dsts.all (fun dst => dst.all (fun q =>
    decide (sortNat (treeNbrs rs src q t) = bruteForce rs src q)))
  "inv=" ++ okBad inv ++ " nodup=" ++ okBad nodup ++ " all=" ++ okBad all ++
    " query=" ++ okBad query ++ " nodes=" ++ toString (Tree.size t) ++
    " npids=" ++ toString pids.length

/-! ### `bounds`: the padded bounds at `Float` -/

def fFloor (f : Float) : Int := (Float.floor f).toInt64.toInt
def fCeil (f : Float) : Int := (Float.ceil f).toInt64.toInt

def zip3F : List Float → List Float → List Float → Option (List (Pt Float))
  | [], [], [] => some []
  | x :: xs, y :: ys, z :: zs => (zip3F xs ys zs).map (fun r => { x := x, y := y, z := z, h := 0 } :: r)
  | _, _, _ => none

def parseArrF (toks : List String) : Option (List (Pt Float)) := do
  let kv := kvs toks
  let x ← (lookup kv "x") >>= parseList? parseFloatBits?
  let y ← (lookup kv "y") >>= parseList? parseFloatBits?
  let z ← (lookup kv "z") >>= parseList? parseFloatBits?
  zip3F x y z

/-- `t` is a positive whole number -/
def wholePos (t : Float) : Bool := decide (0 < t) && (Float.floor t == t)

def handleBounds (big pad eps half cs : Float) (arrs : List (List (Pt Float))) : String :=
  let B := boundsOf big pad eps half cs arrs
  let nc := ncells fCeil cs B
  let valid := allValid fFloor fCeil cs B arrs
  let allp := arrs.flatMap id
  let onFace := fun (lo x : Float) => wholePos ((x - lo) / cs)
  let face := (allp.filter (fun p => onFace B.x.1 p.x)).length +
    (allp.filter (fun p => onFace B.y.1 p.y)).length + (allp.filter (fun p => onFace B.z.1 p.z)).length
  let r := rawBounds big (colsOf (·.x) arrs) (colsOf (·.y) arrs) (colsOf (·.z) arrs)
  let top := (if onFace B.x.1 r.x.2 then 1 else 0) + (if onFace B.y.1 r.y.2 then 1 else 0) +
    (if onFace B.z.1 r.z.2 then 1 else 0)
  let hf := fun (a : Float × Float) => if wholePos ((1 / cs) * (a.2 - a.1)) then 1 else 0
  let hiface := hf B.x + hf B.y + hf B.z
  "lo=" ++ showList showFloatBits [B.x.1, B.y.1, B.z.1] ++
    " hi=" ++ showList showFloatBits [B.x.2, B.y.2, B.z.2] ++
    " nc=" ++ showList showNat [nc.1, nc.2.1, nc.2.2] ++
    " valid=" ++ (if valid then "ok" else "BAD") ++
    " face=" ++ toString face ++ " top=" ++ toString top ++ " hiface=" ++ toString hiface

/-! ### `alias`: histories of query-API calls on the ownership model -/

def parseAOp (narr : Nat) (t : String) : Option AOp :=
  let cid := fun (obj s d : Nat) => obj * narr * narr + d * narr + s
  match t.splitOn ":" with
  | ["c", obj, s, d, i, a] => do
    let obj ← parseNat? obj; let s ← parseNat? s; let d ← parseNat? d
    let i ← parseNat? i; let a ← parseNat? a
    if s < narr ∧ d < narr then some (AOp.cached (cid obj s d) i a) else none
  | ["n", obj, s, d, i, a, p] => do
    let obj ← parseNat? obj; let s ← parseNat? s; let d ← parseNat? d
    let i ← parseNat? i; let a ← parseNat? a; let p ← parseNat? p
    if s < narr ∧ d < narr ∧ p < 2 then some (AOp.direct (p == 0) (cid obj s d) i a) else none
  | ["r", obj] => do
    let obj ← parseNat? obj
    some (AOp.reset (obj * narr * narr) ((obj + 1) * narr * narr))
  | _ => none

def handleAlias (rs : Rat) (arrs : List (List (Pt Rat))) (ops : List AOp) : String :=
  let narr := arrs.length
  -- which (pair, destination) entries the history asks for
  let flags0 : Array (Array Bool) := ((List.range (narr * narr)).map (fun k =>
    Array.replicate (arrs.getD (k / narr) []).length false)).toArray
  let flags := ops.foldl (fun (fl : Array (Array Bool)) op =>
    match op with
    | AOp.cached c i _ => fl.modify (c % (narr * narr)) (fun row => row.modify i (fun _ => true))
    | AOp.direct _ c i _ => fl.modify (c % (narr * narr)) (fun row => row.modify i (fun _ => true))
    | AOp.reset _ _ => fl) flags0
  -- brute-force lists of those entries, tabulated once
  let tab : Array (Array (List Nat)) := ((List.range (narr * narr)).map (fun k =>
    let dst := arrs.getD (k / narr) []
    let src := arrs.getD (k % narr) []
    let row := flags.getD k #[]
    (((List.range dst.length).zip dst).map (fun (i, q) =>
      if row.getD i false then bruteForce rs src q else [])).toArray)).toArray
  let find : Nat → Nat → List Nat := fun c i =>
    if narr = 0 then [] else ((tab.getD (c % (narr * narr)) #[]).getD i [])
  let safe := AState.safeRun find AState.init ops
  let res := (AState.run find AState.init ops).2
  let shown := (ops.zip res).map (fun (op, l) =>
    match op with
    | AOp.reset _ _ => "-"
    | _ => showList showNat (sortNat l))
  "safe=" ++ (if safe then "ok" else "BAD") ++ " R " ++ "|".intercalate shown

def handle (line : String) : String :=
  match tokens line with
  | cmd :: rest =>
    if cmd = "q" ∨ cmd = "self" then
    (match groups "A" rest with
     | [] => "bad-op"
     | hd :: gs =>
       let kv := kvs hd
       match (lookup kv "rs") >>= parseRat?, (lookup kv "tiny") >>= parseRat?, gs.mapM parseArr with
       | some rs, some tiny, some arrs => handleQ (cmd = "self") rs tiny arrs
       | _, _, _ => "bad-op")
    else if cmd = "cell" then
    (match groups "H" rest with
     | [] => "bad-op"
     | hd :: gs =>
       let kv := kvs hd
       match (lookup kv "rs") >>= parseRat?, (lookup kv "tiny") >>= parseRat?,
             gs.mapM (fun g => (lookup (kvs g) "h") >>= parseList? parseRat?) with
       | some rs, some tiny, some hss =>
         "cs=" ++ showRat (cellSize rs tiny hss) ++ " hmin=" ++
           (match hminScaled rs hss with | some m => showRat m | none => "none")
       | _, _, _ => "bad-op")
    else if cmd = "zo" then
    (match groups "A" rest with
     | [] => "bad-op"
     | hd :: gs =>
       let kv := kvs hd
       match (lookup kv "maxkey") >>= parseNat?, (lookup kv "H") >>= parseNat?,
             gs.mapM (fun g => (lookup (kvs g) "c") >>= parseList? parseCell) with
       | some mk, some H, some cellss => handleZo mk H cellss
       | _, _, _ => "bad-op")
    else if cmd = "lev" then
    (match groups "H" rest with
     | [] => "bad-op"
     | hd :: gs =>
       let kv := kvs hd
       match lookup kv "kind", (lookup kv "rs") >>= parseRat?, (lookup kv "cs") >>= parseRat?,
             (lookup kv "hmin") >>= parseRat?, (lookup kv "eps") >>= parseRat?,
             (lookup kv "L") >>= parseNat?,
             gs.mapM (fun g => (lookup (kvs g) "h") >>= parseList? parseRat?) with
       | some kind, some rs, some cs, some hmin, some eps, some L, some hss =>
         if kind = "hash" then
           " ".intercalate (hss.map (fun hs => "V " ++ showList showNat
             (hs.map (stratLevel Rat.floor rs hmin (stratInterval cs hmin eps L)))))
         else if kind = "sfc" then
           " ".intercalate (hss.map (fun hs => "V " ++ showList showNat
             (hs.map (sfcLevelOfFixed rs cs L))))
         else "bad-op"
       | _, _, _, _, _, _, _ => "bad-op")
    else if cmd = "bounds" then
    (match groups "A" rest with
     | [] => "bad-op"
     | hd :: gs =>
       let kv := kvs hd
       match (lookup kv "big") >>= parseFloatBits?, (lookup kv "pad") >>= parseFloatBits?,
             (lookup kv "eps") >>= parseFloatBits?, (lookup kv "half") >>= parseFloatBits?,
             (lookup kv "cs") >>= parseFloatBits?, gs.mapM parseArrF with
       | some big, some pad, some eps, some half, some cs, some arrs =>
         handleBounds big pad eps half cs arrs
       | _, _, _, _, _, _ => "bad-op")
    else if cmd = "alias" then
    (match groups "O" rest with
     | [body, optoks] =>
       (match groups "A" body with
        | [] => "bad-op"
        | hd :: gs =>
          match (lookup (kvs hd) "rs") >>= parseRat?, gs.mapM parseArr with
          | some rs, some arrs =>
            (match optoks.mapM (parseAOp arrs.length) with
             | some ops => handleAlias rs arrs ops
             | none => "bad-op")
          | _, _ => "bad-op")
     | _ => "bad-op")
    else if cmd = "tree" then
    (match groups "T" rest with
     | [hd, body] =>
       (match (lookup (kvs hd) "rs") >>= parseRat?, groups "S" body with
        | some rs, [ttoks, arrtoks] =>
          (match parseTreeF (ttoks.length + 1) ttoks, (groups "D" arrtoks).mapM parseArr with
           | some (t, []), some (src :: dsts) => handleTree rs t src dsts
           | _, _ => "bad-op")
        | _, _ => "bad-op")
     | _ => "bad-op")
    else "bad-op"
  | _ => "bad-op"

end PysphVerif.Driver.C01

def main : IO Unit := PysphVerif.Driver.loopPure PysphVerif.Driver.C01.handle
