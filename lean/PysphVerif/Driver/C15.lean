import PysphVerif.Driver.Common
import PysphVerif.Gen.Riemann
/-!
Line protocol for C15 (IEEE doubles as bit patterns `xHHHHHHHHHHHHHHHH`):

* `names`                                   → comma separated `solverNames`
* `S <name> rhol rhor pl pr ul ur gamma <niter:int> tol r0 r1`
                                            → `<code> <result[0]> <result[1]>`
* `D <method:int> rhol … r1` (as `S`)       → the same through `riemann_solve`
* `SIGN x y`                                → `<value>`
* `PF p dk pk ck g1 g2 g4 g5 g6 r0 r1`      → `<code> <f> <fd>` (`prefun_exact`)

Everything runs the generated definitions of `Gen/Riemann.lean` at `Float`
with `floatOps` (`Float.sqrt`, `Float.pow`, `Float.abs`).
-/
namespace PysphVerif.Driver.C15
open PysphVerif.Wire PysphVerif.Riemann PysphVerif.Gen.Riemann

def showRes (r : Res Float) : String :=
  s!"{r.code} {showFloatBits r.r0} {showFloatBits r.r1}"

def floats (toks : List String) : Option (List Float) := toks.mapM parseFloatBits?

def handle (line : String) : String :=
  match tokens line with
  | ["names"] => showList id (solverNames)
  | ["SIGN", x, y] =>
    (match parseFloatBits? x, parseFloatBits? y with
     | some x, some y => showFloatBits (SIGN floatOps x y)
     | _, _ => "bad-op")
  | "PF" :: rest =>
    (match floats rest with
     | some [p, dk, pk, ck, g1, g2, g4, g5, g6, r0, r1] =>
       showRes (prefun_exact floatOps p dk pk ck g1 g2 g4 g5 g6 r0 r1)
     | _ => "bad-op")
  | [op, sel, rhol, rhor, pl, pr, ul, ur, gamma, niter, tol, r0, r1] =>
    (match floats [rhol, rhor, pl, pr, ul, ur, gamma, tol, r0, r1], parseInt? niter with
     | some [rhol, rhor, pl, pr, ul, ur, gamma, tol, r0, r1], some niter =>
       if op = "S" then
         (match runSolver floatOps sel rhol rhor pl pr ul ur gamma niter tol r0 r1 with
          | some r => showRes r
          | none => "bad-op")
       else if op = "D" then
         (match parseInt? sel with
          | some m => showRes (riemann_solve floatOps m rhol rhor pl pr ul ur gamma niter tol r0 r1)
          | none => "bad-op")
       else "bad-op"
     | _, _ => "bad-op")
  | _ => "bad-op"

end PysphVerif.Driver.C15

def main : IO Unit := PysphVerif.Driver.loopPure PysphVerif.Driver.C15.handle
