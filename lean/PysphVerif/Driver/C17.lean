import PysphVerif.Driver.Common
import PysphVerif.Model.Reorder
/-!
Line protocol for C17 (integers only):

* `ll ncells=<nat> cid=<nats>`                       → ordered indices of `LinkedListNNPS`/`BoxSortNNPS`
* `sort key=<nats>`                                  → ZOrder/ExtendedZOrder/StratifiedSFC (stable)
* `ci I=<nat> cell=<nats>`                           → `CellIndexingNNPS`
* `oct leafmax=<nat> fuel=<nat> code=<digit strings> stop=<digit strings>`
     `code[q]` = octant digits of particle `q` from the root down (`-` = none);
     `stop` = root-to-node paths where `eps > EPS_MAX` ended the subdivision  → Octree/CompressedOctree
* `gather idx=<nats> stride=<nat> data=<ints>`       → `c_align_array`
* `reorder fix=<0|1> idx=<nats> nreal=<nat> P <name> <stride> <ints> P …`
     → `nreal=<nat> P <name> <ints> P …` (`spatially_order_particles`, original / repaired)

answers are comma separated lists (`_` = empty); anything else: `bad-op`.
-/
namespace PysphVerif.Driver.C17
open PysphVerif.Wire PysphVerif.Reorder

def showNats (l : List Nat) : String := showList toString l
def showInts (l : List Int) : String := showList toString l

def fnOf (l : List Nat) (dflt : Nat) : Nat → Nat := fun i => l.getD i dflt

def parseDigits? (s : String) : Option (List Nat) :=
  if s = "-" then some [] else
  s.toList.mapM (fun c => if '0' ≤ c ∧ c ≤ '7' then some (c.toNat - '0'.toNat) else none)

/-- split token list at every "P" -/
def groups (toks : List String) : List (List String) :=
  let r := toks.foldl (fun (acc : List (List String)) t =>
    if t = "P" then [] :: acc else
    match acc with
    | [] => [[t]]
    | g :: gs => (t :: g) :: gs) [[]]
  r.reverse.map List.reverse

def parseCol (toks : List String) : Option Col :=
  match toks with
  | [name, stride, data] => do
    let s ← parseNat? stride
    let d ← parseList? parseInt? data
    pure { name := name, stride := s, data := d }
  | _ => none

def showCol (c : Col) : String := "P " ++ c.name ++ " " ++ showInts c.data

def showPA (pa : PA) : String :=
  " ".intercalate (("nreal=" ++ toString pa.nReal) :: pa.props.map showCol)

def handle (line : String) : String :=
  match groups (tokens line) with
  | [] => "bad-op"
  | hd :: colGroups =>
    match hd with
    | [] => "bad-op"
    | cmd :: rest =>
      let kv := kvs rest
      let nat (k : String) := (lookup kv k) >>= parseNat?
      let nats (k : String) := (lookup kv k) >>= parseList? parseNat?
      if cmd = "ll" then
        match nat "ncells", nats "cid", colGroups with
        | some nc, some cid, [] => showNats (llOrder (fnOf cid nc) nc cid.length)
        | _, _, _ => "bad-op"
      else if cmd = "sort" then
        match nats "key", colGroups with
        | some key, [] => showNats (sortOrder (fnOf key 0) key.length)
        | _, _ => "bad-op"
      else if cmd = "ci" then
        match nat "I", nats "cell", colGroups with
        | some i, some cell, [] => showNats (ciOrder i (fnOf cell 0) cell.length)
        | _, _, _ => "bad-op"
      else if cmd = "oct" then
        match nat "leafmax", nat "fuel", (lookup kv "code") >>= parseList? parseDigits?,
              (lookup kv "stop") >>= parseList? parseDigits?, colGroups with
        | some lm, some fuel, some code, some stop, [] =>
          -- digit 8 is "no such octant": the particle falls out of every child
          let digit : Nat → Nat → Nat := fun depth q => (code.getD q []).getD depth 8
          let stopf : List Nat → Bool := fun path => stop.contains path.reverse
          showNats (octOrder lm digit stopf fuel code.length)
        | _, _, _, _, _ => "bad-op"
      else if cmd = "gather" then
        match nats "idx", nat "stride", (lookup kv "data") >>= parseList? parseInt?, colGroups with
        | some idx, some s, some d, [] => showInts (gather idx s d)
        | _, _, _, _ => "bad-op"
      else if cmd = "reorder" then
        match nat "fix", nats "idx", nat "nreal", colGroups.mapM parseCol with
        | some fix, some idx, some nreal, some cols =>
          if fix > 1 then "bad-op" else
          let pa : PA := { props := cols, nReal := nreal }
          showPA (if fix = 1 then spatiallyOrder idx pa else spatiallyOrderOrig idx pa)
        | _, _, _, _ => "bad-op"
      else "bad-op"

end PysphVerif.Driver.C17

def main : IO Unit := PysphVerif.Driver.loopPure PysphVerif.Driver.C17.handle
