import PysphVerif.Driver.Common
import PysphVerif.Model.DumpLoad
/-!
Line protocol for C11 (values are exact rationals `p/q`; solver-data values are
opaque tokens):

  `rt fmt=<npz|hdf5|v1> det=<0|1> real=<0|1> comp=<0|1> [S <key>=<tok>]*
      [A name=<s> nreal=<n> out=<names> [P name=<s> ty=<ctype> st=<n> df=<q> d=<qs>]*
                                         [C name=<s> ty=<ctype> d=<qs>]*]*`

answers what `load(dump(...))` returns,

  `ok [S <key>=<tok>]* [A name=… nreal=… out=… [P …]* [C …]*]*`

or `error <where>` when dump or load raises.  ctype ∈ double float int long uint.
-/
namespace PysphVerif.Driver.C11
open PysphVerif.Wire PysphVerif.DumpLoad

instance : PVal Rat := ⟨0, 4294967295⟩

def parseCType? : String → Option CType
  | "double" => some .double
  | "float" => some .float
  | "int" => some .int
  | "long" => some .long
  | "uint" => some .uint
  | _ => none

def showCType : CType → String
  | .double => "double"
  | .float => "float"
  | .int => "int"
  | .long => "long"
  | .uint => "uint"

def parseNames? (s : String) : Option (List String) :=
  if s = "_" then some [] else some (s.splitOn ",")

def showNames (l : List String) : String :=
  if l.isEmpty then "_" else ",".intercalate l

def parseBool? : String → Option Bool
  | "0" => some false
  | "1" => some true
  | _ => none

/-- split the token list at the marker tokens, keeping the marker as head -/
def groups (toks : List String) : List (List String) :=
  let r := toks.foldl (fun (acc : List (List String)) t =>
    if t = "A" ∨ t = "P" ∨ t = "C" ∨ t = "S" then [t] :: acc else
    match acc with
    | [] => [[t]]
    | g :: gs => (t :: g) :: gs) []
  r.reverse.map List.reverse

def parseProp (toks : List String) : Option (PropRec Rat) := do
  let kv := kvs toks
  let name ← lookup kv "name"
  let ty ← (lookup kv "ty") >>= parseCType?
  let st ← (lookup kv "st") >>= parseNat?
  let df ← (lookup kv "df") >>= parseRat?
  let d ← (lookup kv "d") >>= parseList? parseRat?
  pure { name := name, ctype := ty, stride := st, default := df, data := d }

def parseConst (toks : List String) : Option (Const Rat) := do
  let kv := kvs toks
  let name ← lookup kv "name"
  let ty ← (lookup kv "ty") >>= parseCType?
  let d ← (lookup kv "d") >>= parseList? parseRat?
  pure { name := name, ctype := ty, data := d }

def parseArrHead (toks : List String) : Option (PArr Rat) := do
  let kv := kvs toks
  let name ← lookup kv "name"
  let nreal ← (lookup kv "nreal") >>= parseNat?
  let out ← (lookup kv "out") >>= parseNames?
  pure { name := name, props := [], consts := [], outArrs := out, nReal := nreal }

structure Req where
  sd : List (String × String)
  arrays : List (PArr Rat)     -- most recent first

def addToLast (r : Req) (f : PArr Rat → PArr Rat) : Option Req :=
  match r.arrays with
  | [] => none
  | a :: as => some { r with arrays := f a :: as }

def parseGroup (r : Req) (g : List String) : Option Req :=
  match g with
  | "S" :: [t] =>
    (match t.splitOn "=" with
     | [k, v] => some { r with sd := r.sd ++ [(k, v)] }
     | _ => none)
  | "A" :: rest => (parseArrHead rest).map fun a => { r with arrays := a :: r.arrays }
  | "P" :: rest => (parseProp rest).bind fun p =>
      addToLast r (fun a => { a with props := a.props ++ [p] })
  | "C" :: rest => (parseConst rest).bind fun c =>
      addToLast r (fun a => { a with consts := a.consts ++ [c] })
  | _ => none

def showProp (p : PropRec Rat) : String :=
  s!"P name={p.name} ty={showCType p.ctype} st={p.stride} df={showRat p.default} d={showList showRat p.data}"

def showConst (c : Const Rat) : String :=
  s!"C name={c.name} ty={showCType c.ctype} d={showList showRat c.data}"

def showArr (a : PArr Rat) : String :=
  " ".intercalate ([s!"A name={a.name} nreal={a.nReal} out={showNames a.outArrs}"]
    ++ a.props.map showProp ++ a.consts.map showConst)

def showResult (r : List (String × String) × List (String × PArr Rat)) : String :=
  " ".intercalate (["ok"] ++ r.1.map (fun e => s!"S {e.1}={e.2}") ++ r.2.map (fun e => showArr e.2))

def handle (line : String) : String :=
  match groups (tokens line) with
  | ("rt" :: head) :: gs =>
    let kv := kvs head
    match lookup kv "fmt", (lookup kv "det") >>= parseBool?, (lookup kv "real") >>= parseBool?,
          (lookup kv "comp") >>= parseBool? with
    | some fmt, some det, some real, some comp =>
      (match gs.foldlM parseGroup { sd := [], arrays := [] } with
       | none => "bad-op"
       | some req =>
         let arrays := req.arrays.reverse
         let o : Opts := { detailed := det, onlyReal := real, compress := comp }
         let file : Option (Option (File Rat String)) :=
           if fmt = "npz" then some (dump .npz o arrays req.sd)
           else if fmt = "hdf5" then some (dump .hdf5 o arrays req.sd)
           else if fmt = "v1" then some (dumpV1 o arrays req.sd)
           else none
         match file with
         | none => "bad-op"
         | some none => "error dump"
         | some (some f) =>
           match load f with
           | .error _ => "error load"
           | .ok r => showResult r)
    | _, _, _, _ => "bad-op"
  | _ => "bad-op"

end PysphVerif.Driver.C11

def main : IO Unit := PysphVerif.Driver.loopPure PysphVerif.Driver.C11.handle
