import PysphVerif.Driver.Common
import PysphVerif.Model.Needs
import PysphVerif.Model.NeedsCodegen
import PysphVerif.Model.NeedsObjects
/-!
Line protocol for C20.  Values contain no blanks; names are identifiers.

  T=<table>     `KEY:sym;sym|KEY:_|...`              (`_` = empty)
  A=<arrays>    `name:prop;prop|name:_|...`
  Q=<equations> `name~dest~sources~init~initpair~loop~loopall~postloop^...`
                sources `-` = None or `a;b`; a method `-` = absent, `_` = no args, or `a;b`
  P=<structure> groups separated by `/`: `F0,1` (equations by index into Q) or
                `S0,1+2+_` (sub-groups separated by `+`)
  S=<steppers>  `dest~cls~meth:arg;arg,meth:_~pystage;pystage^...`
  L=<names>     `a;b`
  O=<objects>   `cls~meth:arg;arg,meth:_~pystage;pystage^...`  the distinct stepper objects
  K=<keywords>  `dest:i|dest:i`  keyword -> index into O, in keyword order

ops:
  `check T A Q P`   verdict of the repaired `AccelerationEval.__init__` checks
  `checkorig A Q P` verdict of the checks as on the pinned tree
  `access T Q P`    `acc <arr.prop;...>` pointers the generated `compute` takes
  `closure T L`     `clo <sym;...>` keys of `Group.precomputed`
  `needs T Q`       `src=<..> dst=<..>` of `Group(Q).get_array_names()`
  `steppers A S`    verdict of the stepper checks
  `saccess S`       `acc <arr.prop;...>` pointers the generated integrator takes
  `build T A Q P S` `ok` | `eq <verdict>` | `step <verdict>`
  `ktypes A`        `kt <name;...>` keys of `known_types`
  `sdecl A S`       `decl <m>=<name;...|_|!|?name> ...` per wrapped method what
                    `get_array_declarations(m)` does: the declared names, `!` = the
                    RuntimeError of the check, `?n` = KeyError on `n`
  `sbind S`         `bind <arr.var.prop;...>` pointer variables the generated integrator binds
  `ssetup A O K`    `<verdict> | <verdict'> | bind <...>`: the stepper checks on the
                    (array, stepper) pairs of `Integrator(**K)`, the verdict a check
                    per stepper OBJECT would give (not the code), and the bindings
-/
namespace PysphVerif.Driver.C20
open PysphVerif.Wire PysphVerif.Needs

def splitL (sep : String) (s : String) : List String :=
  if s = "_" then [] else s.splitOn sep

def okName (s : String) : Bool :=
  !s.isEmpty && s.toList.all (fun c => c.isAlphanum || c = '_')

def names? (sep : String) (s : String) : Option (List Name) :=
  let l := splitL sep s
  if l.all okName then some l else none

def parseTable (s : String) : Option Table :=
  (splitL "|" s).mapM (fun e => match e.splitOn ":" with
    | [k, v] => if okName k then (names? ";" v).map (fun l => (k, l)) else none
    | _ => none)

def parseArrays (s : String) : Option (List PArr) :=
  (splitL "|" s).mapM (fun e => match e.splitOn ":" with
    | [k, v] => if okName k then (names? ";" v).map (fun l => ({ name := k, props := l } : PArr))
                else none
    | _ => none)

def optNames? (s : String) : Option (Option (List Name)) :=
  if s = "-" then some none else (names? ";" s).map some

def parseEqn (s : String) : Option Eqn :=
  match s.splitOn "~" with
  | [n, d, srcs, i, ip, l, la, pl] => do
    if !(okName n && okName d) then none
    let srcs ← optNames? srcs
    if srcs = some [] then none
    let i ← optNames? i
    let ip ← optNames? ip
    let l ← optNames? l
    let la ← optNames? la
    let pl ← optNames? pl
    pure { name := n, dest := d, sources := srcs, mInit := i, mInitPair := ip, mLoop := l,
           mLoopAll := la, mPostLoop := pl }
  | _ => none

def parseEqns (s : String) : Option (List Eqn) := (splitL "^" s).mapM parseEqn

def idxList? (eqs : List Eqn) (s : String) : Option (List Eqn) :=
  (splitL "," s).mapM (fun t => t.toNat? >>= fun i => eqs[i]?)

def parseGroup (eqs : List Eqn) (s : String) : Option GroupT :=
  match s.toList with
  | 'F' :: rest => (idxList? eqs (String.ofList rest)).map GroupT.flat
  | 'S' :: rest => ((String.ofList rest).splitOn "+").mapM (idxList? eqs) |>.map GroupT.sub
  | _ => none

def parseProgram (eqs : List Eqn) (s : String) : Option (List GroupT) :=
  (splitL "/" s).mapM (parseGroup eqs)

def parseMethod (s : String) : Option (Name × List Name) :=
  match s.splitOn ":" with
  | [m, a] => if okName m then (names? ";" a).map (fun l => (m, l)) else none
  | _ => none

def parseStepper (s : String) : Option Stepper :=
  match s.splitOn "~" with
  | [d, c, ms, py] => do
    if !(okName d && okName c) then none
    let ms ← (splitL "," ms).mapM parseMethod
    let py ← names? ";" py
    pure { dest := d, cls := c, methods := ms, pyStages := py }
  | _ => none

def parseStepObj (s : String) : Option StepObj :=
  match s.splitOn "~" with
  | [c, ms, py] => do
    if !(okName c) then none
    let ms ← (splitL "," ms).mapM parseMethod
    let py ← names? ";" py
    pure { cls := c, methods := ms, pyStages := py }
  | _ => none

def parseKw (s : String) : Option (List (Name × Nat)) :=
  (splitL "|" s).mapM (fun e => match e.splitOn ":" with
    | [k, i] => if okName k then i.toNat?.map (fun n => (k, n)) else none
    | _ => none)

def parseSetup (o k : Option String) : Option StepperSetup := do
  let objs ← (← o).splitOn "^" |> (fun l => if l = ["_"] then some [] else l.mapM parseStepObj)
  let kw ← parseKw (← k)
  let s : StepperSetup := { objs := objs, kw := kw }
  if s.wf then some s else none

def parseSteppers (s : String) : Option (List Stepper) := (splitL "^" s).mapM parseStepper

def showNames (l : List Name) : String := if l.isEmpty then "_" else ";".intercalate l

def showErr (e : Name × List Name) : String := e.1 ++ ":" ++ showNames e.2

def showVerdict : Verdict → String
  | Verdict.ok => "ok"
  | Verdict.invalidDest e d => s!"invalid-dest eq={e} dest={d}"
  | Verdict.invalidSource e s => s!"invalid-source eq={e} src={s}"
  | Verdict.missing e errs => s!"missing eq={e} errs=" ++
      (if errs.isEmpty then "_" else "|".intercalate (errs.map showErr))

def showSVerdict : SVerdict → String
  | SVerdict.ok => "ok"
  | SVerdict.invalidStepper n => s!"invalid-stepper name={n}"
  | SVerdict.missing c d ns => s!"missing-stepper cls={c} dest={d} names={showNames ns}"

def showPairs (l : List (Name × Name)) : String :=
  "acc " ++ showNames (l.map (fun p => p.1 ++ "." ++ p.2))

def showDecl (a : List PArr) (s : List Stepper) (m : Name) : String :=
  m ++ "=" ++ (match stepperDecl a s m with
    | DeclOutcome.error _ => "!"
    | DeclOutcome.keyError n => "?" ++ n
    | DeclOutcome.decl ns => showNames ns)

def handle (line : String) : String :=
  match tokens line with
  | [] => "bad-op"
  | op :: rest =>
    let kv := kvs rest
    let tbl := (lookup kv "T") >>= parseTable
    let arrs := (lookup kv "A") >>= parseArrays
    let eqs := (lookup kv "Q") >>= parseEqns
    let prog := eqs >>= fun q => (lookup kv "P") >>= parseProgram q
    let stp := (lookup kv "S") >>= parseSteppers
    let nkeys := kv.length
    if nkeys != rest.length then "bad-op" else
    match op, tbl, arrs, eqs, prog, stp with
    | "check", some t, some a, some _, some p, none =>
      if nkeys = 4 then showVerdict (checkProgram t a p) else "bad-op"
    | "checkorig", none, some a, some _, some p, none =>
      if nkeys = 3 then showVerdict (checkProgramOrig a p) else "bad-op"
    | "access", some t, none, some _, some p, none =>
      if nkeys = 3 then showPairs (programAccesses t p) else "bad-op"
    | "closure", some t, none, none, none, none =>
      (match (lookup kv "L") >>= names? ";" with
       | some l => if nkeys = 2 then "clo " ++ showNames (closure t l) else "bad-op"
       | none => "bad-op")
    | "needs", some t, none, some q, none, none =>
      if nkeys = 2 then
        s!"src={showNames (groupSrcNames t q)} dst={showNames (groupDstNames t q)}"
      else "bad-op"
    | "steppers", none, some a, none, none, some s =>
      if nkeys = 2 then showSVerdict (checkSteppers a s) else "bad-op"
    | "saccess", none, none, none, none, some s =>
      if nkeys = 1 then showPairs (stepperAccesses s) else "bad-op"
    | "ktypes", none, some a, none, none, none =>
      if nkeys = 1 then "kt " ++ showNames (knownTypes a) else "bad-op"
    | "sdecl", none, some a, none, none, some s =>
      if nkeys = 2 then
        "decl " ++ (if (wrapperNames s).isEmpty then "_"
                    else " ".intercalate ((wrapperNames s).map (showDecl a s)))
      else "bad-op"
    | "sbind", none, none, none, none, some s =>
      if nkeys = 1 then
        "bind " ++ showNames ((stepperBindings s).map (fun b => b.1 ++ "." ++ b.2.1 ++ "." ++ b.2.2))
      else "bad-op"
    | "ssetup", none, some a, none, none, none =>
      (match parseSetup (lookup kv "O") (lookup kv "K") with
       | some s =>
         if nkeys = 3 then
           showSVerdict (checkSetup a s) ++ " | " ++ showSVerdict (checkSetupPerObject a s) ++
           " | bind " ++ showNames ((setupBindings s).map
             (fun b => b.1 ++ "." ++ b.2.1 ++ "." ++ b.2.2))
         else "bad-op"
       | none => "bad-op")
    | "build", some t, some a, some _, some p, some s =>
      if nkeys = 5 then
        (match buildAll t a p s with
         | Outcome.ok => "ok"
         | Outcome.eqError v => "eq " ++ showVerdict v
         | Outcome.stepError v => "step " ++ showSVerdict v)
      else "bad-op"
    | _, _, _, _, _, _ => "bad-op"

end PysphVerif.Driver.C20

def main : IO Unit := PysphVerif.Driver.loopPure PysphVerif.Driver.C20.handle
