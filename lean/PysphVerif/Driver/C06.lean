import PysphVerif.Driver.Common
import PysphVerif.Model.PArray
/-!
Line protocol for C06 (ParticleArray state machine).  State: numbered slots
holding particle arrays.  Every operation answers `ok <dump>` of the affected
slot or `error` (the Python code raises; state unchanged).

dump := `name=<s> nreal=<n> out=<csv|_> S=<k=v,..|_> D=<k=v,..|_> P <name>:<ctype>:<csv|_> … K <name>:<csv|_> …`
(S/D are the raw stride / default dicts, P in dict order.)
-/
namespace PysphVerif.Driver.C06
open PysphVerif.Wire PysphVerif.PArray

def showInts (l : List Int) : String := showList toString l
def showStrs (l : List String) : String := showList id l

def dump (pa : PA) : String :=
  let s := showList (fun (p : String × Nat) => s!"{p.1}={p.2}") pa.stride
  let d := showList (fun (p : String × Int) => s!"{p.1}={p.2}") pa.defaults
  let ps := pa.props.map (fun c => s!"P {c.name}:{c.ctype.replace " " "~"}:{showInts c.data}")
  let ks := pa.consts.map (fun c => s!"K {c.1}:{showInts c.2}")
  " ".intercalate ([s!"name={pa.name}", s!"nreal={pa.nReal}", s!"out={showStrs pa.outputs}",
    s!"S={s}", s!"D={d}"] ++ ps ++ ks)

def parseInts (s : String) : Option (List Int) := parseList? parseInt? s
def parseNats (s : String) : Option (List Nat) := parseList? parseNat? s
def parseStrs (s : String) : Option (List String) := parseList? some s

def parseKVNat (s : String) : Option (List (String × Nat)) :=
  parseList? (fun t => match t.splitOn "=" with
    | [k, v] => (parseNat? v).map (fun n => (k, n))
    | _ => none) s
def parseKVInt (s : String) : Option (List (String × Int)) :=
  parseList? (fun t => match t.splitOn "=" with
    | [k, v] => (parseInt? v).map (fun n => (k, n))
    | _ => none) s

/-- items following a marker token (`P`, `K`, `G`) -/
def marked (toks : List String) (m : String) : List String :=
  let rec go : List String → List String
    | a :: b :: rest => if a = m then b :: go rest else go (b :: rest)
    | _ => []
  go toks

def parseCol (t : String) : Option Col :=
  match t.splitOn ":" with
  | [n, ct, d] => (parseInts d).map (fun dd => ⟨n, ct.replace "~" " ", dd⟩)
  | _ => none

def parseNamed (t : String) : Option (String × List Int) :=
  match t.splitOn ":" with
  | [n, d] => (parseInts d).map (fun dd => (n, dd))
  | _ => none

def parsePA (toks : List String) : Option PA := do
  let kv := kvs (toks.filter (fun t => !(t.contains ':')))
  let name := (lookup kv "name").getD ""
  let nreal ← (lookup kv "nreal") >>= parseNat?
  let out ← (lookup kv "out") >>= parseStrs
  -- S= and D= contain '=' inside their values: fetch them by prefix
  let sTok := (toks.find? (fun t => t.startsWith "S=")).map (fun t => (t.drop 2).toString)
  let dTok := (toks.find? (fun t => t.startsWith "D=")).map (fun t => (t.drop 2).toString)
  let s ← sTok >>= parseKVNat
  let d ← dTok >>= parseKVInt
  let ps ← (marked toks "P").mapM parseCol
  let ks ← (marked toks "K").mapM parseNamed
  pure { name := name, props := ps, stride := s, defaults := d, consts := ks,
         nReal := nreal, outputs := out }

abbrev St := List (Nat × PA)

def getSlot (st : St) (k : Nat) : Option PA := (st.find? (·.1 == k)).map (·.2)
def putSlot (st : St) (k : Nat) (pa : PA) : St :=
  (k, pa) :: st.filter (fun p => !(p.1 == k))

def optStrs (s : String) : Option (Option (List String)) :=
  if s = "-" then some none else (parseStrs s).map some

def ans (st : St) (k : Nat) (r : Option PA) : St × String :=
  match r with
  | some pa => (putSlot st k pa, "ok " ++ dump pa)
  | none => (st, "error")

def step (st : St) (line : String) : St × String :=
  let toks := tokens line
  match toks with
  | [] => (st, "bad-op")
  | cmd :: rest =>
    -- plain key=value tokens (exclude dict-valued S= / D= and marked items)
    let kv := kvs (rest.filter (fun t => !(t.startsWith "S=") && !(t.startsWith "D=")))
    let natOf (k : String) : Option Nat := (lookup kv k) >>= parseNat?
    let intOf (k : String) : Option Int := (lookup kv k) >>= parseInt?
    let boolOf (k : String) : Option Bool := (natOf k).map (· != 0)
    let bad : St × String := (st, "bad-op")
    match natOf "s" with
    | none => bad
    | some s =>
      if cmd = "new" then
        ans st s (some (PA.empty ((lookup kv "name").getD "")))
      else if cmd = "load" then
        match parsePA rest with
        | some pa => ans st s (some pa)
        | none => bad
      else
      match getSlot st s with
      | none => bad
      | some pa =>
        if cmd = "dump" then (st, "ok " ++ dump pa)
        else if cmd = "add_particles" then
          match boolOf "align", (marked rest "G").mapM parseNamed with
          | some al, some given => ans st s (pa.addParticles al given)
          | _, _ => bad
        else if cmd = "remove_particles" then
          match boolOf "align", (lookup kv "idx") >>= parseNats with
          | some al, some idx => ans st s (pa.removeParticles idx al)
          | _, _ => bad
        else if cmd = "remove_tagged" then
          match boolOf "align", intOf "tag" with
          | some al, some t => ans st s (pa.removeTagged t al)
          | _, _ => bad
        else if cmd = "extend" then
          match natOf "k" with
          | some k => ans st s (some (pa.extend k))
          | none => bad
        else if cmd = "resize" then
          match natOf "m" with
          | some m => ans st s (some (pa.resize m))
          | none => bad
        else if cmd = "align" then ans st s (some pa.align)
        else if cmd = "set_tag" then
          match intOf "tag", (lookup kv "idx") >>= parseNats with
          | some t, some idx => ans st s (some (pa.setTag t idx))
          | _, _ => bad
        else if cmd = "add_property" then
          match lookup kv "name", lookup kv "type", lookup kv "default", lookup kv "data",
                natOf "stride" with
          | some nm, some ty, some df, some da, some sd =>
            let dflt : Option (Option Int) := if df = "-" then some none else (parseInt? df).map some
            let data : Option (Option (List Int)) := if da = "-" then some none else (parseInts da).map some
            match dflt, data with
            | some dflt, some data => ans st s (pa.addProperty nm (ty.replace "~" " ") dflt data sd)
            | _, _ => bad
          | _, _, _, _, _ => bad
        else if cmd = "remove_property" then
          match lookup kv "name" with
          | some nm => ans st s (some (pa.removeProperty nm))
          | none => bad
        else if cmd = "add_constant" then
          match lookup kv "name", (lookup kv "data") >>= parseInts with
          | some nm, some d => ans st s (pa.addConstant nm d)
          | _, _ => bad
        else if cmd = "set" then
          match lookup kv "name", (lookup kv "data") >>= parseInts with
          | some nm, some d => ans st s (pa.setProp nm d)
          | _, _ => bad
        else if cmd = "set_outputs" then
          match (lookup kv "props") >>= parseStrs with
          | some ps => ans st s (pa.setOutputs ps)
          | none => bad
        else if cmd = "add_outputs" then
          match (lookup kv "props") >>= parseStrs with
          | some ps => ans st s (pa.addOutputs ps)
          | none => bad
        else if cmd = "empty_clone" then
          match natOf "to", (lookup kv "props") >>= optStrs with
          | some t, some ps => ans st t (pa.emptyClone ps)
          | _, _ => bad
        else if cmd = "extract" then
          match natOf "to", (lookup kv "props") >>= optStrs, boolOf "align",
                (lookup kv "idx") >>= parseNats with
          | some t, some ps, some al, some idx => ans st t (pa.extract idx al ps)
          | _, _, _, _ => bad
        else if cmd = "extract_into" then
          match natOf "dest", (lookup kv "props") >>= optStrs, boolOf "align",
                (lookup kv "idx") >>= parseNats with
          | some t, some ps, some al, some idx =>
            match getSlot st t with
            | some d => ans st t (pa.extractInto idx d al ps)
            | none => bad
          | _, _, _, _ => bad
        else if cmd = "append" then
          match natOf "src", boolOf "align", boolOf "upd" with
          | some t, some al, some up =>
            match getSlot st t with
            | some src => ans st s (pa.appendParray src al up)
            | none => bad
          | _, _, _ => bad
        else if cmd = "ensure" then
          match natOf "src", (lookup kv "props") >>= optStrs with
          | some t, some ps =>
            match getSlot st t with
            | some src => ans st s (pa.ensureProperties src ps)
            | none => bad
          | _, _ => bad
        else if cmd = "pickle" then
          match natOf "to" with
          | some t => ans st t pa.pickle
          | none => bad
        else bad

end PysphVerif.Driver.C06

def main : IO Unit := PysphVerif.Driver.loop PysphVerif.Driver.C06.step []
