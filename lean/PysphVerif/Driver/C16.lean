import PysphVerif.Driver.Common
import PysphVerif.Model.InletOutlet
/-!
Line protocol for C16.  Every line starts with the number mode: `q` (exact
rationals `p/q`) or `f` (IEEE doubles as `x<16 hex>`); the two modes keep
separate states.  Stateful:

  `<m> new`                                  fresh state (no ghost arrays, empty arrays)
  `<m> arr name=<inlet|ghost_inlet|fluid|outlet|ghost_outlet> x=<l> y=<l> z=<l> u=<l>
        disp=<l> ioid=<il> tag=<il> lbl=<il> pay=<il>`     replace one array
  `<m> noarr name=<ghost_inlet|ghost_outlet>`              ghost_pa = None
  `<m> zone which=<in|out> px= py= pz= nx= ny= nz= len= eps= big=`
  `<m> dflt which=<fluid|outlet|ghost_outlet> x= y= z= u= disp= ioid= tag= lbl= pay=`
  `<m> mask props=<none|comma separated field names>`      props_to_copy
  `<m> uref in=<v> fluid=<v>`
  `<m> inlet active=<0|1>` | `<m> hybrid active=<0|1> half=<v>` |
  `<m> outlet active=<0|1>` | `<m> mirror active=<0|1>`   one update call

Setters answer `ok`; updates answer `ok <dump>` or `raise` (state unchanged);
`<m> dump` answers the dump.  Anything else: `bad-op`.
-/
namespace PysphVerif.Driver.C16
open PysphVerif.Wire PysphVerif.InletOutlet

structure DState (α : Type) where
  st : State α
  zin : Zone α
  zout : Zone α
  dF : Particle α
  dO : Particle α
  dG : Particle α
  mask : Mask

section
variable {α : Type} [Add α] [Sub α] [Mul α] [Neg α] [LT α] [DecidableLT α]
  [OfNat α 0] [OfNat α 1] [OfNat α 2]

def zeroP : Particle α := ⟨0, 0, 0, 0, 0, 0, 0, 0, 0⟩
def zeroZ : Zone α := ⟨0, 0, 0, 0, 0, 0, 0, 0, 0⟩

def DState.init : DState α :=
  { st := { inlet := [], ghostIn := none, fluid := [], outlet := [], ghostOut := none,
            urefIn := 0, urefFluid := 0 },
    zin := zeroZ, zout := zeroZ, dF := zeroP, dO := zeroP, dG := zeroP, mask := Mask.all }

/-- zip nine columns into records; `none` when the lengths differ -/
def mkParticles : List α → List α → List α → List α → List α → List Int → List Int →
    List Int → List Int → Option (List (Particle α))
  | [], [], [], [], [], [], [], [], [] => some []
  | x :: xs, y :: ys, z :: zs, u :: us, d :: ds, i :: is, t :: ts, l :: ls, p :: ps =>
    (mkParticles xs ys zs us ds is ts ls ps).map (fun r => ⟨x, y, z, u, d, i, t, l, p⟩ :: r)
  | _, _, _, _, _, _, _, _, _ => none

def parseArr (parse : String → Option α) (kv : List (String × String)) :
    Option (List (Particle α)) := do
  let x ← (lookup kv "x") >>= parseList? parse
  let y ← (lookup kv "y") >>= parseList? parse
  let z ← (lookup kv "z") >>= parseList? parse
  let u ← (lookup kv "u") >>= parseList? parse
  let d ← (lookup kv "disp") >>= parseList? parse
  let i ← (lookup kv "ioid") >>= parseList? parseInt?
  let t ← (lookup kv "tag") >>= parseList? parseInt?
  let l ← (lookup kv "lbl") >>= parseList? parseInt?
  let p ← (lookup kv "pay") >>= parseList? parseInt?
  mkParticles x y z u d i t l p

def parseOne (parse : String → Option α) (kv : List (String × String)) :
    Option (Particle α) := do
  let x ← (lookup kv "x") >>= parse
  let y ← (lookup kv "y") >>= parse
  let z ← (lookup kv "z") >>= parse
  let u ← (lookup kv "u") >>= parse
  let d ← (lookup kv "disp") >>= parse
  let i ← (lookup kv "ioid") >>= parseInt?
  let t ← (lookup kv "tag") >>= parseInt?
  let l ← (lookup kv "lbl") >>= parseInt?
  let p ← (lookup kv "pay") >>= parseInt?
  pure ⟨x, y, z, u, d, i, t, l, p⟩

def parseZone (parse : String → Option α) (kv : List (String × String)) : Option (Zone α) := do
  let px ← (lookup kv "px") >>= parse
  let py ← (lookup kv "py") >>= parse
  let pz ← (lookup kv "pz") >>= parse
  let nx ← (lookup kv "nx") >>= parse
  let ny ← (lookup kv "ny") >>= parse
  let nz ← (lookup kv "nz") >>= parse
  let len ← (lookup kv "len") >>= parse
  let eps ← (lookup kv "eps") >>= parse
  let big ← (lookup kv "big") >>= parse
  pure ⟨px, py, pz, nx, ny, nz, len, eps, big⟩

def fieldNames : List String := ["x", "y", "z", "u", "disp", "ioid", "tag", "lbl", "pay"]

def parseMask (s : String) : Option Mask :=
  if s = "none" then some Mask.all else
  let names := if s = "_" then [] else s.splitOn ","
  if names.all (fun n => fieldNames.contains n) then
    some ⟨names.contains "x", names.contains "y", names.contains "z", names.contains "u",
          names.contains "disp", names.contains "ioid", names.contains "tag",
          names.contains "lbl", names.contains "pay"⟩
  else none

def parseBool (s : String) : Option Bool :=
  if s = "1" then some true else if s = "0" then some false else none

def showArr (sh : α → String) (name : String) (l : List (Particle α)) : String :=
  " ".intercalate [
    name ++ ".x=" ++ showList sh (l.map (·.x)),
    name ++ ".y=" ++ showList sh (l.map (·.y)),
    name ++ ".z=" ++ showList sh (l.map (·.z)),
    name ++ ".u=" ++ showList sh (l.map (·.u)),
    name ++ ".disp=" ++ showList sh (l.map (·.disp)),
    name ++ ".ioid=" ++ showList toString (l.map (·.ioid)),
    name ++ ".tag=" ++ showList toString (l.map (·.tag)),
    name ++ ".lbl=" ++ showList toString (l.map (·.lbl)),
    name ++ ".pay=" ++ showList toString (l.map (·.pay))]

def showOptArr (sh : α → String) (name : String) : Option (List (Particle α)) → String
  | none => name ++ "=None"
  | some l => showArr sh name l

def dump (sh : α → String) (s : State α) : String :=
  " ".intercalate [
    showArr sh "inlet" s.inlet, showOptArr sh "ghost_inlet" s.ghostIn,
    showArr sh "fluid" s.fluid, showArr sh "outlet" s.outlet,
    showOptArr sh "ghost_outlet" s.ghostOut,
    "uref.in=" ++ sh s.urefIn, "uref.fluid=" ++ sh s.urefFluid]

def answer (sh : α → String) (d : DState α) : Option (State α) → DState α × String
  | none => (d, "raise")
  | some s => ({ d with st := s }, "ok " ++ dump sh s)

def step (parse : String → Option α) (sh : α → String) (d : DState α) (toks : List String) :
    Option (DState α × String) :=
  match toks with
  | [] => none
  | cmd :: rest =>
    let kv := kvs rest
    if cmd = "new" then some (DState.init, "ok")
    else if cmd = "dump" then some (d, "ok " ++ dump sh d.st)
    else if cmd = "arr" then do
      let name ← lookup kv "name"
      let l ← parseArr parse kv
      let st ← (if name = "inlet" then some { d.st with inlet := l }
        else if name = "ghost_inlet" then some { d.st with ghostIn := some l }
        else if name = "fluid" then some { d.st with fluid := l }
        else if name = "outlet" then some { d.st with outlet := l }
        else if name = "ghost_outlet" then some { d.st with ghostOut := some l }
        else none : Option (State α))
      pure ({ d with st := st }, "ok")
    else if cmd = "noarr" then do
      let name ← lookup kv "name"
      let st ← (if name = "ghost_inlet" then some { d.st with ghostIn := none }
        else if name = "ghost_outlet" then some { d.st with ghostOut := none }
        else none : Option (State α))
      pure ({ d with st := st }, "ok")
    else if cmd = "zone" then do
      let w ← lookup kv "which"
      let z ← parseZone parse kv
      if w = "in" then pure ({ d with zin := z }, "ok")
      else if w = "out" then pure ({ d with zout := z }, "ok")
      else none
    else if cmd = "dflt" then do
      let w ← lookup kv "which"
      let p ← parseOne parse kv
      if w = "fluid" then pure ({ d with dF := p }, "ok")
      else if w = "outlet" then pure ({ d with dO := p }, "ok")
      else if w = "ghost_outlet" then pure ({ d with dG := p }, "ok")
      else none
    else if cmd = "mask" then do
      let m ← (lookup kv "props") >>= parseMask
      pure ({ d with mask := m }, "ok")
    else if cmd = "uref" then do
      let a ← (lookup kv "in") >>= parse
      let b ← (lookup kv "fluid") >>= parse
      pure ({ d with st := { d.st with urefIn := a, urefFluid := b } }, "ok")
    else if cmd = "inlet" then do
      let act ← (lookup kv "active") >>= parseBool
      pure (answer sh d (inletUpdate d.zin d.dF act d.st))
    else if cmd = "hybrid" then do
      let act ← (lookup kv "active") >>= parseBool
      let half ← (lookup kv "half") >>= parse
      pure (answer sh d (hybridInletUpdate half d.zin d.dF act d.st))
    else if cmd = "outlet" then do
      let act ← (lookup kv "active") >>= parseBool
      pure (answer sh d (outletUpdate d.zout d.mask d.dO act d.st))
    else if cmd = "mirror" then do
      let act ← (lookup kv "active") >>= parseBool
      pure (answer sh d (mirrorOutletUpdate d.zout d.mask d.dO d.dG act d.st))
    else none

end

structure Top where
  q : DState Rat
  f : DState Float

def handle (t : Top) (line : String) : Top × String :=
  match tokens line with
  | "q" :: rest =>
    (match step parseRat? showRat t.q rest with
     | some (d, out) => ({ t with q := d }, out)
     | none => (t, "bad-op"))
  | "f" :: rest =>
    (match step parseFloatBits? showFloatBits t.f rest with
     | some (d, out) => ({ t with f := d }, out)
     | none => (t, "bad-op"))
  | _ => (t, "bad-op")

end PysphVerif.Driver.C16

def main : IO Unit :=
  PysphVerif.Driver.loop PysphVerif.Driver.C16.handle
    { q := PysphVerif.Driver.C16.DState.init, f := PysphVerif.Driver.C16.DState.init }
