import PysphVerif.Driver.Common
import PysphVerif.Model.AdaptDt
/-!
Line protocol for C19 (Float, bit patterns):
  `cts cfl=<f> und=<f> fixed=<-|inf|f> A n=<nat> h=<fl> ad=<-|fl> c=<-|fl> f=<-|fl> v=<-|fl> A ...`
answers `none` | `val <f>` | `inf` | `error` for `compute_time_step`, and with
`sol` instead of `cts` for `Solver._compute_timestep`; `hmin A ...` answers the
value `compute_h_minimum` leaves in `h_minimum`.

Stateful lines (one integrator living across lines; `Model.AdaptDt.IState`):
  `hnew`                                   fresh integrator            -> `ok`
  `hfix b=<0|1> A ...`                     `set_fixed_h(b)`            -> `ok`
  `hcts cfl=<f> und=<f> A ...`             `compute_time_step`         -> result
  `hsol cfl=<f> und=<f> A ...`             `Solver._compute_timestep`  -> result
  `hpar cfl=<f> und=<f> big=<f> others=<fl> A ...`  the same with in_parallel (min-reduction with the other ranks' offers)
  `hstate`                                 -> `flag=<-|0|1> fixed=<0|1> hmin=<-|inf|f>`
-/
namespace PysphVerif.Driver.C19
open PysphVerif.Wire PysphVerif.AdaptDt

def optList (s : String) : Option (Option (List Float)) :=
  if s = "-" then some none else (parseList? parseFloatBits? s).map some

def parseArr (toks : List String) : Option (Arr Float) := do
  let kv := kvs toks
  let n ← (lookup kv "n") >>= parseNat?
  let h ← (lookup kv "h") >>= parseList? parseFloatBits?
  let ad ← (lookup kv "ad") >>= optList
  let c ← (lookup kv "c") >>= optList
  let f ← (lookup kv "f") >>= optList
  let v ← (lookup kv "v") >>= optList
  pure { nAll := n, hAll := h, dtAdapt := ad, dtCfl := c, dtForce := f, dtVisc := v }

/-- split token list at every "A" -/
def groups (toks : List String) : List (List String) :=
  let r := toks.foldl (fun (acc : List (List String)) t =>
    if t = "A" then [] :: acc else
    match acc with
    | [] => [[t]]
    | g :: gs => (t :: g) :: gs) [[]]
  r.reverse.map List.reverse

def showRes : Res Float → String
  | Res.none => "none"
  | Res.val x => "val " ++ showFloatBits x
  | Res.inf => "inf"
  | Res.error => "error"

def handle (line : String) : String :=
  match groups (tokens line) with
  | [] => "bad-op"
  | hd :: arrGroups =>
    match arrGroups.mapM parseArr with
    | none => "bad-op"
    | some arrs =>
      match hd with
      | ["hmin"] =>
        (match hMinimum arrs with
         | none => "inf"
         | some h => "val " ++ showFloatBits h)
      | cmd :: rest =>
        let kv := kvs rest
        match (lookup kv "cfl") >>= parseFloatBits?, (lookup kv "und") >>= parseFloatBits?,
              lookup kv "fixed" with
        | some cfl, some und, some fx =>
          let fixed : Option (Option (Ext Float)) :=
            if fx = "-" then some none
            else if fx = "inf" then some (some none)
            else (parseFloatBits? fx).map (fun h => some (some h))
          match fixed with
          | none => "bad-op"
          | some fixedH =>
            -- flag=- : first call (flag computed); flag=0/1 : the cached `_has_dt_adapt`
            let flag : Option (Option Bool) := match lookup kv "flag" with
              | none => some none
              | some "-" => some none
              | some "0" => some (some false)
              | some "1" => some (some true)
              | _ => none
            match flag with
            | none => "bad-op"
            | some fl =>
              let r : Res Float := match fl with
                | none => computeTimeStep Float.sqrt arrs cfl fixedH
                | some b => computeTimeStepCached b Float.sqrt arrs cfl fixedH
              if cmd = "cts" then showRes r
              else if cmd = "sol" then showRes (solverTimestepOf r und)
              else if cmd = "par" then
                -- `Solver._compute_timestep` with in_parallel: big=<f> others=<fl> (the other ranks' offers)
                match (lookup kv "big") >>= parseFloatBits?,
                      (lookup kv "others") >>= parseList? parseFloatBits? with
                | some big, some others => showRes (solverTimestepPar big und r others)
                | _, _ => "bad-op"
              else "bad-op"
        | _, _, _ => "bad-op"
      | _ => "bad-op"

def showState (s : IState Float) : String :=
  let fl := match s.flag with | none => "-" | some true => "1" | some false => "0"
  let hm := match s.hMin with
    | none => "-"
    | some none => "inf"
    | some (some h) => showFloatBits h
  "flag=" ++ fl ++ " fixed=" ++ (if s.fixedH then "1" else "0") ++ " hmin=" ++ hm

def hstep (s : IState Float) (line : String) : IState Float × String :=
  match groups (tokens line) with
  | [] => (s, "bad-op")
  | hd :: arrGroups =>
    match hd with
    | ["hnew"] => if arrGroups.isEmpty then (IState.init, "ok") else (s, "bad-op")
    | ["hstate"] => if arrGroups.isEmpty then (s, showState s) else (s, "bad-op")
    | "hfix" :: rest =>
      (match arrGroups.mapM parseArr, lookup (kvs rest) "b" with
       | some arrs, some "1" => (s.setFixedH true arrs, "ok")
       | some arrs, some "0" => (s.setFixedH false arrs, "ok")
       | _, _ => (s, "bad-op"))
    | cmd :: rest =>
      if cmd = "hcts" || cmd = "hsol" || cmd = "hpar" then
        let kv := kvs rest
        match arrGroups.mapM parseArr, (lookup kv "cfl") >>= parseFloatBits?,
              (lookup kv "und") >>= parseFloatBits? with
        | some arrs, some cfl, some und =>
          let r := s.cts Float.sqrt arrs cfl
          if cmd = "hpar" then
            match (lookup kv "big") >>= parseFloatBits?,
                  (lookup kv "others") >>= parseList? parseFloatBits? with
            | some big, some others => (r.1, showRes (solverTimestepPar big und r.2 others))
            | _, _ => (s, "bad-op")
          else (r.1, showRes (if cmd = "hcts" then r.2 else solverTimestepOf r.2 und))
        | _, _, _ => (s, "bad-op")
      else (s, handle line)
    | _ => (s, "bad-op")

end PysphVerif.Driver.C19

def main : IO Unit := PysphVerif.Driver.loop PysphVerif.Driver.C19.hstep PysphVerif.AdaptDt.IState.init
