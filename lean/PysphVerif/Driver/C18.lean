import PysphVerif.Driver.Common
import PysphVerif.Model.Controller
/-!
Line protocol for C18:
  `run cfg=<wcdr bits, e.g. 1011> progs=<ops,ops/ops,...|_> sched=<tid,tid,...|_>`
ops: `g` get, `s<int>` blocking set, `qs<int>` queued set, `qd` queued probe,
`r<k>` get_result of the k-th task, `m<j>` of the thread's own j-th task, `p` pause_on_next, `w` wait, `c` cont.
cfg bits: waitPred, contNested, dispatchNotifies, runBeforeWait.
Answer: `<enabled>|<tid>:<ev+ev>;...;<enabled>|end <final state>`; a scheduled
thread that is not enabled gives `<enabled>|stuck:<tid>` as the last step.
-/
namespace PysphVerif.Driver.C18
open PysphVerif.Wire PysphVerif.Controller

def parseOp (s : String) : Option Op :=
  if s = "g" then some Op.get
  else if s = "p" then some Op.pause
  else if s = "w" then some Op.wait
  else if s = "c" then some Op.cont
  else if s = "qd" then some (Op.queue Cmd.probe)
  else if s.startsWith "qs" then (parseInt? (s.drop 2).toString).map (fun v => Op.queue (Cmd.set v))
  else if s.startsWith "s" then (parseInt? (s.drop 1).toString).map Op.setNow
  else if s.startsWith "r" then (parseNat? (s.drop 1).toString).map Op.getResult
  else if s.startsWith "m" then (parseNat? (s.drop 1).toString).map Op.getMine
  else none

def parseProgs (s : String) : Option (List (List Op)) :=
  if s = "_" then some [] else
  (s.splitOn "/").mapM (fun p => if p = "" then some [] else (p.splitOn ",").mapM parseOp)

def parseCfg (s : String) : Option Cfg :=
  match s.toList with
  | [a, b, c, d] =>
    if [a, b, c, d].all (fun ch => ch = '0' || ch = '1') then
      some ⟨a = '1', b = '1', c = '1', d = '1'⟩
    else none
  | _ => none

def showLock : LockName → String
  | LockName.d => "d" | LockName.res => "res" | LockName.p => "p" | LockName.q => "q"
  | LockName.c k => s!"c{k}"

def showTids (l : List Tid) : String :=
  if l.isEmpty then "-" else ".".intercalate (l.map toString)

def showOp : Op → String
  | Op.get => "g" | Op.setNow v => s!"s{v}" | Op.queue (Cmd.set v) => s!"qs{v}"
  | Op.queue Cmd.probe => "qd" | Op.getResult k => s!"r{k}" | Op.getMine j => s!"m{j}"
  | Op.pause => "p" | Op.wait => "w" | Op.cont => "c"

def showRes : Res → String
  | Res.v x => s!"v{x}" | Res.none => "none" | Res.k id => s!"k{id}" | Res.d n => s!"d{n}"
  | Res.true => "true" | Res.err => "err" | Res.cp => "cp"

def showEv : Ev → String
  | Ev.acq l => "acq:" ++ showLock l
  | Ev.rel l => "rel:" ++ showLock l
  | Ev.wait l => "wait:" ++ showLock l
  | Ev.reacq l => "reacq:" ++ showLock l
  | Ev.ntf l w => "ntf:" ++ showLock l ++ ":" ++ showTids w
  | Ev.nta l w => "nta:" ++ showLock l ++ ":" ++ showTids w
  | Ev.start op => "start:" ++ showOp op
  | Ev.done r => "done=" ++ showRes r
  | Ev.progress => "progress"

def enabledSet (cfg : Cfg) (s : State) (n : Nat) : List Tid :=
  (List.range (n + 1)).filter (fun t => enabled cfg s t)

def sortNat (l : List Nat) : List Nat := l.mergeSort (fun a b => a ≤ b)

def showNats (l : List Nat) : String :=
  if l.isEmpty then "_" else ",".intercalate (l.map toString)

def showFinal (cfg : Cfg) (s : State) (n : Nat) : String :=
  let fin := (List.range (n + 1)).filter
    (fun t => t ≠ 0 && (s.th t).pc = IPc.idle && (s.th t).prog.isEmpty)
  "end queue=" ++ showNats s.queue ++
  " pause=" ++ showNats (sortNat s.pause) ++
  " results=" ++ showNats (sortNat (s.results.map (·.1))) ++
  " lockmap=" ++ showNats (sortNat s.lockmap) ++
  " qdict=" ++ showNats (sortNat (s.qdict.map (·.1))) ++
  s!" dt={s.dt} count={s.count}" ++
  " exec=" ++ (if s.execLog.isEmpty then "_" else
      ",".intercalate (s.execLog.map (fun e => s!"{e.1}@{e.2.1}"))) ++
  " finished=" ++ showNats fin ++
  " en=" ++ showTids (enabledSet cfg s n)

def go (cfg : Cfg) (n : Nat) : State → List Tid → List String → List String
  | s, [], acc => (showTids (enabledSet cfg s n) ++ "|" ++ showFinal cfg s n) :: acc
  | s, t :: ts, acc =>
    let en := showTids (enabledSet cfg s n)
    match step cfg s t with
    | none => (showTids (enabledSet cfg s n) ++ "|" ++ showFinal cfg s n) ::
              (en ++ s!"|stuck:{t}") :: acc
    | some (s', evs) =>
      go cfg n s' ts ((en ++ s!"|{t}:" ++ "+".intercalate (evs.map showEv)) :: acc)

def handle (line : String) : String :=
  match tokens line with
  | "run" :: rest =>
    let kv := kvs rest
    match (lookup kv "cfg") >>= parseCfg, (lookup kv "progs") >>= parseProgs,
          (lookup kv "sched") >>= parseList? parseNat? with
    | some cfg, some progs, some sched =>
      let n := progs.length
      if sched.any (fun t => t > n) then "bad-op" else
      ";".intercalate (go cfg n (init (progsOf progs)) sched []).reverse
    | _, _, _ => "bad-op"
  | _ => "bad-op"

end PysphVerif.Driver.C18

def main : IO Unit := PysphVerif.Driver.loopPure PysphVerif.Driver.C18.handle
