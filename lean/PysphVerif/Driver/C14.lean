import PysphVerif.Driver.Common
import PysphVerif.Model.Interp
/-!
Line protocol for C14 (Float, bit patterns `x<16 hex>`):

* `pt method=<shepard|sph|splash|splash_norm|rho> tol=<f> nb=<fl>` — one
  destination particle; `nb` is the flat list of neighbour records, 10 doubles
  each: `w dw0 dw1 dw2 sx sy sz m rho f`, in the order the evaluator visits them.
  Answer `val <f>`.
* `pt method=sphc tol=<f> gain=<f> nb=<fl>` — the probe equation with array
  constants (`rho` of a record = `s_rho0[0]` of its array, `gain` = `d_gain[0]`).
* `pt method=order1 tol=<f> dim=<1|2|3> d=<x,y,z> nb=<fl>` — answer
  `val <4 doubles> mom <16 doubles> psph <4 doubles>`.
* `post tol=<f> dim=<n> a=<16 doubles> b=<4 doubles>` — `post_loop` of order1 on
  given moment matrix / right-hand side; answer `val <4 doubles>`.
* `S prop=<name> n=<nat> names=<names> vals=<fl> old=<fl>` — the staging loop of
  `interpolate(prop)` for ONE source array with `n` particles whose property
  table is `names` (comma separated, `_` = none) with the values `vals`
  (`n` doubles per name, concatenated in the order of `names`) and whose
  `temp_prop` holds `old` before the call.  Answer `temp <fl>`: the contents of
  `temp_prop` afterwards.
* `R dtype=<f64|f32|i64|i32> shape=<nats> strides=<ints> offset=<int> buf=<fl>` — `a.ravel()` of the numpy
  array with that shape, strides and offset (in elements) over the memory `buf`;
  answer `flat <fl>`: the coordinates of the target particles in particle order.
  The array has dtype `dtype` (`buf` is a list of
  integers for `i64`/`i32`, of doubles that are float32 values for `f32`) and the
  answer lists the DOUBLE coordinates `get_particle_array` makes of it.
* `H dtype=<f64|f32|i64|i32> n=<nat> lens=<nats> h=<fl>` — `_create_particle_array`'s
  `h = hmax*np.ones_like(xr)` for `n` points whose coordinate array has that
  dtype, `hmax = _get_max_h_in_arrays()` over source arrays whose real-particle
  `h` lists (lengths `lens`) are concatenated in `h`.  Answer `h <fl>` (n
  doubles), or `raise` when a source array has no real particle.
* `U shape=<nats> flat=<fl>` — `result = flat.copy(); result.shape = shape;
  result.squeeze()`: answer `res <fl>`, the entries of the returned array listed
  in row-major order of ITS (squeezed) shape.
* `O1 tol=<f> dim=<n> d=<x,y,z> m=<fl> f=<fl> rho=<fl> lens=<nats> sk=<nats> sw=<fl> pk=<nats> pn=<fl>` —
  one order1 `compute` for one target point over the shared arrays
  (`order1Compute`: group 1 overwrites `rho` of every source particle, groups 2
  and 3 read it): answer `val <4> mom <16> psph <4> rho <fl>` (the `rho` it leaves).
* bindings (stateful): `B init arrays=<nats> pts=<nat>`, `B setpts p=<nat>`,
  `B updarr arrays=<nats>`, `B update`, `B mutate o=<nat>`, `B touch o=<nat>`, and for SPHEvaluator `B initeval objs=<nats>`,
  `B evalupdarr objs=<nats>`; each answers
  `filled=<nats> evaluated=<nats> binned=<nats> result=<nat> consts=<nats> current=<true|false>`.
-/
namespace PysphVerif.Driver.C14
open PysphVerif.Wire PysphVerif.Interp

def toNbrs : List Float → Option (List (Nbr Float))
  | [] => some []
  | w :: d0 :: d1 :: d2 :: sx :: sy :: sz :: m :: rho :: f :: rest =>
    (toNbrs rest).map (fun t =>
      { w := w, dw0 := d0, dw1 := d1, dw2 := d2, sx := sx, sy := sy, sz := sz,
        m := m, rho := rho, f := f } :: t)
  | _ => none

def showFl (l : List Float) : String := showList showFloatBits l

def handlePt (kv : List (String × String)) : String :=
  match lookup kv "method", (lookup kv "tol") >>= parseFloatBits?,
        (lookup kv "nb") >>= parseList? parseFloatBits? >>= toNbrs with
  | some meth, some tol, some nbrs =>
    if meth = "shepard" then "val " ++ showFloatBits (shepard tol nbrs)
    else if meth = "sph" then "val " ++ showFloatBits (sph nbrs)
    else if meth = "splash" then "val " ++ showFloatBits (splash nbrs)
    else if meth = "splash_norm" then "val " ++ showFloatBits (splashNorm tol nbrs)
    else if meth = "rho" then "val " ++ showFloatBits (summationDensity nbrs)
    else if meth = "sphc" then
      match (lookup kv "gain") >>= parseFloatBits? with
      | some gain => "val " ++ showFloatBits (sphConst gain nbrs)
      | none => "bad-op"
    else if meth = "order1" then
      match (lookup kv "dim") >>= parseNat?, (lookup kv "d") >>= parseList? parseFloatBits? with
      | some dim, some [x, y, z] =>
        if dim < 1 ∨ dim > 3 then "bad-op" else
        let d : Pos Float := ⟨x, y, z⟩
        "val " ++ showFl (order1 tol dim d nbrs).toList ++
        " mom " ++ showFl (momentFlat d nbrs).toList ++
        " psph " ++ showFl (psphFlat nbrs).toList
      | _, _ => "bad-op"
    else "bad-op"
  | _, _, _ => "bad-op"

/-- split `l` into consecutive chunks of the given lengths; `none` unless the
lengths add up to `l.length` -/
def splitLensG {β : Type} : List Nat → List β → Option (List (List β))
  | [], [] => some []
  | [], _ :: _ => none
  | n :: ns, l =>
    if l.length < n then none
    else (splitLensG ns (l.drop n)).map (fun t => l.take n :: t)

def toPtNbrs : List Nat → List Float → Option (List (PtNbr Float))
  | [], [] => some []
  | k :: ks, w :: d0 :: d1 :: d2 :: sx :: sy :: sz :: rest =>
    (toPtNbrs ks rest).map (fun t =>
      { k := k, w := w, dw0 := d0, dw1 := d1, dw2 := d2, sx := sx, sy := sy, sz := sz } :: t)
  | _, _ => none

/-- `O1`: one `compute` of an order1 Interpolator for one target point on the
SHARED arrays as the call finds them (`order1Compute`): masses `m`, staged values
`f` and the OLD `rho` of all source particles (whatever was left there), the
kernel values among the sources (`lens`/`sk`/`sw`: per particle its neighbours in
visiting order) and the point's neighbours (`pk`, 7 numbers each in `pn`) -/
def handleO1 (kv : List (String × String)) : String :=
  match (lookup kv "tol") >>= parseFloatBits?, (lookup kv "dim") >>= parseNat?,
        (lookup kv "d") >>= parseList? parseFloatBits?,
        (lookup kv "m") >>= parseList? parseFloatBits?,
        (lookup kv "f") >>= parseList? parseFloatBits?,
        (lookup kv "rho") >>= parseList? parseFloatBits? with
  | some tol, some dim, some [x, y, z], some m, some f, some rho =>
    match (lookup kv "lens") >>= parseList? parseNat?, (lookup kv "sk") >>= parseList? parseNat?,
          (lookup kv "sw") >>= parseList? parseFloatBits?,
          (lookup kv "pk") >>= parseList? parseNat?,
          (lookup kv "pn") >>= parseList? parseFloatBits? with
    | some lens, some sk, some sw, some pk, some pnf =>
      let n := m.length
      if dim < 1 ∨ dim > 3 ∨ f.length ≠ n ∨ rho.length ≠ n ∨ lens.length ≠ n ∨
         sk.length ≠ sw.length ∨ sk.any (fun k => decide (n ≤ k)) ∨ pk.any (fun k => decide (n ≤ k))
      then "bad-op" else
      match splitLensG lens (sk.zip sw), toPtNbrs pk pnf with
      | some per, some pn =>
        let perA := per.toArray
        let g : SrcGeo Float := { ids := List.range n, nbrs := fun j => perA.getD j [] }
        let mA := m.toArray; let fA := f.toArray; let rA := rho.toArray
        let st : Store Float := { m := fun k => mA.getD k 0, rho := fun k => rA.getD k 0,
                                  f := fun k => fA.getD k 0 }
        let d : Pos Float := ⟨x, y, z⟩
        let r := order1Compute tol dim g d pn st
        let nbrs := pn.map (ptNbr r.1)
        "val " ++ showFl r.2.toList ++
        " mom " ++ showFl (group2 r.1 d pn).toList ++
        " psph " ++ showFl (psphFlat nbrs).toList ++
        " rho " ++ showFl ((List.range n).map r.1.rho)
      | _, _ => "bad-op"
    | _, _, _, _, _ => "bad-op"
  | _, _, _, _, _, _ => "bad-op"

def handlePost (kv : List (String × String)) : String :=
  match (lookup kv "tol") >>= parseFloatBits?, (lookup kv "dim") >>= parseNat?,
        (lookup kv "a") >>= parseList? parseFloatBits?,
        (lookup kv "b") >>= parseList? parseFloatBits? with
  | some tol, some dim, some a, some b =>
    if dim < 1 ∨ dim > 3 ∨ a.length ≠ 16 ∨ b.length ≠ 4 then "bad-op"
    else "val " ++ showFl (order1Post tol dim a.toArray b.toArray).toList
  | _, _, _, _ => "bad-op"

/-- split `vals` into `k` consecutive chunks of `n` entries; `none` unless it is
exactly `k*n` long -/
def chunks (n : Nat) : Nat → List Float → Option (List (List Float))
  | 0, [] => some []
  | 0, _ :: _ => none
  | k + 1, l =>
    if l.length < n then none
    else (chunks n k (l.drop n)).map (fun t => l.take n :: t)

def handleS (kv : List (String × String)) : String :=
  match lookup kv "prop", (lookup kv "n") >>= parseNat?,
        (lookup kv "names") >>= parseList? (fun s => some s),
        (lookup kv "vals") >>= parseList? parseFloatBits?,
        (lookup kv "old") >>= parseList? parseFloatBits? with
  | some prop, some n, some names, some vals, some old =>
    if old.length ≠ n then "bad-op" else
    match chunks n names.length vals with
    | none => "bad-op"
    | some cs =>
      let a : ArrData Float := { n := n, props := names.zip cs }
      -- the array is object 0; its `temp_prop` holds `old` before the call
      let t := stage (fun _ => a) prop [0] (fun _ => old)
      "temp " ++ showFl (t 0)
  | _, _, _, _, _ => "bad-op"

/-- every element of the view lies inside a buffer of `len` entries -/
def viewInside (sh : List Nat) (st : List Int) (off : Int) (len : Nat) : Bool :=
  (allIndices sh).all (fun idx =>
    let m := off + memOffset st idx
    decide (0 ≤ m) && decide (m.toNat < len))

def handleR (kv : List (String × String)) : String :=
  match (lookup kv "shape") >>= parseList? parseNat?,
        (lookup kv "strides") >>= parseList? parseInt?,
        (lookup kv "offset") >>= parseInt?, lookup kv "dtype" with
  | some sh, some st, some off, some dt =>
    if st.length ≠ sh.length then "bad-op" else
    if dt = "f64" then
      match (lookup kv "buf") >>= parseList? parseFloatBits? with
      | some buf =>
        -- every element must lie inside the buffer (no silent default)
        if viewInside sh st off buf.length then
          let v : NdView Float := { shape := sh, strides := st, offset := off, buf := buf }
          "flat " ++ showFl (castRavel (fun x => x) v)
        else "bad-op"
      | none => "bad-op"
    else if dt = "f32" then
      match (lookup kv "buf") >>= parseList? parseFloatBits? with
      | some buf =>
        -- the buffer must hold float32 values
        if buf.all (fun x => x.toFloat32.toFloat.toBits == x.toBits) ∧ viewInside sh st off buf.length then
          let v : NdView Float32 :=
            { shape := sh, strides := st, offset := off, buf := buf.map Float.toFloat32 }
          "flat " ++ showFl (castRavel Float32.toFloat v)
        else "bad-op"
      | none => "bad-op"
    else if dt = "i64" ∨ dt = "i32" then
      match (lookup kv "buf") >>= parseList? parseInt? with
      | some buf =>
        if viewInside sh st off buf.length then
          let v : NdView Int := { shape := sh, strides := st, offset := off, buf := buf }
          "flat " ++ showFl (castRavel Float.ofInt v)
        else "bad-op"
      | none => "bad-op"
    else "bad-op"
  | _, _, _, _ => "bad-op"

/-- split `l` into consecutive chunks of the given lengths; `none` unless the
lengths add up to `l.length` -/
def splitLens : List Nat → List Float → Option (List (List Float))
  | [], [] => some []
  | [], _ :: _ => none
  | n :: ns, l =>
    if l.length < n then none
    else (splitLens ns (l.drop n)).map (fun t => l.take n :: t)

def handleH (kv : List (String × String)) : String :=
  match lookup kv "dtype", (lookup kv "n") >>= parseNat?,
        (lookup kv "lens") >>= parseList? parseNat?,
        (lookup kv "h") >>= parseList? parseFloatBits? with
  | some dt, some n, some lens, some h =>
    match splitLens lens h with
    | none => "bad-op"
    | some hs =>
      let ans : Option (Option (List Float)) :=
        if dt = "f64" then some (createTargetH (fun x : Float => x) hs (List.replicate n 0))
        else if dt = "f32" then some (createTargetH Float32.toFloat hs (List.replicate n 0))
        else if dt = "i64" ∨ dt = "i32" then
          some (createTargetH Float.ofInt hs (List.replicate n (0 : Int)))
        else none
      match ans with
      | none => "bad-op"
      | some none => "raise"
      | some (some l) => "h " ++ showFl l
  | _, _, _, _ => "bad-op"

def sequenceOpt {α : Type} : List (Option α) → Option (List α)
  | [] => some []
  | none :: _ => none
  | some a :: rest => (sequenceOpt rest).map (a :: ·)

def handleU (kv : List (String × String)) : String :=
  match (lookup kv "shape") >>= parseList? parseNat?,
        (lookup kv "flat") >>= parseList? parseFloatBits? with
  | some sh, some flat =>
    if flat.length ≠ size sh then "bad-op" else
    match sequenceOpt ((allIndices (squeezeShape sh)).map
        (fun idx' => reshapedGet flat sh (unsqueeze sh idx'))) with
    | some vals => "res " ++ showFl vals
    | none => "bad-op"
  | _, _ => "bad-op"

def showNats (l : List Nat) : String := showList toString l

def showReads (s : IState) : String :=
  let r := interpolateReads s
  s!"filled={showNats r.filled} evaluated={showNats r.evaluated} binned={showNats r.binned} result={r.result} consts={showNats r.constants} current={r.neighboursCurrent}"

def handleB (st : Option IState) (toks : List String) : Option IState × String :=
  match toks with
  | cmd :: rest =>
    let kv := kvs rest
    if cmd = "init" then
      match (lookup kv "arrays") >>= parseList? parseNat?, (lookup kv "pts") >>= parseNat? with
      | some as, some p => let s := init as p; (some s, showReads s)
      | _, _ => (st, "bad-op")
    else if cmd = "initeval" then
      match (lookup kv "objs") >>= parseList? parseNat? with
      | some objs => let s := initEval objs; (some s, showReads s)
      | _ => (st, "bad-op")
    else
      match st with
      | none => (st, "bad-op")
      | some s =>
        let op : Option Op :=
          if cmd = "setpts" then ((lookup kv "p") >>= parseNat?).map Op.setPoints
          else if cmd = "updarr" then
            ((lookup kv "arrays") >>= parseList? parseNat?).map Op.updateArrays
          else if cmd = "evalupdarr" then
            ((lookup kv "objs") >>= parseList? parseNat?).map Op.evalUpdateArrays
          else if cmd = "update" then some Op.update
          else if cmd = "mutate" then ((lookup kv "o") >>= parseNat?).map Op.mutate
          else if cmd = "touch" then ((lookup kv "o") >>= parseNat?).map Op.touch
          else none
        match op with
        | none => (st, "bad-op")
        | some o => let s' := step s o; (some s', showReads s')
  | [] => (st, "bad-op")

def handle (st : Option IState) (line : String) : Option IState × String :=
  match tokens line with
  | "pt" :: rest => (st, handlePt (kvs rest))
  | "post" :: rest => (st, handlePost (kvs rest))
  | "O1" :: rest => (st, handleO1 (kvs rest))
  | "S" :: rest => (st, handleS (kvs rest))
  | "R" :: rest => (st, handleR (kvs rest))
  | "U" :: rest => (st, handleU (kvs rest))
  | "H" :: rest => (st, handleH (kvs rest))
  | "B" :: rest => handleB st rest
  | _ => (st, "bad-op")

end PysphVerif.Driver.C14

def main : IO Unit := PysphVerif.Driver.loop PysphVerif.Driver.C14.handle none
