import PysphVerif.Driver.Common
import PysphVerif.Model.SchemeNeeds
import PysphVerif.Gen.Schemes
/-!
Line protocol for C12 (everything is answered from the generated table and
the model's own computation of needs / verdicts, decoded back to names):

  `schemes`                 → scheme names, comma separated
  `grid <Scheme>`           → `size=<n>|axes=<axis>:<l1>,<l2>;…`
  `point <Scheme> <index>`  → `rejected`, `nobody <entry>`, or
      `labels:<axis>=<label>,…|arr:<name>:<props>|…|eq:<Class>:<dest>:<srcs>:<needsD>:<needsS>:<implicit>|…`
      `|st:<Class>:<array>:<needs>:<implicit>:<index uses>|…|accepted:<T|F>|complete:<T|F>|typesok:<T|F>`
    with `ty:<array>:int=…;uint=…;long=…;float=…;strides=<name>*<n>,…` after the
    `arr:` parts (C types of the properties, everything not listed is double) and
    `:<index uses d>:<index uses s>` at the end of every `eq:` part
    where `<srcs>` is `-` for `sources=None`, else `+`-separated array names;
    name lists are comma separated in `propNames` order, `_` when empty;
    `needsD/needsS` are what the model computes for
    `Group([eq]).get_array_names()` (explicit arguments ∪ arrays of the
    precomputed closure).
    every `st:` part ends with `:<wrappers>` (the `initialize`/`stage*` methods and
    the stages with a `py_stage*`, `+`-separated), then
    `integ:<Class>:<members of the generated class one_timestep uses>` and
    `stagesok:<T|F>` follow the steppers.
  `pointx <Scheme> <index> <extra>` → the same for the configuration with
      caller-supplied `extra_steppers` (`withExtra`): `<extra>` is `-` (None / {}) or
      `<Class>;<method>=<names,>;…@<array>+<array>…` — one stepper class (the
      `d_*`/`s_*` names among the arguments of each `initialize`/`stage*` method)
      given for the listed arrays, in the caller's dict order
  anything else → `bad-op`
-/
namespace PysphVerif.Driver.C12
open PysphVerif.Wire PysphVerif.SchemeNeeds PysphVerif.Gen.Schemes

def tf (b : Bool) : String := if b then "T" else "F"

def nameList (m : Mask) : String := showList id (namesOf propNames m)

def arrName (b : Body) (i : Nat) : String :=
  match b.arrays[i]? with
  | some a => arrayNames.getD a.1 "?"
  | none => "!invalid"

def showEq (b : Body) (e : EqInst) : String :=
  match eqKinds[e.kind]? with
  | none => "eq:!nokind"
  | some k =>
    let srcs := match e.sources with
      | none => "-"
      | some l => if l.isEmpty then "_" else "+".intercalate (l.map (arrName b))
    s!"eq:{k.name}:{arrName b e.dest}:{srcs}:{nameList (needsD preTable k)}:{nameList (needsS preTable k)}:{nameList k.implicitD}:{nameList k.idxD}:{nameList k.idxS}"

def showStepper (sk : List StepKind) (b : Body) (st : Nat × Nat) : String :=
  match sk[st.1]? with
  | none => "st:!nokind"
  | some k =>
    let wr := stepWrappers k
    let wrs := if wr.isEmpty then "_" else "+".intercalate wr
    s!"st:{k.name}:{arrName b st.2}:{nameList (stepNeeds k)}:{nameList k.implicitD}:{nameList k.idx}:{wrs}"

def showInteg (b : Body) : String :=
  match integKinds[b.integ]? with
  | none => "integ:!nokind"
  | some i => s!"integ:{i.name}:{if i.calls.isEmpty then "_" else "+".intercalate i.calls}"

def showArr (a : Nat × Mask) : String :=
  s!"arr:{arrayNames.getD a.1 "?"}:{nameList a.2}"

def showStride (s : Nat × Nat) : String := s!"{propNames.getD s.1 "?"}*{s.2}"

/-- `ty:<array>:int=…;uint=…;long=…;float=…;strides=<name>*<n>,…` (the rest is double) -/
def showTypes (a : (Nat × Mask) × ArrTypes) : String :=
  s!"ty:{arrayNames.getD a.1.1 "?"}:int={nameList a.2.int};uint={nameList a.2.uint};long={nameList a.2.long};float={nameList a.2.float};strides={showList showStride a.2.strides}"

/-- the caller's `extra_steppers` on the wire, resolved against the table's
names: the stepper kind and the arrays (indices into `b.arrays`) it is given for -/
def maskOfNames? (ns : List String) : Option Mask :=
  ns.foldl (fun acc n => match acc, propNames.idxOf? n with
    | some m, some i => some (m ||| (1 <<< i))
    | _, _ => none) (some 0)

def parseMethod? (s : String) : Option (String × Mask) :=
  match s.splitOn "=" with
  | [m, ns] =>
    if m.isEmpty then none else
    (if ns == "_" then some 0 else maskOfNames? (ns.splitOn ",")).map (fun k => (m, k))
  | _ => none

def arrIndex? (b : Body) (n : String) : Option Nat :=
  match arrayNames.idxOf? n with
  | none => none
  | some id => b.arrays.findIdx? (fun a => a.1 == id)

def parseExtra? (b : Body) (s : String) : Option (Option StepKind × List Nat) :=
  if s == "-" then some (none, []) else
  match s.splitOn "@" with
  | [kind, arrs] =>
    match kind.splitOn ";" with
    | cls :: ms =>
      match ms.mapM parseMethod?, (arrs.splitOn "+").mapM (arrIndex? b) with
      | some methods, some as =>
        if cls.isEmpty then none else some (some ⟨cls, methods, 0, 0, []⟩, as)
      | _, _ => none
    | [] => none
  | _ => none

def showBody (sk : List StepKind) (labels : String) (b : Body) : String :=
  let parts := [s!"labels:{labels}"] ++ b.arrays.map showArr ++
    (b.arrays.zip b.types).map showTypes ++ b.eqs.map (showEq b) ++
    b.steppers.map (showStepper sk b) ++
    [showInteg b, s!"stagesok:{tf (stagesOk integKinds sk b)}",
     s!"accepted:{tf (acceptsBody preTable eqKinds sk b)}",
     s!"complete:{tf (checkBody preTable eqKinds sk b)}",
     s!"typesok:{tf (typesOk eqKinds sk b)}"]
  "|".intercalate parts

def showPoint (g : SchemeGrid) (i : Nat) (extra : Option String) : String :=
  match g.bodyOf[i]? with
  | none => "bad-op"
  | some 0 => "rejected"
  | some (c + 1) =>
    match bodies[c]? with
    | none => s!"nobody {c + 1}"
    | some b =>
      let labels := ",".intercalate ((labelsOf g i).map (fun p => p.1 ++ "=" ++ p.2))
      match extra with
      | none => showBody stepKinds labels b
      | some x =>
        match parseExtra? b x with
        | none => "bad-op"
        | some (none, _) => showBody stepKinds labels (withExtra b [])
        | some (some uk, as) =>
          showBody (stepKinds ++ [uk]) labels (withExtra b (as.map (fun a => (stepKinds.length, a))))

def findGrid (n : String) : Option SchemeGrid := schemeTable.find? (fun g => g.name == n)

def handle (line : String) : String :=
  match tokens line with
  | ["schemes"] => ",".intercalate (schemeTable.map (·.name))
  | ["grid", n] =>
    match findGrid n with
    | none => "bad-op"
    | some g =>
      let axes := ";".intercalate (g.axes.map (fun a => a.1 ++ ":" ++ ",".intercalate a.2))
      s!"size={gridSize g}|entries={g.bodyOf.length}|axes={axes}"
  | ["point", n, i] =>
    match findGrid n, parseNat? i with
    | some g, some k => showPoint g k none
    | _, _ => "bad-op"
  | ["pointx", n, i, x] =>
    match findGrid n, parseNat? i with
    | some g, some k => showPoint g k (some x)
    | _, _ => "bad-op"
  | _ => "bad-op"

end PysphVerif.Driver.C12

def main : IO Unit := PysphVerif.Driver.loopPure PysphVerif.Driver.C12.handle
