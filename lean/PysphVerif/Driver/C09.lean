import PysphVerif.Model.PeriodicGhosts
import PysphVerif.Driver.Common
import PysphVerif.Gen.C09Equations
import PysphVerif.Model.NbrCacheHist
/-!
Line protocol for C09 (everything at `Float`, doubles as bit patterns):

* `loop tag=<Tag> sf=<fl> sb=<01l> acc=<fl> d=<fl> dc=<fl> s=<fl> pre=<fl>`
  runs the generated `loop_<Tag>` on the scalars in the generated parameter
  order (self floats, self flags, accumulated `d_*`, read-only `d_*`, array
  constants, `s_*`, precomputed scalars then vector components) and answers
  `ok <fl>`: the `d_*[d_idx]` values the body leaves behind.
* `pair tag=<Tag> sf= sb= acc= a=<fl> b=<fl> kw=<fl> kg=<fl> kd=<fl> kh=<fl> deltap=<f>`
  runs `pair_<Tag>` (precomputed symbols + body) for destination particle `a`
  and source particle `b` (fields in `P.fieldNames` order).  The kernel is a
  table recorded from the real Python kernel object: `kw` = triples
  `r,h,W`, `kg` = 5-tuples `r,h,gx,gy,gz`, `kd` = triples `r,h,dwdq`,
  `kh` = triples `r,h,gradh`, looked up by the exact bit patterns of `(r, h)`;
  a call the Python side did not make answers NaN (⇒ a visible mismatch).
* `pre a= b= kw= kg= kd= kh= deltap=` answers every precomputed symbol in
  `preNames` order.
* `names` answers the field names and the precomputed names.
* `cachehist junk=<n> n0=<n> rounds=<R> np0=<n> off0=<nl> nb0=<nl> ops0=<il> np1=…`
  runs `NbrCacheHist.runHist` on a cache constructed for `n0` particles whose
  fresh memory reads `junk`: round `r` has `np<r>` destination particles, the
  search's lists in CSR form (`off<r>`: `np+1` offsets into `nb<r>`) and the
  operations `ops<r>` (`d ≥ 0`: `get_neighbors(d)`, `-1`: `find_all_neighbors`).
  Answers `ok` and the lists handed out: rounds separated by `|`, lists by `;`.
* `ghosts box=<xmin,xmax,ymin,ymax,zmin,zmax> per=<px,py,pz> par=<n_layers,radius_scale>
  hmax=<h.maximum of every array> x=<fl> y=<fl> z=<fl>` runs
  `PeriodicGhosts.ghostsOfArray` at Float for one array (real particle `i` at
  `x[i], y[i], z[i]`): answers `ok <ids> <x,y,z of every image, flat>` in the
  order of `_create_ghosts_periodic`.
Unknown or malformed input answers `bad-op`.
-/
namespace PysphVerif.Driver.C09
open PysphVerif.Wire PysphVerif.PairSym PysphVerif.Gen.C09

def nan : Float := 0.0 / 0.0

def sameBits (x y : Float) : Bool := x.toBits == y.toBits

/-- look `(r, h)` up in a flat table of rows of width `2 + n`; answer column `c` -/
def lookupRH (n : Nat) (tab : List Float) (r h : Float) (c : Nat) : Float :=
  let rec go (fuel : Nat) (t : List Float) : Float :=
    match fuel with
    | 0 => nan
    | fuel + 1 =>
      match t with
      | r' :: h' :: rest =>
        if sameBits r r' && sameBits h h' then rest.getD c nan
        else go fuel (rest.drop n)
      | _ => nan
  go tab.length tab

def tableKern (kw kg kd kh : List Float) (deltap : Float) : Kern Float where
  kernel := fun _ _ _ r h => lookupRH 1 kw r h 0
  gx := fun _ _ _ r h => lookupRH 3 kg r h 0
  gy := fun _ _ _ r h => lookupRH 3 kg r h 1
  gz := fun _ _ _ r h => lookupRH 3 kg r h 2
  dwdq := fun r h => lookupRH 1 kd r h 0
  gradh := fun _ _ _ r h => lookupRH 1 kh r h 0
  deltap := deltap

def parseBool? (s : String) : Option Bool :=
  if s = "1" then some true else if s = "0" then some false else none

def fl (kv : List (String × String)) (k : String) : Option (List Float) :=
  (lookup kv k) >>= parseList? parseFloatBits?

def showOut : Option (List Float) → String
  | none => "bad-op"
  | some l => "ok " ++ showList showFloatBits l

def kernOf (kv : List (String × String)) : Option (Kern Float) := do
  let kw ← fl kv "kw"
  let kg ← fl kv "kg"
  let kd ← fl kv "kd"
  let kh ← fl kv "kh"
  let dp ← (lookup kv "deltap") >>= parseFloatBits?
  if kw.length % 3 ≠ 0 ∨ kg.length % 5 ≠ 0 ∨ kd.length % 3 ≠ 0 ∨ kh.length % 3 ≠ 0 then none
  else pure (tableKern kw kg kd kh dp)

/-- the search of one round from its CSR table -/
def csrFind (off nb : List Nat) (d : Nat) : List Nat :=
  (nb.drop (off.getD d 0)).take (off.getD (d + 1) 0 - off.getD d 0)

def opOfInt (i : Int) : Option NbrCacheHist.Op :=
  if i = -1 then some .all else if 0 ≤ i then some (.get i.toNat) else none

def parseRound (kv : List (String × String)) (r : Nat) : Option NbrCacheHist.Round := do
  let np ← (lookup kv s!"np{r}") >>= parseNat?
  let off ← (lookup kv s!"off{r}") >>= parseList? parseNat?
  let nb ← (lookup kv s!"nb{r}") >>= parseList? parseNat?
  let opsI ← (lookup kv s!"ops{r}") >>= parseList? parseInt?
  let ops ← opsI.mapM opOfInt
  -- a well-formed table, every query names a current particle
  if off.length ≠ np + 1 then none
  else if ops.any (fun o => match o with | .get d => decide (np ≤ d) | .all => false) then none
  else pure { np := np, find := csrFind off nb, ops := ops }

def showServed (out : List (List (List Nat))) : String :=
  "|".intercalate (out.map (fun rd =>
    if rd.isEmpty then "-" else ";".intercalate (rd.map (showList toString))))

def cacheHist (kv : List (String × String)) : String :=
  match (lookup kv "junk") >>= parseNat?, (lookup kv "n0") >>= parseNat?,
        (lookup kv "rounds") >>= parseNat? with
  | some junk, some n0, some R =>
    match (List.range R).mapM (parseRound kv) with
    | some rounds =>
      "ok " ++ showServed (NbrCacheHist.runHist (fun _ => junk)
                (NbrCacheHist.init (fun _ => junk) n0) rounds)
    | none => "bad-op"
  | _, _, _ => "bad-op"

def mkPts : Nat → List Float → List Float → List Float → List (PeriodicGhosts.Pt Float)
  | i, x :: xs, y :: ys, z :: zs => ⟨i, x, y, z⟩ :: mkPts (i + 1) xs ys zs
  | _, _, _, _ => []

def ghostsOp (kv : List (String × String)) : String :=
  match fl kv "box", (lookup kv "per") >>= parseList? parseBool?, fl kv "par", fl kv "hmax",
        fl kv "x", fl kv "y", fl kv "z" with
  | some [x0, x1, y0, y1, z0, z1], some [px, py, pz], some [nl, k], some hm,
    some xs, some ys, some zs =>
    if xs.length ≠ ys.length ∨ xs.length ≠ zs.length ∨ hm.isEmpty then "bad-op"
    else
      let g := PeriodicGhosts.ghostsOfArray ⟨x0, x1, y0, y1, z0, z1, px, py, pz⟩ nl k
                 (-1.0) 1e-6 1.0 hm (mkPts 0 xs ys zs)
      "ok " ++ showList toString (g.map (·.id)) ++ " " ++
        showList showFloatBits (g.flatMap (fun p => [p.x, p.y, p.z]))
  | _, _, _, _, _, _, _ => "bad-op"

def handle (line : String) : String :=
  match tokens line with
  | [] => "bad-op"
  | cmd :: rest =>
    let kv := kvs rest
    if cmd = "names" then
      "ok " ++ ",".intercalate P.fieldNames ++ " " ++ ",".intercalate preNames
        ++ " " ++ ",".intercalate handledTags
    else if cmd = "loop" then
      match lookup kv "tag", fl kv "sf", (lookup kv "sb") >>= parseList? parseBool?,
            fl kv "acc", fl kv "d", fl kv "dc", fl kv "s", fl kv "pre" with
      | some tag, some sf, some sb, some acc, some d, some dc, some s, some pre =>
        showOut (runLoop floatOps nan tag sf sb acc d dc s pre)
      | _, _, _, _, _, _, _, _ => "bad-op"
    else if cmd = "pair" then
      match lookup kv "tag", fl kv "sf", (lookup kv "sb") >>= parseList? parseBool?,
            fl kv "acc", fl kv "a", fl kv "b", kernOf kv with
      | some tag, some sf, some sb, some acc, some a, some b, some k =>
        showOut (runPair floatOps k nan tag sf sb acc a b)
      | _, _, _, _, _, _, _ => "bad-op"
    else if cmd = "pre" then
      match fl kv "a", fl kv "b", kernOf kv with
      | some a, some b, some k => showOut (runPre floatOps k nan a b)
      | _, _, _ => "bad-op"
    else if cmd = "cachehist" then cacheHist kv
    else if cmd = "ghosts" then ghostsOp kv
    else "bad-op"

end PysphVerif.Driver.C09

def main : IO Unit := PysphVerif.Driver.loopPure PysphVerif.Driver.C09.handle
