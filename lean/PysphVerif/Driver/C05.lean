import PysphVerif.Driver.Common
/-! Line-protocol driver for C05 (stub: not built yet). -/
def main : IO Unit := PysphVerif.Driver.loopPure (fun _ => "bad-op")
