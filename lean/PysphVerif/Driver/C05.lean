import PysphVerif.Driver.Common
import PysphVerif.Model.Determinism
import PysphVerif.Model.TreeReduce
/-!
Line protocol for C05 (Float, bit patterns):

  `loop doff=<nat> nd=<nat> x=<fl> y=<fl> m=<fl> parts=<il|il|…> sched=<il> nb=<L;L;…>`
      the state is one row per particle (x, y, m from the three lists; acc = 0,
      cnt = 0 as `initialize` leaves them); destinations are rows
      `doff … doff+nd-1`; each `L` is one source loop: `nd` neighbour lists
      (absolute row numbers) separated by `|`; `parts` hands the destinations
      (numbered from 0) to threads, `sched` is the interleaving (thread ids).
      The loops run one after the other under the same partition and schedule
      (`Determinism.runLoop` with `foldPair 0.75`).
      answers `acc=<fl> cnt=<il>` of the destination rows.
  `sort ids=<il> keys=<il>`   answers `sortNbrs` of the ids by their keys.
  `hmax oct=<il> h=<fl> chunks=<il|il|…> sched=<il>`
      level-1 reduction of the parallel octree build (`TreeReduce.parHmax` at
      Float, initial value 0.0): particle `p` lies in octant `oct[p]` and has
      smoothing length `h[p]`; `chunks` hands the particles to the threads,
      `sched` is the interleaving.  answers the 8 entries of `hmax_children`.
-/
namespace PysphVerif.Driver.C05
open PysphVerif.Wire PysphVerif.Determinism

def parseLists (s : String) : Option (List (List Nat)) :=
  (s.splitOn "|").mapM (parseList? parseNat?)

def mkRows : List Float → List Float → List Float → List (Row Float)
  | x :: xs, y :: ys, m :: ms => { x := x, y := y, m := m, acc := 0.0, cnt := 0 } :: mkRows xs ys ms
  | _, _, _ => []

def nbOf (doff : Nat) (lists : List (List Nat)) (i : Nat) : List Nat :=
  if i < doff then [] else (lists[i - doff]?).getD []

def runLoops (doff : Nat) (parts : List (List Nat)) (sched : List Nat)
    (loops : List (List (List Nat))) (st : List (Row Float)) : List (Row Float) :=
  loops.foldl (fun s lists => runLoop (foldPair (0.75 : Float)) (nbOf doff lists) parts sched s) st

def handleLoop (kv : List (String × String)) : Option String := do
  let doff ← (lookup kv "doff") >>= parseNat?
  let nd ← (lookup kv "nd") >>= parseNat?
  let x ← (lookup kv "x") >>= parseList? parseFloatBits?
  let y ← (lookup kv "y") >>= parseList? parseFloatBits?
  let m ← (lookup kv "m") >>= parseList? parseFloatBits?
  let parts ← (lookup kv "parts") >>= parseLists
  let sched ← (lookup kv "sched") >>= parseList? parseNat?
  let nbs ← lookup kv "nb"
  let loops ← (nbs.splitOn ";").mapM parseLists
  if x.length ≠ y.length ∨ x.length ≠ m.length then none
  else if loops.any (fun l => l.length ≠ nd) then none
  else if doff + nd > x.length then none
  else
    let parts' := parts.map (fun p => p.map (· + doff))
    let st := runLoops doff parts' sched loops (mkRows x y m)
    let rows := (st.drop doff).take nd
    pure ("acc=" ++ showList showFloatBits (rows.map (·.acc)) ++ " cnt=" ++
      showList toString (rows.map (·.cnt)))

def keyOf (tbl : List (Nat × Nat)) (j : Nat) : Nat :=
  match tbl.find? (·.1 == j) with
  | some p => p.2
  | none => 0

def handleSort (kv : List (String × String)) : Option String := do
  let ids ← (lookup kv "ids") >>= parseList? parseNat?
  let keys ← (lookup kv "keys") >>= parseList? parseNat?
  if ids.length ≠ keys.length then none
  else pure (showList toString (sortNbrs (keyOf (ids.zip keys)) ids))

def handleHmax (kv : List (String × String)) : Option String := do
  let oct ← (lookup kv "oct") >>= parseList? parseNat?
  let h ← (lookup kv "h") >>= parseList? parseFloatBits?
  let chunks ← (lookup kv "chunks") >>= parseLists
  let sched ← (lookup kv "sched") >>= parseList? parseNat?
  if oct.length ≠ h.length then none
  else if oct.any (fun o => o ≥ 8) then none
  else if chunks.any (fun c => c.any (fun p => p ≥ h.length)) then none
  else
    let octA := oct.toArray
    let hA := h.toArray
    let tab := PysphVerif.TreeReduce.parHmax (0.0 : Float) (fun p => octA.getD p 0)
      (fun p => hA.getD p 0.0) h.length chunks sched
    pure (showList showFloatBits ((List.range 8).map tab))

def handle (line : String) : String :=
  match tokens line with
  | "loop" :: rest => (handleLoop (kvs rest)).getD "bad-op"
  | "sort" :: rest => (handleSort (kvs rest)).getD "bad-op"
  | "hmax" :: rest => (handleHmax (kvs rest)).getD "bad-op"
  | _ => "bad-op"

end PysphVerif.Driver.C05

def main : IO Unit := PysphVerif.Driver.loopPure PysphVerif.Driver.C05.handle
