import PysphVerif.Model.Wire
/-! Shared stdin/stdout loop of the model driver. -/
namespace PysphVerif.Driver

/-- Run a stateful line handler over stdin until EOF. -/
partial def loop {σ : Type} (step : σ → String → σ × String) (s : σ) : IO Unit := do
  let stdin ← IO.getStdin
  let stdout ← IO.getStdout
  let rec go (s : σ) : IO Unit := do
    let line ← stdin.getLine
    if line.isEmpty then
      stdout.flush
      return ()
    let (s', out) := step s line
    stdout.putStrLn out
    go s'
  go s

/-- Stateless variant. -/
def loopPure (f : String → String) : IO Unit :=
  loop (fun (_ : Unit) l => ((), f l)) ()

end PysphVerif.Driver
