import PysphVerif.Driver.Common
import PysphVerif.Model.GaussJordan
/-!
Line protocol for C13.  Doubles travel as bit patterns (`x<16 hex>`), rationals as `p/q`.

  `gj     tol=<f> n=<nat> nb=<nat> m=<fl> r=<fl>`  → `ret=<0|1> res=<fl> m=<fl|->`   (repaired gj_solve, Float)
  `gjorig tol=<f> n=<nat> nb=<nat> m=<fl> r=<fl>`  → same, pinned (pre-pass) algorithm
  `gjq    tol=<q> n=<nat> nb=<nat> m=<ql> r=<ql>`  → `ret=<0|1> res=<ql>`            (repaired gj_solve, exact ℚ)
  `identity n=<nat> a=<fl>`                        → `<fl>`
  `dot n=<nat> a=<fl> b=<fl>`                      → `<f>`
  `matmult n=<nat> a=<fl> b=<fl> r=<fl>`           → `<fl>`
  `matvec n=<nat> a=<fl> b=<fl> r=<fl>`            → `<fl>`
  `aug n=<nat> na=<nat> nmax=<nat> A=<fl> b=<fl> r=<fl>` → `<fl>`
Arrays too small for the indices the code touches answer `error` (Python raises IndexError).
-/
namespace PysphVerif.Driver.C13
open PysphVerif.Wire PysphVerif.GaussJordan

def fl (kv : List (String × String)) (k : String) : Option (Array Float) :=
  ((lookup kv k) >>= parseList? parseFloatBits?).map List.toArray
def ql (kv : List (String × String)) (k : String) : Option (Array Rat) :=
  ((lookup kv k) >>= parseList? parseRat?).map List.toArray
def nat (kv : List (String × String)) (k : String) : Option Nat := (lookup kv k) >>= parseNat?

def showFl (a : Array Float) : String := showList showFloatBits a.toList
def showQl (a : Array Rat) : String := showList showRat a.toList

def showOutcome (o : Outcome Float) : String :=
  s!"ret={if o.singular then 1 else 0} res={showFl o.result} m={match o.m with | none => "-" | some m => showFl m}"

def handle (line : String) : String :=
  match tokens line with
  | [] => "bad-op"
  | cmd :: rest =>
    let kv := kvs rest
    let r : Option String :=
      if cmd = "gj" ∨ cmd = "gjorig" then do
        let tol ← (lookup kv "tol") >>= parseFloatBits?
        let n ← nat kv "n"
        let nb ← nat kv "nb"
        let m ← fl kv "m"
        let res ← fl kv "r"
        if !sizesOk m n nb res then pure "error"
        else if cmd = "gj" then pure (showOutcome (gjSolve tol m n nb res))
        else pure (showOutcome (gjSolveOrig tol m n nb res))
      else if cmd = "gjq" then do
        let tol ← (lookup kv "tol") >>= parseRat?
        let n ← nat kv "n"
        let nb ← nat kv "nb"
        let m ← ql kv "m"
        let res ← ql kv "r"
        if !sizesOk m n nb res then pure "error"
        else
          let o := gjSolve tol m n nb res
          pure s!"ret={if o.singular then 1 else 0} res={showQl o.result}"
      else if cmd = "identity" then do
        let n ← nat kv "n"
        let a ← fl kv "a"
        if a.size < n * n then pure "error" else pure (showFl (identity a n))
      else if cmd = "dot" then do
        let n ← nat kv "n"
        let a ← fl kv "a"
        let b ← fl kv "b"
        if a.size < n ∨ b.size < n then pure "error" else pure (showFloatBits (dot a b n))
      else if cmd = "matmult" then do
        let n ← nat kv "n"
        let a ← fl kv "a"
        let b ← fl kv "b"
        let res ← fl kv "r"
        if a.size < n * n ∨ b.size < n * n ∨ res.size < n * n then pure "error"
        else pure (showFl (matMult a b n res))
      else if cmd = "matvec" then do
        let n ← nat kv "n"
        let a ← fl kv "a"
        let b ← fl kv "b"
        let res ← fl kv "r"
        if a.size < n * n ∨ b.size < n ∨ res.size < n then pure "error"
        else pure (showFl (matVecMult a b n res))
      else if cmd = "aug" then do
        let n ← nat kv "n"
        let na ← nat kv "na"
        let nmax ← nat kv "nmax"
        let A ← fl kv "A"
        let b ← fl kv "b"
        let res ← fl kv "r"
        if n > nmax ∨ (n > 0 ∧ A.size < nmax * (n - 1) + n) ∨ b.size < na * n ∨ res.size < (n + na) * n
        then pure "error"
        else pure (showFl (augmentedMatrix A b n na nmax res))
      else none
    r.getD "bad-op"

end PysphVerif.Driver.C13

def main : IO Unit := PysphVerif.Driver.loopPure PysphVerif.Driver.C13.handle
