import PysphVerif.Driver.Common
import PysphVerif.Model.GaussJordan
import PysphVerif.Model.Eigen3
/-!
Line protocol for C13.  Doubles travel as bit patterns (`x<16 hex>`), rationals as `p/q`.

  `gj     tol=<f> n=<nat> nb=<nat> m=<fl> r=<fl>`  → `ret=<0|1> res=<fl> m=<fl|->`   (repaired gj_solve, Float)
  `gjorig tol=<f> n=<nat> nb=<nat> m=<fl> r=<fl>`  → same, pinned (pre-pass) algorithm
  `gjq    tol=<q> n=<nat> nb=<nat> m=<ql> r=<ql>`  → `ret=<0|1> res=<ql>`            (repaired gj_solve, exact ℚ)
  `identity n=<nat> a=<fl>`                        → `<fl>`
  `dot n=<nat> a=<fl> b=<fl>`                      → `<f>`
  `matmult n=<nat> a=<fl> b=<fl> r=<fl>`           → `<fl>`
  `matvec n=<nat> a=<fl> b=<fl> r=<fl>`            → `<fl>`
  `aug n=<nat> na=<nat> nmax=<nat> A=<fl> b=<fl> r=<fl>` → `<fl>`
Arrays too small for the indices the code touches answer `error` (Python raises IndexError).

Eigen-decomposition (Model/Eigen3.lean at Float, `fabs = Float.abs`, `sqrt = Float.sqrt`);
3×3 matrices are 9 doubles row-major, vectors 3 doubles; `eps` is the literal `2.0**-52.0`,
`big` the literal `1e8`, `fuel` the number of QL sweeps allowed per eigenvalue:
`hyp=naive|safe` selects the body of `hypot2` (pinned `sqrt(x*x+y*y)` / repaired, overflow-safe):
  `eig   hyp=<h> eps=<f> fuel=<nat> A=<fl9>`        → `ok V=<fl9> d=<fl3> log=<nats> drops=<fl>` | `err=noconv l=<l>` | `err=mout l=<l>`
      (`drops` = the sub-diagonal entries replaced by 0.0, relative to the scaled matrix; newest first)
  `tred2 V=<fl9>`                                   → `V=<fl9> d=<fl3> e=<fl3> log=<nats>`
  `tql2  hyp=<h> eps=<f> fuel=<nat> V=<fl9> d=<fl3> e=<fl3>` → as `eig`
  `eigvv hyp=<h> eps=<f> big=<f> fuel=<nat> A=<fl9> ev=<fl3>` → `path=diag V= d=` | `path=iter <as eig>` | `path=closed d=<fl3>`
  `tdi   d=<fl3> P=<fl9>`                           → `<fl9>`                         (transform_diag_inv)
A list of the wrong length answers `bad-op`.
-/
namespace PysphVerif.Driver.C13
open PysphVerif.Wire PysphVerif.GaussJordan

def fl (kv : List (String × String)) (k : String) : Option (Array Float) :=
  ((lookup kv k) >>= parseList? parseFloatBits?).map List.toArray
def ql (kv : List (String × String)) (k : String) : Option (Array Rat) :=
  ((lookup kv k) >>= parseList? parseRat?).map List.toArray
def nat (kv : List (String × String)) (k : String) : Option Nat := (lookup kv k) >>= parseNat?

def showFl (a : Array Float) : String := showList showFloatBits a.toList
def showQl (a : Array Rat) : String := showList showRat a.toList

def showOutcome (o : Outcome Float) : String :=
  s!"ret={if o.singular then 1 else 0} res={showFl o.result} m={match o.m with | none => "-" | some m => showFl m}"

open PysphVerif.Eigen3 in
def fl9 (kv : List (String × String)) (k : String) : Option (Mat Float) := do
  let l ← (lookup kv k) >>= parseList? parseFloatBits?
  if l.length = 9 then pure (Mat.ofList 0 l) else none
open PysphVerif.Eigen3 in
def fl3 (kv : List (String × String)) (k : String) : Option (Vec Float) := do
  let l ← (lookup kv k) >>= parseList? parseFloatBits?
  if l.length = 3 then pure (Vec.ofList 0 l) else none

def showNats (l : List Nat) : String := showList toString l

open PysphVerif.Eigen3 in
def showErr : Err → String
  | .noConv l => s!"err=noconv l={l}"
  | .mOut l => s!"err=mout l={l}"

open PysphVerif.Eigen3 in
def showEig (r : Except Err (Out Float)) : String :=
  match r with
  | .error e => showErr e
  | .ok o => s!"ok V={showList showFloatBits (Mat.toList o.V)} d={showList showFloatBits (Vec.toList o.d)} log={showNats o.log} drops={showList showFloatBits (o.drops.map (fun x => x.1))}"

open PysphVerif.Eigen3 in
def hypOf (kv : List (String × String)) : Option (Float → Float → Float) :=
  match lookup kv "hyp" with
  | some "naive" => some (hypotNaive Float.sqrt)
  | some "safe" => some (hypotSafe Float.abs Float.sqrt)
  | _ => none

open PysphVerif.Eigen3 in
def handleEig (cmd : String) (kv : List (String × String)) : Option String :=
  if cmd = "eig" then do
    let hyp ← hypOf kv
    let eps ← (lookup kv "eps") >>= parseFloatBits?
    let fuel ← nat kv "fuel"
    let A ← fl9 kv "A"
    pure (showEig (eigenDecomposition Float.abs Float.sqrt hyp eps fuel A))
  else if cmd = "tred2" then do
    let V ← fl9 kv "V"
    let s := tred2 Float.abs Float.sqrt { V := V, d := Vec.ofFn (fun _ => 0), e := Vec.ofFn (fun _ => 0), log := [] }
    pure s!"V={showList showFloatBits (Mat.toList s.V)} d={showList showFloatBits (Vec.toList s.d)} e={showList showFloatBits (Vec.toList s.e)} log={showNats s.log}"
  else if cmd = "tql2" then do
    let hyp ← hypOf kv
    let eps ← (lookup kv "eps") >>= parseFloatBits?
    let fuel ← nat kv "fuel"
    let V ← fl9 kv "V"
    let d ← fl3 kv "d"
    let e ← fl3 kv "e"
    match tql2 Float.abs hyp eps fuel { V := V, d := d, e := e, log := [] } with
    | .error er => pure (showErr er)
    | .ok t => pure (showEig (.ok { V := t.V, d := t.d, log := t.log, drops := t.drops }))
  else if cmd = "eigvv" then do
    let hyp ← hypOf kv
    let eps ← (lookup kv "eps") >>= parseFloatBits?
    let big ← (lookup kv "big") >>= parseFloatBits?
    let fuel ← nat kv "fuel"
    let A ← fl9 kv "A"
    let ev ← fl3 kv "ev"
    match getEigenvalvec Float.abs Float.sqrt hyp eps big fuel A ev with
    | .diag o => pure s!"path=diag V={showList showFloatBits (Mat.toList o.V)} d={showList showFloatBits (Vec.toList o.d)}"
    | .iter r => pure s!"path=iter {showEig r}"
    | .closedForm ev => pure s!"path=closed d={showList showFloatBits (Vec.toList ev)}"
  else if cmd = "tdi" then do
    let d ← fl3 kv "d"
    let P ← fl9 kv "P"
    pure (showList showFloatBits (Mat.toList (transformDiagInv d P)))
  else none

def handle (line : String) : String :=
  match tokens line with
  | [] => "bad-op"
  | cmd :: rest =>
    let kv := kvs rest
    let r : Option String :=
      if cmd = "gj" ∨ cmd = "gjorig" then do
        let tol ← (lookup kv "tol") >>= parseFloatBits?
        let n ← nat kv "n"
        let nb ← nat kv "nb"
        let m ← fl kv "m"
        let res ← fl kv "r"
        if !sizesOk m n nb res then pure "error"
        else if cmd = "gj" then pure (showOutcome (gjSolve tol m n nb res))
        else pure (showOutcome (gjSolveOrig tol m n nb res))
      else if cmd = "gjq" then do
        let tol ← (lookup kv "tol") >>= parseRat?
        let n ← nat kv "n"
        let nb ← nat kv "nb"
        let m ← ql kv "m"
        let res ← ql kv "r"
        if !sizesOk m n nb res then pure "error"
        else
          let o := gjSolve tol m n nb res
          pure s!"ret={if o.singular then 1 else 0} res={showQl o.result}"
      else if cmd = "identity" then do
        let n ← nat kv "n"
        let a ← fl kv "a"
        if a.size < n * n then pure "error" else pure (showFl (identity a n))
      else if cmd = "dot" then do
        let n ← nat kv "n"
        let a ← fl kv "a"
        let b ← fl kv "b"
        if a.size < n ∨ b.size < n then pure "error" else pure (showFloatBits (dot a b n))
      else if cmd = "matmult" then do
        let n ← nat kv "n"
        let a ← fl kv "a"
        let b ← fl kv "b"
        let res ← fl kv "r"
        if a.size < n * n ∨ b.size < n * n ∨ res.size < n * n then pure "error"
        else pure (showFl (matMult a b n res))
      else if cmd = "matvec" then do
        let n ← nat kv "n"
        let a ← fl kv "a"
        let b ← fl kv "b"
        let res ← fl kv "r"
        if a.size < n * n ∨ b.size < n ∨ res.size < n then pure "error"
        else pure (showFl (matVecMult a b n res))
      else if cmd = "aug" then do
        let n ← nat kv "n"
        let na ← nat kv "na"
        let nmax ← nat kv "nmax"
        let A ← fl kv "A"
        let b ← fl kv "b"
        let res ← fl kv "r"
        if n > nmax ∨ (n > 0 ∧ A.size < nmax * (n - 1) + n) ∨ b.size < na * n ∨ res.size < (n + na) * n
        then pure "error"
        else pure (showFl (augmentedMatrix A b n na nmax res))
      else handleEig cmd kv
    r.getD "bad-op"

end PysphVerif.Driver.C13

def main : IO Unit := PysphVerif.Driver.loopPure PysphVerif.Driver.C13.handle
