import PysphVerif.Driver.Common
import PysphVerif.Model.Stepper
import PysphVerif.Model.StepperHist
import PysphVerif.Model.StepperSession
import PysphVerif.Gen.Timesteps
/-!
Line protocol for C04 (times are doubles, bit patterns).

  `run mode=<impl|lit> prog=<P> cb=<0|1> nev=<n> arrs=<A>|<A>|… steps=<t>:<dt>,<t>:<dt>,…`
     P  = `@<qualified class name>` (program from Gen/Timesteps.lean) or a wire
          program: statements joined by `;` — `I`, `S<k>`, `A<i>:<0|1>`, `D`,
          `P<k>:<expr>` with <expr> prefix, comma separated:
          `dt` `t` `lit:<num>:<den>` `add,a,b` `sub,a,b` `mul,a,b` `div,a,b` `neg,a`
     A  = `<name>:<nreal>:<nghost>:<methods>:<hooks>:<grow>` with methods/hooks
          `-` or `i`/`<k>` joined by `+`, grow `-` or `<m>~<n>` joined by `+`
          (the py hook of method m adds n real particles)
  answers the events separated by blanks (a call of a stage wrapper that does
  not exist / of an evaluator that does not exist ends the run with
  `x:AttributeError` / `x:IndexError` after the statements before it):
     `h:<name>:<m>:<t>:<dt>` `s:<name>:<m>:<i>:<t>:<dt>` `n` `e:<i>:<t>:<dt>` `d` `c:<t>:<dt>:<k>`
  `hist mode=<impl|lit> prog=<P> nev=<n> arrs=… py=<nnps id>:<callback id|->:<0|1> ops=<op>,<op>,…`
     a history of public calls on one integrator object (Model/StepperHist.lean):
     op = `S<t>:<dt>` (step) `N<k>` (set_nnps(object k)) `C<c>` / `C-`
          (set_post_stage_callback(object c / None)) `F0` / `F1` (set_fixed_h)
          `G<name>~<n>` (n real particles added to array name between steps)
     answers as `run`, with the object identities in the events:
     `n:<k>` `d:<k>` `c:<c>:<t>:<dt>:<stage>`
  `session members=<module>~<qualname>~<P>~<id of the rest of the module>|…`
     the classes compiled one after the other in a fresh process
     (Model/StepperSession.lean); answers `<wire program>|…`: the pasted body of
     the module each member ends up driving
  `table`   answers `<class>=<owner>=<wire program>` for every Gen entry
  `steppers` answers `<class>=<methods>=<hooks>` for every Gen stepper entry
-/
namespace PysphVerif.Driver.C04
open PysphVerif.Wire PysphVerif.Stepper PysphVerif.StepperHist PysphVerif.StepperSession

def parseMeth? (s : String) : Option Meth :=
  if s = "i" then some .initialize else (parseNat? s).map Meth.stage

def showMeth : Meth → String
  | .initialize => "i"
  | .stage k => toString k

def parseMeths? (s : String) : Option (List Meth) :=
  if s = "-" then some [] else (s.splitOn "+").mapM parseMeth?

def showMeths (l : List Meth) : String :=
  if l.isEmpty then "-" else "+".intercalate (l.map showMeth)

/-- prefix expression parser over a token list; returns the rest -/
def parseExprToks : Nat → List String → Option (Expr × List String)
  | 0, _ => none
  | _, [] => none
  | fuel + 1, tok :: rest =>
    if tok = "dt" then some (.dt, rest)
    else if tok = "t" then some (.t, rest)
    else if tok = "neg" then do
      let (a, r) ← parseExprToks fuel rest
      pure (.neg a, r)
    else if tok = "add" ∨ tok = "sub" ∨ tok = "mul" ∨ tok = "div" then do
      let (a, r1) ← parseExprToks fuel rest
      let (b, r2) ← parseExprToks fuel r1
      let e := if tok = "add" then Expr.add a b else if tok = "sub" then Expr.sub a b
               else if tok = "mul" then Expr.mul a b else Expr.div a b
      pure (e, r2)
    else
      match tok.splitOn ":" with
      | ["lit", n, d] => do
        let n ← parseInt? n
        let d ← parseNat? d
        if d = 0 then none else pure (.lit n d, rest)
      | _ => none

def parseExpr? (s : String) : Option Expr :=
  let toks := s.splitOn ","
  match parseExprToks (toks.length + 1) toks with
  | some (e, []) => some e
  | _ => none

def parseCmd? (s : String) : Option Cmd :=
  match s.toList with
  | ['I'] => some .initialize
  | ['D'] => some .updateDomain
  | 'S' :: r => (parseNat? (String.ofList r)).map Cmd.stage
  | 'A' :: r =>
    match (String.ofList r).splitOn ":" with
    | [i, u] => do
      let i ← parseNat? i
      let u ← if u = "1" then some true else if u = "0" then some false else none
      pure (.computeAccelerations i u)
    | _ => none
  | 'P' :: r =>
    match (String.ofList r).splitOn ":" with
    | k :: e => do
      let k ← parseNat? k
      let e ← parseExpr? (":".intercalate e)
      pure (.doPostStage e k)
    | _ => none
  | _ => none

def parseProgram? (s : String) : Option Program :=
  if s = "_" then some []
  else if s.startsWith "@" then
    ((Gen.Timesteps.programs.find? (fun x => "@" ++ x.1 == s)).map (·.2.2))
  else (s.splitOn ";").mapM parseCmd?

partial def showExpr : Expr → String
  | .dt => "dt"
  | .t => "t"
  | .lit n d => s!"lit:{n}:{d}"
  | .add a b => s!"add,{showExpr a},{showExpr b}"
  | .sub a b => s!"sub,{showExpr a},{showExpr b}"
  | .mul a b => s!"mul,{showExpr a},{showExpr b}"
  | .div a b => s!"div,{showExpr a},{showExpr b}"
  | .neg a => s!"neg,{showExpr a}"

def showCmd : Cmd → String
  | .initialize => "I"
  | .stage k => s!"S{k}"
  | .computeAccelerations i u => s!"A{i}:{if u then 1 else 0}"
  | .updateDomain => "D"
  | .doPostStage e k => s!"P{k}:{showExpr e}"

def showProgram (p : Program) : String :=
  if p.isEmpty then "_" else ";".intercalate (p.map showCmd)

structure ArrIn where
  cfg : ArrayCfg
  nreal : Nat
  nghost : Nat
  grow : List (Meth × Nat)

def parseGrow? (s : String) : Option (List (Meth × Nat)) :=
  if s = "-" then some [] else
  (s.splitOn "+").mapM (fun p => match p.splitOn "~" with
    | [m, n] => do
      let m ← parseMeth? m
      let n ← parseNat? n
      pure (m, n)
    | _ => none)

def parseArr? (s : String) : Option ArrIn :=
  match s.splitOn ":" with
  | [name, nr, ng, ms, hs, gr] => do
    if name.isEmpty then none
    let nr ← parseNat? nr
    let ng ← parseNat? ng
    let ms ← parseMeths? ms
    let hs ← parseMeths? hs
    let gr ← parseGrow? gr
    pure { cfg := { name := name, sig := { methods := ms, hooks := hs } },
           nreal := nr, nghost := ng, grow := gr }
  | _ => none

def parseStep? (s : String) : Option (Float × Float) :=
  match s.splitOn ":" with
  | [t, dt] => do
    let t ← parseFloatBits? t
    let dt ← parseFloatBits? dt
    pure (t, dt)
  | _ => none

def fb := showFloatBits

def showEvent : Event Float → String
  | .hook d m t dt => s!"h:{d}:{showMeth m}:{fb t}:{fb dt}"
  | .step d m i t dt => s!"s:{d}:{showMeth m}:{i}:{fb t}:{fb dt}"
  | .nnps => "n"
  | .eval i t dt => s!"e:{i}:{fb t}:{fb dt}"
  | .domain => "d"
  | .callback t dt k => s!"c:{fb t}:{fb dt}:{k}"

def growFn (arrs : List ArrIn) (d : String) (m : Meth) : Nat :=
  match arrs.find? (fun a => a.cfg.name == d) with
  | none => 0
  | some a => match a.grow.find? (fun g => g.1 == m) with
    | none => 0
    | some g => g.2

def handleRun (kv : List (String × String)) : Option String := do
  let mode ← lookup kv "mode"
  let prog ← (lookup kv "prog") >>= parseProgram?
  let cb ← lookup kv "cb"
  let cb ← if cb = "1" then some true else if cb = "0" then some false else none
  let nev ← (lookup kv "nev") >>= parseNat?
  let arrsS ← lookup kv "arrs"
  let arrs ← if arrsS = "_" then some [] else (arrsS.splitOn "|").mapM parseArr?
  let stepsS ← lookup kv "steps"
  let steps ← if stepsS = "_" then some [] else (stepsS.splitOn ",").mapM parseStep?
  let cfg : Cfg := { arrays := arrs.map (·.cfg), hasCallback := cb, nEvals := nev }
  let W := traceWorld (τ := Float) (growFn arrs)
  let s0 : TState Float := { events := [], sizes := arrs.map (fun a => (a.cfg.name, a.nreal, a.nghost)) }
  let A := Arith.float
  let showEvs (l : List (Event Float)) (tail : List String) : String :=
    let all := l.map showEvent ++ tail
    if all.isEmpty then "_" else " ".intercalate all
  if wellFormed cfg prog then
    let out ←
      if mode = "impl" then
        some (runR A W cfg prog steps ({ origT := 0.0, t := 0.0, dt := 0.0 }, s0)).2
      else if mode = "lit" then some (literalRun A W cfg prog steps s0)
      else none
    pure (showEvs out.events [])
  else
    -- `self.stage7()` on a class without that wrapper is an attribute lookup at
    -- run time: the statements before it have run when AttributeError is
    -- raised; `acceleration_evals[index]` raises IndexError after the
    -- neighbour refresh.  The first step aborts there, later steps never start.
    match steps with
    | [] => pure "_"
    | (t, dt) :: _ =>
      let pre := prog.takeWhile (cmdWellFormed cfg)
      let out ←
        if mode = "impl" then some (step A W cfg pre t dt s0)
        else if mode = "lit" then some (literalStep A W cfg pre t dt s0)
        else none
      let tail := match (prog.dropWhile (cmdWellFormed cfg)).head? with
        | some (.computeAccelerations _ true) => ["n", "x:IndexError"]
        | some (.computeAccelerations _ false) => ["x:IndexError"]
        | _ => ["x:AttributeError"]
      pure (showEvs out.events tail)

def showHEvent : HEvent Float → String
  | .hook d m t dt => s!"h:{d}:{showMeth m}:{fb t}:{fb dt}"
  | .step d m i t dt => s!"s:{d}:{showMeth m}:{i}:{fb t}:{fb dt}"
  | .nnps k => s!"n:{k}"
  | .eval i t dt => s!"e:{i}:{fb t}:{fb dt}"
  | .domain k => s!"d:{k}"
  | .callback c t dt k => s!"c:{c}:{fb t}:{fb dt}:{k}"

def parseOp? (s : String) : Option (Op Float) :=
  match s.toList with
  | 'S' :: r => (parseStep? (String.ofList r)).map (fun x => Op.step x.1 x.2)
  | 'N' :: r => (parseNat? (String.ofList r)).map Op.setNnps
  | ['C', '-'] => some (.setCallback none)
  | 'C' :: r => (parseNat? (String.ofList r)).map (fun c => Op.setCallback (some c))
  | ['F', '0'] => some (.setFixedH false)
  | ['F', '1'] => some (.setFixedH true)
  | 'G' :: r =>
    match (String.ofList r).splitOn "~" with
    | [d, n] => if d.isEmpty then none else (parseNat? n).map (Op.addParticles d)
    | _ => none
  | _ => none

def parsePy? (s : String) : Option PyRegs :=
  match s.splitOn ":" with
  | [k, c, f] => do
    let k ← parseNat? k
    let c ← if c = "-" then some none else (parseNat? c).map some
    let f ← if f = "1" then some true else if f = "0" then some false else none
    pure { nnps := k, callback := c, fixedH := f }
  | _ => none

def Op.isStep : Op Float → Bool
  | .step _ _ => true
  | _ => false

def handleHist (kv : List (String × String)) : Option String := do
  let mode ← lookup kv "mode"
  let prog ← (lookup kv "prog") >>= parseProgram?
  let nev ← (lookup kv "nev") >>= parseNat?
  let arrsS ← lookup kv "arrs"
  let arrs ← if arrsS = "_" then some [] else (arrsS.splitOn "|").mapM parseArr?
  let p0 ← (lookup kv "py") >>= parsePy?
  let opsS ← lookup kv "ops"
  let ops ← if opsS = "_" then some [] else (opsS.splitOn ",").mapM parseOp?
  -- `hasCallback` is decided by the attribute, see `cfgAt`
  let cfg : Cfg := { arrays := arrs.map (·.cfg), hasCallback := false, nEvals := nev }
  let H := htraceWorld (τ := Float) (growFn arrs)
  let s0 : HState Float := { events := [], sizes := arrs.map (fun a => (a.cfg.name, a.nreal, a.nghost)) }
  let A := Arith.float
  let r0 : Regs Float := { origT := 0.0, t := 0.0, dt := 0.0 }
  let showEvs (l : List (HEvent Float)) (tail : List String) : String :=
    let all := l.map showHEvent ++ tail
    if all.isEmpty then "_" else " ".intercalate all
  let run (prog : Program) (ops : List (Op Float)) : Option (HState Float) :=
    if mode = "impl" then some (runHist A H cfg prog ops { py := p0, regs := r0, world := s0 }).world
    else if mode = "lit" then some (literalHist A H cfg prog p0 ops s0)
    else none
  if wellFormed cfg prog then
    let out ← run prog ops
    pure (showEvs out.events [])
  else
    -- the first step aborts at the first statement that cannot run (see
    -- `handleRun`); the calls before it happen, nothing after it does
    let before := ops.takeWhile (fun o => !Op.isStep o)
    match (ops.dropWhile (fun o => !Op.isStep o)).head? with
    | none =>
      let out ← run prog before
      pure (showEvs out.events [])
    | some stepOp =>
      let pre := prog.takeWhile (cmdWellFormed cfg)
      let out ← run pre (before ++ [stepOp])
      let tail := match (prog.dropWhile (cmdWellFormed cfg)).head? with
        | some (.computeAccelerations _ true) => [s!"n:{(pyAfter p0 before).nnps}", "x:IndexError"]
        | some (.computeAccelerations _ false) => ["x:IndexError"]
        | _ => ["x:AttributeError"]
      pure (showEvs out.events tail)

/-- `<module>~<qualname>~<program>~<id of the rest of the rendered module>` -/
def parseMember? (s : String) : Option (IClass String) :=
  match s.splitOn "~" with
  | [m, q, p, r] => do
    let prog ← parseProgram? p
    if m.isEmpty || q.isEmpty || r.isEmpty then none
    else pure { modName := m, qualName := q, ownText := prog, rest := r }
  | _ => none

/-- the digest under which a built module is found: the whole text -/
def textDigest (g : GenText String) : String := showProgram g.body ++ "#" ++ g.rest

/-- `session members=<member>|<member>|…`: the classes compiled one after the
other in a fresh process; answers the program of the module each one gets -/
def handleSession (kv : List (String × String)) : Option String := do
  let ms ← lookup kv "members"
  let cs ← (ms.splitOn "|").mapM parseMember?
  let out := compileSession textDigest [] cs
  pure ("|".intercalate (out.map (fun g => showProgram g.body)))

def handle (line : String) : String :=
  match tokens line with
  | "run" :: rest => (handleRun (kvs rest)).getD "bad-op"
  | "hist" :: rest => (handleHist (kvs rest)).getD "bad-op"
  | "session" :: rest => (handleSession (kvs rest)).getD "bad-op"
  | ["table"] =>
    " ".intercalate (Gen.Timesteps.programs.map (fun x => s!"{x.1}={x.2.1}={showProgram x.2.2}"))
  | ["steppers"] =>
    " ".intercalate (Gen.Timesteps.steppers.map
      (fun x => s!"{x.1}={showMeths x.2.methods}={showMeths x.2.hooks}"))
  | _ => "bad-op"

end PysphVerif.Driver.C04

def main : IO Unit := PysphVerif.Driver.loopPure PysphVerif.Driver.C04.handle
