import PysphVerif.Driver.Common
import PysphVerif.Gen.Kernels
import PysphVerif.Gen.KernelWrapper
/-!
Line protocol for C08 (exact rationals):

  `list`                                   → `CubicSpline_1,CubicSpline_2,…`
  `eval k=<Name>_<dim> q=<rat>`            → `w=<rat> dw=<rat> dw0=<rat> gh=<rat> gauss=<0|1> facq=<rat>
                                              pihalf=<int> hpw=<n> hpd=<n> hpg=<n> rmin=<rat> radius=<rat>`
       the polynomials of the piece selected by `q`, evaluated exactly at `q`
  `grad k=… pos=<0|1> wdash=<rat> h=<rat> rij=<rat> x=<rat>,<rat>,<rat>` → `g=<rat>,<rat>,<rat>`
       the generated gradient monomials (`grad` when `rij > rmin`, else `grad0`)
  `checks k=…`                             → the table checks `chain=… support=… …` (logged as evidence)

the wrapper template (`Gen/KernelWrapper.lean`, run on IEEE doubles `x<16 hex>`):

  `wcode`                                  → the generated `Code`, printed
  `wargs xi=<3 doubles> xj=<3 doubles>`    → `kx=<3> kr=<1> gx=<3> gr=<1>`
       the `(xij, rij)` the generated `kernel` / `gradient` bodies pass to the kernel object
       (the model run with probing kernels on a zeroed wrapper)
  `whist calls=<c>;<c>;… tab=<e>;<e>;…`     → `now=<l>;<l>;… end=<l>;<l>;…`
       `c = g|k:<xi>:<xj>:<h>` one call on ONE wrapper (zeroed scratch at the start),
       `e = <xij>:<rij>:<h>:<w>:<g>` the kernel object as a finite table (value `w` and gradient `g`
       at `(xij, rij, h)`, matched by bit pattern; anything else is NaN);
       `now` = every result as read at its return, `end` = every result as read after the last call
-/
namespace PysphVerif.Driver.C08
open PysphVerif.Wire PysphVerif.Kernel PysphVerif.Poly PysphVerif.Gen.Kernels

def tableName (K : KTable) : String := K.name ++ "_" ++ toString K.dim

def findTable (k : String) : Option KTable := all.find? (fun K => tableName K == k)

def b01 (b : Bool) : String := if b then "1" else "0"

/-! ### the wrapper model on doubles -/
open PysphVerif.KernelWrapper in
def fOps (kernel : V3 Float → Float → Float → Float)
    (gradient : V3 Float → Float → Float → V3 Float → V3 Float) : Ops Float :=
  { sub := (· - ·), add := (· + ·), mul := (· * ·), sqrt := Float.sqrt,
    kernel := kernel, gradient := gradient, undef := 0.0 / 0.0 }

open PysphVerif.KernelWrapper in
def parseV3? (s : String) : Option (V3 Float) :=
  match parseList? parseFloatBits? s with
  | some [a, b, c] => some ⟨a, b, c⟩
  | _ => none

open PysphVerif.KernelWrapper in
def zeroSt : St Float := ⟨⟨0, 0, 0⟩, ⟨0, 0, 0⟩⟩

def showFl (l : List Float) : String := showList showFloatBits l

open PysphVerif.KernelWrapper in
def wargs (xi xj : V3 Float) : String :=
  let code := Gen.KernelWrapper.code
  let one (o : Ops Float) (g : Bool) : List Float :=
    ((observe o code zeroSt [⟨g, xi, xj, 1.0⟩]).headD [])
  let gid : V3 Float → Float → Float → V3 Float → V3 Float := fun x _ _ _ => x
  let kx := [one (fOps (fun x _ _ => x.x) gid) false, one (fOps (fun x _ _ => x.y) gid) false,
             one (fOps (fun x _ _ => x.z) gid) false].flatten
  let kr := one (fOps (fun _ r _ => r) gid) false
  let gx := one (fOps (fun _ r _ => r) gid) true
  let gr := (one (fOps (fun _ r _ => r) (fun _ r _ _ => ⟨r, r, r⟩)) true).take 1
  s!"kx={showFl kx} kr={showFl kr} gx={showFl gx} gr={showFl gr}"

open PysphVerif.KernelWrapper in
structure Entry where
  x : V3 Float
  r : Float
  h : Float
  w : Float
  g : V3 Float

open PysphVerif.KernelWrapper in
def Entry.hit (e : Entry) (x : V3 Float) (r h : Float) : Bool :=
  e.x.x.toBits == x.x.toBits && e.x.y.toBits == x.y.toBits && e.x.z.toBits == x.z.toBits &&
  e.r.toBits == r.toBits && e.h.toBits == h.toBits

open PysphVerif.KernelWrapper in
def parseEntry? (s : String) : Option Entry :=
  match s.splitOn ":" with
  | [x, r, h, w, g] => do
    pure ⟨← parseV3? x, ← parseFloatBits? r, ← parseFloatBits? h, ← parseFloatBits? w, ← parseV3? g⟩
  | _ => none

open PysphVerif.KernelWrapper in
def parseCall? (s : String) : Option (Call Float) :=
  match s.splitOn ":" with
  | [k, xi, xj, h] =>
    if k ≠ "g" ∧ k ≠ "k" then none else do
    pure ⟨k == "g", ← parseV3? xi, ← parseV3? xj, ← parseFloatBits? h⟩
  | _ => none

open PysphVerif.KernelWrapper in
def whist (cs : List (Call Float)) (tab : List Entry) : String :=
  let nan : Float := 0.0 / 0.0
  let o := fOps (fun x r h => ((tab.find? (·.hit x r h)).map (·.w)).getD nan)
    (fun x r h _ => ((tab.find? (·.hit x r h)).map (·.g)).getD ⟨nan, nan, nan⟩)
  let code := Gen.KernelWrapper.code
  let sh (ls : List (List Float)) : String := if ls.isEmpty then "_" else ";".intercalate (ls.map showFl)
  s!"now={sh (observeNow o code zeroSt cs)} end={sh (observe o code zeroSt cs)}"

def handle (line : String) : String :=
  match tokens line with
  | ["list"] => ",".intercalate (all.map tableName)
  | ["wcode"] => ((toString (repr Gen.KernelWrapper.code)).replace "\n" " ")
  | "wargs" :: rest =>
    let kv := kvs rest
    match (lookup kv "xi") >>= parseV3?, (lookup kv "xj") >>= parseV3? with
    | some xi, some xj => wargs xi xj
    | _, _ => "bad-op"
  | "whist" :: rest =>
    let kv := kvs rest
    match (lookup kv "calls").bind (fun s => (s.splitOn ";").mapM parseCall?),
          (lookup kv "tab").bind (fun s => (s.splitOn ";").mapM parseEntry?) with
    | some cs, some tab => whist cs tab
    | _, _ => "bad-op"
  | cmd :: rest =>
    let kv := kvs rest
    match (lookup kv "k") >>= findTable with
    | none => "bad-op"
    | some K =>
      if cmd = "eval" then
        match (lookup kv "q") >>= parseRat? with
        | none => "bad-op"
        | some q =>
          if q < 0 then "bad-op" else
          let p := K.pieceAt q
          s!"w={showRat (eval p.w q)} dw={showRat (eval p.dw q)} dw0={showRat (eval p.dw0 q)} gh={showRat (eval p.gh q)} gauss={b01 K.gauss} facq={showRat K.facQ} pihalf={K.piHalf} hpw={K.hpowW} hpd={K.hpowDw} hpg={K.hpowGh} rmin={showRat K.rmin} radius={showRat K.radius}"
      else if cmd = "grad" then
        match lookup kv "pos", (lookup kv "wdash") >>= parseRat?, (lookup kv "h") >>= parseRat?,
              (lookup kv "rij") >>= parseRat?, (lookup kv "x") >>= parseList? parseRat? with
        | some pos, some wd, some h, some rij, some x =>
          if x.length ≠ 3 ∨ (pos ≠ "0" ∧ pos ≠ "1") then "bad-op" else
          let ms := if pos = "1" then K.grad else K.grad0
          if ms.length ≠ 3 then "bad-op" else
          "g=" ++ showList showRat (ms.map (fun m => m.eval wd h rij x))
        | _, _, _, _, _ => "bad-op"
      else if cmd = "checks" then
        s!"chain={b01 (chainOk K)} support={b01 (supportOk K)} deriv={b01 (derivOk K)} gradh={b01 (gradhOk K)} c1={b01 (c1Ok K)} sign={b01 (signOk K)} origin={b01 (originOk K)} grad={b01 (gradOk K)} norm={b01 (normOk K)} gaussfac={b01 (gaussFacOk K)}"
      else "bad-op"
  | _ => "bad-op"

end PysphVerif.Driver.C08

def main : IO Unit := PysphVerif.Driver.loopPure PysphVerif.Driver.C08.handle
