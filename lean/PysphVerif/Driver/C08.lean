import PysphVerif.Driver.Common
import PysphVerif.Gen.Kernels
/-!
Line protocol for C08 (exact rationals):

  `list`                                   → `CubicSpline_1,CubicSpline_2,…`
  `eval k=<Name>_<dim> q=<rat>`            → `w=<rat> dw=<rat> dw0=<rat> gh=<rat> gauss=<0|1> facq=<rat>
                                              pihalf=<int> hpw=<n> hpd=<n> hpg=<n> rmin=<rat> radius=<rat>`
       the polynomials of the piece selected by `q`, evaluated exactly at `q`
  `grad k=… pos=<0|1> wdash=<rat> h=<rat> rij=<rat> x=<rat>,<rat>,<rat>` → `g=<rat>,<rat>,<rat>`
       the generated gradient monomials (`grad` when `rij > rmin`, else `grad0`)
  `checks k=…`                             → the table checks `chain=… support=… …` (logged as evidence)
-/
namespace PysphVerif.Driver.C08
open PysphVerif.Wire PysphVerif.Kernel PysphVerif.Poly PysphVerif.Gen.Kernels

def tableName (K : KTable) : String := K.name ++ "_" ++ toString K.dim

def findTable (k : String) : Option KTable := all.find? (fun K => tableName K == k)

def b01 (b : Bool) : String := if b then "1" else "0"

def handle (line : String) : String :=
  match tokens line with
  | ["list"] => ",".intercalate (all.map tableName)
  | cmd :: rest =>
    let kv := kvs rest
    match (lookup kv "k") >>= findTable with
    | none => "bad-op"
    | some K =>
      if cmd = "eval" then
        match (lookup kv "q") >>= parseRat? with
        | none => "bad-op"
        | some q =>
          if q < 0 then "bad-op" else
          let p := K.pieceAt q
          s!"w={showRat (eval p.w q)} dw={showRat (eval p.dw q)} dw0={showRat (eval p.dw0 q)} gh={showRat (eval p.gh q)} gauss={b01 K.gauss} facq={showRat K.facQ} pihalf={K.piHalf} hpw={K.hpowW} hpd={K.hpowDw} hpg={K.hpowGh} rmin={showRat K.rmin} radius={showRat K.radius}"
      else if cmd = "grad" then
        match lookup kv "pos", (lookup kv "wdash") >>= parseRat?, (lookup kv "h") >>= parseRat?,
              (lookup kv "rij") >>= parseRat?, (lookup kv "x") >>= parseList? parseRat? with
        | some pos, some wd, some h, some rij, some x =>
          if x.length ≠ 3 ∨ (pos ≠ "0" ∧ pos ≠ "1") then "bad-op" else
          let ms := if pos = "1" then K.grad else K.grad0
          if ms.length ≠ 3 then "bad-op" else
          "g=" ++ showList showRat (ms.map (fun m => m.eval wd h rij x))
        | _, _, _, _, _ => "bad-op"
      else if cmd = "checks" then
        s!"chain={b01 (chainOk K)} support={b01 (supportOk K)} deriv={b01 (derivOk K)} gradh={b01 (gradhOk K)} c1={b01 (c1Ok K)} sign={b01 (signOk K)} origin={b01 (originOk K)} grad={b01 (gradOk K)} norm={b01 (normOk K)} gaussfac={b01 (gaussFacOk K)}"
      else "bad-op"
  | _ => "bad-op"

end PysphVerif.Driver.C08

def main : IO Unit := PysphVerif.Driver.loopPure PysphVerif.Driver.C08.handle
