import PysphVerif.Driver.Common
import PysphVerif.Model.Codegen
import PysphVerif.Model.CodegenOpts
import PysphVerif.Model.CodegenIter
import PysphVerif.Gen.Precomp
/-!
Line protocol for C02 (names are identifiers, lists comma separated, `_` empty).

* `sort keys=<names> [T=real | E=<name>:<sym>;<sym>… …]`
    → `ok <names>` | `keyerror` | `diverges`          (`sort_precomputed`)
* `setup args=<names> [T=real | E=…]`
    → `closure=<sorted names> <sort result>`           (`Group._setup_precomputed`)
* `wiring P name=<pa> props=<p>:<Class>:<ctype>;… … Q id=<n> name=<Cls> dest=<pa>
    sources=<names> init=<args|-> ipair=… loop=… lall=… post=… …`
    → canonical text of pointer set-up, declarations and scratch vectors
* `callsites G uid=<n> kind=leaf|parent|sub name=<label> cond=<0|1> pre=<0|1> post=<0|1> …`
    (the groups in order, the `sub`s of a `parent` right after it; `uid` = object identity)
    → the call sites of the generated `compute` in text order, each
      `<cond|pre|post>@<group the text belongs to>><group referred to>` with groups written
      `i` / `i.k` (`?` = KeyError), `_` if there is none
* `limits real=<0|1> start=<n:K|r:NAME> stop=<all|n:K|r:NAME> dests=<names>`
    → per destination `<dest>:<start>..<stop>` with the emitted right-hand sides of
      `D_START_IDX` / `NP_DEST`: `lit:K`, `first:<dest>.<prop>`, `size:<dest>.<0|1>`
* `wrappers I cls=<Class> attrs=<attr>:<tag>;… I …`   (the equation objects in order; tags
    bool|int|float|str|numlist|list|tuple|object)
    → `last=<Class>{attr:ctype;…}|… merge=…`: the attribute declarations of the wrapper classes,
      typed from the last instance of each class name / from the widened representative
* `iter kind=leaf|parent eqs=<var>:<0|1>,…[;<var>:<0|1>,…]`  (`;` separates sub-groups; the bit:
    `converged` is in the `__dict__` of the object's own class)
    → `polled=<names> cond=<text of get_converged_condition, blanks written ~>`
* `sweeps min=<n> max=<n> conv=<bits>`  (bit k: value of the break test's factor after sweep k,
    false beyond the list) → number of sweeps of the generated loop | `diverges`
* `binding names=<names> A id=<n> props=<names> consts=<names> A …`  (the array first bound,
    then those passed to `update_particle_arrays`, in order)
    → per name the id of the array its wrapper attribute refers into (`-`: never bound)
* `evalblock which=code|doc|conv sym=<S> d=<p>:<f>;… s=<p>:<f>;… st=<S>:<k>:<f>;…`
    → the values the block leaves in `S` (three components for vectors), at
      Float, with the stand-in functions documented in `fnStub`/`fnOutStub`
* `tables` → names of codeTable / docTable / convTable / defaults
Anything else answers `bad-op`.
-/
namespace PysphVerif.Driver.C02
open PysphVerif.Wire PysphVerif.Codegen

def names? (s : String) : Option (List String) :=
  if s = "_" then some [] else some (s.splitOn ",")

def semi (s : String) : List String :=
  if s = "_" then [] else s.splitOn ";"

/-- `E=name:sym;sym` -/
def parseEntry (tok : String) : Option (String × List String) :=
  match tok.splitOn ":" with
  | [n, syms] => some (n, semi syms)
  | _ => none

/-- the table of a line: `T=real` or the `E=` tokens -/
def parseTable (toks : List String) : Option (Table String) :=
  if toks.contains "T=real" then some PysphVerif.Gen.Precomp.symbolsTable
  else (toks.filter (·.startsWith "E=")).mapM (fun t => parseEntry (t.drop 2).toString)

def showSort : SortRes String → String
  | .keyError => "keyerror"
  | .diverges => "diverges"
  | .ok out => "ok " ++ showList id out

def showAssign (a : Assign) : String :=
  a.lhs ++ "<" ++ (match a.side with | .dst => "dst." | .src => "src.") ++ a.prop

def showSrcBlock (b : SrcBlock) : String :=
  "S " ++ b.source ++ " assigns=" ++ showList showAssign b.assigns ++
  " eqs=" ++ showList (·.name) b.eqs ++ " precomp=[" ++ showSort b.precomp ++ "]"

def showDestBlock (b : DestBlock) : String :=
  "D " ++ b.dest ++ " assigns=" ++ showList showAssign b.assigns ++
  " nosrc=" ++ showList (·.name) b.noSrc ++ " all=" ++ showList (·.name) b.allEqs ++
  " " ++ " ".intercalate (b.srcs.map showSrcBlock)

def optArgs (s : String) : Option (Option (List String)) :=
  if s = "-" then some none else (names? s).map some

def parseEqn (toks : List String) : Option Eqn := do
  let kv := kvs toks
  let uid ← (lookup kv "id") >>= parseNat?
  let name ← lookup kv "name"
  let dest ← lookup kv "dest"
  let sources ← (lookup kv "sources") >>= names?
  let i ← (lookup kv "init") >>= optArgs
  let ip ← (lookup kv "ipair") >>= optArgs
  let l ← (lookup kv "loop") >>= optArgs
  let la ← (lookup kv "lall") >>= optArgs
  let p ← (lookup kv "post") >>= optArgs
  pure { uid := uid, name := name, dest := dest, sources := sources, mInit := i, mInitPair := ip,
         mLoop := l, mLoopAll := la, mPostLoop := p }

def parseProp (s : String) : Option (String × String × String) :=
  match s.splitOn ":" with
  | [p, cls, cty] => some (p, cls, cty.replace "~" " ")
  | _ => none

def parsePArr (toks : List String) : Option PArr := do
  let kv := kvs toks
  let name ← lookup kv "name"
  let props ← (semi (← lookup kv "props")).mapM parseProp
  pure { name := name, props := props }

/-- split the token list at the markers `P` and `Q`; returns (kind, tokens) -/
def groups (toks : List String) : List (String × List String) :=
  let r := toks.foldl (fun (acc : List (String × List String)) t =>
    if t = "P" ∨ t = "Q" then (t, []) :: acc else
    match acc with
    | [] => []
    | (k, g) :: gs => (k, t :: g) :: gs) []
  r.reverse.map (fun g => (g.1, g.2.reverse))

def handleWiring (toks : List String) : String :=
  let gs := groups toks
  match (gs.filter (·.1 = "P")).mapM (fun g => parsePArr g.2),
        (gs.filter (·.1 = "Q")).mapM (fun g => parseEqn g.2) with
  | some pas, some eqs =>
    let t := PysphVerif.Gen.Precomp.symbolsTable
    let w := wiring t eqs
    let decls := allArrayDecls t pas eqs
    let scr := scratchDecls t PysphVerif.Gen.Precomp.defaults eqs
    " | ".intercalate (w.map showDestBlock) ++
    " | decl " ++ showList (fun d => d.1 ++ ":" ++ d.2.replace " " "~") decls ++
    " | scratch " ++ showList (fun d => d.1 ++ ":" ++ toString d.2) scr
  | _, _ => "bad-op"

/-! call sites of the group callables -/

def parseBit? (s : String) : Option Bool :=
  if s = "1" then some true else if s = "0" then some false else none

/-- one `G` token group: (kind, node) -/
def parseGNode (toks : List String) : Option (String × GNode) := do
  let kv := kvs toks
  let uid ← (lookup kv "uid") >>= parseNat?
  let kind ← lookup kv "kind"
  let name ← lookup kv "name"
  let c ← (lookup kv "cond") >>= parseBit?
  let pr ← (lookup kv "pre") >>= parseBit?
  let po ← (lookup kv "post") >>= parseBit?
  if kind = "leaf" ∨ kind = "parent" ∨ kind = "sub" then
    pure (kind, { uid := uid, name := name, hasCond := c, hasPre := pr, hasPost := po })
  else none

/-- assemble the tree: a `sub` belongs to the last `parent` (which must exist); a `parent`
needs at least one `sub` -/
def addNode (acc : Option (List (Bool × GTop))) (e : String × GNode) : Option (List (Bool × GTop)) :=
  match acc with
  | none => none
  | some ts =>
    if e.1 = "leaf" then some (ts ++ [(false, ⟨e.2, []⟩)])
    else if e.1 = "parent" then some (ts ++ [(true, ⟨e.2, []⟩)])
    else
      match ts.reverse with
      | (true, t) :: before => some (before.reverse ++ [(true, { t with subs := t.subs ++ [e.2] })])
      | _ => none

def buildTops (nodes : List (String × GNode)) : Option (List GTop) :=
  match nodes.foldl addNode (some []) with
  | none => none
  | some ts =>
    if ts.all (fun t => t.1 == !t.2.subs.isEmpty) then some (ts.map (·.2)) else none

def showGPos (p : GPos) : String :=
  match p.sub with
  | none => toString p.top
  | some k => s!"{p.top}.{k}"

def showCb : Cb → String
  | .cond => "cond" | .pre => "pre" | .post => "post"

def showSite (s : CallSite) : String :=
  showCb s.kind ++ "@" ++ showGPos s.site ++ ">" ++
    (match s.target with | some p => showGPos p | none => "?")

def splitG (toks : List String) : List (List String) :=
  let r := toks.foldl (fun (acc : List (List String)) t =>
    if t = "G" then [] :: acc else
    match acc with
    | [] => []
    | g :: gs => (t :: g) :: gs) []
  r.reverse.map List.reverse

def handleCallSites (toks : List String) : String :=
  if toks.head? ≠ some "G" then "bad-op" else
  match (splitG toks).mapM parseGNode with
  | none => "bad-op"
  | some nodes =>
    match buildTops nodes with
    | none => "bad-op"
    | some gs => showList showSite (callSites gs)

/-! destination loop limits -/

def parseStart? (s : String) : Option StartIdx :=
  if s.startsWith "n:" then (parseInt? (s.drop 2).toString).map StartIdx.num
  else if s.startsWith "r:" ∧ s.length > 2 then some (.ref (s.drop 2).toString)
  else none

def parseStop? (s : String) : Option StopIdx :=
  if s = "all" then some .all
  else if s.startsWith "n:" then (parseInt? (s.drop 2).toString).map StopIdx.num
  else if s.startsWith "r:" ∧ s.length > 2 then some (.ref (s.drop 2).toString)
  else none

def showLim : LimExpr → String
  | .lit n => "lit:" ++ toString n
  | .first d p => "first:" ++ d ++ "." ++ p
  | .size d r => "size:" ++ d ++ "." ++ (if r then "1" else "0")

def handleLimits (toks : List String) : String :=
  let kv := kvs toks
  match (lookup kv "real") >>= parseBit?, (lookup kv "start") >>= parseStart?,
        (lookup kv "stop") >>= parseStop?, (lookup kv "dests") >>= names? with
  | some real, some start, some stop, some dests =>
    if dests.isEmpty then "bad-op" else
    " ".intercalate (dests.map (fun d =>
      d ++ ":" ++ showLim (startExpr d start) ++ ".." ++ showLim (stopExpr d real stop)))
  | _, _, _, _ => "bad-op"

/-! attribute declarations of the wrapper classes -/

def parseTag? (s : String) : Option PyTag :=
  if s = "bool" then some .bool else if s = "int" then some .int
  else if s = "float" then some .float else if s = "str" then some .str
  else if s = "numlist" then some .numlist else if s = "list" then some .list
  else if s = "tuple" then some .tuple else if s = "object" then some .object else none

def parseAttr? (s : String) : Option (String × PyTag) :=
  match s.splitOn ":" with
  | [a, t] => (parseTag? t).map (fun t => (a, t))
  | _ => none

def parseInst (toks : List String) : Option Inst := do
  let kv := kvs toks
  let cls ← lookup kv "cls"
  let attrs ← (semi (← lookup kv "attrs")).mapM parseAttr?
  pure { cls := cls, attrs := attrs }

def splitI (toks : List String) : List (List String) :=
  let r := toks.foldl (fun (acc : List (List String)) t =>
    if t = "I" then [] :: acc else
    match acc with
    | [] => []
    | g :: gs => (t :: g) :: gs) []
  r.reverse.map List.reverse

def showDecls (w : List (Name × List (Name × Name))) : String :=
  if w.isEmpty then "_" else
  "|".intercalate (w.map (fun c => c.1 ++ "{" ++
    ";".intercalate (c.2.map (fun d => d.1 ++ ":" ++ d.2)) ++ "}"))

def handleWrappers (toks : List String) : String :=
  if toks.head? ≠ some "I" then "bad-op" else
  match (splitI toks).mapM parseInst with
  | none => "bad-op"
  | some insts =>
    "last=" ++ showDecls (wrapperDecls declsLast insts) ++
    " merge=" ++ showDecls (wrapperDecls declsMerge insts)

/-! stand-in functions for block evaluation (mirrored by the harness) -/

instance : NatCast Float := ⟨Nat.toFloat⟩

def fnSeed (f : String) : Float :=
  if f = "KERNEL" then 1.0 else if f = "DWDQ" then 2.0 else if f = "GRADH" then 3.0
  else if f = "GRADIENT" then 4.0 else 7.0

/-- `sqrt` is the IEEE square root; any other `f`: seed + Σ (i+2)·argᵢ, left to right -/
def fnStub (f : String) (args : List Float) : Float :=
  if f = "sqrt" then (args.headD 0.0).sqrt else
  (args.foldl (fun (acc : Float × Float) a => (acc.1 + acc.2 * a, acc.2 + 1.0))
    (fnSeed f, 2.0)).1

def fnOutStub (f : String) (args : List Float) (k : Nat) : Float :=
  fnStub f args * (k.toFloat + 2.0) + k.toFloat

def parseKF (s : String) : Option (String × Float) :=
  match s.splitOn ":" with
  | [p, v] => (parseFloatBits? v).map (fun x => (p, x))
  | _ => none

def parseSKF (s : String) : Option (String × Nat × Float) :=
  match s.splitOn ":" with
  | [p, k, v] => do
      let k ← parseNat? k
      let x ← parseFloatBits? v
      pure (p, k, x)
  | _ => none

def handleEval (toks : List String) : String :=
  let kv := kvs toks
  match lookup kv "which", lookup kv "sym", (lookup kv "d").map semi, (lookup kv "s").map semi,
        (lookup kv "st").map semi with
  | some which, some sym, some d, some s, some st =>
    match d.mapM parseKF, s.mapM parseKF, st.mapM parseSKF with
    | some dl, some sl, some stl =>
      let tab :=
        if which = "code" then some PysphVerif.Gen.Precomp.codeTable
        else if which = "doc" then some PysphVerif.Gen.Precomp.docTable
        else if which = "conv" then some PysphVerif.Gen.Precomp.convTable
        else none
      match tab.bind (fun t => t.lookup sym) with
      | none => "bad-op"
      | some blk =>
        let look (l : List (String × Float)) (p : String) : Float :=
          ((l.find? (·.1 = p)).map (·.2)).getD (0.0 / 0.0)
        let env : Env Float := { d := look dl, s := look sl, fn := fnStub, fnOut := fnOutStub }
        let st0 : Store Float := fun n k =>
          ((stl.find? (fun e => e.1 = n ∧ e.2.1 = k)).map (·.2.2)).getD (0.0 / 0.0)
        let st1 := evalBlock env st0 blk
        let n := ((PysphVerif.Gen.Precomp.defaults.find? (·.1 = sym)).map (·.2)).getD 0
        if n = 0 then showFloatBits (st1 sym 0)
        else showList showFloatBits ((List.range n).map (st1 sym))
    | _, _, _ => "bad-op"
  | _, _, _, _, _ => "bad-op"

/-! iterated groups, wrapper binding -/

def parseConvEq? (s : String) : Option ConvEq :=
  match s.splitOn ":" with
  | [v, b] => if v = "" then none else (parseBit? b).map (fun o => ⟨v, o⟩)
  | _ => none

def parseConvEqs? (s : String) : Option (List ConvEq) :=
  if s = "_" then some [] else (s.splitOn ",").mapM parseConvEq?

def handleIter (toks : List String) : String :=
  let kv := kvs toks
  match lookup kv "kind", lookup kv "eqs" with
  | some kind, some eqs =>
    let g? : Option IterGroup :=
      if kind = "leaf" then (parseConvEqs? eqs).map .leaf
      else if kind = "parent" then ((eqs.splitOn ";").mapM parseConvEqs?).map .parent
      else none
    (match g? with
     | some g => "polled=" ++ showList id (polled g) ++ " cond=" ++
         (convergedCondition g).replace " " "~"
     | none => "bad-op")
  | _, _ => "bad-op"

def parseBits? (s : String) : Option (List Bool) :=
  if s = "_" then some [] else s.toList.mapM (fun c => parseBit? c.toString)

def handleSweeps (toks : List String) : String :=
  let kv := kvs toks
  match (lookup kv "min") >>= String.toNat?, (lookup kv "max") >>= String.toNat?,
        (lookup kv "conv") >>= parseBits? with
  | some mn, some mx, some bits =>
    (match sweeps mn mx (fun k => if k = 0 then false else (bits.getD (k - 1) false)) with
     | some k => toString k
     | none => "diverges")
  | _, _, _ => "bad-op"

def splitOnTok (toks : List String) (sep : String) : List (List String) :=
  (toks.foldl (fun (acc : List (List String)) t =>
    if t = sep then [] :: acc
    else match acc with
      | cur :: rest => (cur ++ [t]) :: rest
      | [] => []) []).reverse

def parsePArrObj? (toks : List String) : Option PArrObj :=
  let kv := kvs toks
  match (lookup kv "id") >>= String.toNat?, (lookup kv "props") >>= names?,
        (lookup kv "consts") >>= names? with
  | some i, some p, some c => some ⟨i, p, c⟩
  | _, _, _ => none

def handleBinding (toks : List String) : String :=
  match toks with
  | nm :: "A" :: rest =>
    (match (lookup (kvs [nm]) "names") >>= names?, (splitOnTok ("A" :: rest) "A").mapM parsePArrObj? with
     | some names, some (first :: later) =>
       let w := rebindHistory first later
       showList (fun n => n ++ ":" ++ (match w n with | some i => toString i | none => "-")) names
     | _, _ => "bad-op")
  | _ => "bad-op"

def handle (line : String) : String :=
  match tokens line with
  | "iter" :: rest => handleIter rest
  | "sweeps" :: rest => handleSweeps rest
  | "binding" :: rest => handleBinding rest
  | "sort" :: rest =>
    (match (lookup (kvs rest) "keys") >>= names?, parseTable rest with
     | some keys, some t => showSort (sortPrecomputed strLe t keys)
     | _, _ => "bad-op")
  | "setup" :: rest =>
    (match (lookup (kvs rest) "args") >>= names?, parseTable rest with
     | some args, some t =>
       "closure=" ++ showList id (sortDedup (closure t args)) ++ " " ++
         showSort (setupPrecomputed strLe t args)
     | _, _ => "bad-op")
  | "wiring" :: rest => handleWiring rest
  | "callsites" :: rest => handleCallSites rest
  | "limits" :: rest => handleLimits rest
  | "wrappers" :: rest => handleWrappers rest
  | "evalblock" :: rest => handleEval rest
  | ["tables"] =>
    let ks (t : List (String × Block)) := showList id (t.map (·.1))
    "code=" ++ ks PysphVerif.Gen.Precomp.codeTable ++ " doc=" ++ ks PysphVerif.Gen.Precomp.docTable ++
    " conv=" ++ ks PysphVerif.Gen.Precomp.convTable ++ " defaults=" ++
    showList (fun d => d.1 ++ ":" ++ toString d.2) PysphVerif.Gen.Precomp.defaults
  | _ => "bad-op"

end PysphVerif.Driver.C02

def main : IO Unit := PysphVerif.Driver.loopPure PysphVerif.Driver.C02.handle
