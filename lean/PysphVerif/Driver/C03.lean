import PysphVerif.Driver.Common
import PysphVerif.Model.Schedule
/-!
Line protocol for C03 (stateful: a case is declared line by line, then run).

```
new arrays=<A> epochs=<E> fuel=<F> flat=<0|1>
top kind=leaf|parent real=<0|1> start=n<k>|k<name> stop=-|n<k>|k<name> iter=<0|1> min=<n> max=<n> cond=<0|1> pre=<0|1> post=<0|1> nnps=<0|1> name=-|<label>
sub <same attributes>                 -- appended to the last `top kind=parent`
      (`name=-`: no `name=` given; labels need not be unique — the model never reads them)
eq id=<n> dest=<a> src=_|a,b hooks=_|pi,in,ip,la,lp,pl,rd   -- appended to the last leaf / sub
cond g=<gi>|<gi>.<k> v=<0|1 list> rest=<0|1>   -- outcome of the n-th call of that group's condition
conv e=<id> v=<0|1 list> rest=<0|1>            -- outcome of the n-th call of that equation's converged
size ep=<epoch> a=<arr> real=<n> all=<n>       -- epoch = number of NNPS refreshes so far
named a=<arr> k=<name> v=<n>
nb ep=<epoch> d=<dst> s=<src> i=<idx> l=<list>
run impl|spec                                  -- answers the trace
```
Every line but `run` answers `ok`; anything malformed or any table entry the run would need
but that was not supplied answers `bad-op …`.
Events: `pre:g post:g nnps:g cond:g:b pi:e:d in:e:d:i ln:e:d:i ip:e:d:s:i la:e:d:s:i:<nbrs joined by +|_>
lp:e:d:s:i:j pl:e:d:i rd:e:d cv:e:b div:g`, blank separated.
-/
namespace PysphVerif.Driver.C03
open PysphVerif.Wire PysphVerif.Schedule

structure BTop where
  a : Attrs
  parent : Bool
  eqs : List Equation := []
  subs : List Leaf := []

structure St where
  arrays : Nat := 0
  epochs : Nat := 0
  fuel : Nat := 0
  flat : Bool := false
  tops : List BTop := []
  cond : List (GId × List Bool × Bool) := []
  conv : List (Nat × List Bool × Bool) := []
  size : List ((Nat × Nat) × (Nat × Nat)) := []
  named : List ((Nat × Nat) × Nat) := []
  nb : List ((Nat × Nat × Nat × Nat) × List Nat) := []

def parseBool? (s : String) : Option Bool :=
  if s = "1" then some true else if s = "0" then some false else none

def parseIdx? (s : String) : Option Idx :=
  match s.toList with
  | 'n' :: r => (parseNat? (String.ofList r)).map Idx.num
  | 'k' :: r => (parseNat? (String.ofList r)).map Idx.named
  | _ => none

def parseHook? (s : String) : Option Hook :=
  match s with
  | "pi" => some .pyInit | "in" => some .init | "ip" => some .initPair | "la" => some .loopAll
  | "lp" => some .loop | "pl" => some .postLoop | "rd" => some .reduce | _ => none

def parseAttrs (kv : List (String × String)) : Option Attrs := do
  let real ← lookup kv "real" >>= parseBool?
  let start ← lookup kv "start" >>= parseIdx?
  let stopS ← lookup kv "stop"
  let stop ← if stopS = "-" then some none else (parseIdx? stopS).map some
  let iter ← lookup kv "iter" >>= parseBool?
  let mn ← lookup kv "min" >>= parseNat?
  let mx ← lookup kv "max" >>= parseNat?
  let c ← lookup kv "cond" >>= parseBool?
  let pre ← lookup kv "pre" >>= parseBool?
  let post ← lookup kv "post" >>= parseBool?
  let nn ← lookup kv "nnps" >>= parseBool?
  let nameS ← lookup kv "name"
  let name ← if nameS = "-" then some none else if nameS.isEmpty then none else some (some nameS)
  pure { real := real, start := start, stop := stop, iterate := iter, maxIter := mx, minIter := mn,
         hasCond := c, hasPre := pre, hasPost := post, updateNnps := nn, name := name }

def parseGId? (s : String) : Option GId :=
  match s.splitOn "." with
  | [g] => (parseNat? g).map (fun n => ⟨n, none⟩)
  | [g, k] => do
    let n ← parseNat? g
    let m ← parseNat? k
    pure ⟨n, some m⟩
  | _ => none

/-- modify the last element of a list -/
def modifyLast {α} (f : α → Option α) : List α → Option (List α)
  | [] => none
  | [a] => (f a).map (fun b => [b])
  | a :: l => (modifyLast f l).map (a :: ·)

def addEq (e : Equation) (t : BTop) : Option BTop :=
  if t.parent then
    (modifyLast (fun (l : Leaf) => some { l with eqs := l.eqs ++ [e] }) t.subs).map
      (fun s => { t with subs := s })
  else some { t with eqs := t.eqs ++ [e] }

def script (v : List Bool) (rest : Bool) (n : Nat) : Bool :=
  match v[n]? with
  | some b => b
  | none => rest

def isNnps : Event → Bool
  | .nnps _ => true
  | _ => false
def isCondOf (g : GId) : Event → Bool
  | .cond g' _ => g' = g
  | _ => false
def isConvOf (e : Nat) : Event → Bool
  | .conv e' _ => e' = e
  | _ => false

def epochOf (h : Hist) : Nat := h.countP isNnps

/-- sentinel neighbour, visible in any trace that consulted a missing entry -/
def missing : Nat := 4000000000

def mkOracle (s : St) : Oracle where
  cond h g :=
    match s.cond.find? (·.1 = g) with
    | some (_, v, r) => script v r (h.countP (isCondOf g))
    | none => false
  conv h e :=
    match s.conv.find? (·.1 = e) with
    | some (_, v, r) => script v r (h.countP (isConvOf e))
    | none => true
  size h a real :=
    match s.size.find? (·.1 = (epochOf h, a)) with
    | some (_, (nr, na)) => if real then nr else na
    | none => 0
  named _ a k :=
    match s.named.find? (·.1 = (a, k)) with
    | some (_, v) => v
    | none => 0
  nbrs h d sr i :=
    match s.nb.find? (·.1 = (epochOf h, d, sr, i)) with
    | some (_, l) => l
    | none => [missing]

def program (s : St) : Option Program :=
  let tops := s.tops.map (fun t => if t.parent then Top.parent t.a t.subs else Top.leaf ⟨t.a, t.eqs⟩)
  if s.flat then
    match tops with
    | [Top.leaf l] => if l.attrs = {} then some (.flat l.eqs) else none
    | _ => none
  else some (.groups tops)

def showGId (g : GId) : String :=
  match g.sub with
  | none => toString g.top
  | some k => s!"{g.top}.{k}"

def b01 (b : Bool) : String := if b then "1" else "0"

def showEvent : Event → String
  | .pre g => s!"pre:{showGId g}"
  | .post g => s!"post:{showGId g}"
  | .cond g b => s!"cond:{showGId g}:{b01 b}"
  | .nnps g => s!"nnps:{showGId g}"
  | .pyInit e d => s!"pi:{e}:{d}"
  | .init e d i => s!"in:{e}:{d}:{i}"
  | .loopNoSrc e d i => s!"ln:{e}:{d}:{i}"
  | .initPair e d s i => s!"ip:{e}:{d}:{s}:{i}"
  | .loopAll e d s i nb =>
    s!"la:{e}:{d}:{s}:{i}:" ++ (if nb.isEmpty then "_" else "+".intercalate (nb.map toString))
  | .loop e d s i j => s!"lp:{e}:{d}:{s}:{i}:{j}"
  | .postLoop e d i => s!"pl:{e}:{d}:{i}"
  | .reduce e d => s!"rd:{e}:{d}"
  | .conv e b => s!"cv:{e}:{b01 b}"
  | .diverged g => s!"div:{showGId g}"

def allEqs : Program → List Equation
  | .flat eqs => eqs
  | .groups gs => gs.flatMap (fun (t : Top) => match t with
      | .leaf l => l.eqs
      | .parent _ subs => subs.flatMap (·.eqs))

def allAttrs : Program → List Attrs
  | .flat _ => []
  | .groups gs => gs.flatMap (fun (t : Top) => match t with
      | .leaf l => [l.attrs]
      | .parent a subs => a :: subs.map (·.attrs))

def namesOf (a : Attrs) : List Nat :=
  (match a.start with | .named k => [k] | _ => []) ++
  (match a.stop with | some (.named k) => [k] | _ => [])

/-- every table entry a run can consult must have been supplied -/
def complete (s : St) (P : Program) : Bool :=
  let arrs := List.range s.arrays
  (List.range (s.epochs + 1)).all (fun ep => arrs.all (fun a =>
    (s.size.find? (·.1 = (ep, a))).isSome)) &&
  ((allAttrs P).flatMap namesOf).all (fun k => arrs.all (fun a =>
    (s.named.find? (·.1 = (a, k))).isSome)) &&
  (allEqs P).all (fun e => e.dest < s.arrays && e.sources.all (· < s.arrays))

def run (s : St) (which : String) : String :=
  match program s with
  | none => "bad-op program"
  | some P =>
    if !complete s P then "bad-op incomplete-tables" else
    let O := mkOracle s
    let tr := if which = "impl" then some (implTrace O s.fuel P)
              else if which = "spec" then some (specTrace O P) else none
    match tr with
    | none => "bad-op"
    | some tr =>
      if tr.countP isNnps > s.epochs then "bad-op epochs"
      else if tr.isEmpty then "_" else " ".intercalate (tr.map showEvent)

def step (s : St) (line : String) : St × String :=
  match tokens line with
  | [] => (s, "bad-op")
  | cmd :: rest =>
    let kv := kvs rest
    let bad : St × String := (s, "bad-op")
    match cmd with
    | "new" =>
      match lookup kv "arrays" >>= parseNat?, lookup kv "epochs" >>= parseNat?,
            lookup kv "fuel" >>= parseNat?, lookup kv "flat" >>= parseBool? with
      | some a, some e, some f, some fl =>
        ({ arrays := a, epochs := e, fuel := f, flat := fl }, "ok")
      | _, _, _, _ => bad
    | "top" =>
      match parseAttrs kv, lookup kv "kind" with
      | some a, some "leaf" => ({ s with tops := s.tops ++ [{ a := a, parent := false }] }, "ok")
      | some a, some "parent" => ({ s with tops := s.tops ++ [{ a := a, parent := true }] }, "ok")
      | _, _ => bad
    | "sub" =>
      match parseAttrs kv with
      | some a =>
        match modifyLast (fun (t : BTop) =>
            if t.parent then some { t with subs := t.subs ++ [⟨a, []⟩] } else none) s.tops with
        | some tops => ({ s with tops := tops }, "ok")
        | none => bad
      | none => bad
    | "eq" =>
      match lookup kv "id" >>= parseNat?, lookup kv "dest" >>= parseNat?,
            lookup kv "src" >>= parseList? parseNat?, lookup kv "hooks" >>= parseList? parseHook? with
      | some id, some d, some src, some hooks =>
        match modifyLast (addEq ⟨id, d, src, hooks⟩) s.tops with
        | some tops => ({ s with tops := tops }, "ok")
        | none => bad
      | _, _, _, _ => bad
    | "cond" =>
      match lookup kv "g" >>= parseGId?, lookup kv "v" >>= parseList? parseBool?,
            lookup kv "rest" >>= parseBool? with
      | some g, some v, some r => ({ s with cond := (g, v, r) :: s.cond }, "ok")
      | _, _, _ => bad
    | "conv" =>
      match lookup kv "e" >>= parseNat?, lookup kv "v" >>= parseList? parseBool?,
            lookup kv "rest" >>= parseBool? with
      | some e, some v, some r => ({ s with conv := (e, v, r) :: s.conv }, "ok")
      | _, _, _ => bad
    | "size" =>
      match lookup kv "ep" >>= parseNat?, lookup kv "a" >>= parseNat?,
            lookup kv "real" >>= parseNat?, lookup kv "all" >>= parseNat? with
      | some ep, some a, some nr, some na => ({ s with size := ((ep, a), (nr, na)) :: s.size }, "ok")
      | _, _, _, _ => bad
    | "named" =>
      match lookup kv "a" >>= parseNat?, lookup kv "k" >>= parseNat?, lookup kv "v" >>= parseNat? with
      | some a, some k, some v => ({ s with named := ((a, k), v) :: s.named }, "ok")
      | _, _, _ => bad
    | "nb" =>
      match lookup kv "ep" >>= parseNat?, lookup kv "d" >>= parseNat?, lookup kv "s" >>= parseNat?,
            lookup kv "i" >>= parseNat?, lookup kv "l" >>= parseList? parseNat? with
      | some ep, some d, some sr, some i, some l =>
        ({ s with nb := ((ep, d, sr, i), l) :: s.nb }, "ok")
      | _, _, _, _, _ => bad
    | "run" =>
      match rest with
      | [w] => (s, run s w)
      | _ => bad
    | _ => bad

end PysphVerif.Driver.C03

def main : IO Unit := PysphVerif.Driver.loop PysphVerif.Driver.C03.step {}
