import PysphVerif.Driver.Common
import PysphVerif.Model.Domain
/-!
Line protocol for C07.  One line = one `DomainManager.update()`:

  `upd <Q|F> xmin=<n> xmax=<n> ymin=<n> ymax=<n> zmin=<n> zmax=<n> per=<bbb> mir=<bbb>
        nl=<n> rs=<n>  A keep=<bbbb> kx=<b…|_> d=<n,n,n,n> dx=<n,…|_> P=<tag>:<n,…> P=…  A …`

numbers `<n>` are rationals `p/q` in mode `Q` and IEEE bit patterns `x<16 hex>`
in mode `F`; a particle is `tag:x,y,z,u,v,w,h,extra…`; `keep`/`d` are for
`u,v,w,h`, `kx`/`dx` for the extra properties.  Answer:

  `c=<cell size> A P=… P=… A …`

Anything malformed answers `bad-op`.
-/
namespace PysphVerif.Driver.C07
open PysphVerif.Wire PysphVerif.Domain

structure Num (α : Type) where
  parse : String → Option α
  shw : α → String
  eps : α

def parseBits (s : String) : Option (List Bool) :=
  if s = "_" then some [] else
  s.toList.mapM (fun c => if c = '1' then some true else if c = '0' then some false else none)

def parseParticle {α} (N : Num α) (s : String) : Option (Particle α) :=
  match s.splitOn ":" with
  | [t, body] => do
    let tag ← parseNat? t
    let vals ← parseList? N.parse body
    match vals with
    | x :: y :: z :: u :: v :: w :: h :: extra =>
      some { x := x, y := y, z := z, u := u, v := v, w := w, h := h, tag := tag, extra := extra }
    | _ => none
  | _ => none

def showParticle {α} (N : Num α) (p : Particle α) : String :=
  "P=" ++ toString p.tag ++ ":" ++
    showList N.shw ([p.x, p.y, p.z, p.u, p.v, p.w, p.h] ++ p.extra)

/-- split token list at every "A" (first group = header) -/
def groups (toks : List String) : List (List String) :=
  let r := toks.foldl (fun (acc : List (List String)) t =>
    if t = "A" then [] :: acc else
    match acc with
    | [] => [[t]]
    | g :: gs => (t :: g) :: gs) [[]]
  r.reverse.map List.reverse

def parseArray {α} (N : Num α) (toks : List String) :
    Option (CopySpec α × List (Particle α)) := do
  let ptoks := toks.filter (fun t => t.startsWith "P=")
  let rest := toks.filter (fun t => !(t.startsWith "P="))
  let kv := kvs rest
  if kv.length ≠ rest.length then none else
  let keep ← (lookup kv "keep") >>= parseBits
  let kx ← (lookup kv "kx") >>= parseBits
  let d ← (lookup kv "d") >>= parseList? N.parse
  let dx ← (lookup kv "dx") >>= parseList? N.parse
  let ps ← ptoks.mapM (fun t => parseParticle N (t.drop 2).toString)
  match keep, d with
  | [ku, kv', kw, kh], [du, dv, dw, dh] =>
    if kx.length ≠ dx.length then none
    else if ps.any (fun p => p.extra.length ≠ kx.length) then none
    else some ({ keepU := ku, keepV := kv', keepW := kw, keepH := kh, keepExtra := kx,
                 dU := du, dV := dv, dW := dw, dH := dh, dExtra := dx }, ps)
  | _, _ => none

def parseConfig {α} (N : Num α) (toks : List String) : Option (Config α) := do
  let kv := kvs toks
  if kv.length ≠ toks.length then none else
  let g := fun k => (lookup kv k) >>= N.parse
  let per ← (lookup kv "per") >>= parseBits
  let mir ← (lookup kv "mir") >>= parseBits
  match per, mir with
  | [px, py, pz], [mx, my, mz] =>
    some { xmin := ← g "xmin", xmax := ← g "xmax", ymin := ← g "ymin", ymax := ← g "ymax",
           zmin := ← g "zmin", zmax := ← g "zmax", px := px, py := py, pz := pz,
           mx := mx, my := my, mz := mz, nLayers := ← g "nl", radiusScale := ← g "rs",
           eps := N.eps }
  | _, _ => none

section
variable {α : Type} [Add α] [Sub α] [Mul α] [Neg α] [LT α] [DecidableLT α] [LE α] [DecidableLE α]
  [OfNat α 0] [OfNat α 1] [OfNat α 2]

def runUpd (N : Num α) (hd : List String) (arrGroups : List (List String)) : String :=
  match parseConfig N hd, arrGroups.mapM (parseArray N) with
  | some cfg, some arrs =>
    let (cell, out) := update cfg (arrs.map (·.1)) (arrs.map (·.2))
    "c=" ++ N.shw cell ++
      String.join (out.map (fun a => " A" ++ String.join (a.map (fun p => " " ++ showParticle N p))))
  | _, _ => "bad-op"
end

def numQ : Num Rat :=
  { parse := parseRat?, shw := showRat,
    -- exact value of the double nearest to 1e-6
    eps := mkRat 4722366482869645 4722366482869645213696 }

def numF : Num Float :=
  { parse := parseFloatBits?, shw := showFloatBits,
    eps := Float.ofBits 0x3eb0c6f7a0b5ed8d }

def handle (line : String) : String :=
  match groups (tokens line) with
  | ("upd" :: "Q" :: hd) :: arrGroups => runUpd numQ hd arrGroups
  | ("upd" :: "F" :: hd) :: arrGroups => runUpd numF hd arrGroups
  | _ => "bad-op"

end PysphVerif.Driver.C07

def main : IO Unit := PysphVerif.Driver.loopPure PysphVerif.Driver.C07.handle
