import Mathlib.Algebra.Order.Field.Basic
import PysphVerif.Lemmas.MinMax
set_option linter.unusedSectionVars false
/-! Helper lemmas for C19: folds of `hMinimum`, `factors`, `explicitDtAdapt`. -/
namespace PysphVerif.AdaptDt
variable {α : Type} [Field α] [LinearOrder α] [IsStrictOrderedRing α]

/-! ### extended numbers -/

theorem extLt_some_some (a b : α) : extLt (some a) (some b) = decide (a < b) := rfl
theorem extLt_some_none (a : α) : extLt (some a) (none : Ext α) = true := rfl
theorem extLt_none (b : Ext α) : extLt (none : Ext α) b = false := by cases b <;> rfl

/-- `IsExtMin e l` : `e` is the minimum of the list `l` in the extended numbers
(`none` = +inf exactly when the list is empty). -/
def IsExtMin (e : Ext α) (l : List α) : Prop :=
  match e with
  | none => l = []
  | some m => m ∈ l ∧ ∀ x ∈ l, m ≤ x

theorem isExtMin_nil : IsExtMin (none : Ext α) [] := rfl

theorem isExtMin_append_min {e : Ext α} {l l' : List α} {m : α}
    (he : IsExtMin e l) (hm : m ∈ l' ∧ ∀ x ∈ l', m ≤ x) :
    IsExtMin (extMin e (some m)) (l ++ l') := by
  cases e with
  | none =>
    have hl : l = [] := he
    subst hl
    simp only [extMin, extLt_some_none, if_true, List.nil_append]
    exact hm
  | some a =>
    obtain ⟨ha, hle⟩ := he
    simp only [extMin, extLt_some_some]
    by_cases hlt : m < a
    · simp only [hlt, decide_true, if_true]
      refine ⟨List.mem_append_right _ hm.1, ?_⟩
      intro x hx
      rcases List.mem_append.mp hx with h | h
      · exact le_trans (le_of_lt hlt) (hle x h)
      · exact hm.2 x h
    · simp only [hlt, decide_false, Bool.false_eq_true, if_false]
      refine ⟨List.mem_append_left _ ha, ?_⟩
      intro x hx
      rcases List.mem_append.mp hx with h | h
      · exact hle x h
      · exact le_trans (not_lt.mp hlt) (hm.2 x h)

theorem extMin_none_right (e : Ext α) : extMin e none = e := by
  simp [extMin, extLt_none]

/-! ### carray minimum -/

theorem carrayMin_spec {l : List α} (h : l ≠ []) :
    carrayMin l ∈ l ∧ ∀ x ∈ l, carrayMin l ≤ x := by
  cases l with
  | nil => exact absurd rfl h
  | cons a as =>
    have hf : ∀ (m : α) (xs : List α),
        xs.foldl (fun m x => if x < m then x else m) m = xs.foldl pymin m := by
      intro m xs; rfl
    have : carrayMin (a :: as) = as.foldl pymin a := hf a as
    rw [this]
    exact npMin_spec (l := a :: as) rfl

/-! ### `compute_h_minimum` -/

/-- all smoothing lengths of the non-empty arrays -/
def allH (arrs : List (Arr α)) : List α := arrs.flatMap (fun pa => pa.hAll)

/-- well-formedness: the `h` carray has one entry per particle -/
def WF (arrs : List (Arr α)) : Prop := ∀ pa ∈ arrs, pa.hAll.length = pa.nAll

theorem hMinimum_fold (arrs seen : List (Arr α)) (acc : Ext α)
    (hwf : WF arrs) (hacc : IsExtMin acc (allH seen)) :
    IsExtMin (arrs.foldl hminStep acc) (allH (seen ++ arrs)) := by
  induction arrs generalizing seen acc with
  | nil => simpa using hacc
  | cons pa rest ih =>
    have hwf' : WF rest := fun p hp => hwf p (List.mem_cons_of_mem _ hp)
    have hlen := hwf pa List.mem_cons_self
    simp only [List.foldl_cons]
    have hstep : IsExtMin (hminStep acc pa) (allH (seen ++ [pa])) := by
      unfold hminStep
      have happ : allH (seen ++ [pa]) = allH seen ++ pa.hAll := by
        simp [allH, List.flatMap_append]
      rw [happ]
      by_cases h0 : pa.nAll = 0
      · have : pa.hAll = [] := List.eq_nil_of_length_eq_zero (by rw [hlen, h0])
        simp only [h0, if_true, this, List.append_nil]
        exact hacc
      · simp only [h0, if_false]
        have hne : pa.hAll ≠ [] := by
          intro hnil; rw [hnil] at hlen; exact h0 hlen.symm
        have := isExtMin_append_min hacc (carrayMin_spec hne)
        simpa [extMin] using this
    have := ih (seen ++ [pa]) _ hwf' hstep
    simpa [List.append_assoc] using this

theorem hMinimum_isExtMin (arrs : List (Arr α)) (hwf : WF arrs) :
    IsExtMin (hMinimum arrs) (allH arrs) := by
  have := hMinimum_fold arrs [] none hwf (by simp [allH, IsExtMin])
  simpa [hMinimum] using this

/-! ### `_get_dt_adapt_factors` -/

/-- all (real-particle) values of one criterion over the arrays that have it -/
def critVals (sel : Arr α → Option (List α)) (arrs : List (Arr α)) : List α :=
  arrs.flatMap (fun pa => match sel pa with | some v => v | none => [])

theorem myMax_ge {l : List α} : ∀ x ∈ l, x ≤ myMax l := by
  intro x hx
  cases l with
  | nil => cases hx
  | cons a as =>
    have h : npMax (a :: as) = some (as.foldl pymax a) := rfl
    simp only [myMax, h]
    exact (npMax_spec h).2 x hx

theorem myMax_mem_or (l : List α) : myMax l = -1 ∨ myMax l ∈ l := by
  cases l with
  | nil => left; rfl
  | cons a as =>
    right
    have h : npMax (a :: as) = some (as.foldl pymax a) := rfl
    simp only [myMax, h]
    exact (npMax_spec h).1

theorem factor_fold (sel : Arr α → Option (List α)) (arrs : List (Arr α)) (f : α) :
    (f ≤ arrs.foldl (factorStep sel) f) ∧
    (∀ x ∈ critVals sel arrs, x ≤ arrs.foldl (factorStep sel) f) ∧
    (arrs.foldl (factorStep sel) f = f ∨ arrs.foldl (factorStep sel) f = -1 ∨
      arrs.foldl (factorStep sel) f ∈ critVals sel arrs) := by
  induction arrs generalizing f with
  | nil => simp [critVals]
  | cons pa rest ih =>
    simp only [List.foldl_cons]
    obtain ⟨h1, h2, h3⟩ := ih (factorStep sel f pa)
    have hcv : critVals sel (pa :: rest) =
        (match sel pa with | some v => v | none => []) ++ critVals sel rest := by
      simp [critVals]
    have hstep_ge : f ≤ factorStep sel f pa := by
      unfold factorStep; split
      · rw [pymax_eq_max]; exact le_max_left _ _
      · exact le_refl _
    refine ⟨le_trans hstep_ge h1, ?_, ?_⟩
    · intro x hx
      rw [hcv] at hx
      rcases List.mem_append.mp hx with h | h
      · refine le_trans ?_ h1
        unfold factorStep
        split
        · rename_i vals heq
          simp only [heq] at h
          rw [pymax_eq_max]
          exact le_trans (myMax_ge x h) (le_max_right _ _)
        · rename_i heq
          simp only [heq] at h
          cases h
      · exact h2 x h
    · rcases h3 with h | h | h
      · rw [h]
        unfold factorStep
        split
        · rename_i vals heq
          unfold pymax
          split
          · rcases myMax_mem_or vals with hm | hm
            · right; left; exact hm
            · right; right; rw [hcv]; simp only [heq]
              exact List.mem_append_left _ hm
          · left; rfl
        · left; rfl
      · right; left; exact h
      · right; right; rw [hcv]; exact List.mem_append_right _ h

/-- The factor of a criterion is `-1` or the greatest value present, and it
dominates every value present. -/
theorem factor_spec (sel : Arr α → Option (List α)) (arrs : List (Arr α)) :
    (∀ x ∈ critVals sel arrs, x ≤ arrs.foldl (factorStep sel) (-1)) ∧
    (arrs.foldl (factorStep sel) (-1) = -1 ∨
      arrs.foldl (factorStep sel) (-1) ∈ critVals sel arrs) := by
  obtain ⟨_, h2, h3⟩ := factor_fold sel arrs (-1)
  refine ⟨h2, ?_⟩
  rcases h3 with h | h | h
  · left; exact h
  · left; exact h
  · right; exact h

end PysphVerif.AdaptDt
