import Mathlib.Algebra.Order.Field.Basic
import Mathlib.Tactic.Ring
import Mathlib.Tactic.Linarith
import Mathlib.Tactic.FieldSimp
import Mathlib.Algebra.BigOperators.Group.List.Basic
import PysphVerif.Model.Interp
set_option linter.unusedSectionVars false
set_option linter.unusedVariables false
/-!
Helper lemmas for C14: the folds of `Model/Interp.lean` are sums over the
neighbour list; elementary facts about such sums; invariants of the binding
state machine.
-/
namespace PysphVerif.Interp

section Sums
variable {α : Type} [Field α] [LinearOrder α] [IsStrictOrderedRing α]

/-- `Σ_{j ∈ nbrs} g j` -/
def sumOver (g : Nbr α → α) (l : List (Nbr α)) : α := (l.map g).sum

@[simp] theorem sumOver_nil (g : Nbr α → α) : sumOver g [] = 0 := rfl
@[simp] theorem sumOver_cons (g : Nbr α → α) (x : Nbr α) (xs : List (Nbr α)) :
    sumOver g (x :: xs) = g x + sumOver g xs := by
  simp [sumOver]

theorem foldl_step_eq (step : α → Nbr α → α) (g : Nbr α → α)
    (h : ∀ acc nb, step acc nb = acc + g nb) (l : List (Nbr α)) (a : α) :
    l.foldl step a = a + sumOver g l := by
  induction l generalizing a with
  | nil => simp
  | cons x xs ih => simp only [List.foldl_cons, ih, h, sumOver_cons]; ring

theorem sumOver_congr {g g' : Nbr α → α} {l : List (Nbr α)}
    (h : ∀ nb ∈ l, g nb = g' nb) : sumOver g l = sumOver g' l := by
  induction l with
  | nil => rfl
  | cons x xs ih =>
    simp only [sumOver_cons]
    rw [h x (by simp), ih (fun nb hnb => h nb (by simp [hnb]))]

theorem sumOver_le {g g' : Nbr α → α} {l : List (Nbr α)}
    (h : ∀ nb ∈ l, g nb ≤ g' nb) : sumOver g l ≤ sumOver g' l := by
  induction l with
  | nil => simp
  | cons x xs ih =>
    simp only [sumOver_cons]
    exact add_le_add (h x (by simp)) (ih (fun nb hnb => h nb (by simp [hnb])))

theorem sumOver_mul_left (c : α) (g : Nbr α → α) (l : List (Nbr α)) :
    sumOver (fun nb => c * g nb) l = c * sumOver g l := by
  induction l with
  | nil => simp
  | cons x xs ih => simp only [sumOver_cons, ih]; ring

theorem sumOver_add (g g' : Nbr α → α) (l : List (Nbr α)) :
    sumOver (fun nb => g nb + g' nb) l = sumOver g l + sumOver g' l := by
  induction l with
  | nil => simp
  | cons x xs ih => simp only [sumOver_cons, ih]; ring

theorem sumOver_zero {g : Nbr α → α} {l : List (Nbr α)} (h : ∀ nb ∈ l, g nb = 0) :
    sumOver g l = 0 := by
  induction l with
  | nil => rfl
  | cons x xs ih =>
    simp only [sumOver_cons]
    rw [h x (by simp), ih (fun nb hnb => h nb (by simp [hnb]))]; ring

theorem sumOver_nonneg {g : Nbr α → α} {l : List (Nbr α)} (h : ∀ nb ∈ l, 0 ≤ g nb) :
    0 ≤ sumOver g l := by
  induction l with
  | nil => simp
  | cons x xs ih =>
    simp only [sumOver_cons]
    exact add_nonneg (h x (by simp)) (ih (fun nb hnb => h nb (by simp [hnb])))

theorem sumOver_append (g : Nbr α → α) (l1 l2 : List (Nbr α)) :
    sumOver g (l1 ++ l2) = sumOver g l1 + sumOver g l2 := by
  simp [sumOver]

theorem sumOver_perm (g : Nbr α → α) {l1 l2 : List (Nbr α)} (h : l1.Perm l2) :
    sumOver g l1 = sumOver g l2 := by
  unfold sumOver
  exact (h.map g).sum_eq

/-- terms that vanish may be dropped -/
theorem sumOver_filter (g : Nbr α → α) (keep : Nbr α → Bool) (l : List (Nbr α))
    (h : ∀ nb ∈ l, keep nb = false → g nb = 0) :
    sumOver g (l.filter keep) = sumOver g l := by
  induction l with
  | nil => rfl
  | cons x xs ih =>
    have ih' := ih (fun nb hnb => h nb (by simp [hnb]))
    by_cases hk : keep x = true
    · simp [hk, ih']
    · have hk' : keep x = false := by simpa using hk
      simp [hk', ih', h x (by simp) hk']

/-- the two accumulators of `InterpolateFunction` after the loop -/
theorem shepard_fold (l : List (Nbr α)) (a : Acc2 α) :
    l.foldl shepardStep a =
      ⟨a.prop + sumOver (fun nb => nb.w * nb.f) l, a.den + sumOver (fun nb => nb.w) l⟩ := by
  induction l generalizing a with
  | nil => cases a; simp
  | cons x xs ih =>
    simp only [List.foldl_cons, ih, shepardStep, sumOver_cons]
    congr 1 <;> ring

/-- the two accumulators of `SPLASHInterpolatePropertyNormalized` after the loop -/
theorem splashNorm_fold (l : List (Nbr α)) (a : Acc2 α) :
    l.foldl splashNormStep a =
      ⟨a.prop + sumOver (fun nb => (nb.m / nb.rho) * nb.w * nb.f) l,
       a.den + sumOver (fun nb => (nb.m / nb.rho) * nb.w) l⟩ := by
  induction l generalizing a with
  | nil => cases a; simp
  | cons x xs ih =>
    simp only [List.foldl_cons, ih, splashNormStep, sumOver_cons]
    congr 1 <;> ring

/-- a normalised weighted sum lies between bounds on the values that carry
positive weight -/
theorem weighted_mean_between (wt f : Nbr α → α) (l : List (Nbr α)) (lo hi : α)
    (hw : ∀ nb ∈ l, 0 ≤ wt nb)
    (hf : ∀ nb ∈ l, 0 < wt nb → lo ≤ f nb ∧ f nb ≤ hi)
    (hpos : 0 < sumOver wt l) :
    lo ≤ sumOver (fun nb => wt nb * f nb) l / sumOver wt l ∧
    sumOver (fun nb => wt nb * f nb) l / sumOver wt l ≤ hi := by
  have h1 : sumOver (fun nb => wt nb * lo) l ≤ sumOver (fun nb => wt nb * f nb) l := by
    apply sumOver_le
    intro nb hnb
    rcases (hw nb hnb).lt_or_eq with h | h
    · exact mul_le_mul_of_nonneg_left (hf nb hnb h).1 (le_of_lt h)
    · rw [← h]; simp
  have h2 : sumOver (fun nb => wt nb * f nb) l ≤ sumOver (fun nb => wt nb * hi) l := by
    apply sumOver_le
    intro nb hnb
    rcases (hw nb hnb).lt_or_eq with h | h
    · exact mul_le_mul_of_nonneg_left (hf nb hnb h).2 (le_of_lt h)
    · rw [← h]; simp
  have e1 : sumOver (fun nb => wt nb * lo) l = lo * sumOver wt l := by
    rw [← sumOver_mul_left]; apply sumOver_congr; intro nb _; ring
  have e2 : sumOver (fun nb => wt nb * hi) l = hi * sumOver wt l := by
    rw [← sumOver_mul_left]; apply sumOver_congr; intro nb _; ring
  rw [e1] at h1
  rw [e2] at h2
  exact ⟨(le_div_iff₀ hpos).2 h1, (div_le_iff₀ hpos).2 h2⟩

/-- a weighted sum of a field that is constant where the weight is non-zero -/
theorem weighted_sum_const (wt f : Nbr α → α) (l : List (Nbr α)) (c : α)
    (hf : ∀ nb ∈ l, wt nb ≠ 0 → f nb = c) :
    sumOver (fun nb => wt nb * f nb) l = c * sumOver wt l := by
  rw [← sumOver_mul_left]
  apply sumOver_congr
  intro nb hnb
  by_cases h : wt nb = 0
  · simp [h]
  · rw [hf nb hnb h]; ring

/-! ### order1 -/

theorem momentEntry_eq (d : Pos α) (l : List (Nbr α)) (r c : Nat) :
    momentEntry d l r c = sumOver (momentTerm d r c) l := by
  unfold momentEntry
  rw [foldl_step_eq (momentStep d r c) (momentTerm d r c) (fun _ _ => rfl)]
  ring

theorem psphEntry_eq (l : List (Nbr α)) (r : Nat) :
    psphEntry l r = sumOver (psphTerm r) l := by
  unfold psphEntry
  rw [foldl_step_eq (psphStep r) (psphTerm r) (fun _ _ => rfl)]
  ring

/-- one neighbour's contribution to the right-hand side is the moment row
applied to `(F0, g0, g1, g2)` when the neighbour's value is the affine field
`F0 − g·XIJ` (i.e. `a + g·x_j` with `F0 = a + g·x_i`) -/
theorem psphTerm_affine (d : Pos α) (nb : Nbr α) (F0 g0 g1 g2 : α)
    (hf : nb.f = F0 - (g0 * xij d nb 0 + g1 * xij d nb 1 + g2 * xij d nb 2)) (r : Nat) :
    psphTerm r nb = momentTerm d r 0 nb * F0 + momentTerm d r 1 nb * g0 +
      momentTerm d r 2 nb * g1 + momentTerm d r 3 nb * g2 := by
  cases r with
  | zero => simp only [psphTerm, momentTerm, hf]; ring
  | succ r => simp only [psphTerm, momentTerm, hf]; ring

end Sums

/-! ### bindings -/

/-- the Interpolator's invariant: evaluator and neighbour structure are bound to
exactly `self.particle_arrays + [self.pa]` -/
def Bound (s : IState) : Prop :=
  s.evalObjs = s.arrays ++ [s.pts] ∧ s.nnps.objs = s.arrays ++ [s.pts] ∧
  s.evalNnpsCurrent = true

def Fresh (s : IState) : Prop := s.nnps.seen = s.nnps.objs.map s.ver

theorem bound_updateParticleArrays (s : IState) (as : List Nat) :
    Bound (updateParticleArrays s as) ∧ Fresh (updateParticleArrays s as) ∧
    (updateParticleArrays s as).arrays = as ∧ (updateParticleArrays s as).pts = s.pts := by
  simp [updateParticleArrays, setArrays, createNnps, Bound, Fresh]

theorem bound_setInterpolationPoints (s : IState) (p : Nat) :
    Bound (setInterpolationPoints s p) ∧ Fresh (setInterpolationPoints s p) ∧
    (setInterpolationPoints s p).arrays = s.arrays ∧ (setInterpolationPoints s p).pts = p := by
  simp [setInterpolationPoints, updateParticleArrays, setArrays, createNnps, Bound, Fresh]

/-- the Interpolator's own operations (not the SPHEvaluator's) -/
def Op.isInterp : Op → Bool
  | Op.evalUpdateArrays _ => false
  | _ => true

def Op.isMutate : Op → Bool
  | Op.mutate _ => true
  | _ => false

theorem bound_step (s : IState) (op : Op) (hop : op.isInterp = true) (h : Bound s) :
    Bound (step s op) := by
  cases op with
  | setPoints p => exact (bound_setInterpolationPoints s p).1
  | updateArrays as => exact (bound_updateParticleArrays s as).1
  | update => simpa [step, updateOp, Bound] using h
  | mutate o => simpa [step, Bound] using h
  | touch o => simpa [step] using h
  | evalUpdateArrays objs => simp [Op.isInterp] at hop

def Op.isTouch : Op → Bool
  | Op.touch _ => true
  | _ => false

/-- a data-only change keeps the neighbour lists as current as they were -/
theorem fresh_touch (s : IState) (o : Nat) (h : Fresh s) : Fresh (step s (Op.touch o)) := by
  simpa [step] using h

theorem fresh_step (s : IState) (op : Op) (hop : op.isMutate = false)
    (hop2 : op.isTouch = false) : Fresh (step s op) := by
  cases op with
  | touch o => simp [Op.isTouch] at hop2
  | setPoints p => exact (bound_setInterpolationPoints s p).2.1
  | updateArrays as => exact (bound_updateParticleArrays s as).2.1
  | update => simp [step, updateOp, Fresh]
  | mutate o => simp [Op.isMutate] at hop
  | evalUpdateArrays objs => simp [step, evalUpdateParticleArrays, setArrays, createNnps, Fresh]

/-- the arrays / points of the latest rebinding in a history -/
def lastArrays (a0 : List Nat) : List Op → List Nat
  | [] => a0
  | Op.updateArrays as :: rest => lastArrays as rest
  | _ :: rest => lastArrays a0 rest

def lastPts (p0 : Nat) : List Op → Nat
  | [] => p0
  | Op.setPoints p :: rest => lastPts p rest
  | _ :: rest => lastPts p0 rest

theorem run_arrays_pts (s : IState) (ops : List Op) (hops : ∀ op ∈ ops, op.isInterp = true) :
    (run s ops).arrays = lastArrays s.arrays ops ∧ (run s ops).pts = lastPts s.pts ops := by
  induction ops generalizing s with
  | nil => simp [run, lastArrays, lastPts]
  | cons op rest ih =>
    have hrest : ∀ op ∈ rest, op.isInterp = true := fun o ho => hops o (by simp [ho])
    have := ih (step s op) hrest
    simp only [run, List.foldl_cons] at this ⊢
    cases op with
    | setPoints p =>
      have h := bound_setInterpolationPoints s p
      simp only [step] at this ⊢
      rw [this.1, this.2, h.2.2.1, h.2.2.2]; simp [lastArrays, lastPts]
    | updateArrays as =>
      have h := bound_updateParticleArrays s as
      simp only [step] at this ⊢
      rw [this.1, this.2, h.2.2.1, h.2.2.2]; simp [lastArrays, lastPts]
    | update => simpa [step, updateOp, lastArrays, lastPts] using this
    | mutate o => simpa [step, lastArrays, lastPts] using this
    | touch o => simpa [step, lastArrays, lastPts] using this
    | evalUpdateArrays objs => have := hops (Op.evalUpdateArrays objs) (by simp); simp [Op.isInterp] at this

theorem run_bound (s : IState) (ops : List Op) (hops : ∀ op ∈ ops, op.isInterp = true)
    (h : Bound s) : Bound (run s ops) := by
  induction ops generalizing s with
  | nil => simpa [run] using h
  | cons op rest ih =>
    simp only [run, List.foldl_cons]
    exact ih (step s op) (fun o ho => hops o (by simp [ho]))
      (bound_step s op (hops op (by simp)) h)

theorem run_append_singleton (s : IState) (ops : List Op) (op : Op) :
    run s (ops ++ [op]) = step (run s ops) op := by
  simp [run, List.foldl_append]

theorem init_spec (arrays : List Nat) (p : Nat) :
    Bound (init arrays p) ∧ Fresh (init arrays p) ∧ (init arrays p).arrays = arrays ∧
    (init arrays p).pts = p := by
  simp [init, setInterpolationPoints, updateParticleArrays, setArrays, createNnps, Bound, Fresh]

/-- the evaluator reads the constants of the very arrays whose per-particle
properties it reads (`set_array` binds both from the same `pa`) -/
def ConstsBound (s : IState) : Prop := s.evalConsts = s.evalObjs

theorem constsBound_step (s : IState) (op : Op) (h : ConstsBound s) : ConstsBound (step s op) := by
  cases op with
  | setPoints p => simp [step, setInterpolationPoints, updateParticleArrays, setArrays, createNnps, ConstsBound]
  | updateArrays as => simp [step, updateParticleArrays, setArrays, createNnps, ConstsBound]
  | update => simpa [step, updateOp, ConstsBound] using h
  | mutate o => simpa [step, ConstsBound] using h
  | touch o => simpa [step] using h
  | evalUpdateArrays objs => simp [step, evalUpdateParticleArrays, setArrays, createNnps, ConstsBound]

theorem run_constsBound (s : IState) (ops : List Op) (h : ConstsBound s) : ConstsBound (run s ops) := by
  induction ops generalizing s with
  | nil => simpa [run] using h
  | cons op rest ih =>
    simp only [run, List.foldl_cons]
    exact ih (step s op) (constsBound_step s op h)

theorem constsBound_init (arrays : List Nat) (p : Nat) : ConstsBound (init arrays p) := by
  simp [init, setInterpolationPoints, updateParticleArrays, setArrays, createNnps, ConstsBound]

theorem constsBound_initEval (objs : List Nat) : ConstsBound (initEval objs) := by
  simp [initEval, createNnps, ConstsBound]

/-! ### staging of the requested property into `temp_prop` -/

section Staging
variable {α : Type} [OfNat α 0]

theorem stageStep_self (env : Nat → ArrData α) (prop : String) (temp : Temp α) (o : Nat) :
    stageStep env prop temp o o = stagedValues (env o) prop := by
  simp [stageStep]

theorem stageStep_other (env : Nat → ArrData α) (prop : String) (temp : Temp α) (o x : Nat)
    (h : x ≠ o) : stageStep env prop temp o x = temp x := by
  simp [stageStep, h]

/-- the staging loop leaves the `temp_prop` of every other object alone -/
theorem stage_not_mem (env : Nat → ArrData α) (prop : String) (arrays : List Nat)
    (temp : Temp α) (o : Nat) (h : o ∉ arrays) : stage env prop arrays temp o = temp o := by
  induction arrays generalizing temp with
  | nil => rfl
  | cons a as ih =>
    have ha : o ≠ a := fun e => h (by simp [e])
    have has : o ∉ as := fun e => h (by simp [e])
    show stage env prop as (stageStep env prop temp a) o = temp o
    rw [ih _ has, stageStep_other env prop temp a o ha]

/-- …and overwrites that of every array it visits, whatever was there -/
theorem stage_mem (env : Nat → ArrData α) (prop : String) (arrays : List Nat)
    (temp : Temp α) (o : Nat) (h : o ∈ arrays) :
    stage env prop arrays temp o = stagedValues (env o) prop := by
  induction arrays generalizing temp with
  | nil => simp at h
  | cons a as ih =>
    show stage env prop as (stageStep env prop temp a) o = stagedValues (env o) prop
    by_cases has : o ∈ as
    · exact ih _ has
    · have hoa : o = a := by
        rcases List.mem_cons.mp h with e | e
        · exact e
        · exact absurd e has
      rw [stage_not_mem env prop as _ o has, hoa, stageStep_self]

theorem hrun_s (h : HState α) (ops : List (HOp α)) :
    (hrun h ops).s = run h.s (bindOps ops) := by
  induction ops generalizing h with
  | nil => rfl
  | cons op rest ih =>
    cases op with
    | bind b =>
      show (hrun (hstep h (HOp.bind b)) rest).s = run h.s (b :: bindOps rest)
      rw [ih]; rfl
    | interp env prop =>
      show (hrun (hstep h (HOp.interp env prop)) rest).s = run h.s (bindOps rest)
      rw [ih]; rfl

theorem hrun_append_singleton (h : HState α) (ops : List (HOp α)) (op : HOp α) :
    hrun h (ops ++ [op]) = hstep (hrun h ops) op := by
  simp [hrun, List.foldl_append]

end Staging

/-! ## index maps: `ravel` / `result.shape = self.shape` / `squeeze` -/
section Index

theorem size_pos_of_inBounds : ∀ (sh idx : List Nat), inBounds sh idx = true → 0 < size sh
  | [], [], _ => by simp [size]
  | [], _ :: _, h => by simp [inBounds] at h
  | _ :: _, [], h => by simp [inBounds] at h
  | n :: ns, i :: is, h => by
    simp only [inBounds, Bool.and_eq_true, decide_eq_true_eq] at h
    have := size_pos_of_inBounds ns is h.2
    simp only [size]
    exact Nat.mul_pos (by omega) this

theorem ravelIndex_lt : ∀ (sh idx : List Nat), inBounds sh idx = true →
    ravelIndex sh idx < size sh
  | [], [], _ => by simp [size, ravelIndex]
  | [], _ :: _, h => by simp [inBounds] at h
  | _ :: _, [], h => by simp [inBounds] at h
  | n :: ns, i :: is, h => by
    simp only [inBounds, Bool.and_eq_true, decide_eq_true_eq] at h
    have ih := ravelIndex_lt ns is h.2
    simp only [size, ravelIndex]
    calc i * size ns + ravelIndex ns is < i * size ns + size ns := by omega
      _ = (i + 1) * size ns := by rw [Nat.succ_mul]
      _ ≤ n * size ns := Nat.mul_le_mul_right _ h.1

theorem unravel_ravelIndex : ∀ (sh idx : List Nat), inBounds sh idx = true →
    unravel sh (ravelIndex sh idx) = idx
  | [], [], _ => by simp [unravel]
  | [], _ :: _, h => by simp [inBounds] at h
  | _ :: _, [], h => by simp [inBounds] at h
  | n :: ns, i :: is, h => by
    simp only [inBounds, Bool.and_eq_true, decide_eq_true_eq] at h
    have hr := ravelIndex_lt ns is h.2
    have ih := unravel_ravelIndex ns is h.2
    have hp : 0 < size ns := by omega
    simp only [unravel, ravelIndex]
    have h1 : (i * size ns + ravelIndex ns is) / size ns = i := by
      rw [Nat.add_comm, Nat.add_mul_div_right _ _ hp, Nat.div_eq_of_lt hr, Nat.zero_add]
    have h2 : (i * size ns + ravelIndex ns is) % size ns = ravelIndex ns is := by
      rw [Nat.add_comm, Nat.add_mul_mod_self_right, Nat.mod_eq_of_lt hr]
    rw [h1, h2, ih]

theorem inBounds_unravel : ∀ (sh : List Nat) (k : Nat), k < size sh →
    inBounds sh (unravel sh k) = true
  | [], _, _ => by simp [unravel, inBounds]
  | n :: ns, k, h => by
    simp only [size] at h
    have hp : 0 < size ns := by
      rcases Nat.eq_zero_or_pos (size ns) with h0 | h0
      · rw [h0] at h; omega
      · exact h0
    simp only [unravel, inBounds, Bool.and_eq_true, decide_eq_true_eq]
    refine ⟨?_, inBounds_unravel ns _ (Nat.mod_lt _ hp)⟩
    rw [Nat.div_lt_iff_lt_mul hp]; exact h

theorem ravelIndex_unravel : ∀ (sh : List Nat) (k : Nat), k < size sh →
    ravelIndex sh (unravel sh k) = k
  | [], k, h => by simp [size] at h; simp [ravelIndex, h]
  | n :: ns, k, h => by
    simp only [size] at h
    have hp : 0 < size ns := by
      rcases Nat.eq_zero_or_pos (size ns) with h0 | h0
      · rw [h0] at h; omega
      · exact h0
    simp only [unravel, ravelIndex]
    rw [ravelIndex_unravel ns _ (Nat.mod_lt _ hp)]
    exact Nat.div_add_mod' k (size ns)

theorem size_squeezeShape : ∀ sh : List Nat, size (squeezeShape sh) = size sh
  | [] => rfl
  | n :: ns => by
    simp only [squeezeShape]
    split
    · next h => subst h; simp [size, size_squeezeShape ns]
    · simp [size, size_squeezeShape ns]

theorem inBounds_unsqueeze : ∀ (sh idx' : List Nat), inBounds (squeezeShape sh) idx' = true →
    inBounds sh (unsqueeze sh idx') = true
  | [], [], _ => by simp [unsqueeze, inBounds]
  | [], _ :: _, h => by simp [squeezeShape, inBounds] at h
  | n :: ns, idx', h => by
    simp only [squeezeShape] at h
    simp only [unsqueeze]
    split
    · next h1 =>
      rw [if_pos h1] at h
      subst h1
      simp [inBounds, inBounds_unsqueeze ns idx' h]
    · next h1 =>
      rw [if_neg h1] at h
      cases idx' with
      | nil => simp [inBounds] at h
      | cons i is =>
        simp only [inBounds, Bool.and_eq_true, decide_eq_true_eq] at h ⊢
        exact ⟨h.1, inBounds_unsqueeze ns is h.2⟩

theorem ravelIndex_unsqueeze : ∀ (sh idx' : List Nat), inBounds (squeezeShape sh) idx' = true →
    ravelIndex sh (unsqueeze sh idx') = ravelIndex (squeezeShape sh) idx'
  | [], idx', h => by simp [squeezeShape, ravelIndex]
  | n :: ns, idx', h => by
    simp only [squeezeShape] at h ⊢
    simp only [unsqueeze]
    split
    · next h1 =>
      rw [if_pos h1] at h
      simp [ravelIndex, ravelIndex_unsqueeze ns idx' h]
    · next h1 =>
      rw [if_neg h1] at h
      cases idx' with
      | nil => simp [inBounds] at h
      | cons i is =>
        simp only [inBounds, Bool.and_eq_true, decide_eq_true_eq] at h
        simp only [ravelIndex, size_squeezeShape, ravelIndex_unsqueeze ns is h.2]

variable {α : Type} [OfNat α 0]

theorem length_ravelC (v : NdView α) : (ravelC v).length = size v.shape := by
  simp [ravelC]

theorem length_targetPoints (x y z : NdView α) (hy : y.shape = x.shape) (hz : z.shape = x.shape) :
    (targetPoints x y z).length = size x.shape := by
  simp [targetPoints, length_ravelC, hy, hz]

theorem getElem?_targetPoints (x y z : NdView α) (hy : y.shape = x.shape) (hz : z.shape = x.shape)
    (k : Nat) (hk : k < size x.shape) :
    (targetPoints x y z)[k]? =
      some ⟨x.elem (unravel x.shape k), y.elem (unravel x.shape k), z.elem (unravel x.shape k)⟩ := by
  simp [targetPoints, ravelC, hy, hz, hk, mkPos]

end Index

/-! ## the target particles' smoothing length -/
section TargetH
variable {α : Type} [LinearOrder α]

theorem maxStep_eq_max (a x : α) : maxStep a x = max a x := by
  unfold maxStep
  by_cases h : a < x
  · rw [if_pos h, max_eq_right (le_of_lt h)]
  · rw [if_neg h, max_eq_left (not_lt.mp h)]

theorem pyMax_eq_max (a b : α) : pyMax a b = max a b := by
  unfold pyMax
  by_cases h : a < b
  · rw [if_pos h, max_eq_right (le_of_lt h)]
  · rw [if_neg h, max_eq_left (not_lt.mp h)]

theorem foldl_maxStep_ge (xs : List α) (a : α) :
    a ≤ xs.foldl maxStep a ∧ ∀ v ∈ xs, v ≤ xs.foldl maxStep a := by
  induction xs generalizing a with
  | nil => simp
  | cons x xs ih =>
    simp only [List.foldl_cons, maxStep_eq_max]
    have h := ih (max a x)
    refine ⟨le_trans (le_max_left a x) h.1, ?_⟩
    intro v hv
    rcases List.mem_cons.mp hv with e | e
    · rw [e]; exact le_trans (le_max_right a x) h.1
    · exact h.2 v e

theorem foldl_maxStep_mem (xs : List α) (a : α) :
    xs.foldl maxStep a = a ∨ xs.foldl maxStep a ∈ xs := by
  induction xs generalizing a with
  | nil => simp
  | cons x xs ih =>
    simp only [List.foldl_cons, maxStep_eq_max]
    rcases ih (max a x) with h | h
    · rcases max_choice a x with e | e
      · left; rw [h, e]
      · right; rw [h, e]; simp
    · right; exact List.mem_cons_of_mem _ h

/-- `array.h.max()` is an upper bound of the array's `h` and one of them -/
theorem npMax_spec (h : List α) (m : α) (hm : npMax h = some m) :
    (∀ v ∈ h, v ≤ m) ∧ m ∈ h := by
  cases h with
  | nil => simp [npMax] at hm
  | cons x xs =>
    simp only [npMax, Option.some.injEq] at hm
    subst hm
    have h1 := foldl_maxStep_ge xs x
    refine ⟨?_, ?_⟩
    · intro v hv
      rcases List.mem_cons.mp hv with e | e
      · rw [e]; exact h1.1
      · exact h1.2 v e
    · rcases foldl_maxStep_mem xs x with e | e
      · rw [e]; simp
      · exact List.mem_cons_of_mem _ e

theorem maxHLoop_spec (hs : List (List α)) (h0 H : α) (hH : maxHLoop hs h0 = some H) :
    h0 ≤ H ∧ (∀ h ∈ hs, ∀ v ∈ h, v ≤ H) ∧ (H = h0 ∨ ∃ h ∈ hs, H ∈ h) := by
  induction hs generalizing h0 with
  | nil =>
    simp only [maxHLoop, Option.some.injEq] at hH
    subst hH
    simp
  | cons h rest ih =>
    simp only [maxHLoop] at hH
    cases hm : npMax h with
    | none => rw [hm] at hH; simp at hH
    | some m =>
      rw [hm] at hH
      simp only [pyMax_eq_max] at hH
      have hsp := npMax_spec h m hm
      obtain ⟨i1, i2, i3⟩ := ih (max m h0) hH
      refine ⟨le_trans (le_max_right m h0) i1, ?_, ?_⟩
      · intro h' hh' v hv
        rcases List.mem_cons.mp hh' with e | e
        · subst e
          exact le_trans (hsp.1 v hv) (le_trans (le_max_left m h0) i1)
        · exact i2 h' e v hv
      · rcases i3 with e | ⟨h', hh', hv⟩
        · rcases max_choice m h0 with c | c
          · right; exact ⟨h, by simp, by rw [e, c]; exact hsp.2⟩
          · left; rw [e, c]
        · right; exact ⟨h', List.mem_cons_of_mem _ hh', hv⟩

end TargetH

/-! ## order1 over the shared density -/
section SharedDensity
variable {α : Type} [Add α] [Sub α] [Mul α] [Div α] [Neg α] [OfNat α 0] [OfNat α 1]
  [LT α] [DecidableLT α] [BEq α]

theorem order1Compute_snd (tol : α) (dim : Nat) (g : SrcGeo α) (d : Pos α) (pn : List (PtNbr α))
    (st : Store α) :
    (order1Compute tol dim g d pn st).2 = order1 tol dim d (pn.map (ptNbr (group1 g st))) := rfl

theorem rhoNbr_map_congr (st st' : Store α) (hm : st.m = st'.m) (l : List (Nat × α)) :
    (l.map (rhoNbr st)).foldl rhoStep 0 = (l.map (rhoNbr st')).foldl rhoStep 0 := by
  generalize (0 : α) = acc
  induction l generalizing acc with
  | nil => rfl
  | cons kw rest ih =>
    simp only [List.map_cons, List.foldl_cons]
    have : rhoStep acc (rhoNbr st kw) = rhoStep acc (rhoNbr st' kw) := by
      simp [rhoStep, rhoNbr, hm]
    rw [this]; exact ih _

/-- `SummationDensity` reads masses and kernel values only: not the old `rho` -/
theorem densityAt_congr (st st' : Store α) (hm : st.m = st'.m) (g : SrcGeo α) (j : Nat) :
    densityAt st g j = densityAt st' g j := by
  unfold densityAt summationDensity
  exact rhoNbr_map_congr st st' hm _

theorem group1_rho_of_mem (g : SrcGeo α) (st : Store α) (j : Nat) (h : j ∈ g.ids) :
    (group1 g st).rho j = densityAt st g j := by
  simp [group1, h]

theorem ptNbr_group1_congr (g : SrcGeo α) (st st' : Store α) (hm : st.m = st'.m)
    (hf : st.f = st'.f) (pn : List (PtNbr α)) (hin : ∀ p ∈ pn, p.k ∈ g.ids) :
    pn.map (ptNbr (group1 g st)) = pn.map (ptNbr (group1 g st')) := by
  apply List.map_congr_left
  intro p hp
  have h := hin p hp
  simp only [ptNbr]
  rw [group1_rho_of_mem g st p.k h, group1_rho_of_mem g st' p.k h, densityAt_congr st st' hm]
  simp [group1, hm, hf]

theorem srun_rhoOnly (st : Store α) (ops : List (SOp α)) (h : ∀ op ∈ ops, op.rhoOnly = true) :
    (srun st ops).m = st.m ∧ (srun st ops).f = st.f := by
  induction ops generalizing st with
  | nil => exact ⟨rfl, rfl⟩
  | cons op rest ih =>
    have hr := ih (sstep st op) (fun o ho => h o (by simp [ho]))
    have ho := h op (by simp)
    simp only [srun, List.foldl_cons] at hr ⊢
    cases op with
    | setM m => simp [SOp.rhoOnly] at ho
    | setF f => simp [SOp.rhoOnly] at ho
    | setRho r => simpa [sstep] using hr
    | otherOrder1 g' => simpa [sstep, group1] using hr

end SharedDensity

end PysphVerif.Interp
