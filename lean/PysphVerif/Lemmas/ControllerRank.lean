import PysphVerif.Lemmas.ControllerFull2
/-!
C18, repaired protocol: a ranking function.  `mu n s` is a lexicographic triple
(remaining work of the interface threads, distance of the solver to the next
event somebody may be waiting for, position inside the `while … plock.wait()`
loops).  Every step of an interface thread decreases it, and so does the
solver's step in every state in which no interface thread can move (unless
everything is finished).
-/
set_option linter.unusedVariables false
namespace PysphVerif.Controller

/-- remaining primitives of the current operation (longest branch) -/
def pcRank : IPc → Nat
  | IPc.idle => 0
  | IPc.gAcqD => 2 | IPc.gRelD _ => 1
  | IPc.sAcqD _ => 2 | IPc.sRelD => 1
  | IPc.qAcqD _ => 6 | IPc.qAcqC _ _ => 5 | IPc.qAcqQ _ _ => 4 | IPc.qNtaQ _ => 3
  | IPc.qRelQ _ => 2 | IPc.qRelD _ => 1
  | IPc.rAcqC _ => 4 | IPc.rAcqRes _ => 3 | IPc.rRelRes _ _ => 2 | IPc.rRelC _ _ => 1
  | IPc.pAcqP => 3 | IPc.pNtfP => 2 | IPc.pRelP => 1
  | IPc.wAcqP => 3 | IPc.wWaitP => 2 | IPc.wBlocked => 2 | IPc.wReacqP => 2 | IPc.wRelP => 1
  | IPc.cAcqP => 6 | IPc.cNtfP => 5 | IPc.cRelP _ => 4 | IPc.cAcqQ => 3 | IPc.cNtaQ => 2
  | IPc.cRelQ => 1

def opCost : Op → Nat
  | Op.get => 3 | Op.setNow _ => 3 | Op.queue _ => 7 | Op.getResult _ => 5 | Op.getMine _ => 5
  | Op.pause => 4 | Op.wait => 4 | Op.cont => 7

def progCost : List Op → Nat
  | [] => 0
  | op :: r => opCost op + progCost r

/-- remaining work of one interface thread -/
def rk (th : IThread) : Nat := progCost th.prog + pcRank th.pc

/-- position inside the loop `while pred: plock.wait()` -/
def waitPos : IPc → Nat
  | IPc.wReacqP => 2
  | IPc.wWaitP => 1
  | _ => 0

def ctxOff : Ctx → Nat
  | Ctx.first => 8
  | Ctx.loop => 0

/-- position of the solver on its way to the next pop / the next `paused.update` -/
def solverPos : SPc → List Tid → List Nat → Nat
  | SPc.reacqQ, _, _ => 21
  | SPc.acqQ2, p, q => if p = [] ∧ q ≠ [] then 20 else 12
  | SPc.relQ2, _, _ => 19
  | SPc.start, _, _ => 18
  | SPc.acqQ1, _, _ => 17
  | SPc.runAcqRes ctx _ _, _, _ => 8 + ctxOff ctx
  | SPc.runRelC ctx _, _, _ => 7 + ctxOff ctx
  | SPc.runRelRes ctx, _, _ => 6 + ctxOff ctx
  | SPc.relQ1, _, _ => 13
  | SPc.acqP, _, _ => 11
  | SPc.ntaP, _, _ => 10
  | SPc.relP, _, _ => 9
  | SPc.waitQ, _, _ => 5
  | SPc.blocked, _, _ => 4
  | SPc.crashed, _, _ => 0

def muSolver (s : State) : Nat := s.queue.length * 32 + solverPos s.spc s.pause s.queue

/-- Σ_{t = 1..n} f t -/
def sumTo (f : Nat → Nat) : Nat → Nat
  | 0 => 0
  | n + 1 => sumTo f n + f (n + 1)

theorem sumTo_le {f g : Nat → Nat} : ∀ n, (∀ t, 1 ≤ t → t ≤ n → f t ≤ g t) → sumTo f n ≤ sumTo g n
  | 0, _ => Nat.le_refl _
  | n + 1, h => by
    have h1 := sumTo_le n (fun t h1 h2 => h t h1 (Nat.le_succ_of_le h2))
    have h2 := h (n + 1) (Nat.succ_le_succ (Nat.zero_le _)) (Nat.le_refl _)
    simp only [sumTo]; omega

theorem sumTo_lt {f g : Nat → Nat} : ∀ n, (∀ t, 1 ≤ t → t ≤ n → f t ≤ g t) →
    (∃ t, 1 ≤ t ∧ t ≤ n ∧ f t < g t) → sumTo f n < sumTo g n
  | 0, _, ⟨t, h1, h2, _⟩ => by omega
  | n + 1, h, ⟨t, h1, h2, h3⟩ => by
    have hle := sumTo_le n (fun t h1 h2 => h t h1 (Nat.le_succ_of_le h2))
    have hlast := h (n + 1) (Nat.succ_le_succ (Nat.zero_le _)) (Nat.le_refl _)
    simp only [sumTo]
    by_cases ht : t = n + 1
    · subst ht; omega
    · have := sumTo_lt n (fun t h1 h2 => h t h1 (Nat.le_succ_of_le h2)) ⟨t, h1, by omega, h3⟩
      omega

theorem sumTo_congr {f g : Nat → Nat} (n : Nat) (h : ∀ t, 1 ≤ t → t ≤ n → f t = g t) :
    sumTo f n = sumTo g n :=
  Nat.le_antisymm (sumTo_le n (fun t h1 h2 => Nat.le_of_eq (h t h1 h2)))
    (sumTo_le n (fun t h1 h2 => Nat.le_of_eq (h t h1 h2).symm))

def muIface (n : Nat) (s : State) : Nat := sumTo (fun t => rk (s.th t)) n
def muWait (n : Nat) (s : State) : Nat := sumTo (fun t => waitPos (s.th t).pc) n

/-- lexicographic order on the triple (interface work, solver distance, wait-loop position) -/
def MuLt (n : Nat) (s' s : State) : Prop :=
  muIface n s' < muIface n s ∨
  (muIface n s' = muIface n s ∧
    (muSolver s' < muSolver s ∨ (muSolver s' = muSolver s ∧ muWait n s' < muWait n s)))

/-! ### every interface step decreases the rank -/

set_option maxHeartbeats 2000000 in
theorem iface_rank {s s' : State} {t : Tid} {evs : List Ev}
    (hw : ∀ u ∈ s.pWait, (s.th u).pc = IPc.wBlocked) (ht : t ≠ 0)
    (hs : stepIface Cfg.fixed s t = some (s', evs)) :
    (∀ j, j ≠ t → rk (s'.th j) = rk (s.th j)) ∧
    (rk (s'.th t) < rk (s.th t) ∨
      (rk (s'.th t) = rk (s.th t) ∧ waitPos (s'.th t).pc < waitPos (s.th t).pc ∧
        (∀ j, j ≠ t → s'.th j = s.th j) ∧ muSolver s' = muSolver s)) := by
  unfold stepIface at hs
  simp only [Cfg.fixed, wakeOneP, wakeQ, startOp] at hs
  (repeat' split at hs) <;>
  first
  | (cases hs; done)
  | (simp only [Bool.false_eq_true, if_false, Option.some.injEq, Prod.mk.injEq] at hs
     obtain ⟨rfl, -⟩ := hs
     simp only [setPc, rk, muSolver]
     constructor
     · grind [pcRank]
     · simp only [if_true]
       first
       | (left; simp_all [pcRank, progCost, opCost]; done)
       | (left; simp_all [pcRank, progCost, opCost]; omega)
       | (left; grind [pcRank, progCost, opCost])
       | (right; refine ⟨by simp_all [pcRank], by simp_all [waitPos], by grind, by simp_all⟩))

/-! ### solver steps: the interface ranks are untouched and the solver's distance shrinks -/

set_option maxHeartbeats 2000000 in
theorem solver_rank {s s' : State} {evs : List Ev}
    (hw : ∀ u ∈ s.pWait, (s.th u).pc = IPc.wBlocked)
    (hrq : s.spc = SPc.relQ1 → s.queue = []) (hwq : s.spc = SPc.waitQ → s.queue = [])
    (hal : s'.spc ≠ SPc.crashed)
    (hs : stepSolver Cfg.fixed s = some (s', evs)) :
    (∀ j, rk (s'.th j) = rk (s.th j)) ∧
    (muSolver s' < muSolver s ∨ (s.spc = SPc.acqQ2 ∧ s.pause = [] ∧ s.queue = [])) := by
  unfold stepSolver at hs
  simp only [Cfg.fixed, runQueue, afterRun, checkPause, wakeAllP] at hs
  (repeat' split at hs) <;>
  first
  | (cases hs; done)
  | (simp only [Option.some.injEq, Prod.mk.injEq] at hs
     obtain ⟨rfl, -⟩ := hs
     simp only [rk, muSolver]
     constructor
     · grind [pcRank]
     · have hspc := ‹s.spc = _›
       simp only [hspc, solverPos] at hrq hwq ⊢
       grind [ctxOff])

/-! ### in every unfinished state some enabled step decreases the rank -/

/-- every interface thread has returned from its last call and every queued command has run -/
def Final (n : Nat) (s : State) : Prop :=
  (∀ t, 1 ≤ t → t ≤ n → (s.th t).pc = IPc.idle ∧ (s.th t).prog = []) ∧
  s.queue = [] ∧ inflight s = []

theorem exists_decreasing_step {ps : List (List Op)} (hwf : ∀ p ∈ ps, WF false p = true)
    {s : State} (hr : Reachable Cfg.fixed (progsOf ps) s) (hnf : ¬ Final ps.length s) :
    ∃ t s' evs, t ≤ ps.length ∧ step Cfg.fixed s t = some (s', evs) ∧ MuLt ps.length s' s := by
  have hlive := reachable_live hwf hr
  have hW := reachable_w (cfg := Cfg.fixed) rfl rfl hr
  have hp := reachable_pinv hr
  have hL := reachable_locks hr
  have hS := reachable_safe hr
  have hi := (reachable_inv hr).1
  by_cases hex : ∃ t, 1 ≤ t ∧ t ≤ ps.length ∧ stepIface Cfg.fixed s t ≠ none
  · obtain ⟨t, ht1, htn, hne⟩ := hex
    have ht0 : t ≠ 0 := by omega
    cases hst : stepIface Cfg.fixed s t with
    | none => exact absurd hst hne
    | some x =>
      obtain ⟨s', evs⟩ := x
      refine ⟨t, s', evs, htn, by simp [step, ht0, hst], ?_⟩
      obtain ⟨hoth, hcase⟩ := iface_rank hW.waiting ht0 hst
      rcases hcase with hlt | ⟨heq, hwlt, hsame, hmu⟩
      · left
        apply sumTo_lt
        · intro j _ _
          by_cases hj : j = t
          · subst hj; exact Nat.le_of_lt hlt
          · exact Nat.le_of_eq (hoth j hj)
        · exact ⟨t, ht1, htn, hlt⟩
      · right
        refine ⟨?_, Or.inr ⟨hmu, ?_⟩⟩
        · apply sumTo_congr
          intro j _ _
          by_cases hj : j = t
          · subst hj; exact heq
          · exact hoth j hj
        · apply sumTo_lt
          · intro j _ _
            by_cases hj : j = t
            · subst hj; exact Nat.le_of_lt hwlt
            · rw [hsame j hj]; exact Nat.le_refl _
          · exact ⟨t, ht1, htn, hwlt⟩
  · have hst : ∀ v, Stuck s v := by
      intro v
      by_cases hv : v = 0
      · subst hv; exact stuck_zero hW.zero hlive.zprog
      · apply stuck_of_none
        by_cases hvn : v ≤ ps.length
        · cases hsv : stepIface Cfg.fixed s v with
          | none => rfl
          | some x => exact absurd ⟨v, Nat.pos_of_ne_zero hv, hvn, by simp [hsv]⟩ hex
        · have := hlive.inert v (Nat.lt_of_not_le hvn); simp [stepIface, this.1, this.2]
    cases hs0 : stepSolver Cfg.fixed s with
    | none => exact absurd hs0 (stuck_solver_moves hlive hW hp hL hS hi hst)
    | some x =>
      obtain ⟨s', evs⟩ := x
      have hstep : step Cfg.fixed s 0 = some (s', evs) := by simp [step, hs0]
      have hal := (reachable_safe (Reachable.step hr hstep)).alive
      obtain ⟨hrk, hcase⟩ := solver_rank hW.waiting hL.lq.rq hL.lq.wq hal hs0
      rcases hcase with hlt | ⟨hsp, hpe, hqe⟩
      · refine ⟨0, s', evs, Nat.zero_le _, hstep, Or.inr ⟨?_, Or.inl hlt⟩⟩
        apply sumTo_congr
        intro j _ _
        exact hrk j
      · exfalso
        apply hnf
        refine ⟨fun t _ _ => stuck_idle_all_done hlive hW hL hi hst hsp hpe hqe t, hqe, ?_⟩
        simp [inflight, hsp]

theorem lex3_induction {α : Type} (f g h : α → Nat) (P : α → Prop)
    (step : ∀ a, (∀ b, (f b < f a ∨ (f b = f a ∧ (g b < g a ∨ (g b = g a ∧ h b < h a)))) → P b) →
      P a) : ∀ a, P a := by
  intro a
  suffices hh : ∀ x y z a, f a = x → g a = y → h a = z → P a from hh _ _ _ a rfl rfl rfl
  intro x
  induction x using Nat.strongRecOn with
  | _ x ihx =>
    intro y
    induction y using Nat.strongRecOn with
    | _ y ihy =>
      intro z
      induction z using Nat.strongRecOn with
      | _ z ihz =>
        intro a hx hy hz
        apply step
        intro b hb
        rcases hb with hb | ⟨e1, hb | ⟨e2, hb⟩⟩
        · exact ihx (f b) (by omega) _ _ b rfl rfl rfl
        · exact ihy (g b) (by omega) _ b (by omega) rfl rfl
        · exact ihz (h b) (by omega) b (by omega) (by omega) rfl

/-- from every reachable state of well-formed programs some schedule finishes everything -/
theorem can_finish {ps : List (List Op)} (hwf : ∀ p ∈ ps, WF false p = true) :
    ∀ s, Reachable Cfg.fixed (progsOf ps) s →
      ∃ sched, (∀ t ∈ sched, t ≤ ps.length) ∧ runs Cfg.fixed s sched = true ∧
        Final ps.length (run Cfg.fixed s sched) := by
  apply lex3_induction (muIface ps.length) muSolver (muWait ps.length)
  intro s ih hr
  by_cases hf : Final ps.length s
  · exact ⟨[], by simp, rfl, hf⟩
  · obtain ⟨t, s', evs, htn, hstep, hlt⟩ := exists_decreasing_step hwf hr hf
    obtain ⟨sched, h1, h2, h3⟩ := ih s' hlt (Reachable.step hr hstep)
    refine ⟨t :: sched, ?_, ?_, ?_⟩
    · intro u hu
      rcases List.mem_cons.mp hu with rfl | hu
      · exact htn
      · exact h1 u hu
    · simp [runs, hstep, h2]
    · simp [run, hstep, h3]

end PysphVerif.Controller
