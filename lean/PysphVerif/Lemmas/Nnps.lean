import PysphVerif.Model.Nnps
import Mathlib.Algebra.Order.Floor.Ring
import Mathlib.Algebra.Order.Field.Basic
import Mathlib.Tactic.Ring
import Mathlib.Tactic.Linarith
import Mathlib.Tactic.Positivity
import Mathlib.Data.List.Perm.Basic
import Mathlib.Data.List.Nodup
/-!
Helper lemmas for C01 (neighbour search).  Geometry over a linearly ordered
field; storage lemmas over `Nat`.
-/
set_option linter.unusedSectionVars false
namespace PysphVerif.Nnps

/-! ## arithmetic -/
section field
variable {α : Type} [Field α] [LinearOrder α] [IsStrictOrderedRing α]

theorem sq_def (a : α) : sq a = a * a := rfl

theorem dist2_comm (p q : Pt α) : dist2 p q = dist2 q p := by
  simp only [dist2, sq]; ring

theorem dist2_nonneg (p q : Pt α) : 0 ≤ dist2 p q := by
  simp only [dist2, sq]
  have h1 := mul_self_nonneg (p.x - q.x)
  have h2 := mul_self_nonneg (p.y - q.y)
  have h3 := mul_self_nonneg (p.z - q.z)
  linarith

/-- one squared component below `r²` puts the component below `r` -/
theorem abs_lt_of_mul_self_lt {d r : α} (hr : 0 ≤ r) (h : d * d < r * r) : |d| < r := by
  by_contra hcon
  have hge : r ≤ |d| := not_lt.mp hcon
  have h2 : r * r ≤ |d| * |d| := mul_self_le_mul_self hr hge
  rw [abs_mul_abs_self] at h2
  exact absurd h (not_lt.mpr h2)

theorem lt_cell_of_dist2_lt {p q : Pt α} {r : α} (hr : 0 ≤ r) (h : dist2 p q < r * r) :
    |p.x - q.x| < r ∧ |p.y - q.y| < r ∧ |p.z - q.z| < r := by
  simp only [dist2, sq] at h
  have h1 := mul_self_nonneg (p.x - q.x)
  have h2 := mul_self_nonneg (p.y - q.y)
  have h3 := mul_self_nonneg (p.z - q.z)
  refine ⟨abs_lt_of_mul_self_lt hr ?_, abs_lt_of_mul_self_lt hr ?_, abs_lt_of_mul_self_lt hr ?_⟩
    <;> linarith

end field

section floor
variable {α : Type} [Field α] [LinearOrder α] [IsStrictOrderedRing α] [FloorRing α]

/-- points closer than one cell size land in the same or adjacent cells -/
theorem floor_adj_aux (x y c : α) (hc : 0 < c) (h : |x - y| < c) :
    (⌊x / c⌋ - ⌊y / c⌋).natAbs ≤ 1 := by
  have hxy : |x / c - y / c| < 1 := by
    rw [← sub_div, abs_div, abs_of_pos hc, div_lt_one hc]
    exact h
  rw [abs_lt] at hxy
  obtain ⟨h1, h2⟩ := hxy
  have hx := Int.floor_le (x / c)
  have hx' := Int.lt_floor_add_one (x / c)
  have hy := Int.floor_le (y / c)
  have hy' := Int.lt_floor_add_one (y / c)
  have a1 : ((⌊x / c⌋ : ℤ) : α) < (⌊y / c⌋ : α) + 2 := by linarith
  have a2 : ((⌊y / c⌋ : ℤ) : α) < (⌊x / c⌋ : α) + 2 := by linarith
  have b1 : ⌊x / c⌋ < ⌊y / c⌋ + 2 := by exact_mod_cast a1
  have b2 : ⌊y / c⌋ < ⌊x / c⌋ + 2 := by exact_mod_cast a2
  omega

end floor

/-! ## carray maximum, cell size -/
section cellsize
variable {α : Type} [Field α] [LinearOrder α] [IsStrictOrderedRing α]

theorem foldl_max_ge_init (l : List α) (a : α) :
    a ≤ l.foldl (fun m x => if m < x then x else m) a := by
  induction l generalizing a with
  | nil => exact le_refl a
  | cons b t ih =>
    simp only [List.foldl_cons]
    by_cases h : a < b
    · simp only [h, if_true]; exact le_trans (le_of_lt h) (ih b)
    · simp only [h, if_false]; exact ih a

theorem foldl_max_ge_mem (l : List α) (a x : α) (hx : x ∈ l) :
    x ≤ l.foldl (fun m x => if m < x then x else m) a := by
  induction l generalizing a with
  | nil => cases hx
  | cons b t ih =>
    simp only [List.foldl_cons]
    rcases List.mem_cons.mp hx with rfl | hx
    · by_cases h : a < x
      · simp only [h, if_true]; exact foldl_max_ge_init t x
      · simp only [h, if_false]; exact le_trans (not_lt.mp h) (foldl_max_ge_init t a)
    · exact ih _ hx

theorem carrayMax_ge (l : List α) (x : α) (hx : x ∈ l) : x ≤ carrayMax l := by
  cases l with
  | nil => cases hx
  | cons a t =>
    simp only [carrayMax]
    rcases List.mem_cons.mp hx with rfl | hx
    · exact foldl_max_ge_init t x
    · exact foldl_max_ge_mem t a x hx

theorem hmaxStep_ge_left (m : α) (hs : List α) : m ≤ hmaxStep m hs := by
  unfold hmaxStep; split
  · exact le_of_lt ‹_›
  · exact le_refl m

theorem hmaxStep_ge_right (m : α) (hs : List α) : carrayMax hs ≤ hmaxStep m hs := by
  unfold hmaxStep; split
  · exact le_refl _
  · exact not_lt.mp ‹_›

theorem foldl_hmaxStep_ge_init (hss : List (List α)) (m : α) : m ≤ hss.foldl hmaxStep m := by
  induction hss generalizing m with
  | nil => exact le_refl m
  | cons hs t ih => exact le_trans (hmaxStep_ge_left m hs) (ih _)

theorem foldl_hmaxStep_ge (hss : List (List α)) (m : α) (hs : List α) (hh : hs ∈ hss) :
    carrayMax hs ≤ hss.foldl hmaxStep m := by
  induction hss generalizing m with
  | nil => cases hh
  | cons a t ih =>
    simp only [List.foldl_cons]
    rcases List.mem_cons.mp hh with rfl | hh
    · exact le_trans (hmaxStep_ge_right m hs) (foldl_hmaxStep_ge_init t _)
    · exact ih _ hh

theorem hmaxAll_ge (hss : List (List α)) (hs : List α) (hh : hs ∈ hss) (x : α) (hx : x ∈ hs) :
    x ≤ hmaxAll hss :=
  le_trans (carrayMax_ge hs x hx) (foldl_hmaxStep_ge hss (-1) hs hh)

end cellsize

/-! ## linked list storage -/

/-- walking a chain that does not contain the freshly inserted particle is
unaffected by the insertion -/
theorem walk_insert_of_not_mem (s : LL) (i c : Nat) (fuel : Nat) (o : Option Nat)
    (h : i ∉ s.walk fuel o) : (s.insert (i, c)).walk fuel o = s.walk fuel o := by
  induction fuel generalizing o with
  | zero => cases o <;> rfl
  | succ k ih =>
    cases o with
    | none => rfl
    | some j =>
      simp only [LL.walk] at h ⊢
      have hij : i ≠ j := fun e => h (by rw [e]; exact List.mem_cons_self ..)
      have hrest : i ∉ s.walk k (s.next j) := fun hm => h (List.mem_cons_of_mem _ hm)
      have hnext : (s.insert (i, c)).next j = s.next j := by
        simp only [LL.insert]
        rw [if_neg (fun e => hij e.symm)]
      rw [hnext, ih _ hrest]

theorem walk_fuel_mono (s : LL) (l : List Nat) :
    ∀ (fuel : Nat) (o : Option Nat), s.walk fuel o = l → l.length < fuel →
      ∀ fuel', fuel ≤ fuel' → s.walk fuel' o = l := by
  induction l with
  | nil =>
    intro fuel o h hl fuel' hf
    cases o with
    | none => cases fuel' <;> rfl
    | some j =>
      cases fuel with
      | zero => simp at hl
      | succ k => simp [LL.walk] at h
  | cons a t ih =>
    intro fuel o h hl fuel' hf
    cases fuel with
    | zero => simp [LL.walk] at h
    | succ k =>
      cases o with
      | none => simp [LL.walk] at h
      | some j =>
        simp only [LL.walk, List.cons.injEq] at h
        obtain ⟨rfl, ht⟩ := h
        cases fuel' with
        | zero => omega
        | succ k' =>
          simp only [LL.walk, List.cons.injEq, true_and]
          exact ih k _ ht (by simp at hl; omega) k' (by omega)

theorem build_snoc (items : List (Nat × Nat)) (x : Nat × Nat) :
    LL.build (items ++ [x]) = (LL.build items).insert x := by
  simp [LL.build, List.foldl_append]

/-- After any insertion sequence with distinct particle ids, walking `head[c]`
(with at least as much fuel as there are particles) lists exactly the inserted
particles of flattened cell `c`, most recently inserted first — in particular
each exactly once. -/
theorem traverse_eq_bucket (items : List (Nat × Nat))
    (hnd : (items.map (·.1)).Nodup) (c : Nat) :
    ∀ n, items.length ≤ n →
      (LL.build items).traverse n c =
        ((items.filter (fun ic => ic.2 = c)).map (·.1)).reverse := by
  induction items using List.reverseRecOn with
  | nil =>
    intro n _
    simp [LL.traverse, LL.build, LL.empty]
    cases n <;> rfl
  | append_singleton items x ih =>
    intro n hn
    obtain ⟨i, c'⟩ := x
    have hnd' : (items.map (·.1)).Nodup ∧ i ∉ items.map (·.1) := by
      rw [List.map_append, List.nodup_append] at hnd
      refine ⟨hnd.1, fun hm => ?_⟩
      exact hnd.2.2 i hm i (by simp) rfl
    have hlen : items.length + 1 ≤ n := by simpa using hn
    have ihn := ih hnd'.1
    have hnotin : ∀ m, items.length ≤ m → i ∉ (LL.build items).walk m ((LL.build items).head c) := by
      intro m hm hmem
      have := ihn m hm
      simp only [LL.traverse] at this
      rw [this] at hmem
      simp only [List.mem_reverse, List.mem_map, List.mem_filter] at hmem
      obtain ⟨a, ⟨ha, _⟩, hai⟩ := hmem
      exact hnd'.2 (List.mem_map.mpr ⟨a, ha, hai⟩)
    rw [build_snoc]
    simp only [LL.traverse, List.filter_append, List.map_append, List.reverse_append]
    by_cases hcc : c' = c
    · subst hcc
      obtain ⟨m, rfl⟩ : ∃ m, n = m + 1 := ⟨n - 1, by omega⟩
      have hm : items.length ≤ m := by omega
      have hhead : ((LL.build items).insert (i, c')).head c' = some i := by simp [LL.insert]
      have hnext : ((LL.build items).insert (i, c')).next i = (LL.build items).head c' := by
        simp [LL.insert]
      rw [hhead]
      simp only [LL.walk, hnext]
      rw [walk_insert_of_not_mem _ _ _ _ _ (hnotin m hm)]
      have := ihn m hm
      simp only [LL.traverse] at this
      rw [this]
      simp
    · have hhead : ((LL.build items).insert (i, c')).head c = (LL.build items).head c := by
        simp only [LL.insert]
        rw [if_neg (fun e => hcc e.symm)]
      rw [hhead, walk_insert_of_not_mem _ _ _ _ _ (hnotin n (by omega))]
      have := ihn n (by omega)
      simp only [LL.traverse] at this
      rw [this]
      simp [hcc]

/-! ## neighbour cache -/

/-- what the cache promises for destination `d` -/
def Cache.Good (find : Nat → List Nat) (s : Cache) (d : Nat) : Prop :=
  s.stop d = s.start d + (find d).length ∧
  s.stop d ≤ (s.bufs (s.tid d)).length ∧ s.view d = find d

def Cache.Inv (find : Nat → List Nat) (s : Cache) : Prop :=
  ∀ d, s.cached d = true → Cache.Good find s d

theorem Cache.inv_reset (find : Nat → List Nat) : Cache.Inv find Cache.reset := by
  intro d h; simp [Cache.reset] at h

theorem drop_take_append_of_le (l m : List Nat) (a n : Nat) (h : a + n ≤ l.length) :
    ((l ++ m).drop a).take n = (l.drop a).take n := by
  rw [List.drop_append_of_le_length (by omega)]
  rw [List.take_append_of_le_length (by simp; omega)]

theorem Cache.inv_fill (find : Nat → List Nat) (s : Cache) (td : Nat × Nat)
    (h : Cache.Inv find s) : Cache.Inv find (s.fill find td) := by
  intro e he
  by_cases hed : e = td.2
  · subst hed
    refine ⟨?_, ?_, ?_⟩
    · simp [Cache.fill]
    · simp [Cache.fill]
    · simp [Cache.view, Cache.fill]
  · have hc : s.cached e = true := by simpa [Cache.fill, hed] using he
    obtain ⟨h1, h2, h3⟩ := h e hc
    refine ⟨?_, ?_, ?_⟩
    · simpa [Cache.fill, hed] using h1
    · simp only [Cache.fill, hed, if_false]
      by_cases ht : s.tid e = td.1
      · simp only [ht, if_true, List.length_append]
        rw [ht] at h2; omega
      · simp only [ht, if_false]; exact h2
    · simp only [Cache.view, Cache.fill, hed, if_false]
      by_cases ht : s.tid e = td.1
      · simp only [ht, if_true]
        rw [ht] at h2
        have := drop_take_append_of_le (s.bufs td.1) (find td.2) (s.start e)
          (s.stop e - s.start e) (by omega)
        rw [this]
        simpa [Cache.view, ht] using h3
      · simp only [ht, if_false]
        simpa [Cache.view] using h3

theorem Cache.inv_fillGuarded (find : Nat → List Nat) (s : Cache) (td : Nat × Nat)
    (h : Cache.Inv find s) : Cache.Inv find (Cache.fillGuarded find s td) := by
  unfold Cache.fillGuarded; split
  · exact h
  · exact Cache.inv_fill find s td h

theorem Cache.inv_run (find : Nat → List Nat) (sched : List (Nat × Nat)) (s : Cache)
    (h : Cache.Inv find s) : Cache.Inv find (Cache.run find s sched) := by
  induction sched generalizing s with
  | nil => exact h
  | cons td t ih =>
    simp only [Cache.run, List.foldl_cons]
    exact ih _ (Cache.inv_fillGuarded find s td h)

theorem Cache.cached_fillGuarded (find : Nat → List Nat) (s : Cache) (t d : Nat) :
    (Cache.fillGuarded find s (t, d)).cached d = true := by
  unfold Cache.fillGuarded
  by_cases h : s.cached d = true
  · simp [h]
  · simp [h, Cache.fill]

end PysphVerif.Nnps
