import PysphVerif.Lemmas.DumpLoadMany
/-!
Helper lemmas for C11, version-1 npz reader (`get_particle_array(name=…, **arrays)`):
the file stores only name → data, so every `add_property` call is made with
`default=None`, `stride=1` and a C type guessed from the name.
-/
set_option linter.unusedSectionVars false
namespace PysphVerif.DumpLoad

variable {V : Type} [PVal V] [DecidableEq V]

/-- the default a version-1 file leaves a property with: whatever `clear()` /
`get_particle_array` use for that NAME (the source array's default is not stored) -/
def v1Dflt (n : String) : V := if n = "gid" then PVal.uintMax else PVal.zero

def DfltInv (ps : List (PropRec V)) : Prop := ∀ p ∈ ps, p.default = v1Dflt p.name

def v1ReqStored (e : String × List V) : AddReq V :=
  { name := e.1, ty := v1CType e.1, dflt := v1Dflt e.1, data := some e.2, stride := 1 }

def v1ReqDefault (np : Nat) (n : String) : AddReq V :=
  { name := n, ty := v1CType n, dflt := v1Dflt n,
    data := if n = "gid" then some (List.replicate np PVal.uintMax) else none, stride := 1 }

def v1Missing (arrs : List (String × List V)) : List String :=
  defaultPropNames.filter (fun n => !(arrs.any (fun e => e.1 == n)))

/-- `default=None` picks the default the name already has, which is `v1Dflt` -/
theorem addProperty_none (pa : PArr V) (hd : DfltInv pa.props)
    (hgid : ∃ p ∈ pa.props, p.name = "gid")
    (n : String) (ty : CType) (data? : Option (List V)) (s : Nat) :
    addProperty pa n ty none data? s = addProperty pa n ty (some (v1Dflt n)) data? s := by
  cases hf : findProp pa.props n with
  | none =>
    have hn : n ≠ "gid" := by
      rintro rfl
      obtain ⟨p', hp'⟩ := findProp_isSome_of_mem pa.props "gid" hgid
      rw [hp'] at hf; cases hf
    have hv : (v1Dflt n : V) = PVal.zero := by simp [v1Dflt, hn]
    rw [hv]
    simp only [addProperty, hf]
  | some p =>
    have hp : p ∈ pa.props := List.mem_of_find?_eq_some hf
    have hn : p.name = n := by
      have := List.find?_some hf
      simpa using this
    have hv : (v1Dflt n : V) = p.default := by rw [hd p hp, hn]
    rw [hv]
    simp only [addProperty, hf]

theorem stepProps_dflt (ps : List (PropRec V)) (nP : Nat) (r : AddReq V) (hd : DfltInv ps)
    (hr : r.dflt = v1Dflt r.name) : DfltInv (stepProps ps nP r) := by
  intro p' hp'
  rcases mem_stepProps.1 hp' with ⟨p, hp, e⟩ | ⟨_, e⟩
  · subst e
    rw [stepRec_name]
    unfold stepRec
    split
    · rename_i hn
      simp only []
      rw [hr, hn]
    · exact hd p hp
  · subst e
    simp [freshRec, hr]

/-- a run of `add_property` calls that all use the name's own default -/
theorem foldReq_ok {α : Type} {num : Nat} (step : PArr V → α → Except String (PArr V))
    (req : α → AddReq V)
    (hstep : ∀ pa a, DfltInv pa.props → (∃ p ∈ pa.props, p.name = "gid") →
      step pa a = addReq pa (req a))
    (hdf : ∀ a, (req a).dflt = v1Dflt (req a).name) (l : List α) :
    ∀ (done : List (AddReq V)) (nP : Nat) (pa : PArr V),
    SInv num done nP pa.props → DfltInv pa.props →
    (∀ a ∈ l, ReqOK num (req a)) →
    ((done ++ l.map req).map (·.name)).Nodup →
    ∃ pa' nP', l.foldlM step pa = .ok pa' ∧ pa'.name = pa.name ∧ pa'.consts = pa.consts ∧
      pa'.outArrs = pa.outArrs ∧ SInv num (done ++ l.map req) nP' pa'.props ∧
      DfltInv pa'.props := by
  induction l with
  | nil =>
    intro done nP pa h hd _ _
    exact ⟨pa, nP, rfl, rfl, rfl, rfl, by simpa using h, hd⟩
  | cons a as ih =>
    intro done nP pa h hd hok hnd
    have hnew : ∀ q ∈ done, q.name ≠ (req a).name := by
      intro q hq e
      rw [List.map_append, List.nodup_append] at hnd
      exact hnd.2.2 q.name (List.mem_map.2 ⟨q, hq, rfl⟩) (req a).name
        (List.mem_map.2 ⟨req a, by simp, rfl⟩) e
    obtain ⟨pa1, h1, hp1, hn1, hc1, ho1, hinv1⟩ :=
      addReq_ok pa h (req a) (hok a (by simp)) hnew
    have hd1 : DfltInv pa1.props := by
      rw [hp1]; exact stepProps_dflt _ _ _ hd (hdf a)
    have hnd' : (((done ++ [req a]) ++ as.map req).map (·.name)).Nodup := by
      simpa [List.append_assoc] using hnd
    obtain ⟨pa2, nP2, h2, hn2, hc2, ho2, hinv2, hd2⟩ :=
      ih (done ++ [req a]) _ pa1 hinv1 hd1 (fun q hq => hok q (by simp [hq])) hnd'
    refine ⟨pa2, nP2, ?_, hn2.trans hn1, hc2.trans hc1, ho2.trans ho1, by
      simpa [List.append_assoc] using hinv2, hd2⟩
    have hs := hstep pa a hd (h.hasBase "gid" (Or.inr (Or.inr rfl)))
    simp only [List.foldlM_cons, hs, h1, bind, Except.bind]
    exact h2

theorem v1AddDefault_eq (np nv : Nat)
    (hb : bcast nv (List.replicate np (PVal.uintMax : V)) = List.replicate np PVal.uintMax)
    (pa : PArr V) (n : String) :
    v1AddDefault np nv pa n = addReq pa (v1ReqDefault np n) := by
  unfold v1AddDefault addReq v1ReqDefault
  by_cases h1 : n = "gid"
  · subst h1
    simp [hb, v1CType, v1Dflt]
  · by_cases h2 : n = "tag"
    · subst h2; simp [v1CType, v1Dflt]
    · by_cases h3 : n = "pid"
      · subst h3; simp [v1CType, v1Dflt]
      · simp [h1, h2, h3, v1CType, v1Dflt]

theorem foldl_max_le (num : Nat) (arrs : List (String × List V))
    (h : ∀ e ∈ arrs, e.2.length ≤ num) :
    ∀ acc, acc ≤ num → arrs.foldl (fun nv e => max nv e.2.length) acc ≤ num := by
  induction arrs with
  | nil => intro acc ha; exact ha
  | cons e es ih =>
    intro acc ha
    simp only [List.foldl_cons]
    exact ih (fun x hx => h x (by simp [hx])) _ (Nat.max_le.2 ⟨ha, h e (by simp)⟩)

/-- the version-1 reader on a file whose arrays all have `num` entries: no
broadcast happens and `np` is `num` -/
theorem loadV1Arr_eq (name : String) (arrs : List (String × List V)) (num : Nat)
    (hne : arrs ≠ []) (hlen : ∀ x ∈ arrs, x.2.length = num) :
    loadV1Arr name arrs =
      ((arrs.foldlM v1AddStored (emptyArr name)).bind fun pa1 =>
       ((v1Missing arrs).foldlM (fun pa n => addReq pa (v1ReqDefault num n)) pa1).bind fun pa2 =>
       (alignParticles pa2).bind fun pa3 => setOutputArrays pa3 v1OutArrs) := by
  obtain ⟨e, hlast⟩ : ∃ e, arrs.getLast? = some e := by
    cases h : arrs.getLast? with
    | none => exact absurd (List.getLast?_eq_none_iff.1 h) hne
    | some e => exact ⟨e, rfl⟩
  have hel : e.2.length = num := hlen e (List.mem_of_getLast? hlast)
  have hnv : ∀ g, g ≤ num → arrs.foldl (fun nv e => max nv e.2.length) g ≤ num :=
    fun g hg => foldl_max_le num arrs (fun x hx => Nat.le_of_eq (hlen x hx)) g hg
  have hmap : ∀ nv, nv ≤ num → arrs.map (fun e => (e.1, bcast nv e.2)) = arrs := by
    intro nv hnv'
    rw [List.map_congr_left (g := id)]
    · simp
    · intro x hx
      have := bcast_id nv num 1 x.2 hnv' (by rw [hlen x hx, Nat.mul_one])
      simp [this]
  have hdef : ∀ nv, nv ≤ num → v1AddDefault (V := V) num nv =
      fun pa n => addReq pa (v1ReqDefault num n) := by
    intro nv hnv'
    funext pa n
    exact v1AddDefault_eq num nv (bcast_id nv num 1 _ hnv' (by simp)) pa n
  simp only [loadV1Arr, hlast, hel]
  have hg : (if (List.filter (fun n => !(arrs.any (fun e => e.1 == n))) defaultPropNames).contains
      "gid" = true then num else 0) ≤ num := by
    split <;> omega
  rw [hmap _ (hnv _ hg), hdef _ (hnv _ hg)]
  rfl

theorem eq_of_name_eq (ps : List (PropRec V)) (hnd : (ps.map (·.name)).Nodup)
    (p q : PropRec V) (hp : p ∈ ps) (hq : q ∈ ps) (h : p.name = q.name) : p = q := by
  have h1 := findProp_of_mem ps q.name hnd p hp h
  have h2 := findProp_of_mem ps q.name hnd q hq rfl
  rw [h1] at h2
  exact Option.some.inj h2

/-- what the version-1 reader delivers for source array `pa` written with options `o` -/
structure V1Loaded (o : Opts) (pa q : PArr V) : Prop where
  name : q.name = pa.name
  outArrs : q.outArrs = v1OutArrs
  consts : q.consts = []
  nodup : (q.props.map (·.name)).Nodup
  /-- every stored property comes back with exactly the stored slice -/
  stored : ∀ p ∈ pa.props, p.name ∈ storedNames pa o.detailed →
    ∃ p' ∈ q.props, p'.name = p.name ∧ p'.data = p.data.take (numParticles pa o.onlyReal)
  /-- every default property of `get_particle_array` exists -/
  defaults : ∀ n ∈ defaultPropNames, ∃ p' ∈ q.props, p'.name = n
  noExtra : ∀ p' ∈ q.props, p'.name ∈ storedNames pa o.detailed ∨ p'.name ∈ defaultPropNames
  /-- C type, stride and default are functions of the NAME: the source's are lost -/
  byName : ∀ p' ∈ q.props, p'.ctype = v1CType p'.name ∧ p'.stride = 1 ∧ p'.default = v1Dflt p'.name
  coh : ∃ n, (n = 0 ∨ n = numParticles pa o.onlyReal) ∧ ∀ p' ∈ q.props, p'.data.length = n
  nreal : ∀ t ∈ q.props, t.name = "tag" → q.nReal = countLocal t.data

theorem v1CType_base (n : String) (h : isBase n) : v1CType n = baseTy n := by
  rcases h with rfl | rfl | rfl <;> decide

theorem base_default (n : String) (h : isBase n) : n ∈ defaultPropNames := by
  rcases h with rfl | rfl | rfl <;> decide

/-- version 1: reading back what `dump_v1` wrote for a well-formed array whose
stored properties all have stride 1 -/
theorem loadV1_spec (pa : PArr V) (hwf : WF pa) (o : Opts)
    (hs1 : ∀ p ∈ pa.props, p.name ∈ storedNames pa o.detailed → p.stride = 1) :
    ∃ arrs q, getPropertyArrays pa o.detailed o.onlyReal = some arrs ∧
      loadV1Arr pa.name arrs = .ok q ∧ V1Loaded o pa q := by
  obtain ⟨arrs, hg, harrs⟩ := gpa_spec pa o.detailed o.onlyReal (storedNames_sub pa hwf _)
  have hknd : (arrs.map (·.1)).Nodup := gpa_keys_nodup pa _ _ [] arrs (by simp) hg
  have hent : ∀ e ∈ arrs, ∃ p ∈ pa.props, p.name = e.1 ∧ e.1 ∈ storedNames pa o.detailed ∧
      e.2 = p.data.take (numParticles pa o.onlyReal) ∧
      e.2.length = numParticles pa o.onlyReal := by
    intro e he
    have hget := dictGet?_of_mem arrs hknd e he
    have h2 := hget
    rw [harrs e.1] at h2
    split at h2
    · rename_i hst
      obtain ⟨p, hp, hpn⟩ := storedNames_sub pa hwf _ e.1 hst
      have hs := hs1 p hp (by rw [hpn]; exact hst)
      have hlen := (reqOK_of_wf pa hwf o.detailed o.onlyReal arrs harrs p hp).len e.2
        (by show dictGet? arrs p.name = some e.2; rw [hpn]; exact hget)
      simp only [sliceOf, findProp_of_mem pa.props e.1 hwf.nodup p hp hpn, Option.map_some,
        Option.some.injEq] at h2
      refine ⟨p, hp, hpn, hst, ?_, ?_⟩
      · rw [← h2, hs, Nat.mul_one]
      · have : (reqOf arrs p).stride = 1 := hs
        rw [hlen, this, Nat.mul_one]
    · cases h2
  have hstoredEnt : ∀ p ∈ pa.props, p.name ∈ storedNames pa o.detailed →
      (p.name, p.data.take (numParticles pa o.onlyReal)) ∈ arrs := by
    intro p hp hst
    apply mem_of_dictGet?
    rw [harrs p.name, if_pos hst]
    simp [sliceOf, findProp_of_mem pa.props p.name hwf.nodup p hp rfl, hs1 p hp hst]
  have hne : arrs ≠ [] := by
    have hsn : ∃ n, n ∈ storedNames pa o.detailed := by
      unfold storedNames
      split
      · obtain ⟨p, hp, _⟩ := hwf.hasBase "tag" (Or.inl rfl)
        exact ⟨p.name, List.mem_map.2 ⟨p, hp, rfl⟩⟩
      · rename_i h
        cases ho : pa.outArrs with
        | nil => simp [ho] at h
        | cons a as => exact ⟨a, by simp⟩
    obtain ⟨n, hn⟩ := hsn
    obtain ⟨p, hp, hpn⟩ := storedNames_sub pa hwf _ n hn
    have := hstoredEnt p hp (by rw [hpn]; exact hn)
    intro e; rw [e] at this; cases this
  have hload := loadV1Arr_eq pa.name arrs (numParticles pa o.onlyReal) hne
    (fun x hx => (hent x hx).choose_spec.2.2.2.2)
  -- the stored arrays
  obtain ⟨pa1, nP1, hf1, hn1, hc1, ho1, hinv1, hd1⟩ :=
    foldReq_ok (num := numParticles pa o.onlyReal) v1AddStored v1ReqStored
      (fun pa' e hd hgid => addProperty_none pa' hd hgid e.1 (v1CType e.1) (some e.2) 1)
      (fun _ => rfl) arrs [] 0 (emptyArr pa.name) (sinv_clear _)
      (by intro p hp
          simp only [emptyArr, clearProps, List.mem_cons, List.not_mem_nil, or_false] at hp
          rcases hp with e | e | e <;> subst e <;> simp [v1Dflt])
      (by intro e he
          obtain ⟨_, _, _, _, _, hl⟩ := hent e he
          exact ⟨Nat.le_refl 1, fun d hd => by
            simp only [v1ReqStored, Option.some.injEq] at hd ⊢
            rw [← hd, hl, Nat.mul_one], fun hb => ⟨rfl, v1CType_base _ hb⟩⟩)
      (by simpa [List.map_map, Function.comp_def, v1ReqStored] using hknd)
  simp only [List.nil_append] at hinv1
  -- the default properties that were not passed
  have hmnd : (v1Missing arrs).Nodup := List.Nodup.sublist List.filter_sublist (by decide)
  have hmdis : ∀ n ∈ v1Missing arrs, n ∉ arrs.map (·.1) := by
    intro n hn hk
    simp only [v1Missing, List.mem_filter, Bool.not_eq_true', List.any_eq_false, beq_iff_eq] at hn
    obtain ⟨x, hx, hxn⟩ := List.mem_map.1 hk
    exact hn.2 x hx hxn
  obtain ⟨pa2, nP2, hf2, hn2, hc2, ho2, hinv2, hd2⟩ :=
    foldReq_ok (num := numParticles pa o.onlyReal)
      (fun pa' n => addReq pa' (v1ReqDefault (numParticles pa o.onlyReal) n))
      (v1ReqDefault (numParticles pa o.onlyReal))
      (fun _ _ _ _ => rfl) (fun _ => rfl) (v1Missing arrs) (arrs.map v1ReqStored) nP1 pa1 hinv1 hd1
      (by intro n _
          refine ⟨Nat.le_refl 1, fun d hd => ?_, fun hb => ⟨rfl, v1CType_base _ hb⟩⟩
          simp only [v1ReqDefault] at hd ⊢
          split at hd
          · simp only [Option.some.injEq] at hd
            rw [← hd]; simp
          · cases hd)
      (by rw [List.map_append, List.nodup_append]
          refine ⟨by simpa [List.map_map, Function.comp_def, v1ReqStored] using hknd,
            by simpa [List.map_map, Function.comp_def, v1ReqDefault] using hmnd, ?_⟩
          intro a ha b hb hab
          simp only [List.map_map, Function.comp_def, v1ReqStored, v1ReqDefault,
            List.map_id'] at ha hb
          subst hab
          exact hmdis a hb ha)
  -- facts about the served requests
  have hdoneName : ∀ r ∈ arrs.map v1ReqStored ++ (v1Missing arrs).map
      (v1ReqDefault (numParticles pa o.onlyReal)),
      r.ty = v1CType r.name ∧ r.stride = 1 ∧
      (r.name ∈ storedNames pa o.detailed ∨ r.name ∈ defaultPropNames) := by
    intro r hr
    rcases List.mem_append.1 hr with h | h
    · obtain ⟨e, he, rfl⟩ := List.mem_map.1 h
      exact ⟨rfl, rfl, Or.inl (hent e he).choose_spec.2.2.1⟩
    · obtain ⟨n, hn, rfl⟩ := List.mem_map.1 h
      exact ⟨rfl, rfl, Or.inr (List.mem_filter.1 hn).1⟩
  have hdefDone : ∀ n ∈ defaultPropNames, ∃ r ∈ arrs.map v1ReqStored ++ (v1Missing arrs).map
      (v1ReqDefault (numParticles pa o.onlyReal)), r.name = n := by
    intro n hn
    by_cases hk : arrs.any (fun e => e.1 == n) = true
    · simp only [List.any_eq_true, beq_iff_eq] at hk
      obtain ⟨e, he, hen⟩ := hk
      exact ⟨v1ReqStored e, List.mem_append.2 (Or.inl (List.mem_map.2 ⟨e, he, rfl⟩)), hen⟩
    · refine ⟨v1ReqDefault _ n, List.mem_append.2 (Or.inr (List.mem_map.2 ⟨n, ?_, rfl⟩)), rfl⟩
      simp only [v1Missing, List.mem_filter]
      have hf : arrs.any (fun e => e.1 == n) = false := Bool.eq_false_iff.2 hk
      exact ⟨hn, by simp only [hf]; rfl⟩
  have hdefProp : ∀ n ∈ defaultPropNames, ∃ p' ∈ pa2.props, p'.name = n := by
    intro n hn
    obtain ⟨r, hr, hrn⟩ := hdefDone n hn
    obtain ⟨p', hp', e, _⟩ := hinv2.doneMeta r hr
    exact ⟨p', hp', e.trans hrn⟩
  have hdoneOf : ∀ p' ∈ pa2.props, ∃ r ∈ arrs.map v1ReqStored ++ (v1Missing arrs).map
      (v1ReqDefault (numParticles pa o.onlyReal)), r.name = p'.name := by
    intro p' hp'
    rcases hinv2.names p' hp' with hb | h
    · exact hdefDone _ (base_default _ hb)
    · exact h
  -- align_particles
  obtain ⟨t, ht, htn⟩ := hinv2.hasBase "tag" (Or.inl rfl)
  have hft := findProp_of_mem pa2.props "tag" hinv2.nodup t ht htn
  have hnp := numParticles_of_inv pa2 hinv2
  have htl : t.data.length = nP2 := by
    have h2 := hinv2.coh t ht
    rw [(hinv2.baseMeta t ht (by rw [htn]; exact Or.inl rfl)).1] at h2
    simpa using h2
  obtain ⟨tp, htp, htpn⟩ := hwf.hasBase "tag" (Or.inl rfl)
  have htagc : (∃ k x, t.data = List.replicate k x) ∨
      (∃ r ∈ pa.props.map (reqOf arrs), r.name = "tag" ∧ r.data = some t.data) := by
    rcases hinv2.tagc t ht htn with h | ⟨r, hr, hrn, hrd⟩
    · exact Or.inl h
    · right
      rcases List.mem_append.1 hr with h | h
      · obtain ⟨e, he, rfl⟩ := List.mem_map.1 h
        simp only [v1ReqStored, Option.some.injEq] at hrn hrd
        refine ⟨reqOf arrs tp, List.mem_map.2 ⟨tp, htp, rfl⟩, htpn, ?_⟩
        show dictGet? arrs tp.name = some t.data
        rw [htpn, ← hrn, ← hrd]
        exact dictGet?_of_mem arrs hknd e he
      · obtain ⟨n, hn, rfl⟩ := List.mem_map.1 h
        simp only [v1ReqDefault] at hrn hrd
        subst hrn
        simp at hrd
  obtain ⟨k, rest, hk, hrest⟩ := tag_aligned pa hwf _ _ arrs harrs _ (List.Perm.refl _) t.data htagc
  have hal := alignIndex_aligned k rest hrest
  have halign : alignParticles pa2 = .ok { pa2 with nReal := k } := by
    simp only [alignParticles, hft, hnp]
    rw [← htl, List.take_length, hk, hal.1, hal.2]
    simp
  have hcount : countLocal t.data = k := by
    unfold countLocal
    rw [← List.countP_eq_length_filter]
    have h3 : (t.data.map (fun x => x == (PVal.zero : V))).countP id = k := by
      rw [hk, List.countP_append, List.countP_replicate]
      have : rest.countP id = 0 := by
        rw [List.countP_eq_zero]
        intro b hb; rw [hrest b hb]; simp
      simp [this]
    rw [List.countP_map] at h3
    exact h3
  have hout : setOutputArrays ({ pa2 with nReal := k } : PArr V) v1OutArrs =
      .ok { pa2 with nReal := k, outArrs := v1OutArrs } := by
    apply setOutputArrays_ok
    intro n hn
    exact hdefProp n (by revert n; decide)
  refine ⟨arrs, { pa2 with nReal := k, outArrs := v1OutArrs }, hg, ?_, ?_⟩
  · rw [hload]
    simp only [hf1, hf2, Except.bind, halign, hout]
  · refine { name := hn2.trans hn1, outArrs := rfl, consts := by simp [hc2, hc1, emptyArr],
             nodup := hinv2.nodup, stored := ?_, defaults := hdefProp, noExtra := ?_,
             byName := ?_, coh := ⟨nP2, hinv2.np, ?_⟩, nreal := ?_ }
    · intro p hp hst
      have he := hstoredEnt p hp hst
      obtain ⟨p', hp', e1, _, _, _, e5⟩ := hinv2.doneMeta (v1ReqStored (p.name, _))
        (List.mem_append.2 (Or.inl (List.mem_map.2 ⟨_, he, rfl⟩)))
      exact ⟨p', hp', e1, e5 _ rfl⟩
    · intro p' hp'
      obtain ⟨r, hr, hrn⟩ := hdoneOf p' hp'
      rw [← hrn]; exact (hdoneName r hr).2.2
    · intro p' hp'
      obtain ⟨r, hr, hrn⟩ := hdoneOf p' hp'
      obtain ⟨p'', hp'', e1, e2, e3, _⟩ := hinv2.doneMeta r hr
      have : p'' = p' := eq_of_name_eq _ hinv2.nodup _ _ hp'' hp' (e1.trans hrn)
      subst this
      obtain ⟨a, b, _⟩ := hdoneName r hr
      exact ⟨by rw [e2, a, e1], by rw [e3, b], hd2 _ hp'⟩
    · intro p' hp'
      have h1 := hinv2.coh p' hp'
      obtain ⟨r, hr, hrn⟩ := hdoneOf p' hp'
      obtain ⟨p'', hp'', e1, e2, e3, _⟩ := hinv2.doneMeta r hr
      have : p'' = p' := eq_of_name_eq _ hinv2.nodup _ _ hp'' hp' (e1.trans hrn)
      subst this
      rw [h1, e3, (hdoneName r hr).2.1, Nat.mul_one]
    · intro t' ht' ht'n
      have : t' = t := eq_of_name_eq _ hinv2.nodup _ _ ht' ht (ht'n.trans htn.symm)
      rw [this, hcount]

/-! ### several arrays in one version-1 file -/

theorem dumpV1_many {S : Type} (o : Opts) (arrays : List (PArr V))
    (hg : ∀ pa ∈ arrays, getPropertyArrays pa o.detailed o.onlyReal = some (arrsOf o pa))
    (hnd : (arrays.map (·.name)).Nodup) (sd : List (String × S)) :
    dumpV1 o arrays sd = some (File.npz1 sd (arrays.map (fun pa => (pa.name, arrsOf o pa)))) := by
  have h : (arrays.foldlM (v1Step o) [] : Option _) = arrays.foldlM (arrayDataStep o) [] := rfl
  simp only [dumpV1, h]
  rw [arrayData_fold o arrays hg [] (by simpa using hnd)]
  simp

theorem loadV1_many {S : Type} (arrays : List (PArr V)) (hwf : ∀ pa ∈ arrays, WF pa)
    (hnd : (arrays.map (·.name)).Nodup) (o : Opts) (sd : List (String × S))
    (hs1 : ∀ pa ∈ arrays, ∀ p ∈ pa.props, p.name ∈ storedNames pa o.detailed → p.stride = 1) :
    (∀ pa ∈ arrays, getPropertyArrays pa o.detailed o.onlyReal = some (arrsOf o pa)) ∧
    ∃ qs, load (File.npz1 sd (arrays.map (fun pa => (pa.name, arrsOf o pa)))) = .ok (sd, qs) ∧
      List.Forall₂ (fun pa e => e.1 = pa.name ∧ V1Loaded o pa e.2) arrays qs := by
  have hspec : ∀ pa ∈ arrays, getPropertyArrays pa o.detailed o.onlyReal = some (arrsOf o pa) ∧
      ∃ e : String × PArr V, e.1 = pa.name ∧
        loadV1Arr pa.name (arrsOf o pa) = .ok e.2 ∧ V1Loaded o pa e.2 := by
    intro pa hpa
    obtain ⟨arrs, q, hg, hl, hv⟩ := loadV1_spec pa (hwf pa hpa) o (hs1 pa hpa)
    have ha : arrsOf o pa = arrs := by simp [arrsOf, hg]
    rw [ha]
    exact ⟨hg, (pa.name, q), rfl, hl, hv⟩
  refine ⟨fun pa hpa => (hspec pa hpa).1, ?_⟩
  obtain ⟨qs, hqs⟩ := forall2_exists _ arrays (fun pa hpa => (hspec pa hpa).2)
  refine ⟨qs, ?_, forall2_imp hqs (fun pa _ e h => ⟨h.1, h.2.2⟩)⟩
  have := collect_fold loadV1Arr (fun pa : PArr V => (pa.name, arrsOf o pa)) _
    (fun pa e h => ⟨h.1, h.2.1⟩) arrays qs hqs [] (by simpa using hnd)
  simp only [load, this, Except.map, List.nil_append]

end PysphVerif.DumpLoad
