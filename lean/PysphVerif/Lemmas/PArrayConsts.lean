import PysphVerif.Lemmas.PArrayStep
/-!
C06 helper lemmas, part E: constants are only touched by the operations that
are meant to touch them.
-/
namespace PysphVerif.PArray

theorem align_consts (pa : PA) : pa.align.consts = pa.consts := by
  unfold PA.align
  rcases alignIndex pa.tags with ⟨idx, nreal, moves⟩
  simp only []
  split <;> rfl

theorem addParticles_consts {pa pa' : PA} (al : Bool) (given : List (String × List Int))
    (hr : pa.addParticles al given = some pa') : pa'.consts = pa.consts := by
  unfold PA.addParticles at hr
  split at hr
  · simp only [Option.some.injEq] at hr; subst hr; rfl
  · split at hr
    · exact absurd hr (by simp)
    · simp only [Option.some.injEq] at hr; subst hr
      split
      · rw [align_consts]
      · rfl

theorem removeParticles_consts {pa pa' : PA} (idx : List Nat) (al : Bool)
    (hr : pa.removeParticles idx al = some pa') : pa'.consts = pa.consts := by
  unfold PA.removeParticles at hr
  split at hr
  · exact absurd hr (by simp)
  · simp only [Option.some.injEq] at hr; subst hr
    split
    · rw [align_consts]; rfl
    · rfl

theorem setTag_consts (pa : PA) (t : Int) (idx : List Nat) : (pa.setTag t idx).consts = pa.consts := by
  unfold PA.setTag
  split
  · rw [setCol_consts]
  · rfl

theorem removeProperty_consts (pa : PA) (nm : String) : (pa.removeProperty nm).consts = pa.consts := by
  unfold PA.removeProperty
  by_cases hp : pa.hasProp nm = true <;> simp [hp]

theorem setProp_consts {pa pa' : PA} (nm : String) (d : List Int) (hp : pa.hasProp nm = true)
    (hr : pa.setProp nm d = some pa') : pa'.consts = pa.consts := by
  unfold PA.setProp at hr
  split at hr
  · split at hr
    · simp only [Option.some.injEq] at hr; subst hr; rw [setCol_consts]
    · exact absurd hr (by simp)
  · rename_i hc
    exact absurd ((hasProp_iff pa nm).mp hp) (col?_none pa nm hc)

theorem setOutputs_consts {pa pa' : PA} (ps : List String) (hr : pa.setOutputs ps = some pa') :
    pa'.consts = pa.consts := by
  unfold PA.setOutputs at hr
  split at hr
  · simp only [Option.some.injEq] at hr; subst hr; rfl
  · exact absurd hr (by simp)

theorem addOutputs_consts {pa pa' : PA} (ps : List String) (hr : pa.addOutputs ps = some pa') :
    pa'.consts = pa.consts := by
  unfold PA.addOutputs at hr
  split at hr
  · simp only [Option.some.injEq] at hr; subst hr; rfl
  · exact absurd hr (by simp)

theorem extractInto_consts {pa dest pa' : PA} (idx : List Nat) (al : Bool)
    (props : Option (List String)) (hr : pa.extractInto idx dest al props = some pa') :
    pa'.consts = dest.consts := by
  unfold PA.extractInto at hr
  extract_lets names start d1 d2 at hr
  split at hr
  · simp only [Option.some.injEq] at hr; subst hr; rfl
  split at hr
  · exact absurd hr (by simp)
  simp only [Option.some.injEq] at hr; subst hr
  have : d2.consts = dest.consts := extend_consts dest idx.length
  split
  · rw [align_consts]; exact this
  · exact this

theorem appendStep_consts {src a a' : PA} (oldN : Nat) (sc : Col)
    (hr : appendStep src oldN (some a) sc = some a') : a'.consts = a.consts := by
  unfold appendStep at hr
  simp only [] at hr
  split at hr
  · split at hr
    · simp only [Option.some.injEq] at hr; subst hr; rw [setCol_consts]
    · exact absurd hr (by simp)
  · split at hr
    · exact absurd hr (by simp)
    · rename_i a1 hadd
      split at hr
      · split at hr
        · simp only [Option.some.injEq] at hr; subst hr
          rw [setCol_consts]; exact (addProperty_fields hadd).2.1
        · exact absurd hr (by simp)
      · exact absurd hr (by simp)

theorem appendParray_consts {pa src pa' : PA} (al : Bool)
    (hr : pa.appendParray src al false = some pa') : pa'.consts = pa.consts := by
  rw [appendParray_eq] at hr
  split at hr
  · simp only [Option.some.injEq] at hr; subst hr; rfl
  split at hr
  · exact absurd hr (by simp)
  rename_i a hfold
  have key := foldl_opt_inv (appendStep src pa.n) (fun _ a => a.consts = pa.consts)
    (fun _ => rfl) src.props
    (fun pre b suf a a' _ hq hs' => (appendStep_consts pa.n b hs').trans hq)
    _ (extend_consts pa src.n) a hfold
  simp only [Option.some.injEq, Bool.false_eq_true, if_false] at hr
  subst hr
  split
  · rw [align_consts]; exact key
  · exact key

theorem ensureStep_consts {src a a' : PA} (nm : String)
    (hr : ensureStep src (some a) nm = some a') : a'.consts = a.consts := by
  unfold ensureStep at hr
  simp only [] at hr
  split at hr
  · simp only [Option.some.injEq] at hr; subst hr; rfl
  · split at hr
    · exact (addProperty_fields hr).2.1
    · exact absurd hr (by simp)

theorem ensureProperties_consts {pa src pa' : PA} (props : Option (List String))
    (hr : pa.ensureProperties src props = some pa') : pa'.consts = pa.consts := by
  rw [ensureProperties_eq] at hr
  exact foldl_opt_inv (ensureStep src) (fun _ a => a.consts = pa.consts) (fun _ => rfl) _
    (fun pre b suf a a' _ hq hs' => (ensureStep_consts b hs').trans hq) pa rfl pa' hr

/-! ### the pool -/

theorem consts_set {st : State} {s : Nat} {p0 x : PA} (hs : st[s]? = some p0)
    (hx : x.consts = p0.consts) (k : Nat) (pa : PA) (hk : st[k]? = some pa) :
    ∃ pa', (st.set s x)[k]? = some pa' ∧ pa'.consts = pa.consts := by
  rw [List.getElem?_set]
  by_cases hsk : s = k
  · subst hsk
    have hlt : s < st.length := by
      rcases Nat.lt_or_ge s st.length with h | h
      · exact h
      · rw [List.getElem?_eq_none h] at hs; exact absurd hs (by simp)
    rw [if_pos rfl, if_pos hlt]
    rw [hs] at hk
    simp only [Option.some.injEq] at hk
    exact ⟨x, rfl, hk ▸ hx⟩
  · rw [if_neg hsk]; exact ⟨pa, hk, rfl⟩

theorem consts_setAt {st : State} {s : Nat} {p0 : PA} (r : Option PA) (hs : st[s]? = some p0)
    (hx : ∀ x, r = some x → x.consts = p0.consts) (k : Nat) (pa : PA) (hk : st[k]? = some pa) :
    ∃ pa', (setAt st s r)[k]? = some pa' ∧ pa'.consts = pa.consts := by
  unfold setAt
  cases r with
  | none => exact ⟨pa, hk, rfl⟩
  | some x => exact consts_set hs (hx x rfl) k pa hk

theorem consts_append {st : State} (tail : List PA) (k : Nat) (pa : PA) (hk : st[k]? = some pa) :
    ∃ pa', (st ++ tail)[k]? = some pa' ∧ pa'.consts = pa.consts := by
  have hlt : k < st.length := by
    rcases Nat.lt_or_ge k st.length with h | h
    · exact h
    · rw [List.getElem?_eq_none h] at hk; exact absurd hk (by simp)
  rw [List.getElem?_append_left hlt]
  exact ⟨pa, hk, rfl⟩

theorem consts_pushOpt {st : State} (r : Option PA) (k : Nat) (pa : PA) (hk : st[k]? = some pa) :
    ∃ pa', (pushOpt st r)[k]? = some pa' ∧ pa'.consts = pa.consts := by
  unfold pushOpt
  cases r with
  | none => exact ⟨pa, hk, rfl⟩
  | some x => exact consts_append [x] k pa hk

/-- the operations that are meant to write constants: `add_constant`, `set` on a
name that is not a property, `append_parray(update_constants=True)` -/
def touchesConsts (st : State) : Op → Bool
  | .addConstant _ _ _ => true
  | .setProp s name _ =>
    match st[s]? with
    | some pa => !pa.hasProp name
    | none => false
  | .append _ _ _ up => up
  | _ => false

/-- every other operation leaves the constants of every existing array alone
(arrays created by `empty_clone`/`extract_particles`/pickling/`ParticleArray()`
are appended to the pool; the existing ones keep their slots) -/
theorem consts_untouched_step (st : State) (op : Op) (ht : touchesConsts st op = false)
    (k : Nat) (pa : PA) (hk : st[k]? = some pa) :
    ∃ pa', (applyOp st op)[k]? = some pa' ∧ pa'.consts = pa.consts := by
  unfold applyOp
  split
  · exact ⟨pa, hk, rfl⟩
  cases op with
  | addParticles s al given =>
    simp only []
    split
    · rename_i p0 hs
      exact consts_setAt _ hs (fun x hx => addParticles_consts al given hx) k pa hk
    · exact ⟨pa, hk, rfl⟩
  | removeParticles s idx al =>
    simp only []
    split
    · rename_i p0 hs
      exact consts_setAt _ hs (fun x hx => removeParticles_consts idx al hx) k pa hk
    · exact ⟨pa, hk, rfl⟩
  | removeTagged s t al =>
    simp only []
    split
    · rename_i p0 hs
      exact consts_setAt _ hs (fun x hx => removeParticles_consts _ al hx) k pa hk
    · exact ⟨pa, hk, rfl⟩
  | extend s n =>
    simp only []
    split
    · rename_i p0 hs
      exact consts_set hs (extend_consts p0 n) k pa hk
    · exact ⟨pa, hk, rfl⟩
  | resize s m =>
    simp only []
    split
    · rename_i p0 hs
      exact consts_set (x := p0.resize m) hs rfl k pa hk
    · exact ⟨pa, hk, rfl⟩
  | align s =>
    simp only []
    split
    · rename_i p0 hs
      exact consts_set hs (align_consts p0) k pa hk
    · exact ⟨pa, hk, rfl⟩
  | setTag s t idx =>
    simp only []
    split
    · rename_i p0 hs
      exact consts_set hs (setTag_consts p0 t idx) k pa hk
    · exact ⟨pa, hk, rfl⟩
  | addProperty s nm ct df da sd =>
    simp only []
    split
    · rename_i p0 hs
      exact consts_setAt _ hs (fun x hx => (addProperty_fields hx).2.1) k pa hk
    · exact ⟨pa, hk, rfl⟩
  | removeProperty s nm =>
    simp only []
    split
    · rename_i p0 hs
      exact consts_set hs (removeProperty_consts p0 nm) k pa hk
    · exact ⟨pa, hk, rfl⟩
  | addConstant s nm d => simp [touchesConsts] at ht
  | setProp s nm d =>
    simp only []
    split
    · rename_i p0 hs
      have hp : p0.hasProp nm = true := by simpa [touchesConsts, hs] using ht
      exact consts_setAt _ hs (fun x hx => setProp_consts nm d hp hx) k pa hk
    · exact ⟨pa, hk, rfl⟩
  | setOutputs s ps =>
    simp only []
    split
    · rename_i p0 hs
      exact consts_setAt _ hs (fun x hx => setOutputs_consts ps hx) k pa hk
    · exact ⟨pa, hk, rfl⟩
  | addOutputs s ps =>
    simp only []
    split
    · rename_i p0 hs
      exact consts_setAt _ hs (fun x hx => addOutputs_consts ps hx) k pa hk
    · exact ⟨pa, hk, rfl⟩
  | emptyClone s ps =>
    simp only []
    split
    · exact consts_pushOpt _ k pa hk
    · exact ⟨pa, hk, rfl⟩
  | extract s idx al ps =>
    simp only []
    split
    · exact consts_pushOpt _ k pa hk
    · exact ⟨pa, hk, rfl⟩
  | extractInto s d idx al ps =>
    simp only []
    split
    · rename_i p0 dd hs hd
      exact consts_setAt _ hd (fun x hx => extractInto_consts idx al ps hx) k pa hk
    · exact ⟨pa, hk, rfl⟩
  | append s src al up =>
    have hup : up = false := by simpa [touchesConsts] using ht
    subst hup
    simp only []
    split
    · rename_i p0 sp hs hsrc
      exact consts_setAt _ hs (fun x hx => appendParray_consts al hx) k pa hk
    · exact ⟨pa, hk, rfl⟩
  | ensure s src ps =>
    simp only []
    split
    · rename_i p0 sp hs hsrc
      exact consts_setAt _ hs (fun x hx => ensureProperties_consts ps hx) k pa hk
    · exact ⟨pa, hk, rfl⟩
  | pickle s =>
    simp only []
    split
    · exact consts_pushOpt _ k pa hk
    · exact ⟨pa, hk, rfl⟩
  | new nm =>
    simp only []
    exact consts_append _ k pa hk

end PysphVerif.PArray
