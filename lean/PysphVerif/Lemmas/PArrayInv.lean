import PysphVerif.Lemmas.PArrayRows
import PysphVerif.Lemmas.PArrayPerm
/-!
C06 helper lemmas, part B: the coherence invariant of a particle array and its
preservation by every mutator.

`Inv pa` is the readable statement.  The workhorse is `InvF P S D m` over the
three fields it talks about (`props`, `stride`, `defaults`) with the particle
count `m` explicit, and `InvP … pend …`, the same with one *pending* property
name whose `default_values`/`stride` entries have been written before the
column itself is created (the middle of `add_property`).
-/
namespace PysphVerif.PArray

/-! ## key/value lists -/

theorem lookupD_of_not_mem {β : Type} (l : List (String × β)) (k : String) (d : β)
    (h : k ∉ l.map Prod.fst) : lookupD l k d = d := by
  unfold lookupD
  have : l.find? (fun p => p.1 == k) = none := by
    rw [List.find?_eq_none]
    intro p hp hpk
    exact h (List.mem_map.mpr ⟨p, hp, by simpa using hpk⟩)
  rw [this]

theorem keys_setKey {β : Type} (l : List (String × β)) (k : String) (v : β) :
    (setKey l k v).map Prod.fst =
      if k ∈ l.map Prod.fst then l.map Prod.fst else l.map Prod.fst ++ [k] := by
  unfold setKey
  by_cases h : k ∈ l.map Prod.fst
  · have hany : l.any (fun p => p.1 == k) = true := by
      obtain ⟨p, hp, hpk⟩ := List.mem_map.mp h
      exact List.any_eq_true.mpr ⟨p, hp, by simp [hpk]⟩
    rw [if_pos hany, if_pos h, List.map_map]
    apply List.map_congr_left
    intro p _
    by_cases hpk : p.1 = k <;> simp [hpk]
  · have hany : ¬ l.any (fun p => p.1 == k) = true := by
      intro ha
      obtain ⟨p, hp, hpk⟩ := List.any_eq_true.mp ha
      exact h (List.mem_map.mpr ⟨p, hp, by simpa using hpk⟩)
    rw [if_neg hany, if_neg h]; simp

theorem lookupD_nil {β : Type} (k : String) (d : β) : lookupD ([] : List (String × β)) k d = d := rfl

theorem lookupD_cons {β : Type} (p : String × β) (l : List (String × β)) (k : String) (d : β) :
    lookupD (p :: l) k d = if p.1 = k then p.2 else lookupD l k d := by
  unfold lookupD
  by_cases h : p.1 = k <;> simp [h]

theorem lookupD_map_setKey_ne {β : Type} (l : List (String × β)) (k k' : String) (v d : β)
    (h : k' ≠ k) :
    lookupD (l.map (fun p => if p.1 == k then (k, v) else p)) k' d = lookupD l k' d := by
  induction l with
  | nil => rfl
  | cons p l ih =>
    rw [List.map_cons, lookupD_cons, lookupD_cons, ih]
    by_cases hpk : p.1 = k
    · have h1 : ¬ k = k' := fun e => h e.symm
      have h2 : ¬ p.1 = k' := by rw [hpk]; exact h1
      simp [hpk, h1]
    · simp [hpk]

theorem lookupD_map_setKey_self {β : Type} (l : List (String × β)) (k : String) (v d : β)
    (h : k ∈ l.map Prod.fst) :
    lookupD (l.map (fun p => if p.1 == k then (k, v) else p)) k d = v := by
  induction l with
  | nil => simp at h
  | cons p l ih =>
    rw [List.map_cons, lookupD_cons]
    by_cases hpk : p.1 = k
    · simp [hpk]
    · have h' : k ∈ l.map Prod.fst := by
        rw [List.map_cons, List.mem_cons] at h
        exact h.resolve_left (fun e => hpk e.symm)
      have hb : (p.1 == k) = false := by simp [hpk]
      simp only [hb, Bool.false_eq_true, if_false, hpk]
      exact ih h'

theorem lookupD_append_single_ne {β : Type} (l : List (String × β)) (q : String × β) (k : String)
    (d : β) (h : q.1 ≠ k) : lookupD (l ++ [q]) k d = lookupD l k d := by
  induction l with
  | nil => simp [lookupD_cons, lookupD_nil, h]
  | cons p l ih => rw [List.cons_append, lookupD_cons, lookupD_cons, ih]

theorem lookupD_append_single_self {β : Type} (l : List (String × β)) (k : String) (v d : β)
    (h : k ∉ l.map Prod.fst) : lookupD (l ++ [(k, v)]) k d = v := by
  induction l with
  | nil => simp [lookupD_cons]
  | cons p l ih =>
    rw [List.map_cons, List.mem_cons, not_or] at h
    rw [List.cons_append, lookupD_cons, if_neg (fun e => h.1 e.symm), ih h.2]

theorem any_key_iff {β : Type} (l : List (String × β)) (k : String) :
    l.any (fun p => p.1 == k) = true ↔ k ∈ l.map Prod.fst := by
  rw [List.any_eq_true, List.mem_map]
  constructor
  · rintro ⟨p, hp, h⟩; exact ⟨p, hp, by simpa using h⟩
  · rintro ⟨p, hp, h⟩; exact ⟨p, hp, by simp [h]⟩

theorem lookupD_setKey {β : Type} (l : List (String × β)) (k k' : String) (v d : β) :
    lookupD (setKey l k v) k' d = if k' = k then v else lookupD l k' d := by
  unfold setKey
  by_cases hm : k ∈ l.map Prod.fst
  · rw [if_pos ((any_key_iff l k).mpr hm)]
    by_cases hk : k' = k
    · subst hk; rw [if_pos rfl]; exact lookupD_map_setKey_self l k' v d hm
    · rw [if_neg hk]; exact lookupD_map_setKey_ne l k k' v d hk
  · have : ¬ l.any (fun p => p.1 == k) = true := fun h => hm ((any_key_iff l k).mp h)
    rw [if_neg this]
    by_cases hk : k' = k
    · subst hk; rw [if_pos rfl]; exact lookupD_append_single_self l k' v d hm
    · rw [if_neg hk]; exact lookupD_append_single_ne l (k, v) k' d (fun e => hk e.symm)

theorem lookupD_setKey_self {β : Type} (l : List (String × β)) (k : String) (v d : β) :
    lookupD (setKey l k v) k d = v := by
  rw [lookupD_setKey]; simp

theorem lookupD_setKey_ne {β : Type} (l : List (String × β)) (k k' : String) (v d : β)
    (h : k' ≠ k) : lookupD (setKey l k v) k' d = lookupD l k' d := by
  rw [lookupD_setKey]; simp [h]

theorem keys_eraseKey {β : Type} (l : List (String × β)) (k : String) :
    (eraseKey l k).map Prod.fst = (l.map Prod.fst).filter (fun x => !(x == k)) := by
  unfold eraseKey
  induction l with
  | nil => rfl
  | cons p l ih =>
    by_cases hpk : p.1 = k <;> simp [hpk, ih]

theorem lookupD_eraseKey_ne {β : Type} (l : List (String × β)) (k k' : String) (d : β)
    (h : k' ≠ k) : lookupD (eraseKey l k) k' d = lookupD l k' d := by
  unfold eraseKey
  induction l with
  | nil => rfl
  | cons p l ih =>
    rw [lookupD_cons]
    by_cases hpk : p.1 = k
    · have hpk' : ¬ p.1 = k' := by rw [hpk]; exact fun e => h e.symm
      have hf : (!(p.1 == k)) = false := by simp [hpk]
      rw [List.filter_cons, hf, if_neg hpk']
      simpa using ih
    · have : (!(p.1 == k)) = true := by simp [hpk]
      rw [List.filter_cons, if_pos this, lookupD_cons, ih]

/-! ## columns by name -/

theorem hasProp_iff (pa : PA) (nm : String) :
    pa.hasProp nm = true ↔ nm ∈ pa.props.map Col.name := by
  unfold PA.hasProp
  rw [List.any_eq_true, List.mem_map]
  constructor
  · rintro ⟨c, hc, h⟩; exact ⟨c, hc, by simpa using h⟩
  · rintro ⟨c, hc, h⟩; exact ⟨c, hc, by simp [h]⟩

theorem hasProp_false_iff (pa : PA) (nm : String) :
    pa.hasProp nm = false ↔ nm ∉ pa.props.map Col.name := by
  rw [← hasProp_iff]; simp

theorem col?_some (pa : PA) (nm : String) (c : Col) (h : pa.col? nm = some c) :
    c ∈ pa.props ∧ c.name = nm := by
  unfold PA.col? at h
  exact ⟨List.mem_of_find?_eq_some h, by simpa using List.find?_some h⟩

theorem col?_none (pa : PA) (nm : String) (h : pa.col? nm = none) :
    nm ∉ pa.props.map Col.name := by
  unfold PA.col? at h
  rw [List.find?_eq_none] at h
  intro hm
  obtain ⟨c, hc, hcn⟩ := List.mem_map.mp hm
  exact h c hc (by simp [hcn])

theorem col?_isSome_of_mem (pa : PA) (nm : String) (h : nm ∈ pa.props.map Col.name) :
    ∃ c, pa.col? nm = some c := by
  cases hc : pa.col? nm with
  | none => exact absurd h (col?_none pa nm hc)
  | some c => exact ⟨c, rfl⟩

/-! ## the invariant -/

/-- coherence of (`properties`, `stride`, `default_values`) for `m` particles -/
structure InvF (P : List Col) (S : List (String × Nat)) (D : List (String × Int)) (m : Nat) :
    Prop where
  len : ∀ c ∈ P, 0 < lookupD S c.name 1 ∧ c.data.length = m * lookupD S c.name 1
  tagFirst : (P.map Col.name).head? = some "tag"
  tagStride : lookupD S "tag" 1 = 1
  nodup : (P.map Col.name).Nodup
  strideKeys : ∀ k ∈ S.map Prod.fst, k ∈ P.map Col.name
  defaultKeys : D.map Prod.fst = P.map Col.name

/-- the same in the middle of `add_property(pend, …)`: `default_values[pend]`
(and possibly `stride[pend]`) are already written, the column may not exist yet -/
structure InvP (P : List Col) (S : List (String × Nat)) (D : List (String × Int))
    (pend : String) (m : Nat) : Prop where
  len : ∀ c ∈ P, 0 < lookupD S c.name 1 ∧ c.data.length = m * lookupD S c.name 1
  tagFirst : (P.map Col.name).head? = some "tag"
  tagStride : lookupD S "tag" 1 = 1
  nodup : (P.map Col.name).Nodup
  pendStride : 0 < lookupD S pend 1
  strideKeys : ∀ k ∈ S.map Prod.fst, k ∈ P.map Col.name ∨ k = pend
  defaultKeys : D.map Prod.fst =
    if pend ∈ P.map Col.name then P.map Col.name else P.map Col.name ++ [pend]

/-- **The invariant** of a particle array: every property holds exactly
`n × stride` values with a positive stride, `tag` is the first property and has
stride 1, property names are distinct, the sparse `stride` dict only has
property names as keys, and `default_values` has exactly the property names as
keys (in the same order). -/
structure Inv (pa : PA) : Prop where
  len : ∀ c ∈ pa.props, 0 < pa.strideOf c.name ∧ c.data.length = pa.n * pa.strideOf c.name
  tagFirst : (pa.props.map Col.name).head? = some "tag"
  tagStride : pa.strideOf "tag" = 1
  nodup : (pa.props.map Col.name).Nodup
  strideKeys : ∀ k ∈ pa.stride.map Prod.fst, k ∈ pa.props.map Col.name
  defaultKeys : pa.defaults.map Prod.fst = pa.props.map Col.name

theorem tag_mem_of_head {l : List String} (h : l.head? = some "tag") : "tag" ∈ l := by
  cases l with
  | nil => simp at h
  | cons a l => simp at h; simp [h]

theorem InvF.tagMem {P S D m} (h : InvF P S D m) : "tag" ∈ P.map Col.name :=
  tag_mem_of_head h.tagFirst

/-- with `tag` first, `get_number_of_particles` is the length of the tag array -/
theorem n_of_tagFirst (pa : PA) (h : (pa.props.map Col.name).head? = some "tag") :
    ∃ t rest, pa.props = t :: rest ∧ t.name = "tag" ∧ pa.col? "tag" = some t ∧
      pa.n = t.data.length ∧ pa.tags = t.data := by
  cases hp : pa.props with
  | nil => rw [hp] at h; simp at h
  | cons t rest =>
    rw [hp] at h
    have ht : t.name = "tag" := by simpa using h
    have hc : pa.col? "tag" = some t := by
      unfold PA.col?; rw [hp]; simp [ht]
    refine ⟨t, rest, rfl, ht, hc, ?_, ?_⟩
    · unfold PA.n; rw [hc]
    · unfold PA.tags; rw [hc]

theorem InvF.n_eq {pa : PA} {m : Nat} (h : InvF pa.props pa.stride pa.defaults m) : pa.n = m := by
  obtain ⟨t, rest, hp, ht, _, hn, _⟩ := n_of_tagFirst pa h.tagFirst
  have := (h.len t (by rw [hp]; simp)).2
  rw [ht, h.tagStride] at this
  omega

theorem InvF.toInv {pa : PA} {m : Nat} (h : InvF pa.props pa.stride pa.defaults m) : Inv pa := by
  have hn := h.n_eq
  subst hn
  exact ⟨h.len, h.tagFirst, h.tagStride, h.nodup, h.strideKeys, h.defaultKeys⟩

theorem Inv.toF {pa : PA} (h : Inv pa) : InvF pa.props pa.stride pa.defaults pa.n :=
  ⟨h.len, h.tagFirst, h.tagStride, h.nodup, h.strideKeys, h.defaultKeys⟩

theorem inv_iff (pa : PA) : Inv pa ↔ InvF pa.props pa.stride pa.defaults pa.n :=
  ⟨Inv.toF, InvF.toInv⟩

theorem Inv.tags_length {pa : PA} (h : Inv pa) : pa.tags.length = pa.n := by
  obtain ⟨t, rest, _, _, _, hn, htg⟩ := n_of_tagFirst pa h.tagFirst
  rw [hn, htg]

/-! ## generic ways to re-establish the invariant -/

theorem map_name_map (P : List Col) (F : Col → Col) (hn : ∀ c ∈ P, (F c).name = c.name) :
    (P.map F).map Col.name = P.map Col.name := by
  rw [List.map_map]
  exact List.map_congr_left (fun c hc => hn c hc)

/-- every column is rewritten keeping its name; the new lengths fit `m'` particles -/
theorem InvF.mapCols {P S D m} (h : InvF P S D m) (F : Col → Col) (m' : Nat)
    (hn : ∀ c ∈ P, (F c).name = c.name)
    (hg : ∀ c ∈ P, (F c).data.length = m' * lookupD S c.name 1) : InvF (P.map F) S D m' := by
  have hnames := map_name_map P F hn
  refine ⟨?_, by rw [hnames]; exact h.tagFirst, h.tagStride, by rw [hnames]; exact h.nodup,
    by rw [hnames]; exact h.strideKeys, by rw [hnames]; exact h.defaultKeys⟩
  intro c' hc'
  obtain ⟨c, hc, rfl⟩ := List.mem_map.mp hc'
  rw [hn c hc]
  exact ⟨(h.len c hc).1, hg c hc⟩

theorem InvP.mapCols {P S D pend m} (h : InvP P S D pend m) (F : Col → Col) (m' : Nat)
    (hn : ∀ c ∈ P, (F c).name = c.name)
    (hg : ∀ c ∈ P, (F c).data.length = m' * lookupD S c.name 1) :
    InvP (P.map F) S D pend m' := by
  have hnames := map_name_map P F hn
  refine ⟨?_, by rw [hnames]; exact h.tagFirst, h.tagStride, by rw [hnames]; exact h.nodup,
    h.pendStride, by rw [hnames]; exact h.strideKeys, by rw [hnames]; exact h.defaultKeys⟩
  intro c' hc'
  obtain ⟨c, hc, rfl⟩ := List.mem_map.mp hc'
  rw [hn c hc]
  exact ⟨(h.len c hc).1, hg c hc⟩

theorem InvF.toP {P S D m} (h : InvF P S D m) (pend : String) (hp : pend ∈ P.map Col.name) :
    InvP P S D pend m := by
  refine ⟨h.len, h.tagFirst, h.tagStride, h.nodup, ?_, fun k hk => Or.inl (h.strideKeys k hk),
    by rw [if_pos hp]; exact h.defaultKeys⟩
  obtain ⟨c, hc, rfl⟩ := List.mem_map.mp hp
  exact (h.len c hc).1

theorem InvP.toF {P S D pend m} (h : InvP P S D pend m) (hp : pend ∈ P.map Col.name) :
    InvF P S D m := by
  refine ⟨h.len, h.tagFirst, h.tagStride, h.nodup, ?_, by rw [h.defaultKeys, if_pos hp]⟩
  intro k hk
  rcases h.strideKeys k hk with h1 | h1
  · exact h1
  · rw [h1]; exact hp

/-- the list-level effect of `PA.setCol` -/
def setColL (P : List Col) (c : Col) : List Col :=
  if P.any (fun (c' : Col) => c'.name == c.name) then
    P.map (fun (c' : Col) => if c'.name == c.name then c else c')
  else P ++ [c]

theorem setCol_props (pa : PA) (c : Col) : (pa.setCol c).props = setColL pa.props c := by
  unfold PA.setCol setColL PA.hasProp; split <;> rfl
theorem setCol_stride (pa : PA) (c : Col) : (pa.setCol c).stride = pa.stride := by
  unfold PA.setCol; split <;> rfl
theorem setCol_defaults (pa : PA) (c : Col) : (pa.setCol c).defaults = pa.defaults := by
  unfold PA.setCol; split <;> rfl
theorem setCol_consts (pa : PA) (c : Col) : (pa.setCol c).consts = pa.consts := by
  unfold PA.setCol; split <;> rfl
theorem setCol_nReal (pa : PA) (c : Col) : (pa.setCol c).nReal = pa.nReal := by
  unfold PA.setCol; split <;> rfl
theorem setCol_name (pa : PA) (c : Col) : (pa.setCol c).name = pa.name := by
  unfold PA.setCol; split <;> rfl
theorem setCol_outputs (pa : PA) (c : Col) : (pa.setCol c).outputs = pa.outputs := by
  unfold PA.setCol; split <;> rfl

theorem any_name_iff (P : List Col) (nm : String) :
    P.any (fun (c' : Col) => c'.name == nm) = true ↔ nm ∈ P.map Col.name := by
  rw [List.any_eq_true, List.mem_map]
  constructor
  · rintro ⟨c, hc, h⟩; exact ⟨c, hc, by simpa using h⟩
  · rintro ⟨c, hc, h⟩; exact ⟨c, hc, by simp [h]⟩

theorem nodup_append_single {l : List String} {a : String} (h : l.Nodup) (ha : a ∉ l) :
    (l ++ [a]).Nodup := by
  rw [List.nodup_append]
  refine ⟨h, by simp, ?_⟩
  intro x hx y hy
  have : y = a := by simpa using hy
  subst this
  exact fun e => ha (e ▸ hx)

theorem head?_append_of_head? {l : List String} {a : String} (h : l.head? = some a) (x : String) :
    (l ++ [x]).head? = some a := by
  cases l with
  | nil => simp at h
  | cons b l => simpa using h

/-- the pending column is written (replacing an existing one or appended) -/
theorem InvP.setCol {P S D pend m} (h : InvP P S D pend m) (c : Col) (hc : c.name = pend)
    (hl : c.data.length = m * lookupD S pend 1) : InvF (setColL P c) S D m := by
  unfold setColL
  by_cases hp : pend ∈ P.map Col.name
  · rw [if_pos ((any_name_iff P c.name).mpr (hc ▸ hp))]
    apply (h.toF hp).mapCols
    · intro c' _
      by_cases he : c'.name = c.name <;> simp [he]
    · intro c' hc'
      by_cases he : c'.name = c.name
      · simp only [he, beq_self_eq_true, if_true, hc]; exact hl
      · simp only [beq_iff_eq, he, if_false]; exact (h.len c' hc').2
  · have hany : ¬ P.any (fun (c' : Col) => c'.name == c.name) = true :=
      fun ha => hp (hc ▸ (any_name_iff P c.name).mp ha)
    rw [if_neg hany]
    have hnames : (P ++ [c]).map Col.name = P.map Col.name ++ [pend] := by simp [hc]
    refine ⟨?_, ?_, h.tagStride, ?_, ?_, ?_⟩
    · intro c' hc'
      rcases List.mem_append.mp hc' with h1 | h1
      · exact h.len c' h1
      · have : c' = c := by simpa using h1
        subst this
        rw [hc]; exact ⟨h.pendStride, hl⟩
    · rw [hnames]; exact head?_append_of_head? h.tagFirst _
    · rw [hnames]
      exact nodup_append_single h.nodup hp
    · intro k hk
      rw [hnames]
      rcases h.strideKeys k hk with h1 | h1
      · exact List.mem_append_left _ h1
      · simp [h1]
    · rw [hnames, h.defaultKeys, if_neg hp]

/-- an existing column is rewritten with the same length -/
theorem InvF.setCol {P S D m} (h : InvF P S D m) (c : Col) (hp : c.name ∈ P.map Col.name)
    (hl : c.data.length = m * lookupD S c.name 1) : InvF (setColL P c) S D m :=
  (h.toP c.name hp).setCol c rfl hl

/-- stride dict after `if stride != 1: self.stride[name] = stride` -/
def strideSet (S : List (String × Nat)) (name : String) (stride : Nat) : List (String × Nat) :=
  if stride != 1 then setKey S name stride else S

theorem lookupD_strideSet_ne (S : List (String × Nat)) (name nm : String) (stride : Nat)
    (h : nm ≠ name) : lookupD (strideSet S name stride) nm 1 = lookupD S nm 1 := by
  unfold strideSet; split
  · exact lookupD_setKey_ne S name nm stride 1 h
  · rfl

theorem lookupD_strideSet_self (S : List (String × Nat)) (name : String) (stride : Nat) :
    lookupD (strideSet S name stride) name 1 = if stride = 1 then lookupD S name 1 else stride := by
  unfold strideSet
  by_cases hs : stride = 1
  · simp [hs]
  · have : (stride != 1) = true := by simp [hs]
    rw [if_pos this, if_neg hs, lookupD_setKey_self]

theorem keys_strideSet (S : List (String × Nat)) (name : String) (stride : Nat) :
    ∀ k ∈ (strideSet S name stride).map Prod.fst, k ∈ S.map Prod.fst ∨ k = name := by
  intro k hk
  unfold strideSet at hk
  split at hk
  · rw [keys_setKey] at hk
    split at hk
    · exact Or.inl hk
    · rcases List.mem_append.mp hk with h | h
      · exact Or.inl h
      · exact Or.inr (by simpa using h)
  · exact Or.inl hk

/-- first half of `add_property`: `default_values[name]` and `stride[name]` are written -/
theorem InvF.addPropPending {P S D m} (h : InvF P S D m) (name : String) (stride : Nat) (dv : Int)
    (h1 : 1 ≤ stride)
    (h2 : name ∈ P.map Col.name → stride = 1 ∨ stride = lookupD S name 1 ∨ m = 0)
    (h3 : name = "tag" → stride = 1) :
    InvP P (strideSet S name stride) (setKey D name dv) name m := by
  refine ⟨?_, h.tagFirst, ?_, h.nodup, ?_, ?_, ?_⟩
  · intro c hc
    by_cases hn : c.name = name
    · rw [hn, lookupD_strideSet_self]
      have hmem : name ∈ P.map Col.name := hn ▸ List.mem_map_of_mem hc
      have hl := h.len c hc
      rw [hn] at hl
      by_cases hs : stride = 1
      · rw [if_pos hs]; exact hl
      · rw [if_neg hs]
        rcases h2 hmem with h' | h' | h'
        · exact absurd h' hs
        · rw [h']; exact hl
        · refine ⟨by omega, ?_⟩
          rw [hl.2, h']; simp
    · rw [lookupD_strideSet_ne S name c.name stride hn]; exact h.len c hc
  · by_cases hn : "tag" = name
    · rw [← hn, lookupD_strideSet_self, if_pos (h3 hn.symm)]; exact h.tagStride
    · rw [lookupD_strideSet_ne S name "tag" stride hn]; exact h.tagStride
  · rw [lookupD_strideSet_self]
    by_cases hs : stride = 1
    · rw [if_pos hs]
      by_cases hmem : name ∈ P.map Col.name
      · obtain ⟨c, hc, rfl⟩ := List.mem_map.mp hmem
        exact (h.len c hc).1
      · rw [lookupD_of_not_mem S name 1 (fun hk => hmem (h.strideKeys name hk))]; omega
    · rw [if_neg hs]; omega
  · intro k hk
    rcases keys_strideSet S name stride k hk with h' | h'
    · exact Or.inl (h.strideKeys k h')
    · exact Or.inr h'
  · rw [keys_setKey, h.defaultKeys]

theorem lookupD_strideSet_new {P S D m} (h : InvF P S D m) (name : String) (stride : Nat)
    (hn : name ∉ P.map Col.name) : lookupD (strideSet S name stride) name 1 = stride := by
  rw [lookupD_strideSet_self]
  split
  · rename_i hs
    rw [lookupD_of_not_mem S name 1 (fun hk => hn (h.strideKeys name hk)), hs]
  · rfl

end PysphVerif.PArray
