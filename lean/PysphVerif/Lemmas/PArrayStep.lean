import PysphVerif.Lemmas.PArrayInvOps
/-!
C06 helper lemmas, part B (end): one step of the state machine over a pool of
arrays keeps every array coherent.
-/
namespace PysphVerif.PArray

theorem mem_of_getElem?_some {st : State} {s : Nat} {pa : PA} (h : st[s]? = some pa) : pa ∈ st :=
  List.mem_of_getElem? h

theorem all_set {st : State} {Q : PA → Prop} (h : ∀ pa ∈ st, Q pa) (k : Nat) (x : PA) (hx : Q x) :
    ∀ pa ∈ st.set k x, Q pa := by
  intro pa hpa
  rcases List.mem_or_eq_of_mem_set hpa with h1 | h1
  · exact h pa h1
  · exact h1 ▸ hx

theorem all_setAt {st : State} {Q : PA → Prop} (h : ∀ pa ∈ st, Q pa) (k : Nat) (r : Option PA)
    (hr : ∀ x, r = some x → Q x) : ∀ pa ∈ setAt st k r, Q pa := by
  unfold setAt
  cases r with
  | none => exact h
  | some x => exact all_set h k x (hr x rfl)

theorem all_pushOpt {st : State} {Q : PA → Prop} (h : ∀ pa ∈ st, Q pa) (r : Option PA)
    (hr : ∀ x, r = some x → Q x) : ∀ pa ∈ pushOpt st r, Q pa := by
  unfold pushOpt
  cases r with
  | none => exact h
  | some x =>
    intro pa hpa
    rcases List.mem_append.mp hpa with h1 | h1
    · exact h pa h1
    · have : pa = x := by simpa using h1
      exact this ▸ hr x rfl

/-- what `validOp` demands of `add_particles` -/
theorem validOp_addParticles {st : State} {s : Nat} {al : Bool} {given : List (String × List Int)}
    {pa : PA} (hv : validOp st (.addParticles s al given) = true) (hs : st[s]? = some pa) :
    ∀ ln ld, given.getLast? = some (ln, ld) →
      ∀ g ∈ given, g.2.length = (ld.length / pa.strideOf ln) * pa.strideOf g.1 := by
  intro ln ld hl g hg
  simp only [validOp, hs, hl, Bool.and_eq_true, List.all_eq_true, beq_iff_eq] at hv
  exact (hv.1 g hg).2

/-- what `validOp` demands of `add_property` -/
theorem validOp_addProperty {st : State} {s : Nat} {name ctype : String} {dflt : Option Int}
    {data : Option (List Int)} {stride : Nat} {pa : PA}
    (hv : validOp st (.addProperty s name ctype dflt data stride) = true)
    (hs : st[s]? = some pa) (hi : Inv pa) :
    1 ≤ stride ∧
    (name ∈ pa.props.map Col.name → stride = 1 ∨ stride = pa.strideOf name ∨ pa.n = 0) ∧
    (name = "tag" → stride = 1) ∧
    (∀ d, data = some d → d.length ≠ 0 → name ∉ pa.props.map Col.name → d.length % stride = 0) := by
  simp only [validOp, hs, Bool.and_eq_true, Bool.or_eq_true, decide_eq_true_eq,
    Bool.not_eq_true', beq_iff_eq] at hv
  obtain ⟨⟨⟨h1, h2⟩, _⟩, h4⟩ := hv
  have h2' : name ∈ pa.props.map Col.name → stride = 1 ∨ stride = pa.strideOf name := by
    intro hm
    have hp : pa.hasProp name = true := (hasProp_iff pa name).mpr hm
    rcases h2 with (h2 | h2) | h2
    · rw [hp] at h2; exact absurd h2 (by simp)
    · exact Or.inl h2
    · exact Or.inr h2
  refine ⟨h1, fun hm => (h2' hm).elim Or.inl (fun h => Or.inr (Or.inl h)), ?_, ?_⟩
  · intro e
    subst e
    rcases h2' hi.toF.tagMem with h | h
    · exact h
    · rw [h]; exact hi.tagStride
  · intro d hd hdl hnm
    subst hd
    have hp : pa.hasProp name = false := (hasProp_false_iff pa name).mpr hnm
    simp only [hp, Bool.false_eq_true, if_false, Bool.and_eq_true, beq_iff_eq] at h4
    exact h4.1.1

theorem validOp_removeProperty {st : State} {s : Nat} {name : String}
    (hv : validOp st (.removeProperty s name) = true) : name ≠ "tag" := by
  simp only [validOp, Bool.and_eq_true, bne_iff_ne] at hv
  exact hv.2

theorem sameStrides_iff (a b : PA) (names : List String) :
    sameStrides a b names = true ↔ ∀ nm ∈ names, a.strideOf nm = b.strideOf nm := by
  unfold sameStrides
  simp [List.all_eq_true]

theorem validOp_extractInto {st : State} {s dest : Nat} {idx : List Nat} {al : Bool}
    {props : Option (List String)} {pa d : PA}
    (hv : validOp st (.extractInto s dest idx al props) = true)
    (hs : st[s]? = some pa) (hd : st[dest]? = some d) :
    ∀ nm ∈ cloneNames pa props, pa.strideOf nm = d.strideOf nm := by
  simp only [validOp, hs, hd, Bool.and_eq_true] at hv
  exact (sameStrides_iff pa d _).mp hv.2

/-- **one step** of the state machine keeps every array of the pool coherent -/
theorem inv_applyOp (st : State) (op : Op) (h : ∀ pa ∈ st, Inv pa) :
    ∀ pa ∈ applyOp st op, Inv pa := by
  unfold applyOp
  split
  · exact h
  rename_i hv
  have hv : validOp st op = true := by simpa using hv
  cases op with
  | addParticles s al given =>
    simp only []
    split
    · rename_i pa hs
      exact all_setAt h s _ (fun x hx =>
        inv_addParticles (h pa (mem_of_getElem?_some hs)) al given (validOp_addParticles hv hs) hx)
    · exact h
  | removeParticles s idx al =>
    simp only []
    split
    · rename_i pa hs
      exact all_setAt h s _ (fun x hx => inv_removeParticles (h pa (mem_of_getElem?_some hs)) idx al hx)
    · exact h
  | removeTagged s t al =>
    simp only []
    split
    · rename_i pa hs
      exact all_setAt h s _ (fun x hx => inv_removeTagged (h pa (mem_of_getElem?_some hs)) t al hx)
    · exact h
  | extend s k =>
    simp only []
    split
    · rename_i pa hs
      exact all_set h s _ (inv_extend (h pa (mem_of_getElem?_some hs)) k).1
    · exact h
  | resize s m =>
    simp only []
    split
    · rename_i pa hs
      exact all_set h s _ (inv_resize (h pa (mem_of_getElem?_some hs)) m).1
    · exact h
  | align s =>
    simp only []
    split
    · rename_i pa hs
      exact all_set h s _ (inv_align (h pa (mem_of_getElem?_some hs)))
    · exact h
  | setTag s t idx =>
    simp only []
    split
    · rename_i pa hs
      exact all_set h s _ (inv_setTag (h pa (mem_of_getElem?_some hs)) t idx)
    · exact h
  | addProperty s nm ct df da sd =>
    simp only []
    split
    · rename_i pa hs
      have hi := h pa (mem_of_getElem?_some hs)
      obtain ⟨h1, h2, h3, h4⟩ := validOp_addProperty hv hs hi
      exact all_setAt h s _ (fun x hx => inv_addProperty hi h1 h2 h3 h4 hx)
    · exact h
  | removeProperty s nm =>
    simp only []
    split
    · rename_i pa hs
      exact all_set h s _
        (inv_removeProperty (h pa (mem_of_getElem?_some hs)) nm (validOp_removeProperty hv)).1
    · exact h
  | addConstant s nm d =>
    simp only []
    split
    · rename_i pa hs
      exact all_setAt h s _ (fun x hx => inv_addConstant (h pa (mem_of_getElem?_some hs)) nm d hx)
    · exact h
  | setProp s nm d =>
    simp only []
    split
    · rename_i pa hs
      exact all_setAt h s _ (fun x hx => inv_setProp (h pa (mem_of_getElem?_some hs)) nm d hx)
    · exact h
  | setOutputs s ps =>
    simp only []
    split
    · rename_i pa hs
      exact all_setAt h s _ (fun x hx => inv_setOutputs (h pa (mem_of_getElem?_some hs)) ps hx)
    · exact h
  | addOutputs s ps =>
    simp only []
    split
    · rename_i pa hs
      exact all_setAt h s _ (fun x hx => inv_addOutputs (h pa (mem_of_getElem?_some hs)) ps hx)
    · exact h
  | emptyClone s ps =>
    simp only []
    split
    · rename_i pa hs
      exact all_pushOpt h _ (fun x hx => (inv_emptyClone (h pa (mem_of_getElem?_some hs)) ps hx).1)
    · exact h
  | extract s idx al ps =>
    simp only []
    split
    · rename_i pa hs
      exact all_pushOpt h _ (fun x hx => inv_extract (h pa (mem_of_getElem?_some hs)) idx al ps hx)
    · exact h
  | extractInto s d idx al ps =>
    simp only []
    split
    · rename_i pa dd hs hd
      exact all_setAt h d _ (fun x hx =>
        inv_extractInto (h pa (mem_of_getElem?_some hs)) (h dd (mem_of_getElem?_some hd)) idx al ps
          (validOp_extractInto hv hs hd) hx)
    · exact h
  | append s src al up =>
    simp only []
    split
    · rename_i pa sp hs hsrc
      exact all_setAt h s _ (fun x hx =>
        inv_appendParray (h pa (mem_of_getElem?_some hs)) (h sp (mem_of_getElem?_some hsrc)) al up hx)
    · exact h
  | ensure s src ps =>
    simp only []
    split
    · rename_i pa sp hs hsrc
      exact all_setAt h s _ (fun x hx =>
        (inv_ensureProperties (h pa (mem_of_getElem?_some hs)) (h sp (mem_of_getElem?_some hsrc))
          ps hx).1)
    · exact h
  | pickle s =>
    simp only []
    split
    · rename_i pa hs
      exact all_pushOpt h _ (fun x hx => inv_pickle (h pa (mem_of_getElem?_some hs)) hx)
    · exact h
  | new nm =>
    simp only []
    intro pa hpa
    rcases List.mem_append.mp hpa with h1 | h1
    · exact h pa h1
    · have : pa = PA.empty nm := by simpa using h1
      exact this ▸ inv_empty nm

/-- **headline**: every array of every state reachable from the empty pool by
any finite sequence of operations is coherent -/
theorem inv_run (ops : List Op) : ∀ pa ∈ run ops, Inv pa := by
  unfold run
  have gen : ∀ (ops : List Op) (st : State), (∀ pa ∈ st, Inv pa) →
      ∀ pa ∈ ops.foldl applyOp st, Inv pa := by
    intro ops
    induction ops with
    | nil => intro st h; exact h
    | cons op ops ih => intro st h; exact ih _ (inv_applyOp st op h)
  exact gen ops [] (fun _ h => by simp at h)

end PysphVerif.PArray
