import PysphVerif.Model.StepperHist
import PysphVerif.Lemmas.Stepper
/-!
Helper lemmas for the history part of C04 (`Props/C04.lean`): predicates kept
by every operation of a world are kept by a whole step; the attributes of the
object track the history text; the tracer world with object identities.
-/
namespace PysphVerif.StepperHist
open PysphVerif.Stepper

theorem foldl_inv {α β : Type} (P : α → Prop) (f : α → β → α) (h : ∀ s a, P s → P (f s a))
    (l : List β) : ∀ s, P s → P (l.foldl f s) := by
  induction l with
  | nil => intro s hs; exact hs
  | cons a as ih => intro s hs; exact ih _ (h s a hs)

section
variable {σ τ : Type}

/-- a predicate kept by the operations a step can invoke -/
structure Keeps (W : World σ τ) (P : σ → Prop) : Prop where
  hook : ∀ d m t dt s, P s → P (W.hook d m t dt s)
  stepOne : ∀ d m i t dt s, P s → P (W.stepOne d m i t dt s)
  nnpsUpdate : ∀ s, P s → P (W.nnpsUpdate s)
  evalAcc : ∀ i t dt s, P s → P (W.evalAcc i t dt s)
  updateDomain : ∀ s, P s → P (W.updateDomain s)
  callback : ∀ t dt k s, P s → P (W.callback t dt k s)

theorem wrapper_inv (W : World σ τ) (P : σ → Prop) (hk : Keeps W P) (cfg : Cfg) (m : Meth)
    (r : Regs τ) (s : σ) (hs : P s) : P (wrapper W cfg m r s) := by
  unfold wrapper
  refine foldl_inv P _ ?_ _ s hs
  intro s a hs
  unfold wrapperDest
  have h1 : P (if m ∈ a.sig.hooks then W.hook a.name m r.t r.dt s else s) := by
    split
    · exact hk.hook _ _ _ _ _ hs
    · exact hs
  simp only
  split
  · unfold loopReal
    refine foldl_inv P _ ?_ _ _ h1
    intro s i hs
    exact hk.stepOne _ _ _ _ _ _ hs
  · exact h1

theorem execCmd_inv (A : Arith τ) (W : World σ τ) (P : σ → Prop) (hk : Keeps W P) (cfg : Cfg)
    (t dt : τ) (st : Regs τ × σ) (c : Cmd) (hs : P st.2) : P (execCmd A W cfg t dt st c).2 := by
  rcases c with _ | k | ⟨i, upd⟩ | _ | ⟨e, k⟩
  · exact wrapper_inv W P hk cfg _ _ _ hs
  · exact wrapper_inv W P hk cfg _ _ _ hs
  · simp only [execCmd, computeAccelerations]
    apply hk.evalAcc
    split
    · exact hk.nnpsUpdate _ hs
    · exact hs
  · exact hk.updateDomain _ hs
  · simp only [execCmd]
    split
    · exact hk.callback _ _ _ _ hs
    · exact hs

/-- whatever every operation keeps, a step keeps -/
theorem stepR_inv (A : Arith τ) (W : World σ τ) (P : σ → Prop) (hk : Keeps W P) (cfg : Cfg)
    (prog : Program) (t dt : τ) (st : Regs τ × σ) (hs : P st.2) :
    P (stepR A W cfg prog t dt st).2 := by
  unfold stepR
  exact foldl_inv (fun x : Regs τ × σ => P x.2) _
    (fun x c hx => execCmd_inv A W P hk cfg t dt x c hx) prog _ hs

/-! ### the attributes track the history text -/

theorem findSome_snoc {α β : Type} (f : α → Option β) (l : List α) (a : α) :
    (l ++ [a]).reverse.findSome? f = match f a with
      | some b => some b
      | none => l.reverse.findSome? f := by
  rw [List.reverse_append]
  simp only [List.reverse_cons, List.reverse_nil, List.nil_append, List.cons_append,
    List.findSome?_cons]
  cases f a <;> rfl

theorem pyAfter_nil (p0 : PyRegs) : pyAfter (τ := τ) p0 [] = p0 := by
  simp [pyAfter, lastNnps, lastCallback, lastFixedH]

theorem pyAfter_snoc (A : Arith τ) (H : HWorld σ τ) (cfg : Cfg) (prog : Program) (p0 : PyRegs)
    (done : List (Op τ)) (op : Op τ) (r : Regs τ) (s : σ) :
    (applyOp A H cfg prog { py := pyAfter p0 done, regs := r, world := s } op).py =
      pyAfter p0 (done ++ [op]) := by
  cases op <;>
    simp only [applyOp, pyAfter, lastNnps, lastCallback, lastFixedH, findSome_snoc, Op.nnps?,
      Op.callback?, Op.fixedH?, Option.getD_some]

theorem applyOp_world (A : Arith τ) (H : HWorld σ τ) (hH : ∀ p, WorldAligned (H.view p))
    (cfg : Cfg) (prog : Program) (p : PyRegs) (r : Regs τ) (s : σ) (op : Op τ) :
    (applyOp A H cfg prog { py := p, regs := r, world := s } op).world =
      denoteOp A H cfg prog p op s := by
  cases op with
  | step t dt =>
    simp only [applyOp, denoteOp]
    unfold stepR literalStep
    exact (fold_eq_litGo A (H.view p) (hH p) (cfgAt cfg p) t dt prog [] _ s
      (regsTrack_init A t dt)).1
  | setNnps k => rfl
  | setCallback c => rfl
  | setFixedH b => rfl
  | addParticles d n => rfl

theorem runHist_eq_litHistGo (A : Arith τ) (H : HWorld σ τ) (hH : ∀ p, WorldAligned (H.view p))
    (cfg : Cfg) (prog : Program) (p0 : PyRegs) (rest : List (Op τ)) :
    ∀ (done : List (Op τ)) (r : Regs τ) (s : σ),
      (runHist A H cfg prog rest { py := pyAfter p0 done, regs := r, world := s }).world =
        litHistGo A H cfg prog p0 done rest s ∧
      (runHist A H cfg prog rest { py := pyAfter p0 done, regs := r, world := s }).py =
        pyAfter p0 (done ++ rest) := by
  induction rest with
  | nil => intro done r s; simp [runHist, litHistGo]
  | cons op ops ih =>
    intro done r s
    have hpy := pyAfter_snoc A H cfg prog p0 done op r s
    have hw := applyOp_world A H hH cfg prog (pyAfter p0 done) r s op
    have hst : applyOp A H cfg prog { py := pyAfter p0 done, regs := r, world := s } op =
        { py := pyAfter p0 (done ++ [op]),
          regs := (applyOp A H cfg prog { py := pyAfter p0 done, regs := r, world := s } op).regs,
          world := denoteOp A H cfg prog (pyAfter p0 done) op s } := by
      rw [← hpy, ← hw]
    have := ih (done ++ [op])
      (applyOp A H cfg prog { py := pyAfter p0 done, regs := r, world := s } op).regs
      (denoteOp A H cfg prog (pyAfter p0 done) op s)
    simp only [runHist, List.foldl_cons, litHistGo] at this ⊢
    rw [hst]
    simpa [List.append_assoc] using this

end

/-! ### the tracer world with object identities -/

section
variable {τ : Type}

theorem htraceWorld_aligned (grow : String → Meth → Nat) (p : PyRegs) :
    WorldAligned ((htraceWorld (τ := τ) grow).view p) := by
  intro d s
  refine ⟨List.replicate (sizeOf? s.sizes d).2 2, rfl, ?_⟩
  intro g hg
  have := List.eq_of_mem_replicate hg
  omega

/-- "since the trace was `base`, only NNPS `k` was refreshed / asked for ghosts
and only callback `c` was called" -/
def OnlyTargets (base : List (HEvent τ)) (k : Nat) (c : Option Nat) (s : HState τ) : Prop :=
  ∃ new, s.events = base ++ new ∧ (∀ j ∈ nnpsTargets new, j = k) ∧
    (∀ j ∈ callbackTargets new, some j = c)

theorem onlyTargets_emit (base : List (HEvent τ)) (k : Nat) (c : Option Nat) (s : HState τ)
    (e : HEvent τ) (hs : OnlyTargets base k c s)
    (h1 : ∀ j, e.nnpsTarget? = some j → j = k) (h2 : ∀ j, e.callbackTarget? = some j → some j = c) :
    OnlyTargets base k c (s.emit e) := by
  obtain ⟨new, hn, ha, hb⟩ := hs
  refine ⟨new ++ [e], ?_, ?_, ?_⟩
  · simp [HState.emit, hn, List.append_assoc]
  · intro j hj
    simp only [nnpsTargets, List.filterMap_append, List.mem_append] at hj
    rcases hj with hj | hj
    · exact ha j hj
    · simp only [List.filterMap_cons, List.filterMap_nil] at hj
      cases he : e.nnpsTarget? with
      | none => simp [he] at hj
      | some x =>
        simp [he] at hj
        exact hj ▸ h1 x he
  · intro j hj
    simp only [callbackTargets, List.filterMap_append, List.mem_append] at hj
    rcases hj with hj | hj
    · exact hb j hj
    · simp only [List.filterMap_cons, List.filterMap_nil] at hj
      cases he : e.callbackTarget? with
      | none => simp [he] at hj
      | some x =>
        simp [he] at hj
        exact hj ▸ h2 x he

theorem htrace_keeps (grow : String → Meth → Nat) (p : PyRegs) (base : List (HEvent τ)) :
    Keeps ((htraceWorld (τ := τ) grow).view p) (OnlyTargets base p.nnps p.callback) where
  hook := by
    intro d m t dt s hs
    have := onlyTargets_emit base p.nnps p.callback s (HEvent.hook d m t dt) hs
      (by intro j h; cases h) (by intro j h; cases h)
    obtain ⟨new, hn, ha, hb⟩ := this
    exact ⟨new, hn, ha, hb⟩
  stepOne := by
    intro d m i t dt s hs
    exact onlyTargets_emit base _ _ s _ hs (by intro j h; cases h) (by intro j h; cases h)
  nnpsUpdate := by
    intro s hs
    exact onlyTargets_emit base _ _ s (HEvent.nnps p.nnps) hs
      (by intro j h; cases h; rfl) (by intro j h; cases h)
  evalAcc := by
    intro i t dt s hs
    exact onlyTargets_emit base _ _ s _ hs (by intro j h; cases h) (by intro j h; cases h)
  updateDomain := by
    intro s hs
    exact onlyTargets_emit base _ _ s (HEvent.domain p.nnps) hs
      (by intro j h; cases h; rfl) (by intro j h; cases h)
  callback := by
    intro t dt k s hs
    cases hc : p.callback with
    | none =>
      have : ((htraceWorld (τ := τ) grow).view p).callback t dt k s = s := by
        simp [HWorld.view, callbackOf, hc]
      rw [this]; rw [hc] at hs; exact hs
    | some c =>
      have : ((htraceWorld (τ := τ) grow).view p).callback t dt k s =
          s.emit (HEvent.callback c t dt k) := by
        simp [HWorld.view, callbackOf, hc, htraceWorld]
      rw [this]; rw [hc] at hs
      exact onlyTargets_emit base _ _ s _ hs (by intro j h; cases h)
        (by intro j h; cases h; rfl)

end
end PysphVerif.StepperHist
