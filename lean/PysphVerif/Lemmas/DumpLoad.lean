import PysphVerif.Model.DumpLoad
/-!
Helper lemmas for C11: what one `add_property` call does to the property
records, and the invariant the readers maintain while they rebuild an array.
-/
set_option linter.unusedSectionVars false
namespace PysphVerif.DumpLoad

variable {V : Type} [PVal V] [DecidableEq V]

/-- what one `add_property(name, …, data=d)` call does to an existing record -/
def stepRec (name : String) (dflt : V) (stride : Nat) (resize : Option Nat) (d : List V)
    (p : PropRec V) : PropRec V :=
  if p.name = name then
    { p with default := dflt, stride := if stride ≠ 1 then stride else p.stride,
             data := if d = [] then
                (match resize with
                 | some n => List.replicate (n * (if stride ≠ 1 then stride else p.stride)) dflt
                 | none => p.data) else d }
  else
    { p with data := match resize with
        | some n => List.replicate (n * p.stride) p.default
        | none => p.data }

/-- the record `add_property` appends for a new name -/
def freshRec (name : String) (ty : CType) (dflt : V) (stride nP : Nat) (d : List V) : PropRec V :=
  { name := name, ctype := ty, stride := stride, default := dflt,
    data := if d = [] then List.replicate (nP * stride) dflt else d }

def resizeOf (nP : Nat) (stride : Nat) (d : List V) : Option Nat :=
  if nP = 0 ∧ d ≠ [] then some (d.length / stride) else none

theorem hasProp_iff (ps : List (PropRec V)) (n : String) :
    hasProp ps n = true ↔ ∃ p ∈ ps, p.name = n := by
  simp [hasProp]

theorem map_setDataRec_of_not_has (ps : List (PropRec V)) (n : String) (d : List V)
    (h : ¬ ∃ p ∈ ps, p.name = n) : ps.map (setDataRec n d) = ps := by
  induction ps with
  | nil => rfl
  | cons p ps ih =>
    have hp : p.name ≠ n := fun e => h ⟨p, by simp, e⟩
    have : ¬ ∃ q ∈ ps, q.name = n := fun ⟨q, hq, e⟩ => h ⟨q, by simp [hq], e⟩
    simp [setDataRec, hp, ih this]

theorem stepRec_none_nil (name : String) (dflt : V) (stride : Nat) (p : PropRec V) :
    stepRec name dflt stride none [] p = setMetaRec name dflt stride p := by
  by_cases h : p.name = name <;> simp [stepRec, setMetaRec, h]

theorem stepRec_some (name : String) (dflt : V) (stride n : Nat) (d : List V) (hd : d ≠ [])
    (p : PropRec V) :
    stepRec name dflt stride (some n) d p =
      setDataRec name d (resizeRec n (setMetaRec name dflt stride p)) := by
  by_cases h : p.name = name <;> simp [stepRec, setMetaRec, resizeRec, setDataRec, h, hd]

theorem stepRec_some_ne (name : String) (dflt : V) (stride n : Nat) (d : List V)
    (p : PropRec V) (h : p.name ≠ name) :
    stepRec name dflt stride (some n) d p = resizeRec n (setMetaRec name dflt stride p) := by
  simp [stepRec, setMetaRec, resizeRec, h]

theorem stepRec_none (name : String) (dflt : V) (stride : Nat) (d : List V) (hd : d ≠ [])
    (p : PropRec V) :
    stepRec name dflt stride none d p = setDataRec name d (setMetaRec name dflt stride p) := by
  by_cases h : p.name = name <;> simp [stepRec, setMetaRec, setDataRec, h, hd]

theorem stepRec_none_ne (name : String) (dflt : V) (stride : Nat) (d : List V)
    (p : PropRec V) (h : p.name ≠ name) :
    stepRec name dflt stride none d p = setMetaRec name dflt stride p := by
  simp [stepRec, setMetaRec, h]

/-- `add_property` in closed form -/
theorem addProperty_eq (pa : PArr V) (name : String) (ty : CType) (dflt : V)
    (data? : Option (List V)) (stride : Nat) :
    addProperty pa name ty (some dflt) data? stride =
      let nP := numParticles pa false
      let d := data?.getD []
      if ¬ (nP = 0 ∨ d = [] ∨ (nP = d.length / stride ∧ d.length % stride = 0)) then .error "sizes"
      else .ok { pa with
        props := pa.props.map (stepRec name dflt stride (resizeOf nP stride d) d) ++
          (if hasProp pa.props name then [] else [freshRec name ty dflt stride nP d]),
        nReal := if nP = 0 ∧ d ≠ [] then
            (if name = "tag" then countLocal d else d.length / stride) else pa.nReal } := by
  simp only [addProperty]
  generalize hnP : numParticles pa false = nP
  generalize hd : data?.getD [] = d
  have hlen : (d.length = 0) ↔ d = [] := List.length_eq_zero_iff
  by_cases hsz : (nP = 0 ∨ d = [] ∨ (nP = d.length / stride ∧ d.length % stride = 0))
  · have hsz' : (nP == 0 || d.length == 0 ||
        (nP == d.length / stride && d.length % stride == 0)) = true := by
      rcases hsz with h | h | ⟨h1, h2⟩
      · simp [h]
      · simp [h]
      · simp [← h1, h2]
    simp only [hsz', Bool.not_true, Bool.false_eq_true, if_false, hsz, not_true_eq_false]
    by_cases hex : hasProp pa.props name = true
    · by_cases h0 : nP = 0 <;> by_cases h1 : d = []
      · simp [h0, h1, hex, resizeOf, setMeta, stepRec_none_nil]
      · simp [h0, h1, hex, resizeOf, setMeta, stepRec_some _ _ _ _ _ h1]
      · simp [h0, h1, hex, resizeOf, setMeta, stepRec_none_nil]
      · simp [h0, h1, hex, resizeOf, setMeta, stepRec_none _ _ _ _ h1]
    · have hno : ∀ q ∈ pa.props, q.name ≠ name := by
        intro q hq e
        exact hex ((hasProp_iff _ _).2 ⟨q, hq, e⟩)
      have hex' : hasProp pa.props name = false := by simpa using hex
      by_cases h0 : nP = 0 <;> by_cases h1 : d = []
      · simp [h0, h1, hex', resizeOf, setMeta, stepRec_none_nil, freshRec]
      · simp [h0, h1, hex', resizeOf, setMeta, freshRec]
        intro q hq
        exact (stepRec_some_ne _ _ _ _ _ q (hno q hq)).symm
      · simp [h0, h1, hex', resizeOf, setMeta, stepRec_none_nil, freshRec]
      · simp [h0, h1, hex', resizeOf, setMeta, freshRec]
        intro q hq
        exact (stepRec_none_ne _ _ _ _ q (hno q hq)).symm
  · have hsz' : (nP == 0 || d.length == 0 ||
        (nP == d.length / stride && d.length % stride == 0)) = false := by
      rw [Bool.eq_false_iff]
      intro hb
      apply hsz
      simp only [Bool.or_eq_true, Bool.and_eq_true, beq_iff_eq] at hb
      rcases hb with (h | h) | h
      · exact Or.inl h
      · exact Or.inr (Or.inl (hlen.1 h))
      · exact Or.inr (Or.inr h)
    simp [hsz', hsz]

end PysphVerif.DumpLoad
