import PysphVerif.Model.DumpLoad
/-!
Helper lemmas for C11: what one `add_property` call does to the property
records, and the invariant the readers maintain while they rebuild an array.
-/
set_option linter.unusedSectionVars false
namespace PysphVerif.DumpLoad

variable {V : Type} [PVal V] [DecidableEq V]

/-- what one `add_property(name, …, data=d)` call does to an existing record -/
def stepRec (name : String) (dflt : V) (stride : Nat) (resize : Option Nat) (d : List V)
    (p : PropRec V) : PropRec V :=
  if p.name = name then
    { p with default := dflt, stride := if stride ≠ 1 then stride else p.stride,
             data := if d = [] then
                (match resize with
                 | some n => List.replicate (n * (if stride ≠ 1 then stride else p.stride)) dflt
                 | none => p.data) else d }
  else
    { p with data := match resize with
        | some n => List.replicate (n * p.stride) p.default
        | none => p.data }

/-- the record `add_property` appends for a new name -/
def freshRec (name : String) (ty : CType) (dflt : V) (stride nP : Nat) (d : List V) : PropRec V :=
  { name := name, ctype := ty, stride := stride, default := dflt,
    data := if d = [] then List.replicate (nP * stride) dflt else d }

def resizeOf (nP : Nat) (stride : Nat) (d : List V) : Option Nat :=
  if nP = 0 ∧ d ≠ [] then some (d.length / stride) else none

theorem hasProp_iff (ps : List (PropRec V)) (n : String) :
    hasProp ps n = true ↔ ∃ p ∈ ps, p.name = n := by
  simp [hasProp]

theorem map_setDataRec_of_not_has (ps : List (PropRec V)) (n : String) (d : List V)
    (h : ¬ ∃ p ∈ ps, p.name = n) : ps.map (setDataRec n d) = ps := by
  induction ps with
  | nil => rfl
  | cons p ps ih =>
    have hp : p.name ≠ n := fun e => h ⟨p, by simp, e⟩
    have : ¬ ∃ q ∈ ps, q.name = n := fun ⟨q, hq, e⟩ => h ⟨q, by simp [hq], e⟩
    simp [setDataRec, hp, ih this]

theorem stepRec_none_nil (name : String) (dflt : V) (stride : Nat) (p : PropRec V) :
    stepRec name dflt stride none [] p = setMetaRec name dflt stride p := by
  by_cases h : p.name = name <;> simp [stepRec, setMetaRec, h]

theorem stepRec_some (name : String) (dflt : V) (stride n : Nat) (d : List V) (hd : d ≠ [])
    (p : PropRec V) :
    stepRec name dflt stride (some n) d p =
      setDataRec name d (resizeRec n (setMetaRec name dflt stride p)) := by
  by_cases h : p.name = name <;> simp [stepRec, setMetaRec, resizeRec, setDataRec, h, hd]

theorem stepRec_some_ne (name : String) (dflt : V) (stride n : Nat) (d : List V)
    (p : PropRec V) (h : p.name ≠ name) :
    stepRec name dflt stride (some n) d p = resizeRec n (setMetaRec name dflt stride p) := by
  simp [stepRec, setMetaRec, resizeRec, h]

theorem stepRec_none (name : String) (dflt : V) (stride : Nat) (d : List V) (hd : d ≠ [])
    (p : PropRec V) :
    stepRec name dflt stride none d p = setDataRec name d (setMetaRec name dflt stride p) := by
  by_cases h : p.name = name <;> simp [stepRec, setMetaRec, setDataRec, h, hd]

theorem stepRec_none_ne (name : String) (dflt : V) (stride : Nat) (d : List V)
    (p : PropRec V) (h : p.name ≠ name) :
    stepRec name dflt stride none d p = setMetaRec name dflt stride p := by
  simp [stepRec, setMetaRec, h]

/-- `add_property` in closed form -/
theorem addProperty_eq (pa : PArr V) (name : String) (ty : CType) (dflt : V)
    (data? : Option (List V)) (stride : Nat) :
    addProperty pa name ty (some dflt) data? stride =
      let nP := numParticles pa false
      let d := data?.getD []
      if ¬ (nP = 0 ∨ d = [] ∨ (nP = d.length / stride ∧ d.length % stride = 0)) then .error "sizes"
      else .ok { pa with
        props := pa.props.map (stepRec name dflt stride (resizeOf nP stride d) d) ++
          (if hasProp pa.props name then [] else [freshRec name ty dflt stride nP d]),
        nReal := if nP = 0 ∧ d ≠ [] then
            (if name = "tag" then countLocal d else d.length / stride) else pa.nReal } := by
  simp only [addProperty]
  generalize hnP : numParticles pa false = nP
  generalize hd : data?.getD [] = d
  have hlen : (d.length = 0) ↔ d = [] := List.length_eq_zero_iff
  by_cases hsz : (nP = 0 ∨ d = [] ∨ (nP = d.length / stride ∧ d.length % stride = 0))
  · have hsz' : (nP == 0 || d.length == 0 ||
        (nP == d.length / stride && d.length % stride == 0)) = true := by
      rcases hsz with h | h | ⟨h1, h2⟩
      · simp [h]
      · simp [h]
      · simp [← h1, h2]
    simp only [hsz', Bool.not_true, Bool.false_eq_true, if_false, hsz, not_true_eq_false]
    by_cases hex : hasProp pa.props name = true
    · by_cases h0 : nP = 0 <;> by_cases h1 : d = []
      · simp [h0, h1, hex, resizeOf, setMeta, stepRec_none_nil]
      · simp [h0, h1, hex, resizeOf, setMeta, stepRec_some _ _ _ _ _ h1]
      · simp [h0, h1, hex, resizeOf, setMeta, stepRec_none_nil]
      · simp [h0, h1, hex, resizeOf, setMeta, stepRec_none _ _ _ _ h1]
    · have hno : ∀ q ∈ pa.props, q.name ≠ name := by
        intro q hq e
        exact hex ((hasProp_iff _ _).2 ⟨q, hq, e⟩)
      have hex' : hasProp pa.props name = false := by simpa using hex
      by_cases h0 : nP = 0 <;> by_cases h1 : d = []
      · simp [h0, h1, hex', resizeOf, setMeta, stepRec_none_nil, freshRec]
      · simp [h0, h1, hex', resizeOf, setMeta, freshRec]
        intro q hq
        exact (stepRec_some_ne _ _ _ _ _ q (hno q hq)).symm
      · simp [h0, h1, hex', resizeOf, setMeta, stepRec_none_nil, freshRec]
      · simp [h0, h1, hex', resizeOf, setMeta, freshRec]
        intro q hq
        exact (stepRec_none_ne _ _ _ _ q (hno q hq)).symm
  · have hsz' : (nP == 0 || d.length == 0 ||
        (nP == d.length / stride && d.length % stride == 0)) = false := by
      rw [Bool.eq_false_iff]
      intro hb
      apply hsz
      simp only [Bool.or_eq_true, Bool.and_eq_true, beq_iff_eq] at hb
      rcases hb with (h | h) | h
      · exact Or.inl h
      · exact Or.inr (Or.inl (hlen.1 h))
      · exact Or.inr (Or.inr h)
    simp [hsz', hsz]

/-! ### the sequence of `add_property` calls a reader makes -/

/-- one call `add_property(name, type=ty, default=dflt, data=data, stride=stride)` -/
structure AddReq (V : Type) where
  name : String
  ty : CType
  dflt : V
  data : Option (List V)
  stride : Nat

def addReq (pa : PArr V) (r : AddReq V) : Except String (PArr V) :=
  addProperty pa r.name r.ty (some r.dflt) r.data r.stride

/-- the three properties `clear()` creates -/
def isBase (n : String) : Prop := n = "tag" ∨ n = "pid" ∨ n = "gid"

def baseTy (n : String) : CType := if n = "gid" then .uint else .int

/-- a request as the readers issue them for an array written with `num` particles -/
structure ReqOK (num : Nat) (r : AddReq V) : Prop where
  stride_pos : 1 ≤ r.stride
  len : ∀ d, r.data = some d → d.length = num * r.stride
  base : isBase r.name → r.stride = 1 ∧ r.ty = baseTy r.name

/-- invariant of the property records while a reader rebuilds an array:
`done` are the requests served so far, `nP` the current particle count -/
structure SInv (num : Nat) (done : List (AddReq V)) (nP : Nat) (ps : List (PropRec V)) : Prop where
  nodup : (ps.map (·.name)).Nodup
  hasBase : ∀ n, isBase n → ∃ p ∈ ps, p.name = n
  names : ∀ p ∈ ps, isBase p.name ∨ ∃ r ∈ done, r.name = p.name
  baseMeta : ∀ p ∈ ps, isBase p.name → p.stride = 1 ∧ p.ctype = baseTy p.name
  np : nP = 0 ∨ nP = num
  npd : nP = 0 → ∀ r ∈ done, ∀ d, r.data = some d → d = []
  coh : ∀ p ∈ ps, p.data.length = nP * p.stride
  stridePos : ∀ p ∈ ps, 1 ≤ p.stride
  doneOK : ∀ r ∈ done, ReqOK num r
  doneMeta : ∀ r ∈ done, ∃ p ∈ ps, p.name = r.name ∧ p.ctype = r.ty ∧ p.stride = r.stride ∧
    p.default = r.dflt ∧ (∀ d, r.data = some d → p.data = d)
  tagc : ∀ p ∈ ps, p.name = "tag" →
    (∃ k x, p.data = List.replicate k x) ∨ (∃ r ∈ done, r.name = "tag" ∧ r.data = some p.data)

theorem stepRec_name (name : String) (dflt : V) (stride : Nat) (rs : Option Nat) (d : List V)
    (p : PropRec V) : (stepRec name dflt stride rs d p).name = p.name := by
  unfold stepRec; split <;> rfl

theorem stepRec_ctype (name : String) (dflt : V) (stride : Nat) (rs : Option Nat) (d : List V)
    (p : PropRec V) : (stepRec name dflt stride rs d p).ctype = p.ctype := by
  unfold stepRec; split <;> rfl

theorem findProp_of_mem (ps : List (PropRec V)) (n : String)
    (hnd : (ps.map (·.name)).Nodup) (p : PropRec V) (hp : p ∈ ps) (hn : p.name = n) :
    findProp ps n = some p := by
  induction ps with
  | nil => cases hp
  | cons q qs ih =>
    simp only [List.map_cons, List.nodup_cons] at hnd
    simp only [findProp, List.find?_cons]
    by_cases hq : q.name = n
    · rcases List.mem_cons.1 hp with e | hin
      · subst e; simp [hq]
      · exfalso; apply hnd.1
        exact List.mem_map.2 ⟨p, hin, by rw [hn, hq]⟩
    · have hne : (q.name == n) = false := by simpa using hq
      rw [hne]
      rcases List.mem_cons.1 hp with e | hin
      · subst e; exact absurd hn hq
      · exact ih hnd.2 hin

theorem numParticles_of_inv {num : Nat} {done : List (AddReq V)} {nP : Nat} (pa : PArr V)
    (h : SInv num done nP pa.props) : numParticles pa false = nP := by
  obtain ⟨t, ht, htn⟩ := h.hasBase "tag" (Or.inl rfl)
  have hf := findProp_of_mem pa.props "tag" h.nodup t ht htn
  have hl := h.coh t ht
  have hs := (h.baseMeta t ht (by rw [htn]; exact Or.inl rfl)).1
  simp [numParticles, hf, hl, hs]

theorem getD_ne_nil {d : Option (List V)} (h : d.getD [] ≠ []) : d = some (d.getD []) := by
  cases d with
  | none => simp at h
  | some x => rfl

/-- the new property records after one request -/
def stepProps (ps : List (PropRec V)) (nP : Nat) (r : AddReq V) : List (PropRec V) :=
  ps.map (stepRec r.name r.dflt r.stride (resizeOf nP r.stride (r.data.getD [])) (r.data.getD [])) ++
    (if hasProp ps r.name then [] else [freshRec r.name r.ty r.dflt r.stride nP (r.data.getD [])])

def stepNP (num nP : Nat) (r : AddReq V) : Nat :=
  if nP = 0 ∧ r.data.getD [] ≠ [] then num else nP

theorem mem_stepProps {ps : List (PropRec V)} {nP : Nat} {r : AddReq V} {p' : PropRec V} :
    p' ∈ stepProps ps nP r ↔
      (∃ p ∈ ps, stepRec r.name r.dflt r.stride (resizeOf nP r.stride (r.data.getD []))
        (r.data.getD []) p = p') ∨
      (hasProp ps r.name = false ∧
        p' = freshRec r.name r.ty r.dflt r.stride nP (r.data.getD [])) := by
  unfold stepProps
  cases hh : hasProp ps r.name <;> simp [List.mem_append, List.mem_map]

theorem SInv.step {num : Nat} {done : List (AddReq V)} {nP : Nat} {ps : List (PropRec V)}
    (h : SInv num done nP ps) (r : AddReq V) (hr : ReqOK num r)
    (hnew : ∀ q ∈ done, q.name ≠ r.name) :
    SInv num (done ++ [r]) (stepNP num nP r) (stepProps ps nP r) := by
  generalize hd : r.data.getD [] = d
  have hsome : d ≠ [] → r.data = some d := fun hne => by
    have := getD_ne_nil (d := r.data) (by rw [hd]; exact hne)
    rw [hd] at this; exact this
  have hdlen : d ≠ [] → d.length = num * r.stride := fun hne => hr.len d (hsome hne)
  have hspos := hr.stride_pos
  have hdiv : d ≠ [] → d.length / r.stride = num := fun hne => by
    rw [hdlen hne]; exact Nat.mul_div_cancel _ (by omega)
  have hnumpos : d ≠ [] → 0 < num := fun hne => by
    have h1 := hdlen hne
    have h2 : d.length ≠ 0 := fun e => hne (List.length_eq_zero_iff.1 e)
    rcases Nat.eq_zero_or_pos num with e | e
    · rw [e] at h1; simp at h1; exact absurd h1 hne
    · exact e
  have hrs : resizeOf nP r.stride d = if nP = 0 ∧ d ≠ [] then some num else none := by
    unfold resizeOf
    split
    · rename_i hc; rw [hdiv hc.2]
    · rfl
  have hnil_data : ∀ d', r.data = some d' → d' = d := fun d' e => by rw [← hd, e]; rfl
  have hnP' : stepNP num nP r = if nP = 0 ∧ d ≠ [] then num else nP := by
    unfold stepNP; rw [hd]
  have hnP'ne : d ≠ [] → stepNP num nP r = num := fun hne => by
    rw [hnP']
    split
    · rfl
    · rename_i hc
      rcases h.np with e | e
      · exact absurd ⟨e, hne⟩ hc
      · exact e
  have hnP'nil : d = [] → stepNP num nP r = nP := fun e => by
    rw [hnP']; simp [e]
  have hhas : hasProp ps r.name = true → isBase r.name := fun hh => by
    obtain ⟨p, hp, hpn⟩ := (hasProp_iff _ _).1 hh
    rcases h.names p hp with hb | ⟨q, hq, hqn⟩
    · rw [← hpn]; exact hb
    · exact absurd (hqn.trans hpn) (hnew q hq)
  have hmem := @mem_stepProps V _ _ ps nP r
  rw [hd] at hmem
  rw [hrs] at hmem
  -- facts about the image of an old record
  have himg : ∀ p ∈ ps, ∀ p', stepRec r.name r.dflt r.stride
      (if nP = 0 ∧ d ≠ [] then some num else none) d p = p' →
      p'.name = p.name ∧ p'.ctype = p.ctype ∧
      (p.name ≠ r.name → p'.stride = p.stride ∧ p'.default = p.default ∧
        p'.data = (if nP = 0 ∧ d ≠ [] then List.replicate (num * p.stride) p.default else p.data)) ∧
      (p.name = r.name → p'.stride = r.stride ∧ p.stride = r.stride ∧ p'.default = r.dflt ∧
        p'.data = (if d = [] then p.data else d)) := by
    intro p hp p' e
    subst e
    refine ⟨stepRec_name _ _ _ _ _ _, stepRec_ctype _ _ _ _ _ _, ?_, ?_⟩
    · intro hne
      unfold stepRec
      rw [if_neg hne]
      refine ⟨rfl, rfl, ?_⟩
      by_cases hc : nP = 0 ∧ d ≠ []
      · simp [hc]
      · simp [hc]
    · intro he
      have hb : isBase r.name := hhas ((hasProp_iff _ _).2 ⟨p, hp, he⟩)
      have hrs1 := (hr.base hb).1
      have hps1 := (h.baseMeta p hp (by rw [he]; exact hb)).1
      unfold stepRec
      rw [if_pos he]
      refine ⟨?_, by rw [hps1, hrs1], rfl, ?_⟩
      · simp [hrs1, hps1]
      · by_cases hdn : d = []
        · simp [hdn]
        · simp [hdn]
  have hnP'cases : (nP = 0 ∧ d ≠ [] ∧ stepNP num nP r = num) ∨
      (¬ (nP = 0 ∧ d ≠ []) ∧ stepNP num nP r = nP) := by
    by_cases hc : nP = 0 ∧ d ≠ []
    · exact Or.inl ⟨hc.1, hc.2, hnP'ne hc.2⟩
    · exact Or.inr ⟨hc, by rw [hnP']; simp [hc]⟩
  refine { nodup := ?_, hasBase := ?_, names := ?_, baseMeta := ?_, np := ?_, npd := ?_,
           coh := ?_, stridePos := ?_, doneOK := ?_, doneMeta := ?_, tagc := ?_ }
  · -- nodup
    unfold stepProps
    rw [List.map_append, List.map_map]
    have hnm : (fun p : PropRec V => p.name) ∘
        stepRec r.name r.dflt r.stride (resizeOf nP r.stride (r.data.getD [])) (r.data.getD []) =
        (fun p : PropRec V => p.name) := by
      funext p; exact stepRec_name _ _ _ _ _ _
    rw [hnm]
    cases hh : hasProp ps r.name
    · simp only [Bool.false_eq_true, if_false, List.map_cons, List.map_nil]
      rw [List.nodup_append]
      refine ⟨h.nodup, by simp, ?_⟩
      intro a ha b hb
      simp only [List.mem_singleton] at hb
      subst hb
      intro e
      subst e
      obtain ⟨p, hp, hpn⟩ := List.mem_map.1 ha
      have : hasProp ps r.name = true := (hasProp_iff _ _).2 ⟨p, hp, hpn⟩
      rw [hh] at this; cases this
    · simpa using h.nodup
  · -- hasBase
    intro n hn
    obtain ⟨p, hp, hpn⟩ := h.hasBase n hn
    exact ⟨_, hmem.2 (Or.inl ⟨p, hp, rfl⟩), by rw [stepRec_name]; exact hpn⟩
  · -- names
    intro p' hp'
    rcases hmem.1 hp' with ⟨p, hp, e⟩ | ⟨_, e⟩
    · have hn := (himg p hp p' e).1
      rcases h.names p hp with hb | ⟨q, hq, hqn⟩
      · left; rw [hn]; exact hb
      · right; exact ⟨q, List.mem_append_left _ hq, by rw [hn]; exact hqn⟩
    · right; exact ⟨r, by simp, by rw [e]; rfl⟩
  · -- baseMeta
    intro p' hp' hb
    rcases hmem.1 hp' with ⟨p, hp, e⟩ | ⟨_, e⟩
    · obtain ⟨hn, hc, hne, heq⟩ := himg p hp p' e
      have hbp : isBase p.name := by rw [← hn]; exact hb
      have hm := h.baseMeta p hp hbp
      by_cases hpr : p.name = r.name
      · obtain ⟨h1, h2, _, _⟩ := heq hpr
        exact ⟨by rw [h1, ← h2]; exact hm.1, by rw [hc, hn]; exact hm.2⟩
      · obtain ⟨h1, _, _⟩ := hne hpr
        exact ⟨by rw [h1]; exact hm.1, by rw [hc, hn]; exact hm.2⟩
    · subst e
      exact hr.base hb
  · -- np
    rcases hnP'cases with ⟨_, _, e⟩ | ⟨_, e⟩
    · exact Or.inr e
    · rw [e]; exact h.np
  · -- npd
    intro h0 q hq d' hd'
    rcases hnP'cases with ⟨_, hne, e⟩ | ⟨hc, e⟩
    · have := hnumpos hne
      omega
    · have hnP0 : nP = 0 := by rw [← e]; exact h0
      have hdn : d = [] := by
        by_cases hdn : d = []
        · exact hdn
        · exact absurd ⟨hnP0, hdn⟩ hc
      rcases List.mem_append.1 hq with hq | hq
      · exact h.npd hnP0 q hq d' hd'
      · simp only [List.mem_singleton] at hq
        subst hq
        rw [hnil_data d' hd']; exact hdn
  · -- coh
    intro p' hp'
    rcases hmem.1 hp' with ⟨p, hp, e⟩ | ⟨_, e⟩
    · obtain ⟨hn, hc, hne, heq⟩ := himg p hp p' e
      by_cases hpr : p.name = r.name
      · obtain ⟨h1, h2, _, h4⟩ := heq hpr
        rw [h4, h1]
        by_cases hdn : d = []
        · rw [if_pos hdn, hnP'nil hdn, ← h2]; exact h.coh p hp
        · rw [if_neg hdn, hnP'ne hdn]; exact hdlen hdn
      · obtain ⟨h1, _, h3⟩ := hne hpr
        rw [h3, h1]
        rcases hnP'cases with ⟨h0, hdn, e⟩ | ⟨hc', e⟩
        · rw [if_pos ⟨h0, hdn⟩, e]; simp
        · rw [if_neg hc', e]; exact h.coh p hp
    · subst e
      simp only [freshRec]
      by_cases hdn : d = []
      · rw [if_pos hdn, hnP'nil hdn]; simp
      · rw [if_neg hdn, hnP'ne hdn]; exact hdlen hdn
  · -- stridePos
    intro p' hp'
    rcases hmem.1 hp' with ⟨p, hp, e⟩ | ⟨_, e⟩
    · obtain ⟨hn, hc, hne, heq⟩ := himg p hp p' e
      by_cases hpr : p.name = r.name
      · rw [(heq hpr).1]; exact hspos
      · rw [(hne hpr).1]; exact h.stridePos p hp
    · subst e; exact hspos
  · -- doneOK
    intro q hq
    rcases List.mem_append.1 hq with hq | hq
    · exact h.doneOK q hq
    · simp only [List.mem_singleton] at hq
      subst hq; exact hr
  · -- doneMeta
    intro q hq
    rcases List.mem_append.1 hq with hq | hq
    · obtain ⟨p, hp, hpn, hpc, hps, hpd, hpdata⟩ := h.doneMeta q hq
      have hpr : p.name ≠ r.name := by rw [hpn]; exact hnew q hq
      obtain ⟨hn, hc, hne, _⟩ := himg p hp _ rfl
      obtain ⟨h1, h2, h3⟩ := hne hpr
      refine ⟨_, hmem.2 (Or.inl ⟨p, hp, rfl⟩), by rw [hn]; exact hpn, by rw [hc]; exact hpc,
        by rw [h1]; exact hps, by rw [h2]; exact hpd, ?_⟩
      intro d' hd'
      rw [h3]
      by_cases hc' : nP = 0 ∧ d ≠ []
      · rw [if_pos hc']
        have hd'nil : d' = [] := h.npd hc'.1 q hq d' hd'
        have hl := (h.doneOK q hq).len d' hd'
        have hqs := (h.doneOK q hq).stride_pos
        rw [hd'nil] at hl
        simp only [List.length_nil] at hl
        have hnum0 : num = 0 := by
          rcases Nat.eq_zero_or_pos num with e | e
          · exact e
          · have : 0 < num * q.stride := Nat.mul_pos e (by omega)
            omega
        rw [hnum0, hd'nil]; simp
      · rw [if_neg hc']; exact hpdata d' hd'
    · simp only [List.mem_singleton] at hq
      subst hq
      have hzero : ∀ d', q.data = some d' → d = [] → nP = 0 := by
        intro d' hd' hdn
        have hl := hr.len d' hd'
        rw [hnil_data d' hd', hdn] at hl
        simp only [List.length_nil] at hl
        have hnum0 : num = 0 := by
          rcases Nat.eq_zero_or_pos num with e | e
          · exact e
          · have : 0 < num * q.stride := Nat.mul_pos e (by omega)
            omega
        rcases h.np with e | e
        · exact e
        · rw [e, hnum0]
      cases hh : hasProp ps q.name
      · refine ⟨_, hmem.2 (Or.inr ⟨hh, rfl⟩), rfl, rfl, rfl, rfl, ?_⟩
        intro d' hd'
        simp only [freshRec]
        by_cases hdn : d = []
        · rw [if_pos hdn, hzero d' hd' hdn, hnil_data d' hd', hdn]; simp
        · rw [if_neg hdn, hnil_data d' hd']
      · obtain ⟨p, hp, hpn⟩ := (hasProp_iff _ _).1 hh
        obtain ⟨hn, hc, _, heq⟩ := himg p hp _ rfl
        obtain ⟨h1, h2, h3, h4⟩ := heq hpn
        have hb := hhas hh
        have hbm := h.baseMeta p hp (by rw [hpn]; exact hb)
        refine ⟨_, hmem.2 (Or.inl ⟨p, hp, rfl⟩), by rw [hn]; exact hpn, ?_, h1, h3, ?_⟩
        · rw [hc, hbm.2, hpn]; exact (hr.base hb).2.symm
        · intro d' hd'
          rw [h4]
          by_cases hdn : d = []
          · rw [if_pos hdn, hnil_data d' hd', hdn]
            have hl := h.coh p hp
            rw [hzero d' hd' hdn] at hl
            simp only [Nat.zero_mul] at hl
            exact List.length_eq_zero_iff.1 hl
          · rw [if_neg hdn, hnil_data d' hd']
  · -- tagc
    intro p' hp' hp't
    rcases hmem.1 hp' with ⟨p, hp, e⟩ | ⟨hh, e⟩
    · obtain ⟨hn, hc, hne, heq⟩ := himg p hp p' e
      have hpt : p.name = "tag" := by rw [← hn]; exact hp't
      by_cases hpr : p.name = r.name
      · obtain ⟨_, _, _, h4⟩ := heq hpr
        by_cases hdn : d = []
        · rw [h4, if_pos hdn]
          rcases h.tagc p hp hpt with hl | ⟨q, hq, hqn, hqd⟩
          · exact Or.inl hl
          · exact Or.inr ⟨q, List.mem_append_left _ hq, hqn, hqd⟩
        · right
          refine ⟨r, by simp, by rw [← hpr]; exact hpt, ?_⟩
          rw [h4, if_neg hdn]; exact hsome hdn
      · obtain ⟨_, _, h3⟩ := hne hpr
        rw [h3]
        by_cases hc' : nP = 0 ∧ d ≠ []
        · rw [if_pos hc']; exact Or.inl ⟨_, _, rfl⟩
        · rw [if_neg hc']
          rcases h.tagc p hp hpt with hl | ⟨q, hq, hqn, hqd⟩
          · exact Or.inl hl
          · exact Or.inr ⟨q, List.mem_append_left _ hq, hqn, hqd⟩
    · exfalso
      subst e
      obtain ⟨t, ht, htn⟩ := h.hasBase "tag" (Or.inl rfl)
      have : hasProp ps r.name = true :=
        (hasProp_iff _ _).2 ⟨t, ht, by rw [htn]; exact hp't.symm⟩
      rw [hh] at this; cases this

/-- one request on an array whose records satisfy the invariant succeeds and
keeps the invariant -/
theorem addReq_ok {num : Nat} {done : List (AddReq V)} {nP : Nat} (pa : PArr V)
    (h : SInv num done nP pa.props) (r : AddReq V) (hr : ReqOK num r)
    (hnew : ∀ q ∈ done, q.name ≠ r.name) :
    ∃ pa', addReq pa r = .ok pa' ∧ pa'.props = stepProps pa.props nP r ∧
      pa'.name = pa.name ∧ pa'.consts = pa.consts ∧ pa'.outArrs = pa.outArrs ∧
      SInv num (done ++ [r]) (stepNP num nP r) pa'.props := by
  have hnp := numParticles_of_inv pa h
  have hstep := h.step r hr hnew
  unfold addReq
  rw [addProperty_eq]
  simp only [hnp]
  have hsz : (nP = 0 ∨ r.data.getD [] = [] ∨
      (nP = (r.data.getD []).length / r.stride ∧ (r.data.getD []).length % r.stride = 0)) := by
    by_cases h0 : nP = 0
    · exact Or.inl h0
    by_cases hdn : r.data.getD [] = []
    · exact Or.inr (Or.inl hdn)
    right; right
    have hl := hr.len _ (getD_ne_nil hdn)
    have hs := hr.stride_pos
    have hnum : nP = num := by
      rcases h.np with e | e
      · exact absurd e h0
      · exact e
    rw [hl, hnum]
    exact ⟨(Nat.mul_div_cancel _ (by omega)).symm, Nat.mul_mod_left _ _⟩
  rw [if_neg (fun hn => hn hsz)]
  exact ⟨_, rfl, rfl, rfl, rfl, rfl, hstep⟩

def addAll (pa : PArr V) (rs : List (AddReq V)) : Except String (PArr V) :=
  rs.foldlM addReq pa

/-- all requests of a reader, in any order with distinct names, succeed -/
theorem addAll_ok {num : Nat} (rs : List (AddReq V)) :
    ∀ (done : List (AddReq V)) (nP : Nat) (pa : PArr V),
    SInv num done nP pa.props →
    (∀ r ∈ rs, ReqOK num r) →
    ((done ++ rs).map (·.name)).Nodup →
    ∃ pa' nP', addAll pa rs = .ok pa' ∧ pa'.name = pa.name ∧ pa'.consts = pa.consts ∧
      pa'.outArrs = pa.outArrs ∧ SInv num (done ++ rs) nP' pa'.props := by
  induction rs with
  | nil =>
    intro done nP pa h _ _
    exact ⟨pa, nP, rfl, rfl, rfl, rfl, by simpa using h⟩
  | cons r rs ih =>
    intro done nP pa h hok hnd
    have hnew : ∀ q ∈ done, q.name ≠ r.name := by
      intro q hq e
      rw [List.map_append, List.nodup_append] at hnd
      exact hnd.2.2 q.name (List.mem_map.2 ⟨q, hq, rfl⟩) r.name
        (List.mem_map.2 ⟨r, by simp, rfl⟩) e
    obtain ⟨pa1, h1, _, hn1, hc1, ho1, hinv1⟩ :=
      addReq_ok pa h r (hok r (by simp)) hnew
    have hnd' : (((done ++ [r]) ++ rs).map (·.name)).Nodup := by
      simpa [List.append_assoc] using hnd
    obtain ⟨pa2, nP2, h2, hn2, hc2, ho2, hinv2⟩ :=
      ih (done ++ [r]) _ pa1 hinv1 (fun q hq => hok q (by simp [hq])) hnd'
    refine ⟨pa2, nP2, ?_, hn2.trans hn1, hc2.trans hc1, ho2.trans ho1, by
      simpa [List.append_assoc] using hinv2⟩
    simp only [addAll, List.foldlM_cons, h1] at h2 ⊢
    exact h2

/-- the records right after `clear()` satisfy the invariant -/
theorem sinv_clear (num : Nat) : SInv (V := V) num [] 0 (clearProps PVal.zero) := by
  refine { nodup := by simp [clearProps], hasBase := ?_, names := ?_, baseMeta := ?_, np := Or.inl rfl,
           npd := by simp, coh := by simp [clearProps], stridePos := by simp [clearProps],
           doneOK := by simp, doneMeta := by simp, tagc := ?_ }
  · intro n hn
    rcases hn with e | e | e <;> subst e <;> simp [clearProps]
  · intro p hp
    simp only [clearProps, List.mem_cons, List.not_mem_nil, or_false] at hp
    rcases hp with e | e | e <;> subst e <;> simp [isBase]
  · intro p hp _
    simp only [clearProps, List.mem_cons, List.not_mem_nil, or_false] at hp
    rcases hp with e | e | e <;> subst e <;> simp [baseTy]
  · intro p hp _
    simp only [clearProps, List.mem_cons, List.not_mem_nil, or_false] at hp
    left
    rcases hp with e | e | e <;> subst e <;> exact ⟨0, PVal.zero, rfl⟩

/-! ### dictionaries -/

theorem dictGet?_map_ne {β : Type} (d : List (String × β)) (k : String) (v : β) (n : String)
    (hn : n ≠ k) :
    dictGet? (d.map (fun e => if e.1 == k then (k, v) else e)) n = dictGet? d n := by
  induction d with
  | nil => rfl
  | cons e es ih =>
    simp only [dictGet?, List.map_cons, List.find?_cons] at ih ⊢
    by_cases hek : e.1 = k
    · have h1 : (k == n) = false := by simpa using fun h => hn h.symm
      have h2 : (e.1 == n) = false := by rw [hek]; exact h1
      simp only [hek, beq_self_eq_true, if_true, h1, h2]
      exact ih
    · have hek' : (e.1 == k) = false := by simpa using hek
      simp only [hek', Bool.false_eq_true, if_false]
      cases (e.1 == n)
      · exact ih
      · rfl

theorem dictGet?_map_eq {β : Type} (d : List (String × β)) (k : String) (v : β)
    (hk : ∃ e ∈ d, e.1 = k) :
    dictGet? (d.map (fun e => if e.1 == k then (k, v) else e)) k = some v := by
  induction d with
  | nil => obtain ⟨e, he, _⟩ := hk; cases he
  | cons e es ih =>
    simp only [dictGet?, List.map_cons, List.find?_cons] at ih ⊢
    by_cases hek : e.1 = k
    · simp [hek]
    · have hek' : (e.1 == k) = false := by simpa using hek
      simp only [hek', Bool.false_eq_true, if_false]
      apply ih
      obtain ⟨x, hx, hxk⟩ := hk
      rcases List.mem_cons.1 hx with e1 | e1
      · subst e1; exact absurd hxk hek
      · exact ⟨x, e1, hxk⟩

theorem dictGet?_none_of_not_mem {β : Type} (d : List (String × β)) (k : String)
    (hk : ¬ ∃ e ∈ d, e.1 = k) : dictGet? d k = none := by
  simp only [dictGet?, Option.map_eq_none_iff, List.find?_eq_none]
  intro e he
  simp only [beq_iff_eq]
  exact fun h => hk ⟨e, he, h⟩

theorem dictGet?_dictSet {β : Type} (d : List (String × β)) (k : String) (v : β) (n : String) :
    dictGet? (dictSet d k v) n = if n = k then some v else dictGet? d n := by
  unfold dictSet
  by_cases hany : d.any (fun e => e.1 == k) = true
  · rw [if_pos hany]
    have hk : ∃ e ∈ d, e.1 = k := by simpa using hany
    by_cases hn : n = k
    · subst hn; rw [if_pos rfl]; exact dictGet?_map_eq d n v hk
    · rw [if_neg hn]; exact dictGet?_map_ne d k v n hn
  · rw [if_neg hany]
    have hk : ¬ ∃ e ∈ d, e.1 = k := by simpa using hany
    simp only [dictGet?, List.find?_append]
    by_cases hn : n = k
    · subst hn
      have := dictGet?_none_of_not_mem d n hk
      simp only [dictGet?, Option.map_eq_none_iff] at this
      simp [this]
    · have h1 : (k == n) = false := by simpa using fun h => hn h.symm
      simp [hn, h1]

theorem keys_dictSet {β : Type} (d : List (String × β)) (k : String) (v : β) :
    (dictSet d k v).map (·.1) =
      if (∃ e ∈ d, e.1 = k) then d.map (·.1) else d.map (·.1) ++ [k] := by
  unfold dictSet
  by_cases hany : d.any (fun e => e.1 == k) = true
  · have hk : ∃ e ∈ d, e.1 = k := by simpa using hany
    rw [if_pos hany, if_pos hk, List.map_map]
    apply List.map_congr_left
    intro e _
    by_cases hek : e.1 = k <;> simp [hek]
  · have hk : ¬ ∃ e ∈ d, e.1 = k := by simpa using hany
    rw [if_neg hany, if_neg hk]; simp

theorem mem_keys_iff_dictGet? {β : Type} (d : List (String × β)) (k : String) :
    (∃ e ∈ d, e.1 = k) ↔ (dictGet? d k).isSome = true := by
  simp [dictGet?, List.find?_isSome]

/-! ### what the writers store -/

/-- the slice `get_property_arrays` stores for the property called `n` -/
def sliceOf (pa : PArr V) (num : Nat) (n : String) : Option (List V) :=
  (findProp pa.props n).map (fun p => p.data.take (num * p.stride))

theorem findProp_isSome_of_mem (ps : List (PropRec V)) (n : String)
    (h : ∃ p ∈ ps, p.name = n) : ∃ p, findProp ps n = some p := by
  have : (findProp ps n).isSome = true := by
    simp only [findProp, List.find?_isSome, beq_iff_eq]
    exact h
  exact Option.isSome_iff_exists.1 this

theorem gpa_fold (pa : PArr V) (num : Nat) (names : List String) :
    (∀ n ∈ names, ∃ p ∈ pa.props, p.name = n) →
    ∀ (acc : List (String × List V)) (seen : List String),
    (∀ n, dictGet? acc n = if n ∈ seen then sliceOf pa num n else none) →
    ∃ arrs, names.foldlM (gpaStep pa num) acc = some arrs ∧
      ∀ n, dictGet? arrs n = if n ∈ seen ++ names then sliceOf pa num n else none := by
  induction names with
  | nil =>
    intro _ acc seen h
    exact ⟨acc, rfl, by simpa using h⟩
  | cons m ms ih =>
    intro hsub acc seen h
    obtain ⟨p, hp⟩ := findProp_isSome_of_mem pa.props m (hsub m (by simp))
    have hstep : gpaStep pa num acc m = some (dictSet acc m (p.data.take (num * p.stride))) := by
      simp [gpaStep, hp]
    have hacc : ∀ n, dictGet? (dictSet acc m (p.data.take (num * p.stride))) n =
        if n ∈ seen ++ [m] then sliceOf pa num n else none := by
      intro n
      rw [dictGet?_dictSet]
      by_cases hn : n = m
      · subst hn; simp [sliceOf, hp]
      · rw [if_neg hn, h n]; simp [hn]
    obtain ⟨arrs, h1, h2⟩ := ih (fun n hn => hsub n (by simp [hn])) _ (seen ++ [m]) hacc
    refine ⟨arrs, ?_, ?_⟩
    · simp only [List.foldlM_cons, hstep]; exact h1
    · intro n; rw [h2 n]; simp [List.append_assoc]

/-- `get_property_arrays` succeeds when the names it is asked for are properties,
and stores exactly the slices of those -/
theorem gpa_spec (pa : PArr V) (all real : Bool)
    (hsub : ∀ n ∈ storedNames pa all, ∃ p ∈ pa.props, p.name = n) :
    ∃ arrs, getPropertyArrays pa all real = some arrs ∧
      ∀ n, dictGet? arrs n =
        if n ∈ storedNames pa all then sliceOf pa (numParticles pa real) n else none := by
  obtain ⟨arrs, h1, h2⟩ := gpa_fold pa (numParticles pa real) (storedNames pa all) hsub [] []
    (by intro n; simp [dictGet?])
  exact ⟨arrs, h1, by simpa using h2⟩

/-! ### well-formed source arrays and the requests the readers derive from a dump -/

/-- a coherent, aligned particle array (what C06 establishes for every reachable array) -/
structure WF (pa : PArr V) : Prop where
  nodup : (pa.props.map (·.name)).Nodup
  hasBase : ∀ n, isBase n → ∃ p ∈ pa.props, p.name = n
  baseMeta : ∀ p ∈ pa.props, isBase p.name → p.stride = 1 ∧ p.ctype = baseTy p.name
  stridePos : ∀ p ∈ pa.props, 1 ≤ p.stride
  coh : ∀ p ∈ pa.props, p.data.length = numParticles pa false * p.stride
  nreal : pa.nReal ≤ numParticles pa false
  /-- the first `nReal` particles are the `Local` ones -/
  aligned : ∀ t ∈ pa.props, t.name = "tag" →
    (∀ x ∈ t.data.take pa.nReal, x = PVal.zero) ∧ (∀ x ∈ t.data.drop pa.nReal, x ≠ PVal.zero)
  outSub : ∀ n ∈ pa.outArrs, ∃ p ∈ pa.props, p.name = n
  constsNodup : (pa.consts.map (·.name)).Nodup
  constsDisj : ∀ c ∈ pa.consts, ¬ ∃ p ∈ pa.props, p.name = c.name
  constsTy : ∀ c ∈ pa.consts, constCType c.ctype = some c.ctype

/-- the `add_property` call both readers make for property `p` of a dumped array -/
def reqOf (arrs : List (String × List V)) (p : PropRec V) : AddReq V :=
  { name := p.name, ty := p.ctype, dflt := p.default, data := dictGet? arrs p.name,
    stride := p.stride }

theorem storedNames_sub (pa : PArr V) (hwf : WF pa) (all : Bool) :
    ∀ n ∈ storedNames pa all, ∃ p ∈ pa.props, p.name = n := by
  intro n hn
  unfold storedNames at hn
  split at hn
  · obtain ⟨p, hp, e⟩ := List.mem_map.1 hn
    exact ⟨p, hp, e⟩
  · exact hwf.outSub n hn

theorem num_le (pa : PArr V) (hwf : WF pa) (real : Bool) :
    numParticles pa real ≤ numParticles pa false := by
  cases real
  · exact Nat.le_refl _
  · simpa [numParticles] using hwf.nreal

theorem reqOK_of_wf (pa : PArr V) (hwf : WF pa) (all real : Bool)
    (arrs : List (String × List V))
    (harrs : ∀ n, dictGet? arrs n =
        if n ∈ storedNames pa all then sliceOf pa (numParticles pa real) n else none)
    (p : PropRec V) (hp : p ∈ pa.props) :
    ReqOK (numParticles pa real) (reqOf arrs p) := by
  refine ⟨hwf.stridePos p hp, ?_, fun hb => hwf.baseMeta p hp hb⟩
  intro d hd
  simp only [reqOf] at hd ⊢
  rw [harrs p.name] at hd
  split at hd
  · simp only [sliceOf, findProp_of_mem pa.props p.name hwf.nodup p hp rfl, Option.map_some,
      Option.some.injEq] at hd
    subst hd
    rw [List.length_take, hwf.coh p hp]
    exact Nat.min_eq_left (Nat.mul_le_mul_right _ (num_le pa hwf real))
  · cases hd

/-- The heart of both readers: serving the requests derived from a dump, in any
order, on a freshly cleared array succeeds and yields, for every source
property, a record with the same C type, stride and default, and with the stored
slice as data when the property was written. -/
theorem rebuild (pa : PArr V) (hwf : WF pa) (all real : Bool)
    (arrs : List (String × List V))
    (harrs : ∀ n, dictGet? arrs n =
        if n ∈ storedNames pa all then sliceOf pa (numParticles pa real) n else none)
    (rs : List (AddReq V)) (hperm : rs.Perm (pa.props.map (reqOf arrs)))
    (pa0 : PArr V) (h0 : SInv (numParticles pa real) [] 0 pa0.props) :
    ∃ pa' nP', addAll pa0 rs = .ok pa' ∧ pa'.name = pa0.name ∧ pa'.consts = pa0.consts ∧
      pa'.outArrs = pa0.outArrs ∧ SInv (numParticles pa real) rs nP' pa'.props ∧
      (∀ p ∈ pa.props, ∃ p' ∈ pa'.props, p'.name = p.name ∧ p'.ctype = p.ctype ∧
        p'.stride = p.stride ∧ p'.default = p.default ∧
        (p.name ∈ storedNames pa all → p'.data = p.data.take (numParticles pa real * p.stride))) ∧
      (∀ p' ∈ pa'.props, ∃ p ∈ pa.props, p.name = p'.name) := by
  have hok : ∀ r ∈ rs, ReqOK (numParticles pa real) r := by
    intro r hr
    obtain ⟨p, hp, e⟩ := List.mem_map.1 (hperm.mem_iff.1 hr)
    rw [← e]; exact reqOK_of_wf pa hwf all real arrs harrs p hp
  have hnd : ((([] : List (AddReq V)) ++ rs).map (fun r : AddReq V => r.name)).Nodup := by
    simp only [List.nil_append]
    have hp2 : (rs.map (fun r : AddReq V => r.name)).Perm
        ((pa.props.map (reqOf arrs)).map (fun r : AddReq V => r.name)) := hperm.map _
    rw [hp2.nodup_iff, List.map_map]
    exact hwf.nodup
  obtain ⟨pa', nP', h1, hn, hc, ho, hinv⟩ := addAll_ok rs [] 0 pa0 h0 hok hnd
  simp only [List.nil_append] at hinv
  refine ⟨pa', nP', h1, hn, hc, ho, hinv, ?_, ?_⟩
  · intro p hp
    have hr : reqOf arrs p ∈ rs := hperm.mem_iff.2 (List.mem_map.2 ⟨p, hp, rfl⟩)
    obtain ⟨p', hp', h1, h2, h3, h4, h5⟩ := hinv.doneMeta _ hr
    refine ⟨p', hp', h1, h2, h3, h4, ?_⟩
    intro hst
    apply h5
    simp only [reqOf]
    rw [harrs p.name, if_pos hst]
    simp [sliceOf, findProp_of_mem pa.props p.name hwf.nodup p hp rfl]
  · intro p' hp'
    rcases hinv.names p' hp' with hb | ⟨r, hr, hrn⟩
    · exact hwf.hasBase _ hb
    · obtain ⟨p, hp, e⟩ := List.mem_map.1 (hperm.mem_iff.1 hr)
      exact ⟨p, hp, by rw [← hrn, ← e]; rfl⟩

/-! ### the hdf5 reader -/

theorem insertByName_perm {β : Type} (e : String × β) (l : List (String × β)) :
    (insertByName e l).Perm (e :: l) := by
  induction l with
  | nil => exact List.Perm.refl _
  | cons x xs ih =>
    simp only [insertByName]
    split
    · exact List.Perm.refl _
    · exact (List.Perm.cons x ih).trans (List.Perm.swap e x xs)

theorem sortByName_perm {β : Type} (l : List (String × β)) : (sortByName l).Perm l := by
  induction l with
  | nil => exact List.Perm.refl _
  | cons x xs ih =>
    simp only [sortByName, List.foldr_cons]
    exact (insertByName_perm x _).trans (List.Perm.cons x ih)

theorem insertConst_perm (c : Const V) (l : List (Const V)) :
    (insertConst c l).Perm (c :: l) := by
  induction l with
  | nil => exact List.Perm.refl _
  | cons x xs ih =>
    simp only [insertConst]
    split
    · exact List.Perm.refl _
    · exact (List.Perm.cons x ih).trans (List.Perm.swap c x xs)

theorem sortConsts_perm (l : List (Const V)) : (sortConsts l).Perm l := by
  induction l with
  | nil => exact List.Perm.refl _
  | cons x xs ih =>
    simp only [sortConsts, List.foldr_cons]
    exact (insertConst_perm x _).trans (List.Perm.cons x ih)

/-- the request behind one dataset of an hdf5 file -/
def h5Req (e : String × H5Data V) : AddReq V :=
  { name := e.2.aName, ty := e.2.aType, dflt := e.2.aDefault,
    data := if e.2.stored then some e.2.data else none, stride := e.2.aStride }

theorem h5Req_dataset (arrs : List (String × List V)) (p : PropRec V) :
    h5Req (h5Dataset arrs (propInfo p)) = reqOf arrs p := by
  simp only [h5Dataset, propInfo]
  cases h : dictGet? arrs p.name <;> simp [h5Req, reqOf, h]

theorem h5PropStep_fold (l : List (String × H5Data V)) :
    ∀ (pa0 : PArr V) (out0 : List String),
    l.foldlM h5PropStep (pa0, out0) =
      (addAll pa0 (l.map h5Req)).map
        (fun pa => (pa, out0 ++ (l.filter (fun e => e.2.stored)).map (·.1))) := by
  induction l with
  | nil => intro pa0 out0; simp [addAll, Except.map, pure, Except.pure]
  | cons e es ih =>
    intro pa0 out0
    simp only [List.foldlM_cons, List.map_cons, addAll]
    have hstep : h5PropStep (pa0, out0) e =
        (addReq pa0 (h5Req e)).map (fun pa => (pa, if e.2.stored then out0 ++ [e.1] else out0)) := by
      simp only [h5PropStep, addReq, h5Req]
      cases e.2.stored <;> simp
    rw [hstep]
    cases h1 : addReq pa0 (h5Req e) with
    | error m => simp [Except.map, bind, Except.bind]
    | ok pa1 =>
      simp only [Except.map, bind, Except.bind]
      rw [ih]
      simp only [addAll, Except.map]
      cases hs : e.2.stored <;> simp [List.filter_cons, hs, List.append_assoc]

/-- adding well-formed constants to an array without constants -/
theorem addConstants_ok (cs : List (Const V)) :
    ∀ (pa : PArr V),
    ((pa.consts ++ cs).map (·.name)).Nodup →
    (∀ c ∈ cs, ¬ ∃ p ∈ pa.props, p.name = c.name) →
    (∀ c ∈ cs, constCType c.ctype = some c.ctype) →
    cs.foldlM addConstant pa = .ok { pa with consts := pa.consts ++ cs } := by
  induction cs with
  | nil => intro pa _ _ _; simp [pure, Except.pure]
  | cons c cs ih =>
    intro pa hnd hdis hty
    have h1 : hasConst pa.consts c.name = false := by
      simp only [hasConst, List.any_eq_false, beq_iff_eq]
      intro x hx e
      rw [List.map_append, List.nodup_append] at hnd
      exact hnd.2.2 x.name (List.mem_map.2 ⟨x, hx, rfl⟩) c.name (by simp) e
    have h2 : hasProp pa.props c.name = false := by
      cases hh : hasProp pa.props c.name
      · rfl
      · exact absurd ((hasProp_iff _ _).1 hh) (hdis c (by simp))
    have hstep : addConstant pa c = .ok { pa with consts := pa.consts ++ [c] } := by
      simp [addConstant, h1, h2, hty c (by simp)]
    simp only [List.foldlM_cons, hstep, bind, Except.bind]
    rw [ih]
    · simp [List.append_assoc]
    · simpa [List.append_assoc] using hnd
    · intro c' hc'; exact hdis c' (by simp [hc'])
    · intro c' hc'; exact hty c' (by simp [hc'])

/-- the group `HDFOutput._dump` writes for one array -/
def h5ArrOf (pa : PArr V) (arrs : List (String × List V)) : H5Arr V :=
  { outAttr := some pa.outArrs, constants := pa.consts,
    arrays := (pa.props.map propInfo).map (h5Dataset arrs) }

/-- what a reader must deliver for source array `pa` written with options `o` -/
structure RoundTrip (o : Opts) (pa q : PArr V) : Prop where
  name : q.name = pa.name
  outArrs : q.outArrs = pa.outArrs
  consts : q.consts.Perm pa.consts
  nodup : (q.props.map (·.name)).Nodup
  same : ∀ p ∈ pa.props, ∃ p' ∈ q.props, p'.name = p.name ∧ p'.ctype = p.ctype ∧
    p'.stride = p.stride ∧ p'.default = p.default ∧
    (p.name ∈ storedNames pa o.detailed →
      p'.data = p.data.take (numParticles pa o.onlyReal * p.stride))
  noExtra : ∀ p' ∈ q.props, ∃ p ∈ pa.props, p.name = p'.name
  /-- every loaded property is as long as the stored particle count demands -/
  coh : ∃ n, (n = 0 ∨ n = numParticles pa o.onlyReal) ∧ ∀ p' ∈ q.props, p'.data.length = n * p'.stride

theorem mkParticleArray_consts (name : String) (cs : List (Const V))
    (hnd : (cs.map (·.name)).Nodup) (hbase : ∀ c ∈ cs, ¬ isBase c.name)
    (hty : ∀ c ∈ cs, constCType c.ctype = some c.ctype) :
    mkParticleArray name cs [] = .ok { (emptyArr name : PArr V) with consts := cs } := by
  simp only [mkParticleArray, initializeArr, List.length_nil, beq_self_eq_true, if_true, bind,
    Except.bind]
  rw [addConstants_ok]
  · simp [emptyArr]
  · simpa [emptyArr] using hnd
  · intro c hc ⟨p, hp, e⟩
    apply hbase c hc
    simp only [emptyArr, clearProps, List.mem_cons, List.not_mem_nil, or_false] at hp
    rcases hp with h | h | h <;> subst h <;> simp [isBase, ← e]
  · exact hty

theorem setOutputArrays_ok (pa : PArr V) (names : List String)
    (h : ∀ n ∈ names, ∃ p ∈ pa.props, p.name = n) :
    setOutputArrays pa names = .ok { pa with outArrs := names } := by
  have : names.all (fun n => hasProp pa.props n || hasConst pa.consts n) = true := by
    simp only [List.all_eq_true, Bool.or_eq_true]
    intro n hn
    exact Or.inl ((hasProp_iff _ _).2 (h n hn))
  simp [setOutputArrays, this]

theorem consts_not_base (pa : PArr V) (hwf : WF pa) : ∀ c ∈ pa.consts, ¬ isBase c.name :=
  fun c hc hb => hwf.constsDisj c hc (hwf.hasBase _ hb)

/-- hdf5: reading back the group written for a well-formed array -/
theorem loadH5_spec (pa : PArr V) (hwf : WF pa) (o : Opts) :
    ∃ arrs q, getPropertyArrays pa o.detailed o.onlyReal = some arrs ∧
      loadH5Arr pa.name (h5ArrOf pa arrs) = .ok q ∧ RoundTrip o pa q := by
  obtain ⟨arrs, hg, harrs⟩ := gpa_spec pa o.detailed o.onlyReal (storedNames_sub pa hwf _)
  refine ⟨arrs, ?_⟩
  have hsp := sortConsts_perm pa.consts
  have hmk := mkParticleArray_consts (V := V) pa.name (sortConsts pa.consts)
    (by rw [(hsp.map _).nodup_iff]; exact hwf.constsNodup)
    (fun c hc => consts_not_base pa hwf c (hsp.mem_iff.1 hc))
    (fun c hc => hwf.constsTy c (hsp.mem_iff.1 hc))
  have hperm : ((sortByName (h5ArrOf pa arrs).arrays).map h5Req).Perm
      (pa.props.map (reqOf arrs)) := by
    have h1 := (sortByName_perm (h5ArrOf pa arrs).arrays).map h5Req
    refine h1.trans ?_
    simp only [h5ArrOf, List.map_map]
    rw [List.map_congr_left (g := reqOf arrs)]
    intro p _
    exact h5Req_dataset arrs p
  obtain ⟨pa', nP', h1, hn, hc, ho, hinv, hmeta, hno⟩ :=
    rebuild pa hwf o.detailed o.onlyReal arrs harrs _ hperm
      { (emptyArr pa.name : PArr V) with consts := sortConsts pa.consts }
      (sinv_clear _)
  have hout : ∀ n ∈ pa.outArrs, ∃ p ∈ pa'.props, p.name = n := by
    intro n hn
    obtain ⟨p, hp, e⟩ := hwf.outSub n hn
    obtain ⟨p', hp', e', _⟩ := hmeta p hp
    exact ⟨p', hp', e'.trans e⟩
  refine ⟨{ pa' with outArrs := pa.outArrs }, hg, ?_, ?_⟩
  · simp only [loadH5Arr]
    rw [show (h5ArrOf pa arrs).constants = pa.consts from rfl, hmk]
    simp only [bind, Except.bind]
    rw [h5PropStep_fold, h1]
    simp only [Except.map]
    rw [show (h5ArrOf pa arrs).outAttr = some pa.outArrs from rfl]
    exact setOutputArrays_ok pa' pa.outArrs hout
  · exact { name := hn, outArrs := rfl, consts := by simpa [hc] using hsp, nodup := hinv.nodup,
            same := hmeta, noExtra := hno, coh := ⟨nP', hinv.np, hinv.coh⟩ }

/-! ### the npz reader -/

theorem alignFold_trues (k : Nat) : ∀ (s : AlignSt), s.next = s.idx.length → s.moves = 0 →
    let s' := (List.replicate k true).foldl alignStep s
    s'.next = s'.idx.length ∧ s'.moves = 0 ∧ s'.nreal = s.nreal + k := by
  induction k with
  | zero => intro s h1 h2; simp [h1, h2]
  | succ k ih =>
    intro s h1 h2
    simp only [List.replicate_succ, List.foldl_cons]
    have hstep : alignStep s true =
        { idx := s.idx ++ [s.idx.length], next := s.next + 1, nreal := s.nreal + 1,
          moves := s.moves } := by
      simp [alignStep, h1]
    rw [hstep]
    obtain ⟨a, b, c⟩ := ih (AlignSt.mk (s.idx ++ [s.idx.length]) (s.next + 1) (s.nreal + 1)
      s.moves) (by simp [h1]) h2
    exact ⟨a, b, by rw [c]; simp only []; omega⟩

theorem alignFold_falses (l : List Bool) (hl : ∀ b ∈ l, b = false) : ∀ (s : AlignSt),
    (l.foldl alignStep s).moves = s.moves ∧ (l.foldl alignStep s).nreal = s.nreal := by
  induction l with
  | nil => intro s; exact ⟨rfl, rfl⟩
  | cons b bs ih =>
    intro s
    have hb : b = false := hl b (by simp)
    subst hb
    simp only [List.foldl_cons]
    obtain ⟨h1, h2⟩ := ih (fun b hb => hl b (by simp [hb])) (alignStep s false)
    rw [h1, h2]
    simp [alignStep]

/-- on real-particles-first tags `align_particles` moves nothing -/
theorem alignIndex_aligned (k : Nat) (rest : List Bool) (hrest : ∀ b ∈ rest, b = false) :
    (alignIndex (List.replicate k true ++ rest)).moves = 0 ∧
    (alignIndex (List.replicate k true ++ rest)).nreal = k := by
  unfold alignIndex
  rw [List.foldl_append]
  obtain ⟨_, h2, h3⟩ := alignFold_trues k { idx := [], next := 0, nreal := 0, moves := 0 } rfl rfl
  obtain ⟨h4, h5⟩ := alignFold_falses rest hrest
    ((List.replicate k true).foldl alignStep { idx := [], next := 0, nreal := 0, moves := 0 })
  rw [h4, h5, h2, h3]
  simp

end PysphVerif.DumpLoad
