import PysphVerif.Lemmas.Controller
/-!
C18, repaired protocol (`Cfg.fixed`): the wake-up of `wait()` cannot be lost.
Invariant `W`: ownership of `plock`, the wait set of `plock`, and the relation
between a waiter and the `pause` / `paused` sets.
-/
namespace PysphVerif.Controller

/-- program counters at which an interface thread holds `plock` -/
def holdsP : IPc → Bool
  | IPc.pNtfP | IPc.pRelP | IPc.wWaitP | IPc.wRelP | IPc.cNtfP | IPc.cRelP _ => true
  | _ => false

structure W (s : State) : Prop where
  nodup : s.pWait.Nodup
  waiting : ∀ u ∈ s.pWait, (s.th u).pc = IPc.wBlocked
  owner : ∀ u, holdsP (s.th u).pc = true → s.pOwner = some u
  sowner : (s.spc = SPc.ntaP ∨ s.spc = SPc.relP) → s.pOwner = some 0
  zero : (s.th 0).pc = IPc.idle
  pred : ∀ u, (s.th u).pc = IPc.wWaitP → u ∈ s.pause ∧ u ∉ s.paused
  kept : ∀ u ∈ s.pWait, u ∈ s.pause ∧ (u ∉ s.paused ∨ s.spc = SPc.ntaP)

theorem w_init (progs : Tid → List Op) : W (init progs) := by
  constructor <;> simp [init, holdsP]

/-- steps of thread `t` that do not involve `plock` -/
theorem W.transfer {s s' : State} (h : W s) (t : Tid) (ht : t ≠ 0)
    (e1 : s'.pOwner = s.pOwner) (e2 : s'.pWait = s.pWait) (e3 : s'.pause = s.pause)
    (e4 : s'.paused = s.paused)
    (e5 : s'.spc = s.spc ∨ (s.spc = SPc.blocked ∧ s'.spc = SPc.reacqQ))
    (e6 : ∀ u, u ≠ t → (s'.th u).pc = (s.th u).pc)
    (hnew : holdsP (s'.th t).pc = false ∧ (s'.th t).pc ≠ IPc.wWaitP ∧ (s'.th t).pc ≠ IPc.wBlocked)
    (hold : (s.th t).pc ≠ IPc.wBlocked) : W s' := by
  have htw : t ∉ s.pWait := fun hm => hold (h.waiting t hm)
  constructor
  · rw [e2]; exact h.nodup
  · intro u hu; rw [e2] at hu
    have : u ≠ t := fun e => htw (e ▸ hu)
    rw [e6 u this]; exact h.waiting u hu
  · intro u hu
    by_cases hut : u = t
    · subst hut; rw [hnew.1] at hu; cases hu
    · rw [e6 u hut] at hu; rw [e1]; exact h.owner u hu
  · intro hs; rw [e1]; apply h.sowner
    rcases e5 with e | ⟨_, e⟩
    · rw [← e]; exact hs
    · rw [e] at hs; rcases hs with hs | hs <;> cases hs
  · rw [e6 0 (Ne.symm ht)]; exact h.zero
  · intro u hu
    by_cases hut : u = t
    · subst hut; exact absurd hu hnew.2.1
    · rw [e6 u hut] at hu; rw [e3, e4]; exact h.pred u hu
  · intro u hu; rw [e2] at hu; rw [e3, e4]
    obtain ⟨h1, h2⟩ := h.kept u hu
    refine ⟨h1, ?_⟩
    rcases h2 with h2 | h2
    · exact Or.inl h2
    · right
      rcases e5 with e | ⟨e, _⟩
      · rw [e]; exact h2
      · rw [e] at h2; cases h2

set_option maxHeartbeats 8000000 in
/-- every interface step of the repaired `wait`/`cont` preserves `W` -/
theorem w_stepIface {cfg : Cfg} {s s' : State} {t : Tid} {evs : List Ev}
    (hw : cfg.waitPred = true) (hn : cfg.contNested = false) (h : W s) (hq : QW s) (ht : t ≠ 0)
    (hs : stepIface cfg s t = some (s', evs)) : W s' := by
  unfold stepIface at hs
  simp only [hw, hn, wakeOneP, wakeQ, startOp] at hs
  (repeat' split at hs) <;>
  first
  | (cases hs; done)
  | (simp only [Option.some.injEq, Prod.mk.injEq] at hs
     obtain ⟨rfl, -⟩ := hs
     obtain ⟨a, b, c, d, e, f, g⟩ := h
     constructor <;> simp only [setPc] <;> grind [holdsP, mem_addSet, mustWait, QW])

set_option maxHeartbeats 8000000 in
/-- every solver step preserves `W` -/
theorem w_stepSolver {cfg : Cfg} {s s' : State} {evs : List Ev}
    (hw : cfg.waitPred = true) (h : W s)
    (hs : stepSolver cfg s = some (s', evs)) : W s' := by
  unfold stepSolver at hs
  simp only [hw, runQueue, afterRun, checkPause, wakeAllP] at hs
  (repeat' split at hs) <;>
  first
  | (cases hs; done)
  | (simp only [Option.some.injEq, Prod.mk.injEq] at hs
     obtain ⟨rfl, -⟩ := hs
     obtain ⟨a, b, c, d, e, f, g⟩ := h
     constructor <;> (repeat' split) <;> grind [holdsP, mem_unionSet])

theorem reachable_w {cfg : Cfg} {progs : Tid → List Op} {s : State}
    (hw : cfg.waitPred = true) (hn : cfg.contNested = false)
    (hr : Reachable cfg progs s) : W s := by
  induction hr with
  | init => exact w_init progs
  | @step s s' t evs hr hs ih =>
    have hq := (reachable_inv hr).2
    unfold step at hs
    split at hs
    · exact w_stepSolver hw ih hs
    · rename_i ht; exact w_stepIface hw hn ih hq ht hs

end PysphVerif.Controller
