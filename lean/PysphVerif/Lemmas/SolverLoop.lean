import Mathlib.Algebra.Order.Field.Basic
import Mathlib.Tactic.Linarith
import PysphVerif.Model.SolverLoop
set_option linter.unusedSectionVars false
/-! Helper lemmas for C10: one-step facts about the solver loop model and the
generic "invariant ⇒ every event" induction over the `while` loop. -/
namespace PysphVerif.SolverLoop
variable {α : Type} [Field α] [LinearOrder α] [IsStrictOrderedRing α]

theorem absv_eq_abs (x : α) : absv x = |x| := by
  unfold absv
  split
  · rename_i h; exact (abs_of_neg h).symm
  · rename_i h; exact (abs_of_nonneg (not_lt.mp h)).symm

/-! ### hypotheses on the configuration -/

/-- What the property assumes about a run: ε ≥ 0, tf ≥ 0, the int→float cast
is non-negative, damping factors and adaptive steps are positive, the initial
step is positive, and the requested times are sorted. -/
structure Good (c : Cfg α) (dt0 : α) : Prop where
  hEPS : 0 ≤ c.EPS
  htf : 0 ≤ c.tf
  hcast : ∀ n, 0 ≤ c.cast n
  hdamp : ∀ k, 0 < c.dampFac k
  hadapt : ∀ k v, c.adapt k = some v → 0 < v
  hdt0 : 0 < dt0
  hsorted : c.outT.Pairwise (· ≤ ·)

/-- `guard` without the `max_steps` half -/
def Running (c : Cfg α) (s : St α) : Prop := s.eps < c.tf - s.t

/-- Loop-head invariant. -/
structure Inv (c : Cfg α) (s : St α) : Prop where
  eps_nonneg : 0 ≤ s.eps
  damp_pos : 0 < s.damp
  t_le_tf : s.t ≤ c.tf
  dt_pos : Running c s → 0 < s.dt
  within_tf : Running c s → s.t + s.dt ≤ c.tf
  prev_pos : Running c s → ∀ p, s.prevDt = some p → 0 < p
  /-- the step is the current step size, shortened, or lengthened by < ε to land on tf -/
  le_nom : Running c s → s.dt ≤ s.nom ∨ (s.landed = true ∧ s.dt < s.nom + s.eps)
  /-- the next step does not go past a requested time that is more than ε ahead -/
  not_past : Running c s → ∀ T ∈ c.outT, s.eps < T - s.t → s.t + s.dt ≤ T
  /-- the recorded step size is the current undamped one, unless landing on tf -/
  rec_nom : Running c s → s.landed = false → solverData s = s.nom / s.damp

/-! ### `landOn` -/

theorem landOn_t (s : St α) (l : List α) : (landOn s l).t = s.t ∧ (landOn s l).eps = s.eps ∧
    (landOn s l).count = s.count ∧ (landOn s l).damp = s.damp ∧ (landOn s l).nom = s.nom ∧
    (landOn s l).landed = s.landed ∧ (landOn s l).calls = s.calls := by
  induction l with
  | nil => simp [landOn]
  | cons T rest ih =>
    unfold landOn
    split
    · simp
    · exact ih

/-- `landOn` either leaves the state alone (no requested time is more than ε
ahead and closer than `dt`) or lands on the FIRST such time. -/
theorem landOn_cases (s : St α) (l : List α) :
    ((∀ T ∈ l, tooBig s T = false) ∧ landOn s l = s) ∨
    (∃ l1 T l2, l = l1 ++ T :: l2 ∧ (∀ T' ∈ l1, tooBig s T' = false) ∧ tooBig s T = true ∧
      landOn s l = { s with prevDt := some s.dt, dt := T - s.t }) := by
  induction l with
  | nil => left; simp [landOn]
  | cons T rest ih =>
    by_cases h : tooBig s T = true
    · right
      refine ⟨[], T, rest, rfl, by simp, h, ?_⟩
      simp [landOn, h]
    · have hf : tooBig s T = false := by simpa using h
      rcases ih with ⟨hall, heq⟩ | ⟨l1, T', l2, hl, hall, ht, heq⟩
      · left
        refine ⟨?_, ?_⟩
        · intro T' hT'
          rcases List.mem_cons.mp hT' with rfl | h'
          · exact hf
          · exact hall T' h'
        · simp [landOn, hf, heq]
      · right
        refine ⟨T :: l1, T', l2, by simp [hl], ?_, ht, ?_⟩
        · intro T'' hT''
          rcases List.mem_cons.mp hT'' with rfl | h'
          · exact hf
          · exact hall T'' h'
        · simp [landOn, hf, heq]

theorem tooBig_iff (s : St α) (T : α) : tooBig s T = true ↔ s.eps < T - s.t ∧ T - s.t < s.dt := by
  simp [tooBig]

/-! ### `_get_timestep` -/

theorem restorePrev_fields (s : St α) : (restorePrev s).t = s.t ∧ (restorePrev s).eps = s.eps ∧
    (restorePrev s).count = s.count ∧ (restorePrev s).damp = s.damp ∧
    (restorePrev s).calls = s.calls ∧ (restorePrev s).prevDt = none := by
  unfold restorePrev
  cases h : s.prevDt <;> simp [h]

theorem restorePrev_dt_pos (s : St α) (hdt : 0 < s.dt) (hp : ∀ p, s.prevDt = some p → 0 < p) :
    0 < (restorePrev s).dt := by
  unfold restorePrev
  cases h : s.prevDt with
  | none => simpa using hdt
  | some p => simpa using hp p h

theorem computeTimestep_fields (c : Cfg α) (s : St α) :
    (computeTimestep c s).2.t = s.t ∧ (computeTimestep c s).2.eps = s.eps ∧
    (computeTimestep c s).2.count = s.count ∧ (computeTimestep c s).2.damp = s.damp ∧
    (computeTimestep c s).2.prevDt = s.prevDt ∧ (computeTimestep c s).2.dt = s.dt := by
  unfold computeTimestep
  split
  · split <;> simp
  · simp

theorem computeTimestep_pos (c : Cfg α) (s : St α)
    (hadapt : ∀ k v, c.adapt k = some v → 0 < v) (hdt : 0 < s.dt) (hd : 0 < s.damp) :
    0 < (computeTimestep c s).1 := by
  unfold computeTimestep undamped
  split
  · split
    · rename_i v hv; exact hadapt _ v hv
    · exact div_pos hdt hd
  · exact div_pos hdt hd

theorem newDamp_pos (c : Cfg α) (s : St α) (hdamp : ∀ k, 0 < c.dampFac k) : 0 < newDamp c s := by
  unfold newDamp
  split
  · exact hdamp _
  · exact zero_lt_one

theorem dampAndLand_fields (c : Cfg α) (u : α) (s : St α) : (dampAndLand c u s).t = s.t ∧
    (dampAndLand c u s).eps = s.eps ∧ (dampAndLand c u s).count = s.count ∧
    (dampAndLand c u s).prevDt = s.prevDt ∧ (dampAndLand c u s).damp = newDamp c s ∧
    (dampAndLand c u s).nom = u * newDamp c s := by
  unfold dampAndLand
  split <;> simp

theorem getTimestep_fields (c : Cfg α) (s : St α) : (getTimestep c s).t = s.t ∧
    (getTimestep c s).eps = s.eps ∧ (getTimestep c s).count = s.count := by
  unfold getTimestep
  have h1 := restorePrev_fields s
  have h2 := computeTimestep_fields c (restorePrev s)
  have h3 := dampAndLand_fields c (computeTimestep c (restorePrev s)).1 (computeTimestep c (restorePrev s)).2
  split
  · simp
  · simp [h1, h2, h3]

/-- what holds of the state right after `self.dt = self._get_timestep()` -/
structure Mid (c : Cfg α) (g : St α) : Prop where
  eps_nonneg : 0 ≤ g.eps
  damp_pos : 0 < g.damp
  t_le_tf : g.t ≤ c.tf
  dt_pos : Running c g → 0 < g.dt
  within_tf : Running c g → g.t + g.dt ≤ c.tf
  prev_none : Running c g → g.prevDt = none
  le_nom : Running c g → g.dt ≤ g.nom ∨ (g.landed = true ∧ g.dt < g.nom + g.eps)
  eq_nom : Running c g → g.landed = false → g.dt = g.nom

theorem running_not_early (c : Cfg α) (s : St α) (h : Running c s) :
    ¬ absv (c.tf - s.t) < s.eps ∧ ¬ absv (s.t - c.tf) < s.eps := by
  unfold Running at h
  rw [absv_eq_abs, absv_eq_abs, abs_sub_comm s.t c.tf]
  have : c.tf - s.t ≤ |c.tf - s.t| := le_abs_self _
  constructor <;> intro h' <;> linarith

theorem mid_getTimestep (c : Cfg α) (dt0 : α) (G : Good c dt0) (a : St α)
    (heps : 0 ≤ a.eps) (hd : 0 < a.damp) (ht : a.t ≤ c.tf) (hdt : 0 < a.dt)
    (hp : ∀ p, a.prevDt = some p → 0 < p) : Mid c (getTimestep c a) := by
  have hf := getTimestep_fields c a
  by_cases hr : Running c (getTimestep c a)
  · have hra : Running c a := by
      unfold Running at hr ⊢; rw [hf.1, hf.2.1] at hr; exact hr
    have hne := (running_not_early c a hra).1
    have h1 := restorePrev_fields a
    have h1p := restorePrev_dt_pos a hdt hp
    have h2 := computeTimestep_fields c (restorePrev a)
    have hU : 0 < (computeTimestep c (restorePrev a)).1 :=
      computeTimestep_pos c _ G.hadapt h1p (by rw [h1.2.2.2.1]; exact hd)
    have hF : 0 < newDamp c (computeTimestep c (restorePrev a)).2 := newDamp_pos c _ G.hdamp
    have hra' : a.eps < c.tf - a.t := hra
    have hpn : (computeTimestep c (restorePrev a)).2.prevDt = none := by
      rw [h2.2.2.2.2.1, h1.2.2.2.2.2]
    have ht2 : (computeTimestep c (restorePrev a)).2.t = a.t := by rw [h2.1, h1.1]
    have he2 : (computeTimestep c (restorePrev a)).2.eps = a.eps := by rw [h2.2.1, h1.2.1]
    generalize hu : (computeTimestep c (restorePrev a)).1 = u at *
    generalize hs : (computeTimestep c (restorePrev a)).2 = s2 at *
    have hg : getTimestep c a = dampAndLand c u s2 := by
      unfold getTimestep; simp only [hne, if_false, hu, hs]
    rw [hg]
    unfold dampAndLand
    split
    · rename_i hland
      rw [ht2, he2] at hland
      refine ⟨by simpa [he2] using heps, by simpa using hF, by simpa [ht2] using ht,
        ?_, ?_, ?_, ?_, ?_⟩
      · intro _; simp only [ht2]; linarith
      · intro _; simp only [ht2]; linarith
      · intro _; simpa using hpn
      · intro _; right
        refine ⟨rfl, ?_⟩
        simp only [ht2, he2]; linarith
      · intro _ h; simp at h
    · rename_i hland
      rw [ht2, he2, not_lt] at hland
      refine ⟨by simpa [he2] using heps, by simpa using hF, by simpa [ht2] using ht,
        ?_, ?_, ?_, ?_, ?_⟩
      · intro _; exact mul_pos hU hF
      · intro _; simp only [ht2]; linarith
      · intro _; simpa using hpn
      · intro _; left; exact le_refl _
      · intro _ _; rfl
  · -- not running: only the unconditional parts carry content
    have hdamp : 0 < (getTimestep c a).damp := by
      unfold getTimestep
      split
      · exact hd
      · rw [(dampAndLand_fields c _ _).2.2.2.2.1]; exact newDamp_pos c _ G.hdamp
    exact ⟨by rw [hf.2.1]; exact heps, hdamp, by rw [hf.1]; exact ht,
      fun h => absurd h hr, fun h => absurd h hr, fun h => absurd h hr,
      fun h => absurd h hr, fun h => absurd h hr⟩

/-! ### landing on requested times keeps the invariant -/

theorem inv_of_not_running (c : Cfg α) (s : St α) (heps : 0 ≤ s.eps) (hd : 0 < s.damp)
    (ht : s.t ≤ c.tf) (hr : ¬ Running c s) : Inv c s :=
  ⟨heps, hd, ht, fun h => absurd h hr, fun h => absurd h hr, fun h => absurd h hr,
    fun h => absurd h hr, fun h => absurd h hr, fun h => absurd h hr⟩

theorem inv_landOn (c : Cfg α) (g : St α) (M : Mid c g) (hs : c.outT.Pairwise (· ≤ ·)) :
    Inv c (landOn g c.outT) := by
  have hf := landOn_t g c.outT
  by_cases hr : Running c g
  · have hdt := M.dt_pos hr
    have hw := M.within_tf hr
    have hpn := M.prev_none hr
    have hrun : ∀ {P : Prop}, (Running c g → P) → (Running c (landOn g c.outT) → P) := by
      intro P h _; exact h hr
    rcases landOn_cases g c.outT with ⟨hall, heq⟩ | ⟨l1, T, l2, hl, hall, hT, heq⟩
    · rw [heq]
      refine ⟨M.eps_nonneg, M.damp_pos, M.t_le_tf, M.dt_pos, M.within_tf, ?_, M.le_nom, ?_, ?_⟩
      · intro _ p hp; rw [hpn] at hp; cases hp
      · intro _ T hT hgt
        have := hall T hT
        have hnb : ¬ (g.eps < T - g.t ∧ T - g.t < g.dt) := by
          rw [← tooBig_iff]; simp [this]
        have : ¬ T - g.t < g.dt := fun h => hnb ⟨hgt, h⟩
        have := not_lt.mp this
        linarith
      · intro _ hl
        unfold solverData undamped
        rw [hpn, M.eq_nom hr hl]
    · have hTb := (tooBig_iff g T).mp hT
      rw [heq]
      refine ⟨M.eps_nonneg, M.damp_pos, M.t_le_tf, ?_, ?_, ?_, ?_, ?_, ?_⟩
      · intro _; show 0 < T - g.t; linarith [M.eps_nonneg]
      · intro _; show g.t + (T - g.t) ≤ c.tf; linarith
      · intro _ p hp
        have : p = g.dt := by simpa using hp.symm
        rw [this]; exact hdt
      · intro _
        rcases M.le_nom hr with h | ⟨h1, h2⟩
        · left; show T - g.t ≤ g.nom; linarith
        · right; exact ⟨h1, by show T - g.t < g.nom + g.eps; linarith⟩
      · intro _ T' hT' hgt
        show g.t + (T - g.t) ≤ T'
        rw [hl] at hT' hs
        have hs' := List.pairwise_append.mp hs
        rcases List.mem_append.mp hT' with h1 | h2
        · -- T' is before T in the list: it was not too big, so dt ≤ T' - t
          have := hall T' h1
          have hnb : ¬ (g.eps < T' - g.t ∧ T' - g.t < g.dt) := by
            rw [← tooBig_iff]; simp [this]
          have : ¬ T' - g.t < g.dt := fun h => hnb ⟨hgt, h⟩
          have := not_lt.mp this
          linarith
        · rcases List.mem_cons.mp h2 with rfl | h3
          · linarith
          · have := (List.pairwise_cons.mp hs'.2.1).1 T' h3
            linarith
      · intro _ hl'
        unfold solverData
        show g.dt / g.damp = g.nom / g.damp
        rw [M.eq_nom hr hl']
  · apply inv_of_not_running
    · rw [hf.2.1]; exact M.eps_nonneg
    · rw [hf.2.2.2.1]; exact M.damp_pos
    · rw [hf.1]; exact M.t_le_tf
    · unfold Running at hr ⊢; rw [hf.1, hf.2.1]; exact hr

theorem inv_of_mid_early (c : Cfg α) (g : St α) (M : Mid c g) (h : absv (g.t - c.tf) < g.eps) :
    Inv c g := by
  apply inv_of_not_running c g M.eps_nonneg M.damp_pos M.t_le_tf
  intro hr
  exact (running_not_early c g hr).2 h

theorem dumpIfNeeded_fst (c : Cfg α) (g : St α) :
    (dumpIfNeeded c g).1 = if absv (g.t - c.tf) < g.eps then g else landOn g c.outT := by
  unfold dumpIfNeeded
  split <;> rfl

theorem inv_dumpIfNeeded (c : Cfg α) (g : St α) (M : Mid c g) (hs : c.outT.Pairwise (· ≤ ·)) :
    Inv c (dumpIfNeeded c g).1 := by
  rw [dumpIfNeeded_fst]
  split
  · rename_i h; exact inv_of_mid_early c g M h
  · exact inv_landOn c g M hs

theorem advance_eps_nonneg (c : Cfg α) (dt0 : α) (G : Good c dt0) (s : St α) :
    0 ≤ (advance c s).eps := by
  unfold advance
  exact mul_nonneg (mul_nonneg G.hEPS G.htf) (G.hcast _)

/-- the invariant is preserved by one pass through the loop body -/
theorem inv_iterSt (c : Cfg α) (dt0 : α) (G : Good c dt0) (s : St α) (I : Inv c s)
    (hr : Running c s) : Inv c (iterSt c s) := by
  unfold iterSt
  apply inv_dumpIfNeeded c _ _ G.hsorted
  apply mid_getTimestep c dt0 G
  · exact advance_eps_nonneg c dt0 G s
  · exact I.damp_pos
  · exact I.within_tf hr
  · exact I.dt_pos hr
  · exact I.prev_pos hr

/-- the invariant holds when the loop is entered -/
theorem inv_start (c : Cfg α) (dt0 : α) (G : Good c dt0) : Inv c (start c dt0) := by
  unfold start
  apply inv_landOn c _ _ G.hsorted
  apply mid_getTimestep c dt0 G
  · exact mul_nonneg G.hEPS G.htf
  · exact zero_lt_one
  · exact G.htf
  · exact G.hdt0
  · intro p hp; cases hp

theorem guard_running (c : Cfg α) (s : St α) (h : guard c s = true) :
    Running c s ∧ s.count < c.maxSteps := by
  simpa [guard, Running] using h

/-! ### induction over the `while` loop -/

/-- If `P` holds at the loop head, is preserved by every guarded pass, then it
holds of the final state. -/
theorem loop_final (c : Cfg α) (P : St α → Prop)
    (hstep : ∀ s, P s → guard c s = true → P (iterSt c s)) :
    ∀ fuel s, P s → P (loop c fuel s).1 := by
  intro fuel
  induction fuel with
  | zero => intro s h; exact h
  | succ n ih =>
    intro s h
    unfold loop
    split
    · rename_i hg; exact ih _ (hstep s h hg)
    · exact h

/-- If `P` is a loop invariant and every event of a guarded pass from a `P`
state satisfies `Q`, every event of the loop satisfies `Q`. -/
theorem loop_events (c : Cfg α) (P : St α → Prop) (Q : Ev α → Prop)
    (hstep : ∀ s, P s → guard c s = true → P (iterSt c s))
    (hev : ∀ s, P s → guard c s = true → ∀ e ∈ iterEv c s, Q e) :
    ∀ fuel s, P s → ∀ e ∈ (loop c fuel s).2, Q e := by
  intro fuel
  induction fuel with
  | zero => intro s _ e he; simp [loop] at he
  | succ n ih =>
    intro s h e he
    unfold loop at he
    split at he
    · rename_i hg
      rcases List.mem_append.mp he with h1 | h2
      · exact hev s h hg e h1
      · exact ih _ (hstep s h hg) e h2
    · simp at he

/-- the loop stops only when the guard is false, given enough fuel -/
theorem loop_final_guard (c : Cfg α) :
    ∀ fuel s, c.maxSteps - s.count ≤ fuel → guard c (loop c fuel s).1 = false := by
  intro fuel
  induction fuel with
  | zero =>
    intro s h
    simp only [loop]
    have : ¬ s.count < c.maxSteps := by omega
    simp [guard, this]
  | succ n ih =>
    intro s h
    unfold loop
    split
    · apply ih
      have : (iterSt c s).count = s.count + 1 := by
        unfold iterSt
        rw [dumpIfNeeded_fst]
        split
        · rw [(getTimestep_fields c _).2.2]; rfl
        · rw [(landOn_t _ _).2.2.1, (getTimestep_fields c _).2.2]; rfl
      omega
    · rename_i hg; simpa using hg

end PysphVerif.SolverLoop
