import PysphVerif.Lemmas.Eigen3
/-!
`tql2` of `Model/Eigen3.lean`: plane rotations, the implicit-shift QL sweep as an exact
orthogonal similarity of the shifted tridiagonal matrix, the invariants of the `for l` loop.
-/
set_option linter.unusedSectionVars false
set_option linter.unusedVariables false
set_option linter.unusedSimpArgs false
set_option linter.unusedTactic false
set_option linter.unreachableTactic false
namespace PysphVerif.Eigen3
open Matrix

variable {K : Type} [Field K] [LinearOrder K] [IsStrictOrderedRing K]

/-! ## what the theorems need of `sqrt` and `hypot2` -/

/-- the properties of `sqrt` the theorems use (satisfied by `Real.sqrt`) -/
structure SqrtOK (sqrt : K → K) : Prop where
  nonneg : ∀ x, 0 ≤ sqrt x
  sq : ∀ x, 0 ≤ x → sqrt x * sqrt x = x

/-- the properties of `hypot2` the theorems use: `hyp x y ≥ 0`, `hyp x y ^ 2 = x² + y²` -/
structure HypOK (hyp : K → K → K) : Prop where
  nonneg : ∀ x y, 0 ≤ hyp x y
  sq : ∀ x y, hyp x y * hyp x y = x * x + y * y

theorem HypOK.ne_zero {hyp : K → K → K} (h : HypOK hyp) {x y : K} (hxy : x ≠ 0 ∨ y ≠ 0) :
    hyp x y ≠ 0 := by
  intro h0
  have := h.sq x y
  rw [h0, mul_zero] at this
  have hx := mul_self_nonneg x
  have hy := mul_self_nonneg y
  rcases hxy with hx0 | hy0
  · have : 0 < x * x := mul_self_pos.mpr hx0
    linarith
  · have : 0 < y * y := mul_self_pos.mpr hy0
    linarith

/-- the pinned `hypot2` -/
theorem hypOK_naive {sqrt : K → K} (hs : SqrtOK sqrt) : HypOK (hypotNaive sqrt) where
  nonneg x y := hs.nonneg _
  sq x y := hs.sq _ (by have := mul_self_nonneg x; have := mul_self_nonneg y; linarith)

/-- the repaired (overflow-safe) `hypot2` -/
theorem hypOK_safe {sqrt : K → K} (hs : SqrtOK sqrt) : HypOK (hypotSafe abs sqrt) where
  nonneg x y := by
    unfold hypotSafe
    split
    · exact mul_nonneg (abs_nonneg _) (hs.nonneg _)
    · split
      · exact mul_nonneg (abs_nonneg _) (hs.nonneg _)
      · exact le_refl _
  sq x y := by
    unfold hypotSafe
    split
    · rename_i h
      have hx : x ≠ 0 := by
        intro h0; rw [h0, abs_zero] at h; exact absurd h (not_lt.mpr (abs_nonneg y))
      have h1 : (0 : K) ≤ 1 + y / x * (y / x) := by have := mul_self_nonneg (y / x); linarith
      have := hs.sq _ h1
      calc |x| * sqrt (1 + y / x * (y / x)) * (|x| * sqrt (1 + y / x * (y / x)))
          = (|x| * |x|) * (sqrt (1 + y / x * (y / x)) * sqrt (1 + y / x * (y / x))) := by ring
        _ = (x * x) * (1 + y / x * (y / x)) := by rw [this, abs_mul_abs_self]
        _ = x * x + y * y := by field_simp
    · split
      · rename_i h hy
        have hy : y ≠ 0 := by simpa using hy
        have h1 : (0 : K) ≤ 1 + x / y * (x / y) := by have := mul_self_nonneg (x / y); linarith
        have := hs.sq _ h1
        calc |y| * sqrt (1 + x / y * (x / y)) * (|y| * sqrt (1 + x / y * (x / y)))
            = (|y| * |y|) * (sqrt (1 + x / y * (x / y)) * sqrt (1 + x / y * (x / y))) := by ring
          _ = (y * y) * (1 + x / y * (x / y)) := by rw [this, abs_mul_abs_self]
          _ = x * x + y * y := by field_simp; ring
      · rename_i h hy
        have hy : y = 0 := by simpa using hy
        have hx : x = 0 := by
          rw [hy, abs_zero] at h
          exact abs_eq_zero.mp (le_antisymm (not_lt.mp h) (abs_nonneg x))
        rw [hx, hy]; ring

/-! ## plane rotations -/

/-- `c = p/r`, `s = e/r` with `r = hypot2(p, e) ≠ 0`, in division-free form -/
structure Giv (c s r p e : K) : Prop where
  cr : c * r = p
  sr : s * r = e
  f1 : c * e = s * p
  f2 : s * e + c * p = r
  f3 : c * c + s * s = 1
  r0 : r ≠ 0

theorem giv_of {hyp : K → K → K} (h : HypOK hyp) (p e : K) (hpe : p ≠ 0 ∨ e ≠ 0) :
    Giv (p / hyp p e) (e / hyp p e) (hyp p e) p e := by
  have hr := h.ne_zero hpe
  have hsq := h.sq p e
  refine ⟨by field_simp, by field_simp, by field_simp, ?_, ?_, hr⟩
  · field_simp; linear_combination -hsq
  · field_simp; linear_combination -hsq

/-- the rotation in the plane `(i, i+1)` that `tql2` applies to the columns of `V` -/
def rotM (c s : K) : Nat → Matrix (Fin 3) (Fin 3) K
  | 0 => !![c, s, 0; -s, c, 0; 0, 0, 1]
  | _ => !![1, 0, 0; 0, c, s; 0, -s, c]

theorem rotM_orth (c s : K) (h : c * c + s * s = 1) (i : Nat) :
    (rotM c s i)ᵀ * rotM c s i = 1 ∧ rotM c s i * (rotM c s i)ᵀ = 1 := by
  constructor <;> rcases i with _ | i <;> ext a b <;> fin_cases a <;> fin_cases b <;>
    simp [rotM, Matrix.mul_apply, Fin.sum_univ_three, Matrix.one_apply] <;>
    first | ring1 | linear_combination h

/-- the accumulation loop of `tql2` multiplies `V` by the rotation from the right -/
theorem rotV_toM0 (c s : K) (V : Mat K) :
    ((List.range 3).foldl (qlRotV c s 0) V).toM = V.toM * rotM c s 0 := by
  ext a b; fin_cases a <;> fin_cases b <;>
    simp [rotM, Matrix.mul_apply, Fin.sum_univ_three, List.range, List.range.loop, qlRotV, setM,
      Mat.get] <;> ring1

theorem rotV_toM1 (c s : K) (V : Mat K) :
    ((List.range 3).foldl (qlRotV c s 1) V).toM = V.toM * rotM c s 1 := by
  ext a b; fin_cases a <;> fin_cases b <;>
    simp [rotM, Matrix.mul_apply, Fin.sum_univ_three, List.range, List.range.loop, qlRotV, setM,
      Mat.get] <;> ring1

/-- every plane rotation `tql2` applies keeps the columns of `V` orthonormal -/
theorem orthonormal_mul_rot (V : Mat K) (W : Mat K) (G : Matrix (Fin 3) (Fin 3) K)
    (hG : Gᵀ * G = 1) (hW : W.toM = V.toM * G) (hV : Orthonormal V) : Orthonormal W := by
  unfold Orthonormal at *
  rw [hW, Matrix.transpose_mul, Matrix.mul_assoc, ← Matrix.mul_assoc V.toMᵀ, hV, Matrix.one_mul, hG]

/-! ## the shifted tridiagonal matrix and one QL sweep as a similarity -/

/-- the symmetric tridiagonal matrix `tql2` is working on when it is at eigenvalue `l`:
diagonal `d[i]` (+ the accumulated shift `f` for the not yet finished `i ≥ l`), sub-diagonal
`e[0], e[1]` (`e[i]` couples `i` and `i+1` after the initial renumbering) -/
def Tm (l : Nat) (d e : Vec K) (f : K) : Matrix (Fin 3) (Fin 3) K :=
  !![d 0 + (if l ≤ 0 then f else 0), e 0, 0;
     e 0, d 1 + (if l ≤ 1 then f else 0), e 1;
     0, e 1, d 2 + (if l ≤ 2 then f else 0)]

/-- the symmetric matrix with `x` at `(j, j+1)` and `(j+1, j)`, zero elsewhere (zero for `j ≥ 2`) -/
def offM (j : Nat) (x : K) : Matrix (Fin 3) (Fin 3) K :=
  match j with
  | 0 => !![0, x, 0; x, 0, 0; 0, 0, 0]
  | 1 => !![0, 0, 0; 0, 0, x; 0, x, 0]
  | _ => 0

/-- the shift of `tql2` (`d[l] = e[l]/(p+r)`, `d[l+1] = e[l]*(p+r)`, the rest `-= h`) is a
shift of the whole remaining diagonal by `h = d[l] - e[l]/(p+r)` -/
theorem shift_identity (d0 d1 e0 P r w : K) (he : e0 ≠ 0) (hP : P = (d1 - d0) / (2 * e0))
    (hr : r * r = P * P + 1 * 1) (hw : w = P + r) :
    w ≠ 0 ∧ d1 - (d0 - e0 / w) = e0 * w := by
  have h2 : (2 : K) * e0 ≠ 0 := mul_ne_zero two_ne_zero he
  have hP' : 2 * e0 * P = d1 - d0 := by rw [hP]; field_simp
  have hq : w * w - 2 * P * w - 1 = 0 := by rw [hw]; linear_combination hr
  have hw0 : w ≠ 0 := by
    intro h0; rw [h0] at hq; simp at hq
  refine ⟨hw0, ?_⟩
  field_simp
  linear_combination (-w) * hP' - e0 * hq

/-- single rotation in the plane `(0,1)` (`l = 0`, `m = 1`): the shifted 2×2 block is
singular (`D0 D1 = e0²`) and is diagonalised exactly -/
theorem core0 (D0 D1 D2 e0 c s r : K) (g : Giv c s r D1 e0) (hD : D0 * D1 = e0 * e0) :
    (rotM c s 0)ᵀ * !![D0, e0, 0; e0, D1, 0; 0, 0, D2] * rotM c s 0 =
      !![0, 0, 0; 0, D1 + s * (c * e0 + s * D0), 0; 0, 0, D2] := by
  have k0 : c * D0 = s * e0 := by
    apply mul_right_cancel₀ g.r0
    linear_combination D0 * g.cr - e0 * g.sr + hD
  have f1 := g.f1; have f2 := g.f2; have cr := g.cr
  ext a b; fin_cases a <;> fin_cases b <;>
    simp [rotM, Matrix.mul_apply, Fin.sum_univ_three] <;>
    first
      | ring1
      | linear_combination c * k0 - s * f1
      | linear_combination s * k0 + c * f1
      | linear_combination c * f2 + cr
      | linear_combination c * f2 - cr

/-- single rotation in the plane `(1,2)` (`l = 1`, `m = 2`) -/
theorem core1 (D0 D1 D2 e1 c s r : K) (g : Giv c s r D2 e1) (hD : D1 * D2 = e1 * e1) :
    (rotM c s 1)ᵀ * !![D0, 0, 0; 0, D1, e1; 0, e1, D2] * rotM c s 1 =
      !![D0, 0, 0; 0, 0, 0; 0, 0, D2 + s * (c * e1 + s * D1)] := by
  have k0 : c * D1 = s * e1 := by
    apply mul_right_cancel₀ g.r0
    linear_combination D1 * g.cr - e1 * g.sr + hD
  have f1 := g.f1; have f2 := g.f2; have cr := g.cr
  ext a b; fin_cases a <;> fin_cases b <;>
    simp [rotM, Matrix.mul_apply, Fin.sum_univ_three] <;>
    first
      | ring1
      | linear_combination c * k0 - s * f1
      | linear_combination s * k0 + c * f1
      | linear_combination c * f2 + cr
      | linear_combination c * f2 - cr

/-- first rotation of the double sweep (`l = 0`, `m = 2`): plane `(1,2)` -/
theorem core2a (D0 D1 D2 e0 e1 c1 s1 r1 : K) (g : Giv c1 s1 r1 D2 e1) :
    (rotM c1 s1 1)ᵀ * !![D0, e0, 0; e0, D1, e1; 0, e1, D2] * rotM c1 s1 1 =
      !![D0, c1 * e0, s1 * e0;
         c1 * e0, c1 * (c1 * D1 - s1 * e1), s1 * (c1 * D1 - s1 * e1);
         s1 * e0, s1 * (c1 * D1 - s1 * e1), D2 + s1 * (c1 * e1 + s1 * D1)] := by
  have f1 := g.f1; have f2 := g.f2; have cr := g.cr
  ext a b; fin_cases a <;> fin_cases b <;>
    simp [rotM, Matrix.mul_apply, Fin.sum_univ_three] <;>
    first
      | ring1
      | linear_combination (-s1) * f1
      | linear_combination c1 * f1
      | linear_combination c1 * f2 + cr
      | linear_combination c1 * f2 - cr

/-- second rotation of the double sweep: plane `(0,1)`, removes the bulge `s1*e0` -/
theorem core2b (D0 e0 m11 m22 c1 s1 p1 c0 s0 r0 : K) (g : Giv c0 s0 r0 p1 e0) :
    (rotM c0 s0 0)ᵀ * !![D0, c1 * e0, s1 * e0; c1 * e0, c1 * p1, s1 * p1; s1 * e0, s1 * p1, m22] *
        rotM c0 s0 0 =
      !![c0 * (c0 * D0 - s0 * (c1 * e0)), s0 * (c0 * D0 - s0 * (c1 * e0)), 0;
         s0 * (c0 * D0 - s0 * (c1 * e0)), c1 * p1 + s0 * (c0 * (c1 * e0) + s0 * D0), s1 * r0;
         0, s1 * r0, m22] := by
  have f1 := g.f1; have f2 := g.f2; have cr := g.cr
  ext a b; fin_cases a <;> fin_cases b <;>
    simp [rotM, Matrix.mul_apply, Fin.sum_univ_three] <;>
    first
      | ring1
      | linear_combination (-s0 * c1) * f1
      | linear_combination (c0 * c1) * f1
      | linear_combination s1 * f1
      | linear_combination (c1 * c0) * f2 + c1 * cr
      | linear_combination (c1 * c0) * f2 - c1 * cr
      | linear_combination s1 * f2

/-- the closing formula of the sweep, `p = -s*s2*c3*el1*e[l]/dl1`, is the exact value
`c0*D0 - s0*(c1*e0)` of the QL step because the shifted leading block is singular -/
theorem core2p (D0 D1 e0 e1 c1 s1 p1 c0 s0 r0 : K) (g : Giv c0 s0 r0 p1 e0)
    (hp1 : p1 = c1 * D1 - s1 * e1) (hD : D0 * D1 = e0 * e0) (hD1 : D1 ≠ 0) :
    -s0 * s1 * 1 * e1 * e0 / D1 = c0 * D0 - s0 * (c1 * e0) := by
  rw [div_eq_iff hD1]
  apply mul_right_cancel₀ g.r0
  linear_combination (-s1 * e1 * e0 + c1 * e0 * D1) * g.sr + (-D0 * D1) * g.cr + (-p1) * hD
    + (-e0 * e0) * hp1

/-- what one QL sweep does to the state -/
structure SweepSpec (l m : Nat) (t t' : TQ K) : Prop where
  sim : ∃ G : Matrix (Fin 3) (Fin 3) K, Gᵀ * G = 1 ∧ G * Gᵀ = 1 ∧ t'.V.toM = t.V.toM * G ∧
        G * Tm l t'.d t'.e t'.f * Gᵀ = Tm l t.d t.e t.f - offM m (t.e m)
  em : t'.e m = 0
  mid : ∀ i, l < i → i < m → t'.e i ≠ 0
  low : ∀ i, i < l → t'.e i = t.e i
  tst : t'.tst1 = t.tst1
  drops : t'.drops = t.drops

theorem sim_of_core (G S S' : Matrix (Fin 3) (Fin 3) K) (f : K) (hG : Gᵀ * G = 1)
    (hG' : G * Gᵀ = 1) (hcore : Gᵀ * S * G = S') : G * (S' + f • 1) * Gᵀ = S + f • 1 := by
  rw [← hcore]
  rw [Matrix.mul_add, Matrix.add_mul]
  congr 1
  · calc G * (Gᵀ * S * G) * Gᵀ = (G * Gᵀ) * S * (G * Gᵀ) := by simp only [Matrix.mul_assoc]
      _ = S := by rw [hG']; simp
  · simp [hG']

theorem qlSweep01_form (hyp : K → K → K) (t : TQ K) :
  let P := (t.d.x1 - t.d.x0) / (2 * t.e.x0)
  let r := if P < 0 then -hyp P 1 else hyp P 1
  let w := P + r
  let D0 := t.e.x0 / w
  let D1 := t.e.x0 * w
  let h := t.d.x0 - D0
  let D2 := t.d.x2 - h
  let r0 := hyp D1 t.e.x0
  let s0 := t.e.x0 / r0
  let c0 := D1 / r0
  let pp := -s0 * 0 * 1 * t.e.x1 * t.e.x0 / D1
  qlSweep hyp 0 1 t = { t with
    V := (List.range 3).foldl (qlRotV c0 s0 0) t.V,
    d := ⟨c0 * pp, 1 * D1 + s0 * (c0 * (1 * t.e.x0) + s0 * D0), D2⟩,
    e := ⟨s0 * pp, 0 * r0, t.e.x2⟩,
    f := t.f + h } := by
  intros
  rfl

theorem qlSweep01_spec (hyp : K → K → K) (hh : HypOK hyp) (t : TQ K) (he : t.e 0 ≠ 0) :
    SweepSpec 0 1 t (qlSweep hyp 0 1 t) := by
  have hform := qlSweep01_form hyp t
  simp only at hform
  rw [hform]
  clear hform
  simp only [Vec.get0] at he
  set P := (t.d.x1 - t.d.x0) / (2 * t.e.x0) with hP
  set r := (if P < 0 then -hyp P 1 else hyp P 1) with hr
  set w := P + r with hw
  have hrr : r * r = P * P + 1 * 1 := by
    rw [hr]; split <;> [rw [neg_mul_neg]; skip] <;> exact hh.sq P 1
  obtain ⟨hw0, hsh⟩ := shift_identity t.d.x0 t.d.x1 t.e.x0 P r w he hP hrr hw
  set D0 := t.e.x0 / w with hD0
  set D1 := t.e.x0 * w with hD1
  have hD1ne : D1 ≠ 0 := mul_ne_zero he hw0
  have hD : D0 * D1 = t.e.x0 * t.e.x0 := by rw [hD0, hD1]; field_simp
  have g := giv_of hh D1 t.e.x0 (Or.inl hD1ne)
  set r0 := hyp D1 t.e.x0
  set s0 := t.e.x0 / r0
  set c0 := D1 / r0
  have ho := rotM_orth c0 s0 g.f3 0
  refine ⟨⟨rotM c0 s0 0, ho.1, ho.2, rotV_toM0 c0 s0 t.V, ?_⟩, ?_, ?_, ?_, rfl, rfl⟩
  · have hc := core0 D0 D1 (t.d.x2 - (t.d.x0 - D0)) t.e.x0 c0 s0 r0 g hD
    have := sim_of_core _ _ _ (t.f + (t.d.x0 - D0)) ho.1 ho.2 hc
    dsimp only
    have h1 : Tm 0 ⟨c0 * (-s0 * 0 * 1 * t.e.x1 * t.e.x0 / D1),
        1 * D1 + s0 * (c0 * (1 * t.e.x0) + s0 * D0), t.d.x2 - (t.d.x0 - D0)⟩
        ⟨s0 * (-s0 * 0 * 1 * t.e.x1 * t.e.x0 / D1), 0 * r0, t.e.x2⟩ (t.f + (t.d.x0 - D0)) =
        !![0, 0, 0; 0, D1 + s0 * (c0 * t.e.x0 + s0 * D0), 0; 0, 0, t.d.x2 - (t.d.x0 - D0)] +
          (t.f + (t.d.x0 - D0)) • 1 := by
      ext a b; fin_cases a <;> fin_cases b <;> simp [Tm, Matrix.one_apply, Vec.get] <;> ring1
    have h2 : Tm 0 t.d t.e t.f - offM 1 (t.e 1) =
        !![D0, t.e.x0, 0; t.e.x0, D1, 0; 0, 0, t.d.x2 - (t.d.x0 - D0)] +
          (t.f + (t.d.x0 - D0)) • 1 := by
      ext a b; fin_cases a <;> fin_cases b <;> simp [Tm, offM, Matrix.one_apply, Vec.get] <;>
        first | ring1 | linear_combination hsh
    rw [h1, h2]; exact this
  · simp
  · intro i h1 h2; omega
  · intro i h; omega


theorem qlSweep12_form (hyp : K → K → K) (t : TQ K) :
  let P := (t.d.x2 - t.d.x1) / (2 * t.e.x1)
  let r := if P < 0 then -hyp P 1 else hyp P 1
  let w := P + r
  let D1 := t.e.x1 / w
  let D2 := t.e.x1 * w
  let h := t.d.x1 - D1
  let r1 := hyp D2 t.e.x1
  let s1 := t.e.x1 / r1
  let c1 := D2 / r1
  let pp := -s1 * 0 * 1 * t.e.x2 * t.e.x1 / D2
  qlSweep hyp 1 2 t = { t with
    V := (List.range 3).foldl (qlRotV c1 s1 1) t.V,
    d := ⟨t.d.x0, c1 * pp, 1 * D2 + s1 * (c1 * (1 * t.e.x1) + s1 * D1)⟩,
    e := ⟨t.e.x0, s1 * pp, 0 * r1⟩,
    f := t.f + h } := by
  intros
  rfl

theorem qlSweep12_spec (hyp : K → K → K) (hh : HypOK hyp) (t : TQ K) (he : t.e 1 ≠ 0)
    (he0 : t.e 0 = 0) :
    SweepSpec 1 2 t (qlSweep hyp 1 2 t) := by
  have hform := qlSweep12_form hyp t
  simp only at hform
  rw [hform]
  clear hform
  simp only [Vec.get0, Vec.get1] at he he0
  set P := (t.d.x2 - t.d.x1) / (2 * t.e.x1) with hP
  set r := (if P < 0 then -hyp P 1 else hyp P 1) with hr
  set w := P + r with hw
  have hrr : r * r = P * P + 1 * 1 := by
    rw [hr]; split <;> [rw [neg_mul_neg]; skip] <;> exact hh.sq P 1
  obtain ⟨hw0, hsh⟩ := shift_identity t.d.x1 t.d.x2 t.e.x1 P r w he hP hrr hw
  set D1 := t.e.x1 / w with hD1
  set D2 := t.e.x1 * w with hD2
  have hD2ne : D2 ≠ 0 := mul_ne_zero he hw0
  have hD : D1 * D2 = t.e.x1 * t.e.x1 := by rw [hD1, hD2]; field_simp
  have g := giv_of hh D2 t.e.x1 (Or.inl hD2ne)
  set r1 := hyp D2 t.e.x1
  set s1 := t.e.x1 / r1
  set c1 := D2 / r1
  have ho := rotM_orth c1 s1 g.f3 1
  refine ⟨⟨rotM c1 s1 1, ho.1, ho.2, rotV_toM1 c1 s1 t.V, ?_⟩, ?_, ?_, ?_, rfl, rfl⟩
  · have hc := core1 (t.d.x0 - (t.f + (t.d.x1 - D1))) D1 D2 t.e.x1 c1 s1 r1 g hD
    have := sim_of_core _ _ _ (t.f + (t.d.x1 - D1)) ho.1 ho.2 hc
    dsimp only
    have h1 : Tm 1 ⟨t.d.x0, c1 * (-s1 * 0 * 1 * t.e.x2 * t.e.x1 / D2),
        1 * D2 + s1 * (c1 * (1 * t.e.x1) + s1 * D1)⟩
        ⟨t.e.x0, s1 * (-s1 * 0 * 1 * t.e.x2 * t.e.x1 / D2), 0 * r1⟩ (t.f + (t.d.x1 - D1)) =
        !![t.d.x0 - (t.f + (t.d.x1 - D1)), 0, 0; 0, 0, 0;
           0, 0, D2 + s1 * (c1 * t.e.x1 + s1 * D1)] + (t.f + (t.d.x1 - D1)) • 1 := by
      ext a b; fin_cases a <;> fin_cases b <;> simp [Tm, Matrix.one_apply, Vec.get, he0] <;> ring1
    have h2 : Tm 1 t.d t.e t.f - offM 2 (t.e 2) =
        !![t.d.x0 - (t.f + (t.d.x1 - D1)), 0, 0; 0, D1, t.e.x1; 0, t.e.x1, D2] +
          (t.f + (t.d.x1 - D1)) • 1 := by
      ext a b; fin_cases a <;> fin_cases b <;> simp [Tm, offM, Matrix.one_apply, Vec.get, he0] <;>
        first | ring1 | linear_combination hsh
    rw [h1, h2]; exact this
  · simp
  · intro i h1 h2; omega
  · intro i h
    have : i = 0 := by omega
    subst this; rfl

theorem qlSweep02_form (hyp : K → K → K) (t : TQ K) :
  let P := (t.d.x1 - t.d.x0) / (2 * t.e.x0)
  let r := if P < 0 then -hyp P 1 else hyp P 1
  let w := P + r
  let D0 := t.e.x0 / w
  let D1 := t.e.x0 * w
  let h := t.d.x0 - D0
  let D2 := t.d.x2 - h
  let r1 := hyp D2 t.e.x1
  let s1 := t.e.x1 / r1
  let c1 := D2 / r1
  let p1 := c1 * D1 - s1 * (1 * t.e.x1)
  let r0 := hyp p1 t.e.x0
  let s0 := t.e.x0 / r0
  let c0 := p1 / r0
  let pp := -s0 * s1 * 1 * t.e.x1 * t.e.x0 / D1
  qlSweep hyp 0 2 t = { t with
    V := (List.range 3).foldl (qlRotV c0 s0 0) ((List.range 3).foldl (qlRotV c1 s1 1) t.V),
    d := ⟨c0 * pp, c1 * p1 + s0 * (c0 * (c1 * t.e.x0) + s0 * D0), 1 * D2 + s1 * (c1 * (1 * t.e.x1) + s1 * D1)⟩,
    e := ⟨s0 * pp, s1 * r0, 0 * r1⟩,
    f := t.f + h } := by
  intros
  rfl

theorem qlSweep02_spec (hyp : K → K → K) (hh : HypOK hyp) (t : TQ K) (he0 : t.e 0 ≠ 0)
    (he1 : t.e 1 ≠ 0) :
    SweepSpec 0 2 t (qlSweep hyp 0 2 t) := by
  have hform := qlSweep02_form hyp t
  simp only [one_mul] at hform
  rw [hform]
  clear hform
  simp only [Vec.get0, Vec.get1] at he0 he1
  set P := (t.d.x1 - t.d.x0) / (2 * t.e.x0) with hP
  set r := (if P < 0 then -hyp P 1 else hyp P 1) with hr
  set w := P + r with hw
  have hrr : r * r = P * P + 1 * 1 := by
    rw [hr]; split <;> [rw [neg_mul_neg]; skip] <;> exact hh.sq P 1
  obtain ⟨hw0, hsh⟩ := shift_identity t.d.x0 t.d.x1 t.e.x0 P r w he0 hP hrr hw
  set D0 := t.e.x0 / w with hD0
  set D1 := t.e.x0 * w with hD1
  set D2 := t.d.x2 - (t.d.x0 - D0) with hD2
  have hD1ne : D1 ≠ 0 := mul_ne_zero he0 hw0
  have hD : D0 * D1 = t.e.x0 * t.e.x0 := by rw [hD0, hD1]; field_simp
  have g1 := giv_of hh D2 t.e.x1 (Or.inr he1)
  set r1 := hyp D2 t.e.x1
  set s1 := t.e.x1 / r1 with hs1
  set c1 := D2 / r1
  set p1 := c1 * D1 - s1 * t.e.x1 with hp1
  have g0 := giv_of hh p1 t.e.x0 (Or.inr he0)
  set r0 := hyp p1 t.e.x0
  set s0 := t.e.x0 / r0
  set c0 := p1 / r0
  have hpp := core2p D0 D1 t.e.x0 t.e.x1 c1 s1 p1 c0 s0 r0 g0 hp1 hD hD1ne
  have ho1 := rotM_orth c1 s1 g1.f3 1
  have ho0 := rotM_orth c0 s0 g0.f3 0
  have hG1 : (rotM c1 s1 1 * rotM c0 s0 0)ᵀ * (rotM c1 s1 1 * rotM c0 s0 0) = 1 := by
    rw [Matrix.transpose_mul, Matrix.mul_assoc, ← Matrix.mul_assoc (rotM c1 s1 1)ᵀ, ho1.1,
      Matrix.one_mul, ho0.1]
  have hG2 : (rotM c1 s1 1 * rotM c0 s0 0) * (rotM c1 s1 1 * rotM c0 s0 0)ᵀ = 1 := by
    rw [Matrix.transpose_mul, Matrix.mul_assoc, ← Matrix.mul_assoc (rotM c0 s0 0), ho0.2,
      Matrix.one_mul, ho1.2]
  refine ⟨⟨rotM c1 s1 1 * rotM c0 s0 0, hG1, hG2, ?_, ?_⟩, ?_, ?_, ?_, rfl, rfl⟩
  · dsimp only
    rw [rotV_toM0, rotV_toM1, Matrix.mul_assoc]
  · have ha := core2a D0 D1 D2 t.e.x0 t.e.x1 c1 s1 r1 g1
    have hb := core2b D0 t.e.x0 (c1 * p1) (D2 + s1 * (c1 * t.e.x1 + s1 * D1)) c1 s1 p1 c0 s0 r0 g0
    have hc : (rotM c1 s1 1 * rotM c0 s0 0)ᵀ * !![D0, t.e.x0, 0; t.e.x0, D1, t.e.x1; 0, t.e.x1, D2] *
        (rotM c1 s1 1 * rotM c0 s0 0) =
        !![c0 * (c0 * D0 - s0 * (c1 * t.e.x0)), s0 * (c0 * D0 - s0 * (c1 * t.e.x0)), 0;
           s0 * (c0 * D0 - s0 * (c1 * t.e.x0)), c1 * p1 + s0 * (c0 * (c1 * t.e.x0) + s0 * D0), s1 * r0;
           0, s1 * r0, D2 + s1 * (c1 * t.e.x1 + s1 * D1)] := by
      rw [Matrix.transpose_mul]
      calc (rotM c0 s0 0)ᵀ * (rotM c1 s1 1)ᵀ * !![D0, t.e.x0, 0; t.e.x0, D1, t.e.x1; 0, t.e.x1, D2] *
            (rotM c1 s1 1 * rotM c0 s0 0)
          = (rotM c0 s0 0)ᵀ * ((rotM c1 s1 1)ᵀ * !![D0, t.e.x0, 0; t.e.x0, D1, t.e.x1; 0, t.e.x1, D2] *
            rotM c1 s1 1) * rotM c0 s0 0 := by simp only [Matrix.mul_assoc]
        _ = _ := by rw [ha]; exact hb
    have := sim_of_core _ _ _ (t.f + (t.d.x0 - D0)) hG1 hG2 hc
    dsimp only
    have h1 : Tm 0 ⟨c0 * (-s0 * s1 * 1 * t.e.x1 * t.e.x0 / D1),
        c1 * p1 + s0 * (c0 * (c1 * t.e.x0) + s0 * D0), D2 + s1 * (c1 * t.e.x1 + s1 * D1)⟩
        ⟨s0 * (-s0 * s1 * 1 * t.e.x1 * t.e.x0 / D1), s1 * r0, 0 * r1⟩ (t.f + (t.d.x0 - D0)) =
        !![c0 * (c0 * D0 - s0 * (c1 * t.e.x0)), s0 * (c0 * D0 - s0 * (c1 * t.e.x0)), 0;
           s0 * (c0 * D0 - s0 * (c1 * t.e.x0)), c1 * p1 + s0 * (c0 * (c1 * t.e.x0) + s0 * D0), s1 * r0;
           0, s1 * r0, D2 + s1 * (c1 * t.e.x1 + s1 * D1)] + (t.f + (t.d.x0 - D0)) • 1 := by
      rw [hpp]
      ext a b; fin_cases a <;> fin_cases b <;> simp [Tm, Matrix.one_apply, Vec.get] <;> ring1
    have h2 : Tm 0 t.d t.e t.f - offM 2 (t.e 2) =
        !![D0, t.e.x0, 0; t.e.x0, D1, t.e.x1; 0, t.e.x1, D2] + (t.f + (t.d.x0 - D0)) • 1 := by
      ext a b; fin_cases a <;> fin_cases b <;> simp [Tm, offM, Matrix.one_apply, Vec.get] <;>
        first | ring1 | linear_combination hsh
    rw [h1, h2]; exact this
  · simp
  · intro i h1 h2
    have : i = 1 := by omega
    subst this
    show s1 * r0 ≠ 0
    exact mul_ne_zero (div_ne_zero he1 g1.r0) g0.r0
  · intro i h; omega


/-- one pass of `while cont` for every `(l, m)` that can occur (`l < m < 3`), given that the
sub-diagonal entries inside the block are non-zero (the code guarantees it: they failed the
test `fabs(e[i]) <= eps*tst1`) and those above the block are already zero -/
theorem qlSweep_spec (hyp : K → K → K) (hh : HypOK hyp) (l m : Nat) (hlm : l < m) (hm : m < 3)
    (t : TQ K) (hne : ∀ i, l ≤ i → i < m → t.e i ≠ 0) (hlow : ∀ i, i < l → t.e i = 0) :
    SweepSpec l m t (qlSweep hyp l m t) := by
  have : (l = 0 ∧ m = 1) ∨ (l = 0 ∧ m = 2) ∨ (l = 1 ∧ m = 2) := by omega
  rcases this with ⟨rfl, rfl⟩ | ⟨rfl, rfl⟩ | ⟨rfl, rfl⟩
  · exact qlSweep01_spec hyp hh t (hne 0 (le_refl _) (by omega))
  · exact qlSweep02_spec hyp hh t (hne 0 (le_refl _) (by omega)) (hne 1 (by omega) (by omega))
  · exact qlSweep12_spec hyp hh t (hne 1 (le_refl _) (by omega)) (hlow 0 (by omega))

end PysphVerif.Eigen3
