import PysphVerif.Lemmas.PArraySpecOps
/-!
C06: refinement lemmas for `remove_property`, `resize`, `set_tag`.
-/
namespace PysphVerif.PArray

/-! ### remove_property -/

theorem eraseKey_map_props {β : Type} (P : List Col) (g : Col → β) (nm : String) :
    eraseKey (P.map (fun (c : Col) => (c.name, g c))) nm =
      (P.filter (fun (c : Col) => !(c.name == nm))).map (fun (c : Col) => (c.name, g c)) := by
  unfold eraseKey
  rw [List.filter_map]
  rfl

theorem eraseKey_of_not_mem {β : Type} (l : List (String × β)) (nm : String)
    (h : nm ∉ l.map Prod.fst) : eraseKey l nm = l := by
  unfold eraseKey
  rw [List.filter_eq_self]
  intro p hp
  have : p.1 ≠ nm := fun e => h (e ▸ List.mem_map_of_mem hp)
  simpa using this

theorem removeProperty_refines {pa : PA} (h : Inv pa) (nm : String) (hn : nm ≠ "tag") :
    absPA (pa.removeProperty nm) = specRemoveProperty nm (absPA pa) := by
  have hnn := (inv_removeProperty h nm hn).2
  unfold absPA specRemoveProperty
  by_cases hp : pa.hasProp nm = true
  · have hprops : (pa.removeProperty nm).props = pa.props.filter (fun (c : Col) => !(c.name == nm)) := by
      unfold PA.removeProperty; simp only [hp, if_true]
    have hstr : ∀ x, x ≠ nm → (pa.removeProperty nm).strideOf x = pa.strideOf x := by
      intro x hx
      unfold PA.removeProperty PA.strideOf; simp only [hp, if_true]
      exact lookupD_eraseKey_ne _ _ _ _ hx
    have hdef : ∀ x, x ≠ nm → (pa.removeProperty nm).defaultOf x = pa.defaultOf x := by
      intro x hx
      unfold PA.removeProperty PA.defaultOf; simp only [hp, if_true]
      exact lookupD_eraseKey_ne _ _ _ _ hx
    congr 1
    · unfold defaultParticle
      rw [eraseKey_map_props, hprops]
      apply List.map_congr_left
      intro c hc
      have hcn : c.name ≠ nm := by simpa using (List.mem_filter.mp hc).2
      unfold defaultRow
      rw [hstr _ hcn, hdef _ hcn]
    · unfold particles
      rw [hnn, List.map_map]
      apply List.map_congr_left
      intro k _
      simp only [Function.comp]
      unfold particleAt
      rw [eraseKey_map_props, hprops]
      apply List.map_congr_left
      intro c hc
      have hcn : c.name ≠ nm := by simpa using (List.mem_filter.mp hc).2
      rw [hstr _ hcn]
  · have hp' : pa.hasProp nm = false := by simpa using hp
    have hnm : nm ∉ pa.props.map Col.name := (hasProp_false_iff pa nm).mp hp'
    have e : absPA (pa.removeProperty nm) = absPA pa := by
      apply absPA_congr_fields <;> (unfold PA.removeProperty; simp only [hp']; rfl)
    have e1 := congrArg RA.dflt e
    have e2 := congrArg RA.recs e
    unfold absPA at e1 e2
    simp only [] at e1 e2
    rw [e1, e2]
    congr 1
    · rw [eraseKey_of_not_mem _ _ (by rw [defaultParticle_keys]; exact hnm)]
    · symm
      rw [List.map_congr_left (g := id), List.map_id]
      intro r hr
      unfold particles at hr
      obtain ⟨k, _, rfl⟩ := List.mem_map.mp hr
      apply eraseKey_of_not_mem
      unfold particleAt
      rw [List.map_map]
      exact hnm

/-! ### resize -/

theorem transposeCols_take {β : Type} (L : List β) (nm : β → String) (R : β → List (List Int))
    (n m : Nat) (_hR : ∀ x ∈ L, (R x).length = n) :
    transposeCols (min m n) (L.map (fun x => (nm x, (R x).take m))) =
      (transposeCols n (L.map (fun x => (nm x, R x)))).take m := by
  unfold transposeCols
  rw [← List.map_take, List.take_range]
  apply List.map_congr_left
  intro k hk
  have hk : k < min m n := by simpa using hk
  rw [List.map_map, List.map_map]
  apply List.map_congr_left
  intro x hx
  simp only [Function.comp]
  rw [List.getD_eq_getElem?_getD, List.getD_eq_getElem?_getD, List.getElem?_take,
    if_pos (by omega)]

theorem transposeCols_append' {β : Type} (L : List β) (nm : β → String)
    (A B : β → List (List Int)) (m m1 m2 : Nat) (hm : m = m1 + m2)
    (hA : ∀ x ∈ L, (A x).length = m1) :
    transposeCols m (L.map (fun x => (nm x, A x ++ B x))) =
      transposeCols m1 (L.map (fun x => (nm x, A x))) ++
      transposeCols m2 (L.map (fun x => (nm x, B x))) := by
  subst hm; exact transposeCols_append L nm A B m1 m2 hA

theorem resize_refines {pa : PA} (h : Inv pa) (m : Nat) :
    absPA (pa.resize m) = specResize m (absPA pa) := by
  obtain ⟨hi, hn⟩ := inv_resize h m
  unfold absPA specResize
  congr 1
  · exact defaultParticle_of_names (by unfold PA.resize; simp only [List.map_map]; rfl) rfl rfl
  · simp only []
    rw [particles_length]
    have hprops : (pa.resize m).props = pa.props.map (fun (c : Col) =>
        ({ c with data := flat (resizeRows m (defaultRow pa c.name)
          (rowsOf (pa.strideOf c.name) c.data)) } : Col)) := rfl
    rw [particles_props_map (pa.resize m) pa.props _ hprops, hn]
    have e1 : ∀ c ∈ pa.props,
        (c.name, rowsOf ((pa.resize m).strideOf c.name)
          (flat (resizeRows m (defaultRow pa c.name) (rowsOf (pa.strideOf c.name) c.data)))) =
        (c.name, (rowsOf (pa.strideOf c.name) c.data).take m ++
          List.replicate (m - pa.n) (defaultRow pa c.name)) := by
      intro c hc
      have hu := rowsOf_uniform _ (h.len c hc).1 pa.n c.data (h.len c hc).2
      have hr := resizeRows_uniform m (pa.strideOf c.name) (defaultRow pa c.name) _
        (by simp [defaultRow]) hu.2
      show (c.name, rowsOf (pa.strideOf c.name) _) = _
      rw [rowsOf_flat _ (h.len c hc).1 _ hr.2]
      unfold resizeRows
      rw [hu.1]
    rw [transposeCols_congr _ _ _ _ e1]
    have hm : m = min m pa.n + (m - pa.n) := by omega
    rw [transposeCols_append' pa.props Col.name _ _ m (min m pa.n) (m - pa.n) hm (fun c hc => by
      rw [List.length_take, n_eq_rows h c hc])]
    congr 1
    · rw [transposeCols_take pa.props Col.name _ pa.n m (fun c hc => n_eq_rows h c hc),
        particles_props_map pa pa.props id (by simp)]
      rfl
    · rw [transposeCols_replicate]
      rfl

/-! ### set_tag -/

theorem foldl_set_getD (idx : List Nat) (t : Int) (d : List Int) (j : Nat) (hj : j < d.length) :
    (idx.foldl (fun d i => d.set i t) d).getD j 0 = if idx.contains j then t else d.getD j 0 := by
  induction idx generalizing d with
  | nil => simp
  | cons i idx ih =>
    rw [List.foldl_cons, ih (d.set i t) (by simpa using hj)]
    by_cases hc : idx.contains j = true
    · have : (i :: idx).contains j = true := by
        simp only [List.contains_eq_mem, List.mem_cons, decide_eq_true_eq] at hc ⊢
        exact Or.inr hc
      rw [if_pos hc, if_pos this]
    · rw [if_neg hc]
      by_cases hij : i = j
      · subst hij
        have : (i :: idx).contains i = true := by simp
        rw [if_pos this, List.getD_eq_getElem?_getD, List.getElem?_set_self (by simpa using hj)]
        rfl
      · have : ¬ (i :: idx).contains j = true := by
          simp only [List.contains_eq_mem, List.mem_cons, decide_eq_true_eq, not_or] at hc ⊢
          exact ⟨fun e => hij e.symm, hc⟩
        rw [if_neg this, List.getD_eq_getElem?_getD, List.getD_eq_getElem?_getD,
          List.getElem?_set_ne hij]

theorem setKey_map_props {β : Type} (P : List Col) (g : Col → β) (nm : String) (v : β)
    (h : nm ∈ P.map Col.name) :
    setKey (P.map (fun (c : Col) => (c.name, g c))) nm v =
      P.map (fun (c : Col) => (c.name, if c.name == nm then v else g c)) := by
  unfold setKey
  have : (P.map (fun (c : Col) => (c.name, g c))).any (fun p => p.1 == nm) = true := by
    rw [any_key_iff, List.map_map]; exact h
  rw [if_pos this, List.map_map]
  apply List.map_congr_left
  intro c _
  simp only [Function.comp]
  by_cases hc : c.name = nm
  · simp [hc]
  · simp [hc]

theorem zipIdx_map_range {β γ : Type} (f : Nat → β) (n : Nat) (g : β × Nat → γ) :
    ((List.range n).map f).zipIdx.map g = (List.range n).map (fun k => g (f k, k)) := by
  apply List.ext_getElem
  · simp
  · intro i h1 h2
    simp

theorem setTag_refines {pa : PA} (h : Inv pa) (t : Int) (idx : List Nat) :
    absPA (pa.setTag t idx) = specSetTag t idx (absPA pa) := by
  obtain ⟨tc, rest, hp, htn, hc, hn, htags⟩ := n_of_tagFirst pa h.tagFirst
  have htm : tc ∈ pa.props := by rw [hp]; simp
  have hst : pa.setTag t idx =
      pa.setCol { tc with data := idx.foldl (fun d i => d.set i t) tc.data } := by
    unfold PA.setTag; rw [hc]
  have hlen : (idx.foldl (fun d i => d.set i t) tc.data).length = tc.data.length :=
    foldl_set_length idx t tc.data
  obtain ⟨hi', hn'⟩ := inv_setCol_sameLen h tc htm _ hlen
  rw [← hst] at hi' hn'
  have hprops : (pa.setTag t idx).props = pa.props.map (fun (c : Col) =>
      if c.name == "tag" then { tc with data := idx.foldl (fun d i => d.set i t) tc.data } else c) := by
    rw [hst, setCol_props]
    unfold setColL
    have : pa.props.any (fun (c' : Col) => c'.name ==
        ({ tc with data := idx.foldl (fun d i => d.set i t) tc.data } : Col).name) = true := by
      rw [any_name_iff]
      show tc.name ∈ _
      exact List.mem_map_of_mem htm
    rw [if_pos this]
    apply List.map_congr_left
    intro c _
    show (if c.name == tc.name then _ else _) = _
    rw [htn]
  have hstr : (pa.setTag t idx).stride = pa.stride := by rw [hst, setCol_stride]
  have hdf : (pa.setTag t idx).defaults = pa.defaults := by rw [hst, setCol_defaults]
  have hso : ∀ nm, (pa.setTag t idx).strideOf nm = pa.strideOf nm := by
    intro nm; unfold PA.strideOf; rw [hstr]
  unfold absPA specSetTag
  congr 1
  · apply defaultParticle_of_names _ hstr hdf
    rw [hprops, List.map_map]
    apply List.map_congr_left
    intro c _
    simp only [Function.comp]
    split
    · rename_i hc'; rw [htn]; exact (by simpa using hc' : c.name = "tag").symm
    · rfl
  · simp only []
    unfold particles
    rw [hn', zipIdx_map_range]
    apply List.map_congr_left
    intro k hk
    have hk : k < pa.n := by simpa using hk
    simp only []
    have hpk : particleAt (pa.setTag t idx) k = pa.props.map (fun (c : Col) => (c.name,
        if c.name == "tag" then [if idx.contains k then t else pa.tags.getD k 0]
        else (rowsOf (pa.strideOf c.name) c.data).getD k [])) := by
      unfold particleAt
      rw [hprops, List.map_map]
      apply List.map_congr_left
      intro c _
      simp only [Function.comp]
      by_cases hct : c.name = "tag"
      · simp only [hct, beq_self_eq_true, if_true, htn, hso, h.tagStride]
        rw [rowsOf_one, map_getD_of_lt _ _ k 0 [] (by rw [hlen, ← hn]; exact hk),
          foldl_set_getD idx t tc.data k (by rw [← hn]; exact hk), htags]
      · have : (c.name == "tag") = false := by simpa using hct
        simp only [this, Bool.false_eq_true, if_false, hso]
    rw [hpk]
    have htagmem : "tag" ∈ pa.props.map Col.name := h.toF.tagMem
    by_cases hck : idx.contains k = true
    · simp only [hck, if_true]
      unfold setField particleAt
      rw [setKey_map_props _ _ _ _ htagmem]
    · simp only [hck, Bool.false_eq_true, if_false]
      unfold particleAt
      apply List.map_congr_left
      intro c hc'
      by_cases hct : c.name = "tag"
      · simp only [hct, beq_self_eq_true, if_true]
        have hcc : c = tc := by
          have h1 := h.nodup
          rw [hp] at hc' h1
          rcases List.mem_cons.mp hc' with e | e
          · exact e
          · simp only [List.map_cons, List.nodup_cons] at h1
            have hmem : c.name ∈ rest.map Col.name := List.mem_map_of_mem e
            rw [hct, ← htn] at hmem
            exact absurd hmem h1.1
        rw [h.tagStride, hcc, rowsOf_one, map_getD_of_lt _ _ k 0 [] (by rw [← hn]; exact hk), htags]
      · have : (c.name == "tag") = false := by simpa using hct
        simp only [this, Bool.false_eq_true, if_false]

end PysphVerif.PArray
