import PysphVerif.Lemmas.SolverLoop
set_option linter.unusedSectionVars false
/-! Helper lemmas for C10's termination theorem: a second loop invariant (the
saved nominal step never drops below the integrator's lower bound; once the
solver aims at `tf` it keeps aiming at it) and the counting argument
(every pass takes a full step ≥ `umin·fmin`, or lands on a requested time that
is then behind, or lands on `tf`). -/
namespace PysphVerif.SolverLoop
variable {α : Type} [Field α] [LinearOrder α] [IsStrictOrderedRing α]

/-- the damping factor in force during iteration `k` -/
def dampAt (c : Cfg α) (k : Nat) : α := if k < c.nDamp ∧ 0 < c.nDamp then c.dampFac k else 1

theorem newDamp_eq (c : Cfg α) (s : St α) : newDamp c s = dampAt c s.count := rfl

/-- the nominal (damped) step the solver remembers: `_prev_dt` if set, else `dt` -/
def saved (s : St α) : α :=
  match s.prevDt with
  | some p => p
  | none => s.dt

theorem solverData_eq (s : St α) : solverData s = saved s / s.damp := by
  unfold solverData saved undamped
  cases s.prevDt <;> rfl

/-- Lower bounds under which the loop provably reaches `tf`: every step the
integrator proposes and the configured step are ≥ `umin`, damping factors lie
in `[fmin, 1]` and do not decrease from one iteration to the next (true of the
documented sine ramp). -/
structure Lower (c : Cfg α) (dt0 umin fmin : α) : Prop where
  umin_pos : 0 < umin
  fmin_pos : 0 < fmin
  fmin_le_one : fmin ≤ 1
  dt0_ge : umin ≤ dt0
  adapt_ge : ∀ k v, c.adapt k = some v → umin ≤ v
  damp_ge : ∀ k, fmin ≤ c.dampFac k
  damp_le_one : ∀ k, c.dampFac k ≤ 1
  damp_mono : ∀ k, c.dampFac k ≤ c.dampFac (k + 1)

theorem dampAt_ge (c : Cfg α) (dt0 umin fmin : α) (L : Lower c dt0 umin fmin) (k : Nat) :
    fmin ≤ dampAt c k := by
  unfold dampAt; split
  · exact L.damp_ge k
  · exact L.fmin_le_one

theorem dampAt_mono (c : Cfg α) (dt0 umin fmin : α) (L : Lower c dt0 umin fmin) (k : Nat) :
    dampAt c k ≤ dampAt c (k + 1) := by
  unfold dampAt
  split_ifs with h1 h2 h2
  · exact L.damp_mono k
  · exact L.damp_le_one k
  · exfalso; apply h1; exact ⟨by omega, h2.2⟩
  · exact le_refl _

/-- second loop-head invariant -/
structure Inv2 (c : Cfg α) (dt0 umin : α) (s : St α) : Prop where
  damp_eq : Running c s → s.damp = dampAt c s.count
  shape : Running c s →
    (s.prevDt = none ∧ (s.landed = true → s.dt = c.tf - s.t)) ∨
    (∃ T ∈ c.outT, s.dt = T - s.t ∧ s.t < T ∧ s.prevDt ≠ none)
  und_ge : Running c s → s.landed = false → umin * s.damp ≤ saved s
  land_reach : Running c s → s.landed = true → c.tf - s.t ≤ saved s
  /-- fixed-step mode: the remembered nominal step is the configured one, damped -/
  fixed_saved : c.adaptive = false → Running c s → s.landed = false → saved s = dt0 * s.damp
  /-- adaptive mode: … is the integrator's latest proposal, damped -/
  adapt_saved : c.adaptive = true → Running c s → s.landed = false →
    1 ≤ s.calls ∧ ∀ v, c.adapt (s.calls - 1) = some v → saved s = v * s.damp

/-- what the second invariant needs of the state `_get_timestep` starts from -/
structure Pre2 (c : Cfg α) (dt0 umin : α) (a : St α) : Prop where
  damp_pos : 0 < a.damp
  eps_nonneg : 0 ≤ a.eps
  und : (umin * a.damp ≤ saved a ∧ (c.adaptive = false → saved a = dt0 * a.damp)) ∨
    (a.damp ≤ dampAt c a.count ∧ c.tf - a.t < saved a)

theorem restorePrev_dt (s : St α) : (restorePrev s).dt = saved s := by
  unfold restorePrev saved
  cases s.prevDt <;> rfl

theorem computeTimestep_cases (c : Cfg α) (s : St α) :
    (c.adaptive = true ∧ (computeTimestep c s).2.calls = s.calls + 1 ∧
      ((∃ v, c.adapt s.calls = some v ∧ (computeTimestep c s).1 = v) ∨
       (c.adapt s.calls = none ∧ (computeTimestep c s).1 = s.dt / s.damp))) ∨
    (c.adaptive = false ∧ (computeTimestep c s).1 = s.dt / s.damp) := by
  unfold computeTimestep undamped
  split
  · rename_i ha
    left
    split
    · rename_i v hv; exact ⟨ha, rfl, Or.inl ⟨v, hv, rfl⟩⟩
    · rename_i hv; exact ⟨ha, rfl, Or.inr ⟨hv, rfl⟩⟩
  · rename_i ha
    right; exact ⟨by simpa using ha, rfl⟩

theorem dampAndLand_calls (c : Cfg α) (u : α) (s : St α) : (dampAndLand c u s).calls = s.calls := by
  unfold dampAndLand; split <;> rfl

theorem inv2_of_not_running (c : Cfg α) (dt0 umin : α) (s : St α) (h : ¬ Running c s) :
    Inv2 c dt0 umin s :=
  ⟨fun hr => absurd hr h, fun hr => absurd hr h, fun hr => absurd hr h, fun hr => absurd hr h,
    fun _ hr => absurd hr h, fun _ hr => absurd hr h⟩

theorem inv2_landOn_getTimestep (c : Cfg α) (dt0 umin fmin : α) (L : Lower c dt0 umin fmin)
    (a : St α) (P : Pre2 c dt0 umin a) : Inv2 c dt0 umin (landOn (getTimestep c a) c.outT) := by
  have hfl := landOn_t (getTimestep c a) c.outT
  have hfg := getTimestep_fields c a
  by_cases hr : Running c (landOn (getTimestep c a) c.outT)
  · have hra : Running c a := by
      unfold Running at hr ⊢; rw [hfl.1, hfl.2.1, hfg.1, hfg.2.1] at hr; exact hr
    have hrg : Running c (getTimestep c a) := by
      unfold Running at hra ⊢; rw [hfg.1, hfg.2.1]; exact hra
    have hne := (running_not_early c a hra).1
    have h1 := restorePrev_fields a
    have h2 := computeTimestep_fields c (restorePrev a)
    have hu := computeTimestep_cases c (restorePrev a)
    rw [restorePrev_dt, h1.2.2.2.1, h1.2.2.2.2.1] at hu
    have hpn : (computeTimestep c (restorePrev a)).2.prevDt = none := by
      rw [h2.2.2.2.2.1, h1.2.2.2.2.2]
    have ht2 : (computeTimestep c (restorePrev a)).2.t = a.t := by rw [h2.1, h1.1]
    have he2 : (computeTimestep c (restorePrev a)).2.eps = a.eps := by rw [h2.2.1, h1.2.1]
    have hc2 : (computeTimestep c (restorePrev a)).2.count = a.count := by rw [h2.2.2.1, h1.2.2.1]
    generalize hu' : (computeTimestep c (restorePrev a)).1 = u at *
    generalize hs' : (computeTimestep c (restorePrev a)).2 = s2 at *
    have hg : getTimestep c a = dampAndLand c u s2 := by
      unfold getTimestep; simp only [hne, if_false, hu', hs']
    have hF : 0 < dampAt c a.count := lt_of_lt_of_le L.fmin_pos (dampAt_ge c dt0 umin fmin L _)
    have hnd : newDamp c s2 = dampAt c a.count := by rw [newDamp_eq, hc2]
    -- the undamped value `u` is bounded below, unless the saved step overshoots tf
    have hcalls : (getTimestep c a).calls = s2.calls := by rw [hg]; exact dampAndLand_calls c u s2
    have ubound : ¬ c.tf - a.eps < a.t + u * dampAt c a.count →
        umin ≤ u ∧ (c.adaptive = false → u = dt0) ∧
        (c.adaptive = true → 1 ≤ s2.calls ∧ ∀ v, c.adapt (s2.calls - 1) = some v → u = v) := by
      intro hland
      have hcase : ∀ hu0 : u = saved a / a.damp,
          umin ≤ u ∧ (c.adaptive = false → u = dt0) := by
        intro hu0
        rcases P.und with ⟨hl, hfx⟩ | ⟨hd, hreach⟩
        · refine ⟨by rw [hu0, le_div_iff₀ P.damp_pos]; exact hl, fun hf => ?_⟩
          rw [hu0, hfx hf, mul_div_assoc, div_self (ne_of_gt P.damp_pos), mul_one]
        · -- the saved step would overshoot tf: the landing branch is taken
          exfalso
          apply hland
          have h3 : saved a ≤ u * dampAt c a.count := by
            rw [hu0, div_mul_eq_mul_div, le_div_iff₀ P.damp_pos]
            have hs0 : 0 ≤ saved a := by
              have : a.eps < c.tf - a.t := hra
              linarith [P.eps_nonneg]
            exact mul_le_mul_of_nonneg_left hd hs0
          linarith [P.eps_nonneg]
      rcases hu with ⟨had, hcl, ⟨v, hv, rfl⟩ | ⟨hnone, hu0⟩⟩ | ⟨hfx, hu0⟩
      · refine ⟨L.adapt_ge _ _ hv, (fun h => by rw [had] at h; cases h), fun _ => ⟨by omega, ?_⟩⟩
        intro v' hv'
        rw [hcl, Nat.add_sub_cancel, hv] at hv'
        exact Option.some.inj hv'
      · refine ⟨(hcase hu0).1, (fun h => by rw [had] at h; cases h), fun _ => ⟨by omega, ?_⟩⟩
        intro v' hv'
        rw [hcl, Nat.add_sub_cancel, hnone] at hv'
        cases hv'
      · exact ⟨(hcase hu0).1, (hcase hu0).2, (fun h => by rw [hfx] at h; cases h)⟩
    -- facts about g = getTimestep c a
    have gfacts : (getTimestep c a).damp = dampAt c a.count ∧ (getTimestep c a).prevDt = none ∧
        (getTimestep c a).count = a.count ∧
        ((getTimestep c a).landed = true → (getTimestep c a).dt = c.tf - a.t) ∧
        ((getTimestep c a).landed = false → umin * dampAt c a.count ≤ (getTimestep c a).dt ∧
          (c.adaptive = false → (getTimestep c a).dt = dt0 * dampAt c a.count) ∧
          (c.adaptive = true → 1 ≤ s2.calls ∧
            ∀ v, c.adapt (s2.calls - 1) = some v → (getTimestep c a).dt = v * dampAt c a.count)) := by
      rw [hg]
      unfold dampAndLand
      split
      · refine ⟨hnd, hpn, hc2, fun _ => ?_, fun h => by simp at h⟩
        show c.tf - s2.t = _; rw [ht2]
      · rename_i hland
        rw [hnd, ht2, he2] at hland
        obtain ⟨hb1, hb2, hb3⟩ := ubound hland
        refine ⟨hnd, hpn, hc2, fun h => by simp at h, fun _ => ⟨?_, ?_, ?_⟩⟩
        · show umin * dampAt c a.count ≤ u * newDamp c s2
          rw [hnd]
          exact mul_le_mul_of_nonneg_right hb1 (le_of_lt hF)
        · intro hf
          show u * newDamp c s2 = _
          rw [hnd, hb2 hf]
        · intro ha
          refine ⟨(hb3 ha).1, fun v hv => ?_⟩
          show u * newDamp c s2 = _
          rw [hnd, (hb3 ha).2 v hv]
    obtain ⟨gd, gp, gc, gl, gn⟩ := gfacts
    have hsv : ∀ s' : St α, s'.prevDt = none → saved s' = s'.dt := by
      intro s' h; unfold saved; rw [h]
    have hcl := hfl.2.2.2.2.2.2
    rcases landOn_cases (getTimestep c a) c.outT with ⟨_, heq⟩ | ⟨l1, T, l2, hl, _, hT, heq⟩
    · rw [heq]
      refine ⟨fun _ => by rw [gd, gc], fun _ => Or.inl ⟨gp, fun h => by rw [gl h, hfg.1]⟩,
        ?_, ?_, ?_, ?_⟩
      · intro _ h; rw [hsv _ gp, gd]; exact (gn h).1
      · intro _ h; rw [hsv _ gp, gl h, hfg.1]
      · intro hf _ h; rw [hsv _ gp, gd]; exact (gn h).2.1 hf
      · intro ha _ h
        rw [hsv _ gp, gd, hcalls]; exact (gn h).2.2 ha
    · have hTb := (tooBig_iff _ T).mp hT
      have hTm : T ∈ c.outT := by rw [hl]; simp
      rw [heq]
      refine ⟨fun _ => by show (getTimestep c a).damp = _; rw [gd, gc], fun _ => Or.inr ?_,
        ?_, ?_, ?_, ?_⟩
      · refine ⟨T, hTm, rfl, ?_, by simp⟩
        show (getTimestep c a).t < T
        have : 0 ≤ (getTimestep c a).eps := by rw [hfg.2.1]; exact P.eps_nonneg
        linarith [hTb.1]
      · intro _ h
        show umin * (getTimestep c a).damp ≤ (getTimestep c a).dt
        rw [gd]; exact (gn h).1
      · intro _ h
        show c.tf - (getTimestep c a).t ≤ (getTimestep c a).dt
        rw [gl h, hfg.1]
      · intro hf _ h
        show (getTimestep c a).dt = dt0 * (getTimestep c a).damp
        rw [gd]; exact (gn h).2.1 hf
      · intro ha _ h
        show 1 ≤ (getTimestep c a).calls ∧ ∀ v, c.adapt ((getTimestep c a).calls - 1) = some v →
          (getTimestep c a).dt = v * (getTimestep c a).damp
        rw [gd, hcalls]; exact (gn h).2.2 ha
  · exact inv2_of_not_running c dt0 umin _ hr

theorem saved_advance (c : Cfg α) (s : St α) : saved (advance c s) = saved s := rfl

/-- the second invariant is preserved by one pass through the loop body -/
theorem inv2_iterSt (c : Cfg α) (dt0 umin fmin : α) (G : Good c dt0) (L : Lower c dt0 umin fmin)
    (s : St α) (I : Inv c s) (J : Inv2 c dt0 umin s) (hr : Running c s) :
    Inv2 c dt0 umin (iterSt c s) := by
  unfold iterSt
  rw [dumpIfNeeded_fst]
  split
  · rename_i h
    apply inv2_of_not_running
    intro hr'
    exact (running_not_early c _ hr').2 h
  · apply inv2_landOn_getTimestep c dt0 umin fmin L
    refine ⟨I.damp_pos, advance_eps_nonneg c dt0 G s, ?_⟩
    rw [saved_advance]
    by_cases hl : s.landed = true
    · right
      refine ⟨?_, ?_⟩
      · show s.damp ≤ dampAt c (s.count + 1)
        rw [J.damp_eq hr]; exact dampAt_mono c dt0 umin fmin L _
      · show c.tf - (s.t + s.dt) < saved s
        have := J.land_reach hr hl
        have := I.dt_pos hr
        linarith
    · left
      have hl' : s.landed = false := by simpa using hl
      refine ⟨J.und_ge hr hl', fun hf => ?_⟩
      show saved s = dt0 * s.damp
      exact J.fixed_saved hf hr hl'

theorem inv2_start (c : Cfg α) (dt0 umin fmin : α) (G : Good c dt0) (L : Lower c dt0 umin fmin) :
    Inv2 c dt0 umin (start c dt0) := by
  unfold start
  apply inv2_landOn_getTimestep c dt0 umin fmin L
  refine ⟨zero_lt_one, mul_nonneg G.hEPS G.htf, Or.inl ⟨?_, fun _ => ?_⟩⟩
  · show umin * 1 ≤ dt0
    rw [mul_one]; exact L.dt0_ge
  · show dt0 = dt0 * 1
    rw [mul_one]

/-! ### counting -/

/-- number of requested times strictly ahead of `t` -/
def ahead (l : List α) (t : α) : Nat := (l.filter (fun T => decide (t < T))).length

theorem ahead_mono (l : List α) (t t' : α) (h : t ≤ t') : ahead l t' ≤ ahead l t := by
  unfold ahead
  induction l with
  | nil => simp
  | cons x rest ih =>
    simp only [List.filter_cons]
    by_cases h1 : t' < x
    · have h2 : t < x := lt_of_le_of_lt h h1
      simp only [h1, h2, decide_true, if_true, List.length_cons]; omega
    · by_cases h2 : t < x
      · simp only [h1, h2, decide_true, decide_false, if_true, List.length_cons]
        simp; omega
      · simp only [h1, h2, decide_false]; simpa using ih

theorem ahead_lt (l : List α) (t T : α) (hT : T ∈ l) (h : t < T) : ahead l T < ahead l t := by
  unfold ahead
  induction l with
  | nil => cases hT
  | cons x rest ih =>
    simp only [List.filter_cons]
    have hm := ahead_mono rest t T (le_of_lt h)
    unfold ahead at hm
    rcases List.mem_cons.mp hT with rfl | hT'
    · have h1 : ¬ T < T := lt_irrefl _
      simp only [h1, h, decide_true, decide_false, if_true, List.length_cons]
      simp; omega
    · have := ih hT'
      by_cases h1 : T < x
      · have h2 : t < x := lt_trans h h1
        simp only [h1, h2, decide_true, if_true, List.length_cons]; omega
      · by_cases h2 : t < x
        · simp only [h1, h2, decide_true, decide_false, if_true, List.length_cons]
          simp; omega
        · simp only [h1, h2, decide_false]; simpa using this

theorem ahead_le_length (l : List α) (t : α) : ahead l t ≤ l.length := by
  unfold ahead; exact List.length_filter_le _ _

theorem loop_not_guard (c : Cfg α) (fuel : Nat) (s : St α) (h : guard c s = false) :
    loop c fuel s = (s, []) := by
  cases fuel with
  | zero => rfl
  | succ m => unfold loop; simp [h]

theorem loop_guard (c : Cfg α) (n : Nat) (s : St α) (h : guard c s = true) :
    loop c (n + 1) s = ((loop c n (iterSt c s)).1, iterEv c s ++ (loop c n (iterSt c s)).2) := by
  rw [loop]; simp [h]

theorem iterSt_t_count (c : Cfg α) (s : St α) :
    (iterSt c s).t = s.t + s.dt ∧ (iterSt c s).count = s.count + 1 := by
  unfold iterSt
  rw [dumpIfNeeded_fst]
  split
  · exact ⟨by rw [(getTimestep_fields c _).1]; rfl, by rw [(getTimestep_fields c _).2.2]; rfl⟩
  · exact ⟨by rw [(landOn_t _ _).1, (getTimestep_fields c _).1]; rfl,
      by rw [(landOn_t _ _).2.2.1, (getTimestep_fields c _).2.2]; rfl⟩

/-- The counting argument: with `tf - t ≤ n·(umin·fmin)` and `k` requested
times still ahead, at most `n + k` more passes are made, and the loop ends
because `tf` is reached (to within ε), not because of `max_steps`. -/
theorem loop_terminates (c : Cfg α) (dt0 umin fmin : α) (G : Good c dt0)
    (L : Lower c dt0 umin fmin) :
    ∀ m fuel s (n : Nat), Inv c s → Inv2 c dt0 umin s → c.tf - s.t ≤ n * (umin * fmin) →
      n + ahead c.outT s.t ≤ m → m ≤ fuel → s.count + m ≤ c.maxSteps →
      ¬ Running c (loop c fuel s).1 ∧ (loop c fuel s).1.count ≤ s.count + m := by
  have hd : 0 < umin * fmin := mul_pos L.umin_pos L.fmin_pos
  intro m
  induction m with
  | zero =>
    intro fuel s n I _ hn hm _ _
    have hn0 : n = 0 := by omega
    have hnr : ¬ Running c s := by
      intro hr
      unfold Running at hr
      rw [hn0] at hn
      have := I.eps_nonneg
      simp at hn
      linarith
    have hg : guard c s = false := by
      unfold Running at hnr; simp [guard, hnr]
    rw [loop_not_guard c fuel s hg]
    exact ⟨hnr, by simp⟩
  | succ m ih =>
    intro fuel s n I J hn hm hf hc
    by_cases hg : guard c s = true
    · obtain ⟨hr, _⟩ := guard_running c s hg
      obtain ⟨fuel', rfl⟩ : ∃ f', fuel = f' + 1 := ⟨fuel - 1, by omega⟩
      rw [loop_guard c fuel' s hg]
      simp only
      have I' := inv_iterSt c dt0 G s I hr
      have J' := inv2_iterSt c dt0 umin fmin G L s I J hr
      obtain ⟨ht', hc'⟩ := iterSt_t_count c s
      have hdt := I.dt_pos hr
      have hpos : 0 < c.tf - s.t := by
        have : s.eps < c.tf - s.t := hr
        linarith [I.eps_nonneg]
      have hn1 : 1 ≤ n := by
        by_contra h
        have : n = 0 := by omega
        rw [this] at hn; simp at hn; linarith
      -- a bound for the state after the pass
      have key : ∃ n' : Nat, c.tf - (iterSt c s).t ≤ n' * (umin * fmin) ∧
          n' + ahead c.outT (iterSt c s).t ≤ m := by
        rcases J.shape hr with ⟨hpn, hland⟩ | ⟨T, hT, hdtT, hlt, _⟩
        · by_cases hl : s.landed = true
          · refine ⟨0, ?_, ?_⟩
            · rw [ht', hland hl]; simp
            · have := ahead_mono c.outT s.t (iterSt c s).t (by rw [ht']; linarith)
              omega
          · have hsv : saved s = s.dt := by unfold saved; rw [hpn]
            have h1 := J.und_ge hr (by simpa using hl)
            rw [hsv, J.damp_eq hr] at h1
            have h2 : umin * fmin ≤ umin * dampAt c s.count :=
              mul_le_mul_of_nonneg_left (dampAt_ge c dt0 umin fmin L _) (le_of_lt L.umin_pos)
            obtain ⟨k, rfl⟩ : ∃ k, n = k + 1 := ⟨n - 1, by omega⟩
            refine ⟨k, ?_, ?_⟩
            · rw [ht']
              push_cast at hn
              linarith
            · have := ahead_mono c.outT s.t (iterSt c s).t (by rw [ht']; linarith)
              omega
        · refine ⟨n, ?_, ?_⟩
          · rw [ht']; linarith
          · have hT' : (iterSt c s).t = T := by rw [ht', hdtT]; linarith
            rw [hT']
            have := ahead_lt c.outT s.t T hT hlt
            omega
      obtain ⟨n', hn', hm'⟩ := key
      obtain ⟨h1, h2⟩ := ih fuel' (iterSt c s) n' I' J' hn' hm' (by omega) (by rw [hc']; omega)
      exact ⟨h1, by rw [hc'] at h2; omega⟩
    · have hgf : guard c s = false := by simpa using hg
      rw [loop_not_guard c fuel s hgf]
      refine ⟨?_, by simp⟩
      intro hr
      apply hg
      unfold Running at hr
      have : s.count < c.maxSteps := by omega
      simp [guard, hr, this]

end PysphVerif.SolverLoop
