import PysphVerif.Model.NbrCacheHist
/-!
Helper lemmas for the neighbour cache across histories (C09):
the clear loop of `update`, the invariant "a set flag means the stored range
is the search's list", and its preservation by every operation.
-/
namespace PysphVerif.NbrCacheHist

/-! ### arrays -/

@[simp] theorem CArr.get_set (a : CArr) (i v j : Nat) :
    (a.set i v).get j = if j = i then v else a.get j := rfl

@[simp] theorem CArr.length_set (a : CArr) (i v : Nat) : (a.set i v).length = a.length := rfl

@[simp] theorem CArr.length_resize (junk : Nat → Nat) (a : CArr) (n : Nat) :
    (a.resize junk n).length = n := rfl

/-! ### the clear loop of `update` -/

theorem clearLoop_cached (n : Nat) (s : St) (d : Nat) :
    ((List.range n).foldl clearStep s).cached.get d = if d < n then 0 else s.cached.get d := by
  induction n with
  | zero => simp
  | succ n ih =>
    rw [List.range_succ, List.foldl_append]
    simp only [List.foldl_cons, List.foldl_nil, clearStep, CArr.get_set, ih]
    by_cases h1 : d = n
    · subst h1; simp
    · by_cases h2 : d < n
      · have : d < n + 1 := by omega
        simp [h1, h2, this]
      · have : ¬ d < n + 1 := by omega
        simp [h1, h2, this]

theorem clearLoop_buf (n : Nat) (s : St) :
    ((List.range n).foldl clearStep s).buf = s.buf := by
  induction n with
  | zero => simp
  | succ n ih =>
    rw [List.range_succ, List.foldl_append]
    simp only [List.foldl_cons, List.foldl_nil, clearStep, ih]

/-- after `update`, no current particle is flagged — whatever the object went
through before and whatever fresh memory contains -/
theorem update_clears (junk : Nat → Nat) (s : St) (np d : Nat) (hd : d < np) :
    (update junk s np).cached.get d = 0 := by
  simp only [update, clearLoop_cached, hd, if_true]

theorem update_buf (junk : Nat → Nat) (s : St) (np : Nat) : (update junk s np).buf = [] := rfl

/-! ### the invariant -/

/-- a set flag of a current particle means: its `[start, stop)` range lies in
the buffer and holds the search's list -/
def Inv (find : Nat → List Nat) (np : Nat) (s : St) : Prop :=
  ∀ d, d < np → s.cached.get d ≠ 0 →
    s.startStop.get (2 * d) ≤ s.startStop.get (2 * d + 1) ∧
    s.startStop.get (2 * d + 1) ≤ s.buf.length ∧
    view s d = find d

theorem inv_update (junk : Nat → Nat) (find : Nat → List Nat) (s : St) (np : Nat) :
    Inv find np (update junk s np) := by
  intro d hd hc
  exact absurd (update_clears junk s np d hd) hc

theorem drop_take_append (l x : List Nat) (a b : Nat) (hab : a ≤ b) (hb : b ≤ l.length) :
    ((l ++ x).drop a).take (b - a) = (l.drop a).take (b - a) := by
  rw [List.drop_append_of_le_length (by omega)]
  rw [List.take_append_of_le_length (by simp; omega)]

theorem inv_findNeighbors (find : Nat → List Nat) (np : Nat) (s : St) (d : Nat)
    (h : Inv find np s) : Inv find np (findNeighbors find s d) := by
  intro e he hc
  by_cases hed : e = d
  · subst hed
    have e1 : (2 * e = e * 2) := by omega
    have e3 : ¬ (e * 2 = e * 2 + 1) := by omega
    simp only [findNeighbors, view, CArr.get_set, e1, e3, if_true, if_false]
    refine ⟨by omega, by simp, ?_⟩
    simp
  · have n1 : ¬ (2 * e = d * 2) := by omega
    have n2 : ¬ (2 * e = d * 2 + 1) := by omega
    have n3 : ¬ (2 * e + 1 = d * 2) := by omega
    have n4 : ¬ (2 * e + 1 = d * 2 + 1) := by omega
    have hc' : s.cached.get e ≠ 0 := by
      simpa only [findNeighbors, CArr.get_set, hed, if_false] using hc
    obtain ⟨h1, h2, h3⟩ := h e he hc'
    simp only [findNeighbors, view, CArr.get_set, n1, n2, n3, n4, if_false]
    refine ⟨h1, by simp; omega, ?_⟩
    rw [drop_take_append _ _ _ _ h1 h2]
    exact h3

theorem cached_findNeighbors (find : Nat → List Nat) (s : St) (d : Nat) :
    (findNeighbors find s d).cached.get d ≠ 0 := by
  simp [findNeighbors]

/-- `get_neighbors_raw` keeps the invariant and hands out the search's list -/
theorem getNeighbors_spec (find : Nat → List Nat) (np : Nat) (s : St) (d : Nat) (hd : d < np)
    (h : Inv find np s) :
    Inv find np (getNeighbors find s d).1 ∧ (getNeighbors find s d).2 = find d := by
  unfold getNeighbors
  by_cases hc : s.cached.get d = 0
  · simp only [hc, if_true]
    have hi := inv_findNeighbors find np s d h
    exact ⟨hi, (hi d hd (cached_findNeighbors find s d)).2.2⟩
  · simp only [hc, if_false]
    exact ⟨h, (h d hd hc).2.2⟩

theorem inv_findAllStep (find : Nat → List Nat) (np : Nat) (s : St) (d : Nat)
    (h : Inv find np s) : Inv find np (findAllStep find s d) := by
  unfold findAllStep
  split
  · exact inv_findNeighbors find np s d h
  · exact h

theorem inv_foldl_findAllStep (find : Nat → List Nat) (np : Nat) (l : List Nat) (s : St)
    (h : Inv find np s) : Inv find np (l.foldl (findAllStep find) s) := by
  induction l generalizing s with
  | nil => exact h
  | cons d l ih => exact ih _ (inv_findAllStep find np s d h)

theorem inv_findAll (find : Nat → List Nat) (np : Nat) (s : St) (h : Inv find np s) :
    Inv find np (findAll find s np) :=
  inv_foldl_findAllStep find np _ s h

/-- one round's queries: the invariant survives and the lists handed out are
the search's -/
theorem runOps_spec (find : Nat → List Nat) (np : Nat) (ops : List Op) (s : St)
    (hr : opsInRange np ops) (h : Inv find np s) :
    Inv find np (runOps find np s ops).1 ∧ (runOps find np s ops).2 = specOps find ops := by
  induction ops generalizing s with
  | nil => exact ⟨h, rfl⟩
  | cons op rest ih =>
    cases op with
    | get d =>
      obtain ⟨hd, hrest⟩ := hr
      obtain ⟨hi, hv⟩ := getNeighbors_spec find np s d hd h
      obtain ⟨hi', hv'⟩ := ih _ hrest hi
      refine ⟨hi', ?_⟩
      simp only [runOps, stepOp, specOps, hv, hv']
    | all =>
      obtain ⟨hi', hv'⟩ := ih _ hr (inv_findAll find np s h)
      refine ⟨hi', ?_⟩
      simp only [runOps, stepOp, specOps, hv']

end PysphVerif.NbrCacheHist
