import PysphVerif.Model.NnpsStore
import Mathlib.Data.Nat.Bitwise
import Mathlib.Tactic.NormNum
/-!
C01 helper lemmas: the Morton key of `z_order.h` (`get_key`).  Each of the five
magic-number steps is linear over bitwise OR, a single bit `b < 21` is moved to
bit `3b` (checked for the 21 bits), hence bit `3b + r` of the key is bit `b` of
coordinate `r`, and the key is injective on coordinates below 2^21.
-/
set_option linter.unusedSimpArgs false
namespace PysphVerif.Nnps

def spreadStep (s m x : Nat) : Nat := (x ||| (x <<< s)) &&& m

theorem spreadStep_or (s m x y : Nat) :
    spreadStep s m (x ||| y) = spreadStep s m x ||| spreadStep s m y := by
  apply Nat.eq_of_testBit_eq
  intro k
  simp only [spreadStep, Nat.testBit_and, Nat.testBit_or, Nat.testBit_shiftLeft]
  cases x.testBit k <;> cases y.testBit k <;> cases decide (k ≥ s) <;> cases x.testBit (k - s) <;>
    cases y.testBit (k - s) <;> cases m.testBit k <;> rfl

theorem mortonSpread_eq (i : Nat) : mortonSpread i =
    spreadStep 2 0x1249249249249249 (spreadStep 4 0x10c30c30c30c30c3 (spreadStep 8 0x100f00f00f00f00f
      (spreadStep 16 0x1f0000ff0000ff (spreadStep 32 0x1f00000000ffff i)))) := rfl

theorem mortonSpread_or (x y : Nat) : mortonSpread (x ||| y) = mortonSpread x ||| mortonSpread y := by
  simp only [mortonSpread_eq, spreadStep_or]

theorem mortonSpread_zero : mortonSpread 0 = 0 := by decide

theorem mortonSpread_pow : ∀ b, b < 21 → mortonSpread (2 ^ b) = 2 ^ (3 * b) := by decide +kernel


theorem spread_testBit : ∀ n, n ≤ 21 → ∀ i, i < 2 ^ n → ∀ m,
    (mortonSpread i).testBit m = (decide (m % 3 = 0) && decide (m / 3 < n) && i.testBit (m / 3)) := by
  intro n
  induction n with
  | zero =>
    intro _ i hi m
    have : i = 0 := by simpa using hi
    subst this
    simp [mortonSpread_zero]
  | succ n ih =>
    intro hn i hi m
    have hn' : n < 21 := by omega
    by_cases hb : i.testBit n = true
    · have hge : 2 ^ n ≤ i := Nat.ge_two_pow_of_testBit hb
      have hlo : i - 2 ^ n < 2 ^ n := by rw [Nat.pow_succ] at hi; omega
      have hi_eq : i = 2 ^ n ||| (i - 2 ^ n) := by
        rw [Nat.or_comm, Nat.or_two_pow_eq_add_of_lt hlo]; omega
      have hsp : mortonSpread i = 2 ^ (3 * n) ||| mortonSpread (i - 2 ^ n) := by
        conv => lhs; rw [hi_eq]
        rw [mortonSpread_or, mortonSpread_pow n hn']
      have hbits : ∀ k, i.testBit k = (decide (n = k) || (i - 2 ^ n).testBit k) := by
        intro k
        conv => lhs; rw [hi_eq]
        rw [Nat.testBit_or, Nat.testBit_two_pow]
      rw [hsp, Nat.testBit_or, Nat.testBit_two_pow, ih (by omega) _ hlo m, hbits (m / 3)]
      by_cases h3 : m % 3 = 0
      · by_cases hlt : m / 3 < n
        · have : ¬ 3 * n = m := by omega
          have h2 : ¬ n = m / 3 := by omega
          have h4 : m / 3 < n + 1 := by omega
          simp [h3, hlt, this, h2, h4]
        · by_cases heq : m / 3 = n
          · have : 3 * n = m := by omega
            have h4 : m / 3 < n + 1 := by omega
            simp [h3, this, heq]
          · have : ¬ 3 * n = m := by omega
            have h4 : ¬ m / 3 < n + 1 := by omega
            simp [h3, hlt, this, h4]
      · have : ¬ 3 * n = m := by omega
        simp [h3, this]
    · have hb' : i.testBit n = false := by simpa using hb
      have hi' : i < 2 ^ n := by
        apply Nat.lt_pow_two_of_testBit
        intro k hk
        rcases Nat.lt_or_eq_of_le hk with h | h
        · exact Nat.testBit_lt_two_pow (lt_of_lt_of_le hi (Nat.pow_le_pow_right (by omega) h))
        · rw [← h]; exact hb'
      rw [ih (by omega) i hi' m]
      by_cases hlt : m / 3 < n
      · have h4 : m / 3 < n + 1 := by omega
        simp [hlt, h4]
      · have hz : i.testBit (m / 3) = false :=
          Nat.testBit_lt_two_pow (lt_of_lt_of_le hi' (Nat.pow_le_pow_right (by omega) (by omega)))
        simp [hlt, hz]


theorem sp21 (i : Nat) (hi : i < 2 ^ 21) (m : Nat) :
    (mortonSpread i).testBit m = (decide (m % 3 = 0) && decide (m / 3 < 21) && i.testBit (m / 3)) :=
  spread_testBit 21 (le_refl _) i hi m

/-- bit `3b + r` of the key is bit `b` of the `r`-th coordinate -/
theorem key_bits (i j k : Nat) (hi : i < 2 ^ 21) (hj : j < 2 ^ 21) (hk : k < 2 ^ 21) (b : Nat)
    (hb : b < 21) :
    (mortonKey i j k).testBit (3 * b) = i.testBit b ∧
    (mortonKey i j k).testBit (3 * b + 1) = j.testBit b ∧
    (mortonKey i j k).testBit (3 * b + 2) = k.testBit b := by
  simp only [mortonKey, Nat.testBit_or, Nat.testBit_shiftLeft, sp21 i hi, sp21 j hj, sp21 k hk]
  have a0 : 3 * b % 3 = 0 := by omega
  have a1 : 3 * b / 3 = b := by omega
  have n1 : ¬ (3 * b + 1) % 3 = 0 := by omega
  have n2 : ¬ (3 * b + 2) % 3 = 0 := by omega
  refine ⟨?_, ?_, ?_⟩
  · by_cases h0 : b = 0
    · subst h0; simp
    · have m1 : ¬ (3 * b - 1) % 3 = 0 := by omega
      have m2 : ¬ (3 * b - 2) % 3 = 0 := by omega
      simp [a0, a1, hb, m1, m2]
  · by_cases h0 : b = 0
    · subst h0; simp
    · have m1 : ¬ (3 * b - 1) % 3 = 0 := by omega
      simp [a0, a1, hb, m1]
  · simp [a0, a1, hb, n1, n2]

/-- **key_inj**: `get_key` of `z_order.h` is injective on coordinates below 2^21 -/
theorem mortonKey_inj (i j k i' j' k' : Nat) (hi : i < 2 ^ 21) (hj : j < 2 ^ 21) (hk : k < 2 ^ 21)
    (hi' : i' < 2 ^ 21) (hj' : j' < 2 ^ 21) (hk' : k' < 2 ^ 21)
    (h : mortonKey i j k = mortonKey i' j' k') : i = i' ∧ j = j' ∧ k = k' := by
  have ext : ∀ a a' : Nat, a < 2 ^ 21 → a' < 2 ^ 21 → (∀ b, b < 21 → a.testBit b = a'.testBit b) →
      a = a' := by
    intro a a' ha ha' hbits
    apply Nat.eq_of_testBit_eq
    intro b
    by_cases hb : b < 21
    · exact hbits b hb
    · have hle : 2 ^ 21 ≤ 2 ^ b := Nat.pow_le_pow_right (by omega) (by omega)
      rw [Nat.testBit_lt_two_pow (lt_of_lt_of_le ha hle),
        Nat.testBit_lt_two_pow (lt_of_lt_of_le ha' hle)]
  refine ⟨ext i i' hi hi' ?_, ext j j' hj hj' ?_, ext k k' hk hk' ?_⟩
  · intro b hb
    rw [← (key_bits i j k hi hj hk b hb).1, ← (key_bits i' j' k' hi' hj' hk' b hb).1, h]
  · intro b hb
    rw [← (key_bits i j k hi hj hk b hb).2.1, ← (key_bits i' j' k' hi' hj' hk' b hb).2.1, h]
  · intro b hb
    rw [← (key_bits i j k hi hj hk b hb).2.2, ← (key_bits i' j' k' hi' hj' hk' b hb).2.2, h]

end PysphVerif.Nnps
