import PysphVerif.Lemmas.ControllerFull
/-!
C18, repaired protocol, all operations: a state that satisfies the invariants
always has an enabled thread (no deadlock).
-/
set_option linter.unusedVariables false
namespace PysphVerif.Controller

/-- what "thread `v` cannot take a step" says about its program counter -/
structure Stuck (s : State) (v : Tid) : Prop where
  noP : holdsP (s.th v).pc = false
  noQ : ownsQ (s.th v).pc = false
  noRes : ownsRes (s.th v).pc = false
  done : (s.th v).pc = IPc.idle → (s.th v).prog = []
  wantP : ((s.th v).pc = IPc.pAcqP ∨ (s.th v).pc = IPc.wAcqP ∨ (s.th v).pc = IPc.wReacqP ∨
        (s.th v).pc = IPc.cAcqP) → s.pOwner ≠ none
  wantQ : ((s.th v).pc = IPc.cAcqQ ∨ ∃ c id, (s.th v).pc = IPc.qAcqQ c id) → s.qOwner ≠ none
  wantRes : (∀ k, (s.th v).pc = IPc.rAcqRes k → s.resLock ≠ none)
  hasD : ownsD (s.th v).pc = true → ∃ c id, (s.th v).pc = IPc.qAcqQ c id
  wantD : ((s.th v).pc = IPc.gAcqD ∨ (∃ x, (s.th v).pc = IPc.sAcqD x) ∨
        ∃ c, (s.th v).pc = IPc.qAcqD c) → s.dlock ≠ none
  wantC : ∀ k, (s.th v).pc = IPc.rAcqC k → k ∈ s.cLocked
  hasC : ∀ k, holding (s.th v).pc = some k → (s.th v).pc = IPc.rAcqRes k
  fly : contInFlight (s.th v).pc = true → (s.th v).pc = IPc.cAcqQ

theorem stuck_of_none {s : State} {v : Tid} (h : stepIface Cfg.fixed s v = none) : Stuck s v := by
  unfold stepIface at h
  constructor <;>
    (cases hpc : (s.th v).pc <;>
      simp [hpc, holdsP, ownsQ, ownsD, ownsRes, holding, contInFlight, Cfg.fixed, wakeOneP,
        wakeQ] at h ⊢ <;>
      (try (split at h <;> simp_all)) <;> (try simp_all))

theorem stuck_zero {s : State} (hz : (s.th 0).pc = IPc.idle) (hp : (s.th 0).prog = []) :
    Stuck s 0 := by
  constructor <;> simp [hz, hp, holdsP, ownsQ, ownsD, ownsRes, holding, contInFlight]

/-- if no interface thread can move, the solver can -/
theorem stuck_solver_moves {n : Nat} {s : State} (h : Live n s) (hw : W s) (hp : PInv s)
    (hL : Locks s) (hS : Safe s) (hi : Inv s) (hst : ∀ v, Stuck s v) :
    stepSolver Cfg.fixed s ≠ none := by
  intro h0
  have hz := hw.zero
  have hpo : s.pOwner = none ∨ (s.pOwner = some 0 ∧ (s.spc = SPc.ntaP ∨ s.spc = SPc.relP)) := by
    cases hpl : s.pOwner with
    | none => exact Or.inl rfl
    | some v =>
      rcases hL.lp.p3 v hpl with ⟨rfl, hs⟩ | hh
      · exact Or.inr ⟨rfl, hs⟩
      · rw [(hst v).noP] at hh; cases hh
  have hro : s.resLock = none ∨ (s.resLock = some 0 ∧ sOwnsRes s.spc = true) := by
    cases hrl : s.resLock with
    | none => exact Or.inl rfl
    | some v =>
      rcases hL.lr.r3 v hrl with ⟨rfl, hs⟩ | hh
      · exact Or.inr ⟨rfl, hs⟩
      · rw [(hst v).noRes] at hh; cases hh
  have hqo : s.qOwner = none ∨ (s.qOwner = some 0 ∧ sOwnsQ s.spc = true) := by
    cases hql : s.qOwner with
    | none => exact Or.inl rfl
    | some v =>
      rcases hL.lq.q3 v hql with ⟨rfl, hs⟩ | hh
      · exact Or.inr ⟨rfl, hs⟩
      · rw [(hst v).noQ] at hh; cases hh
  -- the solver cannot move and has not crashed, so it sits in `qlock.wait()`
  have hsp : s.spc = SPc.blocked := by
    have hal := hS.alive
    unfold stepSolver at h0
    cases hspc : s.spc <;>
      simp [hspc, Cfg.fixed, sOwnsQ, sOwnsRes] at h0 hal hqo hpo hro ⊢ <;>
      (try split at h0) <;> simp_all
  have hqw := hL.lq.bw hsp
  have hq0 : s.qOwner = none := by
    rcases hqo with hq | ⟨_, hq⟩
    · exact hq
    · rw [hsp] at hq; cases hq
  have hp0 : s.pOwner = none := by
    rcases hpo with hq | ⟨_, hq⟩
    · exact hq
    · rw [hsp] at hq; rcases hq with hq | hq <;> cases hq
  have hr0 : s.resLock = none := by
    rcases hro with hq | ⟨_, hq⟩
    · exact hq
    · rw [hsp] at hq; cases hq
  have hd0 : s.dlock = none := by
    cases hdl : s.dlock with
    | none => rfl
    | some v =>
      obtain ⟨c, id, hpc⟩ := (hst v).hasD (hL.ld.d2 v hdl)
      exact absurd hq0 ((hst v).wantQ (Or.inr ⟨c, id, hpc⟩))
  have hqe : s.queue = [] := hL.lq.nq hsp (by intro u hu; rw [hq0] at hu; cases hu)
  have hnofl : ∀ u, contInFlight (s.th u).pc = false := by
    intro u
    cases hf : contInFlight (s.th u).pc with
    | false => rfl
    | true => exact absurd hq0 ((hst u).wantQ (Or.inl ((hst u).fly hf)))
  -- nobody waits for the result of a command: its lock would be free
  have hnoC : ∀ u k, (s.th u).pc ≠ IPc.rAcqC k := by
    intro u k hpc
    have hk := (hst u).wantC k hpc
    have := hL.co.cown k hk
      (by intro v c hv; exact absurd hq0 ((hst v).wantQ (Or.inr ⟨c, k, hv⟩)))
      (by intro v hv; exact absurd hr0 ((hst v).wantRes k ((hst v).hasC k hv)))
    obtain ⟨hkq, hk2⟩ := this
    rw [hi.fifo, hqe] at hkq
    simp only [inflight, hsp, inflightPc_blocked, List.append_nil] at hkq
    rcases hk2 with hk2 | hk2
    · exact hk2 hkq
    · rw [hsp] at hk2; cases hk2
  -- the sleeping solver has honoured a pause request that is still active
  have hne := h.j2 (Or.inr hqw) hnofl
  obtain ⟨u, hu⟩ := List.exists_mem_of_ne_nil _ hne
  have hup := hp.sub u hu
  have hcs := h.cons u
  simp only [hup, decide_true] at hcs
  obtain ⟨s1, s2, s3, s4, s5, s6, s7, s8, s9, s10, s11, s12⟩ := hst u
  have hk := hw.kept u
  have hwb := h.wb u
  have hnc := hnoC u
  cases hpc : (s.th u).pc <;>
    simp_all [consF, holdsP, ownsQ, ownsD, ownsRes, WF, contInFlight, holding]

theorem full_not_stuck {n : Nat} {s : State} (h : Live n s) (hw : W s) (hp : PInv s)
    (hL : Locks s) (hS : Safe s) (hi : Inv s) :
    ∃ t, t ≤ n ∧ enabled Cfg.fixed s t = true := by
  apply Classical.byContradiction
  intro hc
  have hno : ∀ t, t ≤ n → step Cfg.fixed s t = none := by
    intro t ht
    cases hst : step Cfg.fixed s t with
    | none => rfl
    | some x => exact absurd ⟨t, ht, by simp [enabled, hst]⟩ hc
  have hz := hw.zero
  have hst : ∀ v, Stuck s v := by
    intro v
    by_cases hv : v = 0
    · subst hv; exact stuck_zero hz h.zprog
    · apply stuck_of_none
      by_cases hvn : v ≤ n
      · have := hno v hvn; simpa [step, hv] using this
      · have := h.inert v (Nat.lt_of_not_le hvn); simp [stepIface, this.1, this.2]
  have h0 : stepSolver Cfg.fixed s = none := by simpa [step] using hno 0 (Nat.zero_le _)
  exact stuck_solver_moves h hw hp hL hS hi hst h0

/-- if no interface thread can move while the solver is between its two critical
sections with nothing queued and nobody pausing, every interface thread has finished -/
theorem stuck_idle_all_done {n : Nat} {s : State} (h : Live n s) (hw : W s)
    (hL : Locks s) (hi : Inv s) (hst : ∀ v, Stuck s v)
    (hsp : s.spc = SPc.acqQ2) (hpe : s.pause = []) (hqe : s.queue = []) (u : Tid) :
    (s.th u).pc = IPc.idle ∧ (s.th u).prog = [] := by
  have hp0 : s.pOwner = none := by
    cases hpl : s.pOwner with
    | none => rfl
    | some v =>
      rcases hL.lp.p3 v hpl with ⟨rfl, hs⟩ | hh
      · rw [hsp] at hs; rcases hs with hs | hs <;> cases hs
      · rw [(hst v).noP] at hh; cases hh
  have hr0 : s.resLock = none := by
    cases hrl : s.resLock with
    | none => rfl
    | some v =>
      rcases hL.lr.r3 v hrl with ⟨rfl, hs⟩ | hh
      · rw [hsp] at hs; cases hs
      · rw [(hst v).noRes] at hh; cases hh
  have hq0 : s.qOwner = none := by
    cases hql : s.qOwner with
    | none => rfl
    | some v =>
      rcases hL.lq.q3 v hql with ⟨rfl, hs⟩ | hh
      · rw [hsp] at hs; cases hs
      · rw [(hst v).noQ] at hh; cases hh
  have hd0 : s.dlock = none := by
    cases hdl : s.dlock with
    | none => rfl
    | some v =>
      obtain ⟨c, id, hpc⟩ := (hst v).hasD (hL.ld.d2 v hdl)
      exact absurd hq0 ((hst v).wantQ (Or.inr ⟨c, id, hpc⟩))
  have hnoC : ∀ k, (s.th u).pc ≠ IPc.rAcqC k := by
    intro k hpc
    have hk := (hst u).wantC k hpc
    have := hL.co.cown k hk
      (by intro v c hv; exact absurd hq0 ((hst v).wantQ (Or.inr ⟨c, k, hv⟩)))
      (by intro v hv; exact absurd hr0 ((hst v).wantRes k ((hst v).hasC k hv)))
    obtain ⟨hkq, hk2⟩ := this
    rw [hi.fifo, hqe] at hkq
    simp only [inflight, hsp, inflightPc_acqQ2, List.append_nil] at hkq
    rcases hk2 with hk2 | hk2
    · exact hk2 hkq
    · rw [hsp] at hk2; cases hk2
  have hnoW : (s.th u).pc ≠ IPc.wBlocked := by
    intro hpc
    have := (hw.kept u (h.wb u hpc)).1
    rw [hpe] at this; cases this
  obtain ⟨s1, s2, s3, s4, s5, s6, s7, s8, s9, s10, s11, s12⟩ := hst u
  have hidle : (s.th u).pc = IPc.idle := by
    cases hpc : (s.th u).pc <;>
      simp_all [holdsP, ownsQ, ownsD, ownsRes, contInFlight, holding]
  exact ⟨hidle, s4 hidle⟩

end PysphVerif.Controller
