import Mathlib.Algebra.Order.Field.Basic
import Mathlib.Tactic.Ring
import Mathlib.Tactic.Linarith
import PysphVerif.Model.Domain
set_option linter.unusedSectionVars false
/-!
Helper lemmas for C07 (periodic / mirror ghosts).

Part 1 is pure list combinatorics and holds for any particle type with
decidable equality: one axis block of the ghost creation turns the rows present
so far (`base ++ g`) into `(base ++ g).flatMap variants`, up to order.
Part 2 is the arithmetic of `wrap1`, the periodic shifts and the reflections
over a linearly ordered field.
-/
namespace PysphVerif.Domain

/-! ## Part 1: the image passes as `flatMap` -/
section Comb
variable {α : Type} [DecidableEq α]

/-- the three directions of one axis -/
inductive Dir where
  | none | low | high
  deriving DecidableEq, Repr

def dirs : List Dir := [Dir.none, Dir.low, Dir.high]

/-- is direction `d` of this axis block taken for particle `q`? -/
def AxisOps.ok (ops : AxisOps α) : Dir → Particle α → Bool
  | .none, _ => true
  | .low, q => ops.selLow q
  | .high, q => ops.selHigh q

/-- the image of `q` in direction `d` -/
def AxisOps.img (ops : AxisOps α) : Dir → Particle α → Particle α
  | .none, q => q
  | .low, q => ops.imgLow q
  | .high, q => ops.imgHigh q

/-- a particle together with its (0, 1 or 2) images along one axis -/
def AxisOps.variants (ops : AxisOps α) (q : Particle α) : List (Particle α) :=
  q :: ((if ops.selLow q then [ops.imgLow q] else []) ++
        (if ops.selHigh q then [ops.imgHigh q] else []))

/-- an axis whose flag is off -/
def offOps : AxisOps α :=
  { selLow := fun _ => false, selHigh := fun _ => false, imgLow := id, imgHigh := id }

/-- the block actually executed for axis `a` -/
def eff (on : Axis → Bool) (ops : Axis → AxisOps α) (a : Axis) : AxisOps α :=
  if on a then ops a else offOps

/-- a particle with all its face, edge and corner images: x, then y (also of
the x images), then z (also of all earlier images).  The head is the particle
itself. -/
def allVariants (on : Axis → Bool) (ops : Axis → AxisOps α) (q : Particle α) :
    List (Particle α) :=
  (((eff on ops .x).variants q).flatMap (eff on ops .y).variants).flatMap
    (eff on ops .z).variants

/-- the images proper -/
def imagesOf (on : Axis → Bool) (ops : Axis → AxisOps α) (q : Particle α) :
    List (Particle α) :=
  (allVariants on ops q).tail

theorem variants_eq_filter_map (ops : AxisOps α) (q : Particle α) :
    ops.variants q = (dirs.filter (fun d => ops.ok d q)).map (fun d => ops.img d q) := by
  unfold AxisOps.variants dirs
  cases h1 : ops.selLow q <;> cases h2 : ops.selHigh q <;>
    simp [List.filter, AxisOps.ok, AxisOps.img, h1, h2]

theorem offOps_variants (q : Particle α) : (offOps : AxisOps α).variants q = [q] := by
  simp [AxisOps.variants, offOps]

theorem flatMap_offOps (l : List (Particle α)) :
    l.flatMap (offOps : AxisOps α).variants = l := by
  induction l with
  | nil => rfl
  | cons a l ih => simp [List.flatMap_cons, offOps_variants, ih]

theorem count_flatMap_variants (ops : AxisOps α) (l : List (Particle α)) (a : Particle α) :
    List.count a (l.flatMap ops.variants) =
      List.count a l + List.count a ((l.filter ops.selLow).map ops.imgLow)
        + List.count a ((l.filter ops.selHigh).map ops.imgHigh) := by
  induction l with
  | nil => rfl
  | cons b l ih =>
    simp only [List.flatMap_cons, List.count_append, ih, List.filter_cons, AxisOps.variants,
      List.count_cons]
    cases h1 : ops.selLow b <;> cases h2 : ops.selHigh b <;>
      simp [List.count_cons] <;> omega

theorem filter_map_pre (sel : Particle α → Bool) (pre : Particle α → Particle α)
    (hsel : ∀ p, sel (pre p) = sel p) (l : List (Particle α)) :
    (l.filter sel).map pre = (l.map pre).filter sel := by
  induction l with
  | nil => rfl
  | cons b l ih =>
    simp only [List.filter_cons, List.map_cons, hsel]
    cases sel b <;> simp [ih]

/-- `pre` does not move a particle in or out of the layers of this block -/
def SelInvariant (ops : AxisOps α) (pre : Particle α → Particle α) : Prop :=
  (∀ p, ops.selLow (pre p) = ops.selLow p) ∧ (∀ p, ops.selHigh (pre p) = ops.selHigh p)

/-- one y/z block: rows present afterwards = rows present before, each with its
images along this axis (as multisets) -/
theorem passYZ_perm (ops : AxisOps α) (pre : Particle α → Particle α)
    (hpre : SelInvariant ops pre) (base g : List (Particle α)) :
    (base.map pre ++ passYZ ops pre base g).Perm ((base.map pre ++ g).flatMap ops.variants) := by
  rw [List.perm_iff_count]
  intro a
  simp only [passYZ, filter_map_pre _ pre hpre.1, filter_map_pre _ pre hpre.2,
    count_flatMap_variants, List.count_append, List.filter_append, List.map_append]
  omega

/-- the x block -/
theorem passX_perm (ops : AxisOps α) (pre : Particle α → Particle α)
    (hpre : SelInvariant ops pre) (base g : List (Particle α)) (hg : g = []) :
    (base.map pre ++ passX ops pre base g).Perm ((base.map pre ++ g).flatMap ops.variants) := by
  subst hg
  rw [List.perm_iff_count]
  intro a
  simp only [passX, filter_map_pre _ pre hpre.1, filter_map_pre _ pre hpre.2,
    count_flatMap_variants, List.count_append, List.append_nil, List.nil_append]
  omega

theorem selInvariant_off (pre : Particle α → Particle α) :
    SelInvariant (offOps : AxisOps α) pre := ⟨fun _ => rfl, fun _ => rfl⟩

theorem allVariants_head (on : Axis → Bool) (ops : Axis → AxisOps α) (q : Particle α) :
    allVariants on ops q = q :: imagesOf on ops q := by
  simp [imagesOf, allVariants, AxisOps.variants, List.flatMap_cons]

theorem count_flatMap_cons_tail (f : Particle α → List (Particle α)) (l : List (Particle α))
    (a : Particle α) :
    List.count a (l.flatMap (fun q => q :: f q)) = List.count a l + List.count a (l.flatMap f) := by
  induction l with
  | nil => rfl
  | cons b l ih =>
    simp only [List.flatMap_cons, List.count_append, List.count_cons, ih]
    omega

/-- **All three blocks.**  The image buffer after the x, y and z blocks holds,
for every source row, exactly its face, edge and corner images — as a
multiset: nothing missing, nothing twice. -/
theorem ghostsFor_perm (on : Axis → Bool) (ops : Axis → AxisOps α)
    (pre : Particle α → Particle α) (hpre : ∀ a, SelInvariant (ops a) pre)
    (base : List (Particle α)) :
    (ghostsFor on ops pre base).Perm ((base.map pre).flatMap (imagesOf on ops)) := by
  have heff : ∀ a, SelInvariant (eff on ops a) pre := by
    intro a; unfold eff; split
    · exact hpre a
    · exact selInvariant_off pre
  -- x
  have hx : (base.map pre ++ (if on .x then passX (ops .x) pre base [] else [])).Perm
      ((base.map pre).flatMap (eff on ops .x).variants) := by
    unfold eff
    cases on .x
    · simp [flatMap_offOps]
    · simpa using passX_perm (ops .x) pre (hpre .x) base [] rfl
  -- y
  have hy : (base.map pre ++ (if on .y then passYZ (ops .y) pre base
        (if on .x then passX (ops .x) pre base [] else []) else
        (if on .x then passX (ops .x) pre base [] else []))).Perm
      (((base.map pre).flatMap (eff on ops .x).variants).flatMap (eff on ops .y).variants) := by
    have h2 : ((base.map pre ++ (if on .x then passX (ops .x) pre base [] else [])).flatMap
        (eff on ops .y).variants).Perm
        (((base.map pre).flatMap (eff on ops .x).variants).flatMap (eff on ops .y).variants) :=
      hx.flatMap_right _
    refine List.Perm.trans ?_ h2
    unfold eff
    cases on .y
    · simp [flatMap_offOps]
    · simpa using passYZ_perm (ops .y) pre (hpre .y) base _
  -- z
  have hz : (base.map pre ++ ghostsFor on ops pre base).Perm
      ((((base.map pre).flatMap (eff on ops .x).variants).flatMap
        (eff on ops .y).variants).flatMap (eff on ops .z).variants) := by
    have h3 := hy.flatMap_right (eff on ops .z).variants
    refine List.Perm.trans ?_ h3
    unfold ghostsFor eff
    cases on .z
    · simp [flatMap_offOps]
    · simpa using passYZ_perm (ops .z) pre (hpre .z) base _
  -- regroup per source row and cancel the rows themselves
  have hall : ((((base.map pre).flatMap (eff on ops .x).variants).flatMap
        (eff on ops .y).variants).flatMap (eff on ops .z).variants)
      = (base.map pre).flatMap (allVariants on ops) := by
    have hf : (allVariants on ops) = fun q =>
        ((eff on ops .x).variants q).flatMap
          (fun x => ((eff on ops .y).variants x).flatMap (eff on ops .z).variants) := by
      funext q; simp only [allVariants, List.flatMap_assoc]
    rw [hf]
    simp only [List.flatMap_assoc]
  rw [hall] at hz
  rw [List.perm_iff_count] at hz ⊢
  intro a
  have := hz a
  have hfun : (allVariants on ops) = fun q => q :: imagesOf on ops q := by
    funext q; exact allVariants_head on ops q
  rw [hfun, count_flatMap_cons_tail, List.count_append] at this
  omega

/-- number of images of one particle: at most 26 -/
theorem imagesOf_length_le (on : Axis → Bool) (ops : Axis → AxisOps α) (q : Particle α) :
    (imagesOf on ops q).length ≤ 26 := by
  have hv : ∀ (o : AxisOps α) (l : List (Particle α)),
      (l.flatMap o.variants).length ≤ 3 * l.length := by
    intro o l
    induction l with
    | nil => simp
    | cons b l ih =>
      simp only [List.flatMap_cons, List.length_append, List.length_cons, AxisOps.variants]
      have : (if o.selLow b then [o.imgLow b] else []).length +
          (if o.selHigh b then [o.imgHigh b] else []).length ≤ 2 := by
        cases o.selLow b <;> cases o.selHigh b <;> simp
      omega
  have h1 : ((eff on ops .x).variants q).length ≤ 3 := by
    have := hv (eff on ops .x) [q]; simpa using this
  have h2 := hv (eff on ops .y) ((eff on ops .x).variants q)
  have h3 := hv (eff on ops .z) (((eff on ops .x).variants q).flatMap (eff on ops .y).variants)
  have : (allVariants on ops q).length ≤ 27 := by unfold allVariants; omega
  rw [allVariants_head] at this
  simp only [List.length_cons] at this
  omega

end Comb

/-! ### explicit form of the images of one particle -/
section Explicit
variable {α : Type} [DecidableEq α]

/-- If the images along an earlier axis never change layer membership along a
later one, the variants of `q` are the direction triples whose three
membership tests hold **for `q` itself**, each mapped to the composed image. -/
theorem variants3_explicit (ox oy oz : AxisOps α)
    (hyx : ∀ d d' q, oy.ok d' (ox.img d q) = oy.ok d' q)
    (hzx : ∀ d d' q, oz.ok d' (ox.img d q) = oz.ok d' q)
    (hzy : ∀ d d' q, oz.ok d' (oy.img d q) = oz.ok d' q) (q : Particle α) :
    ((ox.variants q).flatMap oy.variants).flatMap oz.variants =
      (dirs.filter (fun d => ox.ok d q)).flatMap fun dx =>
        (dirs.filter (fun d => oy.ok d q)).flatMap fun dy =>
          (dirs.filter (fun d => oz.ok d q)).map fun dz => oz.img dz (oy.img dy (ox.img dx q)) := by
  have h1 : ∀ q', oz.variants q' = (dirs.filter (fun d => oz.ok d q')).map (fun d => oz.img d q') :=
    variants_eq_filter_map oz
  have h2 : ∀ q', oy.variants q' = (dirs.filter (fun d => oy.ok d q')).map (fun d => oy.img d q') :=
    variants_eq_filter_map oy
  rw [variants_eq_filter_map ox q]
  simp only [List.flatMap_map, List.flatMap_assoc, h1, h2, hyx, hzx, hzy, List.map_flatMap]

/-- membership form -/
theorem mem_variants3 (ox oy oz : AxisOps α)
    (hyx : ∀ d d' q, oy.ok d' (ox.img d q) = oy.ok d' q)
    (hzx : ∀ d d' q, oz.ok d' (ox.img d q) = oz.ok d' q)
    (hzy : ∀ d d' q, oz.ok d' (oy.img d q) = oz.ok d' q) (q g : Particle α) :
    g ∈ ((ox.variants q).flatMap oy.variants).flatMap oz.variants ↔
      ∃ dx dy dz, ox.ok dx q = true ∧ oy.ok dy q = true ∧ oz.ok dz q = true ∧
        g = oz.img dz (oy.img dy (ox.img dx q)) := by
  rw [variants3_explicit ox oy oz hyx hzx hzy]
  simp only [List.mem_flatMap, List.mem_filter, List.mem_map]
  constructor
  · rintro ⟨dx, ⟨_, hx⟩, dy, ⟨_, hy⟩, dz, ⟨_, hz⟩, rfl⟩
    exact ⟨dx, dy, dz, hx, hy, hz, rfl⟩
  · rintro ⟨dx, dy, dz, hx, hy, hz, rfl⟩
    have hd : ∀ d : Dir, d ∈ dirs := by intro d; cases d <;> simp [dirs]
    exact ⟨dx, ⟨hd dx, hx⟩, dy, ⟨hd dy, hy⟩, dz, ⟨hd dz, hz⟩, rfl⟩

/-- two particles that differ at most in position and normal velocities' sign
bookkeeping is handled separately; this one: everything but x, y, z equal -/
def SameButPos (p q : Particle α) : Prop :=
  p.u = q.u ∧ p.v = q.v ∧ p.w = q.w ∧ p.h = q.h ∧ p.tag = q.tag ∧ p.extra = q.extra

theorem SameButPos.refl (p : Particle α) : SameButPos p p := ⟨rfl, rfl, rfl, rfl, rfl, rfl⟩

theorem SameButPos.trans {p q r : Particle α} (h1 : SameButPos p q) (h2 : SameButPos q r) :
    SameButPos p r :=
  ⟨h1.1.trans h2.1, h1.2.1.trans h2.2.1, h1.2.2.1.trans h2.2.2.1, h1.2.2.2.1.trans h2.2.2.2.1,
   h1.2.2.2.2.1.trans h2.2.2.2.2.1, h1.2.2.2.2.2.trans h2.2.2.2.2.2⟩

/-- a relation kept by every image map is kept by every variant -/
theorem allVariants_rel (on : Axis → Bool) (ops : Axis → AxisOps α)
    (Rel : Particle α → Particle α → Prop) (hrefl : ∀ p, Rel p p)
    (htrans : ∀ p q r, Rel p q → Rel q r → Rel p r)
    (himg : ∀ a p, Rel p ((ops a).imgLow p) ∧ Rel p ((ops a).imgHigh p))
    (q g : Particle α) (hg : g ∈ allVariants on ops q) : Rel q g := by
  have hstep : ∀ a p g', g' ∈ (eff on ops a).variants p → Rel p g' := by
    intro a p g' hg'
    unfold eff at hg'
    split at hg'
    · simp only [AxisOps.variants, List.mem_cons, List.mem_append] at hg'
      rcases hg' with rfl | h | h
      · exact hrefl _
      · split at h
        · simp at h; subst h; exact (himg a p).1
        · simp at h
      · split at h
        · simp at h; subst h; exact (himg a p).2
        · simp at h
    · rw [offOps_variants] at hg'
      simp at hg'; subst hg'; exact hrefl _
  simp only [allVariants, List.mem_flatMap] at hg
  obtain ⟨g2, ⟨g1, h1, h2⟩, h3⟩ := hg
  exact htrans _ _ _ (htrans _ _ _ (hstep .x q g1 h1) (hstep .y g1 g2 h2)) (hstep .z g2 g h3)

end Explicit

/-! ## Part 2: arithmetic -/
section Arith
variable {α : Type} [Field α] [LinearOrder α] [IsStrictOrderedRing α]

/-! ### field access after `setPos` / `setVel` -/

@[simp] theorem pos_setPos_same (p : Particle α) (a : Axis) (c : α) : (p.setPos a c).pos a = c := by
  cases a <;> rfl
theorem pos_setPos_ne (p : Particle α) {a b : Axis} (h : a ≠ b) (c : α) :
    (p.setPos a c).pos b = p.pos b := by
  cases a <;> cases b <;> first | rfl | exact absurd rfl h
theorem sameButPos_setPos (p : Particle α) (a : Axis) (c : α) : SameButPos p (p.setPos a c) := by
  cases a <;> exact ⟨rfl, rfl, rfl, rfl, rfl, rfl⟩
theorem pos_setVel (p : Particle α) (a b : Axis) (c : α) : (p.setVel a c).pos b = p.pos b := by
  cases a <;> cases b <;> rfl
@[simp] theorem vel_setVel_same (p : Particle α) (a : Axis) (c : α) : (p.setVel a c).vel a = c := by
  cases a <;> rfl
theorem vel_setVel_ne (p : Particle α) {a b : Axis} (h : a ≠ b) (c : α) :
    (p.setVel a c).vel b = p.vel b := by
  cases a <;> cases b <;> first | rfl | exact absurd rfl h
theorem vel_setPos (p : Particle α) (a b : Axis) (c : α) : (p.setPos a c).vel b = p.vel b := by
  cases a <;> cases b <;> rfl
theorem pos_restrict (cs : CopySpec α) (p : Particle α) (a : Axis) :
    (restrict cs p).pos a = p.pos a := by cases a <;> rfl

/-! ### `wrap1` -/

theorem wrap1_inside (lo hi v : α) (h1 : lo - (hi - lo) ≤ v) (h2 : v ≤ hi + (hi - lo)) :
    lo ≤ wrap1 lo hi (hi - lo) v ∧ wrap1 lo hi (hi - lo) v ≤ hi := by
  unfold wrap1
  by_cases hv : v < lo
  · simp only [hv, if_true]
    have : ¬ hi < v + (hi - lo) := by linarith
    simp only [this, if_false]
    constructor <;> linarith
  · simp only [hv, if_false]
    by_cases hv2 : hi < v
    · simp only [hv2, if_true]; constructor <;> linarith
    · simp only [hv2, if_false]; constructor <;> linarith

theorem wrap1_fix (lo hi L v : α) (h1 : lo ≤ v) (h2 : v ≤ hi) : wrap1 lo hi L v = v := by
  unfold wrap1
  have a : ¬ v < lo := not_lt.mpr h1
  have b : ¬ hi < v := not_lt.mpr h2
  simp [a, b]

theorem wrap1_cases (lo hi L v : α) :
    wrap1 lo hi L v = v ∨ wrap1 lo hi L v = v + L ∨ wrap1 lo hi L v = v - L := by
  unfold wrap1
  by_cases hv : v < lo
  · simp only [hv, if_true]
    by_cases h2 : hi < v + L
    · left; simp [h2]
    · right; left; simp [h2]
  · simp only [hv, if_false]
    by_cases h2 : hi < v
    · right; right; simp [h2]
    · left; simp [h2]

/-- the coordinate `wrapParticle` leaves on axis `a` -/
def wrapCoord (c : Config α) (a : Axis) (v : α) : α :=
  if c.periodic a then wrap1 (c.lo a) (c.hi a) (c.translate a) v else v

theorem pos_wrapAxis (c : Config α) (a b : Axis) (p : Particle α) :
    (wrapAxis c a p).pos b = if a = b then wrapCoord c a (p.pos a) else p.pos b := by
  unfold wrapAxis wrapCoord
  by_cases hab : a = b
  · subst hab
    cases c.periodic a <;> simp
  · cases c.periodic a <;> simp [hab, pos_setPos_ne]

theorem pos_wrapParticle (c : Config α) (a : Axis) (p : Particle α) :
    (wrapParticle c p).pos a = wrapCoord c a (p.pos a) := by
  unfold wrapParticle
  cases a <;> simp [pos_wrapAxis]

theorem sameButPos_wrapAxis (c : Config α) (a : Axis) (p : Particle α) :
    SameButPos p (wrapAxis c a p) := by
  unfold wrapAxis
  cases c.periodic a
  · exact SameButPos.refl p
  · exact sameButPos_setPos p a _

theorem sameButPos_wrapParticle (c : Config α) (p : Particle α) :
    SameButPos p (wrapParticle c p) :=
  ((sameButPos_wrapAxis c .x p).trans (sameButPos_wrapAxis c .y _)).trans
    (sameButPos_wrapAxis c .z _)

/-! ### layer membership is a matter of one coordinate -/

theorem inLow_congr (c : Config α) (δ : α) (a : Axis) (p q : Particle α) (h : p.pos a = q.pos a) :
    inLow c δ a p = inLow c δ a q := by unfold inLow; rw [h]
theorem inHigh_congr (c : Config α) (δ : α) (a : Axis) (p q : Particle α) (h : p.pos a = q.pos a) :
    inHigh c δ a p = inHigh c δ a q := by unfold inHigh; rw [h]

theorem selInvariant_periodic (c : Config α) (δ : α) (cs : CopySpec α) (a : Axis) :
    SelInvariant (periodicOps c δ a) (restrict cs) :=
  ⟨fun p => inLow_congr c δ a _ _ (pos_restrict cs p a),
   fun p => inHigh_congr c δ a _ _ (pos_restrict cs p a)⟩

theorem selInvariant_id (ops : AxisOps α) : SelInvariant ops id := ⟨fun _ => rfl, fun _ => rfl⟩

/-! ### the image maps -/

theorem pos_shift_same (a : Axis) (d : α) (p : Particle α) : (shift a d p).pos a = p.pos a + d := by
  simp [shift]
theorem pos_shift_ne {a b : Axis} (h : a ≠ b) (d : α) (p : Particle α) :
    (shift a d p).pos b = p.pos b := by simp [shift, pos_setPos_ne _ h]
theorem sameButPos_shift (a : Axis) (d : α) (p : Particle α) : SameButPos p (shift a d p) :=
  sameButPos_setPos p a _

/-- reflection in the low face: position `2·lo − x`, normal velocity reversed -/
theorem mirrorLow_spec (c : Config α) (a : Axis) (p : Particle α) :
    (mirrorLow c a p).pos a = 2 * c.lo a - p.pos a ∧ (mirrorLow c a p).vel a = - p.vel a := by
  unfold mirrorLow
  rw [pos_setVel, pos_setPos_same, vel_setVel_same]
  constructor <;> ring
/-- reflection in the high face: position `2·hi − x`, normal velocity reversed -/
theorem mirrorHigh_spec (c : Config α) (a : Axis) (p : Particle α) :
    (mirrorHigh c a p).pos a = 2 * c.hi a - p.pos a ∧ (mirrorHigh c a p).vel a = - p.vel a := by
  unfold mirrorHigh
  rw [pos_setVel, pos_setPos_same, vel_setVel_same]
  constructor <;> ring

/-- …and nothing else changes -/
theorem mirror_others (c : Config α) (a : Axis) (p : Particle α) :
    (∀ b, b ≠ a → (mirrorLow c a p).pos b = p.pos b ∧ (mirrorLow c a p).vel b = p.vel b ∧
                  (mirrorHigh c a p).pos b = p.pos b ∧ (mirrorHigh c a p).vel b = p.vel b) ∧
    (mirrorLow c a p).h = p.h ∧ (mirrorLow c a p).extra = p.extra ∧ (mirrorLow c a p).tag = p.tag ∧
    (mirrorHigh c a p).h = p.h ∧ (mirrorHigh c a p).extra = p.extra ∧ (mirrorHigh c a p).tag = p.tag := by
  refine ⟨?_, ?_⟩
  · intro b hb
    have hab : a ≠ b := fun h => hb h.symm
    unfold mirrorLow mirrorHigh
    refine ⟨?_, ?_, ?_, ?_⟩
    · rw [pos_setVel, pos_setPos_ne _ hab]
    · rw [vel_setVel_ne _ hab, vel_setPos]
    · rw [pos_setVel, pos_setPos_ne _ hab]
    · rw [vel_setVel_ne _ hab, vel_setPos]
  · cases a <;> exact ⟨rfl, rfl, rfl, rfl, rfl, rfl⟩

/-! ### ghosts and tags -/

theorem isGhost_setTag (p : Particle α) : isGhost (setTag ghostTag p) = true := by
  simp [isGhost, setTag]

theorem removeGhosts_map_setTag (l : List (Particle α)) :
    removeGhosts (l.map (setTag ghostTag)) = [] := by
  unfold removeGhosts
  rw [List.filter_eq_nil_iff]
  intro p hp
  obtain ⟨q, _, rfl⟩ := List.mem_map.mp hp
  simp [isGhost_setTag]

theorem removeGhosts_append (l1 l2 : List (Particle α)) :
    removeGhosts (l1 ++ l2) = removeGhosts l1 ++ removeGhosts l2 := by
  simp [removeGhosts]

theorem removeGhosts_idem (l : List (Particle α)) : removeGhosts (removeGhosts l) = removeGhosts l := by
  simp [removeGhosts, List.filter_filter]

theorem removeGhosts_map_of_tag (m : Particle α → Particle α) (hm : ∀ p, (m p).tag = p.tag)
    (l : List (Particle α)) : removeGhosts (l.map m) = (removeGhosts l).map m := by
  unfold removeGhosts
  induction l with
  | nil => rfl
  | cons a l ih =>
    have : isGhost (m a) = isGhost a := by simp [isGhost, hm]
    simp only [List.map_cons, List.filter_cons, this]
    cases isGhost a <;> simp [ih]

theorem tag_wrapParticle (c : Config α) (p : Particle α) : (wrapParticle c p).tag = p.tag :=
  ((sameButPos_wrapParticle c p).2.2.2.2.1).symm

end Arith

end PysphVerif.Domain
