import PysphVerif.Model.Codegen
/-!
C02 — `sort_precomputed` (model: `Model/Codegen.lean`, section 2) is correct:

* `sortPrecomputed_perm`        the output is a permutation of the keys,
* `sortPrecomputed_pairwise`    no symbol precedes a symbol its code mentions,
* `sortPrecomputed_deps_before` positional form of the same,
* `sortPrecomputed_terminates`  on a dependency-closed acyclic key set the
                                 `while` loop ends within `len(keys)` rounds,
* `acyclic_of_acyclicB`         the decidable check implies acyclicity.

No assumption is made on the comparison `le` used by `sorted`.  Core Lean only.
-/
namespace PysphVerif.Codegen

variable {ν : Type} [DecidableEq ν]

/-! ## generic list facts -/

/-- a duplicate-free list contained in another one is not longer -/
theorem length_le_of_nodup_subset {α : Type} [DecidableEq α] :
    ∀ (l1 l2 : List α), l1.Nodup → (∀ x ∈ l1, x ∈ l2) → l1.length ≤ l2.length
  | [], _, _, _ => Nat.zero_le _
  | x :: l1, l2, hn, hs => by
    have hx : x ∈ l2 := hs x List.mem_cons_self
    rw [List.nodup_cons] at hn
    have h := length_le_of_nodup_subset l1 (l2.erase x) hn.2 (fun y hy => by
      have hne : y ≠ x := fun h => hn.1 (h ▸ hy)
      exact (List.mem_erase_of_ne hne).mpr (hs y (List.mem_cons_of_mem _ hy)))
    rw [List.length_erase_of_mem hx] at h
    have hpos : 0 < l2.length := List.length_pos_of_mem hx
    simp only [List.length_cons]
    omega

/-- a non-empty list has an element of minimal rank -/
theorem exists_min_rank {α : Type} (r : α → Nat) :
    ∀ (l : List α), l ≠ [] → ∃ n ∈ l, ∀ m ∈ l, r n ≤ r m
  | [], h => absurd rfl h
  | [x], _ => ⟨x, List.mem_cons_self, fun m hm => by
      rcases List.mem_cons.mp hm with rfl | hm
      · exact Nat.le_refl _
      · cases hm⟩
  | x :: y :: l, _ => by
    obtain ⟨n, hn, hmin⟩ := exists_min_rank r (y :: l) (List.cons_ne_nil _ _)
    by_cases hxn : r x ≤ r n
    · refine ⟨x, List.mem_cons_self, fun m hm => ?_⟩
      rcases List.mem_cons.mp hm with rfl | hm
      · exact Nat.le_refl _
      · exact Nat.le_trans hxn (hmin m hm)
    · refine ⟨n, List.mem_cons_of_mem _ hn, fun m hm => ?_⟩
      rcases List.mem_cons.mp hm with rfl | hm
      · omega
      · exact hmin m hm

/-! ## `maxList` -/

theorem le_maxList : ∀ (l : List Nat) (x : Nat), x ∈ l → x ≤ maxList l
  | [], _, h => by cases h
  | y :: ys, x, h => by
    simp only [maxList]
    rcases List.mem_cons.mp h with rfl | h
    · exact Nat.le_max_left _ _
    · exact Nat.le_trans (le_maxList ys x h) (Nat.le_max_right _ _)

theorem maxList_mem : ∀ (l : List Nat), l ≠ [] → maxList l ∈ l
  | [], h => absurd rfl h
  | [x], _ => by simp [maxList]
  | x :: y :: l, _ => by
    have ih := maxList_mem (y :: l) (List.cons_ne_nil _ _)
    show max x (maxList (y :: l)) ∈ x :: y :: l
    rw [Nat.max_def]
    split
    · exact List.mem_cons_of_mem _ ih
    · exact List.mem_cons_self

/-! ## table and weights -/

theorem Table.has_iff (t : Table ν) (x : ν) : t.has x = true ↔ x ∈ t.map (·.1) := by
  simp only [Table.has, List.any_eq_true, List.mem_map, beq_iff_eq]

theorem mem_depends {t : Table ν} {x d : ν} :
    d ∈ depends t x ↔ d ∈ t.syms x ∧ t.has d = true ∧ d ≠ x := by
  simp only [depends, List.mem_filter, Bool.and_eq_true, bne_iff_ne, ne_eq]

theorem depsClosed_iff (t : Table ν) (keys : List ν) :
    depsClosed t keys = true ↔ ∀ k ∈ keys, ∀ d ∈ depends t k, d ∈ keys := by
  simp only [depsClosed, List.all_eq_true, List.contains_eq_mem, decide_eq_true_eq]

theorem weightOf_some {a : List (ν × Nat)} {x : ν} {w : Nat} (h : weightOf a x = some w) :
    (x, w) ∈ a := by
  unfold weightOf at h
  rw [Option.map_eq_some_iff] at h
  obtain ⟨e, he, rfl⟩ := h
  have h1 := List.find?_some he
  have h2 := List.mem_of_find?_eq_some he
  simp only [beq_iff_eq] at h1
  subst h1
  exact h2

theorem weightOf_isSome_of_mem {a : List (ν × Nat)} {x : ν} (h : x ∈ a.map (·.1)) :
    (weightOf a x).isSome = true := by
  unfold weightOf
  cases hf : a.find? (fun e => e.1 == x) with
  | some e => rfl
  | none =>
    rw [List.find?_eq_none] at hf
    obtain ⟨e, he, hx⟩ := List.mem_map.mp h
    exact absurd (by simpa using hx) (hf e he)

omit [DecidableEq ν] in
/-- with distinct names a name carries one weight -/
theorem weight_unique : ∀ {a : List (ν × Nat)}, (a.map (·.1)).Nodup → ∀ {x : ν} {w1 w2 : Nat},
    (x, w1) ∈ a → (x, w2) ∈ a → w1 = w2
  | [], _, _, _, _, h1, _ => by cases h1
  | e :: a, hn, x, w1, w2, h1, h2 => by
    simp only [List.map_cons, List.nodup_cons] at hn
    rcases List.mem_cons.mp h1 with h1 | h1 <;> rcases List.mem_cons.mp h2 with h2 | h2
    · rw [← h1] at h2
      exact ((Prod.mk.injEq ..).mp h2).2.symm
    · exact absurd (List.mem_map.mpr ⟨(x, w2), h2, by rw [← h1]⟩) hn.1
    · exact absurd (List.mem_map.mpr ⟨(x, w1), h1, by rw [← h2]⟩) hn.1
    · exact weight_unique hn.2 h1 h2

/-! ## one step of the `for` loop -/

/-- the weight `stepName` gives to `name` -/
def newWeight (t : Table ν) (a : List (ν × Nat)) (name : ν) : Nat :=
  if (depends t name).isEmpty then 0
  else maxList (((depends t name).map (weightOf a)).filterMap id) + 1

/-- `name` is still to be placed and all its dependencies have a weight -/
def Ready (t : Table ν) (st : SortSt ν) (name : ν) : Prop :=
  name ∈ st.2 ∧ ∀ d ∈ depends t name, (weightOf st.1 d).isSome = true

theorem stepName_ready (t : Table ν) (st : SortSt ν) (name : ν) (h : Ready t st name) :
    stepName t st name = (st.1 ++ [(name, newWeight t st.1 name)], st.2.erase name) := by
  obtain ⟨h1, h2⟩ := h
  have hc : st.2.contains name = true := by simpa using h1
  unfold stepName newWeight
  simp only [hc, Bool.not_true, Bool.false_eq_true, if_false, List.isEmpty_map]
  by_cases he : (depends t name).isEmpty = true
  · simp only [he, if_true]
  · have hany : ((depends t name).map (weightOf st.1)).any Option.isNone = false := by
      rw [List.any_eq_false]
      intro o ho
      obtain ⟨d, hd, rfl⟩ := List.mem_map.mp ho
      have := h2 d hd
      cases hw : weightOf st.1 d with
      | none => rw [hw] at this; cases this
      | some w => simp
    simp only [he, hany, Bool.false_eq_true, if_false]

theorem stepName_not_ready (t : Table ν) (st : SortSt ν) (name : ν) (h : ¬ Ready t st name) :
    stepName t st name = st := by
  unfold stepName
  by_cases h1 : name ∈ st.2
  · have hc : st.2.contains name = true := by simpa using h1
    simp only [hc, Bool.not_true, Bool.false_eq_true, if_false, List.isEmpty_map]
    by_cases he : (depends t name).isEmpty = true
    · exact absurd ⟨h1, fun d hd => by rw [List.isEmpty_iff.mp he] at hd; cases hd⟩ h
    · have hany : ((depends t name).map (weightOf st.1)).any Option.isNone = true := by
        rw [List.any_eq_true]
        apply Classical.byContradiction
        intro hno
        apply h
        refine ⟨h1, fun d hd => ?_⟩
        cases hw : weightOf st.1 d with
        | some w => rfl
        | none => exact absurd ⟨none, List.mem_map.mpr ⟨d, hd, hw⟩, rfl⟩ hno
      simp only [he, hany, Bool.false_eq_true, if_false, if_true]
  · have hc : st.2.contains name = false := by simpa using h1
    simp only [hc, Bool.not_false, if_true]

/-- the new weight exceeds the weight of every dependency -/
theorem newWeight_gt (t : Table ν) (a : List (ν × Nat)) (name : ν)
    (h : ∀ d ∈ depends t name, (weightOf a d).isSome = true) :
    ∀ d ∈ depends t name, ∃ wd, (d, wd) ∈ a ∧ wd < newWeight t a name := by
  intro d hd
  have hne : (depends t name).isEmpty = false := by
    cases hdd : depends t name with
    | nil => rw [hdd] at hd; cases hd
    | cons _ _ => rfl
  obtain ⟨wd, hwd⟩ := Option.isSome_iff_exists.mp (h d hd)
  refine ⟨wd, weightOf_some hwd, ?_⟩
  unfold newWeight
  simp only [hne, Bool.false_eq_true, if_false]
  have hm : wd ∈ ((depends t name).map (weightOf a)).filterMap id :=
    List.mem_filterMap.mpr ⟨some wd, List.mem_map.mpr ⟨d, hd, hwd⟩, rfl⟩
  have := le_maxList _ _ hm
  omega

/-- the new weight is 0 or one more than an assigned weight -/
theorem newWeight_down (t : Table ν) (a : List (ν × Nat)) (name : ν)
    (h : ∀ d ∈ depends t name, (weightOf a d).isSome = true) :
    newWeight t a name = 0 ∨ ∃ m, (m, newWeight t a name - 1) ∈ a := by
  unfold newWeight
  cases hdd : depends t name with
  | nil => left; simp
  | cons d ds =>
    right
    rw [← hdd]
    have hne : (depends t name).isEmpty = false := by rw [hdd]; rfl
    simp only [hne, Bool.false_eq_true, if_false, Nat.add_sub_cancel]
    have hd : d ∈ depends t name := by rw [hdd]; exact List.mem_cons_self
    obtain ⟨wd, hwd⟩ := Option.isSome_iff_exists.mp (h d hd)
    have hm : wd ∈ ((depends t name).map (weightOf a)).filterMap id :=
      List.mem_filterMap.mpr ⟨some wd, List.mem_map.mpr ⟨d, hd, hwd⟩, rfl⟩
    have hmax := maxList_mem _ (List.ne_nil_of_mem hm)
    obtain ⟨o, ho, hid⟩ := List.mem_filterMap.mp hmax
    obtain ⟨m, _, hmo⟩ := List.mem_map.mp ho
    refine ⟨m, weightOf_some ?_⟩
    rw [hmo]
    exact hid

/-! ## the loop invariant -/

/-- invariant of the `while`/`for` loops of `sort_precomputed` -/
structure SortInv (t : Table ν) (keys : List ν) (st : SortSt ν) : Prop where
  /-- every key is either weighted or still in `pre_comp_names` -/
  perm : (st.1.map (·.1) ++ st.2).Perm keys
  /-- a weighted name lies strictly above all its dependencies -/
  deps : ∀ e ∈ st.1, ∀ d ∈ depends t e.1, ∃ wd, (d, wd) ∈ st.1 ∧ wd < e.2
  /-- the weights in use are downward closed -/
  down : ∀ e ∈ st.1, e.2 = 0 ∨ ∃ m, (m, e.2 - 1) ∈ st.1

theorem sortInv_init (t : Table ν) (keys : List ν) : SortInv t keys ([], keys) :=
  { perm := by simp
    deps := fun e he => by cases he
    down := fun e he => by cases he }

theorem stepName_inv (t : Table ν) (keys : List ν) (st : SortSt ν) (name : ν)
    (hinv : SortInv t keys st) : SortInv t keys (stepName t st name) := by
  by_cases hr : Ready t st name
  · rw [stepName_ready t st name hr]
    obtain ⟨h1, h2⟩ := hr
    refine ⟨?_, ?_, ?_⟩
    · have : (st.1 ++ [(name, newWeight t st.1 name)]).map (·.1) ++ st.2.erase name
          = st.1.map (·.1) ++ (name :: st.2.erase name) := by
        simp only [List.map_append, List.map_cons, List.map_nil, List.append_assoc,
          List.singleton_append]
      show ((st.1 ++ [(name, newWeight t st.1 name)]).map (·.1) ++ st.2.erase name).Perm keys
      rw [this]
      exact ((List.perm_cons_erase h1).symm.append_left _).trans hinv.perm
    · intro e he d hd
      rcases List.mem_append.mp he with he | he
      · obtain ⟨wd, hwd, hlt⟩ := hinv.deps e he d hd
        exact ⟨wd, List.mem_append_left _ hwd, hlt⟩
      · rw [List.mem_singleton] at he
        subst he
        obtain ⟨wd, hwd, hlt⟩ := newWeight_gt t st.1 name h2 d hd
        exact ⟨wd, List.mem_append_left _ hwd, hlt⟩
    · intro e he
      rcases List.mem_append.mp he with he | he
      · rcases hinv.down e he with h0 | ⟨m, hm⟩
        · exact Or.inl h0
        · exact Or.inr ⟨m, List.mem_append_left _ hm⟩
      · rw [List.mem_singleton] at he
        subst he
        rcases newWeight_down t st.1 name h2 with h0 | ⟨m, hm⟩
        · exact Or.inl h0
        · exact Or.inr ⟨m, List.mem_append_left _ hm⟩
  · rw [stepName_not_ready t st name hr]
    exact hinv

theorem foldl_stepName_inv (t : Table ν) (keys : List ν) :
    ∀ (l : List ν) (st : SortSt ν), SortInv t keys st → SortInv t keys (l.foldl (stepName t) st)
  | [], _, h => h
  | n :: l, st, h => foldl_stepName_inv t keys l _ (stepName_inv t keys st n h)

theorem sortPass_inv (t : Table ν) (keys : List ν) (st : SortSt ν) (h : SortInv t keys st) :
    SortInv t keys (sortPass t st) :=
  foldl_stepName_inv t keys st.2 st h

theorem sortLoop_inv (t : Table ν) (keys : List ν) :
    ∀ (fuel : Nat) (st : SortSt ν), SortInv t keys st → SortInv t keys (sortLoop t fuel st)
  | 0, _, h => h
  | fuel + 1, st, h => by
    unfold sortLoop
    split
    · exact h
    · exact sortLoop_inv t keys fuel _ (sortPass_inv t keys st h)

/-! ## the output -/

omit [DecidableEq ν] in
theorem mem_levelNames {a : List (ν × Nat)} {l : Nat} {x : ν} :
    x ∈ levelNames a l ↔ (x, l) ∈ a := by
  simp only [levelNames, List.mem_map, List.mem_filter, beq_iff_eq]
  constructor
  · rintro ⟨e, ⟨he, rfl⟩, rfl⟩
    exact he
  · intro h
    exact ⟨(x, l), ⟨h, rfl⟩, rfl⟩

omit [DecidableEq ν] in
/-- with downward closed weights every weight below an occurring one occurs -/
theorem weights_below {a : List (ν × Nat)}
    (hdown : ∀ e ∈ a, e.2 = 0 ∨ ∃ m, (m, e.2 - 1) ∈ a) :
    ∀ (w : Nat), (∃ m, (m, w) ∈ a) → ∀ w' ≤ w, ∃ m', (m', w') ∈ a
  | 0, h, w', hw' => by
    have : w' = 0 := by omega
    subst this
    exact h
  | w + 1, ⟨m, hm⟩, w', hw' => by
    by_cases heq : w' = w + 1
    · subst heq
      exact ⟨m, hm⟩
    · rcases hdown (m, w + 1) hm with h0 | h1
      · simp at h0
      · simp only [Nat.add_sub_cancel] at h1
        exact weights_below hdown w h1 w' (by omega)

omit [DecidableEq ν] in
/-- every weight is a valid level index -/
theorem weight_lt_numLevels {a : List (ν × Nat)}
    (hdown : ∀ e ∈ a, e.2 = 0 ∨ ∃ m, (m, e.2 - 1) ∈ a) :
    ∀ e ∈ a, e.2 < numLevels a := by
  intro e he
  have hsub : ∀ x ∈ List.range (e.2 + 1), x ∈ (a.map (·.2)).eraseDups := by
    intro x hx
    rw [List.mem_range] at hx
    obtain ⟨m', hm'⟩ := weights_below hdown e.2 ⟨e.1, he⟩ x (by omega)
    rw [List.mem_eraseDups]
    exact List.mem_map.mpr ⟨(m', x), hm', rfl⟩
  have := length_le_of_nodup_subset _ _ List.nodup_range hsub
  rw [List.length_range] at this
  unfold numLevels
  omega

omit [DecidableEq ν] in
/-- splitting the weights `< L + 1` into `< L` and `= L` -/
theorem filter_lt_succ_perm : ∀ (a : List (ν × Nat)) (L : Nat),
    (a.filter (fun e => decide (e.2 < L)) ++ a.filter (fun e => e.2 == L)).Perm
      (a.filter (fun e => decide (e.2 < L + 1)))
  | [], _ => by simp
  | e :: a, L => by
    have ih := filter_lt_succ_perm a L
    simp only [List.filter_cons]
    by_cases h1 : e.2 < L
    · have b1 : decide (e.2 < L) = true := decide_eq_true h1
      have b2 : (e.2 == L) = false := by simp only [beq_eq_false_iff_ne, ne_eq]; omega
      have b3 : decide (e.2 < L + 1) = true := decide_eq_true (by omega)
      simp only [b1, b2, b3, if_true, Bool.false_eq_true, if_false, List.cons_append]
      exact ih.cons e
    · by_cases h2 : e.2 = L
      · have b1 : decide (e.2 < L) = false := decide_eq_false h1
        have b2 : (e.2 == L) = true := by simp only [beq_iff_eq]; exact h2
        have b3 : decide (e.2 < L + 1) = true := decide_eq_true (by omega)
        simp only [b1, b2, b3, if_true, Bool.false_eq_true, if_false]
        exact List.perm_middle.trans (ih.cons e)
      · have b1 : decide (e.2 < L) = false := decide_eq_false h1
        have b2 : (e.2 == L) = false := by simp only [beq_eq_false_iff_ne, ne_eq]; exact h2
        have b3 : decide (e.2 < L + 1) = false := decide_eq_false (by omega)
        simp only [b1, b2, b3, Bool.false_eq_true, if_false]
        exact ih

omit [DecidableEq ν] in
/-- the first `L` levels hold exactly the names of weight `< L` -/
theorem levels_perm (le : ν → ν → Bool) (a : List (ν × Nat)) : ∀ (L : Nat),
    ((List.range L).flatMap (fun l => isort le (levelNames a l))).Perm
      ((a.filter (fun e => decide (e.2 < L))).map (·.1))
  | 0 => by simp
  | L + 1 => by
    have ih := levels_perm le a L
    rw [List.range_succ, List.flatMap_append]
    simp only [List.flatMap_cons, List.flatMap_nil, List.append_nil]
    refine (ih.append (isort_perm le _)).trans ?_
    unfold levelNames
    rw [← List.map_append]
    exact (filter_lt_succ_perm a L).map _

omit [DecidableEq ν] in
theorem sortOutput_perm (le : ν → ν → Bool) (a : List (ν × Nat))
    (hdown : ∀ e ∈ a, e.2 = 0 ∨ ∃ m, (m, e.2 - 1) ∈ a) :
    (sortOutput le a).Perm (a.map (·.1)) := by
  have h := levels_perm le a (numLevels a)
  have hf : a.filter (fun e => decide (e.2 < numLevels a)) = a := by
    rw [List.filter_eq_self]
    intro e he
    exact decide_eq_true (weight_lt_numLevels hdown e he)
  rw [hf] at h
  exact h

/-- a name of weight `wx` does not depend on a name of weight `≥ wx` -/
theorem not_dep_of_le (t : Table ν) {a : List (ν × Nat)} (hn : (a.map (·.1)).Nodup)
    (hdeps : ∀ e ∈ a, ∀ d ∈ depends t e.1, ∃ wd, (d, wd) ∈ a ∧ wd < e.2)
    {x y : ν} {wx wy : Nat} (hx : (x, wx) ∈ a) (hy : (y, wy) ∈ a) (hle : wx ≤ wy) :
    y ∉ depends t x := by
  intro hd
  obtain ⟨wd, hwd, hlt⟩ := hdeps (x, wx) hx y hd
  have := weight_unique hn hwd hy
  simp only at hlt
  omega

theorem sortOutput_pairwise (le : ν → ν → Bool) (t : Table ν) (a : List (ν × Nat))
    (hn : (a.map (·.1)).Nodup)
    (hdeps : ∀ e ∈ a, ∀ d ∈ depends t e.1, ∃ wd, (d, wd) ∈ a ∧ wd < e.2) :
    (sortOutput le a).Pairwise (fun x y => y ∉ depends t x) := by
  unfold sortOutput
  rw [List.pairwise_flatMap]
  constructor
  · intro l _
    apply List.pairwise_of_forall_mem_list
    intro x hx y hy
    rw [mem_isort, mem_levelNames] at hx hy
    exact not_dep_of_le t hn hdeps hx hy (Nat.le_refl _)
  · refine List.Pairwise.imp ?_ List.pairwise_lt_range
    intro l1 l2 hlt x hx y hy
    rw [mem_isort, mem_levelNames] at hx hy
    exact not_dep_of_le t hn hdeps hx hy (Nat.le_of_lt hlt)

/-! ## `sort_precomputed`: partial correctness -/

theorem sortPrecomputed_ok {le : ν → ν → Bool} {t : Table ν} {keys out : List ν}
    (h : sortPrecomputed le t keys = .ok out) :
    depsClosed t keys = true ∧ (sortLoop t keys.length ([], keys)).2 = [] ∧
      out = sortOutput le (sortLoop t keys.length ([], keys)).1 := by
  unfold sortPrecomputed at h
  by_cases hc : depsClosed t keys = true
  · simp only [hc, Bool.not_true, Bool.false_eq_true, if_false] at h
    by_cases he : (sortLoop t keys.length ([], keys)).2.isEmpty = true
    · simp only [he, if_true, SortRes.ok.injEq] at h
      exact ⟨hc, List.isEmpty_iff.mp he, h.symm⟩
    · simp only [he, Bool.false_eq_true, if_false] at h
      cases h
  · simp only [Bool.not_eq_true] at hc
    simp only [hc, Bool.not_false, if_true] at h
    cases h

/-- the final state: all keys weighted, names distinct -/
theorem final_state (t : Table ν) (keys : List ν) (hk : keys.Nodup) (st : SortSt ν)
    (hinv : SortInv t keys st) (he : st.2 = []) :
    (st.1.map (·.1)).Perm keys ∧ (st.1.map (·.1)).Nodup := by
  have hp := hinv.perm
  rw [he, List.append_nil] at hp
  exact ⟨hp, hp.nodup_iff.mpr hk⟩

theorem sortPrecomputed_perm (le : ν → ν → Bool) (t : Table ν) (keys out : List ν)
    (hk : keys.Nodup) (h : sortPrecomputed le t keys = .ok out) : out.Perm keys := by
  obtain ⟨_, he, rfl⟩ := sortPrecomputed_ok h
  have hinv := sortLoop_inv t keys keys.length _ (sortInv_init t keys)
  exact (sortOutput_perm le _ hinv.down).trans (final_state t keys hk _ hinv he).1

/-- no symbol precedes one of the symbols its code mentions -/
theorem sortPrecomputed_pairwise (le : ν → ν → Bool) (t : Table ν) (keys out : List ν)
    (hk : keys.Nodup) (h : sortPrecomputed le t keys = .ok out) :
    out.Pairwise (fun x y => y ∉ depends t x) := by
  obtain ⟨_, he, rfl⟩ := sortPrecomputed_ok h
  have hinv := sortLoop_inv t keys keys.length _ (sortInv_init t keys)
  exact sortOutput_pairwise le t _ (final_state t keys hk _ hinv he).2 hinv.deps

/-- positional form: every dependency of x occurs strictly before x -/
theorem sortPrecomputed_deps_before (le : ν → ν → Bool) (t : Table ν) (keys out : List ν)
    (hk : keys.Nodup) (h : sortPrecomputed le t keys = .ok out) (x d : ν) (hx : x ∈ out)
    (hd : d ∈ depends t x) : ∃ l1 l2, out = l1 ++ x :: l2 ∧ d ∈ l1 := by
  have hperm := sortPrecomputed_perm le t keys out hk h
  have hpw := sortPrecomputed_pairwise le t keys out hk h
  have hc := (depsClosed_iff t keys).mp (sortPrecomputed_ok h).1
  have hdout : d ∈ out := hperm.mem_iff.mpr (hc x (hperm.mem_iff.mp hx) d hd)
  obtain ⟨l1, l2, rfl⟩ := List.append_of_mem hx
  refine ⟨l1, l2, rfl, ?_⟩
  rw [List.pairwise_append, List.pairwise_cons] at hpw
  rcases List.mem_append.mp hdout with h1 | h1
  · exact h1
  · rcases List.mem_cons.mp h1 with h1 | h1
    · exact absurd h1 (mem_depends.mp hd).2.2
    · exact absurd hd (hpw.2.1.1 d h1)

/-! ## acyclicity -/

/-- acyclic: a strict rank on the dependency relation restricted to keys -/
def Acyclic (t : Table ν) (keys : List ν) : Prop :=
  ∃ r : ν → Nat, ∀ n ∈ keys, ∀ d ∈ depends t n, r d < r n

/-- the boolean check `acyclicB` (model) implies `Acyclic` on the table's own keys -/
theorem acyclic_of_acyclicB (t : Table ν) (h : acyclicB t = true) : Acyclic t (t.map (·.1)) := by
  refine ⟨depth t t.length, ?_⟩
  intro n hn d hd
  obtain ⟨e, he, rfl⟩ := List.mem_map.mp hn
  simp only [acyclicB, List.all_eq_true, decide_eq_true_eq] at h
  exact h e he d hd

theorem Acyclic.mono {t : Table ν} {k1 k2 : List ν} (h : Acyclic t k2)
    (hs : ∀ x ∈ k1, x ∈ k2) : Acyclic t k1 := by
  obtain ⟨r, hr⟩ := h
  exact ⟨r, fun n hn => hr n (hs n hn)⟩

/-! ## termination -/

theorem stepName_rem_sub (t : Table ν) (st : SortSt ν) (name : ν) :
    ∀ x ∈ (stepName t st name).2, x ∈ st.2 := by
  intro x hx
  by_cases hr : Ready t st name
  · rw [stepName_ready t st name hr] at hx
    exact List.mem_of_mem_erase hx
  · rw [stepName_not_ready t st name hr] at hx
    exact hx

theorem stepName_names_mono (t : Table ν) (st : SortSt ν) (name : ν) :
    ∀ x ∈ st.1.map (·.1), x ∈ (stepName t st name).1.map (·.1) := by
  intro x hx
  by_cases hr : Ready t st name
  · rw [stepName_ready t st name hr]
    show x ∈ (st.1 ++ [(name, newWeight t st.1 name)]).map (·.1)
    rw [List.map_append]
    exact List.mem_append_left _ hx
  · rw [stepName_not_ready t st name hr]
    exact hx

theorem foldl_rem_sub (t : Table ν) : ∀ (l : List ν) (st : SortSt ν),
    ∀ x ∈ (l.foldl (stepName t) st).2, x ∈ st.2
  | [], _, _, hx => hx
  | n :: l, st, x, hx =>
    stepName_rem_sub t st n x (foldl_rem_sub t l (stepName t st n) x hx)

/-- a name whose dependencies are all weighted is removed when it is reached -/
theorem stepName_removes (t : Table ν) (keys : List ν) (hk : keys.Nodup) (st : SortSt ν)
    (hinv : SortInv t keys st) (n : ν) (hd : ∀ d ∈ depends t n, d ∈ st.1.map (·.1)) :
    n ∉ (stepName t st n).2 := by
  by_cases h1 : n ∈ st.2
  · have hr : Ready t st n := ⟨h1, fun d hdd => weightOf_isSome_of_mem (hd d hdd)⟩
    rw [stepName_ready t st n hr]
    have hnd : st.2.Nodup := (List.nodup_append.mp (hinv.perm.nodup_iff.mpr hk)).2.1
    show n ∉ st.2.erase n
    rw [hnd.mem_erase_iff]
    exact fun h => h.1 rfl
  · intro h
    exact h1 (stepName_rem_sub t st n n h)

theorem foldl_removes (t : Table ν) (keys : List ν) (hk : keys.Nodup) (n : ν) :
    ∀ (l : List ν) (st : SortSt ν), SortInv t keys st → n ∈ l →
      (∀ d ∈ depends t n, d ∈ st.1.map (·.1)) → n ∉ (l.foldl (stepName t) st).2
  | [], _, _, hn, _ => by cases hn
  | m :: l, st, hinv, hn, hd => by
    by_cases hnm : n = m
    · subst hnm
      intro h
      exact stepName_removes t keys hk st hinv n hd (foldl_rem_sub t l _ n h)
    · have hnl : n ∈ l := by
        rcases List.mem_cons.mp hn with h | h
        · exact absurd h hnm
        · exact h
      exact foldl_removes t keys hk n l (stepName t st m) (stepName_inv t keys st m hinv) hnl
        (fun d hdd => stepName_names_mono t st m d (hd d hdd))

/-- each round of the `while` loop places at least one name -/
theorem sortPass_length_lt (t : Table ν) (keys : List ν) (hk : keys.Nodup)
    (hc : depsClosed t keys = true) (r : ν → Nat)
    (hr : ∀ n ∈ keys, ∀ d ∈ depends t n, r d < r n)
    (st : SortSt ν) (hinv : SortInv t keys st) (hne : st.2 ≠ []) :
    (sortPass t st).2.length < st.2.length := by
  obtain ⟨n, hn, hmin⟩ := exists_min_rank r st.2 hne
  have hnk : n ∈ keys := hinv.perm.mem_iff.mp (List.mem_append_right _ hn)
  have hd : ∀ d ∈ depends t n, d ∈ st.1.map (·.1) := by
    intro d hdd
    have hdk : d ∈ keys := (depsClosed_iff t keys).mp hc n hnk d hdd
    rcases List.mem_append.mp (hinv.perm.mem_iff.mpr hdk) with h | h
    · exact h
    · have h1 := hmin d h
      have h2 := hr n hnk d hdd
      omega
  have hrem : n ∉ (sortPass t st).2 := foldl_removes t keys hk n st.2 st hinv hn hd
  have hinv' := sortPass_inv t keys st hinv
  have hnd : (sortPass t st).2.Nodup :=
    (List.nodup_append.mp (hinv'.perm.nodup_iff.mpr hk)).2.1
  have hsub : ∀ x ∈ (sortPass t st).2, x ∈ st.2.erase n := by
    intro x hx
    have hxn : x ≠ n := fun h => hrem (h ▸ hx)
    exact (List.mem_erase_of_ne hxn).mpr (foldl_rem_sub t st.2 st x hx)
  have hlen := length_le_of_nodup_subset _ _ hnd hsub
  rw [List.length_erase_of_mem hn] at hlen
  have hpos : 0 < st.2.length := List.length_pos_of_mem hn
  omega

theorem sortLoop_done (t : Table ν) (keys : List ν) (hk : keys.Nodup)
    (hc : depsClosed t keys = true) (r : ν → Nat)
    (hr : ∀ n ∈ keys, ∀ d ∈ depends t n, r d < r n) :
    ∀ (fuel : Nat) (st : SortSt ν), SortInv t keys st → st.2.length ≤ fuel →
      (sortLoop t fuel st).2 = []
  | 0, st, _, hl => by
    unfold sortLoop
    exact List.eq_nil_of_length_eq_zero (by omega)
  | fuel + 1, st, hinv, hl => by
    unfold sortLoop
    by_cases he : st.2.isEmpty = true
    · simp only [he, if_true]
      exact List.isEmpty_iff.mp he
    · simp only [he, Bool.false_eq_true, if_false]
      have hne : st.2 ≠ [] := fun h => he (by rw [h]; rfl)
      have hlt := sortPass_length_lt t keys hk hc r hr st hinv hne
      exact sortLoop_done t keys hk hc r hr fuel _ (sortPass_inv t keys st hinv) (by omega)

theorem sortPrecomputed_terminates (le : ν → ν → Bool) (t : Table ν) (keys : List ν)
    (hk : keys.Nodup) (hc : depsClosed t keys = true) (ha : Acyclic t keys) :
    ∃ out, sortPrecomputed le t keys = .ok out := by
  obtain ⟨r, hr⟩ := ha
  have hdone := sortLoop_done t keys hk hc r hr keys.length ([], keys) (sortInv_init t keys)
    (Nat.le_refl _)
  refine ⟨sortOutput le (sortLoop t keys.length ([], keys)).1, ?_⟩
  unfold sortPrecomputed
  simp only [hc, Bool.not_true, Bool.false_eq_true, if_false, hdone, List.isEmpty_nil, if_true]

end PysphVerif.Codegen
