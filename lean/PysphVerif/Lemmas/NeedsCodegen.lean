import PysphVerif.Lemmas.Needs
import PysphVerif.Model.NeedsCodegen
/-!
Helper lemmas for the declaration / binding sites of the integrator code
generator (`Model/NeedsCodegen.lean`): `'s_' + x[2:] == x` for a source-style
name, membership in `known_types`, in the declared and in the bound names.
-/
namespace PysphVerif.Needs

/-- `pre + n[2:] == n` when `n.startswith(pre)` and `len(pre) == 2` -/
theorem prefix_strip (pre n : Name) (h : n.startsWith pre = true)
    (hl : pre.toList.length = 2) : pre ++ strip n = n := by
  rw [String.startsWith_string_iff] at h
  obtain ⟨r, hr⟩ := h
  apply String.toList_inj.mp
  unfold strip
  have : (n.drop 2).toString = (n.drop 2).copy := rfl
  rw [this, String.toList_append, String.toList_copy_drop, ← hr]
  simp [hl]

theorem src_strip (n : Name) (h : isSrcArr n = true) : "s_" ++ strip n = n := by
  simp only [isSrcArr, Bool.and_eq_true] at h
  exact prefix_strip "s_" n h.1 (by decide)

theorem dst_strip (n : Name) (h : isDstArr n = true) : "d_" ++ strip n = n := by
  simp only [isDstArr, Bool.and_eq_true] at h
  exact prefix_strip "d_" n h.1 (by decide)

theorem findArr_mem {arrs : List PArr} {n : Name} {a : PArr} (h : findArr arrs n = some a) :
    a ∈ arrs := by
  unfold findArr at h
  have := List.mem_of_find?_eq_some h
  simpa using this

/-- a source- or destination-style name whose stripped form is a property of
some array is a key of `known_types` -/
theorem mem_knownTypes {arrs : List PArr} {a : PArr} (ha : a ∈ arrs) {n : Name}
    (hn : (isSrcArr n || isDstArr n) = true) (hp : strip n ∈ a.props) :
    n ∈ knownTypes arrs := by
  unfold knownTypes
  refine List.mem_flatMap.mpr ⟨a, ha, List.mem_flatMap.mpr ⟨strip n, hp, ?_⟩⟩
  rcases Bool.or_eq_true_iff.mp hn with h | h
  · rw [src_strip n h]; simp
  · rw [dst_strip n h]; simp

theorem mem_stepperArrNames (args : List Name) (n : Name) :
    n ∈ stepperArrNames args ↔ n ∈ args ∧ (isSrcArr n || isDstArr n) = true := by
  simp [stepperArrNames]

theorem mem_stepperDeclNames (sts : List Stepper) (m n : Name) :
    n ∈ stepperDeclNames sts m ↔ ∃ st ∈ sts, n ∈ stepperArrNames (st.args m) := by
  unfold stepperDeclNames
  rw [mem_sortNames]
  simp only [List.mem_eraseDups, List.mem_flatMap]

theorem mem_stepperSetupNames (st : Stepper) (m n : Name) :
    n ∈ stepperSetupNames st m ↔ n ∈ st.args m ∧ (isSrcArr n || isDstArr n) = true := by
  unfold stepperSetupNames
  rw [mem_sortNames, List.mem_eraseDups, mem_stepperArrNames]

end PysphVerif.Needs
