import PysphVerif.Lemmas.PArrayParticles
/-!
C06 helper lemmas, part C continued: the array as a table of records, built from
its columns (`transposeCols`), and `extract_particles` at the record level.
-/
namespace PysphVerif.PArray

/-- a record: property name ↦ row -/
abbrev Rec := List (String × List Int)

/-- the table of `m` records whose columns are `cols` -/
def transposeCols (m : Nat) (cols : List (String × List (List Int))) : List Rec :=
  (List.range m).map (fun k => cols.map (fun c => (c.1, c.2.getD k [])))

/-- particles of an array whose property list is given as `L.map mk` -/
theorem particles_props_map (pa' : PA) {β : Type} (L : List β) (mk : β → Col)
    (hp : pa'.props = L.map mk) :
    particles pa' = transposeCols pa'.n
      (L.map (fun x => ((mk x).name, rowsOf (pa'.strideOf (mk x).name) (mk x).data))) := by
  unfold particles transposeCols particleAt
  rw [hp]
  simp only [List.map_map]
  rfl

theorem transposeCols_congr {β : Type} (m : Nat) (L : List β)
    (g g' : β → String × List (List Int)) (h : ∀ x ∈ L, g x = g' x) :
    transposeCols m (L.map g) = transposeCols m (L.map g') := by
  rw [List.map_congr_left h]

/-- every column is an old part of `m1` rows followed by a new part: the table
is the old table followed by the table of the new parts -/
theorem transposeCols_append {β : Type} (L : List β) (nm : β → String)
    (A B : β → List (List Int)) (m1 m2 : Nat) (hA : ∀ x ∈ L, (A x).length = m1) :
    transposeCols (m1 + m2) (L.map (fun x => (nm x, A x ++ B x))) =
      transposeCols m1 (L.map (fun x => (nm x, A x))) ++
      transposeCols m2 (L.map (fun x => (nm x, B x))) := by
  unfold transposeCols
  rw [List.range_add, List.map_append, List.map_map]
  congr 1
  · apply List.map_congr_left
    intro k hk
    have hk : k < m1 := by simpa using hk
    rw [List.map_map, List.map_map]
    apply List.map_congr_left
    intro x hx
    simp only [Function.comp]
    rw [getD_append, if_pos (by rw [hA x hx]; exact hk)]
  · apply List.map_congr_left
    intro k _
    simp only [Function.comp]
    rw [List.map_map, List.map_map]
    apply List.map_congr_left
    intro x hx
    simp only [Function.comp]
    rw [getD_append, if_neg (by rw [hA x hx]; omega), hA x hx, Nat.add_sub_cancel_left]

/-- columns given pointwise over an index list: the table is the list of the
pointwise records -/
theorem transposeCols_of_map {β : Type} (L : List β) (nm : β → String) (idx : List Nat)
    (f : β → Nat → List Int) :
    transposeCols idx.length (L.map (fun x => (nm x, idx.map (f x)))) =
      idx.map (fun i => L.map (fun x => (nm x, f x i))) := by
  unfold transposeCols
  rw [← range_map_getD idx 0 (fun i => L.map (fun x => (nm x, f x i)))]
  apply List.map_congr_left
  intro k hk
  have hk : k < idx.length := by simpa using hk
  rw [List.map_map]
  apply List.map_congr_left
  intro x _
  simp only [Function.comp]
  rw [map_getD_of_lt idx (f x) k 0 [] hk]

theorem transposeCols_replicate {β : Type} (L : List β) (nm : β → String) (k : Nat)
    (f : β → List Int) :
    transposeCols k (L.map (fun x => (nm x, List.replicate k (f x)))) =
      List.replicate k (L.map (fun x => (nm x, f x))) := by
  unfold transposeCols
  rw [List.eq_replicate_iff]
  refine ⟨by simp, ?_⟩
  intro p hp
  obtain ⟨j, hj, rfl⟩ := List.mem_map.mp hp
  have hj : j < k := by simpa using hj
  rw [List.map_map]
  apply List.map_congr_left
  intro x _
  simp only [Function.comp]
  rw [List.getD_eq_getElem?_getD, List.getElem?_replicate, if_pos hj]; rfl

/-- with the invariant, the particle count is the number of rows of any property -/
theorem n_eq_rows {pa : PA} (h : Inv pa) (c : Col) (hc : c ∈ pa.props) :
    (rowsOf (pa.strideOf c.name) c.data).length = pa.n :=
  (rowsOf_uniform _ (h.len c hc).1 pa.n c.data (h.len c hc).2).1

/-! ### fields of a record -/

theorem lookupD_map_props {β : Type} (P : List Col) (g : Col → β) (nm : String) (d : β) :
    lookupD (P.map (fun (c : Col) => (c.name, g c))) nm d =
      match P.find? (fun (c : Col) => c.name == nm) with
      | some c => g c
      | none => d := by
  induction P with
  | nil => rfl
  | cons c P ih =>
    rw [List.map_cons, lookupD_cons, ih]
    by_cases hc : c.name = nm
    · simp [hc]
    · simp [hc]

theorem field_particleAt (pa : PA) (i : Nat) (nm : String) (sc : Col) (h : pa.col? nm = some sc) :
    lookupD (particleAt pa i) nm [] = (rowsOf (pa.strideOf nm) sc.data).getD i [] := by
  unfold particleAt
  rw [lookupD_map_props]
  unfold PA.col? at h
  rw [h]
  have : sc.name = nm := by simpa using List.find?_some h
  simp only [this]

/-- the record `extract_particles` writes into a new slot of the destination:
the listed fields from the source record, the others keep the destination's
default -/
def copyFields (names : List String) (src dflt : Rec) : Rec :=
  dflt.map (fun f => if names.contains f.1 then (f.1, lookupD src f.1 []) else f)

theorem flat_append (A B : List (List Int)) : flat (A ++ B) = flat A ++ flat B := by
  unfold flat; rw [List.flatten_append]

/-! ### extract_particles -/

/-- the rows `extract_particles` puts into the `k` new slots of property `c` of
the destination -/
def extractRows (pa dest : PA) (names : List String) (idx : List Nat) (c : Col) :
    List (List Int) :=
  if names.contains c.name then
    match pa.col? c.name with
    | some sc => gather idx (rowsOf (pa.strideOf c.name) sc.data)
    | none => List.replicate idx.length (defaultRow dest c.name)
  else List.replicate idx.length (defaultRow dest c.name)

/-- what `extract_particles` does to property `c` of the (extended) destination -/
def extractCol (pa : PA) (names : List String) (idx : List Nat) (start : Nat) (c : Col) : Col :=
  if names.contains c.name then
    match pa.col? c.name with
    | some sc =>
      let s := pa.strideOf c.name
      let picked := flat (gather idx (rowsOf s sc.data))
      { c with data := c.data.take (s * start) ++ picked ++ c.data.drop (s * start + picked.length) }
    | none => c
  else c

theorem extractCol_name (pa : PA) (names : List String) (idx : List Nat) (start : Nat) (c : Col) :
    (extractCol pa names idx start c).name = c.name := by
  unfold extractCol
  split
  · split <;> rfl
  · rfl

/-- the extended destination column -/
def extendCol (dest : PA) (k : Nat) (c : Col) : Col :=
  { c with data := flat (resizeRows (dest.n + k) (defaultRow dest c.name)
      (rowsOf (dest.strideOf c.name) c.data)) }

theorem extend_props (dest : PA) (k : Nat) (hk : k ≠ 0) :
    (dest.extend k).props = dest.props.map (extendCol dest k) := by
  unfold PA.extend
  rw [if_neg hk]
  rfl

theorem extendCol_data {dest : PA} (hd : Inv dest) (k : Nat) (c : Col) (hc : c ∈ dest.props) :
    (extendCol dest k c).data =
      c.data ++ flat (List.replicate k (defaultRow dest c.name)) := by
  have hu := rowsOf_uniform _ (hd.len c hc).1 dest.n c.data (hd.len c hc).2
  show flat (resizeRows _ _ _) = _
  rw [resizeRows_grow _ _ _ k (by rw [hu.1]), flat_append, flat_rowsOf _ (hd.len c hc).1]

/-- rows of one destination column after the extension and the copy -/
theorem extract_rows {pa dest : PA} (h : Inv pa) (hd : Inv dest) (names : List String)
    (idx : List Nat)
    (hss : ∀ nm ∈ names, pa.strideOf nm = dest.strideOf nm)
    (hin : ∀ i ∈ idx, i < pa.n) (c : Col) (hc : c ∈ dest.props) :
    rowsOf (dest.strideOf c.name)
        (extractCol pa names idx dest.n (extendCol dest idx.length c)).data =
      rowsOf (dest.strideOf c.name) c.data ++ extractRows pa dest names idx c ∧
    (extractRows pa dest names idx c).length = idx.length := by
  have hs := (hd.len c hc).1
  have hu := rowsOf_uniform _ hs dest.n c.data (hd.len c hc).2
  have hdef : ∀ r ∈ List.replicate idx.length (defaultRow dest c.name),
      r.length = dest.strideOf c.name := by
    intro r hr; rw [(List.mem_replicate.mp hr).2]; simp [defaultRow]
  have hplain : rowsOf (dest.strideOf c.name) (extendCol dest idx.length c).data =
      rowsOf (dest.strideOf c.name) c.data ++
        List.replicate idx.length (defaultRow dest c.name) := by
    rw [extendCol_data hd _ c hc]
    have : c.data ++ flat (List.replicate idx.length (defaultRow dest c.name)) =
        flat (rowsOf (dest.strideOf c.name) c.data ++
          List.replicate idx.length (defaultRow dest c.name)) := by
      rw [flat_append, flat_rowsOf _ hs]
    rw [this]
    apply rowsOf_flat _ hs
    intro r hr
    rcases List.mem_append.mp hr with h1 | h1
    · exact hu.2 r h1
    · exact hdef r h1
  unfold extractCol extractRows
  have hen : (extendCol dest idx.length c).name = c.name := rfl
  rw [hen]
  split
  · rename_i hcont
    have hcn : c.name ∈ names := by simpa using hcont
    split
    · rename_i sc hsc
      obtain ⟨hscm, hscn⟩ := col?_some pa _ sc hsc
      have hst : pa.strideOf c.name = dest.strideOf c.name := hss _ hcn
      have hus := rowsOf_uniform _ (h.len sc hscm).1 pa.n sc.data (h.len sc hscm).2
      rw [hscn] at hus
      rw [hst] at hus ⊢
      have hgl : (gather idx (rowsOf (dest.strideOf c.name) sc.data)).length = idx.length :=
        gather_length idx _ (by rw [hus.1]; exact hin)
      have hgu : ∀ r ∈ gather idx (rowsOf (dest.strideOf c.name) sc.data),
          r.length = dest.strideOf c.name := fun r hr => hus.2 r (gather_subset idx _ r hr)
      refine ⟨?_, hgl⟩
      show rowsOf _ ((extendCol dest idx.length c).data.take _ ++ _ ++
        (extendCol dest idx.length c).data.drop _) = _
      rw [extendCol_data hd _ c hc]
      have hpl : (flat (gather idx (rowsOf (dest.strideOf c.name) sc.data))).length =
          idx.length * dest.strideOf c.name := by
        rw [flat_length _ _ hgu, hgl]
      have hrl : (flat (List.replicate idx.length (defaultRow dest c.name))).length =
          idx.length * dest.strideOf c.name := by
        rw [flat_length _ _ hdef]; simp
      have hcl : c.data.length = dest.strideOf c.name * dest.n := by
        rw [(hd.len c hc).2, Nat.mul_comm]
      rw [List.take_append_of_le_length (by omega), List.take_of_length_le (by omega),
        List.drop_of_length_le (by rw [List.length_append, hpl, hrl, hcl]),
        List.append_nil]
      have : c.data ++ flat (gather idx (rowsOf (dest.strideOf c.name) sc.data)) =
          flat (rowsOf (dest.strideOf c.name) c.data ++
            gather idx (rowsOf (dest.strideOf c.name) sc.data)) := by
        rw [flat_append, flat_rowsOf _ hs]
      rw [this]
      apply rowsOf_flat _ hs
      intro r hr
      rcases List.mem_append.mp hr with h1 | h1
      · exact hu.2 r h1
      · exact hgu r h1
    · exact ⟨hplain, by simp⟩
  · exact ⟨hplain, by simp⟩

/-- `extract_particles(idx, dest, align=False, props)` at the record level: the
destination keeps its records and gets one new record per index, in order,
carrying the listed fields of the source record and the destination's defaults
elsewhere -/
theorem extractInto_particles {pa dest dest' : PA} (h : Inv pa) (hd : Inv dest) (idx : List Nat)
    (props : Option (List String))
    (hss : ∀ nm ∈ cloneNames pa props, pa.strideOf nm = dest.strideOf nm)
    (hin : ∀ i ∈ idx, i < pa.n)
    (hr : pa.extractInto idx dest false props = some dest') :
    dest'.n = dest.n + idx.length ∧
    particles dest' = particles dest ++
      idx.map (fun i => copyFields (cloneNames pa props) (particleAt pa i) (defaultParticle dest)) := by
  have hinv' := inv_extractInto h hd idx false props hss hr
  unfold PA.extractInto at hr
  extract_lets names start d1 d2 at hr
  split at hr
  · rename_i h0
    simp only [Option.some.injEq] at hr; subst hr
    have : idx = [] := List.length_eq_zero_iff.mp (by simpa using h0)
    subst this
    simp
  rename_i hne
  have hk : idx.length ≠ 0 := by simpa using hne
  split at hr
  · exact absurd hr (by simp)
  rename_i hall
  simp only [Bool.false_eq_true, if_false, Option.some.injEq] at hr
  subst hr
  have hnames : names = cloneNames pa props := rfl
  have hall' : ∀ nm ∈ names, pa.hasProp nm = true ∧ dest.hasProp nm = true := by
    intro nm hnm
    have h1 : (names.all fun nm => pa.hasProp nm && dest.hasProp nm) = true := by simpa using hall
    have h2 := List.all_eq_true.mp h1 nm hnm
    simpa using h2
  -- the property list of the result
  have hprops : d2.props = dest.props.map
      (fun c => extractCol pa names idx dest.n (extendCol dest idx.length c)) := by
    show (d1.props.map _) = _
    show ((dest.extend idx.length).props.map _) = _
    rw [extend_props dest _ hk, List.map_map]
    apply List.map_congr_left
    intro c _
    rfl
  have hstr : ∀ nm, d2.strideOf nm = dest.strideOf nm := by
    intro nm
    show lookupD (dest.extend idx.length).stride nm 1 = _
    rw [extend_stride]; rfl
  -- the particle count, from the tag column
  have hn : d2.n = dest.n + idx.length := by
    obtain ⟨t, rest, hp, ht, _, _, _⟩ := n_of_tagFirst dest hd.tagFirst
    have htm : t ∈ dest.props := by rw [hp]; simp
    have hc' : extractCol pa names idx dest.n (extendCol dest idx.length t) ∈ d2.props := by
      rw [hprops]; exact List.mem_map_of_mem htm
    have := n_eq_rows hinv' _ hc'
    rw [extractCol_name, hstr] at this
    have hrows := extract_rows h hd names idx hss hin t htm
    rw [show (extendCol dest idx.length t).name = t.name from rfl, hrows.1, List.length_append,
      hrows.2, n_eq_rows hd t htm] at this
    exact this.symm
  refine ⟨hn, ?_⟩
  rw [particles_props_map d2 dest.props _ hprops, hn]
  have e1 : ∀ c ∈ dest.props,
      ((extractCol pa names idx dest.n (extendCol dest idx.length c)).name,
        rowsOf (d2.strideOf (extractCol pa names idx dest.n (extendCol dest idx.length c)).name)
          (extractCol pa names idx dest.n (extendCol dest idx.length c)).data) =
      (c.name, rowsOf (dest.strideOf c.name) c.data ++ extractRows pa dest names idx c) := by
    intro c hc
    rw [extractCol_name, hstr]
    show (c.name, rowsOf (dest.strideOf c.name) _) = _
    rw [(extract_rows h hd names idx hss hin c hc).1]
  rw [transposeCols_congr _ _ _ _ e1,
    transposeCols_append dest.props Col.name _ _ dest.n idx.length (fun c hc => n_eq_rows hd c hc)]
  congr 1
  · rw [particles_props_map dest dest.props id (by simp)]
    rfl
  · -- the new records
    have e2 : ∀ c ∈ dest.props, (c.name, extractRows pa dest names idx c) =
        (c.name, idx.map (fun i =>
          if names.contains c.name then lookupD (particleAt pa i) c.name []
          else defaultRow dest c.name)) := by
      intro c _
      congr 1
      unfold extractRows
      split
      · rename_i hcont
        have hcn : c.name ∈ names := by simpa using hcont
        obtain ⟨sc, hsc⟩ := col?_isSome_of_mem pa c.name
          ((hasProp_iff pa c.name).mp (hall' _ hcn).1)
        rw [hsc]
        obtain ⟨hscm, hscn⟩ := col?_some pa _ sc hsc
        have hus := rowsOf_uniform _ (h.len sc hscm).1 pa.n sc.data (h.len sc hscm).2
        rw [hscn] at hus
        show gather idx _ = _
        rw [gather_eq_map idx _ [] (by rw [hus.1]; exact hin)]
        apply List.map_congr_left
        intro i _
        rw [field_particleAt pa i c.name sc hsc]
      · rename_i hcont
        symm
        rw [List.eq_replicate_iff]
        refine ⟨by simp, ?_⟩
        intro r hr
        obtain ⟨i, _, rfl⟩ := List.mem_map.mp hr
        rfl
    rw [transposeCols_congr _ _ _ _ e2, transposeCols_of_map]
    apply List.map_congr_left
    intro i _
    unfold copyFields defaultParticle
    rw [List.map_map]
    apply List.map_congr_left
    intro c _
    simp only [Function.comp]
    show (c.name, if names.contains c.name = true then _ else _) =
      (if names.contains c.name = true then (c.name, lookupD (particleAt pa i) c.name [])
      else (c.name, defaultRow dest c.name))
    split <;> rfl

end PysphVerif.PArray
