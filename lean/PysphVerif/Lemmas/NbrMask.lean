import Mathlib.Algebra.Order.Floor.Ring
import Mathlib.Algebra.Order.Field.Basic
import Mathlib.Tactic.Linarith
import Mathlib.Tactic.Ring
import Mathlib.Tactic.FieldSimp
import Mathlib.Data.Rat.Floor
import Mathlib.Tactic.NormNum
/-!
C09 — the geometry under "the neighbour relation is symmetric" for the
cell-mask searches whose mask width is an option-dependent expression
(`StratifiedHashNNPS`: cells of size `hmax_level / H`, mask half-width
`ceil(h_max * H / hmax_level)`; `stratified_hash_nnps.pyx`,
`find_nearest_neighbors`).

A pair that meets the (symmetric) criterion `xij2 < hi2 or xij2 < hj2` is in
the list of BOTH partners only if each partner's mask reaches the other's cell
on the grid of the other's level.  `cell_mask_covers` is the one-axis fact,
`strat_mask_covers` instantiates it with the expressions of the source, and
`strat_mask_without_H_misses` shows that dropping the option `H` from the
width loses a pair in one direction.
-/
namespace PysphVerif.NbrMask

variable {K : Type} [Field K] [LinearOrder K] [IsStrictOrderedRing K] [FloorRing K]

/-- `find_cell_id_raw` along one axis: `floor(x / cell_size)` (`x` relative to `xmin`) -/
def cellId (x c : K) : ℤ := ⌊x / c⌋

/-- two points at most `r` apart along an axis lie at most `ceil(r / c)` cells
apart on a grid of cell size `c` -/
theorem cell_mask_covers (c r x y : K) (hc : 0 < c) (hxy : |x - y| ≤ r) :
    |cellId x c - cellId y c| ≤ ⌈r / c⌉ := by
  have hle := abs_le.mp hxy
  have hr : r / c ≤ (⌈r / c⌉ : K) := Int.le_ceil _
  have key : ∀ u v : K, u - v ≤ r → ⌊u / c⌋ ≤ ⌊v / c⌋ + ⌈r / c⌉ := by
    intro u v huv
    have h1 : u / c ≤ v / c + (⌈r / c⌉ : K) := by
      have : u / c - v / c ≤ r / c := by
        rw [← sub_div]; exact div_le_div_of_nonneg_right huv hc.le
      linarith
    calc ⌊u / c⌋ ≤ ⌊v / c + (⌈r / c⌉ : K)⌋ := Int.floor_mono h1
      _ = ⌊v / c⌋ + ⌈r / c⌉ := Int.floor_add_intCast _ _
  have k1 := key x y (by linarith [hle.2])
  have k2 := key y x (by linarith [hle.1])
  unfold cellId
  rw [abs_le]
  constructor <;> linarith

/-- mask half-width of `StratifiedHashNNPS.find_nearest_neighbors` on a level:
`h_max = fmax(radius_scale*h, hmax_level); H = ceil(h_max*self.H / hmax_level)` -/
def stratMaskWidth (rq hl : K) (Hopt : ℕ) : ℤ := ⌈max rq hl * (Hopt : K) / hl⌉

/-- the width without the option (what `ceil(h_max / hmax_level)` would be) -/
def stratMaskWidthNoH (rq hl : K) : ℤ := ⌈max rq hl / hl⌉

/-- A query particle with cut-off `rq = radius_scale*h_q` reaches, on the grid
of a level with `hmax_level = hl` and cells of size `hl / H`, the cell of every
particle `j` of that level (`rj = radius_scale*h_j ≤ hl`) that meets the
neighbour criterion along this axis (`|x_q - x_j| < max rq rj`). -/
theorem strat_mask_covers (xq xj rq rj hl : K) (Hopt : ℕ) (hH : 0 < Hopt) (hhl : 0 < hl)
    (hrj : rj ≤ hl) (hcrit : |xq - xj| < max rq rj) :
    |cellId xj (hl / Hopt) - cellId xq (hl / Hopt)| ≤ stratMaskWidth rq hl Hopt := by
  have hHK : (0 : K) < (Hopt : K) := by exact_mod_cast hH
  have hc : 0 < hl / (Hopt : K) := div_pos hhl hHK
  have hR : |xj - xq| ≤ max rq hl := by
    rw [abs_sub_comm]
    exact le_trans hcrit.le (max_le_max (le_refl _) hrj)
  have := cell_mask_covers (hl / (Hopt : K)) (max rq hl) xj xq hc hR
  have e : max rq hl / (hl / (Hopt : K)) = max rq hl * (Hopt : K) / hl := by
    field_simp
  rw [e] at this
  exact this

/-- Dropping the option from the width loses neighbours in one direction:
level with `hmax_level = 3`, `H = 3` (cells of size 1); the query at `x = 0`
with cut-off 3 and a level particle at `x = 5/2` (cut-off 3) meet the
criterion, the particle sits 2 cells away, the width without `H` is 1. -/
theorem strat_mask_without_H_misses :
    |(0 : ℚ) - 5 / 2| < max 3 3 ∧
    ¬ (|cellId (5 / 2 : ℚ) (3 / (3 : ℕ)) - cellId (0 : ℚ) (3 / (3 : ℕ))| ≤ stratMaskWidthNoH (3 : ℚ) 3) ∧
    |cellId (5 / 2 : ℚ) (3 / (3 : ℕ)) - cellId (0 : ℚ) (3 / (3 : ℕ))| ≤ stratMaskWidth (3 : ℚ) 3 3 := by
  have f1 : cellId (5 / 2 : ℚ) (3 / (3 : ℕ)) = 2 := by
    unfold cellId; rw [Int.floor_eq_iff]; norm_num
  have f2 : cellId (0 : ℚ) (3 / (3 : ℕ)) = 0 := by
    unfold cellId; rw [Int.floor_eq_iff]; norm_num
  have f3 : stratMaskWidthNoH (3 : ℚ) 3 = 1 := by
    unfold stratMaskWidthNoH; rw [Int.ceil_eq_iff]; norm_num
  have f4 : stratMaskWidth (3 : ℚ) 3 3 = 3 := by
    unfold stratMaskWidth; rw [Int.ceil_eq_iff]; norm_num
  rw [f1, f2, f3, f4]
  refine ⟨by norm_num [abs_lt], by norm_num, by norm_num⟩

end PysphVerif.NbrMask
