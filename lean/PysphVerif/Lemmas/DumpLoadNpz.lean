import PysphVerif.Lemmas.DumpLoad
/-!
Helper lemmas for C11, npz reader: `arrays` → `properties[...]['data']`, the
len-1 broadcast of `_initialize` never fires on a dump, `align_particles`
moves nothing, constants.
-/
set_option linter.unusedSectionVars false
namespace PysphVerif.DumpLoad

variable {V : Type} [PVal V] [DecidableEq V]

theorem dictSet_keys_nodup {β : Type} (d : List (String × β)) (k : String) (v : β)
    (h : (d.map (·.1)).Nodup) : ((dictSet d k v).map (·.1)).Nodup := by
  rw [keys_dictSet]
  split
  · exact h
  · rename_i hk
    rw [List.nodup_append]
    refine ⟨h, by simp, ?_⟩
    intro a ha b hb
    simp only [List.mem_singleton] at hb
    subst hb
    intro e
    subst e
    obtain ⟨x, hx, hxa⟩ := List.mem_map.1 ha
    exact hk ⟨x, hx, hxa⟩

theorem gpa_keys_nodup (pa : PArr V) (num : Nat) (names : List String) :
    ∀ (acc arrs : List (String × List V)), (acc.map (·.1)).Nodup →
    names.foldlM (gpaStep pa num) acc = some arrs → (arrs.map (·.1)).Nodup := by
  induction names with
  | nil => intro acc arrs h e; simp at e; subst e; exact h
  | cons m ms ih =>
    intro acc arrs h e
    simp only [List.foldlM_cons, Option.bind_eq_bind, Option.bind_eq_some_iff] at e
    obtain ⟨acc1, h1, h2⟩ := e
    refine ih acc1 arrs ?_ h2
    unfold gpaStep at h1
    split at h1
    · cases h1
    · simp only [Option.some.injEq] at h1
      subst h1
      exact dictSet_keys_nodup _ _ _ h

/-- `properties[prop]['data'] = data` for every stored array -/
def withData (arrs : List (String × List V)) (q : String × PInfo V) : String × PInfo V :=
  (q.1, { q.2 with data := match dictGet? arrs q.1 with
    | some d => some d
    | none => q.2.data })

theorem putData_fold (arrs : List (String × List V)) :
    ∀ (props : List (String × PInfo V)),
    (∀ e ∈ arrs, ∃ q ∈ props, q.1 = e.1) → (arrs.map (·.1)).Nodup →
    arrs.foldlM putDataStep props = .ok (props.map (withData arrs)) := by
  induction arrs with
  | nil =>
    intro props _ _
    simp only [List.foldlM_nil, pure, Except.pure]
    congr 1
    rw [List.map_congr_left (g := id)]
    · simp
    · intro q _; simp [withData, dictGet?]
  | cons e es ih =>
    intro props hsub hnd
    simp only [List.map_cons, List.nodup_cons] at hnd
    have hany : props.any (fun q => q.1 == e.1) = true := by
      simpa using hsub e (by simp)
    have hstep : putDataStep props e = .ok (props.map
        (fun q => if q.1 == e.1 then (q.1, { q.2 with data := some e.2 }) else q)) := by
      simp [putDataStep, hany]
    simp only [List.foldlM_cons, hstep, bind, Except.bind]
    rw [ih _ ?_ hnd.2]
    · congr 1
      rw [List.map_map]
      apply List.map_congr_left
      intro q _
      by_cases hq : q.1 = e.1
      · have hnone : dictGet? es q.1 = none := by
          apply dictGet?_none_of_not_mem
          rintro ⟨x, hx, hxe⟩
          exact hnd.1 (List.mem_map.2 ⟨x, hx, hxe.trans hq⟩)
        have hsome : dictGet? (e :: es) q.1 = some e.2 := by
          simp [dictGet?, List.find?_cons, hq]
        rw [hq] at hnone hsome
        simp [withData, hq, hnone, hsome]
      · have hne : (q.1 == e.1) = false := by simpa using hq
        have hne' : (e.1 == q.1) = false := by simpa using fun h => hq h.symm
        have hsame : dictGet? (e :: es) q.1 = dictGet? es q.1 := by
          simp [dictGet?, List.find?_cons, hne']
        simp only [withData, Function.comp, hne, Bool.false_eq_true, if_false, hsame]
    · intro x hx
      obtain ⟨q, hq, hqe⟩ := hsub x (by simp [hx])
      refine ⟨_, List.mem_map.2 ⟨q, hq, rfl⟩, ?_⟩
      by_cases h : q.1 = e.1
      · simp [h]; exact h ▸ hqe
      · have h' : (q.1 == e.1) = false := by simpa using h
        simp only [h', Bool.false_eq_true, if_false]; exact hqe

theorem nv_le (num : Nat) (props : List (String × PInfo V))
    (h : ∀ e ∈ props, ∀ d, e.2.data = some d → d.length / e.2.stride ≤ num) :
    ∀ acc, acc ≤ num → props.foldl nvStep acc ≤ num := by
  induction props with
  | nil => intro acc ha; exact ha
  | cons e es ih =>
    intro acc ha
    simp only [List.foldl_cons]
    apply ih (fun x hx => h x (by simp [hx]))
    unfold nvStep
    cases hd : e.2.data with
    | none => exact ha
    | some d => exact Nat.max_le.2 ⟨ha, h e (by simp) d hd⟩

theorem bcast_id (nv num stride : Nat) (d : List V) (hnv : nv ≤ num)
    (hl : d.length = num * stride) : bcast nv d = d := by
  unfold bcast
  split
  · rename_i x
    simp only [List.length_singleton] at hl
    have hnum : num = 1 := by
      have := Nat.eq_one_of_mul_eq_one_right hl.symm
      exact this
    have : ¬ nv > 1 := by omega
    rw [if_neg this]
  · rfl

theorem map_eq_replicate {α β : Type} (f : α → β) (b : β) (l : List α) (h : ∀ x ∈ l, f x = b) :
    l.map f = List.replicate l.length b := by
  induction l with
  | nil => rfl
  | cons x xs ih =>
    simp only [List.map_cons, List.length_cons, List.replicate_succ]
    rw [h x (by simp), ih (fun y hy => h y (by simp [hy]))]

theorem initStep_fold (nv : Nat) (arrs : List (String × List V)) (ps : List (PropRec V))
    (hb : ∀ p ∈ ps, ∀ d, dictGet? arrs p.name = some d → bcast nv d = d) :
    ∀ pa0 : PArr V, ((ps.map propInfo).map (withData arrs)).foldlM (initStep nv) pa0 =
      addAll pa0 (ps.map (reqOf arrs)) := by
  induction ps with
  | nil => intro pa0; rfl
  | cons p ps ih =>
    intro pa0
    have hstep : initStep nv pa0 (withData arrs (propInfo p)) = addReq pa0 (reqOf arrs p) := by
      simp only [initStep, withData, propInfo, addReq, reqOf]
      cases hd : dictGet? arrs p.name with
      | none => rfl
      | some d => simp [hb p (by simp) d hd]
    simp only [List.map_cons, List.foldlM_cons, addAll, hstep]
    cases addReq pa0 (reqOf arrs p) with
    | error m => rfl
    | ok pa1 =>
      simp only [bind, Except.bind]
      exact ih (fun q hq => hb q (by simp [hq])) pa1

/-- the tag data a reader ends up with is real-particles-first -/
theorem tag_aligned (pa : PArr V) (hwf : WF pa) (all real : Bool)
    (arrs : List (String × List V))
    (harrs : ∀ n, dictGet? arrs n =
        if n ∈ storedNames pa all then sliceOf pa (numParticles pa real) n else none)
    (rs : List (AddReq V)) (hperm : rs.Perm (pa.props.map (reqOf arrs)))
    (td : List V)
    (h : (∃ k x, td = List.replicate k x) ∨ (∃ r ∈ rs, r.name = "tag" ∧ r.data = some td)) :
    ∃ k rest, td.map (fun x => x == (PVal.zero : V)) = List.replicate k true ++ rest ∧
      ∀ b ∈ rest, b = false := by
  rcases h with ⟨k, x, e⟩ | ⟨r, hr, hrn, hrd⟩
  · subst e
    by_cases hx : (x == (PVal.zero : V)) = true
    · exact ⟨k, [], by simp [hx], by simp⟩
    · refine ⟨0, List.replicate k false, ?_, ?_⟩
      · have : (x == (PVal.zero : V)) = false := by simpa using hx
        simp [this]
      · intro b hb; exact (List.mem_replicate.1 hb).2
  · obtain ⟨p, hp, e⟩ := List.mem_map.1 (hperm.mem_iff.1 hr)
    subst e
    simp only [reqOf] at hrn hrd
    rw [harrs p.name] at hrd
    split at hrd
    · simp only [sliceOf, findProp_of_mem pa.props p.name hwf.nodup p hp rfl, Option.map_some,
        Option.some.injEq] at hrd
      subst hrd
      obtain ⟨hA, hB⟩ := hwf.aligned p hp hrn
      have hsplit : p.data = p.data.take pa.nReal ++ p.data.drop pa.nReal :=
        (List.take_append_drop _ _).symm
      generalize hn : numParticles pa real * p.stride = n
      generalize hAe : p.data.take pa.nReal = A at hA hsplit
      generalize hBe : p.data.drop pa.nReal = B at hB hsplit
      rw [hsplit, List.take_append, List.map_append]
      refine ⟨(A.take n).length, (B.take (n - A.length)).map (fun x => x == (PVal.zero : V)),
        ?_, ?_⟩
      · rw [map_eq_replicate (fun x => x == (PVal.zero : V)) true]
        intro x hx
        have := hA x (List.mem_of_mem_take hx)
        simp [this]
      · intro b hb
        obtain ⟨x, hx, e⟩ := List.mem_map.1 hb
        have := hB x (List.mem_of_mem_take hx)
        rw [← e]; simpa using this
    · cases hrd

/-- the arrays entry `NumpyOutput._dump` writes for one array -/
def npzArrOf (pa : PArr V) (arrs : List (String × List V)) : NpzArr V :=
  { info := arrayInfo pa, arrays := some arrs }

/-- npz (version 2): reading back the entry written for a well-formed array -/
theorem loadNpz_spec (pa : PArr V) (hwf : WF pa) (o : Opts) :
    ∃ arrs q, getPropertyArrays pa o.detailed o.onlyReal = some arrs ∧
      loadNpzArr pa.name (npzArrOf pa arrs) = .ok q ∧ RoundTrip o pa q ∧
      q.consts = pa.consts ∧
      (∀ t ∈ q.props, t.name = "tag" → q.nReal = countLocal t.data) := by
  obtain ⟨arrs, hg, harrs⟩ := gpa_spec pa o.detailed o.onlyReal (storedNames_sub pa hwf _)
  have hknd : (arrs.map (·.1)).Nodup :=
    gpa_keys_nodup pa _ _ [] arrs (by simp) hg
  have hsubk : ∀ e ∈ arrs, ∃ q ∈ pa.props.map propInfo, q.1 = e.1 := by
    intro e he
    have hs : (dictGet? arrs e.1).isSome = true := (mem_keys_iff_dictGet? arrs e.1).1 ⟨e, he, rfl⟩
    rw [harrs e.1] at hs
    split at hs
    · rename_i hst
      obtain ⟨p, hp, hpn⟩ := storedNames_sub pa hwf _ e.1 hst
      exact ⟨propInfo p, List.mem_map.2 ⟨p, hp, rfl⟩, hpn⟩
    · simp at hs
  have hput := putData_fold arrs (pa.props.map propInfo) hsubk hknd
  have hlen : ∀ p ∈ pa.props, ∀ d, dictGet? arrs p.name = some d →
      d.length = numParticles pa o.onlyReal * p.stride := fun p hp d hd =>
    (reqOK_of_wf pa hwf o.detailed o.onlyReal arrs harrs p hp).len d hd
  have hnv : ((pa.props.map propInfo).map (withData arrs)).foldl nvStep 0 ≤
      numParticles pa o.onlyReal := by
    apply nv_le _ _ _ 0 (Nat.zero_le _)
    intro e he d hd
    obtain ⟨q, hq, e1⟩ := List.mem_map.1 he
    obtain ⟨p, hp, e2⟩ := List.mem_map.1 hq
    subst e2; subst e1
    simp only [withData, propInfo] at hd ⊢
    have hd' : dictGet? arrs p.name = some d := by
      cases h : dictGet? arrs p.name with
      | none => rw [h] at hd; cases hd
      | some d' => rw [h] at hd; exact hd
    rw [hlen p hp d hd', Nat.mul_div_cancel _ (by have := hwf.stridePos p hp; omega)]
    exact Nat.le_refl _
  have hb : ∀ p ∈ pa.props, ∀ d, dictGet? arrs p.name = some d →
      bcast (((pa.props.map propInfo).map (withData arrs)).foldl nvStep 0) d = d :=
    fun p hp d hd => bcast_id _ _ p.stride d hnv (hlen p hp d hd)
  have hfold := initStep_fold _ arrs pa.props hb (emptyArr pa.name)
  obtain ⟨pa', nP', h1, hn, hc, ho, hinv, hmeta, hno⟩ :=
    rebuild pa hwf o.detailed o.onlyReal arrs harrs _ (List.Perm.refl _)
      (emptyArr pa.name : PArr V) (sinv_clear _)
  -- align_particles
  obtain ⟨t, ht, htn⟩ := hinv.hasBase "tag" (Or.inl rfl)
  have hft := findProp_of_mem pa'.props "tag" hinv.nodup t ht htn
  have hnp := numParticles_of_inv pa' hinv
  have htl : t.data.length = nP' := by
    have h2 := hinv.coh t ht
    rw [(hinv.baseMeta t ht (by rw [htn]; exact Or.inl rfl)).1] at h2
    simpa using h2
  obtain ⟨k, rest, hk, hrest⟩ := tag_aligned pa hwf _ _ arrs harrs _ (List.Perm.refl _) t.data
    (hinv.tagc t ht htn)
  have hal := alignIndex_aligned k rest hrest
  have halign : alignParticles pa' = .ok { pa' with nReal := k } := by
    simp only [alignParticles, hft, hnp]
    rw [← htl, List.take_length, hk, hal.1, hal.2]
    simp
  have hcount : countLocal t.data = k := by
    unfold countLocal
    rw [← List.countP_eq_length_filter]
    have h3 : (t.data.map (fun x => x == (PVal.zero : V))).countP id = k := by
      rw [hk, List.countP_append, List.countP_replicate]
      have : rest.countP id = 0 := by
        rw [List.countP_eq_zero]
        intro b hb; rw [hrest b hb]; simp
      simp [this]
    rw [List.countP_map] at h3
    exact h3
  have hout : ∀ n ∈ pa.outArrs, ∃ p ∈ pa'.props, p.name = n := by
    intro n hn'
    obtain ⟨p, hp, e⟩ := hwf.outSub n hn'
    obtain ⟨p', hp', e', _⟩ := hmeta p hp
    exact ⟨p', hp', e'.trans e⟩
  have hlen0 : (((pa.props.map propInfo).map (withData arrs)).length == 0) = false := by
    obtain ⟨p, hp, _⟩ := hwf.hasBase "tag" (Or.inl rfl)
    cases hpp : pa.props with
    | nil => rw [hpp] at hp; cases hp
    | cons a as => simp
  have hconsts : pa.consts.foldlM addConstant ({ pa' with nReal := k } : PArr V) =
      .ok { pa' with nReal := k, consts := pa.consts } := by
    rw [addConstants_ok]
    · simp [hc, emptyArr]
    · simpa [hc, emptyArr] using hwf.constsNodup
    · intro c hcm ⟨p', hp', e⟩
      obtain ⟨p, hp, e2⟩ := hno p' hp'
      exact hwf.constsDisj c hcm ⟨p, hp, e2.trans e⟩
    · exact hwf.constsTy
  refine ⟨arrs, { pa' with nReal := k, consts := pa.consts, outArrs := pa.outArrs }, hg, ?_, ?_,
    rfl, ?_⟩
  · simp only [loadNpzArr, npzArrOf, arrayInfo, hput, bind, Except.bind, mkParticleArray,
      initializeArr, hlen0, Bool.false_eq_true, if_false]
    rw [hfold, h1]
    simp only [halign, hconsts]
    exact setOutputArrays_ok _ pa.outArrs hout
  · exact { name := hn, outArrs := rfl, consts := List.Perm.refl _, nodup := hinv.nodup,
            same := hmeta, noExtra := hno, coh := ⟨nP', hinv.np, hinv.coh⟩ }
  · intro t' ht' ht'n
    have : t' = t := by
      have h5 := findProp_of_mem pa'.props "tag" hinv.nodup t' ht' ht'n
      rw [hft] at h5
      exact (Option.some.inj h5).symm
    rw [this, hcount]

end PysphVerif.DumpLoad
