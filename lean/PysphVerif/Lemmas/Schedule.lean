import PysphVerif.Model.Schedule
/-!
Helper lemmas for C03 (`Model/Schedule.lean`): `forEach` algebra, order of first appearance,
the characterisation of `MegaGroup._make_data`, removal of the template's `has_*` guards, and
the iteration loop.  Core Lean only.
-/
namespace PysphVerif.Schedule

section forEach
variable {α β : Type}

@[simp] theorem forEach_nil (f : α → Hist → Hist) (h : Hist) : forEach [] f h = h := rfl
@[simp] theorem forEach_cons (a : α) (l : List α) (f : α → Hist → Hist) (h : Hist) :
    forEach (a :: l) f h = forEach l f (f a h) := rfl

theorem forEach_append (l1 l2 : List α) (f : α → Hist → Hist) (h : Hist) :
    forEach (l1 ++ l2) f h = forEach l2 f (forEach l1 f h) := by
  induction l1 generalizing h with
  | nil => rfl
  | cons a l ih => simp [ih]

theorem forEach_congr {l : List α} {f g : α → Hist → Hist}
    (hfg : ∀ a ∈ l, ∀ h, f a h = g a h) (h : Hist) : forEach l f h = forEach l g h := by
  induction l generalizing h with
  | nil => rfl
  | cons a l ih =>
    simp only [forEach_cons]
    rw [hfg a (by simp), ih (fun b hb => hfg b (by simp [hb]))]

theorem forEach_id {l : List α} {f : α → Hist → Hist}
    (hf : ∀ a ∈ l, ∀ h, f a h = h) (h : Hist) : forEach l f h = h := by
  induction l generalizing h with
  | nil => rfl
  | cons a l ih =>
    simp only [forEach_cons]
    rw [hf a (by simp), ih (fun b hb => hf b (by simp [hb]))]

theorem forEach_map (g : β → α) (l : List β) (f : α → Hist → Hist) (h : Hist) :
    forEach (l.map g) f h = forEach l (fun b => f (g b)) h := by
  induction l generalizing h with
  | nil => rfl
  | cons a l ih => simp [ih]

theorem forEach_filter (p : α → Bool) (l : List α) (f : α → Hist → Hist) (h : Hist) :
    forEach (l.filter p) f h = forEach l (fun a h => if p a then f a h else h) h := by
  induction l generalizing h with
  | nil => rfl
  | cons a l ih =>
    by_cases hp : p a <;> simp [hp, ih]

end forEach

theorem callAll_eq_specCalls (g : List Equation) (k : Hook) (mk : Equation → Event) (h : Hist) :
    callAll g k mk h = specCalls g k mk h := by
  unfold callAll specCalls
  rw [forEach_filter]
  rfl

theorem specCalls_of_not_hasCode {g : List Equation} {k : Hook} (hk : hasCode g k = false)
    (mk : Equation → Event) (h : Hist) : specCalls g k mk h = h := by
  unfold specCalls
  have : g.filter (·.has k) = [] := by
    simp only [hasCode, List.any_eq_false] at hk
    simp only [List.filter_eq_nil_iff]
    exact fun a ha => by simpa using hk a ha
  rw [this]; rfl


/-- the accumulating "append if new" loop, on keys -/
def faStep (acc : List Nat) (x : Nat) : List Nat := if acc.contains x then acc else acc ++ [x]
def faFold (acc : List Nat) (l : List Nat) : List Nat := l.foldl faStep acc

theorem mem_firstAppearance {x : Nat} {l : List Nat} : x ∈ firstAppearance l ↔ x ∈ l := by
  induction l with
  | nil => simp [firstAppearance]
  | cons y ys ih =>
    simp only [firstAppearance, List.mem_cons, List.mem_filter, ih]
    by_cases hxy : x = y <;> simp [hxy]

theorem faFold_eq (acc l : List Nat) :
    faFold acc l = acc ++ (firstAppearance l).filter (fun x => !acc.contains x) := by
  induction l generalizing acc with
  | nil => simp [faFold, firstAppearance]
  | cons x xs ih =>
    have ih' := ih
    unfold faFold at ih' ⊢
    simp only [List.foldl_cons, firstAppearance]
    by_cases hx : acc.contains x
    · have hx' : x ∈ acc := by simpa using hx
      simp only [faStep, hx, if_true, ih', List.filter_cons, Bool.not_true]
      simp only [Bool.false_eq_true, if_false, List.filter_filter]
      congr 1
      apply List.filter_congr
      intro y _
      by_cases hy : y ∈ acc
      · simp [hy]
      · have : y ≠ x := fun h => hy (h ▸ hx')
        simp [hy, this]
    · have hx' : x ∉ acc := by simpa using hx
      simp only [faStep, hx, ih', List.filter_cons, Bool.not_false, if_true, List.filter_filter]
      simp only [Bool.false_eq_true, if_false, List.append_assoc, List.singleton_append]
      congr 2
      apply List.filter_congr
      intro y _
      by_cases hy : y ∈ acc <;> by_cases hyx : y = x <;> simp [hy, hyx, hx']

theorem faFold_nil (l : List Nat) : faFold [] l = firstAppearance l := by
  rw [faFold_eq]; simp

theorem firstAppearance_append (a b : List Nat) :
    firstAppearance (a ++ b) = faFold (firstAppearance a) b := by
  rw [← faFold_nil, ← faFold_nil a]
  simp [faFold, List.foldl_append]

theorem firstAppearance_of_nodup {l : List Nat} (h : l.Nodup) : firstAppearance l = l := by
  induction l with
  | nil => rfl
  | cons x xs ih =>
    rw [List.nodup_cons] at h
    simp only [firstAppearance, ih h.2]
    congr 1
    rw [List.filter_eq_self]
    intro y hy
    have : y ≠ x := fun e => h.1 (e ▸ hy)
    simpa using this

theorem destList_eq (eqs : List Equation) :
    destList eqs = firstAppearance (eqs.map (·.dest)) := by
  rw [← faFold_nil]
  unfold destList faFold
  rw [List.foldl_map]
  rfl


/-- an insertion-ordered dict given by its key list and a value function -/
def dictOf (K : List Nat) (V : Nat → List Equation) : List (Nat × List Equation) :=
  K.map (fun k => (k, V k))

/-- value function after `sources[s].append(e)` -/
def updV (e : Equation) (V : Nat → List Equation) (s : Nat) : Nat → List Equation :=
  fun k => if k = s then V k ++ [e] else V k

theorem addSource_dictOf_of_not_mem (e : Equation) (K : List Nat) (V : Nat → List Equation) (s : Nat)
    (hs : s ∉ K) : addSource e (dictOf K V) s = dictOf K V ++ [(s, [e])] := by
  induction K with
  | nil => simp [dictOf, addSource]
  | cons k K ih =>
    have hks : k ≠ s := fun h => hs (by simp [h])
    have hsK : s ∉ K := fun h => hs (by simp [h])
    have := ih hsK
    simp only [dictOf, List.map_cons, addSource, hks, if_false, List.cons_append] at this ⊢
    rw [this]

theorem addSource_dictOf (e : Equation) (K : List Nat) (V : Nat → List Equation) (s : Nat)
    (hK : K.Nodup) (hV : ∀ k, k ∉ K → V k = []) :
    addSource e (dictOf K V) s = dictOf (faStep K s) (updV e V s) := by
  induction K with
  | nil =>
    simp [dictOf, addSource, faStep, updV, hV s]
  | cons k K ih =>
    rw [List.nodup_cons] at hK
    by_cases hks : k = s
    · subst hks
      simp only [dictOf, List.map_cons, addSource, if_true, faStep, List.contains_cons, beq_self_eq_true,
        Bool.true_or, updV]
      congr 1
      apply List.map_congr_left
      intro k' hk'
      have : k' ≠ k := fun h => hK.1 (h ▸ hk')
      simp [this]
    · by_cases hsK : s ∈ K
      · have hc : (k :: K).contains s = true := by simp [hsK]
        have hc' : K.contains s = true := by simp [hsK]
        simp only [faStep, hc, if_true]
        simp only [dictOf, List.map_cons, addSource, hks, if_false, updV]
        -- tail: use a version of the claim for K with V restricted
        have key : addSource e (dictOf K V) s = dictOf K (updV e V s) := by
          clear ih hV hc hks
          induction K with
          | nil => simp at hsK
          | cons k2 K2 ih2 =>
            have hK2 := hK.2
            rw [List.nodup_cons] at hK2
            by_cases h2 : k2 = s
            · subst h2
              simp only [dictOf, List.map_cons, addSource, if_true, updV]
              congr 1
              apply List.map_congr_left
              intro k' hk'
              have : k' ≠ k2 := fun h => hK2.1 (h ▸ hk')
              simp [this]
            · have hs2 : s ∈ K2 := by
                rcases List.mem_cons.mp hsK with h | h
                · exact absurd h.symm h2
                · exact h
              have hn : k ∉ K2 := fun h => hK.1 (by simp [h])
              have := ih2 ⟨hn, hK2.2⟩ hs2 (by simp [hs2])
              simp only [dictOf, List.map_cons, addSource, h2, if_false, updV] at this ⊢
              rw [this]
        simp only [dictOf, updV] at key
        rw [key]
      · have hsk : s ∉ k :: K := by simp [hsK, Ne.symm hks]
        rw [addSource_dictOf_of_not_mem e (k :: K) V s hsk]
        have hc : (k :: K).contains s = false := by
          simpa using hsk
        simp only [faStep, hc, dictOf, List.map_append, List.map_cons, List.map_nil, updV,
          if_true, hV s hsk, List.nil_append, Bool.false_eq_true, if_false]
        congr 1
        have := @List.map_congr_left _ (k :: K) _ (fun k => (k, V k))
          (fun k => (k, if k = s then V k ++ [e] else V k)) (by
            intro k' hk'
            have : k' ≠ s := fun h => hsk (h ▸ hk')
            simp [this])
        simpa using this


theorem faStep_of_mem {K : List Nat} {s : Nat} (h : s ∈ K) : faStep K s = K := by
  simp [faStep, h]
theorem faStep_of_not_mem {K : List Nat} {s : Nat} (h : s ∉ K) : faStep K s = K ++ [s] := by
  simp [faStep, h]

theorem faStep_nodup {K : List Nat} (hK : K.Nodup) (s : Nat) : (faStep K s).Nodup := by
  by_cases h : s ∈ K
  · rw [faStep_of_mem h]; exact hK
  · rw [faStep_of_not_mem h, List.nodup_append]
    refine ⟨hK, by simp, ?_⟩
    intro a ha b hb
    simp only [List.mem_singleton] at hb
    subst hb
    exact fun e => h (e ▸ ha)

theorem mem_faStep {K : List Nat} {s k : Nat} : k ∈ faStep K s ↔ k ∈ K ∨ k = s := by
  by_cases h : s ∈ K
  · rw [faStep_of_mem h]
    constructor
    · exact Or.inl
    · rintro (h1 | h1)
      · exact h1
      · exact h1 ▸ h
  · rw [faStep_of_not_mem h]; simp

theorem foldl_addSource_dictOf (e : Equation) (ss K : List Nat) (V : Nat → List Equation)
    (hss : ss.Nodup) (hK : K.Nodup) (hV : ∀ k, k ∉ K → V k = []) :
    ss.foldl (addSource e) (dictOf K V) =
      dictOf (faFold K ss) (fun k => V k ++ if ss.contains k then [e] else []) := by
  induction ss generalizing K V with
  | nil => simp [faFold, dictOf]
  | cons s ss ih =>
    rw [List.nodup_cons] at hss
    simp only [List.foldl_cons]
    rw [addSource_dictOf e K V s hK hV]
    rw [ih (faStep K s) (updV e V s) hss.2 (faStep_nodup hK s)]
    · simp only [faFold, List.foldl_cons, dictOf]
      apply List.map_congr_left
      intro k _
      simp only [updV, List.contains_cons]
      by_cases hks : k = s
      · subst hks
        simp [hss.1]
      · have : (k == s) = false := by simpa using hks
        simp [hks, this]
    · intro k hk
      rw [mem_faStep] at hk
      have h1 : k ∉ K := fun h => hk (Or.inl h)
      have h2 : k ≠ s := fun h => hk (Or.inr h)
      simp [updV, h2, hV k h1]

theorem firstAppearance_nodup (l : List Nat) : (firstAppearance l).Nodup := by
  induction l with
  | nil => simp [firstAppearance]
  | cons x xs ih =>
    simp only [firstAppearance, List.nodup_cons, List.mem_filter]
    exact ⟨by simp, ih.filter _⟩

/-- the `sources` dict in closed form -/
def srcDict (g : List Equation) : List (Nat × List Equation) :=
  dictOf (firstAppearance (g.flatMap (·.sources)))
    (fun s => g.filter (fun e => e.sources.contains s))

/-- `_make_data` for one destination in closed form: plain filters of the user's list -/
def specData (p : List Equation) (d : Nat) : DestData :=
  let g := p.filter (fun e => e.dest == d)
  ⟨g.filter (·.noSource), srcDict g, g⟩

theorem srcDict_snoc (g : List Equation) (e : Equation) (hs : e.sources.Nodup) :
    e.sources.foldl (addSource e) (srcDict g) = srcDict (g ++ [e]) := by
  unfold srcDict
  rw [foldl_addSource_dictOf e e.sources _ _ hs]
  · rw [List.flatMap_append, firstAppearance_append]
    simp only [List.flatMap_cons, List.flatMap_nil, List.append_nil, dictOf]
    apply List.map_congr_left
    intro k _
    simp only [List.filter_append, List.filter_cons, List.filter_nil]
  · exact firstAppearance_nodup _
  · intro k hk
    rw [mem_firstAppearance] at hk
    rw [List.filter_eq_nil_iff]
    intro a ha hc
    apply hk
    rw [List.mem_flatMap]
    exact ⟨a, ha, by simpa using hc⟩

theorem destDataStep_specData (p : List Equation) (d : Nat) (e : Equation)
    (hnd : e ∉ p) (hs : e.sources.Nodup) :
    destDataStep d (specData p d) e = specData (p ++ [e]) d := by
  unfold destDataStep
  by_cases hd : e.dest = d
  · have hb : (e.dest != d) = false := by simp [hd]
    have hne : e ∉ p.filter (fun e => e.dest == d) := fun h => hnd (List.mem_filter.mp h).1
    have hc : (p.filter (fun e => e.dest == d)).contains e = false := by simpa using hne
    have hf : (p ++ [e]).filter (fun e => e.dest == d) = p.filter (fun e => e.dest == d) ++ [e] := by
      simp [List.filter_append, hd]
    simp only [hb, Bool.false_eq_true, if_false]
    by_cases hns : e.noSource
    · have hsrc : e.sources = [] := by simpa [Equation.noSource] using hns
      simp only [hns, if_true, specData, hc, Bool.false_eq_true, if_false, hf]
      simp only [List.filter_append, List.filter_cons, hns, if_true, List.filter_nil]
      congr 1
      rw [← srcDict_snoc _ e hs, hsrc]
      rfl
    · simp only [hns, Bool.false_eq_true, if_false, specData, hc, hf]
      simp only [List.filter_append, List.filter_cons, hns, Bool.false_eq_true, if_false,
        List.filter_nil, List.append_nil]
      rw [srcDict_snoc _ e hs]
  · have hb : (e.dest != d) = true := by simp [hd]
    simp only [hb, if_true, specData]
    have : (p ++ [e]).filter (fun e => e.dest == d) = p.filter (fun e => e.dest == d) := by
      simp [List.filter_append, hd]
    rw [this]

theorem foldl_destDataStep (d : Nat) (l p : List Equation) (hnd : (p ++ l).Nodup)
    (hs : ∀ e ∈ l, e.sources.Nodup) :
    l.foldl (destDataStep d) (specData p d) = specData (p ++ l) d := by
  induction l generalizing p with
  | nil => simp
  | cons e l ih =>
    simp only [List.foldl_cons]
    have hnd' : (p ++ [e] ++ l).Nodup := by simpa [List.append_assoc] using hnd
    have he : e ∉ p := by
      rw [List.nodup_append] at hnd
      exact fun h => hnd.2.2 e h e (by simp) rfl
    rw [destDataStep_specData p d e he (hs e (by simp))]
    rw [ih (p ++ [e]) hnd' (fun e' h' => hs e' (by simp [h']))]
    simp [List.append_assoc]

theorem makeDest_eq (eqs : List Equation) (d : Nat) (hnd : eqs.Nodup)
    (hs : ∀ e ∈ eqs, e.sources.Nodup) : makeDest eqs d = specData eqs d := by
  have := foldl_destDataStep d eqs [] (by simpa using hnd) hs
  simpa [makeDest, specData, srcDict, dictOf, firstAppearance] using this


theorem guardedLoop_eq {rng : List Nat} {g : List Equation} {k : Hook}
    (mk : Nat → Equation → Event) (f : Nat → Hist → Hist)
    (hf : ∀ i h, f i h = callAll g k (mk i) h) (h : Hist) :
    guardedLoop (hasCode g k) rng f h =
      forEach rng (fun i => specCalls g k (mk i)) h := by
  unfold guardedLoop
  by_cases hk : hasCode g k
  · simp only [hk, if_true]
    exact forEach_congr (fun i _ h => (hf i h).trans (callAll_eq_specCalls g k (mk i) h)) h
  · have hk' : hasCode g k = false := by simpa using hk
    simp only [hk', Bool.false_eq_true, if_false]
    exact (forEach_id (fun i _ h => specCalls_of_not_hasCode hk' (mk i) h) h).symm

theorem guardedIf_eq {g : List Equation} {k : Hook} (mk : Equation → Event) (h : Hist) :
    guardedIf (hasCode g k) (callAll g k mk) h = specCalls g k mk h := by
  unfold guardedIf
  by_cases hk : hasCode g k
  · simp only [hk, if_true]; exact callAll_eq_specCalls _ _ _ _
  · have hk' : hasCode g k = false := by simpa using hk
    simp only [hk', Bool.false_eq_true, if_false]
    exact (specCalls_of_not_hasCode hk' _ _).symm

theorem srcParticle_eq (O : Oracle) (d s : Nat) (g : List Equation) (i : Nat) (h : Hist) :
    srcParticle O d s g i h = specSrcParticle O d s g i h := by
  unfold srcParticle specSrcParticle
  simp only
  rw [guardedIf_eq, guardedLoop_eq (fun j e => .loop e.id d s i j) (loopNbr d s i g) (fun _ _ => rfl)]

theorem doSource_eq (O : Oracle) (d : Nat) (rng : List Nat) (eqsD : List Equation) (s : Nat)
    (h : Hist) :
    doSource O d rng (s, eqsD.filter (fun e => e.sources.contains s)) h
      = specSource O d rng eqsD s h := by
  unfold doSource specSource
  simp only
  rw [guardedLoop_eq (fun i e => .initPair e.id d s i) (initPairParticle d s _) (fun _ _ => rfl)]
  generalize forEach rng _ h = h2
  generalize eqsD.filter (fun e => e.sources.contains s) = g
  unfold guardedLoop
  by_cases hk : (hasCode g .loop || hasCode g .loopAll)
  · simp only [hk, if_true]
    exact forEach_congr (fun i _ h => srcParticle_eq O d s _ i h) h2
  · simp only [hk, Bool.false_eq_true, if_false]
    have hk' : hasCode g .loop = false ∧ hasCode g .loopAll = false := by simpa using hk
    symm
    apply forEach_id
    intro i _ h
    unfold specSrcParticle
    simp only
    rw [specCalls_of_not_hasCode hk'.2]
    exact forEach_id (fun j _ h => specCalls_of_not_hasCode hk'.1 _ h) h

theorem doDest_specData (O : Oracle) (a : Attrs) (eqs : List Equation) (d : Nat) (h : Hist) :
    doDest O a (d, specData eqs d) h = specDest O a eqs d h := by
  unfold doDest specDest specData
  simp only
  generalize destRange O h a d = rng
  generalize eqs.filter (fun e => e.dest == d) = g
  rw [callAll_eq_specCalls]
  rw [guardedLoop_eq (fun i e => .init e.id d i) (initParticle d g) (fun _ _ => rfl)]
  rw [guardedLoop_eq (fun i e => .postLoop e.id d i) (postLoopParticle d g) (fun _ _ => rfl)]
  rw [guardedIf_eq]
  have hns : ∀ h2, guardedLoop (!(g.filter (·.noSource)).isEmpty && hasCode (g.filter (·.noSource)) .loop)
      rng (noSrcParticle d (g.filter (·.noSource))) h2 =
      forEach rng (fun i => specCalls (g.filter (·.noSource)) .loop (fun e => .loopNoSrc e.id d i)) h2 := by
    intro h2
    by_cases hemp : (g.filter (·.noSource)).isEmpty
    · have : g.filter (·.noSource) = [] := by simpa using hemp
      rw [this]
      simp only [guardedLoop, List.isEmpty_nil, Bool.not_true, Bool.false_and, Bool.false_eq_true, if_false]
      exact (forEach_id (fun i _ h => rfl) h2).symm
    · have := guardedLoop_eq (rng := rng) (g := g.filter (·.noSource)) (k := .loop)
        (fun i e => .loopNoSrc e.id d i) (noSrcParticle d _) (fun _ _ => rfl) h2
      simpa [hemp] using this
  have hsrc : ∀ h3, forEach (srcDict g) (doSource O d rng) h3 =
      forEach (firstAppearance (g.flatMap (·.sources))) (specSource O d rng g) h3 := by
    intro h3
    unfold srcDict dictOf
    rw [forEach_map]
    exact forEach_congr (fun s _ h => doSource_eq O d rng g s h) h3
  rw [hns, hsrc]

theorem makeData_eq (eqs : List Equation) (hnd : eqs.Nodup) (hs : ∀ e ∈ eqs, e.sources.Nodup) :
    makeData eqs = (firstAppearance (eqs.map (·.dest))).map (fun d => (d, specData eqs d)) := by
  unfold makeData
  rw [destList_eq]
  exact List.map_congr_left (fun d _ => by rw [makeDest_eq eqs d hnd hs])

theorem doGroup_eq (O : Oracle) (gid : GId) (a : Attrs) (eqs : List Equation)
    (hnd : eqs.Nodup) (hs : ∀ e ∈ eqs, e.sources.Nodup) (h : Hist) :
    doGroup O gid a (makeData eqs) h = specGroup O gid a eqs h := by
  unfold doGroup specGroup
  rw [makeData_eq eqs hnd hs, forEach_map]
  rw [forEach_congr (fun d _ h => doDest_specData O a eqs d h)]


/-- The generated `while True:` loop equals "at most `max` passes" whenever
`count + rem = max`, `min ≤ max` and there is fuel for the remaining passes. -/
theorem implIter_eq_specIter (O : Oracle) (gid : GId) (a : Attrs) (convEqs : List Equation)
    (body : Hist → Hist) (rem fuel count : Nat) (h : Hist)
    (hsum : count + rem = a.maxIter) (hmin : a.minIter ≤ a.maxIter) (hfuel : rem + 1 ≤ fuel) :
    implIter O gid a convEqs body fuel count h = specIter O a convEqs body rem count h := by
  induction rem generalizing fuel count h with
  | zero =>
    obtain ⟨f, rfl⟩ : ∃ f, fuel = f + 1 := ⟨fuel - 1, by omega⟩
    have hc : count = a.maxIter := by omega
    have h2 : ¬ count < a.minIter := by omega
    have h3 : ¬ a.maxIter < a.minIter := by omega
    simp [implIter, specIter, hc, hmin, h3]
  | succ r ih =>
    obtain ⟨f, rfl⟩ : ∃ f, fuel = f + 1 := ⟨fuel - 1, by omega⟩
    have hne : (count == a.maxIter) = false := by
      have : count ≠ a.maxIter := by omega
      simpa using this
    simp only [implIter, specIter]
    by_cases hlt : count < a.minIter
    · have h1 : ¬ a.minIter ≤ count := by omega
      simp only [h1, if_false, hlt, if_true]
      exact ih f (count + 1) _ (by omega) (by omega)
    · have h1 : a.minIter ≤ count := by omega
      simp only [h1, if_true, hlt, if_false, hne, Bool.or_false]
      by_cases hq : (queryConv O convEqs (body h)).2
      · simp [hq]
      · simp only [hq, Bool.false_eq_true, if_false]
        exact ih f (count + 1) _ (by omega) (by omega)

theorem wrapIter_eq_specRepeat (O : Oracle) (fuel : Nat) (gid : GId) (a : Attrs)
    (convEqs : List Equation) (body : Hist → Hist) (h : Hist)
    (hok : a.iterOK) (hfuel : a.iterate = true → a.maxIter ≤ fuel) :
    wrapIter O fuel gid a convEqs body h = specRepeat O a convEqs body h := by
  unfold wrapIter specRepeat
  by_cases hi : a.iterate
  · simp only [hi, if_true]
    obtain ⟨h1, h2⟩ := hok hi
    exact implIter_eq_specIter O gid a convEqs body (a.maxIter - 1) fuel 1 h (by omega) h2
      (by have := hfuel hi; omega)
  · simp [hi]

theorem specIter_id (O : Oracle) (a : Attrs) (rem count : Nat) (h : Hist) :
    specIter O a [] (fun h => h) rem count h = h := by
  induction rem generalizing count with
  | zero => simp [specIter, queryConv]
  | succ r ih => simp [specIter, queryConv, ih]

theorem wrapCond_congr (O : Oracle) (gid : GId) (a : Attrs) {f g : Hist → Hist}
    (hfg : ∀ h, f h = g h) (h : Hist) : wrapCond O gid a f h = wrapCond O gid a g h := by
  unfold wrapCond
  simp only [hfg]

theorem doSub_eq (O : Oracle) (gi : Nat) (sk : Leaf × Nat) (hwf : sk.1.WF) (h : Hist) :
    doSub O gi sk h = specSub O gi sk h := by
  unfold doSub specSub
  exact wrapCond_congr O _ _ (fun h => doGroup_eq O _ _ _ hwf.1 hwf.2 h) h

theorem parentBody_eq (O : Oracle) (gi : Nat) (a : Attrs) (subs : List Leaf)
    (hwf : ∀ l ∈ subs, l.WF) (h : Hist) :
    parentBody O gi a subs h = specParentBody O gi a subs h := by
  unfold parentBody specParentBody
  rw [forEach_congr (fun sk hsk h => doSub_eq O gi sk (hwf sk.1 (List.fst_mem_of_mem_zipIdx hsk)) h)]

theorem isEmpty_makeData (eqs : List Equation) : (makeData eqs).isEmpty = eqs.isEmpty := by
  unfold makeData
  rw [destList_eq]
  cases eqs with
  | nil => rfl
  | cons e es => simp [firstAppearance]

theorem doTop_eq (O : Oracle) (fuel : Nat) (tg : Top × Nat) (hwf : tg.1.WF)
    (hfuel : tg.1.maxIter ≤ fuel) (h : Hist) : doTop O fuel tg h = specTop O tg h := by
  obtain ⟨g, gi⟩ := tg
  cases g with
  | leaf l =>
    obtain ⟨hl, hit, hsil⟩ := hwf
    simp only [doTop, specTop, isEmpty_makeData]
    by_cases hemp : l.eqs = []
    · obtain ⟨h1, h2, h3, h4⟩ := hsil hemp
      have hid : specGroup O ⟨gi, none⟩ l.attrs [] = fun h => h := by
        funext h
        simp [specGroup, emitIf, h2, h3, h4, firstAppearance]
      simp only [hemp, List.isEmpty_nil, if_true, wrapCond, h1, Bool.false_eq_true, if_false,
        specRepeat, hid]
      by_cases hi : l.attrs.iterate
      · simp only [hi, if_true]
        exact (specIter_id O l.attrs _ _ h).symm
      · simp [hi]
    · have : l.eqs.isEmpty = false := by simpa using hemp
      simp only [this, Bool.false_eq_true, if_false]
      apply wrapCond_congr
      intro h
      rw [wrapIter_eq_specRepeat O fuel _ _ _ _ h hit (fun _ => hfuel)]
      unfold specRepeat
      have hb : ∀ h, doGroup O ⟨gi, none⟩ l.attrs (makeData l.eqs) h
          = specGroup O ⟨gi, none⟩ l.attrs l.eqs h := fun h => doGroup_eq O _ _ _ hl.1 hl.2 h
      have hfe : (doGroup O ⟨gi, none⟩ l.attrs (makeData l.eqs))
          = specGroup O ⟨gi, none⟩ l.attrs l.eqs := funext hb
      rw [hfe]
  | parent a subs =>
    obtain ⟨hit, hsubs⟩ := hwf
    simp only [doTop, specTop]
    apply wrapCond_congr
    intro h
    rw [wrapIter_eq_specRepeat O fuel _ _ _ _ h hit (fun _ => hfuel)]
    have hfe : parentBody O gi a subs = specParentBody O gi a subs :=
      funext (fun h => parentBody_eq O gi a subs hsubs h)
    rw [hfe]


theorem implRun_eq_specRun (O : Oracle) (fuel : Nat) (P : Program) (hwf : P.WF)
    (hfuel : ∀ g ∈ specGroups P, g.maxIter ≤ fuel) (h : Hist) :
    implRun O fuel P h = specRun O P h := by
  unfold implRun specRun
  have key : ∀ gs : List Top, (∀ g ∈ gs, g.WF) → (∀ g ∈ gs, g.maxIter ≤ fuel) →
      forEach gs.zipIdx (doTop O fuel) h = forEach gs.zipIdx (specTop O) h := by
    intro gs h1 h2
    exact forEach_congr (fun tg htg h => doTop_eq O fuel tg
      (h1 tg.1 (List.fst_mem_of_mem_zipIdx htg)) (h2 tg.1 (List.fst_mem_of_mem_zipIdx htg)) h) h
  cases P with
  | flat eqs => exact key _ hwf hfuel
  | groups gs =>
    cases gs with
    | nil => simp [groupEquations, specGroups, doTop, makeData, destList]
    | cons g gs => exact key _ hwf hfuel


/-- one pass of an iterated group, followed by the convergence query once `min ≤ count` -/
def onePass (O : Oracle) (a : Attrs) (convEqs : List Equation) (body : Hist → Hist)
    (count : Nat) (h : Hist) : Hist :=
  if a.minIter ≤ count then (queryConv O convEqs (body h)).1 else body h

/-- the generated check `count >= min and (converged or count == max)` after the pass numbered
`count` that started from history `h` -/
def stopsAfter (O : Oracle) (a : Attrs) (convEqs : List Equation) (body : Hist → Hist)
    (count : Nat) (h : Hist) : Bool :=
  decide (a.minIter ≤ count) && ((queryConv O convEqs (body h)).2 || count == a.maxIter)

/-- `n` consecutive passes, numbered `count`, `count + 1`, … -/
def passes (O : Oracle) (a : Attrs) (convEqs : List Equation) (body : Hist → Hist) :
    Nat → Nat → Hist → Hist
  | 0, _, h => h
  | n + 1, count, h => passes O a convEqs body n (count + 1) (onePass O a convEqs body count h)

theorem implIter_passes (O : Oracle) (gid : GId) (a : Attrs) (convEqs : List Equation)
    (body : Hist → Hist) (rem fuel count : Nat) (h : Hist)
    (hsum : count + rem = a.maxIter) (hmin : a.minIter ≤ a.maxIter) (hfuel : rem + 1 ≤ fuel) :
    ∃ m, 1 ≤ m ∧ m ≤ rem + 1 ∧ a.minIter ≤ count + m - 1 ∧
      implIter O gid a convEqs body fuel count h = passes O a convEqs body m count h ∧
      stopsAfter O a convEqs body (count + m - 1) (passes O a convEqs body (m - 1) count h) = true ∧
      ∀ j, j < m - 1 →
        stopsAfter O a convEqs body (count + j) (passes O a convEqs body j count h) = false := by
  induction rem generalizing fuel count h with
  | zero =>
    obtain ⟨f, rfl⟩ : ∃ f, fuel = f + 1 := ⟨fuel - 1, by omega⟩
    have hc : count = a.maxIter := by omega
    refine ⟨1, by omega, by omega, by omega, ?_, ?_, ?_⟩
    · simp [implIter, passes, onePass, hc, hmin]
    · simp [passes, stopsAfter, hc, hmin]
    · intro j hj; omega
  | succ r ih =>
    obtain ⟨f, rfl⟩ : ∃ f, fuel = f + 1 := ⟨fuel - 1, by omega⟩
    have hne : (count == a.maxIter) = false := by
      have : count ≠ a.maxIter := by omega
      simpa using this
    by_cases hstop : stopsAfter O a convEqs body count h = true
    · refine ⟨1, by omega, by omega, ?_, ?_, ?_, ?_⟩
      · simp only [stopsAfter, Bool.and_eq_true, decide_eq_true_eq] at hstop
        omega
      · simp only [stopsAfter, Bool.and_eq_true, decide_eq_true_eq, hne, Bool.or_false] at hstop
        simp [implIter, passes, onePass, hstop.1, hstop.2]
      · simpa [passes] using hstop
      · intro j hj; omega
    · have hstop' : stopsAfter O a convEqs body count h = false := by simpa using hstop
      obtain ⟨m, h1, h2, h3, h4, h5, h6⟩ :=
        ih f (count + 1) (onePass O a convEqs body count h) (by omega) (by omega)
      refine ⟨m + 1, by omega, by omega, by omega, ?_, ?_, ?_⟩
      · rw [show passes O a convEqs body (m + 1) count h =
            passes O a convEqs body m (count + 1) (onePass O a convEqs body count h) from rfl, ← h4]
        simp only [stopsAfter, hne, Bool.or_false] at hstop'
        simp only [implIter, onePass]
        by_cases hlt : a.minIter ≤ count
        · have hq : (queryConv O convEqs (body h)).2 = false := by simpa [hlt] using hstop'
          simp [hlt, hq, hne]
        · simp [hlt]
      · obtain ⟨m', rfl⟩ : ∃ m', m = m' + 1 := ⟨m - 1, by omega⟩
        have : count + (m' + 1 + 1) - 1 = count + 1 + (m' + 1) - 1 := by omega
        rw [this]
        simpa [passes] using h5
      · intro j hj
        cases j with
        | zero => simpa [passes] using hstop'
        | succ j' =>
          have := h6 j' (by omega)
          have e : count + (j' + 1) = count + 1 + j' := by omega
          rw [e]
          simpa [passes] using this


/-- calls of equation methods (as opposed to group-level events) -/
def Event.isHook : Event → Bool
  | .pyInit .. | .init .. | .loopNoSrc .. | .initPair .. | .loopAll .. | .loop .. | .postLoop ..
  | .reduce .. => true
  | _ => false

/-- `h'` extends `h` by events satisfying `P` -/
def Ext (P : Event → Prop) (h h' : Hist) : Prop := ∃ new, h' = new ++ h ∧ ∀ e ∈ new, P e

theorem Ext.refl {P : Event → Prop} (h : Hist) : Ext P h h := ⟨[], rfl, by simp⟩

theorem Ext.trans {P : Event → Prop} {a b c : Hist} (h1 : Ext P a b) (h2 : Ext P b c) :
    Ext P a c := by
  obtain ⟨n1, e1, p1⟩ := h1
  obtain ⟨n2, e2, p2⟩ := h2
  refine ⟨n2 ++ n1, by rw [e2, e1, List.append_assoc], ?_⟩
  intro e he
  rcases List.mem_append.mp he with h' | h'
  · exact p2 e h'
  · exact p1 e h'

theorem Ext.cons {P : Event → Prop} {e : Event} (he : P e) (h : Hist) : Ext P h (e :: h) :=
  ⟨[e], rfl, by simpa using he⟩

theorem ext_forEach {α : Type} {P : Event → Prop} (l : List α) (f : α → Hist → Hist)
    (hf : ∀ a ∈ l, ∀ h, Ext P h (f a h)) (h : Hist) : Ext P h (forEach l f h) := by
  induction l generalizing h with
  | nil => exact Ext.refl h
  | cons a l ih =>
    exact Ext.trans (hf a (by simp) h) (ih (fun b hb => hf b (by simp [hb])) (f a h))

theorem ext_callAll {P : Event → Prop} (g : List Equation) (k : Hook) (mk : Equation → Event)
    (hmk : ∀ e, P (mk e)) (h : Hist) : Ext P h (callAll g k mk h) := by
  unfold callAll
  apply ext_forEach
  intro e _ h
  unfold callOne
  by_cases hk : e.has k
  · simpa [hk] using Ext.cons (hmk e) h
  · simpa [hk] using Ext.refl h

theorem ext_guardedLoop {α : Type} {P : Event → Prop} (b : Bool) (l : List α)
    (f : α → Hist → Hist) (hf : ∀ a h, Ext P h (f a h)) (h : Hist) :
    Ext P h (guardedLoop b l f h) := by
  unfold guardedLoop
  cases b
  · exact Ext.refl h
  · exact ext_forEach l f (fun a _ => hf a) h

theorem ext_guardedIf {P : Event → Prop} (b : Bool) (f : Hist → Hist)
    (hf : ∀ h, Ext P h (f h)) (h : Hist) : Ext P h (guardedIf b f h) := by
  unfold guardedIf
  cases b
  · exact Ext.refl h
  · exact hf h

def HookOnly : Event → Prop := fun e => e.isHook = true

theorem hook_callAll (g : List Equation) (k : Hook) (mk : Equation → Event)
    (hmk : ∀ e, (mk e).isHook = true) (h : Hist) : Ext HookOnly h (callAll g k mk h) :=
  ext_callAll g k mk hmk h

theorem hook_loopNbr (d s i : Nat) (g : List Equation) (j : Nat) (h : Hist) :
    Ext HookOnly h (loopNbr d s i g j h) := hook_callAll g _ _ (fun _ => rfl) h
theorem hook_initPairParticle (d s : Nat) (g : List Equation) (i : Nat) (h : Hist) :
    Ext HookOnly h (initPairParticle d s g i h) := hook_callAll g _ _ (fun _ => rfl) h
theorem hook_initParticle (d : Nat) (g : List Equation) (i : Nat) (h : Hist) :
    Ext HookOnly h (initParticle d g i h) := hook_callAll g _ _ (fun _ => rfl) h
theorem hook_noSrcParticle (d : Nat) (g : List Equation) (i : Nat) (h : Hist) :
    Ext HookOnly h (noSrcParticle d g i h) := hook_callAll g _ _ (fun _ => rfl) h
theorem hook_postLoopParticle (d : Nat) (g : List Equation) (i : Nat) (h : Hist) :
    Ext HookOnly h (postLoopParticle d g i h) := hook_callAll g _ _ (fun _ => rfl) h

theorem ext_srcParticle (O : Oracle) (d s : Nat) (g : List Equation) (i : Nat) (h : Hist) :
    Ext HookOnly h (srcParticle O d s g i h) := by
  unfold srcParticle
  simp only
  refine Ext.trans ?_ (ext_guardedLoop _ _ _ (hook_loopNbr d s i g) _)
  exact ext_guardedIf _ _ (hook_callAll g _ _ (fun _ => rfl)) h

theorem ext_doSource (O : Oracle) (d : Nat) (rng : List Nat) (sg : Nat × List Equation)
    (h : Hist) : Ext HookOnly h (doSource O d rng sg h) := by
  unfold doSource
  refine Ext.trans ?_ (ext_guardedLoop _ _ _ (ext_srcParticle O d sg.1 sg.2) _)
  exact ext_guardedLoop _ _ _ (hook_initPairParticle d sg.1 sg.2) h

theorem ext_doDest (O : Oracle) (a : Attrs) (ddd : Nat × DestData) (h : Hist) :
    Ext HookOnly h (doDest O a ddd h) := by
  unfold doDest
  simp only
  refine Ext.trans ?_ (ext_guardedIf _ _ (hook_callAll _ _ _ (fun _ => rfl)) _)
  refine Ext.trans ?_ (ext_guardedLoop _ _ _ (hook_postLoopParticle _ _) _)
  refine Ext.trans ?_ (ext_forEach _ _ (fun sg _ h => ext_doSource O _ _ sg h) _)
  refine Ext.trans ?_ (ext_guardedLoop _ _ _ (hook_noSrcParticle _ _) _)
  refine Ext.trans ?_ (ext_guardedLoop _ _ _ (hook_initParticle _ _) _)
  exact hook_callAll _ _ _ (fun _ => rfl) h

/-- shape of one pass over a group: `pre` first, `post` last, the NNPS refresh just before
`post`, and only equation-method calls in between -/
theorem doGroup_shape (O : Oracle) (gid : GId) (a : Attrs) (data : List (Nat × DestData))
    (h : Hist) :
    ∃ mid, (∀ e ∈ mid, e.isHook = true) ∧
      doGroup O gid a data h =
        (if a.hasPost then [Event.post gid] else []) ++
        (if a.updateNnps then [Event.nnps gid] else []) ++ mid ++
        (if a.hasPre then [Event.pre gid] else []) ++ h := by
  unfold doGroup emitIf
  obtain ⟨mid, e1, p1⟩ := ext_forEach (P := HookOnly) data (doDest O a)
    (fun ddd _ h => ext_doDest O a ddd h)
    (if a.hasPre = true then Event.pre gid :: h else h)
  refine ⟨mid, p1, ?_⟩
  simp only [e1]
  cases a.hasPre <;> cases a.updateNnps <;> cases a.hasPost <;> simp


/-- destination array and destination particle index of a per-particle call -/
def Event.particle? : Event → Option (Nat × Nat)
  | .init _ d i | .loopNoSrc _ d i | .initPair _ d _ i | .loopAll _ d _ i _ | .loop _ d _ i _
  | .postLoop _ d i => some (d, i)
  | _ => none

/-- per-particle calls concern destination `D` and an index of `rng` -/
def InRange (D : Nat) (rng : List Nat) : Event → Prop :=
  fun e => ∀ d i, e.particle? = some (d, i) → d = D ∧ i ∈ rng

theorem ext_guardedLoop_mem {α : Type} {P : Event → Prop} (b : Bool) (l : List α)
    (f : α → Hist → Hist) (hf : ∀ a ∈ l, ∀ h, Ext P h (f a h)) (h : Hist) :
    Ext P h (guardedLoop b l f h) := by
  unfold guardedLoop
  cases b
  · exact Ext.refl h
  · exact ext_forEach l f hf h

theorem inRange_of (D : Nat) (rng : List Nat) {i : Nat} (hi : i ∈ rng) (e : Event)
    (he : e.particle? = some (D, i) ∨ e.particle? = none) : InRange D rng e := by
  intro d j hj
  rcases he with he | he
  · rw [he] at hj
    simp only [Option.some.injEq, Prod.mk.injEq] at hj
    exact ⟨hj.1.symm, hj.2 ▸ hi⟩
  · rw [he] at hj; cases hj

theorem ext_doSource_range (O : Oracle) (D : Nat) (rng : List Nat) (sg : Nat × List Equation)
    (h : Hist) : Ext (InRange D rng) h (doSource O D rng sg h) := by
  unfold doSource
  refine Ext.trans ?_ (ext_guardedLoop_mem _ _ _ ?_ _)
  · refine ext_guardedLoop_mem _ _ _ ?_ h
    intro i hi h
    exact ext_callAll _ _ _ (fun e => inRange_of D rng hi _ (Or.inl rfl)) h
  · intro i hi h
    unfold srcParticle
    simp only
    refine Ext.trans ?_ (ext_guardedLoop _ _ _ ?_ _)
    · exact ext_guardedIf _ _ (fun h' => ext_callAll _ _ _
        (fun e => inRange_of D rng hi _ (Or.inl rfl)) h') h
    · intro j h'
      exact ext_callAll _ _ _ (fun e => inRange_of D rng hi _ (Or.inl rfl)) h'

/-- every per-particle call made for a destination concerns that destination and an index of
`range(D_START_IDX, NP_DEST)` as read when the destination was set up -/
theorem ext_doDest_range (O : Oracle) (a : Attrs) (ddd : Nat × DestData) (h : Hist) :
    Ext (InRange ddd.1 (destRange O h a ddd.1)) h (doDest O a ddd h) := by
  unfold doDest
  simp only
  generalize destRange O h a ddd.1 = rng
  have none_ok : ∀ e : Event, e.particle? = none → InRange ddd.1 rng e := by
    intro e he d i hj; rw [he] at hj; cases hj
  refine Ext.trans ?_ (ext_guardedIf _ _ (fun h' => ext_callAll _ _ _ (fun e => none_ok _ rfl) h') _)
  refine Ext.trans ?_ (ext_guardedLoop_mem _ _ _
    (fun i hi h' => ext_callAll _ _ _ (fun e => inRange_of _ rng hi _ (Or.inl rfl)) h') _)
  refine Ext.trans ?_ (ext_forEach _ _ (fun sg _ h' => ext_doSource_range O _ rng sg h') _)
  refine Ext.trans ?_ (ext_guardedLoop_mem _ _ _
    (fun i hi h' => ext_callAll _ _ _ (fun e => inRange_of _ rng hi _ (Or.inl rfl)) h') _)
  refine Ext.trans ?_ (ext_guardedLoop_mem _ _ _
    (fun i hi h' => ext_callAll _ _ _ (fun e => inRange_of _ rng hi _ (Or.inl rfl)) h') _)
  exact ext_callAll _ _ _ (fun e => none_ok _ rfl) h


/-! ## Decidability of well-formedness and concrete programs for the non-vacuity examples -/

instance (l : Leaf) : Decidable l.WF := by unfold Leaf.WF; infer_instance
instance (a : Attrs) : Decidable a.silent := by unfold Attrs.silent; infer_instance
instance (a : Attrs) : Decidable a.iterOK := by unfold Attrs.iterOK; infer_instance
instance (g : Top) : Decidable g.WF := by cases g <;> (unfold Top.WF; infer_instance)
instance (P : Program) : Decidable P.WF := by unfold Program.WF; infer_instance

/-! ## group names are never read

Every definition of the model goes through the other fields of `Attrs` and through the position
`GId`; so erasing the names changes nothing, call for call. -/

theorem doDest_eraseName (O : Oracle) (a : Attrs) (ddd : Nat × DestData) (h : Hist) :
    doDest O a.eraseName ddd h = doDest O a ddd h := by
  have hr : ∀ h, destRange O h a.eraseName ddd.1 = destRange O h a ddd.1 := fun _ => rfl
  unfold doDest
  simp only [hr]

theorem doGroup_eraseName (O : Oracle) (gid : GId) (a : Attrs) (data : List (Nat × DestData))
    (h : Hist) : doGroup O gid a.eraseName data h = doGroup O gid a data h := by
  unfold doGroup
  rw [forEach_congr (fun ddd _ h => doDest_eraseName O a ddd h)]
  rfl

theorem specDest_eraseName (O : Oracle) (a : Attrs) (eqs : List Equation) (d : Nat) (h : Hist) :
    specDest O a.eraseName eqs d h = specDest O a eqs d h := by
  have hr : ∀ h, destRange O h a.eraseName d = destRange O h a d := fun _ => rfl
  unfold specDest
  simp only [hr]

theorem specGroup_eraseName (O : Oracle) (gid : GId) (a : Attrs) (eqs : List Equation)
    (h : Hist) : specGroup O gid a.eraseName eqs h = specGroup O gid a eqs h := by
  unfold specGroup
  rw [forEach_congr (fun d _ h => specDest_eraseName O a eqs d h)]
  rfl

theorem implIter_eraseName (O : Oracle) (gid : GId) (a : Attrs) (convEqs : List Equation)
    (body : Hist → Hist) (fuel count : Nat) (h : Hist) :
    implIter O gid a.eraseName convEqs body fuel count h
      = implIter O gid a convEqs body fuel count h := by
  induction fuel generalizing count h with
  | zero => rfl
  | succ f ih =>
    simp only [implIter]
    have h1 : a.eraseName.minIter = a.minIter := rfl
    have h2 : a.eraseName.maxIter = a.maxIter := rfl
    simp only [h1, h2, ih]

theorem specIter_eraseName (O : Oracle) (a : Attrs) (convEqs : List Equation)
    (body : Hist → Hist) (rem count : Nat) (h : Hist) :
    specIter O a.eraseName convEqs body rem count h = specIter O a convEqs body rem count h := by
  induction rem generalizing count h with
  | zero => rfl
  | succ r ih =>
    simp only [specIter]
    have h1 : a.eraseName.minIter = a.minIter := rfl
    simp only [h1, ih]

theorem wrapIter_eraseName (O : Oracle) (fuel : Nat) (gid : GId) (a : Attrs)
    (convEqs : List Equation) (body : Hist → Hist) (h : Hist) :
    wrapIter O fuel gid a.eraseName convEqs body h = wrapIter O fuel gid a convEqs body h := by
  unfold wrapIter
  rw [implIter_eraseName]
  rfl

theorem specRepeat_eraseName (O : Oracle) (a : Attrs) (convEqs : List Equation)
    (body : Hist → Hist) (h : Hist) :
    specRepeat O a.eraseName convEqs body h = specRepeat O a convEqs body h := by
  unfold specRepeat
  rw [specIter_eraseName]
  rfl

theorem wrapCond_eraseName (O : Oracle) (gid : GId) (a : Attrs) (body : Hist → Hist) (h : Hist) :
    wrapCond O gid a.eraseName body h = wrapCond O gid a body h := rfl

theorem doSub_eraseNames (O : Oracle) (gi : Nat) (l : Leaf) (k : Nat) (h : Hist) :
    doSub O gi (l.eraseNames, k) h = doSub O gi (l, k) h := by
  unfold doSub
  show wrapCond O ⟨gi, some k⟩ l.attrs.eraseName
      (doGroup O ⟨gi, some k⟩ l.attrs.eraseName (makeData l.eqs)) h = _
  rw [wrapCond_eraseName]
  exact wrapCond_congr O _ _ (fun h => doGroup_eraseName O _ _ _ h) h

theorem specSub_eraseNames (O : Oracle) (gi : Nat) (l : Leaf) (k : Nat) (h : Hist) :
    specSub O gi (l.eraseNames, k) h = specSub O gi (l, k) h := by
  unfold specSub
  show wrapCond O ⟨gi, some k⟩ l.attrs.eraseName
      (specGroup O ⟨gi, some k⟩ l.attrs.eraseName l.eqs) h = _
  rw [wrapCond_eraseName]
  exact wrapCond_congr O _ _ (fun h => specGroup_eraseName O _ _ _ h) h

theorem forEach_zipIdx_map {α β : Type} (g : β → α) (l : List β) (f : α × Nat → Hist → Hist)
    (h : Hist) :
    forEach (l.map g).zipIdx f h = forEach l.zipIdx (fun p => f (g p.1, p.2)) h := by
  rw [List.zipIdx_map, forEach_map]
  rfl

theorem parentBody_eraseNames (O : Oracle) (gi : Nat) (a : Attrs) (subs : List Leaf) (h : Hist) :
    parentBody O gi a.eraseName (subs.map Leaf.eraseNames) h = parentBody O gi a subs h := by
  unfold parentBody
  simp only [forEach_zipIdx_map]
  rw [forEach_congr (fun p _ h => doSub_eraseNames O gi p.1 p.2 h)]
  rfl

theorem specParentBody_eraseNames (O : Oracle) (gi : Nat) (a : Attrs) (subs : List Leaf)
    (h : Hist) :
    specParentBody O gi a.eraseName (subs.map Leaf.eraseNames) h
      = specParentBody O gi a subs h := by
  unfold specParentBody
  simp only [forEach_zipIdx_map]
  rw [forEach_congr (fun p _ h => specSub_eraseNames O gi p.1 p.2 h)]
  rfl

theorem flatMap_eqs_eraseNames (subs : List Leaf) :
    (subs.map Leaf.eraseNames).flatMap (·.eqs) = subs.flatMap (·.eqs) := by
  rw [List.flatMap_map]
  rfl

theorem doTop_eraseNames (O : Oracle) (fuel : Nat) (t : Top) (i : Nat) (h : Hist) :
    doTop O fuel (t.eraseNames, i) h = doTop O fuel (t, i) h := by
  cases t with
  | leaf l =>
    show doTop O fuel (.leaf ⟨l.attrs.eraseName, l.eqs⟩, i) h = _
    simp only [doTop]
    split
    · rfl
    · rw [wrapCond_eraseName]
      apply wrapCond_congr
      intro h
      rw [wrapIter_eraseName]
      unfold wrapIter
      have hb : doGroup O ⟨i, none⟩ l.attrs.eraseName (makeData l.eqs)
          = doGroup O ⟨i, none⟩ l.attrs (makeData l.eqs) :=
        funext (fun h => doGroup_eraseName O _ _ _ h)
      rw [hb]
  | parent a subs =>
    show doTop O fuel (.parent a.eraseName (subs.map Leaf.eraseNames), i) h = _
    simp only [doTop]
    rw [wrapCond_eraseName]
    apply wrapCond_congr
    intro h
    rw [wrapIter_eraseName, flatMap_eqs_eraseNames]
    have hb : parentBody O i a.eraseName (subs.map Leaf.eraseNames) = parentBody O i a subs :=
      funext (fun h => parentBody_eraseNames O i a subs h)
    rw [hb]

theorem specTop_eraseNames (O : Oracle) (t : Top) (i : Nat) (h : Hist) :
    specTop O (t.eraseNames, i) h = specTop O (t, i) h := by
  cases t with
  | leaf l =>
    show specTop O (.leaf ⟨l.attrs.eraseName, l.eqs⟩, i) h = _
    simp only [specTop]
    rw [wrapCond_eraseName]
    apply wrapCond_congr
    intro h
    rw [specRepeat_eraseName]
    have hb : specGroup O ⟨i, none⟩ l.attrs.eraseName l.eqs = specGroup O ⟨i, none⟩ l.attrs l.eqs :=
      funext (fun h => specGroup_eraseName O _ _ _ h)
    rw [hb]
  | parent a subs =>
    show specTop O (.parent a.eraseName (subs.map Leaf.eraseNames), i) h = _
    simp only [specTop]
    rw [wrapCond_eraseName]
    apply wrapCond_congr
    intro h
    rw [specRepeat_eraseName, flatMap_eqs_eraseNames]
    have hb : specParentBody O i a.eraseName (subs.map Leaf.eraseNames)
        = specParentBody O i a subs :=
      funext (fun h => specParentBody_eraseNames O i a subs h)
    rw [hb]

theorem implRun_eraseNames (O : Oracle) (fuel : Nat) (P : Program) (h : Hist) :
    implRun O fuel P.eraseNames h = implRun O fuel P h := by
  unfold implRun
  cases P with
  | flat eqs => rfl
  | groups gs =>
    cases gs with
    | nil => rfl
    | cons g gs =>
      show forEach ((g :: gs).map Top.eraseNames).zipIdx (doTop O fuel) h
        = forEach (g :: gs).zipIdx (doTop O fuel) h
      rw [forEach_zipIdx_map]
      exact forEach_congr (fun p _ h => doTop_eraseNames O fuel p.1 p.2 h) h

theorem specRun_eraseNames (O : Oracle) (P : Program) (h : Hist) :
    specRun O P.eraseNames h = specRun O P h := by
  unfold specRun
  cases P with
  | flat eqs => rfl
  | groups gs =>
    show forEach (gs.map Top.eraseNames).zipIdx (specTop O) h = forEach gs.zipIdx (specTop O) h
    rw [forEach_zipIdx_map]
    exact forEach_congr (fun p _ h => specTop_eraseNames O p.1 p.2 h) h

namespace Example
/-- two arrays (0: 2 real + 1 ghost, 1: 3 real), an iterated group with two destinations and a
source-free equation, then a conditional group with two sub-groups (second over ghosts too,
named start) -/
def prog : Program := .groups [
  .leaf ⟨{ iterate := true, minIter := 2, maxIter := 3, hasPre := true, updateNnps := true },
    [⟨1, 1, [0, 1], [.pyInit, .init, .loop, .postLoop]⟩, ⟨2, 0, [], [.loop, .reduce]⟩,
     ⟨3, 1, [1], [.initPair, .loopAll, .loop]⟩]⟩,
  .parent { hasCond := true, hasPost := true }
    [⟨{ stop := some (.num 1) }, [⟨4, 0, [1], [.loopAll, .reduce]⟩]⟩,
     ⟨{ real := false, start := .named 0, hasCond := true, hasPre := true }, [⟨5, 0, [0], [.init, .loop]⟩]⟩]]

/-- a history-dependent oracle: convergence once 60 calls have been made, neighbours and sizes
change after the first NNPS refresh, the second sub-group's condition fails -/
def oracle : Oracle where
  cond _ g := g.sub != some 1 || g.top != 1
  conv h e := decide (60 < h.length) || e == 2
  size h a real := if a == 0 then (if real then 2 else 3) else (if h.length < 30 then 3 else 2)
  named _ _ _ := 1
  nbrs h _ s i := if h.length < 30 then [i, s] else [s]

/-- the shape of a seeded defect: two top-level groups labelled `density` (the first one's
condition fails, the second one's holds), and a group `outer` whose two sub-groups are both
labelled `correct` (first condition holds, second fails) — one label is also shared between
a top-level group and a sub-group of another parent -/
def sameNames : Program := .groups [
  .leaf ⟨{ name := some "density", hasCond := true, hasPre := true, hasPost := true },
    [⟨1, 0, [], [.init]⟩]⟩,
  .leaf ⟨{ name := some "density", hasCond := true, hasPre := true, hasPost := true },
    [⟨2, 0, [], [.init]⟩]⟩,
  .parent { name := some "outer", hasPre := true, hasPost := true }
    [⟨{ name := some "correct", hasCond := true, hasPre := true, hasPost := true },
       [⟨3, 0, [], [.init]⟩]⟩,
     ⟨{ name := some "correct", hasCond := true, hasPre := true, hasPost := true },
       [⟨4, 0, [], [.init]⟩]⟩],
  .parent { name := some "correct" }
    [⟨{ name := some "density", hasCond := true, hasPost := true }, [⟨5, 0, [], [.init]⟩]⟩]]

/-- conditions by POSITION: group 0 False, group 1 True, 2.0 True, 2.1 False, 3.0 True; one
particle per array -/
def posOracle : Oracle where
  cond _ g := g = ⟨1, none⟩ || g = ⟨2, some 0⟩ || g = ⟨3, some 0⟩
  conv _ _ := true
  size _ _ _ := 1
  named _ _ _ := 0
  nbrs _ _ _ _ := []

def emptyWithPre : Program := .groups [.leaf ⟨{ hasPre := true }, []⟩]
def minGtMax : Program :=
  .groups [.leaf ⟨{ iterate := true, minIter := 3, maxIter := 2 }, [⟨1, 0, [], [.reduce]⟩]⟩]
end Example

end PysphVerif.Schedule
