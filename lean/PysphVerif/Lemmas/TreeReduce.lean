import PysphVerif.Lemmas.Determinism
import PysphVerif.Model.TreeReduce
import Mathlib.Order.Lattice
import Mathlib.Algebra.Order.Field.Basic
import Mathlib.Tactic.Linarith
import Mathlib.Tactic.Ring
import Mathlib.Tactic.NormNum
/-!
Helper lemmas for the level-1 reduction of the parallel octree build and for the
pruning test (`Model/TreeReduce.lean`), used by `Props/C05.lean`.
-/
namespace PysphVerif.TreeReduce
open PysphVerif.Determinism

variable {α : Type}

/-- `own_row_schedule_independence` of `Props/C05.lean` (same proof), needed here -/
theorem runLoop_eq_evalAll {ρ κ : Type} {f : ρ → ρ → ρ} {rd : ρ → κ} (D : Discipline f rd)
    (nb : Nat → List Nat) (parts : List (List Nat)) (sched : List Nat) (st : List ρ)
    (hpart : parts.flatten.Nodup) :
    runLoop f nb parts sched st = evalAll f nb parts.flatten st := by
  apply List.ext_getElem?
  intro i
  unfold runLoop evalAll
  rw [run_getElem? D, List.getElem?_mapIdx,
    rowOf_interleave (ownerOf parts) i _ sched (owned_threadProgs nb parts hpart),
    rowOf_owner nb parts hpart i]
  congr 1
  funext r
  unfold evalAt
  by_cases hin : i ∈ parts.flatten
  · simp only [hin, if_true, rowOps, List.foldl_map, evalRow, absorbOp]
  · simp only [hin, if_false, List.foldl_nil]

/-- the loop body keeps the own-row discipline: it reads particle rows only, and
particle rows are never changed -/
theorem absorbPart_discipline [Max α] : Discipline (absorbPart (α := α)) TRow.rd := by
  constructor
  · intro r s s' h
    cases s with
    | tab t =>
      cases s' with
      | tab t' => cases r <;> rfl
      | part o' h' => simp [TRow.rd] at h
    | part o hh =>
      cases s' with
      | tab t' => simp [TRow.rd] at h
      | part o' h' =>
        simp only [TRow.rd, Option.some.injEq, Prod.mk.injEq] at h
        obtain ⟨rfl, rfl⟩ := h
        rfl
  · intro r s
    cases r <;> cases s <;> rfl

/-- the value of one octant: fold of `max` over the particles of that octant -/
def octMax [Max α] (oct : Nat → Nat) (h : Nat → α) (o : Nat) (z : α) (ps : List Nat) : α :=
  ps.foldl (fun a p => if o = oct p then max a (h p) else a) z

theorem foldl_serialStep_apply [Max α] (oct : Nat → Nat) (h : Nat → α) (ps : List Nat)
    (tab : Nat → α) (o : Nat) :
    (ps.foldl (serialStep oct h) tab) o = octMax oct h o (tab o) ps := by
  induction ps generalizing tab with
  | nil => rfl
  | cons p ps ih =>
    simp only [List.foldl_cons, octMax]
    rw [ih]
    rfl

theorem serialHmax_apply [Max α] (zero : α) (oct : Nat → Nat) (h : Nat → α) (ps : List Nat)
    (o : Nat) : serialHmax zero oct h ps o = octMax oct h o zero ps :=
  foldl_serialStep_apply oct h ps _ o

theorem octMax_append [Max α] (oct : Nat → Nat) (h : Nat → α) (o : Nat) (z : α)
    (a b : List Nat) : octMax oct h o z (a ++ b) = octMax oct h o (octMax oct h o z a) b := by
  simp only [octMax, List.foldl_append]

theorem octMax_cons [Max α] (oct : Nat → Nat) (h : Nat → α) (o : Nat) (z : α) (p : Nat)
    (ps : List Nat) :
    octMax oct h o z (p :: ps) = octMax oct h o (if o = oct p then max z (h p) else z) ps := rfl

theorem octMax_max [LinearOrder α] (oct : Nat → Nat) (h : Nat → α) (o : Nat) (a b : α)
    (ps : List Nat) : octMax oct h o (max a b) ps = max a (octMax oct h o b ps) := by
  induction ps generalizing b with
  | nil => rfl
  | cons p ps ih =>
    rw [octMax_cons, octMax_cons]
    by_cases hp : o = oct p
    · rw [if_pos hp, if_pos hp, max_assoc]
      exact ih _
    · rw [if_neg hp, if_neg hp]
      exact ih _

theorem octMax_ge [LinearOrder α] (oct : Nat → Nat) (h : Nat → α) (o : Nat) (z : α)
    (ps : List Nat) : z ≤ octMax oct h o z ps := by
  induction ps generalizing z with
  | nil => exact le_refl _
  | cons p ps ih =>
    rw [octMax_cons]
    by_cases hp : o = oct p
    · rw [if_pos hp]
      exact le_trans (le_max_left _ _) (ih _)
    · rw [if_neg hp]
      exact ih _

theorem octMax_perm [LinearOrder α] (oct : Nat → Nat) (h : Nat → α) (o : Nat) (z : α)
    {l₁ l₂ : List Nat} (hp : l₁.Perm l₂) : octMax oct h o z l₁ = octMax oct h o z l₂ := by
  unfold octMax
  refine hp.foldl_eq' ?_ z
  intro x _ y _ a
  by_cases hx : o = oct x <;> by_cases hy : o = oct y
  · simp only [if_pos hx, if_pos hy]
    exact max_right_comm _ _ _
  · simp only [if_pos hx, if_neg hy]
  · simp only [if_neg hx, if_pos hy]
  · simp only [if_neg hx, if_neg hy]

/-- every particle of `ps` in the octant is below the octant's value -/
theorem le_octMax_of_mem [LinearOrder α] (oct : Nat → Nat) (h : Nat → α) (o : Nat) (z : α)
    (ps : List Nat) (p : Nat) (hp : p ∈ ps) (ho : o = oct p) : h p ≤ octMax oct h o z ps := by
  induction ps generalizing z with
  | nil => cases hp
  | cons q ps ih =>
    rw [octMax_cons]
    rcases List.mem_cons.mp hp with rfl | hin
    · rw [if_pos ho]
      exact le_trans (le_max_right _ _) (octMax_ge oct h _ _ ps)
    · exact ih _ hin

/-! ### rows of the parallel region -/

theorem initState_tab (zero : α) (oct : Nat → Nat) (h : Nat → α) (T n t : Nat) (ht : t < T) :
    (initState zero oct h T n)[t]? = some (TRow.tab (fun _ => zero)) := by
  unfold initState
  rw [List.getElem?_append_left (by simpa using ht)]
  simp [ht]

theorem initState_part (zero : α) (oct : Nat → Nat) (h : Nat → α) (T n p : Nat) (hp : p < n) :
    (initState zero oct h T n)[p + T]? = some (TRow.part (oct p) (h p)) := by
  unfold initState partRows
  rw [List.getElem?_append_right (by simp)]
  simp [hp]

theorem evalRow_tab [Max α] (zero : α) (oct : Nat → Nat) (h : Nat → α) (T n : Nat)
    (tab : Nat → α) (chunk : List Nat) (hc : ∀ p ∈ chunk, p < n) :
    evalRow absorbPart (initState zero oct h T n) (TRow.tab tab) (chunk.map (· + T)) =
      TRow.tab (chunk.foldl (serialStep oct h) tab) := by
  unfold evalRow
  induction chunk generalizing tab with
  | nil => rfl
  | cons p ps ih =>
    have hp : p < n := hc p (List.mem_cons_self ..)
    simp only [List.map_cons, List.foldl_cons]
    have : absorb absorbPart (initState zero oct h T n) (TRow.tab tab) (p + T) =
        TRow.tab (serialStep oct h tab p) := by
      unfold absorb
      rw [initState_part zero oct h T n p hp]
      rfl
    rw [this]
    exact ih _ (fun q hq => hc q (List.mem_cons_of_mem _ hq))

theorem flatten_singletons (T : Nat) :
    ((List.range T).map (fun t => [t])).flatten = List.range T := by
  induction T with
  | zero => rfl
  | succ k ih =>
    rw [List.range_succ, List.map_append, List.flatten_append, ih]
    simp

/-- the tables of the parallel region, under ANY interleaving: thread `t` holds the
serial fold over its own chunk -/
theorem parTables_take [Max α] (zero : α) (oct : Nat → Nat) (h : Nat → α) (n : Nat)
    (chunks : List (List Nat)) (sched : List Nat)
    (hc : ∀ c ∈ chunks, ∀ p ∈ c, p < n) :
    (parTables zero oct h n chunks sched).take chunks.length =
      chunks.map (fun c => TRow.tab (serialHmax zero oct h c)) := by
  unfold parTables
  rw [runLoop_eq_evalAll absorbPart_discipline _ _ sched _
    (by rw [flatten_singletons]; exact List.nodup_range)]
  rw [flatten_singletons]
  apply List.ext_getElem?
  intro t
  rw [List.getElem?_take, List.getElem?_map]
  by_cases ht : t < chunks.length
  · simp only [ht, if_true]
    unfold evalAll
    rw [List.getElem?_mapIdx, initState_tab zero oct h _ n t ht]
    simp only [Option.map_some, List.getElem?_eq_getElem ht]
    congr 1
    unfold evalAt
    simp only [List.mem_range, ht, if_true]
    unfold chunkRows
    simp only [List.getElem?_eq_getElem ht, Option.getD_some]
    exact evalRow_tab zero oct h _ n _ _ (hc _ (List.getElem_mem ht))
  · simp only [ht, if_false]
    rw [List.getElem?_eq_none (by omega)]
    rfl

theorem merge_chunks [LinearOrder α] (zero : α) (oct : Nat → Nat) (h : Nat → α)
    (cs : List (List Nat)) (acc : Nat → α) (hacc : ∀ o, zero ≤ acc o) (o : Nat) :
    ((cs.map (fun c => TRow.tab (serialHmax zero oct h c))).foldl (mergeStep zero) acc) o =
      octMax oct h o (acc o) cs.flatten := by
  induction cs generalizing acc with
  | nil => rfl
  | cons c cs ih =>
    simp only [List.map_cons, List.foldl_cons, List.flatten_cons, octMax_append]
    rw [ih]
    · congr 1
      show max (serialHmax zero oct h c o) (acc o) = _
      rw [serialHmax_apply, max_comm, ← octMax_max, max_eq_left (hacc o)]
    · intro o'
      exact le_trans (hacc o') (le_max_right _ _)

/-! ### one thread on the shared table -/

theorem interleave_single (prog : List Op) (sched : List Nat) :
    interleave [prog] sched = prog := by
  induction sched generalizing prog with
  | nil => simp [interleave]
  | cons t s ih =>
    cases t with
    | zero =>
      cases prog with
      | nil => simp only [interleave, popThread]; exact ih []
      | cons op rest => simp only [interleave, popThread]; rw [ih rest]
    | succ t => simp only [interleave, popThread]; exact ih prog

theorem racy_fold_single [Max α] (oct : Nat → Nat) (h : Nat → α) (c : List Nat) (s : Racy α) :
    ((racyProg 0 c).foldl (racyStep oct h) s).shared = c.foldl (serialStep oct h) s.shared := by
  induction c generalizing s with
  | nil => rfl
  | cons p ps ih =>
    simp only [racyProg, List.flatMap_cons, List.cons_append, List.nil_append,
      List.foldl_cons] at ih ⊢
    rw [ih]
    congr 1
    funext o
    simp only [racyStep, serialStep, bump]
    by_cases ho : o = oct p
    · subst ho; simp
    · simp [ho]

/-! ### pruning -/

section field
variable [Field α] [LinearOrder α] [IsStrictOrderedRing α]

theorem sq_ge_of_pruned_axis (half k hq hj hmax c q x : α) (hk : 0 ≤ k) (hhq : 0 ≤ hq)
    (hhj : 0 ≤ hj) (hle : hj ≤ hmax) (hin : |x - c| ≤ half)
    (hp : prunedOnAxis half k hq hmax c q) :
    (k * hq) * (k * hq) ≤ (x - q) * (x - q) ∧ (k * hj) * (k * hj) ≤ (x - q) * (x - q) := by
  unfold prunedOnAxis at hp
  have h1 : k * hq ≤ max (k * hq) (k * hmax) := le_max_left _ _
  have h2 : k * hj ≤ max (k * hq) (k * hmax) :=
    le_trans (mul_le_mul_of_nonneg_left hle hk) (le_max_right _ _)
  have hq0 : 0 ≤ k * hq := mul_nonneg hk hhq
  have hj0 : 0 ≤ k * hj := mul_nonneg hk hhj
  obtain ⟨hlo, hhi⟩ := abs_le.mp hin
  rcases le_max_iff.mp hp with h | h
  · have hd : max (k * hq) (k * hmax) ≤ x - q := by linarith
    have e : (x - q) * (x - q) = (x - q) * (x - q) := rfl
    exact ⟨mul_self_le_mul_self hq0 (le_trans h1 hd), mul_self_le_mul_self hj0 (le_trans h2 hd)⟩
  · have hd : max (k * hq) (k * hmax) ≤ q - x := by linarith
    have e : (x - q) * (x - q) = (q - x) * (q - x) := by ring
    rw [e]
    exact ⟨mul_self_le_mul_self hq0 (le_trans h1 hd), mul_self_le_mul_self hj0 (le_trans h2 hd)⟩

theorem dist2_ge_axes (a b : α × α × α) :
    (a.1 - b.1) * (a.1 - b.1) ≤ dist2 a b ∧ (a.2.1 - b.2.1) * (a.2.1 - b.2.1) ≤ dist2 a b ∧
      (a.2.2 - b.2.2) * (a.2.2 - b.2.2) ≤ dist2 a b := by
  unfold dist2
  have h1 := mul_self_nonneg (a.1 - b.1)
  have h2 := mul_self_nonneg (a.2.1 - b.2.1)
  have h3 := mul_self_nonneg (a.2.2 - b.2.2)
  refine ⟨by linarith, by linarith, by linarith⟩

end field

end PysphVerif.TreeReduce
