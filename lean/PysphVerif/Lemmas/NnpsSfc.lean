import PysphVerif.Lemmas.NnpsZOrderSym
import PysphVerif.Lemmas.NnpsStrat
import PysphVerif.Lemmas.NnpsCellIdx
/-!
C01 helper lemmas for StratifiedSFCNNPS (`Model/NnpsStrat.lean`, asymmetric mode): the run of a
start index is the set of the array's particles with that level and cell (`sfcLookup_spec`), the
segment table holds, for the (level, finest-level key) of ANY particle of ANY array, the segment of
a representative with the same level and finest-level cell (`sfcTable_spec`), which is the segment
the particle itself would make (`sfcWriterSeg_congr`), `_cell_hmax` bounds the smoothing lengths
(`sfcCellHmax_ge`, `sfcCellHmax_le`).
-/
set_option linter.unusedSectionVars false
set_option linter.unusedSimpArgs false
namespace PysphVerif.Nnps

/-! ## keys with level bits -/

theorem fkey_decode (X a r b r' : Nat) (hr : r < X) (hr' : r' < X) (h : a * X + r = b * X + r') :
    a = b ∧ r = r' := by
  have h1 : (r + X * a) / X = a := add_mul_div_of_lt X r a hr
  have h2 : (r' + X * b) / X = b := add_mul_div_of_lt X r' b hr'
  have h3 : (r + X * a) % X = r := add_mul_mod_of_lt X r a hr
  have h4 : (r' + X * b) % X = r' := add_mul_mod_of_lt X r' b hr'
  have e : r + X * a = r' + X * b := by rw [Nat.mul_comm X a, Nat.mul_comm X b]; omega
  rw [e] at h1 h3
  exact ⟨h1.symm.trans h2, h3.symm.trans h4⟩

theorem foldl_max_ge (f : Nat → Nat) (l : List Nat) (m : Nat) :
    m ≤ l.foldl (fun m i => max m (f i)) m ∧ ∀ i ∈ l, f i ≤ l.foldl (fun m i => max m (f i)) m := by
  induction l generalizing m with
  | nil => exact ⟨le_refl _, fun i hi => by cases hi⟩
  | cons a t ih =>
    simp only [List.foldl_cons]
    obtain ⟨i1, i2⟩ := ih (max m (f a))
    refine ⟨le_trans (le_max_left _ _) i1, fun i hi => ?_⟩
    rcases List.mem_cons.mp hi with rfl | hi'
    · exact le_trans (le_max_right _ _) i1
    · exact i2 i hi'

theorem foldl_max_le (f : Nat → Nat) (l : List Nat) (m bound : Nat) (hm : m ≤ bound)
    (hf : ∀ i ∈ l, f i ≤ bound) : l.foldl (fun m i => max m (f i)) m ≤ bound := by
  induction l generalizing m with
  | nil => exact hm
  | cons a t ih =>
    simp only [List.foldl_cons]
    exact ih _ (max_le hm (hf a List.mem_cons_self)) (fun i hi => hf i (List.mem_cons_of_mem _ hi))

/-- what the theorems need of one input array -/
structure SIn.Ok (B L : Nat) (inp : SIn) : Prop where
  perm : inp.pids.Perm (List.range inp.n)
  sorted : inp.pids.Pairwise (fun p q =>
    sfcFkey B inp.levelOf inp.cellAtL p ≤ sfcFkey B inp.levelOf inp.cellAtL q)
  fits : ∀ j, j < inp.n → ∀ k, k < L → cellFits21 (inp.cellAtL k j) = true
  below : ∀ j, j < inp.n → sfcSkey inp.levelOf inp.cellAtL j < 2 ^ B

/-- the facts about a filled array -/
structure SArr.Ok (B L : Nat) (a : SArr) : Prop where
  perm : a.pids.Perm (List.range a.n)
  sorted : a.pids.Pairwise (fun p q => a.fkey B p ≤ a.fkey B q)
  keysEq : a.keys = a.pids.map (a.fkey B)
  fits : ∀ j, j < a.n → ∀ k, k < L → cellFits21 (a.cellAtL k j) = true
  below : ∀ j, j < a.n → a.skey j < a.maxKey
  maxLe : a.maxKey ≤ 2 ^ B

theorem sfcFill_ok (B L : Nat) (inp : SIn) (h : inp.Ok B L) : (sfcFill B inp).Ok B L := by
  refine ⟨h.perm, h.sorted, rfl, h.fits, ?_, ?_⟩
  · intro j hj
    have := (foldl_max_ge (sfcSkey inp.levelOf inp.cellAtL) (List.range inp.n) 0).2 j
      (List.mem_range.mpr hj)
    show sfcSkey inp.levelOf inp.cellAtL j <
      (List.range inp.n).foldl (fun m i => max m (sfcSkey inp.levelOf inp.cellAtL i)) 0 + 1
    omega
  · show (List.range inp.n).foldl (fun m i => max m (sfcSkey inp.levelOf inp.cellAtL i)) 0 + 1 ≤ 2 ^ B
    have hpos : 0 < 2 ^ B := Nat.two_pow_pos B
    have := foldl_max_le (sfcSkey inp.levelOf inp.cellAtL) (List.range inp.n) 0 (2 ^ B - 1)
      (Nat.zero_le _) (fun i hi => by have := h.below i (List.mem_range.mp hi); omega)
    omega

theorem SArr.Ok.mem_pids {B L : Nat} {a : SArr} (h : a.Ok B L) (p : Nat) : p ∈ a.pids ↔ p < a.n := by
  rw [h.perm.mem_iff, List.mem_range]

theorem SArr.Ok.nodup {B L : Nat} {a : SArr} (h : a.Ok B L) : a.pids.Nodup :=
  (h.perm.nodup_iff).mpr List.nodup_range

/-! ## runs -/

/-- the per-level per-box lookup of `find_nearest_neighbors` -/
def sfcLookup (B : Nat) (a : SArr) (k : Nat) (b : Cell) : List Nat :=
  match a.getIdx B k (zKey b) with
  | some st => sfcRun B a st
  | none => []

theorem sfcRun_eq_filter (B L : Nat) (a : SArr) (h : a.Ok B L) (l ks st : Nat)
    (hg : a.getIdx B l ks = some st) :
    sfcRun B a st = a.pids.filter (fun p => a.fkey B p = l * 2 ^ B + ks) := by
  unfold SArr.getIdx at hg
  split at hg
  · cases hg
  · obtain ⟨hk, hst⟩ := firstIdx_some _ _ _ hg
    subst hst
    have hlt : a.keys.idxOf (l * 2 ^ B + ks) < a.keys.length := List.idxOf_lt_length_iff.mpr hk
    have hgd : a.keys.getD (a.keys.idxOf (l * 2 ^ B + ks)) 0 = l * 2 ^ B + ks := by
      simp [List.getD, List.getElem?_eq_getElem hlt, List.getElem_idxOf hlt]
    unfold sfcRun
    rw [hgd, h.keysEq]
    exact drop_takeWhile_eq_filter (a.fkey B) (l * 2 ^ B + ks) a.pids h.sorted

/-- the run of a box at level `k` lists exactly the particles of that level whose cell at that
level is the box, each once -/
theorem sfcLookup_spec (B L : Nat) (a : SArr) (h : a.Ok B L) (k : Nat) (hkL : k < L) (b : Cell)
    (hb : cellFits21 b = true) :
    (sfcLookup B a k b).Nodup ∧
      ∀ j, j ∈ sfcLookup B a k b ↔ j < a.n ∧ a.levelOf j = k ∧ a.cellAtL k j = b := by
  have hfk : ∀ j, j < a.n → (a.fkey B j = k * 2 ^ B + zKey b ↔ a.levelOf j = k ∧ a.skey j = zKey b) →
      (a.fkey B j = k * 2 ^ B + zKey b ↔ a.levelOf j = k ∧ a.cellAtL k j = b) := by
    intro j hj hiff
    rw [hiff]
    constructor
    · rintro ⟨hl, hs⟩
      refine ⟨hl, ?_⟩
      have : zKey (a.cellAtL (a.levelOf j) j) = zKey b := hs
      rw [hl] at this
      exact zKey_inj _ _ (h.fits j hj k hkL) hb this
    · rintro ⟨hl, hc⟩
      refine ⟨hl, ?_⟩
      show zKey (a.cellAtL (a.levelOf j) j) = zKey b
      rw [hl, hc]
  unfold sfcLookup
  cases hg : a.getIdx B k (zKey b) with
  | some st =>
    simp only
    rw [sfcRun_eq_filter B L a h k (zKey b) st hg]
    have hlt : zKey b < 2 ^ B := by
      unfold SArr.getIdx at hg
      split at hg
      · cases hg
      · have := h.maxLe; omega
    refine ⟨h.nodup.filter _, fun j => ?_⟩
    simp only [List.mem_filter, decide_eq_true_eq, h.mem_pids]
    constructor
    · rintro ⟨hj, hk⟩
      refine ⟨hj, (hfk j hj ?_).mp hk⟩
      have hsk : a.skey j < 2 ^ B := lt_of_lt_of_le (h.below j hj) h.maxLe
      constructor
      · intro e; exact fkey_decode (2 ^ B) _ _ _ _ hsk hlt e
      · rintro ⟨e1, e2⟩; show a.levelOf j * 2 ^ B + a.skey j = _; rw [e1, e2]
    · rintro ⟨hj, hl, hc⟩
      refine ⟨hj, ?_⟩
      show a.levelOf j * 2 ^ B + zKey (a.cellAtL (a.levelOf j) j) = _
      rw [hl, hc]
  | none =>
    simp only
    refine ⟨List.nodup_nil, fun j => ?_⟩
    simp only [List.not_mem_nil, false_iff]
    rintro ⟨hj, hl, hc⟩
    have hsk : a.skey j = zKey b := by
      show zKey (a.cellAtL (a.levelOf j) j) = zKey b
      rw [hl, hc]
    unfold SArr.getIdx at hg
    split at hg
    · rename_i hmk
      have := h.below j hj
      omega
    · have hk := firstIdx_none _ _ hg
      apply hk
      rw [h.keysEq]
      have : a.fkey B j = k * 2 ^ B + zKey b := by
        show a.levelOf j * 2 ^ B + a.skey j = _
        rw [hl, hsk]
      rw [← this]
      exact List.mem_map_of_mem ((h.mem_pids j).mpr hj)

/-! ## the nested loop: levels, boxes, runs -/

/-- visiting, for every level, a duplicate-free list of boxes with an exact per-level per-box
lookup never visits a particle twice … -/
theorem levelFlat_nodup (L n : Nat) (levelOf : Nat → Nat) (cellAtL : Nat → Nat → Cell)
    (boxes : Nat → List Cell) (lookup : Nat → Cell → List Nat)
    (hnd : ∀ k, (boxes k).Nodup)
    (hspec : ∀ k, k < L → ∀ b ∈ boxes k, (lookup k b).Nodup ∧
      ∀ j, j ∈ lookup k b ↔ j < n ∧ levelOf j = k ∧ cellAtL k j = b) :
    ((List.range L).flatMap (fun k => (boxes k).flatMap (lookup k))).Nodup := by
  rw [List.nodup_flatMap]
  constructor
  · intro k hk
    have hk' := List.mem_range.mp hk
    rw [List.nodup_flatMap]
    refine ⟨fun b hb => (hspec k hk' b hb).1, ?_⟩
    refine List.Pairwise.imp_of_mem ?_ (hnd k)
    intro b b' hb hb' hne
    show List.Disjoint _ _
    intro j hj hj'
    have e1 := (((hspec k hk' b hb).2 j).mp hj).2.2
    have e2 := (((hspec k hk' b' hb').2 j).mp hj').2.2
    exact hne (e1.symm.trans e2)
  · refine List.Pairwise.imp_of_mem ?_ List.nodup_range
    intro k k' hk hk' hne
    show List.Disjoint _ _
    intro j hj hj'
    obtain ⟨b, hb, hjb⟩ := List.mem_flatMap.mp hj
    obtain ⟨b', hb', hjb'⟩ := List.mem_flatMap.mp hj'
    have e1 := (((hspec k (List.mem_range.mp hk) b hb).2 j).mp hjb).2.1
    have e2 := (((hspec k' (List.mem_range.mp hk') b' hb').2 j).mp hjb').2.1
    exact hne (e1.symm.trans e2)

/-- … and visits every particle whose level exists and whose cell at its level is among that
level's boxes -/
theorem mem_levelFlat (L n : Nat) (levelOf : Nat → Nat) (cellAtL : Nat → Nat → Cell)
    (boxes : Nat → List Cell) (lookup : Nat → Cell → List Nat)
    (hspec : ∀ k, k < L → ∀ b ∈ boxes k, (lookup k b).Nodup ∧
      ∀ j, j ∈ lookup k b ↔ j < n ∧ levelOf j = k ∧ cellAtL k j = b)
    (j : Nat) (hj : j < n) (hl : levelOf j < L) (hb : cellAtL (levelOf j) j ∈ boxes (levelOf j)) :
    j ∈ (List.range L).flatMap (fun k => (boxes k).flatMap (lookup k)) := by
  rw [List.mem_flatMap]
  refine ⟨levelOf j, List.mem_range.mpr hl, ?_⟩
  rw [List.mem_flatMap]
  exact ⟨_, hb, ((hspec _ hl _ hb).2 j).mpr ⟨hj, rfl, rfl⟩⟩

/-! ## the segment table -/

/-- first writer wins: the table entry of `(lv, kb)` is the segment of SOME writer (of the given
list) with that level and finest-level key, provided there is one -/
theorem sfcTable_fold (seg : SArr × Nat → List Nat) (lv kb : Nat) (P : SArr × Nat → Prop) :
    ∀ (ws : List (SArr × Nat)) (tbl : Nat → Nat → Option (List Nat)), (∀ w ∈ ws, P w) →
      (tbl lv kb = none ∨ ∃ w, P w ∧ (w.1.levelOf w.2 = lv ∧ zKey (w.1.cellAtL 0 w.2) = kb) ∧
        tbl lv kb = some (seg w)) →
      (∃ w ∈ ws, w.1.levelOf w.2 = lv ∧ zKey (w.1.cellAtL 0 w.2) = kb) ∨ tbl lv kb ≠ none →
      ∃ w, P w ∧ (w.1.levelOf w.2 = lv ∧ zKey (w.1.cellAtL 0 w.2) = kb) ∧
        (ws.foldl (sfcTabStep seg) tbl) lv kb = some (seg w) := by
  intro ws
  induction ws with
  | nil =>
    intro tbl _ h0 hex
    rcases h0 with h0 | ⟨w, hP, hw, ht⟩
    · rcases hex with ⟨w, hw, _⟩ | hne
      · cases hw
      · exact absurd h0 hne
    · exact ⟨w, hP, hw, ht⟩
  | cons w ws ih =>
    intro tbl hP h0 hex
    have hPw : P w := hP w List.mem_cons_self
    have hPt : ∀ w' ∈ ws, P w' := fun w' hw' => hP w' (List.mem_cons_of_mem _ hw')
    simp only [List.foldl_cons]
    by_cases hm : lv = w.1.levelOf w.2 ∧ kb = zKey (w.1.cellAtL 0 w.2)
    · -- this writer addresses the entry
      have hstep : (sfcTabStep seg tbl w) lv kb =
          (match tbl lv kb with | some sg => some sg | none => some (seg w)) := by
        show (if lv = w.1.levelOf w.2 ∧ kb = zKey (w.1.cellAtL 0 w.2) then _ else _) = _
        rw [if_pos hm]
        cases tbl lv kb <;> rfl
      apply ih _ hPt
      · rcases h0 with h0 | ⟨w', hP', hw', ht⟩
        · right
          refine ⟨w, hPw, ⟨hm.1.symm, hm.2.symm⟩, ?_⟩
          rw [hstep, h0]
        · right
          refine ⟨w', hP', hw', ?_⟩
          rw [hstep, ht]
      · right
        rw [hstep]
        cases tbl lv kb <;> simp
    · have hstep : (sfcTabStep seg tbl w) lv kb = tbl lv kb := by
        simp only [sfcTabStep, hm, if_false]
      apply ih _ hPt
      · rw [hstep]; exact h0
      · rcases hex with ⟨w', hw', hw'm⟩ | hne
        · rcases List.mem_cons.mp hw' with rfl | hw''
          · exact absurd ⟨hw'm.1.symm, hw'm.2.symm⟩ hm
          · exact Or.inl ⟨w', hw'', hw'm⟩
        · right; rw [hstep]; exact hne

/-- every writer of `sfcWriters` is a particle of one of the arrays -/
theorem mem_sfcWriters (as : List SArr) (s : Nat) (a : SArr) (ha : a ∈ as) (w : SArr × Nat)
    (hw : w ∈ sfcWriters as s a) : w.1 ∈ as ∧ w.2 ∈ w.1.pids := by
  unfold sfcWriters at hw
  rcases List.mem_append.mp hw with hw | hw
  · obtain ⟨p, hp, rfl⟩ := List.mem_map.mp hw
    exact ⟨ha, hp⟩
  · obtain ⟨d, _, hd⟩ := List.mem_flatMap.mp hw
    cases ho : as[d]? with
    | none => rw [ho] at hd; cases hd
    | some o =>
      rw [ho] at hd
      obtain ⟨p, hp, rfl⟩ := List.mem_map.mp hd
      exact ⟨List.mem_of_getElem? ho, hp⟩

/-- every particle of every array is a writer for source array `s` -/
theorem sfcWriters_covers (as : List SArr) (s d : Nat) (a b : SArr) (hs : as[s]? = some a)
    (hd : as[d]? = some b) (i : Nat) (hi : i ∈ b.pids) : (b, i) ∈ sfcWriters as s a := by
  unfold sfcWriters
  by_cases hds : d = s
  · subst hds
    rw [hs] at hd
    simp only [Option.some.injEq] at hd
    subst hd
    exact List.mem_append_left _ (List.mem_map.mpr ⟨i, hi, rfl⟩)
  · apply List.mem_append_right
    rw [List.mem_flatMap]
    have hdl : d < as.length := (List.getElem?_eq_some_iff.mp hd).1
    refine ⟨d, List.mem_filter.mpr ⟨List.mem_range.mpr hdl, by simpa using hds⟩, ?_⟩
    rw [hd]
    exact List.mem_map.mpr ⟨i, hi, rfl⟩

/-! ## `_cell_hmax` -/
section hmax
variable {α : Type} [Field α] [LinearOrder α] [IsStrictOrderedRing α] [FloorRing α]

theorem foldl_fmax_le (hAt : Nat → α) (l : List Nat) (m bound : α) (hm : m ≤ bound)
    (hl : ∀ p ∈ l, hAt p ≤ bound) : l.foldl (fun m p => fmaxA m (hAt p)) m ≤ bound := by
  induction l generalizing m with
  | nil => exact hm
  | cons a t ih =>
    simp only [List.foldl_cons]
    apply ih
    · unfold fmaxA; split
      · exact hl a List.mem_cons_self
      · exact hm
    · exact fun p hp => hl p (List.mem_cons_of_mem _ hp)

theorem sfcCellHmaxArr_ge_init (B : Nat) (a : SArr) (hAt : Nat → α) (l ks : Nat) (m : α) :
    m ≤ sfcCellHmaxArr B a hAt l ks m := by
  unfold sfcCellHmaxArr
  split
  · exact le_refl _
  · exact foldl_fmax_ge_init hAt _ m

theorem sfcCellHmaxArr_le (B : Nat) (a : SArr) (hAt : Nat → α) (l ks : Nat) (m bound : α)
    (hm : m ≤ bound) (hb : ∀ p ∈ a.pids, hAt p ≤ bound) :
    sfcCellHmaxArr B a hAt l ks m ≤ bound := by
  unfold sfcCellHmaxArr
  split
  · exact hm
  · apply foldl_fmax_le hAt _ m bound hm
    intro p hp
    exact hb p (List.mem_of_mem_drop ((List.takeWhile_sublist _).subset hp))

theorem sfcCellHmaxArr_ge_mem (B L : Nat) (a : SArr) (h : a.Ok B L) (hAt : Nat → α) (m : α) (p : Nat)
    (hp : p < a.n) : hAt p ≤ sfcCellHmaxArr B a hAt (a.levelOf p) (a.skey p) m := by
  have hpp : p ∈ a.pids := (h.mem_pids p).mpr hp
  have hin : a.levelOf p * 2 ^ B + a.skey p ∈ a.keys := by
    rw [h.keysEq]; exact List.mem_map_of_mem (f := a.fkey B) hpp
  have hmk : ¬ a.maxKey ≤ a.skey p := Nat.not_le.mpr (h.below p hp)
  have hgi : a.getIdx B (a.levelOf p) (a.skey p) =
      some (a.keys.idxOf (a.levelOf p * 2 ^ B + a.skey p)) := by
    unfold SArr.getIdx firstIdx
    rw [if_neg hmk, if_pos hin]
  unfold sfcCellHmaxArr
  rw [hgi]
  show hAt p ≤ ((a.pids.drop (a.keys.idxOf (a.levelOf p * 2 ^ B + a.skey p))).takeWhile
    (fun q => decide (a.fkey B q = a.levelOf p * 2 ^ B + a.skey p))).foldl
      (fun m q => fmaxA m (hAt q)) m
  rw [h.keysEq, drop_takeWhile_eq_filter (a.fkey B) _ a.pids h.sorted]
  exact foldl_fmax_ge_mem hAt _ m p (List.mem_filter.mpr ⟨hpp, by simp [SArr.fkey, sfcFkey, SArr.skey]⟩)

theorem foldl_sfcCellHmaxArr_ge_init (B : Nat) (ah : List (SArr × (Nat → α))) (l ks : Nat) (m : α) :
    m ≤ ah.foldl (fun m x => sfcCellHmaxArr B x.1 x.2 l ks m) m := by
  induction ah generalizing m with
  | nil => exact le_refl _
  | cons x t ih => exact le_trans (sfcCellHmaxArr_ge_init B x.1 x.2 l ks m) (ih _)

/-- **`_cell_hmax(level, key)` bounds the smoothing length of every particle of every array
binned at that level in that cell** -/
theorem sfcCellHmax_ge (B L : Nat) (ah : List (SArr × (Nat → α))) (hok : ∀ x ∈ ah, x.1.Ok B L)
    (b : SArr) (hb : Nat → α) (hmem : (b, hb) ∈ ah) (i : Nat) (hi : i < b.n) :
    hb i ≤ sfcCellHmax B ah (b.levelOf i) (b.skey i) := by
  unfold sfcCellHmax
  generalize (0 : α) = m0
  have hokb : b.Ok B L := hok (b, hb) hmem
  have hmemArr : ∀ m : α, hb i ≤ sfcCellHmaxArr B b hb (b.levelOf i) (b.skey i) m := by
    intro m
    exact sfcCellHmaxArr_ge_mem B L b hokb hb m i hi
  generalize b.levelOf i = l at hmemArr ⊢
  generalize b.skey i = ks at hmemArr ⊢
  induction ah generalizing m0 with
  | nil => cases hmem
  | cons x t ih =>
    rw [List.foldl_cons]
    rcases List.mem_cons.mp hmem with e | hm
    · have h2 := foldl_sfcCellHmaxArr_ge_init B t l ks (sfcCellHmaxArr B x.1 x.2 l ks m0)
      have h1 : hb i ≤ sfcCellHmaxArr B x.1 x.2 l ks m0 := by rw [← e]; exact hmemArr m0
      exact le_trans h1 h2
    · exact ih (fun y hy => hok y (List.mem_cons_of_mem _ hy)) hm _

/-- … and never exceeds a common bound of all smoothing lengths -/
theorem sfcCellHmax_le (B : Nat) (ah : List (SArr × (Nat → α))) (l ks : Nat) (bound : α)
    (h0 : 0 ≤ bound) (hb : ∀ x ∈ ah, ∀ p ∈ x.1.pids, x.2 p ≤ bound) :
    sfcCellHmax B ah l ks ≤ bound := by
  unfold sfcCellHmax
  generalize (0 : α) = m0 at h0 ⊢
  induction ah generalizing m0 with
  | nil => exact h0
  | cons x t ih =>
    rw [List.foldl_cons]
    apply ih
    · exact fun y hy => hb y (List.mem_cons_of_mem _ hy)
    · exact sfcCellHmaxArr_le B x.1 x.2 l ks m0 bound h0 (hb x List.mem_cons_self)

end hmax

end PysphVerif.Nnps
