import PysphVerif.Model.Determinism
/-!
Helper lemmas for C05 (`Props/C05.lean`): row-wise characterisation of a run of
micro-steps under the own-row discipline, projection of an interleaving onto one
row, sorting, gathering.
-/
namespace PysphVerif.Determinism

variable {ρ κ : Type}

/-- The own-row discipline, semantically: the pair function reads of the *source*
row only the part `rd`, and its write to the *own* row leaves that part unchanged
("reads no property written by the same loop").  That it writes the own row only
is built into `applyOp`. -/
structure Discipline (f : ρ → ρ → ρ) (rd : ρ → κ) : Prop where
  reads_only_rd : ∀ r s s', rd s = rd s' → f r s = f r s'
  keeps_rd : ∀ r s, rd (f r s) = rd r

/-- the micro-step seen from the accumulator -/
def absorbOp (f : ρ → ρ → ρ) (st : List ρ) (acc : ρ) (op : Op) : ρ := absorb f st acc op.src

/-- the micro-steps that target row `i` -/
def rowOf (i : Nat) (ops : List Op) : List Op := ops.filter (fun op => op.dst == i)

theorem applyOp_getElem? (f : ρ → ρ → ρ) (st : List ρ) (op : Op) (i : Nat) :
    (applyOp f st op)[i]? =
      if op.dst = i then (st[i]?).map (fun r => absorb f st r op.src) else st[i]? := by
  unfold applyOp absorb
  cases h : st[op.src]? with
  | none =>
    by_cases hd : op.dst = i
    · simp only [hd, if_true]; cases st[i]? <;> rfl
    · simp only [hd, if_false]
  | some s =>
    simp only [List.getElem?_modify]
    by_cases hd : op.dst = i
    · simp only [hd, if_true]; cases st[i]? <;> rfl
    · simp only [hd, if_false]; cases st[i]? <;> rfl

/-- two states agree on what other rows may read -/
def RdEq (rd : ρ → κ) (st st' : List ρ) : Prop :=
  ∀ j : Nat, (st'[j]?).map rd = (st[j]?).map rd

theorem applyOp_rdEq {f : ρ → ρ → ρ} {rd : ρ → κ} (D : Discipline f rd) (st : List ρ) (op : Op) :
    RdEq rd st (applyOp f st op) := by
  intro j
  rw [applyOp_getElem?]
  by_cases hd : op.dst = j
  · simp only [hd, if_true]
    cases hj : st[j]? with
    | none => rfl
    | some r =>
      simp only [Option.map_some, absorb]
      cases st[op.src]? with
      | none => rfl
      | some s => simp only [D.keeps_rd]
  · simp only [hd, if_false]

theorem absorb_congr {f : ρ → ρ → ρ} {rd : ρ → κ} (D : Discipline f rd) {st st' : List ρ}
    (h : RdEq rd st st') (acc : ρ) (j : Nat) : absorb f st' acc j = absorb f st acc j := by
  have hj := h j
  unfold absorb
  cases h1 : st'[j]? with
  | none =>
    cases h2 : st[j]? with
    | none => rfl
    | some s => rw [h1, h2] at hj; simp at hj
  | some s' =>
    cases h2 : st[j]? with
    | none => rw [h1, h2] at hj; simp at hj
    | some s =>
      rw [h1, h2] at hj
      simp only [Option.map_some, Option.some.injEq] at hj
      exact D.reads_only_rd acc s' s hj

/-- **Row-wise characterisation.**  Under the discipline, after ANY sequence of
micro-steps row `i` is the fold, in order, of exactly the micro-steps that target
row `i`, every source read from the state before the sequence. -/
theorem run_getElem? {f : ρ → ρ → ρ} {rd : ρ → κ} (D : Discipline f rd)
    (ops : List Op) (st : List ρ) (i : Nat) :
    (run f ops st)[i]? = (st[i]?).map (fun r => (rowOf i ops).foldl (absorbOp f st) r) := by
  induction ops generalizing st with
  | nil => simp only [run, rowOf, List.foldl_nil, List.filter_nil]; cases st[i]? <;> rfl
  | cons op ops ih =>
    have hrun : run f (op :: ops) st = run f ops (applyOp f st op) := by
      simp only [run, List.foldl_cons]
    rw [hrun, ih (applyOp f st op)]
    have hcongr : absorbOp f (applyOp f st op) = absorbOp f st := by
      funext acc o
      exact absorb_congr D (applyOp_rdEq D st op) acc o.src
    rw [hcongr, applyOp_getElem?]
    by_cases hd : op.dst = i
    · have hf : rowOf i (op :: ops) = op :: rowOf i ops := by
        simp only [rowOf, List.filter_cons, hd, beq_self_eq_true, if_true]
      simp only [hd, if_true, hf, List.foldl_cons]
      cases st[i]? with
      | none => rfl
      | some r => simp only [Option.map_some, absorbOp]
    · have hf : rowOf i (op :: ops) = rowOf i ops := by
        have : (op.dst == i) = false := by simpa using hd
        simp only [rowOf, List.filter_cons, this]
        rfl
      simp only [hd, if_false, hf]

theorem run_length (f : ρ → ρ → ρ) (ops : List Op) (st : List ρ) :
    (run f ops st).length = st.length := by
  induction ops generalizing st with
  | nil => rfl
  | cons op ops ih =>
    simp only [run, List.foldl_cons] at ih ⊢
    rw [ih]
    unfold applyOp
    cases st[op.src]? with
    | none => rfl
    | some s => simp only [List.length_modify]

/-! ## projecting an interleaving onto one row -/

theorem rowOf_append (i : Nat) (a b : List Op) : rowOf i (a ++ b) = rowOf i a ++ rowOf i b := by
  simp only [rowOf, List.filter_append]

theorem rowOf_rowOps (nb : Nat → List Nat) (i d : Nat) :
    rowOf i (rowOps nb d) = if d = i then rowOps nb d else [] := by
  unfold rowOf rowOps
  by_cases h : d = i
  · simp only [h, if_true, List.filter_map]
    congr 1
    apply List.filter_eq_self.mpr
    intro a _
    simp
  · simp only [h, if_false, List.filter_map]
    have : List.filter ((fun op => op.dst == i) ∘ fun j => Op.mk d j) (nb d) = [] := by
      apply List.filter_eq_nil_iff.mpr
      intro a _
      simpa using h
    rw [this]; rfl

/-- thread `t` handles destination `i` at most once: the micro-steps on row `i` in its
program are exactly the neighbour list of `i` (or nothing) -/
theorem rowOf_threadProg (nb : Nat → List Nat) (i : Nat) (dests : List Nat) (hnd : dests.Nodup) :
    rowOf i (threadProg nb dests) = if i ∈ dests then rowOps nb i else [] := by
  induction dests with
  | nil => simp [threadProg, rowOf]
  | cons d ds ih =>
    have hnd' := List.nodup_cons.mp hnd
    have ih' := ih hnd'.2
    unfold threadProg at ih' ⊢
    simp only [List.flatMap_cons, rowOf_append, rowOf_rowOps, ih']
    by_cases h : d = i
    · subst h
      have : d ∉ ds := hnd'.1
      simp [this]
    · have h' : ¬ i = d := fun e => h e.symm
      simp [h, h']

/-- what `popThread` does, in terms of positions -/
theorem popThread_some {progs : List (List Op)} {t : Nat} {op : Op} {progs' : List (List Op)}
    (h : popThread progs t = some (op, progs')) :
    ∃ rest, progs[t]? = some (op :: rest) ∧ progs' = progs.set t rest := by
  induction progs generalizing t progs' with
  | nil => simp [popThread] at h
  | cons p ps ih =>
    cases t with
    | zero =>
      cases p with
      | nil => simp [popThread] at h
      | cons o rest =>
        simp only [popThread, Option.some.injEq, Prod.mk.injEq] at h
        exact ⟨rest, by simp [h.1], by simp [← h.2]⟩
    | succ t =>
      simp only [popThread] at h
      cases hp : popThread ps t with
      | none => simp [hp] at h
      | some v =>
        obtain ⟨o, ps'⟩ := v
        simp only [hp, Option.some.injEq, Prod.mk.injEq] at h
        obtain ⟨ho, hps⟩ := h
        subst ho
        obtain ⟨rest, h1, h2⟩ := ih hp
        exact ⟨rest, by simpa using h1, by simp [← hps, h2]⟩

/-- rows are owned: every micro-step of thread `t` targets a row whose owner is `t` -/
def Owned (owner : Nat → Nat) (progs : List (List Op)) : Prop :=
  ∀ t p, progs[t]? = some p → ∀ op ∈ p, owner op.dst = t

theorem rowOf_flatten_owned (owner : Nat → Nat) (i : Nat) (progs : List (List Op))
    (k : Nat) (h : ∀ t p, progs[t]? = some p → ∀ op ∈ p, owner op.dst = t + k) :
    rowOf i progs.flatten = rowOf i ((progs[owner i - k]?).getD []) ∨
      (owner i < k ∧ rowOf i progs.flatten = []) := by
  induction progs generalizing k with
  | nil => left; simp [rowOf]
  | cons p ps ih =>
    have hps : ∀ t q, ps[t]? = some q → ∀ op ∈ q, owner op.dst = t + (k + 1) := by
      intro t q hq op hop
      have := h (t + 1) q (by simpa using hq) op hop
      omega
    have hp : ∀ op ∈ p, owner op.dst = k := by
      intro op hop
      have := h 0 p (by simp) op hop
      omega
    simp only [List.flatten_cons, rowOf_append]
    by_cases hik : owner i = k
    · -- row i belongs to the head thread; the tail contributes nothing
      left
      have htail : rowOf i ps.flatten = [] := by
        unfold rowOf
        apply List.filter_eq_nil_iff.mpr
        intro op hop
        obtain ⟨q, hq, hopq⟩ := List.mem_flatten.mp hop
        obtain ⟨t, ht, hqt⟩ := List.getElem_of_mem hq
        have := hps t q (by rw [List.getElem?_eq_getElem ht, hqt]) op hopq
        intro hd
        have hd' : op.dst = i := by simpa using hd
        rw [hd'] at this
        omega
      have h0 : owner i - k = 0 := by omega
      simp [htail, h0]
    · have hhead : rowOf i p = [] := by
        unfold rowOf
        apply List.filter_eq_nil_iff.mpr
        intro op hop hd
        have hd' : op.dst = i := by simpa using hd
        have := hp op hop
        rw [hd'] at this
        exact hik this
      rcases ih (k + 1) hps with h1 | ⟨h1, h2⟩
      · by_cases hlt : owner i < k
        · right
          refine ⟨hlt, ?_⟩
          have h0 : owner i - (k + 1) = 0 := by omega
          -- the tail claim degenerates to ps[0]; it has no ops on row i either
          have : rowOf i ((ps[owner i - (k + 1)]?).getD []) = [] := by
            rw [h0]
            cases hq : ps[0]? with
            | none => simp [rowOf]
            | some q =>
              simp only [Option.getD_some]
              unfold rowOf
              apply List.filter_eq_nil_iff.mpr
              intro op hop hd
              have hd' : op.dst = i := by simpa using hd
              have := hps 0 q hq op hop
              rw [hd'] at this
              omega
          simp [hhead, h1, this]
        · left
          have hs : owner i - k = (owner i - (k + 1)) + 1 := by omega
          simp [hhead, h1, hs]
      · right
        exact ⟨by omega, by simp [hhead, h2]⟩

/-- **Projection of an interleaving.**  If rows are owned, then whatever the
schedule, the micro-steps on row `i` occur in the global order exactly as they
occur in the program of the owner of `i`. -/
theorem rowOf_interleave (owner : Nat → Nat) (i : Nat) (progs : List (List Op))
    (sched : List Nat) (h : Owned owner progs) :
    rowOf i (interleave progs sched) = rowOf i ((progs[owner i]?).getD []) := by
  induction sched generalizing progs with
  | nil =>
    simp only [interleave]
    rcases rowOf_flatten_owned owner i progs 0 (by simpa [Owned] using h) with h1 | ⟨h1, _⟩
    · simpa using h1
    · omega
  | cons t sched ih =>
    simp only [interleave]
    cases hp : popThread progs t with
    | none => exact ih progs h
    | some v =>
      obtain ⟨op, progs'⟩ := v
      obtain ⟨rest, h1, h2⟩ := popThread_some hp
      have ht : t < progs.length := by
        rcases Nat.lt_or_ge t progs.length with hlt | hge
        · exact hlt
        · rw [List.getElem?_eq_none hge] at h1; simp at h1
      have hown' : Owned owner progs' := by
        intro s q hq o ho
        rw [h2, List.getElem?_set] at hq
        by_cases hst : t = s
        · subst hst
          simp only [if_true, ht] at hq
          have hq' : rest = q := by simpa using hq
          subst hq'
          exact h t (op :: rest) h1 o (List.mem_cons_of_mem _ ho)
        · simp only [hst, if_false] at hq
          exact h s q hq o ho
      have hrec := ih progs' hown'
      have hopown : owner op.dst = t := h t (op :: rest) h1 op (List.mem_cons_self ..)
      by_cases hit : owner i = t
      · -- the owner of row i moves
        have e1 : (progs[owner i]?).getD [] = op :: rest := by rw [hit, h1]; rfl
        have e2 : (progs'[owner i]?).getD [] = rest := by
          rw [hit, h2, List.getElem?_set]; simp [ht]
        rw [e1] at *
        rw [e2] at hrec
        simp only [rowOf, List.filter_cons] at hrec ⊢
        by_cases hd : op.dst = i
        · simp only [hd, beq_self_eq_true, if_true, hrec]
        · have : (op.dst == i) = false := by simpa using hd
          simp only [this, hrec]
      · -- another thread moves: its micro-step is not on row i
        have hd : ¬ op.dst = i := by
          intro e; rw [e] at hopown; exact hit hopown
        have e2 : (progs'[owner i]?).getD [] = (progs[owner i]?).getD [] := by
          rw [h2, List.getElem?_set]
          have : ¬ t = owner i := fun e => hit e.symm
          simp [this]
        rw [e2] at hrec
        have : (op.dst == i) = false := by simpa using hd
        simp only [rowOf, List.filter_cons, this] at hrec ⊢
        exact hrec

/-! ## sorting -/

theorem keyLe_trans (key : Nat → Nat) (a b c : Nat) :
    keyLe key a b = true → keyLe key b c = true → keyLe key a c = true := by
  simp only [keyLe, decide_eq_true_eq]; omega

theorem keyLe_total (key : Nat → Nat) (a b : Nat) : (keyLe key a b || keyLe key b a) = true := by
  simp only [keyLe, Bool.or_eq_true, decide_eq_true_eq]; omega

/-- the sorted neighbour list depends only on the neighbour *set* when keys are distinct -/
theorem sortNbrs_eq_of_perm (key : Nat → Nat) (l₁ l₂ : List Nat) (hp : l₁.Perm l₂)
    (hinj : ∀ a ∈ l₁, ∀ b ∈ l₁, key a = key b → a = b) : sortNbrs key l₁ = sortNbrs key l₂ := by
  unfold sortNbrs
  have p1 := List.mergeSort_perm l₁ (keyLe key)
  have p2 := List.mergeSort_perm l₂ (keyLe key)
  have s1 := List.pairwise_mergeSort (keyLe_trans key) (keyLe_total key) l₁
  have s2 := List.pairwise_mergeSort (keyLe_trans key) (keyLe_total key) l₂
  refine List.Perm.eq_of_pairwise ?_ s1 s2 (p1.trans (hp.trans p2.symm))
  intro a b ha hb hab hba
  have ha' : a ∈ l₁ := p1.mem_iff.mp ha
  have hb' : b ∈ l₁ := hp.mem_iff.mpr (p2.mem_iff.mp hb)
  apply hinj a ha' b hb'
  simp only [keyLe, decide_eq_true_eq] at hab hba
  omega

/-! ## gathering (re-ordering) -/

theorem gather_getElem? (idx : List Nat) (st : List ρ) (hin : ∀ j ∈ idx, j < st.length) (k : Nat) :
    (gather idx st)[k]? = (idx[k]?).bind (fun j => st[j]?) := by
  induction idx generalizing k with
  | nil => simp [gather]
  | cons j js ih =>
    have hj : j < st.length := hin j (List.mem_cons_self ..)
    have ih' := ih (fun a ha => hin a (List.mem_cons_of_mem _ ha))
    unfold gather at ih' ⊢
    simp only [List.filterMap_cons, List.getElem?_eq_getElem hj]
    cases k with
    | zero => simp [List.getElem?_eq_getElem hj]
    | succ k => simpa using ih' k

/-! ## partitions of the destinations among threads -/

/-- the thread that was handed destination `i` -/
def ownerOf (parts : List (List Nat)) (i : Nat) : Nat := parts.findIdx (fun p => p.contains i)

theorem parts_facts (parts : List (List Nat)) (h : parts.flatten.Nodup) (t : Nat) (d : List Nat)
    (ht : parts[t]? = some d) : d.Nodup ∧ ∀ i ∈ d, ownerOf parts i = t := by
  induction parts generalizing t with
  | nil => simp at ht
  | cons d0 ds ih =>
    simp only [List.flatten_cons] at h
    obtain ⟨h0, hs, hdis⟩ := List.nodup_append.mp h
    cases t with
    | zero =>
      have : d0 = d := by simpa using ht
      subst this
      refine ⟨h0, ?_⟩
      intro i hi
      simp [ownerOf, List.findIdx_cons, hi]
    | succ t =>
      have ht' : ds[t]? = some d := by simpa using ht
      obtain ⟨hd, hown⟩ := ih hs t ht'
      refine ⟨hd, ?_⟩
      intro i hi
      have hin : i ∈ ds.flatten := List.mem_flatten.mpr ⟨d, List.mem_of_getElem? ht', hi⟩
      have hnot : i ∉ d0 := fun h0i => hdis i h0i i hin rfl
      have := hown i hi
      simp only [ownerOf] at this ⊢
      rw [List.findIdx_cons]
      have hc : d0.contains i = false := by simpa using hnot
      simp only [hc, cond_false, this]

theorem owned_threadProgs (nb : Nat → List Nat) (parts : List (List Nat))
    (h : parts.flatten.Nodup) : Owned (ownerOf parts) (parts.map (threadProg nb)) := by
  intro t p hp op hop
  rw [List.getElem?_map] at hp
  cases hd : parts[t]? with
  | none => simp [hd] at hp
  | some d =>
    have hp' : threadProg nb d = p := by simpa [hd] using hp
    subst hp'
    have : op.dst ∈ d := by
      simp only [threadProg, List.mem_flatMap, rowOps, List.mem_map] at hop
      obtain ⟨a, ha, j, _, hj⟩ := hop
      rw [← hj]; exact ha
    exact (parts_facts parts h t d hd).2 _ this

/-- the micro-steps on row `i` in the program of its owner -/
theorem rowOf_owner (nb : Nat → List Nat) (parts : List (List Nat)) (hpart : parts.flatten.Nodup)
    (i : Nat) :
    rowOf i (((parts.map (threadProg nb))[ownerOf parts i]?).getD []) =
      if i ∈ parts.flatten then rowOps nb i else [] := by
  have hnotin : ∀ d, parts[ownerOf parts i]? = some d → i ∉ d → i ∉ parts.flatten := by
    intro d hd hid hin
    obtain ⟨d', hdm, hid'⟩ := List.mem_flatten.mp hin
    obtain ⟨t, ht⟩ := List.mem_iff_getElem?.mp hdm
    have := (parts_facts parts hpart t d' ht).2 i hid'
    rw [this, ht] at hd
    have : d' = d := by simpa using hd
    subst this
    exact hid hid'
  rw [List.getElem?_map]
  cases hd : parts[ownerOf parts i]? with
  | none =>
    have : i ∉ parts.flatten := by
      intro hin
      obtain ⟨d, hdm, hid⟩ := List.mem_flatten.mp hin
      obtain ⟨t, ht⟩ := List.mem_iff_getElem?.mp hdm
      have := (parts_facts parts hpart t d ht).2 i hid
      rw [this, ht] at hd
      simp at hd
    simp [this, rowOf]
  | some d =>
    simp only [Option.map_some, Option.getD_some]
    have hf := parts_facts parts hpart _ d hd
    rw [rowOf_threadProg nb i d hf.1]
    by_cases hid : i ∈ d
    · have : i ∈ parts.flatten := List.mem_flatten.mpr ⟨d, List.mem_of_getElem? hd, hid⟩
      simp [hid, this]
    · have := hnotin d hd hid
      simp [hid, this]

/-! ## order of absorption -/

theorem absorb_comm {f : ρ → ρ → ρ} (hcomm : ∀ r a b, f (f r a) b = f (f r b) a) (st : List ρ)
    (z : ρ) (x y : Nat) : absorb f st (absorb f st z x) y = absorb f st (absorb f st z y) x := by
  unfold absorb
  cases st[x]? <;> cases st[y]? <;> simp [hcomm]

theorem evalRow_perm {f : ρ → ρ → ρ} (hcomm : ∀ r a b, f (f r a) b = f (f r b) a) (st : List ρ)
    (r : ρ) {l₁ l₂ : List Nat} (hp : l₁.Perm l₂) : evalRow f st r l₁ = evalRow f st r l₂ := by
  unfold evalRow
  exact hp.foldl_eq' (fun x _ y _ z => absorb_comm hcomm st z x y) r

/-- folding over new indices of the gathered state = folding over the old indices -/
theorem evalRow_gather (f : ρ → ρ → ρ) (idx : List Nat) (st : List ρ)
    (hin : ∀ j ∈ idx, j < st.length) (r : ρ) (l : List Nat) (hl : ∀ a ∈ l, a < idx.length) :
    evalRow f (gather idx st) r l = evalRow f st r (l.filterMap (fun a => idx[a]?)) := by
  unfold evalRow
  induction l generalizing r with
  | nil => rfl
  | cons a as ih =>
    have ha : a < idx.length := hl a (List.mem_cons_self ..)
    have ih' := ih (hl := fun b hb => hl b (List.mem_cons_of_mem _ hb))
    simp only [List.foldl_cons, List.filterMap_cons, List.getElem?_eq_getElem ha]
    rw [ih']
    congr 1
    unfold absorb
    rw [gather_getElem? idx st hin a, List.getElem?_eq_getElem ha]
    rfl

end PysphVerif.Determinism
