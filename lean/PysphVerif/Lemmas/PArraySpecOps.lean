import PysphVerif.Lemmas.PArrayRefine
/-!
C06: the remaining record-list functions of the record-list model (`specOp` in
Props/C06.lean) and the refinement lemmas for them.
-/
namespace PysphVerif.PArray

def recKeys (r : Rec) : List String := r.map Prod.fst

/-- the default record of `ParticleArray()` -/
def baseDflt : Rec := [("tag", [0]), ("pid", [0]), ("gid", [uintMax])]

/-- `resize(m)`: truncate, or pad with default records -/
def specResize (m : Nat) (a : RA) : RA :=
  { a with recs := a.recs.take m ++ List.replicate (m - a.recs.length) a.dflt }

/-- field `nm` of a record replaced (appended if absent) -/
def setField (r : Rec) (nm : String) (v : List Int) : Rec := setKey r nm v

/-- `set_tag(t, idx)` -/
def specSetTag (t : Int) (idx : List Nat) (a : RA) : RA :=
  { a with recs := a.recs.zipIdx.map (fun p => if idx.contains p.2 then setField p.1 "tag" [t] else p.1) }

/-- `remove_property(nm)`: the field goes from the default record and from every record -/
def specRemoveProperty (nm : String) (a : RA) : RA :=
  { dflt := eraseKey a.dflt nm, recs := a.recs.map (fun r => eraseKey r nm) }

/-- the default `add_property` records: the given one, else the old one, else 0 -/
def specAddDv (a : RA) (nm : String) (dflt? : Option Int) : Int :=
  match dflt? with
  | some v => v
  | none => if (recKeys a.dflt).contains nm then (lookupD a.dflt nm []).headD 0 else 0

/-- the stride after `add_property`: an existing property keeps its stride -/
def specAddStride (a : RA) (nm : String) (stride : Nat) : Nat :=
  if (recKeys a.dflt).contains nm then (lookupD a.dflt nm []).length else stride

/-- the records after `add_property` without data: a new field everywhere -/
def specAddNoData (a : RA) (nm : String) (drow : List Int) : List Rec :=
  if (recKeys a.dflt).contains nm then a.recs else a.recs.map (fun r => r ++ [(nm, drow)])

/-- `add_property(nm, default, data, stride)`: the default row of `nm` is
(re)written; without data a new field is appended to every record; with data
the field of record `k` becomes row `k` of the data, and an array without
records gets one record per row of the data (the other fields at their defaults) -/
def specAddProperty (nm : String) (dflt? : Option Int) (data? : Option (List Int)) (stride : Nat)
    (a : RA) : RA :=
  let drow := List.replicate (specAddStride a nm stride) (specAddDv a nm dflt?)
  let dflt' := setKey a.dflt nm drow
  match data? with
  | none => ⟨dflt', specAddNoData a nm drow⟩
  | some [] => ⟨dflt', specAddNoData a nm drow⟩
  | some d =>
    if a.recs.length = 0 then
      ⟨dflt', (rowsOf (specAddStride a nm stride) d).map (fun row => setField dflt' nm row)⟩
    else ⟨dflt', List.zipWith (fun r row => setField r nm row) a.recs
      (rowsOf (specAddStride a nm stride) d)⟩

/-- `set(nm=data)` on a property: the leading part of the column is overwritten -/
def specSetProp (nm : String) (d : List Int) (a : RA) : RA :=
  if (recKeys a.dflt).contains nm then
    let col := (a.recs.map (fun r => lookupD r nm [])).flatten
    let rows := rowsOf (lookupD a.dflt nm []).length (d ++ col.drop d.length)
    if d.length ≤ col.length then
      { a with recs := List.zipWith (fun r row => setField r nm row) a.recs rows }
    else a
  else a

/-- `empty_clone(props)`: no records; the base fields of a new array, then every
cloned name with the source's default row -/
def specCloneStep (a : RA) (acc : Rec) (nm : String) : Rec := setKey acc nm (lookupD a.dflt nm [])

/-- the names `extract_particles` / `empty_clone` copy: the given list, else every field -/
def specNames (props : Option (List String)) (a : RA) : List String :=
  match props with
  | some ps => ps
  | none => recKeys a.dflt

def specEmptyClone (props : Option (List String)) (a : RA) : RA :=
  ⟨(specNames props a).foldl (specCloneStep a) baseDflt, []⟩

/-- the fields of `b` that `a` does not have -/
def missingFields (a b : Rec) : Rec := b.filter (fun f => !(recKeys a).contains f.1)

/-- `append_parray(src)`: the old records (fields missing in self filled with
src's defaults) followed by src's records (fields missing in src filled with
self's defaults) -/
def specAppend (a b : RA) : RA :=
  if b.recs.length = 0 then a else
  let extra := missingFields a.dflt b.dflt
  let dflt' := a.dflt ++ extra
  ⟨dflt', a.recs.map (fun r => r ++ extra) ++
    b.recs.map (fun r => dflt'.map (fun f =>
      if (recKeys b.dflt).contains f.1 then (f.1, lookupD r f.1 []) else f))⟩

/-- `ensure_properties(src, props)`: every listed field self does not have is
added with src's default row -/
def specEnsureStep (b : RA) (acc : RA) (nm : String) : RA :=
  if (recKeys acc.dflt).contains nm then acc
  else ⟨acc.dflt ++ [(nm, lookupD b.dflt nm [])],
        acc.recs.map (fun r => r ++ [(nm, lookupD b.dflt nm [])])⟩

/-- `props if props else src.properties.keys()` -/
def specEnsureNames (props : Option (List String)) (b : RA) : List String :=
  match props with
  | some [] => recKeys b.dflt
  | some ps => ps
  | none => recKeys b.dflt

def specEnsure (props : Option (List String)) (a b : RA) : RA :=
  (specEnsureNames props b).foldl (specEnsureStep b) a

/-! ### operations that do not touch the records -/

theorem addConstant_abs {pa pa' : PA} {nm : String} {d : List Int}
    (hr : pa.addConstant nm d = some pa') : absPA pa' = absPA pa := by
  unfold PA.addConstant at hr
  split at hr
  · exact absurd hr (by simp)
  · simp only [Option.some.injEq] at hr; subst hr
    exact absPA_congr_fields rfl rfl rfl

theorem setOutputs_abs {pa pa' : PA} {ps : List String}
    (hr : pa.setOutputs ps = some pa') : absPA pa' = absPA pa := by
  unfold PA.setOutputs at hr
  split at hr
  · simp only [Option.some.injEq] at hr; subst hr
    exact absPA_congr_fields rfl rfl rfl
  · exact absurd hr (by simp)

theorem addOutputs_abs {pa pa' : PA} {ps : List String}
    (hr : pa.addOutputs ps = some pa') : absPA pa' = absPA pa := by
  unfold PA.addOutputs at hr
  split at hr
  · simp only [Option.some.injEq] at hr; subst hr
    exact absPA_congr_fields rfl rfl rfl
  · exact absurd hr (by simp)

/-- `set(name=…)` on a name that is not a property only touches the constants -/
theorem setProp_const_abs {pa pa' : PA} {nm : String} {d : List Int}
    (hc : pa.hasProp nm = false) (hr : pa.setProp nm d = some pa') : absPA pa' = absPA pa := by
  unfold PA.setProp at hr
  split at hr
  · rename_i c hcol
    have := (hasProp_iff pa nm).mpr (List.mem_map.mpr ⟨c, (col?_some pa nm c hcol).1,
      (col?_some pa nm c hcol).2⟩)
    rw [hc] at this; exact absurd this (by simp)
  · split at hr
    · split at hr
      · simp only [Option.some.injEq] at hr; subst hr
        exact absPA_congr_fields rfl rfl rfl
      · exact absurd hr (by simp)
    · exact absurd hr (by simp)

theorem pickle_abs {pa pa' : PA} (h : Inv pa) (hr : pa.pickle = some pa') :
    absPA pa' = absPA pa := by
  obtain ⟨_, hp, hd, hs, _⟩ := pickle_spec h hr
  exact absPA_congr hp hs (fun nm => by unfold PA.defaultOf; rw [hd])

theorem new_abs (nm : String) : absPA (PA.empty nm) = ⟨baseDflt, []⟩ := rfl

/-! ### pool level -/

theorem refines_setAt {st : State} {s : Nat} {pa : PA} (hs : st[s]? = some pa) (r : Option PA)
    (f : RA → RA) (hsome : ∃ pa', r = some pa')
    (h : ∀ pa', r = some pa' → (absPA pa').equiv (f (absPA pa))) :
    poolEquiv (absState (setAt st s r)) (modifySlot (absState st) s f) := by
  obtain ⟨pa', rfl⟩ := hsome
  exact refines_set hs f (h pa' rfl)

theorem refines_setAt_same {st : State} {s : Nat} {pa : PA} (hs : st[s]? = some pa)
    (r : Option PA) (h : ∀ pa', r = some pa' → absPA pa' = absPA pa) :
    poolEquiv (absState (setAt st s r)) (absState st) := by
  cases r with
  | none => exact poolEquiv_refl _
  | some pa' =>
    have := refines_set (pa' := pa') hs id (RA.equiv_of_eq (h pa' rfl))
    unfold modifySlot at this
    rw [absState_getElem?, hs] at this
    simp only [Option.map_some, id] at this
    have e : (absState st).set s (absPA pa) = absState st := by
      unfold absState
      rw [← List.map_set]
      obtain ⟨hlt, he⟩ := List.getElem?_eq_some_iff.mp hs
      rw [← he, List.set_getElem_self]
    rwa [e] at this

theorem refines_push {st : State} (r : Option PA) (b : RA) (hsome : ∃ pa', r = some pa')
    (h : ∀ pa', r = some pa' → (absPA pa').equiv b) :
    poolEquiv (absState (pushOpt st r)) (absState st ++ [b]) := by
  obtain ⟨pa', rfl⟩ := hsome
  show poolEquiv (absState (st ++ [pa'])) _
  unfold absState
  rw [List.map_append]
  exact poolEquiv_push (poolEquiv_refl _) _ _ (h pa' rfl)

theorem addParticles_isSome (pa : PA) (al : Bool) (given : List (String × List Int))
    (hln : ∀ g ∈ given, g.1 ∈ pa.props.map Col.name) : ∃ pa', pa.addParticles al given = some pa' := by
  unfold PA.addParticles
  split
  · exact ⟨_, rfl⟩
  · simp only []
    have : given.all (fun g => pa.hasProp g.1 || pa.consts.any (fun c => c.1 == g.1)) = true := by
      rw [List.all_eq_true]
      intro g hg
      rw [(hasProp_iff pa g.1).mpr (hln g hg)]; rfl
    rw [this]
    exact ⟨_, rfl⟩

theorem extractInto_isSome (pa dest : PA) (idx : List Nat) (al : Bool)
    (props : Option (List String))
    (hok : idx.length = 0 ∨ ∀ nm ∈ cloneNames pa props, pa.hasProp nm = true ∧ dest.hasProp nm = true) :
    ∃ pa', pa.extractInto idx dest al props = some pa' := by
  unfold PA.extractInto
  extract_lets names start d1 d2
  split
  · exact ⟨_, rfl⟩
  · rename_i h0
    have hall : ∀ nm ∈ cloneNames pa props, pa.hasProp nm = true ∧ dest.hasProp nm = true := by
      rcases hok with h | h
      · exact absurd (by simpa using h) h0
      · exact h
    have : names.all (fun nm => pa.hasProp nm && dest.hasProp nm) = true := by
      rw [List.all_eq_true]
      intro nm hnm
      have := hall nm hnm
      simp [this.1, this.2]
    rw [this]
    exact ⟨_, rfl⟩

theorem defaultParticle_keys' (pa : PA) : recKeys (defaultParticle pa) = pa.props.map Col.name :=
  defaultParticle_keys pa

end PysphVerif.PArray
