import PysphVerif.Lemmas.NnpsZOrder
/-!
C01 helper lemmas for ExtendedZOrderNNPS in symmetric mode: the per-cell-id `hmax` table bounds
the smoothing lengths of the cell's particles (`zHmax_ge`), `_cell_hmax` bounds those of every
array's particles in the cell (`cellHmax_ge`), the pruned row still holds every box that passes the
test and no particle is visited twice (`zSym_nodup`, `zSym_mem`).
-/
set_option linter.unusedSectionVars false
set_option linter.unusedSimpArgs false
namespace PysphVerif.Nnps

section
variable {α : Type} [Field α] [LinearOrder α] [IsStrictOrderedRing α] [FloorRing α]

theorem fmaxA_mono_right (a b b' : α) (h : b ≤ b') : fmaxA a b ≤ fmaxA a b' := by
  unfold fmaxA
  split <;> split
  · exact h
  · rename_i h1 h2; exact le_trans h (not_lt.mp h2)
  · rename_i h1 h2; exact le_of_lt h2
  · exact le_refl _

/-! ## `current_hmax[cid]` -/

theorem zHmaxWalk_untouched (a : ZArr) (hAt : Nat → α) (c : Nat) :
    ∀ (ps : List Nat) (prev : Option Nat) (m : Nat → α), (∀ p ∈ ps, a.cids p ≠ c) →
      zHmaxWalk a hAt prev ps m c = m c := by
  intro ps
  induction ps with
  | nil => intro prev m _; rfl
  | cons p ps ih =>
    intro prev m h
    have hp : ¬ c = a.cids p := fun e => h p List.mem_cons_self e.symm
    have ht : ∀ q ∈ ps, a.cids q ≠ c := fun q hq => h q (List.mem_cons_of_mem _ hq)
    unfold zHmaxWalk
    split
    · rw [ih _ _ ht]; simp [hp]
    · rw [ih _ _ ht]; simp [hp]

/-- inside the run of key `k` (cell id `c`) a lower bound of `hmax[c]` survives the rest of the
walk: the later particles with cell id `c` all continue that run -/
theorem zHmaxWalk_keeps (a : ZArr) (hAt : Nat → α) (k c : Nat) (x : α) :
    ∀ (ps : List Nat) (m : Nat → α), ps.Pairwise (fun p q => a.key p ≤ a.key q) →
      (∀ p ∈ ps, (a.cids p = c ↔ a.key p = k)) → (∀ p ∈ ps, k ≤ a.key p) → x ≤ m c →
      x ≤ zHmaxWalk a hAt (some k) ps m c := by
  intro ps
  induction ps with
  | nil => intro m _ _ _ hx; exact hx
  | cons p ps ih =>
    intro m hs hc hk hx
    rw [List.pairwise_cons] at hs
    have hc' : ∀ q ∈ ps, (a.cids q = c ↔ a.key q = k) := fun q hq => hc q (List.mem_cons_of_mem _ hq)
    unfold zHmaxWalk
    by_cases hkp : a.key p = k
    · have hcp : a.cids p = c := (hc p List.mem_cons_self).mpr hkp
      subst hkp
      simp only [if_true]
      apply ih _ hs.2 hc' (fun q hq => hk q (List.mem_cons_of_mem _ hq))
      simp only [hcp, if_true]
      exact le_trans hx (fmaxA_ge_left _ _)
    · have hne : ¬ some k = some (a.key p) := by
        intro e; simp only [Option.some.injEq] at e; exact hkp e.symm
      have hcp : ¬ c = a.cids p := fun e => hkp ((hc p List.mem_cons_self).mp e.symm)
      simp only [hne, if_false]
      have hlt : k < a.key p := lt_of_le_of_ne (hk p List.mem_cons_self) (fun e => hkp e.symm)
      have hnone : ∀ q ∈ ps, a.cids q ≠ c := by
        intro q hq e
        have h1 := (hc' q hq).mp e
        have h2 := hs.1 q hq
        omega
      rw [zHmaxWalk_untouched a hAt c ps _ _ hnone]
      simp only [hcp, if_false]
      exact hx

theorem zHmaxWalk_ge (a : ZArr) (hAt : Nat → α) :
    ∀ (ps : List Nat) (prev : Option Nat) (m : Nat → α),
      ps.Pairwise (fun p q => a.key p ≤ a.key q) →
      (∀ p ∈ ps, ∀ q ∈ ps, (a.cids p = a.cids q ↔ a.key p = a.key q)) →
      ∀ t ∈ ps, hAt t ≤ zHmaxWalk a hAt prev ps m (a.cids t) := by
  intro ps
  induction ps with
  | nil => intro _ _ _ _ t ht; cases ht
  | cons p ps ih =>
    intro prev m hs hinj t ht
    rw [List.pairwise_cons] at hs
    have hinj' : ∀ q ∈ ps, ∀ r ∈ ps, (a.cids q = a.cids r ↔ a.key q = a.key r) :=
      fun q hq r hr => hinj q (List.mem_cons_of_mem _ hq) r (List.mem_cons_of_mem _ hr)
    rcases List.mem_cons.mp ht with rfl | ht'
    · have keep := fun (m' : Nat → α) (hm : hAt t ≤ m' (a.cids t)) =>
        zHmaxWalk_keeps a hAt (a.key t) (a.cids t) (hAt t) ps m' hs.2
          (fun q hq => hinj q (List.mem_cons_of_mem _ hq) t List.mem_cons_self) hs.1 hm
      unfold zHmaxWalk
      split
      · exact keep _ (by simp only [if_true]; exact fmaxA_ge_right _ _)
      · exact keep _ (by simp only [if_true]; exact le_refl _)
    · unfold zHmaxWalk
      split
      · exact ih _ _ hs.2 hinj' t ht'
      · exact ih _ _ hs.2 hinj' t ht'

/-- **`hmax[cid]` bounds the smoothing lengths of the cell's particles** -/
theorem zHmax_ge (zs : List ZArr) (cur : Nat) (hz : ZInv zs cur) (a : ZArr) (ha : a ∈ zs)
    (hAt : Nat → α) (p : Nat) (hp : p ∈ a.pids) : hAt p ≤ zHmax a hAt (a.cids p) :=
  zHmaxWalk_ge a hAt a.pids none _ (hz.sorted a ha)
    (fun q hq r hr => cids_eq_iff zs cur hz a a ha ha q r hq hr) p hp

/-! ## `_cell_hmax` -/

theorem foldl_fmax_ge_init (hAt : Nat → α) (l : List Nat) (m : α) :
    m ≤ l.foldl (fun m p => fmaxA m (hAt p)) m := by
  induction l generalizing m with
  | nil => exact le_refl _
  | cons a t ih => exact le_trans (fmaxA_ge_left m (hAt a)) (ih _)

theorem foldl_fmax_ge_mem (hAt : Nat → α) (l : List Nat) (m : α) (p : Nat) (hp : p ∈ l) :
    hAt p ≤ l.foldl (fun m p => fmaxA m (hAt p)) m := by
  induction l generalizing m with
  | nil => cases hp
  | cons a t ih =>
    simp only [List.foldl_cons]
    rcases List.mem_cons.mp hp with rfl | hp'
    · exact le_trans (fmaxA_ge_right m (hAt p)) (foldl_fmax_ge_init hAt t _)
    · exact ih _ hp'

theorem takeWhile_eq_filter_sorted (f : Nat → Nat) (k : Nat) :
    ∀ L : List Nat, L.Pairwise (fun a b => f a ≤ f b) → (∀ a ∈ L, k ≤ f a) →
      L.takeWhile (fun p => decide (f p = k)) = L.filter (fun p => f p = k) := by
  intro L
  induction L with
  | nil => intros; rfl
  | cons a t ih =>
    intro hp hk
    rw [List.pairwise_cons] at hp
    by_cases hfa : f a = k
    · rw [List.takeWhile_cons_of_pos (by simpa using hfa), List.filter_cons_of_pos (by simpa using hfa)]
      congr 1
      exact ih hp.2 (fun b hb => hk b (List.mem_cons_of_mem _ hb))
    · rw [List.takeWhile_cons_of_neg (by simpa using hfa)]
      symm
      rw [List.filter_eq_nil_iff]
      intro b hb
      simp only [decide_eq_true_eq]
      have h0 : k ≤ f a := hk a List.mem_cons_self
      rcases List.mem_cons.mp hb with rfl | hb'
      · exact hfa
      · have h1 := hp.1 b hb'
        omega

theorem drop_takeWhile_eq_filter (f : Nat → Nat) (k : Nat) :
    ∀ L : List Nat, L.Pairwise (fun a b => f a ≤ f b) →
      (L.drop ((L.map f).idxOf k)).takeWhile (fun p => decide (f p = k)) =
        L.filter (fun p => f p = k) := by
  intro L
  induction L with
  | nil => intros; rfl
  | cons a t ih =>
    intro hp
    by_cases hfa : f a = k
    · have e : ((a :: t).map f).idxOf k = 0 := by
        rw [List.map_cons, hfa]; exact List.idxOf_cons_self
      rw [e, List.drop_zero]
      refine takeWhile_eq_filter_sorted f k (a :: t) hp ?_
      intro b hb
      rcases List.mem_cons.mp hb with rfl | hb'
      · exact le_of_eq hfa.symm
      · rw [← hfa]; exact (List.pairwise_cons.mp hp).1 b hb'
    · have e : ((a :: t).map f).idxOf k = ((t.map f).idxOf k) + 1 := by
        rw [List.map_cons]; exact List.idxOf_cons_ne _ hfa
      rw [e, List.drop_succ_cons, List.filter_cons_of_neg (by simpa using hfa)]
      exact ih (List.pairwise_cons.mp hp).2

theorem cellHmaxArr_ge_init (maxKey : Nat) (a : ZArr) (hAt : Nat → α) (k : Nat) (m : α) :
    m ≤ cellHmaxArr maxKey a hAt k m := by
  unfold cellHmaxArr
  split
  · exact le_refl _
  · exact foldl_fmax_ge_init hAt _ m

theorem cellHmaxArr_ge_mem (maxKey : Nat) (a : ZArr) (hke : a.keys = a.pids.map a.key)
    (hs : a.pids.Pairwise (fun p q => a.key p ≤ a.key q)) (hAt : Nat → α) (m : α) (p : Nat)
    (hp : p ∈ a.pids) (hlt : a.key p < maxKey) :
    hAt p ≤ cellHmaxArr maxKey a hAt (a.key p) m := by
  have hmk : ¬ maxKey ≤ a.key p := by omega
  have hin : a.key p ∈ a.keys := by rw [hke]; exact List.mem_map_of_mem hp
  have hgi : a.getIdx maxKey (a.key p) = some (a.keys.idxOf (a.key p)) := by
    unfold ZArr.getIdx ZArr.keyToIdx firstIdx
    rw [if_neg hmk, if_pos hin]
  unfold cellHmaxArr
  rw [hgi]
  show hAt p ≤ ((a.pids.drop (a.keys.idxOf (a.key p))).takeWhile
    (fun q => decide (a.key q = a.key p))).foldl (fun m q => fmaxA m (hAt q)) m
  rw [hke, drop_takeWhile_eq_filter a.key (a.key p) a.pids hs]
  exact foldl_fmax_ge_mem hAt _ m p (List.mem_filter.mpr ⟨hp, by simp⟩)

theorem foldl_cellHmaxArr_ge_init (maxKey : Nat) (zh : List (ZArr × (Nat → α))) (k : Nat) (m : α) :
    m ≤ zh.foldl (fun m ah => cellHmaxArr maxKey ah.1 ah.2 k m) m := by
  induction zh generalizing m with
  | nil => exact le_refl _
  | cons x t ih => exact le_trans (cellHmaxArr_ge_init maxKey x.1 x.2 k m) (ih _)

/-- **`_cell_hmax(key)` bounds the smoothing length of every particle of every array in the cell** -/
theorem cellHmax_ge (maxKey : Nat) (zh : List (ZArr × (Nat → α)))
    (hke : ∀ x ∈ zh, x.1.keys = x.1.pids.map x.1.key)
    (hs : ∀ x ∈ zh, x.1.pids.Pairwise (fun p q => x.1.key p ≤ x.1.key q))
    (b : ZArr) (hb : Nat → α) (hmem : (b, hb) ∈ zh) (q : Nat) (hq : q ∈ b.pids)
    (hlt : b.key q < maxKey) : hb q ≤ cellHmax maxKey zh (b.key q) := by
  unfold cellHmax
  generalize (0 : α) = m0
  have hke' : b.keys = b.pids.map b.key := hke (b, hb) hmem
  have hs' : b.pids.Pairwise (fun p q => b.key p ≤ b.key q) := hs (b, hb) hmem
  have hmemArr : ∀ m : α, hb q ≤ cellHmaxArr maxKey b hb (b.key q) m := by
    intro m
    exact cellHmaxArr_ge_mem maxKey b hke' hs' hb m q hq hlt
  generalize b.key q = k at hmemArr ⊢
  induction zh generalizing m0 with
  | nil => cases hmem
  | cons x t ih =>
    rw [List.foldl_cons]
    rcases List.mem_cons.mp hmem with e | hm
    · have h2 := foldl_cellHmaxArr_ge_init maxKey t k (cellHmaxArr maxKey x.1 x.2 k m0)
      have h1 : hb q ≤ cellHmaxArr maxKey x.1 x.2 k m0 := by rw [← e]; exact hmemArr m0
      exact le_trans h1 h2
    · exact ih (fun y hy => hke y (List.mem_cons_of_mem _ hy))
        (fun y hy => hs y (List.mem_cons_of_mem _ hy)) hm _

/-! ## the pruned row -/

/-- the box test of `_neighbor_boxes_sym` for mask entry `m` around cell `c` -/
def symPass (cl : α → Int) (maxKey : Nat) (rs hsub : α) (a : ZArr) (hmaxA : Nat → α) (c : Cell)
    (h : α) (m : Cell) : Bool :=
  match a.getIdx maxKey (zKey (Cell.add c m)) with
  | none => true
  | some f =>
    decide ((m.1.natAbs : Int) ≤ cl (rs * fmaxA (hmaxA (a.cids (a.pids.getD f 0))) h / hsub)) &&
    decide ((m.2.1.natAbs : Int) ≤ cl (rs * fmaxA (hmaxA (a.cids (a.pids.getD f 0))) h / hsub)) &&
    decide ((m.2.2.natAbs : Int) ≤ cl (rs * fmaxA (hmaxA (a.cids (a.pids.getD f 0))) h / hsub))

theorem zNbrIdxSym_nonneg (cl : α → Int) (maxKey : Nat) (mask : List Cell) (rs hsub : α) (a : ZArr)
    (hmaxA : Nat → α) (c : Cell) (h : α) :
    ∀ x ∈ zNbrIdxSym cl maxKey mask rs hsub a hmaxA c h, 0 ≤ x := by
  intro x hx
  unfold zNbrIdxSym at hx
  obtain ⟨m, _, hm⟩ := List.mem_filterMap.mp hx
  cases hg : a.getIdx maxKey (zKey (Cell.add c m)) with
  | none => rw [hg] at hm; cases hm
  | some f =>
    rw [hg] at hm
    simp only at hm
    split at hm
    · simp only [Option.some.injEq] at hm
      rw [← hm]; exact Int.natCast_nonneg f
    · cases hm

/-- the runs visited for the pruned row: for every mask entry with a non-negative box that passes
the test, the particles of that box -/
theorem zSym_flatMap (cl : α → Int) (maxKey : Nat) (mask : List Cell) (rs hsub : α) (a : ZArr)
    (hmaxA : Nat → α) (c : Cell) (h : α) :
    (zNbrIdxSym cl maxKey mask rs hsub a hmaxA c h).flatMap (zRun a (zLengths a)) =
      (mask.filter (fun m => nonnegCell (Cell.add c m))).flatMap (fun m =>
        if symPass cl maxKey rs hsub a hmaxA c h m then zLookup maxKey a (Cell.add c m) else []) := by
  unfold zNbrIdxSym
  rw [flatMap_filterMap_eq]
  apply List.flatMap_congr
  intro m _
  unfold symPass zLookup
  cases a.getIdx maxKey (zKey (Cell.add c m)) with
  | none => simp
  | some f =>
    by_cases hc : (decide ((m.1.natAbs : Int) ≤ cl (rs * fmaxA (hmaxA (a.cids (a.pids.getD f 0))) h / hsub)) &&
        decide ((m.2.1.natAbs : Int) ≤ cl (rs * fmaxA (hmaxA (a.cids (a.pids.getD f 0))) h / hsub)) &&
        decide ((m.2.2.natAbs : Int) ≤ cl (rs * fmaxA (hmaxA (a.cids (a.pids.getD f 0))) h / hsub))) = true
    · simp only [hc, if_true]
    · simp only [hc, Bool.false_eq_true, if_false]

theorem zSym_nodup (cl : α → Int) (maxKey : Nat) (mask : List Cell) (hmask : mask.Nodup)
    (rs hsub : α) (zs : List ZArr) (cur : Nat) (hz : ZInv zs cur) (a : ZArr) (ha : a ∈ zs)
    (hok : (a.toIn).Ok maxKey) (hmaxA : Nat → α) (c : Cell) (h : α)
    (hbox : ∀ b ∈ zBoxes mask c, cellFits21 b = true) :
    ((mask.filter (fun m => nonnegCell (Cell.add c m))).flatMap (fun m =>
      if symPass cl maxKey rs hsub a hmaxA c h m then zLookup maxKey a (Cell.add c m) else [])).Nodup := by
  have hspec : ∀ m ∈ mask.filter (fun m => nonnegCell (Cell.add c m)),
      LookupSpec a.n a.cellAt (zLookup maxKey a) (Cell.add c m) := by
    intro m hm
    obtain ⟨hm1, hm2⟩ := List.mem_filter.mp hm
    apply zLookup_spec maxKey zs cur hz a ha hok
    apply hbox
    unfold zBoxes
    exact List.mem_filter.mpr ⟨List.mem_map_of_mem hm1, hm2⟩
  rw [List.nodup_flatMap]
  constructor
  · intro m hm
    split
    · exact (hspec m hm).1
    · exact List.nodup_nil
  · refine List.Pairwise.imp_of_mem ?_ (hmask.filter _)
    intro m m' hm hm' hne
    show List.Disjoint _ _
    intro j hj hj'
    simp only at hj hj'
    by_cases hp : symPass cl maxKey rs hsub a hmaxA c h m = true
    · by_cases hp' : symPass cl maxKey rs hsub a hmaxA c h m' = true
      · rw [if_pos hp] at hj
        rw [if_pos hp'] at hj'
        have e1 := (((hspec m hm).2 j).mp hj).2
        have e2 := (((hspec m' hm').2 j).mp hj').2
        exact hne (Cell.add_injective c (e1.symm.trans e2))
      · rw [if_neg hp'] at hj'; cases hj'
    · rw [if_neg hp] at hj; cases hj

theorem zSym_mem (cl : α → Int) (maxKey : Nat) (mask : List Cell) (rs hsub : α) (zs : List ZArr)
    (cur : Nat) (hz : ZInv zs cur) (a : ZArr) (ha : a ∈ zs) (hok : (a.toIn).Ok maxKey)
    (hmaxA : Nat → α) (c : Cell) (h : α) (j : Nat) (hj : j < a.n) (m : Cell) (hm : m ∈ mask)
    (hcell : Cell.add c m = a.cellAt j)
    (hpass : ((m.1.natAbs : Int) ≤ cl (rs * fmaxA (hmaxA (a.cids j)) h / hsub)) ∧
      ((m.2.1.natAbs : Int) ≤ cl (rs * fmaxA (hmaxA (a.cids j)) h / hsub)) ∧
      ((m.2.2.natAbs : Int) ≤ cl (rs * fmaxA (hmaxA (a.cids j)) h / hsub))) :
    j ∈ (mask.filter (fun m => nonnegCell (Cell.add c m))).flatMap (fun m =>
      if symPass cl maxKey rs hsub a hmaxA c h m then zLookup maxKey a (Cell.add c m) else []) := by
  have hjp : j ∈ a.pids := (ok_mem_pids maxKey a hok j).mpr hj
  have hfit := hok.fits j hj
  rw [List.mem_flatMap]
  refine ⟨m, List.mem_filter.mpr ⟨hm, by rw [hcell]; exact cellFits21_nonneg _ hfit⟩, ?_⟩
  have hsp : symPass cl maxKey rs hsub a hmaxA c h m = true := by
    unfold symPass
    rw [hcell]
    unfold ZArr.getIdx
    have hlt : ¬ maxKey ≤ zKey (a.cellAt j) := Nat.not_le.mpr (hok.below j hj)
    simp only [hlt, if_false, ZArr.keyToIdx]
    have hin : zKey (a.cellAt j) ∈ a.keys := by
      rw [hz.keysEq a ha]; exact List.mem_map_of_mem (f := a.key) hjp
    simp only [firstIdx, hin, if_true]
    have hin' : a.key j ∈ a.pids.map a.key := List.mem_map_of_mem hjp
    obtain ⟨_, hkey⟩ := getD_idxOf_map a.key a.pids (a.key j) hin'
    have hc : a.cids (a.pids.getD (a.keys.idxOf (zKey (a.cellAt j))) 0) = a.cids j := by
      rw [hz.keysEq a ha]
      simp only [ZArr.cids]
      rw [show zKey (a.cellAt j) = a.key j from rfl, hkey]
    rw [hc]
    simp only [Bool.and_eq_true, decide_eq_true_eq]
    exact ⟨⟨hpass.1, hpass.2.1⟩, hpass.2.2⟩
  rw [hsp, if_pos rfl, hcell]
  exact ((zLookup_spec maxKey zs cur hz a ha hok (a.cellAt j) hfit).2 j).mpr ⟨hj, rfl⟩

end

end PysphVerif.Nnps
