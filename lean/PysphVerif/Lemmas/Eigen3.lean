import Mathlib.Algebra.Order.Field.Basic
import Mathlib.Algebra.Order.AbsoluteValue.Basic
import Mathlib.Data.Matrix.Mul
import Mathlib.Data.Matrix.Diagonal
import Mathlib.LinearAlgebra.Matrix.Notation
import Mathlib.Tactic.Ring
import Mathlib.Tactic.FieldSimp
import Mathlib.Tactic.Linarith
import Mathlib.Tactic.LinearCombination
import Mathlib.Tactic.FinCases
import Mathlib.Logic.Equiv.Basic
import PysphVerif.Model.Eigen3
/-!
Helper lemmas for the eigen-decomposition half of C13 (`Model/Eigen3.lean`):
vocabulary (`Mat.toM`, `Orthonormal`, `IsEigDecomp`), the fast paths, the sort, the
scaling pre-pass.  Rotations / `tql2` are in `Eigen3Tql2.lean`, `tred2` in `Eigen3Tred2.lean`.
-/
set_option linter.unusedSectionVars false
set_option linter.unusedVariables false
set_option linter.unusedSimpArgs false
namespace PysphVerif.Eigen3
open Matrix

variable {K : Type} [Field K] [LinearOrder K] [IsStrictOrderedRing K]

/-! ## vocabulary -/

/-- the model's `double[3][3]` as a Mathlib matrix -/
def Mat.toM {α : Type} (V : Mat α) : Matrix (Fin 3) (Fin 3) α := Matrix.of fun i j => V i.val j.val
/-- the model's `double*` as a function on `Fin 3` -/
def Vec.toF {α : Type} (d : Vec α) : Fin 3 → α := fun i => d i.val

/-- the columns of `V` are orthonormal: `Vᵀ V = 1` -/
def Orthonormal (V : Mat K) : Prop := V.toMᵀ * V.toM = 1
/-- `A V = V diag(d)` -/
def IsEigDecomp (A V : Mat K) (d : Vec K) : Prop :=
  A.toM * V.toM = V.toM * Matrix.diagonal d.toF
/-- `A` is symmetric -/
def Mat.Symm (A : Mat K) : Prop := A 0 1 = A 1 0 ∧ A 0 2 = A 2 0 ∧ A 1 2 = A 2 1

/-- column `j` of `V` -/
def Mat.col {α : Type} (V : Mat α) (j : Fin 3) : Fin 3 → α := fun i => V i.val j.val

theorem Mat.ext9 {α : Type} {V W : Mat α} (h00 : V.a00 = W.a00) (h01 : V.a01 = W.a01)
    (h02 : V.a02 = W.a02) (h10 : V.a10 = W.a10) (h11 : V.a11 = W.a11) (h12 : V.a12 = W.a12)
    (h20 : V.a20 = W.a20) (h21 : V.a21 = W.a21) (h22 : V.a22 = W.a22) : V = W := by
  cases V; cases W; simp_all

theorem Vec.ext3 {α : Type} {d e : Vec α} (h0 : d.x0 = e.x0) (h1 : d.x1 = e.x1)
    (h2 : d.x2 = e.x2) : d = e := by
  cases d; cases e; simp_all

@[simp] theorem Mat.get00 {α : Type} (V : Mat α) : V 0 0 = V.a00 := rfl
@[simp] theorem Mat.get01 {α : Type} (V : Mat α) : V 0 1 = V.a01 := rfl
@[simp] theorem Mat.get02 {α : Type} (V : Mat α) : V 0 2 = V.a02 := rfl
@[simp] theorem Mat.get10 {α : Type} (V : Mat α) : V 1 0 = V.a10 := rfl
@[simp] theorem Mat.get11 {α : Type} (V : Mat α) : V 1 1 = V.a11 := rfl
@[simp] theorem Mat.get12 {α : Type} (V : Mat α) : V 1 2 = V.a12 := rfl
@[simp] theorem Mat.get20 {α : Type} (V : Mat α) : V 2 0 = V.a20 := rfl
@[simp] theorem Mat.get21 {α : Type} (V : Mat α) : V 2 1 = V.a21 := rfl
@[simp] theorem Mat.get22 {α : Type} (V : Mat α) : V 2 2 = V.a22 := rfl
@[simp] theorem Vec.get0 {α : Type} (d : Vec α) : d 0 = d.x0 := rfl
@[simp] theorem Vec.get1 {α : Type} (d : Vec α) : d 1 = d.x1 := rfl
@[simp] theorem Vec.get2 {α : Type} (d : Vec α) : d 2 = d.x2 := rfl

/-- entries of `toM` at numerals -/
@[simp] theorem Mat.toM_apply {α : Type} (V : Mat α) (i j : Fin 3) : V.toM i j = V i.val j.val := rfl

/-- a 3×3 matrix equation, entry by entry -/
theorem mat3_ext {M N : Matrix (Fin 3) (Fin 3) K}
    (h : ∀ i j : Fin 3, M i j = N i j) : M = N := by
  ext i j; exact h i j

/-- `Orthonormal` written out -/
theorem orthonormal_iff (V : Mat K) :
    Orthonormal V ↔ ∀ i j : Fin 3, V.col i ⬝ᵥ V.col j = if i = j then 1 else 0 := by
  unfold Orthonormal
  constructor
  · intro h i j
    have := congrFun (congrFun h i) j
    simpa [Matrix.mul_apply, dotProduct, Mat.col, Matrix.one_apply] using this
  · intro h
    ext i j
    have := h i j
    simpa [Matrix.mul_apply, dotProduct, Mat.col, Matrix.one_apply] using this

/-- `IsEigDecomp` written out: every column of `V` is an eigenvector for the matching `d` -/
theorem isEigDecomp_iff (A V : Mat K) (d : Vec K) :
    IsEigDecomp A V d ↔ ∀ j : Fin 3, A.toM.mulVec (V.col j) = d.toF j • V.col j := by
  unfold IsEigDecomp
  constructor
  · intro h j
    funext i
    have := congrFun (congrFun h i) j
    simpa [Matrix.mul_apply, Matrix.mulVec, dotProduct, Mat.col, Matrix.diagonal_apply,
      mul_comm] using this
  · intro h
    ext i j
    have := congrFun (h j) i
    simpa [Matrix.mul_apply, Matrix.mulVec, dotProduct, Mat.col, Matrix.diagonal_apply,
      mul_comm] using this

/-! ## (a) the fast paths -/

theorem idMat_toM : (idMat : Mat K).toM = 1 := by
  ext i j
  fin_cases i <;> fin_cases j <;> simp [idMat, Mat.ofFn, Mat.get]

theorem orthonormal_idMat : Orthonormal (idMat : Mat K) := by
  unfold Orthonormal; rw [idMat_toM]; simp

/-- a matrix whose off-diagonal entries vanish is decomposed by `V = I`, `d = diag A` -/
theorem isEigDecomp_diag (A : Mat K) (h01 : A 0 1 = 0) (h02 : A 0 2 = 0) (h12 : A 1 2 = 0)
    (h10 : A 1 0 = 0) (h20 : A 2 0 = 0) (h21 : A 2 1 = 0) :
    IsEigDecomp A idMat (Vec.ofFn fun i => A i i) := by
  unfold IsEigDecomp
  rw [idMat_toM]
  ext i j
  simp at h01 h02 h12 h10 h20 h21
  fin_cases i <;> fin_cases j <;>
    simp [Matrix.diagonal_apply, Vec.toF, Vec.ofFn, Vec.get, Mat.get, *]

/-- the sum of the nine absolute values -/
def absSum (A : Mat K) : K := (Mat.toList A).foldl (absSumBody fun x => |x|) 0

theorem absSum_eq (A : Mat K) : absSum A =
    |A.a00| + |A.a01| + |A.a02| + |A.a10| + |A.a11| + |A.a12| + |A.a20| + |A.a21| + |A.a22| := by
  simp [absSum, Mat.toList, absSumBody]

/-- the scale `s` of `eigen_decomposition` is zero only for the zero matrix -/
theorem absSum_eq_zero_iff (A : Mat K) : absSum A = 0 ↔
    A = ⟨0, 0, 0, 0, 0, 0, 0, 0, 0⟩ := by
  rw [absSum_eq]
  constructor
  · intro h
    have h0 := abs_nonneg A.a00; have h1 := abs_nonneg A.a01; have h2 := abs_nonneg A.a02
    have h3 := abs_nonneg A.a10; have h4 := abs_nonneg A.a11; have h5 := abs_nonneg A.a12
    have h6 := abs_nonneg A.a20; have h7 := abs_nonneg A.a21; have h8 := abs_nonneg A.a22
    apply Mat.ext9 <;> apply abs_eq_zero.mp <;> linarith
  · intro h; rw [h]; simp

theorem absSum_nonneg (A : Mat K) : 0 ≤ absSum A := by
  rw [absSum_eq]
  have h0 := abs_nonneg A.a00; have h1 := abs_nonneg A.a01; have h2 := abs_nonneg A.a02
  have h3 := abs_nonneg A.a10; have h4 := abs_nonneg A.a11; have h5 := abs_nonneg A.a12
  have h6 := abs_nonneg A.a20; have h7 := abs_nonneg A.a21; have h8 := abs_nonneg A.a22
  linarith

theorem isEigDecomp_zero : IsEigDecomp (⟨0, 0, 0, 0, 0, 0, 0, 0, 0⟩ : Mat K) idMat
    (Vec.ofFn fun _ => 0) := by
  have := isEigDecomp_diag (⟨0, 0, 0, 0, 0, 0, 0, 0, 0⟩ : Mat K) rfl rfl rfl rfl rfl rfl
  simpa [Vec.ofFn, Mat.get] using this

/-- `eigen_decomposition`, with the loops over the nine cells written out -/
theorem eigenDecomposition_eq (sqrt : K → K) (hyp : K → K → K) (eps : K) (fuel : Nat) (A : Mat K) :
    eigenDecomposition abs sqrt hyp eps fuel A =
      if absSum A = 0 then .ok zeroMatrixCase
      else match tql2 abs hyp eps fuel (tred2 abs sqrt
          { V := scaleMat A (absSum A), d := Vec.ofFn (fun _ => 0), e := Vec.ofFn (fun _ => 0),
            log := [401] }) with
        | .error err => .error err
        | .ok t => .ok { V := t.V,
                         d := ⟨t.d.x0 * absSum A, t.d.x1 * absSum A, t.d.x2 * absSum A⟩,
                         log := t.log, drops := t.drops } := by
  unfold eigenDecomposition
  have hs : (Mat.toList A).foldl (absSumBody abs) 0 = absSum A := rfl
  simp only [hs, beq_iff_eq]
  split
  · rfl
  · cases tql2 abs hyp eps fuel _ with
    | error e => rfl
    | ok t =>
      simp only [List.range, List.range.loop, List.foldl, unscaleBody, setV, Vec.get]

/-- the zero matrix takes `zero_matrix_case`: `V = I`, `d = 0` -/
theorem eigenDecomposition_zero (sqrt : K → K) (hyp : K → K → K) (eps : K) (fuel : Nat) (A : Mat K)
    (h : absSum A = 0) :
    eigenDecomposition abs sqrt hyp eps fuel A = .ok zeroMatrixCase := by
  rw [eigenDecomposition_eq, if_pos h]

/-! ## (f) the scaling pre-pass -/

/-- `c · A` -/
def Mat.smul {α : Type} [Mul α] (c : α) (A : Mat α) : Mat α := Mat.ofFn fun i j => c * A i j
/-- `c · d` -/
def Vec.smul {α : Type} [Mul α] (c : α) (d : Vec α) : Vec α := Vec.ofFn fun i => c * d i

theorem absSum_smul (c : K) (hc : 0 < c) (A : Mat K) : absSum (Mat.smul c A) = c * absSum A := by
  rw [absSum_eq, absSum_eq]
  simp only [Mat.smul, Mat.ofFn, Mat.get, abs_mul, abs_of_pos hc]
  ring

theorem scaleMat_smul (c : K) (hc : 0 < c) (A : Mat K) (s : K) :
    scaleMat (Mat.smul c A) (c * s) = scaleMat A s := by
  have hc' : c ≠ 0 := ne_of_gt hc
  apply Mat.ext9 <;> simp only [scaleMat, Mat.smul, Mat.ofFn, Mat.get] <;>
    rw [mul_div_mul_left _ _ hc']

/-- **scaling.**  For `c > 0`, `eigen_decomposition(c·A)` runs `tred2`/`tql2` on exactly the
same normalised matrix `A / Σ|aᵢⱼ|` as `eigen_decomposition(A)`: same `V`, same path, same
errors, `d` multiplied by `c`. -/
theorem eigenDecomposition_smul (sqrt : K → K) (hyp : K → K → K) (eps : K) (fuel : Nat)
    (c : K) (hc : 0 < c) (A : Mat K) :
    eigenDecomposition abs sqrt hyp eps fuel (Mat.smul c A) =
      match eigenDecomposition abs sqrt hyp eps fuel A with
      | .error err => .error err
      | .ok o => .ok { o with d := Vec.smul c o.d } := by
  rw [eigenDecomposition_eq, eigenDecomposition_eq, absSum_smul c hc, scaleMat_smul c hc]
  have hc' : c ≠ 0 := ne_of_gt hc
  by_cases h : absSum A = 0
  · rw [if_pos h, if_pos (by rw [h, mul_zero])]
    simp [zeroMatrixCase, Vec.smul, Vec.ofFn, Vec.get]
  · rw [if_neg h, if_neg (mul_ne_zero hc' h)]
    cases tql2 abs hyp eps fuel _ with
    | error e => rfl
    | ok t =>
      simp only [Vec.smul, Vec.ofFn, Vec.get]
      congr 2
      apply Vec.ext3 <;> simp only <;> ring

/-! ## (b) the sort -/

/-- `(V', d')` is `(V, d)` with eigen-pairs permuted by `σ` -/
def Permuted (σ : Equiv.Perm (Fin 3)) (V : Mat K) (d : Vec K) (V' : Mat K) (d' : Vec K) : Prop :=
  (∀ j, d'.toF j = d.toF (σ j)) ∧ ∀ i j, V'.toM i j = V.toM i (σ j)

theorem Permuted.refl (V : Mat K) (d : Vec K) : Permuted (Equiv.refl _) V d V d :=
  ⟨fun _ => rfl, fun _ _ => rfl⟩

theorem Permuted.trans {σ τ : Equiv.Perm (Fin 3)} {V V' V'' : Mat K} {d d' d'' : Vec K}
    (h1 : Permuted σ V d V' d') (h2 : Permuted τ V' d' V'' d'') :
    Permuted (τ.trans σ) V d V'' d'' :=
  ⟨fun j => by rw [h2.1, h1.1]; rfl, fun i j => by rw [h2.2, h1.2]; rfl⟩

theorem Permuted.col {σ : Equiv.Perm (Fin 3)} {V V' : Mat K} {d d' : Vec K}
    (h : Permuted σ V d V' d') (j : Fin 3) : V'.col j = V.col (σ j) := by
  funext i; exact h.2 i j

theorem Permuted.orthonormal {σ : Equiv.Perm (Fin 3)} {V V' : Mat K} {d d' : Vec K}
    (h : Permuted σ V d V' d') (ho : Orthonormal V) : Orthonormal V' := by
  rw [orthonormal_iff] at ho ⊢
  intro i j
  rw [h.col, h.col, ho]
  simp [σ.injective.eq_iff]

theorem Permuted.isEigDecomp {σ : Equiv.Perm (Fin 3)} {A V V' : Mat K} {d d' : Vec K}
    (h : Permuted σ V d V' d') (hd : IsEigDecomp A V d) : IsEigDecomp A V' d' := by
  rw [isEigDecomp_iff] at hd ⊢
  intro j
  rw [h.col, h.1, hd]

theorem sortOuter0_spec (t : TQ K) : ∃ k : Fin 3,
    Permuted (Equiv.swap 0 k) t.V t.d (sortOuter t 0).V (sortOuter t 0).d ∧
    ∀ j : Fin 3, (sortOuter t 0).d.toF 0 ≤ (sortOuter t 0).d.toF j := by
  unfold sortOuter
  simp only [List.range', List.foldl, sortInner, Nat.zero_add, Nat.reduceAdd, Vec.get0, Vec.get1,
    Vec.get2]
  by_cases h1 : t.d.x1 < t.d.x0
  · by_cases h2 : t.d.x2 < t.d.x1
    · refine ⟨2, ⟨fun j => ?_, fun i j => ?_⟩, fun j => ?_⟩ <;> fin_cases j <;> (try fin_cases i) <;>
        simp [h1, h2, sortSwapBody, List.range, List.range.loop, setM, setV, Mat.get, Vec.get,
          Vec.toF, Mat.col, Equiv.swap_apply_def] <;> first | rfl | linarith
    · refine ⟨1, ⟨fun j => ?_, fun i j => ?_⟩, fun j => ?_⟩ <;> fin_cases j <;> (try fin_cases i) <;>
        simp [h1, h2, sortSwapBody, List.range, List.range.loop, setM, setV, Mat.get, Vec.get,
          Vec.toF, Mat.col, Equiv.swap_apply_def] <;> first | rfl | linarith
  · by_cases h2 : t.d.x2 < t.d.x0
    · refine ⟨2, ⟨fun j => ?_, fun i j => ?_⟩, fun j => ?_⟩ <;> fin_cases j <;> (try fin_cases i) <;>
        simp [h1, h2, sortSwapBody, List.range, List.range.loop, setM, setV, Mat.get, Vec.get,
          Vec.toF, Mat.col, Equiv.swap_apply_def] <;> first | rfl | linarith
    · refine ⟨0, ⟨fun j => ?_, fun i j => ?_⟩, fun j => ?_⟩ <;> fin_cases j <;> (try fin_cases i) <;>
        simp [h1, h2, sortSwapBody, List.range, List.range.loop, setM, setV, Mat.get, Vec.get,
          Vec.toF, Mat.col, Equiv.swap_apply_def] <;> first | rfl | linarith

theorem sortOuter1_spec (t : TQ K) : ∃ k : Fin 3, k ≠ 0 ∧
    Permuted (Equiv.swap 1 k) t.V t.d (sortOuter t 1).V (sortOuter t 1).d ∧
    (sortOuter t 1).d.toF 1 ≤ (sortOuter t 1).d.toF 2 := by
  unfold sortOuter
  simp only [List.range', List.foldl, sortInner, Nat.zero_add, Nat.reduceAdd, Vec.get0, Vec.get1,
    Vec.get2]
  by_cases h2 : t.d.x2 < t.d.x1
  · refine ⟨2, by decide, ⟨fun j => ?_, fun i j => ?_⟩, ?_⟩ <;> (try fin_cases j) <;>
      (try fin_cases i) <;>
      simp [h2, sortSwapBody, List.range, List.range.loop, setM, setV, Mat.get, Vec.get,
        Vec.toF, Equiv.swap_apply_def] <;> first | rfl | linarith
  · refine ⟨1, by decide, ⟨fun j => ?_, fun i j => ?_⟩, ?_⟩ <;> (try fin_cases j) <;>
      (try fin_cases i) <;>
      simp [h2, sortSwapBody, List.range, List.range.loop, setM, setV, Mat.get, Vec.get,
        Vec.toF, Equiv.swap_apply_def] <;> first | rfl | linarith

/-- the sort at the end of `tql2` permutes the eigen-pairs `(d[j], column j of V)` by one
permutation and leaves `d` ascending -/
theorem sortEig_spec (t : TQ K) : ∃ σ : Equiv.Perm (Fin 3),
    Permuted σ t.V t.d (sortEig t).V (sortEig t).d ∧
    (sortEig t).d 0 ≤ (sortEig t).d 1 ∧ (sortEig t).d 1 ≤ (sortEig t).d 2 := by
  obtain ⟨k0, hp0, hmin⟩ := sortOuter0_spec t
  obtain ⟨k1, hk1, hp1, hle⟩ := sortOuter1_spec (sortOuter t 0)
  have hs : sortEig t = sortOuter (sortOuter t 0) 1 := by
    simp [sortEig, List.range, List.range.loop, List.foldl]
  rw [hs]
  refine ⟨_, hp0.trans hp1, ?_, hle⟩
  have h1 := hp1.1 0
  have h2 := hp1.1 1
  have hfix : (Equiv.swap (1 : Fin 3) k1) 0 = 0 := by
    rw [Equiv.swap_apply_of_ne_of_ne (by decide) (Ne.symm hk1)]
  rw [hfix] at h1
  have := hmin ((Equiv.swap (1 : Fin 3) k1) 1)
  show (sortOuter (sortOuter t 0) 1).d.toF 0 ≤ (sortOuter (sortOuter t 0) 1).d.toF 1
  rw [h1, h2]; exact this

end PysphVerif.Eigen3
