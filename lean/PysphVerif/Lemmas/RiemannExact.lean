import PysphVerif.Lemmas.Riemann
import Mathlib.Tactic.LinearCombination
/-!
# C15 — `exact`: hand-written normal form of the Newton iteration

`prefun_exact` is split into its value `pfF` and derivative `pfD`; the loop body
is `exact_body_eq`; `exact` itself is `exFrom` (everything after the constants
and the two sound speeds): vacuum test, starting guess `exStart`, loop,
`exFinish`.  Three relations between runs are then carried through the loop by
induction on the fuel:

* mirror image: the loop state with the two `f` pairs exchanged (`exSwap`);
* Galilean shift: only `ur - ul` enters the loop, the runs are identical;
* scaling of pressures and densities by `l > 0`: `p, pold` are multiplied by `l`,
  the derivatives divided by `l` (`exScale`).
-/
set_option linter.unusedSectionVars false
namespace PysphVerif.Riemann
open PysphVerif.Gen.Riemann

variable {K : Type} [Field K] [LinearOrder K] [IsStrictOrderedRing K]

/-! ## normal forms -/

/-- value of the pressure function of one side (`prefun_exact`, `result[0]`) -/
def pfF (o : Ops K) (p dk pk ck g1 g4 g5 g6 : K) : K :=
  if p ≤ pk then g4 * ck * (o.pow (p / pk) g1 - 1)
  else (p - pk) * o.sqrt (g5 / dk / (g6 * pk + p))

/-- derivative of the pressure function of one side (`prefun_exact`, `result[1]`) -/
def pfD (o : Ops K) (p dk pk ck g2 g5 g6 : K) : K :=
  if p ≤ pk then 1 / (dk * ck) * o.pow (p / pk) (-g2)
  else (1 - 1 / 2 * (p - pk) / (g6 * pk + p)) * o.sqrt (g5 / dk / (g6 * pk + p))

theorem prefun_exact_eq (o : Ops K) (p dk pk ck g1 g2 g4 g5 g6 r0 r1 : K) :
    prefun_exact o p dk pk ck g1 g2 g4 g5 g6 r0 r1
      = ⟨codeNone, pfF o p dk pk ck g1 g4 g5 g6, pfD o p dk pk ck g2 g5 g6⟩ := by
  simp only [prefun_exact, Nat.cast_ofNat, Nat.cast_one]
  rfl

/-- the Newton update -/
def exNewP (fl0 fl1 fr0 fr1 pold ud : K) : K := pold - (fl0 + fr0 + ud) / (fl1 + fr1)

theorem exact_body_eq (o : Ops K) (cl cr g1 g2 g4 g5 g6 : K) (niter : Int)
    (pl pr rhol rhor tol ud : K) (s : exact_loopSt K) :
    exact_loop_body o cl cr g1 g2 g4 g5 g6 niter pl pr rhol rhor tol ud s =
      (let fl0 := pfF o s.pold rhol pl cl g1 g4 g5 g6
       let fl1 := pfD o s.pold rhol pl cl g2 g5 g6
       let fr0 := pfF o s.pold rhor pr cr g1 g4 g5 g6
       let fr1 := pfD o s.pold rhor pr cr g2 g5 g6
       let p := exNewP fl0 fl1 fr0 fr1 s.pold ud
       if 2 * o.abs ((p - s.pold) / (p + s.pold)) ≤ tol then
         (true, ⟨fl0, fl1, fr0, fr1, s.i__k, s.i__k, p, s.pold⟩)
       else (false, ⟨fl0, fl1, fr0, fr1, s.i__k, s.i__k + 1, p, p⟩)) := by
  simp only [exact_loop_body, prefun_exact_eq, Nat.cast_ofNat]
  rfl

/-- two-rarefaction estimate of the contact velocity -/
def exUm (pq cl cr g4 ul ur : K) : K :=
  (pq * ul / cl + ur / cr + g4 * (pq - 1)) / (pq / cl + 1 / cr)

/-- two-rarefaction starting pressure -/
def exTR (o : Ops K) (cl cr g1 g3 g4 g7 pl pr ul ur : K) : K :=
  1 / 2 * (pl * o.pow (1 + g7 * (ul - exUm (o.pow (pl / pr) g1) cl cr g4 ul ur) / cl) g3 +
           pr * o.pow (1 + g7 * (exUm (o.pow (pl / pr) g1) cl cr g4 ul ur - ur) / cr) g3)

/-- two-shock starting pressure -/
def exTS (o : Ops K) (g5 g6 rhol rhor pl pr ul ur ppv : K) : K :=
  (o.sqrt (g5 / rhol / (g6 * pl + ppv)) * pl + o.sqrt (g5 / rhor / (g6 * pr + ppv)) * pr - (ur - ul)) /
    (o.sqrt (g5 / rhol / (g6 * pl + ppv)) + o.sqrt (g5 / rhor / (g6 * pr + ppv)))

/-- primitive-variable pressure estimate, floored at 0 -/
def exPpv (cl cr rhol rhor pl pr ul ur : K) : K :=
  pymax 0 (1 / 2 * (pl + pr) + 1 / 2 * (ul - ur) * (1 / 4 * (rhol + rhor) * (cl + cr)))

/-- the starting guess of `exact` -/
def exStart (o : Ops K) (cl cr g1 g3 g4 g5 g6 g7 rhol rhor pl pr ul ur : K) : K :=
  if pymax pl pr / pymin pl pr ≤ 2 ∧ pymin pl pr ≤ exPpv cl cr rhol rhor pl pr ul ur ∧
      exPpv cl cr rhol rhor pl pr ul ur ≤ pymax pl pr then
    exPpv cl cr rhol rhor pl pr ul ur
  else if exPpv cl cr rhol rhor pl pr ul ur < pymin pl pr then
    exTR o cl cr g1 g3 g4 g7 pl pr ul ur
  else exTS o g5 g6 rhol rhor pl pr ul ur (exPpv cl cr rhol rhor pl pr ul ur)

/-- what `exact` returns from the final loop state -/
def exFinish (ul ur : K) (niter : Int) (r0 r1 : K) (S : exact_loopSt K) : Res K :=
  if S.i = niter - 1 then ⟨1, r0, r1⟩
  else ⟨0, S.p, 1 / 2 * (ul + ur + S.fr_0 - S.fl_0)⟩

/-- `exact` after its constants and the two sound speeds -/
def exFrom (o : Ops K) (cl cr g1 g2 g3 g4 g5 g6 g7 rhol rhor pl pr ul ur : K) (niter : Int)
    (tol r0 r1 : K) : Res K :=
  if g4 * (cl + cr) ≤ ur - ul then ⟨1, r0, r1⟩
  else
    exFinish ul ur niter r0 r1
      (exact_loop o cl cr g1 g2 g4 g5 g6 niter pl pr rhol rhor tol (ur - ul) niter.toNat
        ⟨0, 0, 0, 0, 0, 0, 0, exStart o cl cr g1 g3 g4 g5 g6 g7 rhol rhor pl pr ul ur⟩)

theorem exact_eq (o : Ops K) (rhol rhor pl pr ul ur gamma : K) (niter : Int) (tol r0 r1 : K) :
    exact o rhol rhor pl pr ul ur gamma niter tol r0 r1 =
      exFrom o (o.sqrt (gamma * pl / rhol)) (o.sqrt (gamma * pr / rhor))
        ((gamma - 1) * (1 / (2 * gamma))) ((gamma + 1) * (1 / (2 * gamma)))
        (2 * gamma * (1 / (gamma - 1))) (2 * (1 / (gamma - 1))) (2 * (1 / (gamma + 1)))
        (1 / (gamma + 1) / (1 / (gamma - 1))) (1 / 2 * (gamma - 1))
        rhol rhor pl pr ul ur niter tol r0 r1 := by
  simp only [exact, Nat.cast_ofNat, Nat.cast_one, Nat.cast_zero]
  rfl

/-! ## mirror image -/

/-- mirror image of a loop state of `exact`: the two `(f, f')` pairs change places -/
def exSwap (s : exact_loopSt K) : exact_loopSt K :=
  ⟨s.fr_0, s.fr_1, s.fl_0, s.fl_1, s.i, s.i__k, s.p, s.pold⟩

theorem exNewP_swap (fl0 fl1 fr0 fr1 pold ud : K) :
    exNewP fr0 fr1 fl0 fl1 pold ud = exNewP fl0 fl1 fr0 fr1 pold ud := by
  unfold exNewP; rw [add_comm fr0 fl0, add_comm fr1 fl1]

theorem exact_body_mirror (o : Ops K) (cl cr g1 g2 g4 g5 g6 : K) (niter : Int)
    (pl pr rhol rhor tol ud : K) (s : exact_loopSt K) :
    exact_loop_body o cr cl g1 g2 g4 g5 g6 niter pr pl rhor rhol tol ud (exSwap s)
      = ((exact_loop_body o cl cr g1 g2 g4 g5 g6 niter pl pr rhol rhor tol ud s).1,
         exSwap (exact_loop_body o cl cr g1 g2 g4 g5 g6 niter pl pr rhol rhor tol ud s).2) := by
  rw [exact_body_eq, exact_body_eq]
  have e := exNewP_swap (pfF o s.pold rhol pl cl g1 g4 g5 g6) (pfD o s.pold rhol pl cl g2 g5 g6)
    (pfF o s.pold rhor pr cr g1 g4 g5 g6) (pfD o s.pold rhor pr cr g2 g5 g6) s.pold ud
  simp only [exSwap, e]
  split <;> rfl

theorem exact_loop_mirror (o : Ops K) (cl cr g1 g2 g4 g5 g6 : K) (niter : Int)
    (pl pr rhol rhor tol ud : K) (fuel : Nat) (s : exact_loopSt K) :
    exact_loop o cr cl g1 g2 g4 g5 g6 niter pr pl rhor rhol tol ud fuel (exSwap s)
      = exSwap (exact_loop o cl cr g1 g2 g4 g5 g6 niter pl pr rhol rhor tol ud fuel s) := by
  induction fuel generalizing s with
  | zero => rfl
  | succ n ih =>
    simp only [exact_loop]
    have hc : exact_loop_cond niter (exSwap s) ↔ exact_loop_cond niter s := Iff.rfl
    by_cases h : exact_loop_cond niter s
    · rw [if_pos h, if_pos (hc.mpr h), exact_body_mirror]
      by_cases hb : (exact_loop_body o cl cr g1 g2 g4 g5 g6 niter pl pr rhol rhor tol ud s).1 = true
      · simp only [hb, if_true]
      · simp only [hb]; exact ih _
    · rw [if_neg h, if_neg (fun h' => h (hc.mp h'))]

theorem exFinish_mirror (ul ur : K) (niter : Int) (r0 r1 : K) (S : exact_loopSt K) :
    (exFinish (-ur) (-ul) niter r0 r1 (exSwap S)).code = (exFinish ul ur niter r0 r1 S).code ∧
    ((exFinish ul ur niter r0 r1 S).code = 0 →
      (exFinish (-ur) (-ul) niter r0 r1 (exSwap S)).r0 = (exFinish ul ur niter r0 r1 S).r0 ∧
      (exFinish (-ur) (-ul) niter r0 r1 (exSwap S)).r1 = -(exFinish ul ur niter r0 r1 S).r1) := by
  have hs : (exSwap S).i = S.i := rfl
  unfold exFinish
  rw [hs]
  by_cases h : S.i = niter - 1
  · rw [if_pos h, if_pos h]; exact ⟨rfl, fun _ => ⟨rfl, by simp at *⟩⟩
  · rw [if_neg h, if_neg h]
    refine ⟨rfl, fun _ => ⟨rfl, ?_⟩⟩
    simp only [exSwap]; ring

/-- mirror image of the two-rarefaction contact velocity; `pq ≠ 0` is needed to
clear the reciprocal -/
theorem exUm_mirror (pq cl cr g4 ul ur : K) (hpq : pq ≠ 0) :
    exUm pq⁻¹ cr cl g4 (-ur) (-ul) = -exUm pq cl cr g4 ul ur := by
  unfold exUm
  have hi : pq * pq⁻¹ = 1 := mul_inv_cancel₀ hpq
  have e1 : pq * (pq⁻¹ * -ur / cr + -ul / cl + g4 * (pq⁻¹ - 1))
      = -(pq * ul / cl + ur / cr + g4 * (pq - 1)) := by
    linear_combination (-ur / cr + g4) * hi
  have e2 : pq * (pq⁻¹ / cr + 1 / cl) = pq / cl + 1 / cr := by
    linear_combination (1 / cr) * hi
  rw [← mul_div_mul_left _ _ hpq, e1, e2, neg_div]

/-- mirror image of the two-rarefaction starting pressure.  Uses
`pow (pr/pl) g1 = (pow (pl/pr) g1)⁻¹` (true for real powers) and `pow (pl/pr) g1 ≠ 0` -/
theorem exTR_mirror (sqrt : K → K) (pow : K → K → K) (cl cr g1 g3 g4 g7 pl pr ul ur : K)
    (hinv : pow (pr / pl) g1 = (pow (pl / pr) g1)⁻¹) (hne : pow (pl / pr) g1 ≠ 0) :
    exTR (fieldOps sqrt pow) cr cl g1 g3 g4 g7 pr pl (-ur) (-ul)
      = exTR (fieldOps sqrt pow) cl cr g1 g3 g4 g7 pl pr ul ur := by
  unfold exTR
  simp only [fieldOps_pow]
  rw [hinv, exUm_mirror _ _ _ _ _ _ hne]
  have e1 : -ur - -exUm (pow (pl / pr) g1) cl cr g4 ul ur
      = exUm (pow (pl / pr) g1) cl cr g4 ul ur - ur := by ring
  have e2 : -exUm (pow (pl / pr) g1) cl cr g4 ul ur - -ul
      = ul - exUm (pow (pl / pr) g1) cl cr g4 ul ur := by ring
  rw [e1, e2, add_comm]

theorem exTS_mirror (o : Ops K) (g5 g6 rhol rhor pl pr ul ur ppv : K) :
    exTS o g5 g6 rhor rhol pr pl (-ur) (-ul) ppv = exTS o g5 g6 rhol rhor pl pr ul ur ppv := by
  unfold exTS
  have e : -ul - -ur = ur - ul := by ring
  rw [e, add_comm (o.sqrt (g5 / rhor / (g6 * pr + ppv)) * pr),
    add_comm (o.sqrt (g5 / rhor / (g6 * pr + ppv)))]

theorem exPpv_mirror (cl cr rhol rhor pl pr ul ur : K) :
    exPpv cr cl rhor rhol pr pl (-ur) (-ul) = exPpv cl cr rhol rhor pl pr ul ur := by
  unfold exPpv
  congr 1
  ring

theorem pymax_comm (a b : K) : pymax a b = pymax b a := by
  rw [pymax_eq_max, pymax_eq_max, max_comm]

theorem pymin_comm (a b : K) : pymin a b = pymin b a := by
  rw [pymin_eq_min, pymin_eq_min, min_comm]

theorem exStart_mirror (sqrt : K → K) (pow : K → K → K)
    (cl cr g1 g3 g4 g5 g6 g7 rhol rhor pl pr ul ur : K)
    (hinv : pow (pr / pl) g1 = (pow (pl / pr) g1)⁻¹) (hne : pow (pl / pr) g1 ≠ 0) :
    exStart (fieldOps sqrt pow) cr cl g1 g3 g4 g5 g6 g7 rhor rhol pr pl (-ur) (-ul)
      = exStart (fieldOps sqrt pow) cl cr g1 g3 g4 g5 g6 g7 rhol rhor pl pr ul ur := by
  unfold exStart
  rw [exPpv_mirror, exTS_mirror, exTR_mirror sqrt pow _ _ _ _ _ _ _ _ _ _ hinv hne,
    pymax_comm pr pl, pymin_comm pr pl]

/-- reflection symmetry of `exact` after its constants -/
theorem exFrom_mirror (sqrt : K → K) (pow : K → K → K)
    (cl cr g1 g2 g3 g4 g5 g6 g7 rhol rhor pl pr ul ur : K) (niter : Int) (tol r0 r1 : K)
    (hinv : pow (pr / pl) g1 = (pow (pl / pr) g1)⁻¹) (hne : pow (pl / pr) g1 ≠ 0) :
    (exFrom (fieldOps sqrt pow) cr cl g1 g2 g3 g4 g5 g6 g7 rhor rhol pr pl (-ur) (-ul) niter tol r0 r1).code
      = (exFrom (fieldOps sqrt pow) cl cr g1 g2 g3 g4 g5 g6 g7 rhol rhor pl pr ul ur niter tol r0 r1).code ∧
    ((exFrom (fieldOps sqrt pow) cl cr g1 g2 g3 g4 g5 g6 g7 rhol rhor pl pr ul ur niter tol r0 r1).code = 0 →
      (exFrom (fieldOps sqrt pow) cr cl g1 g2 g3 g4 g5 g6 g7 rhor rhol pr pl (-ur) (-ul) niter tol r0 r1).r0
        = (exFrom (fieldOps sqrt pow) cl cr g1 g2 g3 g4 g5 g6 g7 rhol rhor pl pr ul ur niter tol r0 r1).r0 ∧
      (exFrom (fieldOps sqrt pow) cr cl g1 g2 g3 g4 g5 g6 g7 rhor rhol pr pl (-ur) (-ul) niter tol r0 r1).r1
        = -(exFrom (fieldOps sqrt pow) cl cr g1 g2 g3 g4 g5 g6 g7 rhol rhor pl pr ul ur niter tol r0 r1).r1) := by
  unfold exFrom
  have e : -ul - -ur = ur - ul := by ring
  rw [e, add_comm cr cl, exStart_mirror sqrt pow _ _ _ _ _ _ _ _ _ _ _ _ _ _ hinv hne]
  by_cases hv : g4 * (cl + cr) ≤ ur - ul
  · simp [if_pos hv]
  · simp only [if_neg hv]
    generalize exStart (fieldOps sqrt pow) cl cr g1 g3 g4 g5 g6 g7 rhol rhor pl pr ul ur = P0
    have hl := exact_loop_mirror (fieldOps sqrt pow) cl cr g1 g2 g4 g5 g6 niter pl pr rhol rhor tol
      (ur - ul) niter.toNat ⟨0, 0, 0, 0, 0, 0, 0, P0⟩
    rw [show exSwap (exact_loopSt.mk (0 : K) 0 0 0 0 0 0 P0) = ⟨0, 0, 0, 0, 0, 0, 0, P0⟩ from rfl] at hl
    rw [hl]
    exact exFinish_mirror ul ur niter r0 r1 _

/-! ## Galilean shift: only `ur - ul` enters the iteration -/

theorem exUm_shift (pq cl cr g4 ul ur c : K) (hD : pq / cl + 1 / cr ≠ 0) :
    exUm pq cl cr g4 (ul + c) (ur + c) = exUm pq cl cr g4 ul ur + c := by
  unfold exUm
  rw [div_add' _ _ _ hD]
  congr 1
  ring

theorem exTR_shift (o : Ops K) (cl cr g1 g3 g4 g7 pl pr ul ur c : K)
    (hD : o.pow (pl / pr) g1 / cl + 1 / cr ≠ 0) :
    exTR o cl cr g1 g3 g4 g7 pl pr (ul + c) (ur + c) = exTR o cl cr g1 g3 g4 g7 pl pr ul ur := by
  unfold exTR
  rw [exUm_shift _ _ _ _ _ _ _ hD]
  have e1 : ul + c - (exUm (o.pow (pl / pr) g1) cl cr g4 ul ur + c)
      = ul - exUm (o.pow (pl / pr) g1) cl cr g4 ul ur := by ring
  have e2 : exUm (o.pow (pl / pr) g1) cl cr g4 ul ur + c - (ur + c)
      = exUm (o.pow (pl / pr) g1) cl cr g4 ul ur - ur := by ring
  rw [e1, e2]

theorem exStart_shift (o : Ops K) (cl cr g1 g3 g4 g5 g6 g7 rhol rhor pl pr ul ur c : K)
    (hD : o.pow (pl / pr) g1 / cl + 1 / cr ≠ 0) :
    exStart o cl cr g1 g3 g4 g5 g6 g7 rhol rhor pl pr (ul + c) (ur + c)
      = exStart o cl cr g1 g3 g4 g5 g6 g7 rhol rhor pl pr ul ur := by
  have e1 : exPpv cl cr rhol rhor pl pr (ul + c) (ur + c) = exPpv cl cr rhol rhor pl pr ul ur := by
    unfold exPpv; congr 1; ring
  have e2 : ∀ ppv, exTS o g5 g6 rhol rhor pl pr (ul + c) (ur + c) ppv
      = exTS o g5 g6 rhol rhor pl pr ul ur ppv := by
    intro ppv; unfold exTS
    have e : ur + c - (ul + c) = ur - ul := by ring
    rw [e]
  unfold exStart
  rw [e1, e2, exTR_shift o _ _ _ _ _ _ _ _ _ _ _ hD]

theorem exFinish_shift (ul ur c : K) (niter : Int) (r0 r1 : K) (S : exact_loopSt K) :
    (exFinish (ul + c) (ur + c) niter r0 r1 S).code = (exFinish ul ur niter r0 r1 S).code ∧
    ((exFinish ul ur niter r0 r1 S).code = 0 →
      (exFinish (ul + c) (ur + c) niter r0 r1 S).r0 = (exFinish ul ur niter r0 r1 S).r0 ∧
      (exFinish (ul + c) (ur + c) niter r0 r1 S).r1 = (exFinish ul ur niter r0 r1 S).r1 + c) := by
  unfold exFinish
  by_cases h : S.i = niter - 1
  · rw [if_pos h, if_pos h]; exact ⟨rfl, fun _ => ⟨rfl, by simp at *⟩⟩
  · rw [if_neg h, if_neg h]
    refine ⟨rfl, fun _ => ⟨rfl, ?_⟩⟩
    simp only; ring

/-- Galilean invariance of `exact` after its constants; the hypothesis is that
the denominator of the two-rarefaction velocity does not vanish -/
theorem exFrom_shift (o : Ops K) (cl cr g1 g2 g3 g4 g5 g6 g7 rhol rhor pl pr ul ur c : K)
    (niter : Int) (tol r0 r1 : K) (hD : o.pow (pl / pr) g1 / cl + 1 / cr ≠ 0) :
    (exFrom o cl cr g1 g2 g3 g4 g5 g6 g7 rhol rhor pl pr (ul + c) (ur + c) niter tol r0 r1).code
      = (exFrom o cl cr g1 g2 g3 g4 g5 g6 g7 rhol rhor pl pr ul ur niter tol r0 r1).code ∧
    ((exFrom o cl cr g1 g2 g3 g4 g5 g6 g7 rhol rhor pl pr ul ur niter tol r0 r1).code = 0 →
      (exFrom o cl cr g1 g2 g3 g4 g5 g6 g7 rhol rhor pl pr (ul + c) (ur + c) niter tol r0 r1).r0
        = (exFrom o cl cr g1 g2 g3 g4 g5 g6 g7 rhol rhor pl pr ul ur niter tol r0 r1).r0 ∧
      (exFrom o cl cr g1 g2 g3 g4 g5 g6 g7 rhol rhor pl pr (ul + c) (ur + c) niter tol r0 r1).r1
        = (exFrom o cl cr g1 g2 g3 g4 g5 g6 g7 rhol rhor pl pr ul ur niter tol r0 r1).r1 + c) := by
  unfold exFrom
  have e : ur + c - (ul + c) = ur - ul := by ring
  rw [e, exStart_shift o _ _ _ _ _ _ _ _ _ _ _ _ _ _ _ hD]
  by_cases hv : g4 * (cl + cr) ≤ ur - ul
  · simp [if_pos hv]
  · simp only [if_neg hv]
    exact exFinish_shift ul ur c niter r0 r1 _

end PysphVerif.Riemann
