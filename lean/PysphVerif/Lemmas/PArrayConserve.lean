import PysphVerif.Lemmas.PArrayRecords
/-!
C06 helper lemmas, part C continued: conservation (extract then remove) and
`remove_tagged_particles` at the record level.
-/
namespace PysphVerif.PArray

/-- the record restricted to (and ordered by) the listed fields -/
def project (names : List String) (r : Rec) : Rec :=
  names.map (fun nm => (nm, lookupD r nm []))

theorem lookupD_copyFields (names : List String) (src dflt : Rec) (nm : String)
    (h1 : nm ∈ names) (h2 : nm ∈ dflt.map Prod.fst) :
    lookupD (copyFields names src dflt) nm [] = lookupD src nm [] := by
  unfold copyFields
  induction dflt with
  | nil => simp at h2
  | cons f dflt ih =>
    rw [List.map_cons, lookupD_cons]
    by_cases hf : f.1 = nm
    · have hc : names.contains f.1 = true := by rw [hf]; simpa using h1
      rw [if_pos hc]
      simp only [hf, if_true]
    · have h2' : nm ∈ dflt.map Prod.fst := by
        rw [List.map_cons, List.mem_cons] at h2
        exact h2.resolve_left (fun e => hf e.symm)
      have : (if names.contains f.1 = true then (f.1, lookupD src f.1 []) else f).1 = f.1 := by
        split <;> rfl
      rw [this, if_neg hf]
      exact ih h2'

theorem project_copyFields (names : List String) (src dflt : Rec)
    (h : ∀ nm ∈ names, nm ∈ dflt.map Prod.fst) :
    project names (copyFields names src dflt) = project names src := by
  unfold project
  apply List.map_congr_left
  intro nm hnm
  rw [lookupD_copyFields names src dflt nm hnm (h nm hnm)]

theorem defaultParticle_keys (pa : PA) : (defaultParticle pa).map Prod.fst = pa.props.map Col.name := by
  unfold defaultParticle
  rw [List.map_map]; rfl

/-- `extract_particles(idx, dest, props)` followed by `remove_particles(idx)` on
the source conserves the multiset of records restricted to the copied fields -/
theorem extract_remove_conserves {pa dest dest' pa' : PA} (h : Inv pa) (hd : Inv dest)
    (idx : List Nat) (props : Option (List String))
    (hss : ∀ nm ∈ cloneNames pa props, pa.strideOf nm = dest.strideOf nm)
    (hnames : ∀ nm ∈ cloneNames pa props, nm ∈ dest.props.map Col.name)
    (hnd : idx.Nodup) (hin : ∀ i ∈ idx, i < pa.n)
    (he : pa.extractInto idx dest false props = some dest')
    (hr : pa.removeParticles idx false = some pa') :
    ((particles dest' ++ particles pa').map (project (cloneNames pa props))).Perm
      ((particles dest ++ particles pa).map (project (cloneNames pa props))) := by
  obtain ⟨_, hp⟩ := extractInto_particles h hd idx props hss hin he
  rw [hp]
  have hrm : (particles pa' ++ gather (sortNat idx) (particles pa)).Perm (particles pa) := by
    rw [removeParticles_noalign pa idx pa' hr, mapRows_removeRows_particles h (sortNat idx)]
    apply removeRows_perm _ _ (sortNat_strict idx hnd)
    intro i hi
    rw [particles_length]
    exact hin i ((sortNat_perm idx).subset hi)
  have hg : (idx.map (fun i => copyFields (cloneNames pa props) (particleAt pa i)
      (defaultParticle dest))).map (project (cloneNames pa props)) =
      (idx.map (particleAt pa)).map (project (cloneNames pa props)) := by
    rw [List.map_map, List.map_map]
    apply List.map_congr_left
    intro i _
    simp only [Function.comp]
    apply project_copyFields
    intro nm hnm
    rw [defaultParticle_keys]
    exact hnames nm hnm
  have hs : (gather (sortNat idx) (particles pa)).Perm (idx.map (particleAt pa)) := by
    rw [gather_particles pa _ (fun i hi => hin i ((sortNat_perm idx).subset hi))]
    exact (sortNat_perm idx).map _
  rw [List.map_append, List.map_append, hg, List.map_append, List.append_assoc]
  apply List.Perm.append_left
  have h3 : ((idx.map (particleAt pa)) ++ particles pa').Perm (particles pa) :=
    (List.perm_append_comm.trans (List.Perm.append_left _ hs.symm)).trans hrm
  rw [← List.map_append]
  exact h3.map _

/-! ### remove_tagged_particles -/

theorem zip_range_eq {β : Type} (l : List β) (d : β) :
    List.zip (List.range l.length) l = (List.range l.length).map (fun i => (i, l.getD i d)) := by
  apply List.ext_getElem
  · simp
  · intro i h1 h2
    have hi : i < l.length := by simpa using h2
    simp [List.getD_eq_getElem?_getD, List.getElem?_eq_getElem hi]

theorem filterMap_if_eq_filter {β : Type} (q : β → Bool) (L : List β) :
    L.filterMap (fun i => if q i then some i else none) = L.filter q := by
  induction L with
  | nil => rfl
  | cons a L ih =>
    by_cases ha : q a = true
    · simp [ha, ih]
    · simp [ha, ih]

/-- the index list `remove_tagged_particles` builds: the slots carrying that tag,
ascending -/
theorem taggedIdx_eq (tags : List Int) (t : Int) :
    (List.zip (List.range tags.length) tags).filterMap
      (fun p => if p.2 == t then some p.1 else none) =
    (List.range tags.length).filter (fun i => tags.getD i 0 == t) := by
  rw [zip_range_eq tags 0, List.filterMap_map]
  exact filterMap_if_eq_filter (fun i => tags.getD i 0 == t) _

theorem tag_field {pa : PA} (h : Inv pa) (i : Nat) (hi : i < pa.n) :
    lookupD (particleAt pa i) "tag" [] = [pa.tags.getD i 0] := by
  obtain ⟨t, rest, hp, ht, hc, hn, htags⟩ := n_of_tagFirst pa h.tagFirst
  rw [field_particleAt pa i "tag" t hc, h.tagStride, rowsOf_one, htags,
    map_getD_of_lt t.data (fun x => [x]) i 0 [] (by rw [← hn]; exact hi)]

/-- `remove_tagged_particles(tag, align=False)`: exactly the records carrying
that tag disappear -/
theorem removeTagged_particles' {pa pa' : PA} (h : Inv pa) (t : Int)
    (hr : pa.removeTagged t false = some pa') :
    (particles pa').Perm ((particles pa).filter (fun r => !(lookupD r "tag" [] == [t]))) := by
  unfold PA.removeTagged at hr
  rw [taggedIdx_eq] at hr
  simp only [] at hr
  rw [h.tags_length] at hr
  generalize hidx : (List.range pa.n).filter (fun i => pa.tags.getD i 0 == t) = idx at hr
  have hsub : idx.Sublist (List.range pa.n) := by rw [← hidx]; exact List.filter_sublist
  have hnd : idx.Nodup := hsub.nodup List.nodup_range
  have hin : ∀ i ∈ idx, i < pa.n := fun i hi => List.mem_range.mp (hsub.subset hi)
  have hrm : (particles pa' ++ gather (sortNat idx) (particles pa)).Perm (particles pa) := by
    rw [removeParticles_noalign pa idx pa' hr, mapRows_removeRows_particles h (sortNat idx)]
    apply removeRows_perm _ _ (sortNat_strict idx hnd)
    intro i hi
    rw [particles_length]
    exact hin i ((sortNat_perm idx).subset hi)
  have hs : (gather (sortNat idx) (particles pa)).Perm (idx.map (particleAt pa)) := by
    rw [gather_particles pa _ (fun i hi => hin i ((sortNat_perm idx).subset hi))]
    exact (sortNat_perm idx).map _
  -- the removed records are the records carrying the tag
  have hrem : idx.map (particleAt pa) =
      (particles pa).filter (fun r => lookupD r "tag" [] == [t]) := by
    unfold particles
    rw [List.filter_map, ← hidx]
    congr 1
    apply List.filter_congr
    intro i hi
    have hi : i < pa.n := List.mem_range.mp hi
    simp only [Function.comp]
    rw [tag_field h i hi]
    simp
  have hsplit : ((particles pa).filter (fun r => !(lookupD r "tag" [] == [t])) ++
      idx.map (particleAt pa)).Perm (particles pa) := by
    rw [hrem]
    exact List.perm_append_comm.trans (List.filter_append_perm _ _)
  have h1 : (particles pa' ++ idx.map (particleAt pa)).Perm (particles pa) :=
    (List.Perm.append_left _ hs.symm).trans hrm
  exact (List.perm_append_right_iff _).mp (h1.trans hsplit.symm)

end PysphVerif.PArray
