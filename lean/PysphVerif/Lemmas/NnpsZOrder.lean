import PysphVerif.Model.NnpsZOrder
import PysphVerif.Lemmas.NnpsGrid
import PysphVerif.Lemmas.NnpsSubgrid
import PysphVerif.Lemmas.NnpsMorton
/-!
C01 helper lemmas for the z-order family (`Model/NnpsZOrder.lean`):

* runs of a list sorted by key (`run_eq_filter`), run starts (`runKeys`);
* the cell-id numbering shared by all arrays is a bijection between the occupied keys and
  their ids (`ZInv`, `zBuild_inv`, `cids_eq_iff`);
* `lengths[cid]` is the run length (`zLengths_eq_count`);
* every row of `nbr_boxes[src]` that belongs to the cell id of a particle of ANY array holds the
  boxes found for that particle's cell (`zRows_eq`), whichever pass wrote it and however often;
* hence the candidates are the particles of the source array in the mask cells, each once
  (`zCands_perm`).
-/
set_option linter.unusedSectionVars false
set_option linter.unusedSimpArgs false
namespace PysphVerif.Nnps

/-! ## runs of a sorted list -/
section runs
variable (f : Nat → Nat)

theorem take_count_eq_filter (k : Nat) :
    ∀ L : List Nat, L.Pairwise (fun a b => f a ≤ f b) → (∀ a ∈ L, k ≤ f a) →
      L.take (L.countP (fun p => f p = k)) = L.filter (fun p => f p = k) := by
  intro L
  induction L with
  | nil => intros; rfl
  | cons a t ih =>
    intro hp hk
    rw [List.pairwise_cons] at hp
    by_cases hfa : f a = k
    · rw [List.countP_cons_of_pos (by simpa using hfa), List.filter_cons_of_pos (by simpa using hfa),
        List.take_succ_cons]
      congr 1
      exact ih hp.2 (fun b hb => hk b (List.mem_cons_of_mem _ hb))
    · have hall : ∀ b ∈ a :: t, ¬ f b = k := by
        intro b hb hfb
        have h0 : k ≤ f a := hk a List.mem_cons_self
        rcases List.mem_cons.mp hb with rfl | hb'
        · exact hfa hfb
        · have h1 := hp.1 b hb'
          omega
      have e1 : (a :: t).countP (fun p => f p = k) = 0 := by
        rw [List.countP_eq_zero]; simpa using hall
      have e2 : (a :: t).filter (fun p => f p = k) = [] := by
        rw [List.filter_eq_nil_iff]; simpa using hall
      rw [e1, e2, List.take_zero]

/-- in a list sorted by `f`, the run that starts at the first position of key `k` and has as many
entries as there are entries with key `k` is exactly the sub-list of the entries with key `k` -/
theorem run_eq_filter (k : Nat) :
    ∀ L : List Nat, L.Pairwise (fun a b => f a ≤ f b) →
      (L.drop ((L.map f).idxOf k)).take (L.countP (fun p => f p = k)) =
        L.filter (fun p => f p = k) := by
  intro L
  induction L with
  | nil => intros; rfl
  | cons a t ih =>
    intro hp
    by_cases hfa : f a = k
    · have e : ((a :: t).map f).idxOf k = 0 := by
        rw [List.map_cons, hfa]; exact List.idxOf_cons_self
      rw [e, List.drop_zero]
      refine take_count_eq_filter f k (a :: t) hp ?_
      intro b hb
      rcases List.mem_cons.mp hb with rfl | hb'
      · exact le_of_eq hfa.symm
      · rw [← hfa]; exact (List.pairwise_cons.mp hp).1 b hb'
    · have e : ((a :: t).map f).idxOf k = ((t.map f).idxOf k) + 1 := by
        rw [List.map_cons]; exact List.idxOf_cons_ne _ hfa
      rw [e, List.drop_succ_cons, List.countP_cons_of_neg (by simpa using hfa),
        List.filter_cons_of_neg (by simpa using hfa)]
      exact ih (List.pairwise_cons.mp hp).2

theorem count_map_eq_countP (k : Nat) (L : List Nat) :
    (L.map f).count k = L.countP (fun p => f p = k) := by
  induction L with
  | nil => rfl
  | cons a t ih =>
    rw [List.map_cons, List.count_cons, ih]
    by_cases h : f a = k
    · rw [List.countP_cons_of_pos (by simpa using h)]; simp [h]
    · rw [List.countP_cons_of_neg (by simpa using h)]; simp [h]

theorem firstIdx_some (K : List Nat) (k s : Nat) (h : firstIdx K k = some s) :
    k ∈ K ∧ s = K.idxOf k := by
  unfold firstIdx at h
  by_cases hk : k ∈ K
  · simp only [hk, if_true, Option.some.injEq] at h; exact ⟨hk, h.symm⟩
  · simp [hk] at h

theorem firstIdx_none (K : List Nat) (k : Nat) (h : firstIdx K k = none) : k ∉ K := by
  unfold firstIdx at h
  by_cases hk : k ∈ K
  · simp [hk] at h
  · exact hk

/-- the particle at the first position of key `k` has key `k` -/
theorem getD_idxOf_map (L : List Nat) (k : Nat) (hk : k ∈ L.map f) :
    L.getD ((L.map f).idxOf k) 0 ∈ L ∧ f (L.getD ((L.map f).idxOf k) 0) = k := by
  have hlt : (L.map f).idxOf k < (L.map f).length := List.idxOf_lt_length_iff.mpr hk
  have hlt' : (L.map f).idxOf k < L.length := by simpa using hlt
  have hg := List.getElem_idxOf hlt
  rw [List.getElem_map] at hg
  have e : L.getD ((L.map f).idxOf k) 0 = L[(L.map f).idxOf k] := by
    simp [List.getD, List.getElem?_eq_getElem hlt']
  rw [e]
  exact ⟨List.getElem_mem _, hg⟩

end runs

/-! ## run starts -/

theorem mem_runKeysAux (prev : Nat) (ks : List Nat) (k : Nat) :
    (k ∈ runKeysAux prev ks → k ∈ ks) ∧ (k ∈ ks → k = prev ∨ k ∈ runKeysAux prev ks) := by
  induction ks generalizing prev with
  | nil => simp [runKeysAux]
  | cons a t ih =>
    unfold runKeysAux
    by_cases h : a = prev
    · simp only [h, if_true]
      refine ⟨fun hk => List.mem_cons_of_mem _ ((ih prev).1 hk), fun hk => ?_⟩
      rcases List.mem_cons.mp hk with rfl | hk'
      · exact Or.inl rfl
      · exact (ih prev).2 hk'
    · simp only [h, if_false, List.mem_cons]
      refine ⟨fun hk => ?_, fun hk => ?_⟩
      · rcases hk with rfl | hk'
        · exact Or.inl rfl
        · exact Or.inr ((ih a).1 hk')
      · rcases hk with rfl | hk'
        · exact Or.inr (Or.inl rfl)
        · rcases (ih a).2 hk' with rfl | h2
          · exact Or.inr (Or.inl rfl)
          · exact Or.inr (Or.inr h2)

theorem mem_runKeys (K : List Nat) (k : Nat) : k ∈ runKeys K ↔ k ∈ K := by
  cases K with
  | nil => simp [runKeys]
  | cons a t =>
    simp only [runKeys, List.mem_cons]
    constructor
    · rintro (rfl | h)
      · exact Or.inl rfl
      · exact Or.inr ((mem_runKeysAux a t k).1 h)
    · rintro (rfl | h)
      · exact Or.inl rfl
      · rcases (mem_runKeysAux a t k).2 h with rfl | h2
        · exact Or.inl rfl
        · exact Or.inr h2

theorem runKeysAux_sorted (prev : Nat) (ks : List Nat) (hs : ks.Pairwise (fun a b => a ≤ b))
    (hp : ∀ k ∈ ks, prev ≤ k) :
    (runKeysAux prev ks).Pairwise (fun a b => a < b) ∧ ∀ k ∈ runKeysAux prev ks, prev < k := by
  induction ks generalizing prev with
  | nil => simp [runKeysAux]
  | cons a t ih =>
    rw [List.pairwise_cons] at hs
    unfold runKeysAux
    by_cases h : a = prev
    · simp only [h, if_true]
      exact ih prev hs.2 (fun k hk => hp k (List.mem_cons_of_mem _ hk))
    · simp only [h, if_false]
      have hpa : prev < a := lt_of_le_of_ne (hp a List.mem_cons_self) (fun e => h e.symm)
      obtain ⟨i1, i2⟩ := ih a hs.2 hs.1
      refine ⟨List.pairwise_cons.mpr ⟨i2, i1⟩, ?_⟩
      intro k hk
      rcases List.mem_cons.mp hk with rfl | hk'
      · exact hpa
      · exact lt_trans hpa (i2 k hk')

theorem runKeys_nodup (K : List Nat) (hs : K.Pairwise (fun a b => a ≤ b)) : (runKeys K).Nodup := by
  cases K with
  | nil => simp [runKeys]
  | cons a t =>
    rw [List.pairwise_cons] at hs
    obtain ⟨i1, i2⟩ := runKeysAux_sorted a t hs.2 hs.1
    simp only [runKeys]
    refine List.nodup_cons.mpr ⟨fun hm => absurd (i2 a hm) (lt_irrefl _), ?_⟩
    exact i1.imp (fun h => ne_of_lt h)

/-! ## the `(key, cid)` table -/

theorem tabLookup_mem (k c : Nat) (t : List (Nat × Nat)) (h : tabLookup k t = some c) :
    (k, c) ∈ t := by
  induction t with
  | nil => simp [tabLookup] at h
  | cons e es ih =>
    unfold tabLookup at h
    by_cases he : e.1 = k
    · simp only [he, if_true, Option.some.injEq] at h
      have : e = (k, c) := by rw [← he, ← h]
      rw [this]; exact List.mem_cons_self
    · simp only [he, if_false] at h
      exact List.mem_cons_of_mem _ (ih h)

theorem tabLookup_of_mem_keys (k : Nat) (t : List (Nat × Nat)) (h : k ∈ t.map (·.1)) :
    ∃ c, tabLookup k t = some c := by
  induction t with
  | nil => simp at h
  | cons e es ih =>
    unfold tabLookup
    by_cases he : e.1 = k
    · exact ⟨e.2, by simp [he]⟩
    · simp only [he, if_false]
      apply ih
      simp only [List.map_cons, List.mem_cons] at h
      rcases h with h | h
      · exact absurd h.symm he
      · exact h

/-! ## the cell-id numbering -/

/-- what `fill_array` keeps true after every array: the table of every array lists its distinct
keys, every id handed out is below `curr_cid`, and over ALL arrays two table entries have the same
key exactly when they have the same id -/
structure ZInv (zs : List ZArr) (cur : Nat) : Prop where
  sorted : ∀ a ∈ zs, a.pids.Pairwise (fun p q => a.key p ≤ a.key q)
  keysEq : ∀ a ∈ zs, a.keys = a.pids.map a.key
  tabkeys : ∀ a ∈ zs, a.tab.map (·.1) = runKeys a.keys
  bound : ∀ a ∈ zs, ∀ e ∈ a.tab, e.2 < cur
  inj : ∀ a ∈ zs, ∀ b ∈ zs, ∀ e ∈ a.tab, ∀ e' ∈ b.tab, (e.1 = e'.1 ↔ e.2 = e'.2)

theorem keys_sorted (a : ZArr) (hke : a.keys = a.pids.map a.key)
    (h : a.pids.Pairwise (fun p q => a.key p ≤ a.key q)) :
    a.keys.Pairwise (fun x y => x ≤ y) := by
  rw [hke, List.pairwise_map]
  exact h

/-- a particle's `(key, cid)` pair is in its array's table -/
theorem cids_mem_tab (a : ZArr) (hke : a.keys = a.pids.map a.key)
    (htk : a.tab.map (·.1) = runKeys a.keys) (p : Nat)
    (hp : p ∈ a.pids) : (a.key p, a.cids p) ∈ a.tab := by
  have hk : a.key p ∈ a.tab.map (·.1) := by
    rw [htk, mem_runKeys, hke]
    exact List.mem_map_of_mem hp
  obtain ⟨c, hc⟩ := tabLookup_of_mem_keys _ _ hk
  have : a.cids p = c := by simp [ZArr.cids, hc]
  rw [this]
  exact tabLookup_mem _ _ _ hc

/-- the search of one earlier array finds exactly that array's table entry -/
theorem cidOfKey_spec (a : ZArr) (hke : a.keys = a.pids.map a.key)
    (htk : a.tab.map (·.1) = runKeys a.keys) (k : Nat) :
    (∀ c, a.cidOfKey k = some c → (k, c) ∈ a.tab) ∧
    (a.cidOfKey k = none → ∀ e ∈ a.tab, e.1 ≠ k) := by
  unfold ZArr.cidOfKey ZArr.keyToIdx
  cases hf : firstIdx a.keys k with
  | none =>
    refine ⟨fun c h => by simp at h, fun _ e he hek => ?_⟩
    have hk := firstIdx_none _ _ hf
    apply hk
    rw [← mem_runKeys, ← htk, ← hek]
    exact List.mem_map_of_mem he
  | some i =>
    obtain ⟨hk, hi⟩ := firstIdx_some _ _ _ hf
    refine ⟨fun c h => ?_, fun h => by simp at h⟩
    simp only [Option.some.injEq] at h
    subst hi
    rw [hke] at hk h
    obtain ⟨hm, hkey⟩ := getD_idxOf_map a.key a.pids k hk
    have := cids_mem_tab a hke htk _ hm
    rw [hkey, h] at this
    exact this

theorem lookPrev_spec (zs : List ZArr) (hke : ∀ a ∈ zs, a.keys = a.pids.map a.key)
    (htk : ∀ a ∈ zs, a.tab.map (·.1) = runKeys a.keys) (k : Nat) :
    (∀ c, lookPrev zs k = some c → ∃ a ∈ zs, (k, c) ∈ a.tab) ∧
    (lookPrev zs k = none → ∀ a ∈ zs, ∀ e ∈ a.tab, e.1 ≠ k) := by
  induction zs with
  | nil => simp [lookPrev]
  | cons a t ih =>
    have iht := ih (fun b hb => hke b (List.mem_cons_of_mem _ hb))
      (fun b hb => htk b (List.mem_cons_of_mem _ hb))
    have ha := cidOfKey_spec a (hke a List.mem_cons_self) (htk a List.mem_cons_self) k
    unfold lookPrev
    cases hc : a.cidOfKey k with
    | some c0 =>
      refine ⟨fun c h => ?_, fun h => by simp at h⟩
      simp only [Option.some.injEq] at h
      subst h
      exact ⟨a, List.mem_cons_self, ha.1 _ hc⟩
    | none =>
      refine ⟨fun c h => ?_, fun h b hb => ?_⟩
      · obtain ⟨b, hb, hm⟩ := iht.1 c h
        exact ⟨b, List.mem_cons_of_mem _ hb, hm⟩
      · rcases List.mem_cons.mp hb with rfl | hb'
        · exact ha.2 hc
        · exact iht.2 h b hb'

/-- loop invariant of the run-start loop of `fill_array` -/
structure StepInv (zs : List ZArr) (cur : Nat) (t : List (Nat × Nat)) (cur' : Nat) : Prop where
  le : cur ≤ cur'
  bound : ∀ e ∈ t, e.2 < cur'
  inj1 : ∀ e ∈ t, ∀ e' ∈ t, (e.1 = e'.1 ↔ e.2 = e'.2)
  inj2 : ∀ e ∈ t, ∀ a ∈ zs, ∀ e' ∈ a.tab, (e.1 = e'.1 ↔ e.2 = e'.2)

theorem cidStep_inv (zs : List ZArr) (cur : Nat) (hz : ZInv zs cur) (t : List (Nat × Nat))
    (cur' : Nat) (h : StepInv zs cur t cur') (k : Nat) (hk : k ∉ t.map (·.1)) :
    StepInv zs cur (cidStep zs (t, cur') k).1 (cidStep zs (t, cur') k).2 ∧
      (cidStep zs (t, cur') k).1.map (·.1) = t.map (·.1) ++ [k] := by
  have hlp := lookPrev_spec zs hz.keysEq hz.tabkeys k
  have hkt : ∀ e ∈ t, e.1 ≠ k := fun e he hek => hk (by rw [← hek]; exact List.mem_map_of_mem he)
  unfold cidStep
  cases hl : lookPrev zs k with
  | some c =>
    obtain ⟨a0, ha0, hm0⟩ := hlp.1 c hl
    refine ⟨⟨h.le, ?_, ?_, ?_⟩, by simp⟩
    · intro e he
      rcases List.mem_append.mp he with he | he
      · exact h.bound e he
      · simp only [List.mem_singleton] at he; subst he
        exact lt_of_lt_of_le (hz.bound a0 ha0 _ hm0) h.le
    · intro e he e' he'
      rcases List.mem_append.mp he with he | he <;> rcases List.mem_append.mp he' with he' | he'
      · exact h.inj1 e he e' he'
      · simp only [List.mem_singleton] at he'; subst he'
        exact h.inj2 e he a0 ha0 _ hm0
      · simp only [List.mem_singleton] at he; subst he
        have := h.inj2 e' he' a0 ha0 _ hm0
        constructor
        · intro x; exact (this.mp x.symm).symm
        · intro x; exact (this.mpr x.symm).symm
      · simp only [List.mem_singleton] at he he'; subst he; subst he'
        exact ⟨fun _ => rfl, fun _ => rfl⟩
    · intro e he a ha e' he'
      rcases List.mem_append.mp he with he | he
      · exact h.inj2 e he a ha e' he'
      · simp only [List.mem_singleton] at he; subst he
        exact hz.inj a0 ha0 a ha _ hm0 e' he'
  | none =>
    have hno := hlp.2 hl
    refine ⟨⟨Nat.le_succ_of_le h.le, ?_, ?_, ?_⟩, by simp⟩
    · intro e he
      rcases List.mem_append.mp he with he | he
      · exact Nat.lt_succ_of_lt (h.bound e he)
      · simp only [List.mem_singleton] at he; subst he
        exact Nat.lt_succ_self _
    · intro e he e' he'
      rcases List.mem_append.mp he with he | he <;> rcases List.mem_append.mp he' with he' | he'
      · exact h.inj1 e he e' he'
      · simp only [List.mem_singleton] at he'; subst he'
        have h1 := hkt e he
        have h2 := h.bound e he
        constructor
        · intro x; exact absurd x h1
        · intro x; simp only at x; omega
      · simp only [List.mem_singleton] at he; subst he
        have h1 := hkt e' he'
        have h2 := h.bound e' he'
        constructor
        · intro x; exact absurd x.symm h1
        · intro x; simp only at x; omega
      · simp only [List.mem_singleton] at he he'; subst he; subst he'
        exact ⟨fun _ => rfl, fun _ => rfl⟩
    · intro e he a ha e' he'
      rcases List.mem_append.mp he with he | he
      · exact h.inj2 e he a ha e' he'
      · simp only [List.mem_singleton] at he; subst he
        have h1 := hno a ha e' he'
        have h2 := hz.bound a ha e' he'
        have h3 := h.le
        constructor
        · intro x; exact absurd x.symm h1
        · intro x; simp only at x; omega

theorem foldl_cidStep_inv (zs : List ZArr) (cur : Nat) (hz : ZInv zs cur) (ks : List Nat) :
    ∀ (t : List (Nat × Nat)) (cur' : Nat), StepInv zs cur t cur' → (t.map (·.1) ++ ks).Nodup →
      StepInv zs cur (ks.foldl (cidStep zs) (t, cur')).1 (ks.foldl (cidStep zs) (t, cur')).2 ∧
        (ks.foldl (cidStep zs) (t, cur')).1.map (·.1) = t.map (·.1) ++ ks := by
  induction ks with
  | nil => intro t cur' h _; exact ⟨h, by simp⟩
  | cons k ks ih =>
    intro t cur' h hnd
    have hk : k ∉ t.map (·.1) := by
      intro hm
      rw [List.nodup_append] at hnd
      exact hnd.2.2 k hm k List.mem_cons_self rfl
    obtain ⟨h1, h2⟩ := cidStep_inv zs cur hz t cur' h k hk
    simp only [List.foldl_cons]
    have e : cidStep zs (t, cur') k = ((cidStep zs (t, cur') k).1, (cidStep zs (t, cur') k).2) := rfl
    rw [e]
    have := ih _ _ h1 (by rw [h2, List.append_assoc]; simpa using hnd)
    refine ⟨this.1, ?_⟩
    rw [this.2, h2, List.append_assoc]; rfl

/-- input side: the pids are sorted by key -/
def ZIn.Sorted (inp : ZIn) : Prop :=
  inp.pids.Pairwise (fun p q => zKey (inp.cellAt p) ≤ zKey (inp.cellAt q))

def ZArr.toIn (a : ZArr) : ZIn := { n := a.n, cellAt := a.cellAt, pids := a.pids }

theorem zFill_toIn (prev : List ZArr) (cur : Nat) (inp : ZIn) : (zFill prev cur inp).1.toIn = inp := rfl

/-- `fill_array` preserves the invariant -/
theorem zFill_inv (zs : List ZArr) (cur : Nat) (hz : ZInv zs cur) (inp : ZIn) (hs : inp.Sorted) :
    ZInv (zs ++ [(zFill zs cur inp).1]) (zFill zs cur inp).2 := by
  have hsorted : (zFill zs cur inp).1.pids.Pairwise
      (fun p q => (zFill zs cur inp).1.key p ≤ (zFill zs cur inp).1.key q) := hs
  have hke : (zFill zs cur inp).1.keys = (zFill zs cur inp).1.pids.map (zFill zs cur inp).1.key := rfl
  have hks : ((zFill zs cur inp).1.keys).Pairwise (fun x y => x ≤ y) := keys_sorted _ hke hsorted
  have hnd := runKeys_nodup _ hks
  have h0 : StepInv zs cur [] cur :=
    ⟨le_refl _, fun e he => (by cases he), fun e he => (by cases he), fun e he => (by cases he)⟩
  obtain ⟨hI, hK⟩ := foldl_cidStep_inv zs cur hz (runKeys (zFill zs cur inp).1.keys) [] cur h0
    (by simpa using hnd)
  have htab : (zFill zs cur inp).1.tab =
      ((runKeys (zFill zs cur inp).1.keys).foldl (cidStep zs) ([], cur)).1 := rfl
  have hcur : (zFill zs cur inp).2 =
      ((runKeys (zFill zs cur inp).1.keys).foldl (cidStep zs) ([], cur)).2 := rfl
  generalize hA : (zFill zs cur inp).1 = A at *
  generalize hC : (zFill zs cur inp).2 = C at *
  rw [← htab, ← hcur] at hI
  rw [← htab] at hK
  simp only [List.map_nil, List.nil_append] at hK
  constructor
  · intro a ha
    rcases List.mem_append.mp ha with ha | ha
    · exact hz.sorted a ha
    · simp only [List.mem_singleton] at ha; subst ha; exact hsorted
  · intro a ha
    rcases List.mem_append.mp ha with ha | ha
    · exact hz.keysEq a ha
    · simp only [List.mem_singleton] at ha; subst ha; exact hke
  · intro a ha
    rcases List.mem_append.mp ha with ha | ha
    · exact hz.tabkeys a ha
    · simp only [List.mem_singleton] at ha; subst ha; exact hK
  · intro a ha e he
    rcases List.mem_append.mp ha with ha | ha
    · exact lt_of_lt_of_le (hz.bound a ha e he) hI.le
    · simp only [List.mem_singleton] at ha; subst ha; exact hI.bound e he
  · intro a ha b hb e he e' he'
    rcases List.mem_append.mp ha with ha1 | ha1 <;> rcases List.mem_append.mp hb with hb1 | hb1
    · exact hz.inj a ha1 b hb1 e he e' he'
    · simp only [List.mem_singleton] at hb1; subst hb1
      have := hI.inj2 e' he' a ha1 e he
      constructor
      · intro x; exact (this.mp x.symm).symm
      · intro x; exact (this.mpr x.symm).symm
    · simp only [List.mem_singleton] at ha1; subst ha1
      exact hI.inj2 e he b hb1 e' he'
    · simp only [List.mem_singleton] at ha1 hb1; subst ha1; subst hb1
      exact hI.inj1 e he e' he'

theorem zBuild_foldl_inv (ins : List ZIn) (hs : ∀ inp ∈ ins, inp.Sorted) :
    ∀ (st : List ZArr × Nat), ZInv st.1 st.2 →
      ZInv (ins.foldl zBuildStep st).1 (ins.foldl zBuildStep st).2 ∧
        (ins.foldl zBuildStep st).1.map ZArr.toIn = st.1.map ZArr.toIn ++ ins := by
  induction ins with
  | nil => intro st h; exact ⟨h, by simp⟩
  | cons inp t ih =>
    intro st h
    simp only [List.foldl_cons]
    have h1 := zFill_inv st.1 st.2 h inp (hs inp List.mem_cons_self)
    have := ih (fun i hi => hs i (List.mem_cons_of_mem _ hi)) (zBuildStep st inp) h1
    refine ⟨this.1, ?_⟩
    rw [this.2]
    simp [zBuildStep, zFill_toIn]

/-- **the numbering invariant holds after `_refresh`'s first loop**, and the arrays are the
inputs in order -/
theorem zBuild_inv (ins : List ZIn) (hs : ∀ inp ∈ ins, inp.Sorted) :
    ZInv (zBuild ins).1 (zBuild ins).2 ∧ (zBuild ins).1.map ZArr.toIn = ins := by
  have h0 : ZInv ([] : List ZArr) 0 :=
    ⟨fun a ha => (by cases ha), fun a ha => (by cases ha), fun a ha => (by cases ha),
      fun a ha => (by cases ha), fun a ha => (by cases ha)⟩
  have := zBuild_foldl_inv ins hs ([], 0) h0
  exact ⟨this.1, by simpa [zBuild] using this.2⟩

/-- **cell ids are shared and injective**: two particles of any two arrays have the same cell id
exactly when they have the same key -/
theorem cids_eq_iff (zs : List ZArr) (cur : Nat) (hz : ZInv zs cur) (a b : ZArr) (ha : a ∈ zs)
    (hb : b ∈ zs) (p q : Nat) (hp : p ∈ a.pids) (hq : q ∈ b.pids) :
    a.cids p = b.cids q ↔ a.key p = b.key q := by
  have h1 := cids_mem_tab a (hz.keysEq a ha) (hz.tabkeys a ha) p hp
  have h2 := cids_mem_tab b (hz.keysEq b hb) (hz.tabkeys b hb) q hq
  exact (hz.inj a ha b hb _ h1 _ h2).symm

/-! ## `lengths` -/

/-- the walk that counts the non-run-start positions: for a target key `kt` with cell id `ct`
(where, among the walked particles, the cell id is `ct` exactly for key `kt`), the count of key
`kt` is the increase of `lengths[ct]` plus one if the walk saw a run start of `kt` -/
theorem zLens_spec (a : ZArr) (kt ct : Nat) :
    ∀ (ps : List Nat) (prev : Option Nat) (l : Nat → Nat),
      ps.Pairwise (fun p q => a.key p ≤ a.key q) →
      (∀ k0, prev = some k0 → ∀ p ∈ ps, k0 ≤ a.key p) →
      (∀ p ∈ ps, (a.cids p = ct ↔ a.key p = kt)) →
      zLens a prev ps l ct + (if kt ∈ ps.map a.key ∧ prev ≠ some kt then 1 else 0) =
        l ct + (ps.map a.key).count kt := by
  intro ps
  induction ps with
  | nil => intro prev l _ _ _; simp [zLens]
  | cons p ps ih =>
    intro prev l hs hprev hc
    rw [List.pairwise_cons] at hs
    have hcp := hc p List.mem_cons_self
    have hc' : ∀ q ∈ ps, (a.cids q = ct ↔ a.key q = kt) :=
      fun q hq => hc q (List.mem_cons_of_mem _ hq)
    have hprev' : ∀ k0, some (a.key p) = some k0 → ∀ q ∈ ps, k0 ≤ a.key q := by
      intro k0 h q hq
      simp only [Option.some.injEq] at h
      rw [← h]; exact hs.1 q hq
    unfold zLens
    by_cases hpr : prev = some (a.key p)
    · simp only [hpr, if_true]
      have := ih (some (a.key p)) (fun c => if c = a.cids p then l c + 1 else l c) hs.2 hprev' hc'
      by_cases hk : a.key p = kt
      · have hcid : a.cids p = ct := hcp.mpr hk
        simp [hk, hcid] at this ⊢
        omega
      · have hcid : ¬ ct = a.cids p := fun h => hk (hcp.mp h.symm)
        have hkt : ¬ kt = a.key p := fun h => hk h.symm
        simp [hk, hcid, hkt] at this ⊢
        exact this
    · simp only [hpr, if_false]
      have := ih (some (a.key p)) l hs.2 hprev' hc'
      by_cases hk : a.key p = kt
      · have hpr' : ¬ prev = some kt := by rw [← hk]; exact hpr
        simp [hk, hpr'] at this ⊢
        omega
      · have hkt : ¬ kt = a.key p := fun h => hk h.symm
        by_cases hpk : prev = some kt
        · -- then kt < key p ≤ every later key: kt does not occur
          have hlt : ∀ q ∈ ps, kt < a.key q := by
            intro q hq
            have h1 := hprev kt hpk p List.mem_cons_self
            have h2 := hs.1 q hq
            omega
          have hnot : ¬ ∃ q ∈ ps, a.key q = kt := by
            rintro ⟨q, hq, h⟩
            have := hlt q hq
            omega
          simp [hk, hkt, hpk, hnot] at this ⊢
          exact this
        · simp [hk, hkt, hpk] at this ⊢
          exact this

/-- **`lengths[cid]` is the run length**: for a particle `p` of the array, the length stored for
its cell id is the number of particles of the array with `p`'s key -/
theorem zLengths_eq_count (zs : List ZArr) (cur : Nat) (hz : ZInv zs cur) (a : ZArr) (ha : a ∈ zs)
    (p : Nat) (hp : p ∈ a.pids) :
    zLengths a (a.cids p) = a.pids.countP (fun q => a.key q = a.key p) := by
  have h := zLens_spec a (a.key p) (a.cids p) a.pids none (fun _ => 1) (hz.sorted a ha)
    (fun k0 h => by cases h)
    (fun q hq => cids_eq_iff zs cur hz a a ha ha q p hq hp)
  have hm : a.key p ∈ a.pids.map a.key := List.mem_map_of_mem hp
  simp only [hm, ne_eq, reduceCtorEq, not_false_eq_true, and_self, if_true] at h
  rw [count_map_eq_countP] at h
  unfold zLengths
  omega

/-! ## rows of `nbr_boxes` -/

/-- a row after `found` was written at its start: the rest keeps the initial -1 -/
def padRow (maskLen : Nat) (L : List Int) : List Int := L ++ (rowInit maskLen).drop L.length

theorem padRow_nil (maskLen : Nat) : padRow maskLen [] = rowInit maskLen := by simp [padRow]

theorem writeRow_pad (maskLen : Nat) (L : List Int) (r : List Int)
    (h : r = rowInit maskLen ∨ r = padRow maskLen L) : L ++ r.drop L.length = padRow maskLen L := by
  rcases h with rfl | rfl
  · rfl
  · unfold padRow; rw [List.drop_left]

/-- however many times (at least once) the same content is written to row `c`, and whatever is
written to the other rows, row `c` ends up as that content followed by -1 -/
theorem foldl_writeRow (maskLen c : Nat) (L : List Int) (ws : List (Nat × List Int))
    (hsame : ∀ w ∈ ws, w.1 = c → w.2 = L) :
    ∀ r0 : Nat → List Int, (r0 c = rowInit maskLen ∨ r0 c = padRow maskLen L) →
      ((ws.foldl writeRow r0) c = r0 c ∨ (ws.foldl writeRow r0) c = padRow maskLen L) ∧
      ((∃ w ∈ ws, w.1 = c) → (ws.foldl writeRow r0) c = padRow maskLen L) := by
  induction ws with
  | nil => intro r0 _; exact ⟨Or.inl rfl, fun ⟨w, hw, _⟩ => by cases hw⟩
  | cons w ws ih =>
    intro r0 h0
    simp only [List.foldl_cons]
    have ihw := ih (fun w' hw' => hsame w' (List.mem_cons_of_mem _ hw')) (writeRow r0 w)
    by_cases hw : w.1 = c
    · have hL := hsame w List.mem_cons_self hw
      have e : writeRow r0 w c = padRow maskLen L := by
        simp only [writeRow, hw, if_true, hL]
        exact writeRow_pad maskLen L _ h0
      obtain ⟨i1, _⟩ := ihw (Or.inr e)
      have : (ws.foldl writeRow (writeRow r0 w)) c = padRow maskLen L := by
        rcases i1 with h | h
        · rw [h, e]
        · exact h
      exact ⟨Or.inr this, fun _ => this⟩
    · have e : writeRow r0 w c = r0 c := by
        have : ¬ c = w.1 := fun h => hw h.symm
        simp only [writeRow, this, if_false]
      obtain ⟨i1, i2⟩ := ihw (by rw [e]; exact h0)
      refine ⟨by rw [e] at i1; exact i1, ?_⟩
      rintro ⟨w', hw', hc'⟩
      rcases List.mem_cons.mp hw' with rfl | hw''
      · exact absurd hc' hw
      · exact i2 ⟨w', hw'', hc'⟩

/-- every write of a walk comes from a particle of the walked list -/
theorem zWrites_mem (b : ZArr) (skip : Nat → Bool) (nbrOf : Cell → Nat → List Int) :
    ∀ (ps : List Nat) (prev : Option Nat), ∀ w ∈ zWrites b skip nbrOf prev ps,
      ∃ p ∈ ps, w = (b.cids p, nbrOf (b.cellAt p) (b.cids p)) := by
  intro ps
  induction ps with
  | nil => intro prev w hw; simp [zWrites] at hw
  | cons p ps ih =>
    intro prev w hw
    unfold zWrites at hw
    split at hw
    · obtain ⟨q, hq, e⟩ := ih _ w hw; exact ⟨q, List.mem_cons_of_mem _ hq, e⟩
    · split at hw
      · obtain ⟨q, hq, e⟩ := ih _ w hw; exact ⟨q, List.mem_cons_of_mem _ hq, e⟩
      · rcases List.mem_cons.mp hw with rfl | hw'
        · exact ⟨p, List.mem_cons_self, rfl⟩
        · obtain ⟨q, hq, e⟩ := ih _ w hw'; exact ⟨q, List.mem_cons_of_mem _ hq, e⟩

/-- every key of the walked list that is not skipped (and is not the key before the walk) gets a
write from a particle with that key -/
theorem zWrites_covers (b : ZArr) (skip : Nat → Bool) (nbrOf : Cell → Nat → List Int) :
    ∀ (ps : List Nat) (prev : Option Nat), ∀ p ∈ ps, prev ≠ some (b.key p) →
      skip (b.key p) = false →
      ∃ p' ∈ ps, b.key p' = b.key p ∧
        (b.cids p', nbrOf (b.cellAt p') (b.cids p')) ∈ zWrites b skip nbrOf prev ps := by
  intro ps
  induction ps with
  | nil => intro prev p hp; cases hp
  | cons q ps ih =>
    intro prev p hp hprev hskip
    unfold zWrites
    by_cases hpr : prev = some (b.key q)
    · simp only [hpr, if_true]
      have hne : b.key q ≠ b.key p := fun h => hprev (by rw [hpr, h])
      rcases List.mem_cons.mp hp with rfl | hp'
      · exact absurd rfl hne
      · obtain ⟨p', hp'm, hk, hw⟩ := ih (some (b.key q)) p hp' (by simpa using hne) hskip
        exact ⟨p', List.mem_cons_of_mem _ hp'm, hk, hw⟩
    · simp only [hpr, if_false]
      by_cases hkq : b.key q = b.key p
      · have hsq : skip (b.key q) = false := by rw [hkq]; exact hskip
        simp only [hsq, Bool.false_eq_true, if_false]
        exact ⟨q, List.mem_cons_self, hkq, List.mem_cons_self⟩
      · have hp' : p ∈ ps := by
          rcases List.mem_cons.mp hp with rfl | h
          · exact absurd rfl hkq
          · exact h
        obtain ⟨p', hp'm, hk, hw⟩ := ih (some (b.key q)) p hp' (by simpa using hkq) hskip
        refine ⟨p', List.mem_cons_of_mem _ hp'm, hk, ?_⟩
        split
        · exact hw
        · exact List.mem_cons_of_mem _ hw

theorem getElem?_mem' {β : Type} (l : List β) (i : Nat) (x : β) (h : l[i]? = some x) : x ∈ l :=
  List.mem_of_getElem? h

/-- **the rows of `nbr_boxes[s]`**: for a particle `q` of ANY array `b`, the row of `q`'s cell id
holds the boxes found for `q`'s cell (then -1), provided equal keys mean equal cells -/
theorem zRows_eq (maskLen : Nat) (zs : List ZArr) (cur : Nat) (hz : ZInv zs cur)
    (hcell : ∀ a ∈ zs, ∀ b ∈ zs, ∀ p ∈ a.pids, ∀ q ∈ b.pids, a.key p = b.key q →
      a.cellAt p = b.cellAt q)
    (s d : Nat) (a b : ZArr) (hs : zs[s]? = some a) (hd : zs[d]? = some b)
    (nbrOf : Cell → Nat → List Int) (hne : a.pids ≠ []) (q : Nat) (hq : q ∈ b.pids) :
    zRows maskLen zs s a nbrOf (b.cids q) = padRow maskLen (nbrOf (b.cellAt q) (b.cids q)) := by
  have ha : a ∈ zs := List.mem_of_getElem? hs
  have hb : b ∈ zs := List.mem_of_getElem? hd
  unfold zRows
  have hemp : a.pids.isEmpty = false := by
    cases h : a.pids with
    | nil => exact absurd h hne
    | cons _ _ => rfl
  simp only [hemp, Bool.false_eq_true, if_false]
  -- every write to this row has the same content
  have hsame : ∀ w ∈ zAllWrites zs s a nbrOf, w.1 = b.cids q →
      w.2 = nbrOf (b.cellAt q) (b.cids q) := by
    intro w hw hwc
    have hfrom : ∃ o ∈ zs, ∃ p ∈ o.pids, w = (o.cids p, nbrOf (o.cellAt p) (o.cids p)) := by
      unfold zAllWrites at hw
      rcases List.mem_append.mp hw with hw | hw
      · obtain ⟨p, hp, e⟩ := zWrites_mem a _ nbrOf _ _ w hw
        exact ⟨a, ha, p, hp, e⟩
      · obtain ⟨d', _, hw'⟩ := List.mem_flatMap.mp hw
        cases ho : zs[d']? with
        | none => rw [ho] at hw'; cases hw'
        | some o =>
          rw [ho] at hw'
          obtain ⟨p, hp, e⟩ := zWrites_mem o _ nbrOf _ _ w hw'
          exact ⟨o, List.mem_of_getElem? ho, p, hp, e⟩
    obtain ⟨o, ho, p, hp, rfl⟩ := hfrom
    simp only at hwc ⊢
    have hk := (cids_eq_iff zs cur hz o b ho hb p q hp hq).mp hwc
    rw [hcell o ho b hb p hp q hq hk, hwc]
  -- and there is at least one
  have hex : ∃ w ∈ zAllWrites zs s a nbrOf, w.1 = b.cids q := by
    by_cases hin : b.key q ∈ a.keys
    · obtain ⟨p0, hp0, hk0⟩ := List.mem_map.mp (by rw [hz.keysEq a ha] at hin; exact hin)
      obtain ⟨p', hp', hk', hw⟩ := zWrites_covers a (fun _ => false) nbrOf a.pids none p0 hp0
        (by simp) rfl
      refine ⟨(a.cids p', nbrOf (a.cellAt p') (a.cids p')), List.mem_append_left _ hw, ?_⟩
      exact (cids_eq_iff zs cur hz a b ha hb p' q hp' hq).mpr (hk'.trans hk0)
    · have hds : d ≠ s := by
        intro e
        subst e
        rw [hs] at hd
        simp only [Option.some.injEq] at hd
        subst hd
        exact hin (by rw [hz.keysEq a ha]; exact List.mem_map_of_mem hq)
      have hdl : d < zs.length := (List.getElem?_eq_some_iff.mp hd).1
      have hskip : (fun k => (a.keyToIdx k).isSome) (b.key q) = false := by
        simp only [ZArr.keyToIdx, firstIdx, hin, if_false, Option.isSome_none]
      obtain ⟨p', hp', hk', hw⟩ := zWrites_covers b (fun k => (a.keyToIdx k).isSome) nbrOf b.pids
        none q hq (by simp) hskip
      refine ⟨(b.cids p', nbrOf (b.cellAt p') (b.cids p')), List.mem_append_right _ ?_, ?_⟩
      · exact List.mem_flatMap.mpr ⟨d, List.mem_filter.mpr ⟨List.mem_range.mpr hdl, by simpa using hds⟩,
          by rw [hd]; exact hw⟩
      · exact (cids_eq_iff zs cur hz b b hb hb p' q hp' hq).mpr hk'
  exact (foldl_writeRow maskLen (b.cids q) _ _ hsame (fun _ => rowInit maskLen) (Or.inl rfl)).2 hex

/-- the walk over a row stops at the first -1: it sees exactly the found indices -/
theorem takeWhile_padRow (maskLen : Nat) (L : List Int) (h : ∀ x ∈ L, 0 ≤ x) :
    (padRow maskLen L).takeWhile (fun s => decide (0 ≤ s)) = L := by
  unfold padRow rowInit
  rw [List.drop_replicate, List.takeWhile_append_of_pos (by intro x hx; simpa using h x hx),
    List.takeWhile_replicate]
  simp

/-! ## candidates -/

theorem cellFits21_iff (c : Cell) : cellFits21 c = true ↔
    (0 ≤ c.1 ∧ c.1 < 2 ^ 21) ∧ (0 ≤ c.2.1 ∧ c.2.1 < 2 ^ 21) ∧ (0 ≤ c.2.2 ∧ c.2.2 < 2 ^ 21) := by
  simp only [cellFits21, Bool.and_eq_true, decide_eq_true_eq, and_assoc]

theorem cellFits21_nonneg (c : Cell) (h : cellFits21 c = true) : nonnegCell c = true := by
  rw [cellFits21_iff] at h
  rw [nonnegCell_iff]
  exact ⟨h.1.1, h.2.1.1, h.2.2.1⟩

/-- `get_key` is injective on the cells that pass the guard -/
theorem zKey_inj (a b : Cell) (ha : cellFits21 a = true) (hb : cellFits21 b = true)
    (h : zKey a = zKey b) : a = b := by
  rw [cellFits21_iff] at ha hb
  obtain ⟨a1, a2, a3⟩ := a
  obtain ⟨b1, b2, b3⟩ := b
  simp only at ha hb
  have := mortonKey_inj a1.toNat a2.toNat a3.toNat b1.toNat b2.toNat b3.toNat
    (by omega) (by omega) (by omega) (by omega) (by omega) (by omega) h
  simp only [Prod.mk.injEq]
  omega

/-- what the theorems need of one input array: the pids are a permutation of all particle ids
sorted by key, every cell passes the 21-bit guard and every key is below `max_key` -/
structure ZIn.Ok (maxKey : Nat) (inp : ZIn) : Prop where
  perm : inp.pids.Perm (List.range inp.n)
  sorted : inp.Sorted
  fits : ∀ j, j < inp.n → cellFits21 (inp.cellAt j) = true
  below : ∀ j, j < inp.n → zKey (inp.cellAt j) < maxKey

theorem flatMap_filterMap_eq {β γ δ : Type} (l : List β) (f : β → Option γ) (g : γ → List δ) :
    (l.filterMap f).flatMap g = l.flatMap (fun x => match f x with | some y => g y | none => []) := by
  induction l with
  | nil => rfl
  | cons a t ih =>
    simp only [List.filterMap_cons, List.flatMap_cons]
    cases h : f a with
    | none => simp [ih]
    | some y => simp [ih]

theorem zNbrIdx_nonneg (maxKey : Nat) (mask : List Cell) (a : ZArr) (c : Cell) :
    ∀ x ∈ zNbrIdx maxKey mask a c, 0 ≤ x := by
  intro x hx
  unfold zNbrIdx at hx
  obtain ⟨b, _, hb⟩ := List.mem_filterMap.mp hx
  cases hg : a.getIdx maxKey (zKey b) with
  | none => rw [hg] at hb; cases hb
  | some s =>
    rw [hg] at hb
    simp only [Option.map_some, Option.some.injEq] at hb
    rw [← hb]; exact Int.natCast_nonneg s

/-- the per-box lookup of `find_nearest_neighbors` -/
def zLookup (maxKey : Nat) (a : ZArr) (c : Cell) : List Nat :=
  match a.getIdx maxKey (zKey c) with
  | some s => zRun a (zLengths a) (Int.ofNat s)
  | none => []

/-- the run of a box's start index is the list of the array's particles with the box's key -/
theorem zLookup_eq_filter (maxKey : Nat) (zs : List ZArr) (cur : Nat) (hz : ZInv zs cur) (a : ZArr)
    (ha : a ∈ zs) (hbelow : ∀ p ∈ a.pids, a.key p < maxKey) (c : Cell) :
    zLookup maxKey a c = a.pids.filter (fun p => a.key p = zKey c) := by
  unfold zLookup ZArr.getIdx
  by_cases hmk : maxKey ≤ zKey c
  · simp only [hmk, if_true]
    symm
    rw [List.filter_eq_nil_iff]
    intro p hp
    have := hbelow p hp
    simp only [decide_eq_true_eq]
    omega
  · simp only [hmk, if_false]
    unfold ZArr.keyToIdx
    cases hf : firstIdx a.keys (zKey c) with
    | none =>
      have hk := firstIdx_none _ _ hf
      symm
      rw [List.filter_eq_nil_iff]
      intro p hp
      simp only [decide_eq_true_eq]
      intro h
      exact hk (by rw [← h, hz.keysEq a ha]; exact List.mem_map_of_mem hp)
    | some s =>
      obtain ⟨hk, hs⟩ := firstIdx_some _ _ _ hf
      subst hs
      rw [hz.keysEq a ha] at hk ⊢
      obtain ⟨hm, hkey⟩ := getD_idxOf_map a.key a.pids (zKey c) hk
      simp only [zRun, Int.ofNat_eq_natCast, Int.toNat_natCast]
      have hl := zLengths_eq_count zs cur hz a ha _ hm
      rw [hl, hkey]
      exact run_eq_filter a.key (zKey c) a.pids (hz.sorted a ha)

theorem zLookup_spec (maxKey : Nat) (zs : List ZArr) (cur : Nat) (hz : ZInv zs cur) (a : ZArr)
    (ha : a ∈ zs) (hok : (a.toIn).Ok maxKey) (c : Cell) (hc : cellFits21 c = true) :
    LookupSpec a.n a.cellAt (zLookup maxKey a) c := by
  have hmem : ∀ p, p ∈ a.pids ↔ p < a.n := by
    intro p
    rw [show a.pids = a.toIn.pids from rfl, hok.perm.mem_iff, List.mem_range]; rfl
  have hnd : a.pids.Nodup := (hok.perm.nodup_iff).mpr List.nodup_range
  rw [LookupSpec, zLookup_eq_filter maxKey zs cur hz a ha
    (fun p hp => hok.below p ((hmem p).mp hp)) c]
  refine ⟨hnd.filter _, fun j => ?_⟩
  simp only [List.mem_filter, decide_eq_true_eq, hmem]
  constructor
  · rintro ⟨hj, hk⟩
    exact ⟨hj, zKey_inj _ _ (hok.fits j hj) hc hk⟩
  · rintro ⟨hj, rfl⟩
    exact ⟨hj, rfl⟩

/-- visiting any duplicate-free list of boxes with an exact per-box lookup enumerates exactly
the particles whose cell is one of the boxes, each once -/
theorem flatMap_lookup_perm (n : Nat) (cellAt : Nat → Cell) (lookup : Cell → List Nat)
    (boxes : List Cell) (hnd : boxes.Nodup) (hspec : ∀ c ∈ boxes, LookupSpec n cellAt lookup c) :
    (boxes.flatMap lookup).Perm ((List.range n).filter (fun j => decide (cellAt j ∈ boxes))) := by
  have nd1 := flatMap_lookup_nodup n cellAt lookup boxes hnd hspec
  have nd2 : ((List.range n).filter (fun j => decide (cellAt j ∈ boxes))).Nodup :=
    List.nodup_range.filter _
  rw [List.perm_ext_iff_of_nodup nd1 nd2]
  intro j
  simp only [List.mem_flatMap, List.mem_filter, List.mem_range, decide_eq_true_eq]
  constructor
  · rintro ⟨c, hc, hj⟩
    obtain ⟨hlt, hcell⟩ := ((hspec c hc).2 j).mp hj
    exact ⟨hlt, by rw [hcell]; exact hc⟩
  · rintro ⟨hlt, hb⟩
    exact ⟨cellAt j, hb, ((hspec _ hb).2 j).mpr ⟨hlt, rfl⟩⟩

/-- the boxes `_neighbor_boxes` looks at around `cq` -/
def zBoxes (mask : List Cell) (cq : Cell) : List Cell := (mask.map (Cell.add cq)).filter nonnegCell

theorem zBoxes_nodup (mask : List Cell) (hm : mask.Nodup) (cq : Cell) : (zBoxes mask cq).Nodup :=
  (hm.map (Cell.add_injective cq)).filter _

/-- the arrays built by `zBuild` are the inputs, position by position -/
theorem zBuild_getElem? (ins : List ZIn) (hs : ∀ inp ∈ ins, inp.Sorted) (k : Nat) (inp : ZIn)
    (h : ins[k]? = some inp) : ∃ a, (zBuild ins).1[k]? = some a ∧ a.toIn = inp := by
  have hm := (zBuild_inv ins hs).2
  have : ((zBuild ins).1.map ZArr.toIn)[k]? = some inp := by rw [hm]; exact h
  rw [List.getElem?_map] at this
  cases hk : (zBuild ins).1[k]? with
  | none => rw [hk] at this; cases this
  | some a =>
    rw [hk] at this
    simp only [Option.map_some, Option.some.injEq] at this
    exact ⟨a, rfl, this⟩

theorem zBuild_mem_ok (maxKey : Nat) (ins : List ZIn) (hok : ∀ inp ∈ ins, inp.Ok maxKey) (a : ZArr)
    (ha : a ∈ (zBuild ins).1) : (a.toIn).Ok maxKey := by
  have hm := (zBuild_inv ins (fun inp hi => (hok inp hi).sorted)).2
  apply hok
  rw [← hm]
  exact List.mem_map_of_mem ha

/-- the context every candidate lemma works in: the built arrays of source and destination -/
structure ZCtx (maxKey : Nat) (ins : List ZIn) (s d i : Nat) (a b : ZArr) : Prop where
  inv : ZInv (zBuild ins).1 (zBuild ins).2
  has : (zBuild ins).1[s]? = some a
  hbd : (zBuild ins).1[d]? = some b
  oka : (a.toIn).Ok maxKey
  okb : (b.toIn).Ok maxKey
  hi : i < b.n
  okAll : ∀ x ∈ (zBuild ins).1, (x.toIn).Ok maxKey

theorem ZCtx.mk' (maxKey : Nat) (ins : List ZIn) (hok : ∀ inp ∈ ins, inp.Ok maxKey) (s d i : Nat)
    (src dst : ZIn) (hs : ins[s]? = some src) (hd : ins[d]? = some dst) (hi : i < dst.n) :
    ∃ a b, a.toIn = src ∧ b.toIn = dst ∧ ZCtx maxKey ins s d i a b := by
  have hsorted : ∀ inp ∈ ins, inp.Sorted := fun inp hi => (hok inp hi).sorted
  obtain ⟨hz, _⟩ := zBuild_inv ins hsorted
  obtain ⟨a, has, hai⟩ := zBuild_getElem? ins hsorted s src hs
  obtain ⟨b, hbd, hbi⟩ := zBuild_getElem? ins hsorted d dst hd
  refine ⟨a, b, hai, hbi, hz, has, hbd, ?_, ?_, ?_, fun x hx => zBuild_mem_ok maxKey ins hok x hx⟩
  · exact zBuild_mem_ok maxKey ins hok a (List.mem_of_getElem? has)
  · exact zBuild_mem_ok maxKey ins hok b (List.mem_of_getElem? hbd)
  · rw [← hbi] at hi; exact hi

theorem ok_mem_pids (maxKey : Nat) (x : ZArr) (hx : (x.toIn).Ok maxKey) (p : Nat) :
    p ∈ x.pids ↔ p < x.n := by
  rw [show x.pids = x.toIn.pids from rfl, hx.perm.mem_iff, List.mem_range]; rfl

/-- the walk of `find_nearest_neighbors` over the row of the destination particle's cell id
visits the runs of the boxes found for the destination particle's cell -/
theorem zCandsRow_rows (maxKey maskLen : Nat) (ins : List ZIn) (s d i : Nat) (a b : ZArr)
    (ctx : ZCtx maxKey ins s d i a b) (nbrOf : Cell → Nat → List Int)
    (hnn : ∀ c cid, ∀ x ∈ nbrOf c cid, 0 ≤ x) (hne : a.pids ≠ []) :
    zCandsRow a (zLengths a) (zRows maskLen (zBuild ins).1 s a nbrOf (b.cids i)) =
      (nbrOf (b.cellAt i) (b.cids i)).flatMap (zRun a (zLengths a)) := by
  have hcell : ∀ x ∈ (zBuild ins).1, ∀ y ∈ (zBuild ins).1, ∀ p ∈ x.pids, ∀ q ∈ y.pids,
      x.key p = y.key q → x.cellAt p = y.cellAt q := by
    intro x hx y hy p hp q hq hk
    have hox := ctx.okAll x hx
    have hoy := ctx.okAll y hy
    exact zKey_inj _ _ (hox.fits p ((ok_mem_pids maxKey x hox p).mp hp))
      (hoy.fits q ((ok_mem_pids maxKey y hoy q).mp hq)) hk
  have hib : i ∈ b.pids := (ok_mem_pids maxKey b ctx.okb i).mpr ctx.hi
  rw [zRows_eq maskLen _ _ ctx.inv hcell s d a b ctx.has ctx.hbd _ hne i hib]
  unfold zCandsRow
  rw [takeWhile_padRow maskLen _ (hnn _ _)]

theorem zCandsRow_empty (maskLen : Nat) (zs : List ZArr) (s : Nat) (a : ZArr)
    (nbrOf : Cell → Nat → List Int) (cid : Nat) (hne : a.pids = []) :
    zCandsRow a (zLengths a) (zRows maskLen zs s a nbrOf cid) = [] := by
  have hrow : zRows maskLen zs s a nbrOf cid = rowInit maskLen := by
    unfold zRows; simp [hne]
  rw [hrow]
  unfold zCandsRow rowInit
  rw [List.takeWhile_replicate]
  simp

theorem ok_n_zero (maxKey : Nat) (a : ZArr) (hoka : (a.toIn).Ok maxKey) (hne : a.pids = []) :
    a.n = 0 := by
  have := hoka.perm.length_eq
  rw [show a.toIn.pids = a.pids from rfl, hne] at this
  have e : a.toIn.n = a.n := rfl
  rw [e] at this
  simpa using this.symm

/-- **candidates of the z-order classes (no pruning)**: for every list of arrays, every (src,
dst) pair and every destination particle `i`, the walk over the row of `i`'s cell id visits
exactly the particles of the source array whose cell is one of the (non-negative) mask cells
around `i`'s cell, each once.  `maskLen` (the row length) does not matter. -/
theorem zCandsGen_perm (maxKey maskLen : Nat) (mask : List Cell) (hmask : mask.Nodup)
    (ins : List ZIn) (hok : ∀ inp ∈ ins, inp.Ok maxKey) (s d i : Nat) (src dst : ZIn)
    (hs : ins[s]? = some src) (hd : ins[d]? = some dst) (hi : i < dst.n)
    (hbox : ∀ c ∈ zBoxes mask (dst.cellAt i), cellFits21 c = true) :
    (zCandsGen maskLen (zBuild ins).1 (fun a c _ => zNbrIdx maxKey mask a c) s d i).Perm
      ((List.range src.n).filter
        (fun j => decide (src.cellAt j ∈ zBoxes mask (dst.cellAt i)))) := by
  obtain ⟨a, b, hai, hbi, ctx⟩ := ZCtx.mk' maxKey ins hok s d i src dst hs hd hi
  subst hai
  subst hbi
  have ha : a ∈ (zBuild ins).1 := List.mem_of_getElem? ctx.has
  unfold zCandsGen
  simp only [ctx.has, ctx.hbd]
  show (zCandsRow a (zLengths a) _).Perm ((List.range a.n).filter _)
  by_cases hne : a.pids = []
  · -- an empty source array: nothing to visit, nothing to find
    rw [zCandsRow_empty _ _ _ _ _ _ hne, ok_n_zero maxKey a ctx.oka hne]
    simp
  · rw [zCandsRow_rows maxKey maskLen ins s d i a b ctx _
      (fun c _ => zNbrIdx_nonneg maxKey mask a c) hne]
    have e : (zNbrIdx maxKey mask a (b.cellAt i)).flatMap (zRun a (zLengths a)) =
        (zBoxes mask (b.cellAt i)).flatMap (zLookup maxKey a) := by
      unfold zNbrIdx zBoxes
      rw [flatMap_filterMap_eq]
      apply List.flatMap_congr
      intro c _
      unfold zLookup
      cases a.getIdx maxKey (zKey c) <;> rfl
    rw [e]
    exact flatMap_lookup_perm a.n a.cellAt _ _ (zBoxes_nodup mask hmask _)
      (fun c hc => zLookup_spec maxKey _ _ ctx.inv a ha ctx.oka c (hbox c hc))

/-! ## the mask, the guard, sorting -/

theorem mem_maskZ (H : Nat) (m : Cell) :
    m ∈ maskZ H ↔ m.1.natAbs ≤ H ∧ m.2.1.natAbs ≤ H ∧ m.2.2.natAbs ≤ H := by
  obtain ⟨a, b, c⟩ := m
  simp only [← mem_maskRange]
  unfold maskZ
  simp only [List.mem_flatMap, List.mem_map, Prod.mk.injEq]
  constructor
  · rintro ⟨c', hc, b', hb, a', ha, rfl, rfl, rfl⟩; exact ⟨ha, hb, hc⟩
  · rintro ⟨ha, hb, hc⟩; exact ⟨c, hc, b, hb, a, ha, rfl, rfl, rfl⟩

theorem maskZ_eq_map (H : Nat) : maskZ H = (hMaskExact H).map (fun m => (m.2.2, m.2.1, m.1)) := by
  simp [maskZ, hMaskExact, List.map_flatMap, List.map_map, Function.comp_def]

theorem maskZ_nodup (H : Nat) : (maskZ H).Nodup := by
  rw [maskZ_eq_map]
  refine (hMaskExact_nodup H).map ?_
  rintro ⟨a, b, c⟩ ⟨a', b', c'⟩ h
  simp only [Prod.mk.injEq] at h ⊢
  exact ⟨h.2.2, h.2.1, h.1⟩

theorem cellGuard_iff (H : Nat) (c : Cell) : cellGuard H c = true ↔
    (0 ≤ c.1 ∧ c.1 + (H : Int) < 2 ^ 21) ∧ (0 ≤ c.2.1 ∧ c.2.1 + (H : Int) < 2 ^ 21) ∧
      (0 ≤ c.2.2 ∧ c.2.2 + (H : Int) < 2 ^ 21) := by
  simp only [cellGuard, Bool.and_eq_true, decide_eq_true_eq, and_assoc]

theorem cellGuard_fits (H : Nat) (c : Cell) (h : cellGuard H c = true) : cellFits21 c = true := by
  rw [cellGuard_iff] at h
  rw [cellFits21_iff]
  refine ⟨⟨h.1.1, ?_⟩, ⟨h.2.1.1, ?_⟩, ⟨h.2.2.1, ?_⟩⟩ <;> omega

/-- the boxes around a cell: the non-negative cells at most `H` away on every axis -/
theorem mem_zBoxes_maskZ (H : Nat) (cq c : Cell) :
    c ∈ zBoxes (maskZ H) cq ↔ nonnegCell c = true ∧
      ((c.1 - cq.1).natAbs ≤ H ∧ (c.2.1 - cq.2.1).natAbs ≤ H ∧ (c.2.2 - cq.2.2).natAbs ≤ H) := by
  unfold zBoxes
  rw [List.mem_filter, List.mem_map, and_comm]
  apply and_congr_right
  intro _
  constructor
  · rintro ⟨m, hm, rfl⟩
    rw [mem_maskZ] at hm
    simp only [Cell.add]
    omega
  · rintro ⟨h1, h2, h3⟩
    refine ⟨(c.1 - cq.1, c.2.1 - cq.2.1, c.2.2 - cq.2.2), (mem_maskZ H _).mpr ⟨h1, h2, h3⟩, ?_⟩
    obtain ⟨c1, c2, c3⟩ := c
    simp only [Cell.add, Prod.mk.injEq]
    omega

/-- every box around a guarded cell passes the 21-bit guard -/
theorem zBoxes_fit (H : Nat) (cq : Cell) (hq : cellGuard H cq = true) :
    ∀ c ∈ zBoxes (maskZ H) cq, cellFits21 c = true := by
  intro c hc
  obtain ⟨hnn, h1, h2, h3⟩ := (mem_zBoxes_maskZ H cq c).mp hc
  rw [nonnegCell_iff] at hnn
  rw [cellGuard_iff] at hq
  rw [cellFits21_iff]
  refine ⟨⟨hnn.1, ?_⟩, ⟨hnn.2.1, ?_⟩, ⟨hnn.2.2, ?_⟩⟩ <;> omega

theorem insertPid_perm (key : Nat → Nat) (p : Nat) (l : List Nat) :
    (insertPid key p l).Perm (p :: l) := by
  induction l with
  | nil => exact List.Perm.refl _
  | cons a t ih =>
    unfold insertPid
    split
    · exact List.Perm.refl _
    · exact (List.Perm.cons a ih).trans (List.Perm.swap p a t)

theorem insertPid_sorted (key : Nat → Nat) (p : Nat) (l : List Nat)
    (h : l.Pairwise (fun a b => key a ≤ key b)) :
    (insertPid key p l).Pairwise (fun a b => key a ≤ key b) := by
  induction l with
  | nil => simp [insertPid]
  | cons a t ih =>
    rw [List.pairwise_cons] at h
    unfold insertPid
    split
    · rename_i hle
      refine List.pairwise_cons.mpr ⟨?_, List.pairwise_cons.mpr h⟩
      intro b hb
      rcases List.mem_cons.mp hb with rfl | hb'
      · exact hle
      · exact le_trans hle (h.1 b hb')
    · rename_i hgt
      refine List.pairwise_cons.mpr ⟨?_, ih h.2⟩
      intro b hb
      rcases List.mem_cons.mp ((insertPid_perm key p t).mem_iff.mp hb) with rfl | hb'
      · omega
      · exact h.1 b hb'

/-- the model's own `compare_sort` is a sorting function -/
theorem sortPids_spec (key : Nat → Nat) (n : Nat) :
    (sortPids key n).Perm (List.range n) ∧
      (sortPids key n).Pairwise (fun p q => key p ≤ key q) := by
  unfold sortPids
  generalize List.range n = l
  induction l with
  | nil => exact ⟨List.Perm.refl _, List.Pairwise.nil⟩
  | cons a t ih =>
    simp only [List.foldr_cons]
    exact ⟨(insertPid_perm key a _).trans (List.Perm.cons a ih.1), insertPid_sorted key a _ ih.2⟩

end PysphVerif.Nnps
