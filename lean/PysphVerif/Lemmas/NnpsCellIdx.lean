import PysphVerif.Lemmas.NnpsGrid
import Mathlib.Data.List.Sort
/-!
C01 helper lemmas for `CellIndexingNNPS`: packed 32-bit keys under the
no-overflow guard, the run detection of `fill_array` over the sorted keys, and
the lookup of one stencil box.
-/
set_option linter.unusedSectionVars false
namespace PysphVerif.Nnps

/-! ## packing -/

/-- the cell code: `x + 2^J y + 2^(J+K) z` -/
def ciCode (J K : Nat) (c : Nat × Nat × Nat) : Nat := c.1 + 2 ^ J * (c.2.1 + 2 ^ K * c.2.2)

theorem ciFits_iff (I J K n : Nat) (c : Nat × Nat × Nat) :
    ciFits I J K n c = true ↔ n < 2 ^ I ∧ c.1 < 2 ^ J ∧ c.2.1 < 2 ^ K ∧
      n + 2 ^ I * c.1 + 2 ^ (I + J) * c.2.1 + 2 ^ (I + J + K) * c.2.2 < 2 ^ 32 := by
  simp only [ciFits, Bool.and_eq_true, decide_eq_true_eq, and_assoc]

theorem ciKey_sum (I J K n : Nat) (c : Nat × Nat × Nat) :
    n + 2 ^ I * c.1 + 2 ^ (I + J) * c.2.1 + 2 ^ (I + J + K) * c.2.2 = n + 2 ^ I * ciCode J K c := by
  unfold ciCode
  rw [pow_add, pow_add, pow_add]
  ring

theorem ciKey_of_fits (I J K n : Nat) (c : Nat × Nat × Nat) (h : ciFits I J K n c = true) :
    ciKey I J K n c = n + 2 ^ I * ciCode J K c := by
  rw [ciFits_iff] at h
  unfold ciKey
  rw [Nat.mod_eq_of_lt h.2.2.2, ciKey_sum]

theorem add_mul_div_of_lt (X r q : Nat) (hr : r < X) : (r + X * q) / X = q := by
  have hX : 0 < X := by omega
  rw [Nat.add_mul_div_left _ _ hX, Nat.div_eq_of_lt hr, Nat.zero_add]

theorem add_mul_mod_of_lt (X r q : Nat) (hr : r < X) : (r + X * q) % X = r := by
  rw [Nat.add_mul_mod_self_left, Nat.mod_eq_of_lt hr]

/-- the decoded cell is a function of `key >> I` -/
theorem ciCell_of_code (I J K key : Nat) :
    ciCell I J K key =
      ((key / 2 ^ I) % 2 ^ J, (key / 2 ^ I / 2 ^ J) % 2 ^ K, key / 2 ^ I / 2 ^ J / 2 ^ K) := by
  simp only [ciCell, Nat.shiftRight_eq_div_pow, pow_add, Nat.div_div_eq_div_mul]

theorem ciCode_decode (J K : Nat) (c : Nat × Nat × Nat) (h1 : c.1 < 2 ^ J) (h2 : c.2.1 < 2 ^ K) :
    ((ciCode J K c) % 2 ^ J, (ciCode J K c / 2 ^ J) % 2 ^ K, ciCode J K c / 2 ^ J / 2 ^ K) = c := by
  obtain ⟨c1, c2, c3⟩ := c
  simp only [ciCode] at *
  rw [add_mul_mod_of_lt _ _ _ h1, add_mul_div_of_lt _ _ _ h1, add_mul_mod_of_lt _ _ _ h2,
    add_mul_div_of_lt _ _ _ h2]

/-- **pack_unpack**: under the no-overflow guard `_get_id`, `_get_x/_y/_z` recover what
`_get_key` packed -/
theorem ci_unpack (I J K n : Nat) (c : Nat × Nat × Nat) (h : ciFits I J K n c = true) :
    ciId I (ciKey I J K n c) = n ∧ ciCell I J K (ciKey I J K n c) = c ∧
      ciKey I J K n c / 2 ^ I = ciCode J K c := by
  have hk := ciKey_of_fits I J K n c h
  rw [ciFits_iff] at h
  have hd : (n + 2 ^ I * ciCode J K c) / 2 ^ I = ciCode J K c := add_mul_div_of_lt _ _ _ h.1
  refine ⟨?_, ?_, ?_⟩
  · rw [hk, ciId, add_mul_mod_of_lt _ _ _ h.1]
  · rw [ciCell_of_code, hk, hd]
    exact ciCode_decode J K c h.2.1 h.2.2.1
  · rw [hk, hd]

/-- **pack_inj** -/
theorem ci_pack_inj (I J K n n' : Nat) (c c' : Nat × Nat × Nat) (h : ciFits I J K n c = true)
    (h' : ciFits I J K n' c' = true) (e : ciKey I J K n c = ciKey I J K n' c') : n = n' ∧ c = c' := by
  obtain ⟨a1, a2, _⟩ := ci_unpack I J K n c h
  obtain ⟨b1, b2, _⟩ := ci_unpack I J K n' c' h'
  rw [e] at a1 a2
  exact ⟨a1.symm.trans b1, a2.symm.trans b2⟩

/-- a cell that fits together with some index also fits with index 0 (the map key) -/
theorem ciFits_zero (I J K n : Nat) (c : Nat × Nat × Nat) (h : ciFits I J K n c = true) :
    ciFits I J K 0 c = true := by
  rw [ciFits_iff] at h ⊢
  refine ⟨Nat.pos_of_ne_zero (by positivity), h.2.1, h.2.2.1, ?_⟩
  omega

/-! ## runs of a sorted key array -/

section runs
variable (f : Nat → Nat × Nat × Nat) (g : Nat → Nat) (w : Nat × Nat × Nat)

theorem take_countP_eq_filter (g0 : Nat) :
    ∀ L : List Nat, L.Pairwise (fun a b => g a ≤ g b) → (∀ a ∈ L, g0 ≤ g a) →
      (∀ a ∈ L, (f a = w ↔ g a = g0)) →
      L.take (L.countP (fun k => f k = w)) = L.filter (fun k => f k = w) := by
  intro L
  induction L with
  | nil => intros; rfl
  | cons a t ih =>
    intro hp hg0 hw
    rw [List.pairwise_cons] at hp
    by_cases hfa : f a = w
    · rw [List.countP_cons_of_pos (by simpa using hfa), List.filter_cons_of_pos (by simpa using hfa),
        List.take_succ_cons]
      congr 1
      exact ih hp.2 (fun b hb => hg0 b (List.mem_cons_of_mem _ hb))
        (fun b hb => hw b (List.mem_cons_of_mem _ hb))
    · have hall : ∀ b ∈ a :: t, ¬ f b = w := by
        intro b hb hfb
        have hga : g a ≠ g0 := fun h => hfa ((hw a List.mem_cons_self).mpr h)
        have h0 : g0 ≤ g a := hg0 a List.mem_cons_self
        rcases List.mem_cons.mp hb with rfl | hb'
        · exact hfa hfb
        · have h1 := hp.1 b hb'
          have h2 := (hw b hb).mp hfb
          omega
      have e1 : (a :: t).countP (fun k => f k = w) = 0 := by
        rw [List.countP_eq_zero]; simpa using hall
      have e2 : (a :: t).filter (fun k => f k = w) = [] := by
        rw [List.filter_eq_nil_iff]; simpa using hall
      rw [e1, e2, List.take_zero]

/-- in a list sorted by `g`, where `f` agrees exactly when `g` does, the elements with `f = w`
form the block that starts after the longest `f ≠ w` prefix -/
theorem block_eq_filter :
    ∀ L : List Nat, L.Pairwise (fun a b => g a ≤ g b) →
      (∀ a ∈ L, ∀ b ∈ L, (f a = f b ↔ g a = g b)) →
      (L.drop (L.takeWhile (fun k => f k ≠ w)).length).take (L.countP (fun k => f k = w)) =
        L.filter (fun k => f k = w) := by
  intro L
  induction L with
  | nil => intros; rfl
  | cons a t ih =>
    intro hp hfg
    by_cases hfa : f a = w
    · have e : (a :: t).takeWhile (fun k => f k ≠ w) = [] := by
        rw [List.takeWhile_cons_of_neg (by simpa using hfa)]
      rw [e, List.length_nil, List.drop_zero]
      refine take_countP_eq_filter f g w (g a) (a :: t) hp ?_ ?_
      · intro b hb
        rcases List.mem_cons.mp hb with rfl | hb'
        · exact le_refl _
        · exact (List.pairwise_cons.mp hp).1 b hb'
      · intro b hb
        rw [← hfa]
        exact hfg b hb a List.mem_cons_self
    · rw [List.takeWhile_cons_of_pos (by simpa using hfa), List.length_cons, List.drop_succ_cons,
        List.countP_cons_of_neg (by simpa using hfa), List.filter_cons_of_neg (by simpa using hfa)]
      exact ih (List.pairwise_cons.mp hp).2
        (fun x hx y hy => hfg x (List.mem_cons_of_mem _ hx) y (List.mem_cons_of_mem _ hy))

/-- what `current_indices.find` returns for the run value `w`: the run starts after the longest
`f ≠ w` prefix and has as many keys as there are keys with `f = w` -/
theorem runsAux_find :
    ∀ (ks : List Nat) (cur : Nat × Nat × Nat) (s l : Nat) (mid : List Nat),
      mid.length = l → 1 ≤ l → (∀ k ∈ mid, f k = cur) →
      (mid ++ ks).Pairwise (fun a b => g a ≤ g b) →
      (∀ a ∈ mid ++ ks, ∀ b ∈ mid ++ ks, (f a = f b ↔ g a = g b)) →
      (ciRunsAux f cur s l ks).find? (fun r => r.1 = w) =
        if 0 < (mid ++ ks).countP (fun k => f k = w) then
          some (w, s + ((mid ++ ks).takeWhile (fun k => f k ≠ w)).length,
            (mid ++ ks).countP (fun k => f k = w))
        else none := by
  intro ks
  induction ks with
  | nil =>
    intro cur s l mid hl h1 hmid _ _
    simp only [ciRunsAux, List.append_nil]
    by_cases hc : cur = w
    · subst hc
      have e1 : mid.countP (fun k => f k = cur) = l := by
        rw [← hl, List.countP_eq_length]; simpa using hmid
      have e2 : mid.takeWhile (fun k => f k ≠ cur) = [] := by
        cases mid with
        | nil => rfl
        | cons a t =>
          rw [List.takeWhile_cons_of_neg]
          simpa using hmid a List.mem_cons_self
      rw [e1, e2]
      have hl0 : 0 < l := h1
      simp [hl0]
    · have e1 : mid.countP (fun k => f k = w) = 0 := by
        rw [List.countP_eq_zero]
        intro k hk
        simpa [hmid k hk] using hc
      simp [e1, hc]
  | cons k ks ih =>
    intro cur s l mid hl h1 hmid hp hfg
    unfold ciRunsAux
    by_cases hk : f k = cur
    · simp only [hk, if_true]
      have := ih cur s (l + 1) (mid ++ [k]) (by simp [hl]) (by omega)
        (by
          intro x hx
          rcases List.mem_append.mp hx with hx | hx
          · exact hmid x hx
          · simp only [List.mem_singleton] at hx; rw [hx]; exact hk)
        (by simpa using hp) (by simpa using hfg)
      simpa using this
    · simp only [hk, if_false]
      -- no later key has `f = cur`
      obtain ⟨m0, hm0⟩ : ∃ m0, m0 ∈ mid := by
        cases mid with
        | nil => simp at hl; omega
        | cons a t => exact ⟨a, List.mem_cons_self⟩
      have hp' := List.pairwise_append.mp hp
      have hnone : ∀ x ∈ k :: ks, ¬ f x = cur := by
        intro x hx hfx
        have hm0L : m0 ∈ mid ++ k :: ks := List.mem_append_left _ hm0
        have hxL : x ∈ mid ++ k :: ks := List.mem_append_right _ hx
        have hkL : k ∈ mid ++ k :: ks := List.mem_append_right _ List.mem_cons_self
        have e1 : g x = g m0 := (hfg x hxL m0 hm0L).mp (hfx.trans (hmid m0 hm0).symm)
        have l1 : g m0 ≤ g k := hp'.2.2 m0 hm0 k List.mem_cons_self
        have l2 : g k ≤ g x := by
          rcases List.mem_cons.mp hx with rfl | hx'
          · exact le_refl _
          · exact (List.pairwise_cons.mp hp'.2.1).1 x hx'
        have e2 : g k = g m0 := by omega
        exact hk (((hfg k hkL m0 hm0L).mpr e2).trans (hmid m0 hm0))
      have hmidc : mid.countP (fun x => f x = cur) = l := by
        rw [← hl, List.countP_eq_length]; simpa using hmid
      have htail0 : (k :: ks).countP (fun x => f x = cur) = 0 := by
        rw [List.countP_eq_zero]; simpa using hnone
      by_cases hc : cur = w
      · subst hc
        have e2 : (mid ++ k :: ks).takeWhile (fun x => f x ≠ cur) = [] := by
          cases mid with
          | nil => simp at hl; omega
          | cons a t =>
            rw [List.cons_append, List.takeWhile_cons_of_neg]
            simpa using hmid a List.mem_cons_self
        rw [List.find?_cons_of_pos (by simp)]
        rw [List.countP_append, hmidc, htail0, e2]
        have hl0 : 0 < l := h1
        simp [hl0]
      · rw [List.find?_cons_of_neg (by simpa using hc)]
        have hmid0 : mid.countP (fun x => f x = w) = 0 := by
          rw [List.countP_eq_zero]
          intro x hx
          simpa [hmid x hx] using hc
        have htw : (mid ++ k :: ks).takeWhile (fun x => f x ≠ w) =
            mid ++ (k :: ks).takeWhile (fun x => f x ≠ w) := by
          rw [List.takeWhile_append_of_pos]
          intro x hx
          simpa [hmid x hx] using hc
        have := ih (f k) (s + l) 1 [k] rfl (le_refl 1) (by simp) (by simpa using hp'.2.1)
          (fun a ha b hb => hfg a (List.mem_append_right _ (by simpa using ha)) b
            (List.mem_append_right _ (by simpa using hb)))
        have hcnt : (mid ++ k :: ks).countP (fun x => f x = w) =
            (k :: ks).countP (fun x => f x = w) := by
          rw [List.countP_append, hmid0, Nat.zero_add]
        have hlen : ((mid ++ k :: ks).takeWhile (fun x => f x ≠ w)).length =
            l + ((k :: ks).takeWhile (fun x => f x ≠ w)).length := by
          rw [htw, List.length_append, hl]
        simp only [List.singleton_append] at this
        rw [this, hcnt, hlen, Nat.add_assoc]

theorem runs_find (L : List Nat) (hp : L.Pairwise (fun a b => g a ≤ g b))
    (hfg : ∀ a ∈ L, ∀ b ∈ L, (f a = f b ↔ g a = g b)) :
    (ciRuns f L).find? (fun r => r.1 = w) =
      if 0 < L.countP (fun k => f k = w) then
        some (w, (L.takeWhile (fun k => f k ≠ w)).length, L.countP (fun k => f k = w))
      else none := by
  cases L with
  | nil => simp [ciRuns]
  | cons k ks =>
    have := runsAux_find f g w ks (f k) 0 1 [k] rfl (le_refl 1) (by simp) (by simpa using hp)
      (by simpa using hfg)
    simpa [ciRuns] using this

/-- every run value is the decoded cell of some key -/
theorem runsAux_values :
    ∀ (ks : List Nat) (cur : Nat × Nat × Nat) (s l : Nat),
      ∀ r ∈ ciRunsAux f cur s l ks, r.1 = cur ∨ ∃ k ∈ ks, r.1 = f k := by
  intro ks
  induction ks with
  | nil =>
    intro cur s l r hr
    simp only [ciRunsAux, List.mem_singleton] at hr
    exact Or.inl (by rw [hr])
  | cons k ks ih =>
    intro cur s l r hr
    unfold ciRunsAux at hr
    split at hr
    · rcases ih cur s (l + 1) r hr with h | ⟨x, hx, h⟩
      · exact Or.inl h
      · exact Or.inr ⟨x, List.mem_cons_of_mem _ hx, h⟩
    · rcases List.mem_cons.mp hr with h | h
      · exact Or.inl (by rw [h])
      · rcases ih (f k) (s + l) 1 r h with h | ⟨x, hx, h⟩
        · exact Or.inr ⟨k, List.mem_cons_self, h⟩
        · exact Or.inr ⟨x, List.mem_cons_of_mem _ hx, h⟩

theorem runs_values (L : List Nat) : ∀ r ∈ ciRuns f L, ∃ k ∈ L, r.1 = f k := by
  cases L with
  | nil => intro r hr; simp [ciRuns] at hr
  | cons k ks =>
    intro r hr
    rcases runsAux_values f ks (f k) 0 1 r hr with h | ⟨x, hx, h⟩
    · exact ⟨k, List.mem_cons_self, h⟩
    · exact ⟨x, List.mem_cons_of_mem _ hx, h⟩

end runs

/-! ## sorting -/

theorem insertAsc_perm (k : Nat) (l : List Nat) : (insertAsc k l).Perm (k :: l) := by
  induction l with
  | nil => exact List.Perm.refl _
  | cons a t ih =>
    unfold insertAsc
    split
    · exact List.Perm.refl _
    · exact ((List.Perm.cons a ih).trans (List.Perm.swap k a t))

theorem sortAsc_perm (l : List Nat) : (sortAsc l).Perm l := by
  induction l with
  | nil => exact List.Perm.refl _
  | cons a t ih =>
    show (insertAsc a (sortAsc t)).Perm (a :: t)
    exact (insertAsc_perm a _).trans (List.Perm.cons a ih)

theorem insertAsc_sorted (k : Nat) (l : List Nat) (h : l.Pairwise (fun a b => a ≤ b)) :
    (insertAsc k l).Pairwise (fun a b => a ≤ b) := by
  induction l with
  | nil => simp [insertAsc]
  | cons a t ih =>
    rw [List.pairwise_cons] at h
    unfold insertAsc
    split
    · rename_i hka
      refine List.pairwise_cons.mpr ⟨?_, List.pairwise_cons.mpr h⟩
      intro b hb
      rcases List.mem_cons.mp hb with rfl | hb'
      · exact hka
      · exact le_trans hka (h.1 b hb')
    · rename_i hka
      refine List.pairwise_cons.mpr ⟨?_, ih h.2⟩
      intro b hb
      rcases List.mem_cons.mp ((insertAsc_perm k t).mem_iff.mp hb) with rfl | hb'
      · omega
      · exact h.1 b hb'

theorem sortAsc_sorted (l : List Nat) : (sortAsc l).Pairwise (fun a b => a ≤ b) := by
  induction l with
  | nil => exact List.Pairwise.nil
  | cons a t ih => exact insertAsc_sorted a _ ih

/-! ## lookup of one stencil box -/

theorem toNat3_inj (a b : Cell) (ha : nonnegCell a = true) (hb : nonnegCell b = true)
    (h : a.toNat3 = b.toNat3) : a = b := by
  rw [nonnegCell_iff] at ha hb
  obtain ⟨a1, a2, a3⟩ := a
  obtain ⟨b1, b2, b3⟩ := b
  simp only [Cell.toNat3, Prod.mk.injEq] at h
  simp only [Prod.mk.injEq]
  simp only at ha hb
  omega

theorem find?_congr' {β : Type} (p q : β → Bool) (l : List β) (h : ∀ a ∈ l, p a = q a) :
    l.find? p = l.find? q := by
  induction l with
  | nil => rfl
  | cons a t ih =>
    simp only [List.find?_cons, h a List.mem_cons_self]
    rw [ih (fun b hb => h b (List.mem_cons_of_mem _ hb))]

/-- under the guard, the `std::map` lookup of a stencil box followed by the walk over its run
of sorted keys lists exactly the particles of that box -/
theorem ci_lookup_eq (I J K n : Nat) (cellAt : Nat → Cell)
    (hfit : ∀ j, j < n → ciFits I J K j (cellAt j).toNat3 = true)
    (c : Cell) (hcf : ciFits I J K 0 c.toNat3 = true) :
    (ciLookup I J K (ciKeys I J K n cellAt) c).Perm
      ((List.range n).filter (fun i => (cellAt i).toNat3 = c.toNat3)) := by
  let raw := (List.range n).map (fun i => ciKey I J K i (cellAt i).toNat3)
  have hperm : (ciKeys I J K n cellAt).Perm raw := sortAsc_perm _
  have hsorted : (ciKeys I J K n cellAt).Pairwise (fun a b => a ≤ b) := sortAsc_sorted _
  generalize hkeys : ciKeys I J K n cellAt = keys at hperm hsorted ⊢
  have hkey : ∀ k ∈ keys, ∃ i, i < n ∧ k = ciKey I J K i (cellAt i).toNat3 := by
    intro k hk
    have := hperm.mem_iff.mp hk
    simp only [raw, List.mem_map, List.mem_range] at this
    obtain ⟨i, hi, rfl⟩ := this
    exact ⟨i, hi, rfl⟩
  have hp : keys.Pairwise (fun a b => a / 2 ^ I ≤ b / 2 ^ I) :=
    hsorted.imp (fun h => Nat.div_le_div_right h)
  have hfg : ∀ a ∈ keys, ∀ b ∈ keys, (ciCell I J K a = ciCell I J K b ↔ a / 2 ^ I = b / 2 ^ I) := by
    intro a ha b hb
    constructor
    · intro h
      obtain ⟨i, hi, rfl⟩ := hkey a ha
      obtain ⟨i', hi', rfl⟩ := hkey b hb
      obtain ⟨_, u2, u3⟩ := ci_unpack I J K i _ (hfit i hi)
      obtain ⟨_, v2, v3⟩ := ci_unpack I J K i' _ (hfit i' hi')
      rw [u3, v3, ← u2, ← v2, h]
    · intro h
      rw [ciCell_of_code, ciCell_of_code, h]
  have hfind : ciFind I J K (ciRuns (ciCell I J K) keys) c.toNat3 =
      (ciRuns (ciCell I J K) keys).find? (fun r => r.1 = c.toNat3) := by
    unfold ciFind
    apply find?_congr'
    intro r hr
    obtain ⟨k, hk, hrk⟩ := runs_values (ciCell I J K) keys r hr
    obtain ⟨i, hi, rfl⟩ := hkey k hk
    obtain ⟨_, u2, _⟩ := ci_unpack I J K i _ (hfit i hi)
    have hr0 : ciFits I J K 0 r.1 = true := by
      rw [hrk, u2]; exact ciFits_zero I J K i _ (hfit i hi)
    by_cases e : r.1 = c.toNat3
    · simp [e]
    · have : ¬ ciKey I J K 0 r.1 = ciKey I J K 0 c.toNat3 :=
        fun h => e (ci_pack_inj I J K 0 0 _ _ hr0 hcf h).2
      simp [e, this]
  have hlook : ciLookup I J K keys c =
      (keys.filter (fun k => ciCell I J K k = c.toNat3)).map (ciId I) := by
    unfold ciLookup
    rw [hfind, runs_find (ciCell I J K) (fun k => k / 2 ^ I) c.toNat3 keys hp hfg]
    by_cases hpos : 0 < keys.countP (fun k => ciCell I J K k = c.toNat3)
    · simp only [hpos, if_true]
      rw [block_eq_filter (ciCell I J K) (fun k => k / 2 ^ I) c.toNat3 keys hp hfg]
    · simp only [hpos, if_false]
      have h0 : keys.countP (fun k => ciCell I J K k = c.toNat3) = 0 := by omega
      rw [List.countP_eq_zero] at h0
      rw [List.filter_eq_nil_iff.mpr h0]
      rfl
  rw [hlook]
  refine ((hperm.filter _).map _).trans ?_
  simp only [raw, List.filter_map, List.map_map]
  apply List.Perm.of_eq
  have e1 : (List.range n).filter ((fun k => decide (ciCell I J K k = c.toNat3)) ∘
      fun i => ciKey I J K i (cellAt i).toNat3) =
      (List.range n).filter (fun i => (cellAt i).toNat3 = c.toNat3) := by
    apply List.filter_congr
    intro i hi
    simp only [List.mem_range] at hi
    obtain ⟨_, u2, _⟩ := ci_unpack I J K i _ (hfit i hi)
    simp only [Function.comp, u2]
  rw [e1]
  conv => rhs; rw [← List.map_id ((List.range n).filter (fun i => (cellAt i).toNat3 = c.toNat3))]
  apply List.map_congr_left
  intro i hi
  have hi' := List.mem_range.mp (List.mem_filter.mp hi).1
  obtain ⟨u1, _, _⟩ := ci_unpack I J K i _ (hfit i hi')
  simp only [Function.comp, u1, id]

theorem ci_lookup_spec (I J K n : Nat) (cellAt : Nat → Cell)
    (hnn : ∀ j, j < n → nonnegCell (cellAt j) = true)
    (hfit : ∀ j, j < n → ciFits I J K j (cellAt j).toNat3 = true)
    (c : Cell) (hc : nonnegCell c = true) (hcf : ciFits I J K 0 c.toNat3 = true) :
    LookupSpec n cellAt (ciLookup I J K (ciKeys I J K n cellAt)) c := by
  have hperm := ci_lookup_eq I J K n cellAt hfit c hcf
  have nd : ((List.range n).filter (fun i => (cellAt i).toNat3 = c.toNat3)).Nodup :=
    List.nodup_range.filter _
  refine ⟨hperm.nodup_iff.mpr nd, fun j => ?_⟩
  rw [hperm.mem_iff]
  simp only [List.mem_filter, List.mem_range, decide_eq_true_eq]
  constructor
  · rintro ⟨hj, h⟩; exact ⟨hj, toNat3_inj _ _ (hnn j hj) hc h⟩
  · rintro ⟨hj, rfl⟩; exact ⟨hj, rfl⟩

/-- CellIndexing under the guard (every particle key and every visited box key fits): the
candidates visited are exactly the particles of the stencil, each once -/
theorem ci_cands_perm (I J K n : Nat) (cellAt : Nat → Cell) (cq : Cell)
    (hnn : ∀ j, j < n → nonnegCell (cellAt j) = true)
    (hfit : ∀ j, j < n → ciFits I J K j (cellAt j).toNat3 = true)
    (hbox : ∀ c ∈ neighborBoxesZ cq, ciFits I J K 0 c.toNat3 = true) :
    (ciCands I J K n cellAt cq).Perm (stencilIdx n cellAt cq) :=
  stencil_flatMap_perm n cellAt cq (neighborBoxesZ cq) _ ((stencilCellsZ_nodup cq).filter _)
    (fun c hc => (mem_stencilCellsZ cq c).mp (List.mem_filter.mp hc).1)
    (fun j hj hs => List.mem_filter.mpr ⟨(mem_stencilCellsZ cq _).mpr hs, hnn j hj⟩)
    (fun c hc => ci_lookup_spec I J K n cellAt hnn hfit c (List.mem_filter.mp hc).2 (hbox c hc))

end PysphVerif.Nnps
