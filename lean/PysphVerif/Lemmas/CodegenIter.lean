import PysphVerif.Model.CodegenIter
/-!
Helper lemmas for `Model/CodegenIter.lean` (iterated groups, wrapper binding).
-/
namespace PysphVerif.Codegen

/-! ### the loop -/

theorem iterateFrom_spec (mn mx : Nat) (conv : Nat → Bool) :
    ∀ (fuel count : Nat), count ≤ mx → mn ≤ mx → mx + 1 ≤ fuel + count →
      ∃ k, iterateFrom fuel mn mx conv count = some k ∧ count ≤ k ∧ k ≤ mx ∧ mn ≤ k ∧
        (conv k = true ∨ k = mx) ∧
        ∀ j, count ≤ j → j < k → mn ≤ j → conv j = false := by
  intro fuel
  induction fuel with
  | zero => intro count h1 _ h3; omega
  | succ fuel ih =>
    intro count h1 h2 h3
    unfold iterateFrom
    by_cases h : mn ≤ count ∧ (conv count = true ∨ count = mx)
    · rw [if_pos h]
      exact ⟨count, rfl, Nat.le_refl _, h1, h.1, h.2, fun j a b _ => by omega⟩
    · rw [if_neg h]
      have hlt : count < mx := by
        rcases Nat.lt_or_ge count mx with hh | hh
        · exact hh
        · exfalso; apply h
          have : count = mx := by omega
          exact ⟨by omega, Or.inr this⟩
      obtain ⟨k, hk, a, b, c, d, e⟩ := ih (count + 1) (by omega) h2 (by omega)
      refine ⟨k, hk, by omega, b, c, d, ?_⟩
      intro j hj1 hj2 hj3
      rcases Nat.eq_or_lt_of_le hj1 with hh | hh
      · subst hh
        cases hc : conv count with
        | false => rfl
        | true => exfalso; exact h ⟨hj3, Or.inl hc⟩
      · exact e j (by omega) hj2 hj3

/-! ### polling -/

theorem polled_eq_map (g : IterGroup) : polled g = g.equations.map (·.var) := by
  cases g with
  | leaf eqs => rfl
  | parent subs =>
    simp only [polled, IterGroup.equations]
    induction subs with
    | nil => rfl
    | cons s rest ih => simp [List.flatten_cons, List.map_append, ih, polledLeaf]

theorem allConverged_iff (names : List Name) (st : Name → Bool) :
    allConverged names st = true ↔ ∀ v ∈ names, st v = true := by
  simp [allConverged, List.all_eq_true]

/-! ### binding -/

theorem bindAll_get (names : List Name) (pa : Nat) :
    ∀ (w : Wrapper) (k : Name),
      bindAll w names pa k = if k ∈ names then some pa else w k := by
  induction names with
  | nil => intro w k; simp [bindAll]
  | cons n rest ih =>
    intro w k
    have h := ih (bindAttr w n pa) k
    simp only [bindAll, List.foldl_cons] at h ⊢
    rw [h]
    by_cases hk : k ∈ rest
    · simp [hk]
    · by_cases hn : k = n
      · simp [hn, bindAttr]
      · simp [hk, hn, bindAttr]

theorem setArray_get (w : Wrapper) (pa : PArrObj) (k : Name) :
    setArray w pa k =
      if k ∈ pa.consts ∨ k ∈ pa.props ∨ k = "tag" ∨ k = "pid" ∨ k = "gid" then some pa.id
      else w k := by
  simp only [setArray, bindAll_get]
  by_cases h1 : k ∈ pa.consts
  · simp [h1]
  · by_cases h2 : k ∈ pa.props ++ ["tag", "pid", "gid"]
    · have : k ∈ pa.props ∨ k = "tag" ∨ k = "pid" ∨ k = "gid" := by simpa using h2
      simp [h1, h2, this]
    · have : ¬ (k ∈ pa.props ∨ k = "tag" ∨ k = "pid" ∨ k = "gid") := by simpa using h2
      simp [h1, h2, this]

theorem setArrayPropsOnly_get (w : Wrapper) (pa : PArrObj) (k : Name) :
    setArrayPropsOnly w pa k =
      if k ∈ pa.props ∨ k = "tag" ∨ k = "pid" ∨ k = "gid" then some pa.id else w k := by
  simp only [setArrayPropsOnly, bindAll_get]
  by_cases h2 : k ∈ pa.props ++ ["tag", "pid", "gid"]
  · have : k ∈ pa.props ∨ k = "tag" ∨ k = "pid" ∨ k = "gid" := by simpa using h2
    simp [h2, this]
  · have : ¬ (k ∈ pa.props ∨ k = "tag" ∨ k = "pid" ∨ k = "gid") := by simpa using h2
    simp [h2, this]

end PysphVerif.Codegen
