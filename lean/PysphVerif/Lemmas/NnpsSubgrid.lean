import PysphVerif.Lemmas.NnpsHash
/-!
C01 helper lemmas for the sub-grid family (ExtendedSpatialHashNNPS exact
mode): `⌈·⌉` masks suffice, the `h_max` stored per hash entry bounds the
smoothing lengths of the cell, the boxes returned by `_neighbor_boxes` are
distinct and contain every neighbour's sub-cell.
-/
set_option linter.unusedSectionVars false
namespace PysphVerif.Nnps

/-! ## floor / ceil -/
section floor
variable {α : Type} [Field α] [LinearOrder α] [IsStrictOrderedRing α] [FloorRing α]

/-- points closer than `r` land in sub-cells (size `s`) at most `⌈r/s⌉` apart -/
theorem floor_adj_ceil (x y r s : α) (hs : 0 < s) (h : |x - y| < r) :
    ((⌊x / s⌋ - ⌊y / s⌋).natAbs : Int) ≤ ⌈r / s⌉ := by
  have hxy : |x / s - y / s| < r / s := by
    rw [← sub_div, abs_div, abs_of_pos hs]
    exact div_lt_div_of_pos_right h hs
  rw [abs_lt] at hxy
  obtain ⟨h1, h2⟩ := hxy
  have hK : r / s ≤ (⌈r / s⌉ : α) := Int.le_ceil _
  have hx := Int.floor_le (x / s)
  have hx' := Int.lt_floor_add_one (x / s)
  have hy := Int.floor_le (y / s)
  have hy' := Int.lt_floor_add_one (y / s)
  have a1 : ((⌊x / s⌋ : ℤ) : α) < (⌊y / s⌋ : α) + 1 + (⌈r / s⌉ : α) := by linarith
  have a2 : ((⌊y / s⌋ : ℤ) : α) < (⌊x / s⌋ : α) + 1 + (⌈r / s⌉ : α) := by linarith
  have b1 : ⌊x / s⌋ < ⌊y / s⌋ + 1 + ⌈r / s⌉ := by exact_mod_cast a1
  have b2 : ⌊y / s⌋ < ⌊x / s⌋ + 1 + ⌈r / s⌉ := by exact_mod_cast a2
  omega

theorem fmaxA_ge_left (a b : α) : a ≤ fmaxA a b := by
  unfold fmaxA; split
  · exact le_of_lt ‹_›
  · exact le_refl a

theorem fmaxA_ge_right (a b : α) : b ≤ fmaxA a b := by
  unfold fmaxA; split
  · exact le_refl b
  · exact not_lt.mp ‹_›

end floor

/-! ## the mask -/

theorem mem_maskRange (H : Nat) (a : Int) : a ∈ maskRange H ↔ a.natAbs ≤ H := by
  unfold maskRange
  simp only [List.mem_map, List.mem_range]
  constructor
  · rintro ⟨i, hi, rfl⟩; omega
  · intro h; exact ⟨(a + H).toNat, by omega, by omega⟩

theorem maskRange_nodup (H : Nat) : (maskRange H).Nodup := by
  unfold maskRange
  refine List.nodup_range.map ?_
  intro a b h
  simp only at h
  omega

theorem mem_hMaskExact (H : Nat) (m : Cell) :
    m ∈ hMaskExact H ↔ m.1.natAbs ≤ H ∧ m.2.1.natAbs ≤ H ∧ m.2.2.natAbs ≤ H := by
  obtain ⟨a, b, c⟩ := m
  simp only [← mem_maskRange]
  unfold hMaskExact
  simp only [List.mem_flatMap, List.mem_map, Prod.mk.injEq]
  constructor
  · rintro ⟨a', ha, b', hb, c', hc, rfl, rfl, rfl⟩; exact ⟨ha, hb, hc⟩
  · rintro ⟨ha, hb, hc⟩; exact ⟨a, ha, b, hb, c, hc, rfl, rfl, rfl⟩

theorem triples_nodup (l : List Int) (h : l.Nodup) :
    (l.flatMap (fun s => l.flatMap (fun t => l.map (fun u => (s, t, u))))).Nodup := by
  rw [List.nodup_flatMap]
  constructor
  · intro s _
    rw [List.nodup_flatMap]
    constructor
    · intro t _
      refine h.map ?_
      intro u u' e
      simp only [Prod.mk.injEq, true_and] at e
      exact e
    · refine List.Pairwise.imp_of_mem ?_ h
      intro t t' _ _ htt
      show List.Disjoint _ _
      intro x hx hx'
      simp only [List.mem_map] at hx hx'
      obtain ⟨u, _, rfl⟩ := hx
      obtain ⟨u', _, e⟩ := hx'
      simp only [Prod.mk.injEq, true_and] at e
      exact htt e.1.symm
  · refine List.Pairwise.imp_of_mem ?_ h
    intro s s' _ _ hss
    show List.Disjoint _ _
    intro x hx hx'
    simp only [List.mem_flatMap, List.mem_map] at hx hx'
    obtain ⟨t, _, u, _, rfl⟩ := hx
    obtain ⟨t', _, u', _, e⟩ := hx'
    simp only [Prod.mk.injEq] at e
    exact hss e.1.symm

theorem hMaskExact_nodup (H : Nat) : (hMaskExact H).Nodup := triples_nodup _ (maskRange_nodup H)

/-! ## `h_max` of a hash entry -/
section hmax
variable {α : Type} [Field α] [LinearOrder α] [IsStrictOrderedRing α]

theorem chainGet_chainAdd (c' c : Cell) (i : Nat) (h : α) (ch : List (HEntry α)) :
    chainGet c (chainAdd c' i h ch) =
      if c' = c then
        some (match chainGet c ch with
          | some e => e.add i h
          | none => { c := c', idx := [i], hmax := h })
      else chainGet c ch := by
  induction ch with
  | nil =>
    by_cases hc : c' = c
    · simp [chainAdd, chainGet, hc]
    · simp [chainAdd, chainGet, hc]
  | cons e es ih =>
    unfold chainAdd
    by_cases he : e.c = c'
    · simp only [he, if_true]
      by_cases hc : c' = c
      · simp [chainGet, HEntry.add, he, hc]
      · simp [chainGet, HEntry.add, he, hc]
    · simp only [he, if_false]
      by_cases hec : e.c = c
      · have hc : ¬ c' = c := fun h => he (hec.trans h.symm)
        simp [chainGet, hec, hc]
      · have : chainGet c (e :: chainAdd c' i h es) = chainGet c (chainAdd c' i h es) := by
          simp [chainGet, hec]
        rw [this, ih]
        simp [chainGet, hec]

theorem get_add (hash : Cell → Nat) (t : HTable α) (item : Cell × Nat × α) (c : Cell) :
    HTable.get hash (HTable.add hash t item) c =
      if item.1 = c then
        some (match HTable.get hash t c with
          | some e => e.add item.2.1 item.2.2
          | none => { c := item.1, idx := [item.2.1], hmax := item.2.2 })
      else HTable.get hash t c := by
  simp only [HTable.get, HTable.add]
  by_cases hb : hash c = hash item.1
  · simp only [hb, if_true]
    have := chainGet_chainAdd item.1 c item.2.1 item.2.2 (t (hash item.1))
    rw [this]
  · have hc : ¬ item.1 = c := fun h => hb (by rw [h])
    simp only [hb, hc, if_false]

theorem hmax_add_ge (e : HEntry α) (i : Nat) (h : α) : e.hmax ≤ (e.add i h).hmax ∧ h ≤ (e.add i h).hmax := by
  simp only [HEntry.add]
  split
  · exact ⟨le_of_lt ‹_›, le_refl _⟩
  · exact ⟨le_refl _, not_lt.mp ‹_›⟩

/-- invariant: every item seen so far finds an entry for its cell, whose `h_max` bounds its `h` -/
def HmaxInv (hash : Cell → Nat) (t : HTable α) (seen : List (Cell × Nat × α)) : Prop :=
  ∀ it ∈ seen, ∃ e, HTable.get hash t it.1 = some e ∧ it.2.2 ≤ e.hmax

theorem hmaxInv_add (hash : Cell → Nat) (t : HTable α) (seen : List (Cell × Nat × α))
    (item : Cell × Nat × α) (h : HmaxInv hash t seen) :
    HmaxInv hash (HTable.add hash t item) (seen ++ [item]) := by
  intro it hit
  rw [get_add]
  rcases List.mem_append.mp hit with hs | hs
  · obtain ⟨e0, hg, hb⟩ := h it hs
    by_cases hc : item.1 = it.1
    · simp only [hc, if_true, hg]
      exact ⟨_, rfl, le_trans hb (hmax_add_ge e0 _ _).1⟩
    · simp only [hc, if_false]
      exact ⟨e0, hg, hb⟩
  · simp only [List.mem_singleton] at hs
    subst hs
    simp only [if_true]
    cases hg : HTable.get hash t it.1 with
    | none => exact ⟨_, rfl, le_refl _⟩
    | some e0 => exact ⟨_, rfl, (hmax_add_ge e0 _ _).2⟩

theorem hmaxInv_foldl (hash : Cell → Nat) (items : List (Cell × Nat × α)) (t : HTable α)
    (seen : List (Cell × Nat × α)) (h : HmaxInv hash t seen) :
    HmaxInv hash (items.foldl (HTable.add hash) t) (seen ++ items) := by
  induction items generalizing t seen with
  | nil => simpa using h
  | cons it rest ih =>
    have := ih (HTable.add hash t it) (seen ++ [it]) (hmaxInv_add hash t seen it h)
    simpa using this

/-- after `_bin`: every particle finds the entry of its cell, and that entry's `h_max` is at
least the particle's `h` -/
theorem hmax_build (hash : Cell → Nat) (items : List (Cell × Nat × α)) :
    ∀ it ∈ items, ∃ e, HTable.get hash (HTable.build hash items) it.1 = some e ∧ it.2.2 ≤ e.hmax := by
  have := hmaxInv_foldl hash items (fun _ => []) [] (by intro it hit; cases hit)
  rw [List.nil_append] at this
  exact this

end hmax

/-! ## candidates of the extended spatial hash -/
section esh
variable {α : Type} [Field α] [LinearOrder α] [IsStrictOrderedRing α]

theorem flatMap_lookup_nodup (n : Nat) (cellAt : Nat → Cell) (lookup : Cell → List Nat)
    (boxes : List Cell) (hnd : boxes.Nodup) (hspec : ∀ c ∈ boxes, LookupSpec n cellAt lookup c) :
    (boxes.flatMap lookup).Nodup := by
  rw [List.nodup_flatMap]
  refine ⟨fun c hc => (hspec c hc).1, ?_⟩
  refine List.Pairwise.imp_of_mem ?_ hnd
  intro a b ha hb hab
  show List.Disjoint (lookup a) (lookup b)
  intro j hja hjb
  have e1 := (((hspec a ha).2 j).mp hja).2
  have e2 := (((hspec b hb).2 j).mp hjb).2
  exact hab (e1.symm.trans e2)

theorem eshBoxes_nodup (cl : α → Int) (hash : Cell → Nat) (t : HTable α) (H : Nat)
    (rs hsub hq : α) (cq : Cell) : (eshBoxes cl hash t H rs hsub hq cq).Nodup :=
  ((hMaskExact_nodup H).filter _).map (Cell.add_injective cq)

/-- no candidate is visited twice -/
theorem eshCands_nodup (cl : α → Int) (hash : Cell → Nat) (H : Nat) (rs hsub : α) (n : Nat)
    (cellAt : Nat → Cell) (hAt : Nat → α) (hq : α) (cq : Cell) :
    (eshCands cl hash H rs hsub n cellAt hAt hq cq).Nodup :=
  flatMap_lookup_nodup n cellAt _ _ (eshBoxes_nodup cl hash _ H rs hsub hq cq)
    (fun c _ => hash_lookup_spec hash n cellAt hAt c)

/-- a particle whose sub-cell passes the box test is visited -/
theorem mem_eshCands (cl : α → Int) (hash : Cell → Nat) (H : Nat) (rs hsub : α) (n : Nat)
    (cellAt : Nat → Cell) (hAt : Nat → α) (hq : α) (cq : Cell) (j : Nat) (hj : j < n) (m : Cell)
    (hm : m ∈ hMaskExact H)
    (hok : eshBoxOk cl hash (HTable.build hash (hashItems n cellAt hAt)) rs hsub hq cq m = true)
    (hcell : Cell.add cq m = cellAt j) :
    j ∈ eshCands cl hash H rs hsub n cellAt hAt hq cq := by
  unfold eshCands
  rw [List.mem_flatMap]
  refine ⟨cellAt j, ?_, ?_⟩
  · unfold eshBoxes
    rw [List.mem_map]
    exact ⟨m, List.mem_filter.mpr ⟨hm, hok⟩, hcell⟩
  · exact ((hash_lookup_spec hash n cellAt hAt (cellAt j)).2 j).mpr ⟨hj, rfl⟩

/-- the entry of particle `j`'s cell exists and its `h_max` is at least `h_j` -/
theorem hmax_hashItems (hash : Cell → Nat) (n : Nat) (cellAt : Nat → Cell) (hAt : Nat → α) (j : Nat)
    (hj : j < n) :
    ∃ e, HTable.get hash (HTable.build hash (hashItems n cellAt hAt)) (cellAt j) = some e ∧
      hAt j ≤ e.hmax := by
  have := hmax_build hash (hashItems n cellAt hAt) (cellAt j, j, hAt j) (by
    unfold hashItems
    exact List.mem_map.mpr ⟨j, List.mem_range.mpr hj, rfl⟩)
  exact this

end esh

end PysphVerif.Nnps
