import PysphVerif.Model.PeriodicGhosts
import Mathlib.Algebra.Order.Field.Basic
import Mathlib.Tactic.Linarith
import Mathlib.Tactic.Ring
import Mathlib.Tactic.NormNum
/-!
C09 — "the neighbour relation is symmetric" across a periodic face.

`seen` counts how often particle `i` has particle `j` or one of its images
along a periodic axis in its neighbour list (criterion of
`find_nearest_neighbors`: `xij2 < hi2 or xij2 < hj2`, `hi2 = (radius_scale*h_i)^2`),
the images being the ones `Model/PeriodicGhosts` makes with a layer of depth
`d`.  `seen_symm`: when the depth covers the search radius of both partners
(which the common depth `n_layers * radius_scale * hmax`, `n_layers ≥ 1`, does
for every pair of every two arrays: `depth_covers`), `i` sees `j` exactly as
often as `j` sees `i` — every pair force across the face has its reaction.
-/
set_option linter.unusedSectionVars false
namespace PysphVerif.PeriodicGhosts

variable {K : Type} [Field K] [LinearOrder K] [IsStrictOrderedRing K]

/-- `xij2 < hi2 or xij2 < hj2` -/
def crit (k h_i h_j d2 : K) : Bool :=
  decide (d2 < (k * h_i) * (k * h_i) ∨ d2 < (k * h_j) * (k * h_j))

theorem crit_comm (k h_i h_j d2 : K) : crit k h_i h_j d2 = crit k h_j h_i d2 := by
  simp only [crit, or_comm]

/-- along one periodic axis `[lo, hi]` with image depth `d`: `j` itself, its
image beyond the high face (made iff `lowSel`), its image beyond the low face
(made iff `highSel`), each counted when it meets the criterion -/
def seen (k lo hi d xi h_i xj h_j : K) : Nat :=
  (crit k h_i h_j ((xi - xj) * (xi - xj))).toNat +
  (lowSel lo d xj &&
    crit k h_i h_j ((xi - (xj + (hi - lo))) * (xi - (xj + (hi - lo))))).toNat +
  (highSel hi d xj &&
    crit k h_i h_j ((xi - (xj + -(hi - lo))) * (xi - (xj + -(hi - lo))))).toNat

private theorem lt_of_mul_self_lt {u R : K} (hu : 0 ≤ u) (hR : 0 ≤ R) (h : u * u < R * R) : u < R := by
  by_contra hc
  have : R ≤ u := not_lt.mp hc
  nlinarith [mul_le_mul this this hR hu]

/-- if `i` has the image of `j` beyond the high face within `R ≤ d`, then that
image exists AND so does the image of `i` beyond the low face -/
theorem image_pair (lo hi d R xi xj : K) (hxi : xi ≤ hi) (hxj : lo ≤ xj) (hR : R ≤ d) (hR0 : 0 ≤ R)
    (h : (xi - (xj + (hi - lo))) * (xi - (xj + (hi - lo))) < R * R) :
    xj - lo ≤ d ∧ hi - xi ≤ d := by
  have hu : 0 ≤ xj + (hi - lo) - xi := by linarith
  have h' : (xj + (hi - lo) - xi) * (xj + (hi - lo) - xi) < R * R := by
    have : (xj + (hi - lo) - xi) * (xj + (hi - lo) - xi)
        = (xi - (xj + (hi - lo))) * (xi - (xj + (hi - lo))) := by ring
    rw [this]; exact h
  have := lt_of_mul_self_lt hu hR0 h'
  constructor <;> linarith

theorem crit_image_pair (k lo hi d xi h_i xj h_j : K) (hxi : xi ≤ hi) (hxj : lo ≤ xj)
    (hi0 : 0 ≤ k * h_i) (hj0 : 0 ≤ k * h_j) (hid : k * h_i ≤ d) (hjd : k * h_j ≤ d)
    (h : crit k h_i h_j ((xi - (xj + (hi - lo))) * (xi - (xj + (hi - lo)))) = true) :
    lowSel lo d xj = true ∧ highSel hi d xi = true := by
  simp only [crit, decide_eq_true_eq] at h
  simp only [lowSel, highSel, decide_eq_true_eq]
  rcases h with h | h
  · exact image_pair lo hi d (k * h_i) xi xj hxi hxj hid hi0 h
  · exact image_pair lo hi d (k * h_j) xi xj hxi hxj hjd hj0 h

/-- the high-face image of `j` seen by `i`  =  the low-face image of `i` seen by `j` -/
theorem image_term_swap (k lo hi d xi h_i xj h_j : K) (hxi : xi ≤ hi) (hxj : lo ≤ xj)
    (hi0 : 0 ≤ k * h_i) (hj0 : 0 ≤ k * h_j) (hid : k * h_i ≤ d) (hjd : k * h_j ≤ d) :
    (lowSel lo d xj &&
      crit k h_i h_j ((xi - (xj + (hi - lo))) * (xi - (xj + (hi - lo))))) =
    (highSel hi d xi &&
      crit k h_j h_i ((xj - (xi + -(hi - lo))) * (xj - (xi + -(hi - lo))))) := by
  have e : (xj - (xi + -(hi - lo))) * (xj - (xi + -(hi - lo)))
      = (xi - (xj + (hi - lo))) * (xi - (xj + (hi - lo))) := by ring
  rw [e, crit_comm k h_j h_i]
  cases hc : crit k h_i h_j ((xi - (xj + (hi - lo))) * (xi - (xj + (hi - lo))))
  · simp
  · obtain ⟨h1, h2⟩ := crit_image_pair k lo hi d xi h_i xj h_j hxi hxj hi0 hj0 hid hjd hc
    simp [h1, h2]

/-- `i` sees `j` (itself or an image) exactly as often as `j` sees `i` -/
theorem seen_symm (k lo hi d xi h_i xj h_j : K)
    (hxi : lo ≤ xi ∧ xi ≤ hi) (hxj : lo ≤ xj ∧ xj ≤ hi)
    (hi0 : 0 ≤ k * h_i) (hj0 : 0 ≤ k * h_j) (hid : k * h_i ≤ d) (hjd : k * h_j ≤ d) :
    seen k lo hi d xi h_i xj h_j = seen k lo hi d xj h_j xi h_i := by
  have e0 : crit k h_i h_j ((xi - xj) * (xi - xj)) = crit k h_j h_i ((xj - xi) * (xj - xi)) := by
    rw [crit_comm k h_j h_i]; congr 1; ring
  have e1 := image_term_swap k lo hi d xi h_i xj h_j hxi.2 hxj.1 hi0 hj0 hid hjd
  have e2 := image_term_swap k lo hi d xj h_j xi h_i hxj.2 hxi.1 hj0 hi0 hjd hid
  unfold seen
  rw [e0, e1, ← e2]
  omega

/-- the common depth covers every particle's search radius:
`radius_scale * h ≤ n_layers * cell_size` for `n_layers ≥ 1`,
`cell_size = radius_scale * hmax` or the fallback `1.0 > 1e-6 > radius_scale * hmax` -/
theorem depth_covers (nLayers k tiny h hmax cell : K) (hn : 1 ≤ nLayers) (hk : 0 ≤ k)
    (hh : h ≤ hmax) (hh0 : 0 ≤ hmax) (htiny : tiny ≤ 1)
    (hcell : cell = if k * hmax < tiny then 1 else k * hmax) :
    k * h ≤ depth nLayers cell := by
  have h1 : k * h ≤ k * hmax := mul_le_mul_of_nonneg_left hh hk
  have h2 : k * hmax ≤ cell := by
    rw [hcell]; split
    · linarith
    · exact le_refl _
  have h3 : 0 ≤ cell := by
    rw [hcell]; split
    · exact zero_le_one
    · exact mul_nonneg hk hh0
  unfold depth
  nlinarith

end PysphVerif.PeriodicGhosts
