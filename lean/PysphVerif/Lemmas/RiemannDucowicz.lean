import PysphVerif.Lemmas.Riemann
/-!
# C15 — `ducowicz`: hand-written normal form and its mirror image

After the preamble (`bl, br, plmin, prmin, umin, umax`) the function tries four
sign patterns of `(u* - umin, u* - umax)`:
A `(+,-)`, B `(-,+)` each guarded by the sign test, C `(+,+)` guarded by the
sign test and by its discriminant being non-negative, D `(-,-)` unguarded.
The mirror image maps `(bl, br, plmin, prmin, umin, umax)` to
`(br, bl, prmin, plmin, -umax, -umin)`, A to A, B to B, C to D and D to C.
-/
set_option linter.unusedSectionVars false
namespace PysphVerif.Riemann
open PysphVerif.Gen.Riemann

variable {K : Type} [Field K] [LinearOrder K] [IsStrictOrderedRing K]

/-- the star pressure `ducowicz` computes from a star velocity `u` -/
def ducoP (o : Ops K) (bl br plmin prmin umin umax u : K) : K :=
  pymax (1 / 2 * (plmin + prmin + br * o.abs (u - umin) * (u - umin)
    - bl * o.abs (u - umax) * (u - umax))) 0

/-- candidate star velocity of case A -/
def ducoUA (o : Ops K) (bl br plmin prmin umin umax : K) : K :=
  (br * umin * umin - bl * umax * umax + prmin - plmin) /
    (br * umin - bl * umax -
      SIGN o (o.sqrt (pymax 0 (br * bl * (umin - umax) * (umin - umax) - (br - bl) * (prmin - plmin))))
        (umax - umin))

/-- candidate star velocity of case B -/
def ducoUB (o : Ops K) (bl br plmin prmin umin umax : K) : K :=
  (br * umin * umin - bl * umax * umax - prmin + plmin) /
    (br * umin - bl * umax -
      SIGN o (o.sqrt (pymax 0 (br * bl * (umin - umax) * (umin - umax) + (br - bl) * (prmin - plmin))))
        (umax - umin))

/-- discriminant of case C -/
def ducoDC (bl br plmin prmin umin umax : K) : K :=
  (bl + br) * (plmin - prmin) - br * bl * (umin - umax) * (umin - umax)

/-- discriminant of case D -/
def ducoDD (bl br plmin prmin umin umax : K) : K :=
  -((bl + br) * (plmin - prmin)) - br * bl * (umin - umax) * (umin - umax)

/-- candidate star velocity of case C -/
def ducoUC (o : Ops K) (bl br plmin prmin umin umax : K) : K :=
  (bl * umax + br * umin +
      o.sqrt (pymax 0 ((bl + br) * (plmin - prmin) - br * bl * (umin - umax) * (umin - umax)))) *
    (1 / (bl + br))

/-- candidate star velocity of case D -/
def ducoUD (o : Ops K) (bl br plmin prmin umin umax : K) : K :=
  (bl * umax + br * umin -
      o.sqrt (pymax 0 (-((bl + br) * (plmin - prmin)) - br * bl * (umin - umax) * (umin - umax)))) *
    (1 / (bl + br))

/-- guards of the cases; `ducoGD` is the one the source does NOT test -/
def ducoGA (umin umax u : K) : Prop := 0 ≤ u - umin ∧ u - umax ≤ 0
def ducoGB (umin umax u : K) : Prop := u - umin ≤ 0 ∧ 0 ≤ u - umax
def ducoGC (umin umax u : K) : Prop := 0 ≤ u - umin ∧ 0 ≤ u - umax
def ducoGD (umin umax u : K) : Prop := u - umin ≤ 0 ∧ u - umax ≤ 0

instance (umin umax u : K) : Decidable (ducoGA umin umax u) := by unfold ducoGA; infer_instance
instance (umin umax u : K) : Decidable (ducoGB umin umax u) := by unfold ducoGB; infer_instance
instance (umin umax u : K) : Decidable (ducoGC umin umax u) := by unfold ducoGC; infer_instance
instance (umin umax u : K) : Decidable (ducoGD umin umax u) := by unfold ducoGD; infer_instance

/-- the case cascade of `ducowicz` -/
def ducoTail (o : Ops K) (bl br plmin prmin umin umax : K) : Res K :=
  if ducoGA umin umax (ducoUA o bl br plmin prmin umin umax) then
    ⟨0, ducoP o bl br plmin prmin umin umax (ducoUA o bl br plmin prmin umin umax),
      ducoUA o bl br plmin prmin umin umax⟩
  else if ducoGB umin umax (ducoUB o bl br plmin prmin umin umax) then
    ⟨0, ducoP o bl br plmin prmin umin umax (ducoUB o bl br plmin prmin umin umax),
      ducoUB o bl br plmin prmin umin umax⟩
  else if 0 ≤ ducoDC bl br plmin prmin umin umax ∧
      ducoGC umin umax (ducoUC o bl br plmin prmin umin umax) then
    ⟨0, ducoP o bl br plmin prmin umin umax (ducoUC o bl br plmin prmin umin umax),
      ducoUC o bl br plmin prmin umin umax⟩
  else
    ⟨0, ducoP o bl br plmin prmin umin umax (ducoUD o bl br plmin prmin umin umax),
      ducoUD o bl br plmin prmin umin umax⟩

theorem ducowicz_eq (o : Ops K) (rhol rhor pl pr ul ur gamma : K) (niter : Int) (tol r0 r1 : K) :
    ducowicz o rhol rhor pl pr ul ur gamma niter tol r0 r1 =
      ducoTail o (rhol * (1 / 2 * (gamma + 1))) (rhor * (1 / 2 * (gamma + 1)))
        (pl - 1 / 4 * rhol * o.sqrt (gamma * pl * rhol) * o.sqrt (gamma * pl * rhol) / (1 / 2 * (gamma + 1)))
        (pr - 1 / 4 * rhor * o.sqrt (gamma * pr * rhor) * o.sqrt (gamma * pr * rhor) / (1 / 2 * (gamma + 1)))
        (ur - 1 / 2 * o.sqrt (gamma * pr * rhor) / (1 / 2 * (gamma + 1)))
        (ul + 1 / 2 * o.sqrt (gamma * pl * rhol) / (1 / 2 * (gamma + 1))) := by
  simp only [ducowicz, Nat.cast_ofNat, Nat.cast_one, Nat.cast_zero]
  rfl

section mirror
variable (sqrt : K → K) (pow : K → K → K) (bl br plmin prmin umin umax : K)

theorem ducoP_mirror (u : K) :
    ducoP (fieldOps sqrt pow) br bl prmin plmin (-umax) (-umin) (-u)
      = ducoP (fieldOps sqrt pow) bl br plmin prmin umin umax u := by
  unfold ducoP
  simp only [fieldOps_abs]
  have e1 : -u - -umax = -(u - umax) := by ring
  have e2 : -u - -umin = -(u - umin) := by ring
  rw [e1, e2, abs_neg, abs_neg]
  congr 1
  ring

theorem ducoUA_mirror :
    ducoUA (fieldOps sqrt pow) br bl prmin plmin (-umax) (-umin)
      = -ducoUA (fieldOps sqrt pow) bl br plmin prmin umin umax := by
  unfold ducoUA
  have e1 : bl * -umax * -umax - br * -umin * -umin + plmin - prmin
      = -(br * umin * umin - bl * umax * umax + prmin - plmin) := by ring
  have e2 : bl * -umax - br * -umin = br * umin - bl * umax := by ring
  have e3 : bl * br * (-umax - -umin) * (-umax - -umin) - (bl - br) * (plmin - prmin)
      = br * bl * (umin - umax) * (umin - umax) - (br - bl) * (prmin - plmin) := by ring
  have e4 : -umin - -umax = umax - umin := by ring
  rw [e1, e2, e3, e4, neg_div]

theorem ducoUB_mirror :
    ducoUB (fieldOps sqrt pow) br bl prmin plmin (-umax) (-umin)
      = -ducoUB (fieldOps sqrt pow) bl br plmin prmin umin umax := by
  unfold ducoUB
  have e1 : bl * -umax * -umax - br * -umin * -umin - plmin + prmin
      = -(br * umin * umin - bl * umax * umax - prmin + plmin) := by ring
  have e2 : bl * -umax - br * -umin = br * umin - bl * umax := by ring
  have e3 : bl * br * (-umax - -umin) * (-umax - -umin) + (bl - br) * (plmin - prmin)
      = br * bl * (umin - umax) * (umin - umax) + (br - bl) * (prmin - plmin) := by ring
  have e4 : -umin - -umax = umax - umin := by ring
  rw [e1, e2, e3, e4, neg_div]

theorem ducoUC_mirror :
    ducoUC (fieldOps sqrt pow) br bl prmin plmin (-umax) (-umin)
      = -ducoUD (fieldOps sqrt pow) bl br plmin prmin umin umax := by
  unfold ducoUC ducoUD
  have e1 : (br + bl) * (prmin - plmin) - bl * br * (-umax - -umin) * (-umax - -umin)
      = -((bl + br) * (plmin - prmin)) - br * bl * (umin - umax) * (umin - umax) := by ring
  have e2 : br + bl = bl + br := add_comm _ _
  rw [e1, e2]
  ring

theorem ducoUD_mirror :
    ducoUD (fieldOps sqrt pow) br bl prmin plmin (-umax) (-umin)
      = -ducoUC (fieldOps sqrt pow) bl br plmin prmin umin umax := by
  unfold ducoUC ducoUD
  have e1 : -((br + bl) * (prmin - plmin)) - bl * br * (-umax - -umin) * (-umax - -umin)
      = (bl + br) * (plmin - prmin) - br * bl * (umin - umax) * (umin - umax) := by ring
  have e2 : br + bl = bl + br := add_comm _ _
  rw [e1, e2]
  ring

theorem ducoGA_mirror (u : K) : ducoGA (-umax) (-umin) (-u) ↔ ducoGA umin umax u := by
  unfold ducoGA; constructor <;> rintro ⟨h1, h2⟩ <;> constructor <;> linarith

theorem ducoGB_mirror (u : K) : ducoGB (-umax) (-umin) (-u) ↔ ducoGB umin umax u := by
  unfold ducoGB; constructor <;> rintro ⟨h1, h2⟩ <;> constructor <;> linarith

theorem ducoGC_mirror (u : K) : ducoGC (-umax) (-umin) (-u) ↔ ducoGD umin umax u := by
  unfold ducoGC ducoGD; constructor <;> rintro ⟨h1, h2⟩ <;> constructor <;> linarith

theorem ducoDC_mirror :
    ducoDC br bl prmin plmin (-umax) (-umin) = ducoDD bl br plmin prmin umin umax := by
  unfold ducoDC ducoDD; ring

/-- if the guarded forms of both C and D hold, both discriminants vanish and
the two candidates coincide (`sqrt 0 = 0`, positive `bl, br`) -/
theorem ducoUC_eq_UD (hbl : 0 < bl) (hbr : 0 < br) (hs0 : sqrt 0 = 0)
    (hC : 0 ≤ ducoDC bl br plmin prmin umin umax) (hD : 0 ≤ ducoDD bl br plmin prmin umin umax) :
    ducoUC (fieldOps sqrt pow) bl br plmin prmin umin umax
      = ducoUD (fieldOps sqrt pow) bl br plmin prmin umin umax := by
  have hd : 0 ≤ br * bl * (umin - umax) * (umin - umax) := by
    rw [mul_assoc]; exact mul_nonneg (mul_pos hbr hbl).le (mul_self_nonneg _)
  unfold ducoDC at hC
  unfold ducoDD at hD
  have e1 : (bl + br) * (plmin - prmin) - br * bl * (umin - umax) * (umin - umax) = 0 := by linarith
  have e2 : -((bl + br) * (plmin - prmin)) - br * bl * (umin - umax) * (umin - umax) = 0 := by linarith
  unfold ducoUC ducoUD
  rw [e1, e2]
  simp only [fieldOps_sqrt, pymax_eq_max, max_self, hs0, add_zero, sub_zero]

/-- reflection symmetry of the cascade, given that the unguarded last branch is
only reached when the guard the source does not test (`ducoDD ≥ 0` and `ducoGD`,
the mirror image of the guard of C) holds -/
theorem ducoTail_mirror (hbl : 0 < bl) (hbr : 0 < br) (hs0 : sqrt 0 = 0)
    (hcov : ¬ ducoGA umin umax (ducoUA (fieldOps sqrt pow) bl br plmin prmin umin umax) →
           ¬ ducoGB umin umax (ducoUB (fieldOps sqrt pow) bl br plmin prmin umin umax) →
           ¬ (0 ≤ ducoDC bl br plmin prmin umin umax ∧
              ducoGC umin umax (ducoUC (fieldOps sqrt pow) bl br plmin prmin umin umax)) →
           (0 ≤ ducoDD bl br plmin prmin umin umax ∧
            ducoGD umin umax (ducoUD (fieldOps sqrt pow) bl br plmin prmin umin umax))) :
    (ducoTail (fieldOps sqrt pow) br bl prmin plmin (-umax) (-umin)).code
      = (ducoTail (fieldOps sqrt pow) bl br plmin prmin umin umax).code ∧
    (ducoTail (fieldOps sqrt pow) br bl prmin plmin (-umax) (-umin)).r0
      = (ducoTail (fieldOps sqrt pow) bl br plmin prmin umin umax).r0 ∧
    (ducoTail (fieldOps sqrt pow) br bl prmin plmin (-umax) (-umin)).r1
      = -(ducoTail (fieldOps sqrt pow) bl br plmin prmin umin umax).r1 := by
  unfold ducoTail
  rw [ducoUA_mirror, ducoUB_mirror, ducoUC_mirror, ducoUD_mirror, ducoDC_mirror]
  simp only [ducoGA_mirror, ducoGB_mirror, ducoGC_mirror, ducoP_mirror]
  by_cases hA : ducoGA umin umax (ducoUA (fieldOps sqrt pow) bl br plmin prmin umin umax)
  · simp only [if_pos hA, and_self]
  · by_cases hB : ducoGB umin umax (ducoUB (fieldOps sqrt pow) bl br plmin prmin umin umax)
    · simp only [if_neg hA, if_pos hB, and_self]
    · by_cases hC : (0 ≤ ducoDC bl br plmin prmin umin umax ∧
          ducoGC umin umax (ducoUC (fieldOps sqrt pow) bl br plmin prmin umin umax))
      · by_cases hD : (0 ≤ ducoDD bl br plmin prmin umin umax ∧
            ducoGD umin umax (ducoUD (fieldOps sqrt pow) bl br plmin prmin umin umax))
        · have e := ducoUC_eq_UD sqrt pow bl br plmin prmin umin umax hbl hbr hs0 hC.1 hD.1
          simp only [if_neg hA, if_neg hB, if_pos hC, if_pos hD]
          rw [e]
          simp only [and_self]
        · simp only [if_neg hA, if_neg hB, if_pos hC, if_neg hD, and_self]
      · have hD := hcov hA hB hC
        simp only [if_neg hA, if_neg hB, if_neg hC, if_pos hD, and_self]

end mirror
/-- equal states after the preamble: `bl = br = β`, `plmin = prmin = q`,
`umin = u - h`, `umax = u + h`; case A returns `u`.  The only fact about `sqrt`
used is `sqrt (x * x) = x` at `x = 2 β h` -/
theorem ducoTail_equal (sqrt : K → K) (pow : K → K → K) (β q u h : K) (hβ : 0 < β) (hh : 0 < h)
    (hsq : sqrt ((2 * β * h) * (2 * β * h)) = 2 * β * h) :
    ducoTail (fieldOps sqrt pow) β β q q (u - h) (u + h) = ⟨0, pymax (q + β * h * h) 0, u⟩ := by
  have hd : β * β * (u - h - (u + h)) * (u - h - (u + h)) - (β - β) * (q - q)
      = (2 * β * h) * (2 * β * h) := by ring
  have hpos : (0 : K) ≤ (2 * β * h) * (2 * β * h) := mul_self_nonneg _
  have hUA : ducoUA (fieldOps sqrt pow) β β q q (u - h) (u + h) = u := by
    unfold ducoUA
    rw [hd, pymax_eq_max, max_eq_right hpos, fieldOps_sqrt, hsq]
    have h2 : (0 : K) ≤ u + h - (u - h) := by linarith
    have h3 : (0 : K) ≤ 2 * β * h := by positivity
    simp only [SIGN, Nat.cast_zero, if_pos h2, fieldOps_abs, abs_of_nonneg h3]
    have hne : β * (u - h) - β * (u + h) - 2 * β * h ≠ 0 := by
      have : β * (u - h) - β * (u + h) - 2 * β * h = -(4 * β * h) := by ring
      rw [this]; exact neg_ne_zero.mpr (by positivity)
    rw [div_eq_iff hne]; ring
  unfold ducoTail
  have hGA : ducoGA (u - h) (u + h) u := by
    unfold ducoGA; constructor <;> linarith
  rw [hUA, if_pos hGA]
  congr 1
  unfold ducoP
  simp only [fieldOps_abs]
  have e1 : u - (u - h) = h := by ring
  have e2 : u - (u + h) = -h := by ring
  rw [e1, e2, abs_neg, abs_of_pos hh]
  congr 1
  ring

end PysphVerif.Riemann
