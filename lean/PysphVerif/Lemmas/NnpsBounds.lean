import PysphVerif.Model.NnpsBounds
import PysphVerif.Lemmas.Nnps
import PysphVerif.Lemmas.NnpsGrid
/-!
Lemmas for `Model/NnpsBounds.lean`: the padded bounds of `_compute_bounds` contain every particle
strictly below the upper limit (or the axis is degenerate), hence `_get_number_of_cells` counts
enough cells for every particle.
-/
set_option linter.unusedSectionVars false
namespace PysphVerif.Nnps

section
variable {α : Type} [Field α] [LinearOrder α] [IsStrictOrderedRing α] [FloorRing α]

theorem foldl_min_le_init (l : List α) (a : α) :
    l.foldl (fun m x => if x < m then x else m) a ≤ a := by
  induction l generalizing a with
  | nil => exact le_refl a
  | cons b t ih =>
    simp only [List.foldl_cons]
    by_cases h : b < a
    · simp only [h, if_true]; exact le_trans (ih b) (le_of_lt h)
    · simp only [h, if_false]; exact ih a

theorem foldl_min_le_mem (l : List α) (a x : α) (hx : x ∈ l) :
    l.foldl (fun m x => if x < m then x else m) a ≤ x := by
  induction l generalizing a with
  | nil => cases hx
  | cons b t ih =>
    simp only [List.foldl_cons]
    rcases List.mem_cons.mp hx with rfl | hx
    · by_cases h : x < a
      · simp only [h, if_true]; exact foldl_min_le_init t x
      · simp only [h, if_false]; exact le_trans (foldl_min_le_init t a) (not_lt.mp h)
    · exact ih _ hx

theorem carrayMin_le (l : List α) (x : α) (hx : x ∈ l) : carrayMin l ≤ x := by
  cases l with
  | nil => cases hx
  | cons a t =>
    simp only [carrayMin]
    rcases List.mem_cons.mp hx with rfl | hx
    · exact foldl_min_le_init t x
    · exact foldl_min_le_mem t a x hx

theorem fminA_le_left (a b : α) : fminA a b ≤ a := by
  unfold fminA; split
  · exact le_of_lt ‹_›
  · exact le_refl a
theorem fminA_le_right (a b : α) : fminA a b ≤ b := by
  unfold fminA; split
  · exact le_refl b
  · exact not_lt.mp ‹_›
theorem le_fmaxA_left (a b : α) : a ≤ fmaxA a b := by
  unfold fmaxA; split
  · exact le_of_lt ‹_›
  · exact le_refl a
theorem le_fmaxA_right (a b : α) : b ≤ fmaxA a b := by
  unfold fmaxA; split
  · exact le_refl b
  · exact not_lt.mp ‹_›

theorem boundsStep_mono (acc : α × α) (col : List α) :
    (boundsStep acc col).1 ≤ acc.1 ∧ acc.2 ≤ (boundsStep acc col).2 := by
  cases col with
  | nil => exact ⟨le_refl _, le_refl _⟩
  | cons a t => exact ⟨fminA_le_right _ _, le_fmaxA_right _ _⟩

theorem boundsStep_mem (acc : α × α) (col : List α) (x : α) (hx : x ∈ col) :
    (boundsStep acc col).1 ≤ x ∧ x ≤ (boundsStep acc col).2 := by
  cases col with
  | nil => cases hx
  | cons a t =>
    exact ⟨le_trans (fminA_le_left _ _) (carrayMin_le _ x hx),
      le_trans (carrayMax_ge _ x hx) (le_fmaxA_left _ _)⟩

theorem foldl_boundsStep_mono (cols : List (List α)) (acc : α × α) :
    (cols.foldl boundsStep acc).1 ≤ acc.1 ∧ acc.2 ≤ (cols.foldl boundsStep acc).2 := by
  induction cols generalizing acc with
  | nil => exact ⟨le_refl _, le_refl _⟩
  | cons c t ih =>
    simp only [List.foldl_cons]
    obtain ⟨a1, a2⟩ := boundsStep_mono acc c
    obtain ⟨b1, b2⟩ := ih (boundsStep acc c)
    exact ⟨le_trans b1 a1, le_trans a2 b2⟩

theorem foldl_boundsStep_mem (cols : List (List α)) (acc : α × α) (col : List α)
    (hc : col ∈ cols) (x : α) (hx : x ∈ col) :
    (cols.foldl boundsStep acc).1 ≤ x ∧ x ≤ (cols.foldl boundsStep acc).2 := by
  induction cols generalizing acc with
  | nil => cases hc
  | cons c t ih =>
    simp only [List.foldl_cons]
    rcases List.mem_cons.mp hc with rfl | hc
    · obtain ⟨a1, a2⟩ := boundsStep_mem acc col x hx
      obtain ⟨b1, b2⟩ := foldl_boundsStep_mono t (boundsStep acc col)
      exact ⟨le_trans b1 a1, le_trans a2 b2⟩
    · exact ih _ hc

/-- the raw limits of an axis enclose every coordinate of every array (whatever `big` is) -/
theorem rawAxis_mem (big : α) (cols : List (List α)) (col : List α) (hc : col ∈ cols) (x : α)
    (hx : x ∈ col) : (rawAxis big cols).1 ≤ x ∧ x ≤ (rawAxis big cols).2 :=
  foldl_boundsStep_mem cols _ col hc x hx

/-- what the limits `(lo, hi)` of an axis must satisfy for a coordinate `x`: inside, strictly
below the upper limit unless it sits on the lower one -/
def InAxis (r : α × α) (x : α) : Prop := r.1 ≤ x ∧ r.1 ≤ r.2 ∧ (x < r.2 ∨ x = r.1)

/-- the 1 % padding on BOTH sides turns "inside the closed raw interval" into `InAxis`: the upper
padding is what makes the largest coordinate lie strictly below the upper limit -/
theorem padAxis_inAxis (pad : α) (hpad : 0 < pad) (r : α × α) (x : α) (h1 : r.1 ≤ x)
    (h2 : x ≤ r.2) : InAxis (padAxis pad r) x := by
  have hl : 0 ≤ (r.2 - r.1) * pad := mul_nonneg (by linarith) (le_of_lt hpad)
  refine ⟨by simp only [padAxis]; linarith, by simp only [padAxis]; linarith, ?_⟩
  rcases lt_or_eq_of_le (le_trans h1 h2) with hlt | heq
  · left
    have : 0 < (r.2 - r.1) * pad := mul_pos (by linarith) hpad
    simp only [padAxis]; linarith
  · right
    have hx : x = r.1 := le_antisymm (by rw [heq]; exact h2) h1
    simp only [padAxis]
    rw [← heq, sub_self, zero_mul, sub_zero]; exact hx

theorem widenAxis_inAxis (w : α) (hw : 0 < w) (r : α × α) (x : α) (h : InAxis r x) :
    InAxis (widenAxis w r) x := by
  obtain ⟨h1, h2, h3⟩ := h
  refine ⟨by simp only [widenAxis]; linarith, by simp only [widenAxis]; linarith, ?_⟩
  left
  simp only [widenAxis]
  rcases h3 with h3 | h3
  · linarith
  · rw [h3]; linarith

/-- `_get_number_of_cells` counts a cell for every coordinate the limits enclose -/
theorem ncAxis_cell (c : α) (hc : 0 < c) (r : α × α) (x : α) (h : InAxis r x) :
    0 ≤ ⌊(x - r.1) / c⌋ ∧ ⌊(x - r.1) / c⌋ < ((ncAxis Int.ceil c r).toNat : Int) := by
  obtain ⟨h1, h2, h3⟩ := h
  refine ⟨Int.floor_nonneg.mpr (div_nonneg (sub_nonneg.mpr h1) (le_of_lt hc)), ?_⟩
  have e : (1 / c) * (r.2 - r.1) = (r.2 - r.1) / c := by field_simp
  have hn0 : (0 : Int) ≤ ⌈(r.2 - r.1) / c⌉ :=
    Int.ceil_nonneg (div_nonneg (sub_nonneg.mpr h2) (le_of_lt hc))
  simp only [ncAxis, e]
  rcases h3 with h3 | h3
  · have hlt : ⌊(x - r.1) / c⌋ < ⌈(r.2 - r.1) / c⌉ := by
      rw [Int.floor_lt]
      refine lt_of_lt_of_le ?_ (Int.le_ceil _)
      exact div_lt_div_of_pos_right (by linarith) hc
    have hpos : (0 : Int) < ⌈(r.2 - r.1) / c⌉ :=
      Int.ceil_pos.mpr (div_pos (by linarith) hc)
    have hne : ⌈(r.2 - r.1) / c⌉ ≠ 0 := ne_of_gt hpos
    simp only [hne, if_false]
    rw [Int.toNat_of_nonneg hn0]
    exact hlt
  · rw [h3, sub_self, zero_div, Int.floor_zero]
    by_cases hz : ⌈(r.2 - r.1) / c⌉ = 0
    · simp [hz]
    · simp only [hz, if_false]
      rw [Int.toNat_of_nonneg hn0]
      omega

/-- a particle of one of the arrays is enclosed by the raw limits of every axis -/
theorem rawBounds_mem (big : α) (arrs : List (List (Pt α))) (a : List (Pt α)) (ha : a ∈ arrs)
    (p : Pt α) (hp : p ∈ a) :
    let r := rawBounds big (colsOf (·.x) arrs) (colsOf (·.y) arrs) (colsOf (·.z) arrs)
    (r.x.1 ≤ p.x ∧ p.x ≤ r.x.2) ∧ (r.y.1 ≤ p.y ∧ p.y ≤ r.y.2) ∧ (r.z.1 ≤ p.z ∧ p.z ≤ r.z.2) := by
  have mem : ∀ f : Pt α → α, a.map f ∈ colsOf f arrs ∧ f p ∈ a.map f := fun f =>
    ⟨List.mem_map.mpr ⟨a, ha, rfl⟩, List.mem_map.mpr ⟨p, hp, rfl⟩⟩
  have hx := rawAxis_mem big _ _ (mem (·.x)).1 _ (mem (·.x)).2
  have hy := rawAxis_mem big _ _ (mem (·.y)).1 _ (mem (·.y)).2
  have hz := rawAxis_mem big _ _ (mem (·.z)).1 _ (mem (·.z)).2
  have hnot : ¬ (rawAxis big (colsOf (·.x) arrs)).2 < (rawAxis big (colsOf (·.x) arrs)).1 :=
    not_lt.mpr (le_trans hx.1 hx.2)
  simp only [rawBounds, hnot, if_false]
  exact ⟨hx, hy, hz⟩

theorem finishBounds_inAxis (eps half cs : α) (hw : 0 < half * cs) (b : Bounds α) (p : Pt α)
    (hx : InAxis b.x p.x) (hy : InAxis b.y p.y) (hz : InAxis b.z p.z) :
    InAxis (finishBounds eps half cs b).x p.x ∧ InAxis (finishBounds eps half cs b).y p.y ∧
      InAxis (finishBounds eps half cs b).z p.z := by
  unfold finishBounds
  split
  · exact ⟨widenAxis_inAxis _ hw _ _ hx, widenAxis_inAxis _ hw _ _ hy, widenAxis_inAxis _ hw _ _ hz⟩
  · exact ⟨hx, hy, hz⟩

/-- the bounds `_compute_bounds` stores enclose every particle in the sense of `InAxis` -/
theorem boundsOf_inAxis (big pad eps half cs : α) (hpad : 0 < pad) (hhalf : 0 < half)
    (hcs : 0 < cs) (arrs : List (List (Pt α))) (a : List (Pt α)) (ha : a ∈ arrs) (p : Pt α)
    (hp : p ∈ a) :
    InAxis (boundsOf big pad eps half cs arrs).x p.x ∧
      InAxis (boundsOf big pad eps half cs arrs).y p.y ∧
      InAxis (boundsOf big pad eps half cs arrs).z p.z := by
  obtain ⟨hx, hy, hz⟩ := rawBounds_mem big arrs a ha p hp
  unfold boundsOf computeBounds
  exact finishBounds_inAxis eps half cs (mul_pos hhalf hcs) _ p
    (padAxis_inAxis pad hpad _ _ hx.1 hx.2) (padAxis_inAxis pad hpad _ _ hy.1 hy.2)
    (padAxis_inAxis pad hpad _ _ hz.1 hz.2)

theorem valid_of_inAxis (c : α) (hc : 0 < c) (b : Bounds α) (p : Pt α)
    (hx : InAxis b.x p.x) (hy : InAxis b.y p.y) (hz : InAxis b.z p.z) :
    isValidCell (ncells Int.ceil c b) (cell3 Int.floor c b.origin p) = true := by
  rw [isValidCell_iff]
  obtain ⟨x0, x1⟩ := ncAxis_cell c hc b.x p.x hx
  obtain ⟨y0, y1⟩ := ncAxis_cell c hc b.y p.y hy
  obtain ⟨z0, z1⟩ := ncAxis_cell c hc b.z p.z hz
  simp only [cell3, cellOf, ncells, Bounds.origin]
  exact ⟨x0, x1, y0, y1, z0, z1⟩

end

end PysphVerif.Nnps
