import PysphVerif.Lemmas.ControllerWait
/-!
C18, repaired protocol, pause fragment: programs over get / blocking set /
pause_on_next / wait / cont (no queued commands).  Invariant `F` (lock
ownership in both directions, program consistency, pending notifications) from
which freedom from deadlock follows.
-/
namespace PysphVerif.Controller

/-- well-formed program of the pause fragment, `b` = inside a pause section -/
def WFp : Bool → List Op → Bool
  | b, [] => !b
  | b, Op.pause :: r => !b && WFp true r
  | b, Op.wait :: r => b && WFp true r
  | b, Op.cont :: r => b && WFp false r
  | b, Op.get :: r => WFp b r
  | b, Op.setNow _ :: r => WFp b r
  | _, _ => false

/-- consistency of a thread's pc and remaining program with its membership in `pause` -/
def cons (inPause : Bool) (pc : IPc) (prog : List Op) : Bool :=
  match pc with
  | IPc.idle | IPc.gAcqD | IPc.gRelD _ | IPc.sAcqD _ | IPc.sRelD => WFp inPause prog
  | IPc.pAcqP => !inPause && WFp true prog
  | IPc.pNtfP | IPc.pRelP | IPc.wAcqP | IPc.wWaitP | IPc.wBlocked | IPc.wReacqP | IPc.wRelP =>
    inPause && WFp true prog
  | IPc.cAcqP => inPause && WFp false prog
  | IPc.cNtfP | IPc.cRelP false | IPc.cAcqQ | IPc.cNtaQ | IPc.cRelQ => !inPause && WFp false prog
  | _ => false

def holdsD : IPc → Bool
  | IPc.gRelD _ | IPc.sRelD => true
  | _ => false

def holdsQ : IPc → Bool
  | IPc.cNtaQ | IPc.cRelQ => true
  | _ => false

/-- a `cont()` that has left `pause` and has not yet notified `qlock` -/
def inflightCont : IPc → Bool
  | IPc.cNtfP | IPc.cRelP false | IPc.cAcqQ | IPc.cNtaQ => true
  | _ => false

def sHoldsQ : SPc → Bool
  | SPc.relQ1 | SPc.acqP | SPc.ntaP | SPc.relP | SPc.waitQ | SPc.relQ2 => true
  | _ => false

def fragSpc : SPc → Bool
  | SPc.runAcqRes _ _ _ | SPc.runRelC _ _ | SPc.runRelRes _ | SPc.crashed => false
  | _ => true

structure F (n : Nat) (s : State) : Prop where
  noq : s.queue = []
  spcOk : fragSpc s.spc = true
  cons : ∀ u, cons (decide (u ∈ s.pause)) (s.th u).pc (s.th u).prog = true
  inert : ∀ u, n < u → (s.th u).pc = IPc.idle ∧ (s.th u).prog = []
  d1 : ∀ u, holdsD (s.th u).pc = true → s.dlock = some u
  d2 : ∀ v, s.dlock = some v → holdsD (s.th v).pc = true
  q1 : ∀ u, holdsQ (s.th u).pc = true → s.qOwner = some u
  q2 : sHoldsQ s.spc = true → s.qOwner = some 0
  q3 : ∀ v, s.qOwner = some v → (v = 0 ∧ sHoldsQ s.spc = true) ∨ holdsQ (s.th v).pc = true
  p3 : ∀ v, s.pOwner = some v →
        (v = 0 ∧ (s.spc = SPc.ntaP ∨ s.spc = SPc.relP)) ∨ holdsP (s.th v).pc = true
  bw : s.spc = SPc.blocked → s.qWaiting = true
  wb : ∀ u, (s.th u).pc = IPc.wBlocked → u ∈ s.pWait
  j1 : s.spc = SPc.acqP → (∀ u, inflightCont (s.th u).pc = false) → s.pause ≠ []
  zprog : (s.th 0).prog = []
  j2 : (s.spc = SPc.ntaP ∨ s.spc = SPc.relP ∨ s.spc = SPc.waitQ ∨ s.qWaiting = true) →
        (∀ u, inflightCont (s.th u).pc = false) → s.paused ≠ []

theorem addSet_ne_nil (l : List Tid) (t : Tid) : addSet l t ≠ [] := by
  unfold addSet; split
  · intro e; simp_all
  · simp

theorem unionSet_eq_nil {a b : List Tid} (h : unionSet a b = []) : b = [] := by
  cases b with
  | nil => rfl
  | cons x xs =>
    have : x ∈ unionSet a (x :: xs) := mem_unionSet.mpr (Or.inr (by simp))
    rw [h] at this; cases this

set_option maxHeartbeats 16000000 in
theorem f_stepIface {n : Nat} {s s' : State} {t : Tid} {evs : List Ev}
    (h : F n s) (hw : W s) (hp : PInv s) (hq : QW s) (ht : t ≠ 0)
    (hs : stepIface Cfg.fixed s t = some (s', evs)) : F n s' := by
  unfold stepIface at hs
  simp only [Cfg.fixed, wakeOneP, wakeQ, startOp] at hs
  (repeat' split at hs) <;>
  first
  | (cases hs; done)
  | (simp only [Bool.false_eq_true, if_false, Option.some.injEq, Prod.mk.injEq] at hs
     obtain ⟨rfl, -⟩ := hs
     obtain ⟨a1, a2, a3, a4, a5, a6, a7, a8, a9, a10, a11, a12, a13, a15, a14⟩ := h
     obtain ⟨b1, b2, b3, b4, b5, b6, b7⟩ := hw
     obtain ⟨c1, c2⟩ := hp
     constructor <;> (try simp only [setPc]) <;>
       grind [holdsP, holdsD, holdsQ, inflightCont, sHoldsQ, fragSpc, cons, WFp, mem_addSet,
              addSet_ne_nil, mustWait, QW, InLoop])

set_option maxHeartbeats 16000000 in
theorem f_stepSolver {n : Nat} {s s' : State} {evs : List Ev}
    (h : F n s) (hw : W s) (hp : PInv s) (hq : QW s)
    (hs : stepSolver Cfg.fixed s = some (s', evs)) : F n s' := by
  unfold stepSolver at hs
  simp only [Cfg.fixed, runQueue, afterRun, checkPause, wakeAllP] at hs
  (repeat' split at hs) <;>
  first
  | (cases hs; done)
  | (simp only [Option.some.injEq, Prod.mk.injEq] at hs
     obtain ⟨rfl, -⟩ := hs
     obtain ⟨a1, a2, a3, a4, a5, a6, a7, a8, a9, a10, a11, a12, a13, a15, a14⟩ := h
     obtain ⟨b1, b2, b3, b4, b5, b6, b7⟩ := hw
     obtain ⟨c1, c2⟩ := hp
     constructor <;> (repeat' split) <;>
       grind [holdsP, holdsD, holdsQ, inflightCont, sHoldsQ, fragSpc, cons, WFp, mem_unionSet,
              unionSet_eq_nil, QW, InLoop])

end PysphVerif.Controller
