import PysphVerif.Lemmas.ControllerWait
/-!
C18, repaired protocol, pause fragment: programs over get / blocking set /
pause_on_next / wait / cont (no queued commands).  Invariant `F` (lock
ownership in both directions, program consistency, pending notifications) from
which freedom from deadlock follows.
-/
namespace PysphVerif.Controller

/-- well-formed program of the pause fragment, `b` = inside a pause section -/
def WFp : Bool → List Op → Bool
  | b, [] => !b
  | b, Op.pause :: r => !b && WFp true r
  | b, Op.wait :: r => b && WFp true r
  | b, Op.cont :: r => b && WFp false r
  | b, Op.get :: r => WFp b r
  | b, Op.setNow _ :: r => WFp b r
  | _, _ => false

/-- consistency of a thread's pc and remaining program with its membership in `pause` -/
def cons (inPause : Bool) (pc : IPc) (prog : List Op) : Bool :=
  match pc with
  | IPc.idle | IPc.gAcqD | IPc.gRelD _ | IPc.sAcqD _ | IPc.sRelD => WFp inPause prog
  | IPc.pAcqP => !inPause && WFp true prog
  | IPc.pNtfP | IPc.pRelP | IPc.wAcqP | IPc.wWaitP | IPc.wBlocked | IPc.wReacqP | IPc.wRelP =>
    inPause && WFp true prog
  | IPc.cAcqP => inPause && WFp false prog
  | IPc.cNtfP | IPc.cRelP false | IPc.cAcqQ | IPc.cNtaQ | IPc.cRelQ => !inPause && WFp false prog
  | _ => false

def holdsD : IPc → Bool
  | IPc.gRelD _ | IPc.sRelD => true
  | _ => false

def holdsQ : IPc → Bool
  | IPc.cNtaQ | IPc.cRelQ => true
  | _ => false

/-- a `cont()` that has left `pause` and has not yet notified `qlock` -/
def inflightCont : IPc → Bool
  | IPc.cNtfP | IPc.cRelP false | IPc.cAcqQ | IPc.cNtaQ => true
  | _ => false

def sHoldsQ : SPc → Bool
  | SPc.relQ1 | SPc.acqP | SPc.ntaP | SPc.relP | SPc.waitQ | SPc.relQ2 => true
  | _ => false

def fragSpc : SPc → Bool
  | SPc.runAcqRes _ _ _ | SPc.runRelC _ _ | SPc.runRelRes _ | SPc.crashed => false
  | _ => true

structure F (n : Nat) (s : State) : Prop where
  noq : s.queue = []
  spcOk : fragSpc s.spc = true
  cons : ∀ u, cons (decide (u ∈ s.pause)) (s.th u).pc (s.th u).prog = true
  inert : ∀ u, n < u → (s.th u).pc = IPc.idle ∧ (s.th u).prog = []
  d1 : ∀ u, holdsD (s.th u).pc = true → s.dlock = some u
  d2 : ∀ v, s.dlock = some v → holdsD (s.th v).pc = true
  q1 : ∀ u, holdsQ (s.th u).pc = true → s.qOwner = some u
  q2 : sHoldsQ s.spc = true → s.qOwner = some 0
  q3 : ∀ v, s.qOwner = some v → (v = 0 ∧ sHoldsQ s.spc = true) ∨ holdsQ (s.th v).pc = true
  p3 : ∀ v, s.pOwner = some v →
        (v = 0 ∧ (s.spc = SPc.ntaP ∨ s.spc = SPc.relP)) ∨ holdsP (s.th v).pc = true
  bw : s.spc = SPc.blocked → s.qWaiting = true
  wb : ∀ u, (s.th u).pc = IPc.wBlocked → u ∈ s.pWait
  j1 : s.spc = SPc.acqP → (∀ u, inflightCont (s.th u).pc = false) → s.pause ≠ []
  j2 : (s.spc = SPc.ntaP ∨ s.spc = SPc.relP ∨ s.spc = SPc.waitQ ∨ s.qWaiting = true) →
        (∀ u, inflightCont (s.th u).pc = false) → s.paused ≠ []

end PysphVerif.Controller
