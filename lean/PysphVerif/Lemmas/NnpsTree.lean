import PysphVerif.Lemmas.Nnps
/-!
Tree family (Octree / CompressedOctree query): invariant of a built tree and
soundness of the pruning test.
-/
set_option linter.unusedSectionVars false
namespace PysphVerif.Nnps

section
variable {α : Type} [Field α] [LinearOrder α] [IsStrictOrderedRing α]

/-- closed cube `[c, c+len]^3` -/
def inCube (c : Pt α) (len : α) (p : Pt α) : Prop :=
  c.x ≤ p.x ∧ p.x ≤ c.x + len ∧ c.y ≤ p.y ∧ p.y ≤ c.y + len ∧ c.z ≤ p.z ∧ p.z ≤ c.z + len

/-- what a node promises about the particles stored below it: each exists,
lies in the node's closed cube and has `h ≤ hmax` of the node (`c.h`) -/
def NodeOk (src : List (Pt α)) (c : Pt α) (len : α) (pids : List Nat) : Prop :=
  ∀ j ∈ pids, ∃ p, src[j]? = some p ∧ inCube c len p ∧ p.h ≤ c.h

mutual
/-- the tree invariant the harness checks on the real tree on every run -/
def TreeInv (src : List (Pt α)) : Tree α → Prop
  | Tree.leaf c len pids => NodeOk src c len pids
  | Tree.node c len ch => NodeOk src c len (Tree.pidsList ch) ∧ TreeInvList src ch
def TreeInvList (src : List (Pt α)) : List (Tree α) → Prop
  | [] => True
  | t :: ts => TreeInv src t ∧ TreeInvList src ts
end

theorem absA_eq_abs (a : α) : absA a = |a| := by
  unfold absA
  by_cases h : a < 0
  · simp only [h, if_true]; rw [abs_of_neg h]; ring
  · simp only [h, if_false]; rw [abs_of_nonneg (not_lt.mp h)]

theorem le_maxA_left (a b : α) : a ≤ maxA a b := by
  unfold maxA; split
  · exact le_of_lt ‹_›
  · exact le_refl a

theorem le_maxA_right (a b : α) : b ≤ maxA a b := by
  unfold maxA; split
  · exact le_refl b
  · exact not_lt.mp ‹_›

/-- pruning soundness: a node whose cube contains an accepted particle (with
`h ≤ hmax`) is never pruned -/
theorem not_pruned_of_nbr (rs : α) (q c p : Pt α) (len : α) (hrs : 0 ≤ rs)
    (hq : 0 ≤ q.h) (hp : 0 ≤ p.h) (hcube : inCube c len p) (hh : p.h ≤ c.h)
    (hn : isNbr rs q p = true) : pruned rs q c len = false := by
  have key : ∃ r, 0 ≤ r ∧ r ≤ maxA (rs * q.h) (rs * c.h) ∧ dist2 p q < r * r := by
    simp only [isNbr, gather, scatter, Nnps.sq, Bool.or_eq_true] at hn
    rcases hn with h1 | h1
    · exact ⟨rs * q.h, mul_nonneg hrs hq, le_maxA_left _ _, of_decide_eq_true h1⟩
    · exact ⟨rs * p.h, mul_nonneg hrs hp,
        le_trans (mul_le_mul_of_nonneg_left hh hrs) (le_maxA_right _ _), of_decide_eq_true h1⟩
  obtain ⟨r, hr0, hrm, hd⟩ := key
  obtain ⟨hx, hy, hz⟩ := lt_cell_of_dist2_lt hr0 hd
  obtain ⟨c1, c2, c3, c4, c5, c6⟩ := hcube
  have ax : ∀ (cx px qx : α), cx ≤ px → px ≤ cx + len → |px - qx| < r →
      absA (cx + len / 2 - qx) < effRadius rs q c len := by
    intro cx px qx h1 h2 h3
    rw [absA_eq_abs]
    unfold effRadius
    rw [abs_lt] at h3 ⊢
    constructor <;> linarith
  unfold pruned
  simp only [decide_eq_true (ax c.x p.x q.x c1 c2 hx), decide_eq_true (ax c.y p.y q.y c3 c4 hy),
    decide_eq_true (ax c.z p.z q.z c5 c6 hz)]
  rfl

mutual
theorem cands_sublist (rs : α) (q : Pt α) : ∀ t : Tree α, (Tree.cands rs q t).Sublist (Tree.pids t)
  | Tree.leaf c len pids => by
    simp only [Tree.cands, Tree.pids]
    split
    · exact List.nil_sublist _
    · exact List.Sublist.refl _
  | Tree.node c len ch => by
    simp only [Tree.cands, Tree.pids]
    split
    · exact List.nil_sublist _
    · exact candsList_sublist rs q ch
theorem candsList_sublist (rs : α) (q : Pt α) :
    ∀ ts : List (Tree α), (Tree.candsList rs q ts).Sublist (Tree.pidsList ts)
  | [] => by simp [Tree.candsList, Tree.pidsList]
  | t :: ts => by
    simp only [Tree.candsList, Tree.pidsList]
    exact List.Sublist.append (cands_sublist rs q t) (candsList_sublist rs q ts)
end

mutual
theorem cands_cover (rs : α) (src : List (Pt α)) (q : Pt α) (hrs : 0 ≤ rs) (hq : 0 ≤ q.h)
    (hpos : ∀ p ∈ src, 0 ≤ p.h) :
    ∀ t : Tree α, TreeInv src t → ∀ j ∈ Tree.pids t, accepts rs src q j = true →
      j ∈ Tree.cands rs q t
  | Tree.leaf c len pids => by
    intro hinv j hj ha
    simp only [TreeInv] at hinv
    simp only [Tree.pids] at hj
    obtain ⟨p, hp, hcube, hh⟩ := hinv j hj
    have hn : isNbr rs q p = true := by simpa [accepts, hp] using ha
    have := not_pruned_of_nbr rs q c p len hrs hq (hpos p (List.mem_of_getElem? hp)) hcube hh hn
    simp only [Tree.cands, this]
    exact hj
  | Tree.node c len ch => by
    intro hinv j hj ha
    simp only [TreeInv] at hinv
    simp only [Tree.pids] at hj
    obtain ⟨p, hp, hcube, hh⟩ := hinv.1 j hj
    have hn : isNbr rs q p = true := by simpa [accepts, hp] using ha
    have := not_pruned_of_nbr rs q c p len hrs hq (hpos p (List.mem_of_getElem? hp)) hcube hh hn
    simp only [Tree.cands, this]
    exact candsList_cover rs src q hrs hq hpos ch hinv.2 j hj ha
theorem candsList_cover (rs : α) (src : List (Pt α)) (q : Pt α) (hrs : 0 ≤ rs) (hq : 0 ≤ q.h)
    (hpos : ∀ p ∈ src, 0 ≤ p.h) :
    ∀ ts : List (Tree α), TreeInvList src ts → ∀ j ∈ Tree.pidsList ts,
      accepts rs src q j = true → j ∈ Tree.candsList rs q ts
  | [] => by
    intro _ j hj _
    simp [Tree.pidsList] at hj
  | t :: ts => by
    intro hinv j hj ha
    simp only [TreeInvList] at hinv
    simp only [Tree.pidsList, List.mem_append] at hj
    simp only [Tree.candsList, List.mem_append]
    rcases hj with hj | hj
    · exact Or.inl (cands_cover rs src q hrs hq hpos t hinv.1 j hj ha)
    · exact Or.inr (candsList_cover rs src q hrs hq hpos ts hinv.2 j hj ha)
end

/-! ## the executable check implies the invariant -/

theorem inCubeB_sound (c : Pt α) (len : α) (p : Pt α) (h : inCubeB c len p = true) :
    inCube c len p := by
  simp only [inCubeB, Bool.and_eq_true, Bool.not_eq_true', decide_eq_false_iff_not, not_lt] at h
  obtain ⟨⟨⟨⟨⟨h1, h2⟩, h3⟩, h4⟩, h5⟩, h6⟩ := h
  exact ⟨h1, h2, h3, h4, h5, h6⟩

theorem nodeOkB_sound (src : List (Pt α)) (c : Pt α) (len : α) (pids : List Nat)
    (h : nodeOkB src c len pids = true) : NodeOk src c len pids := by
  intro j hj
  simp only [nodeOkB, List.all_eq_true] at h
  have hjj := h j hj
  cases hs : src[j]? with
  | none => rw [hs] at hjj; cases hjj
  | some p =>
    rw [hs] at hjj
    simp only [Bool.and_eq_true, Bool.not_eq_true', decide_eq_false_iff_not, not_lt] at hjj
    exact ⟨p, rfl, inCubeB_sound c len p hjj.1, hjj.2⟩

mutual
theorem invB_sound (src : List (Pt α)) : ∀ t : Tree α, Tree.invB src t = true → TreeInv src t
  | Tree.leaf c len pids => by
    intro h
    simp only [Tree.invB] at h
    simp only [TreeInv]
    exact nodeOkB_sound src c len pids h
  | Tree.node c len ch => by
    intro h
    simp only [Tree.invB, Bool.and_eq_true] at h
    simp only [TreeInv]
    exact ⟨nodeOkB_sound src c len _ h.1, invListB_sound src ch h.2⟩
theorem invListB_sound (src : List (Pt α)) :
    ∀ ts : List (Tree α), Tree.invListB src ts = true → TreeInvList src ts
  | [] => by intro _; simp only [TreeInvList]
  | t :: ts => by
    intro h
    simp only [Tree.invListB, Bool.and_eq_true] at h
    simp only [TreeInvList]
    exact ⟨invB_sound src t h.1, invListB_sound src ts h.2⟩
end

end
end PysphVerif.Nnps
