import PysphVerif.Model.Codegen
/-!
Helper lemmas for C02, section 5 of `Model/Codegen.lean`: the call sites of the group
callables (`condition`, `pre`, `post`) and the map `_compute_group_map` builds.  Core Lean only.
-/
namespace PysphVerif.Codegen

section groupmap
variable {κ : Type} [DecidableEq κ]

/-- a key that was never assigned: `KeyError` -/
theorem gmLookup_none_of_not_mem (m : List (κ × GPos)) (k : κ) (h : k ∉ m.map (·.1)) :
    gmLookup m k = none := by
  induction m with
  | nil => rfl
  | cons e m ih =>
    obtain ⟨k', v⟩ := e
    simp only [List.map_cons, List.mem_cons, not_or] at h
    have hne : ¬ k' = k := fun e => h.1 e.symm
    simp only [gmLookup, ih h.2, if_neg hne]

/-- with pairwise distinct keys every assignment survives -/
theorem gmLookup_of_mem (m : List (κ × GPos)) (hnd : (m.map (·.1)).Nodup) (k : κ) (v : GPos)
    (h : (k, v) ∈ m) : gmLookup m k = some v := by
  induction m with
  | nil => simp at h
  | cons e m ih =>
    obtain ⟨k', v'⟩ := e
    simp only [List.map_cons, List.nodup_cons] at hnd
    rcases List.mem_cons.mp h with h | h
    · have hk : k = k' := congrArg Prod.fst h
      have hv : v = v' := congrArg Prod.snd h
      subst hk; subst hv
      simp only [gmLookup, gmLookup_none_of_not_mem m k hnd.1, if_true]
    · simp only [gmLookup, ih hnd.2 h]

variable {key : GNode → κ} {m : List (κ × GPos)}

theorem mem_siteIf {b : Bool} {c : Cb} {np : GNode × GPos} {s : CallSite}
    (h : s ∈ siteIf key m b c np) :
    s.site = np.2 ∧ s.target = gmLookup m (key np.1) ∧ s.kind = c ∧ b = true := by
  unfold siteIf at h
  cases b with
  | false => simp at h
  | true =>
    simp only [if_true, List.mem_singleton] at h
    subst h
    exact ⟨rfl, rfl, rfl, rfl⟩

theorem mem_nodeSites {np : GNode × GPos} {s : CallSite} (h : s ∈ nodeSites key m np) :
    s.site = np.2 ∧ s.target = gmLookup m (key np.1) := by
  unfold nodeSites at h
  simp only [List.mem_append] at h
  rcases h with (h | h) | h
  · exact ⟨(mem_siteIf h).1, (mem_siteIf h).2.1⟩
  · exact ⟨(mem_siteIf h).1, (mem_siteIf h).2.1⟩
  · exact ⟨(mem_siteIf h).1, (mem_siteIf h).2.1⟩

theorem mem_topSites {gt : GTop × Nat} {s : CallSite} (h : s ∈ topSites key m gt) :
    ∃ np ∈ topNodes gt, s.site = np.2 ∧ s.target = gmLookup m (key np.1) := by
  unfold topSites at h
  have hhead : (gt.1.node, (⟨gt.2, none⟩ : GPos)) ∈ topNodes gt := by
    unfold topNodes; exact List.mem_cons_self
  by_cases he : gt.1.subs.isEmpty = true
  · simp only [he, if_true] at h
    exact ⟨_, hhead, mem_nodeSites h⟩
  · simp only [he, Bool.false_eq_true, if_false, List.mem_append] at h
    rcases h with ((h | h) | h) | h
    · exact ⟨_, hhead, (mem_siteIf h).1, (mem_siteIf h).2.1⟩
    · exact ⟨_, hhead, (mem_siteIf h).1, (mem_siteIf h).2.1⟩
    · obtain ⟨np, hnp, hs⟩ := List.mem_flatMap.mp h
      refine ⟨np, ?_, mem_nodeSites hs⟩
      unfold topNodes
      exact List.mem_cons_of_mem _ hnp
    · exact ⟨_, hhead, (mem_siteIf h).1, (mem_siteIf h).2.1⟩

theorem mem_callSitesBy {gs : List GTop} {s : CallSite} (h : s ∈ callSitesBy key gs) :
    ∃ np ∈ allNodes gs, s.site = np.2 ∧ s.target = gmLookup (groupMapBy key gs) (key np.1) := by
  unfold callSitesBy at h
  obtain ⟨gt, hgt, hs⟩ := List.mem_flatMap.mp h
  obtain ⟨np, hnp, r⟩ := mem_topSites hs
  exact ⟨np, List.mem_flatMap.mpr ⟨gt, hgt, hnp⟩, r⟩

/-- if the keys of all groups are pairwise distinct, every call site refers to the group in
whose text it stands -/
theorem callSitesBy_own (key : GNode → κ) (gs : List GTop)
    (hinj : ((allNodes gs).map (fun np => key np.1)).Nodup) :
    ∀ s ∈ callSitesBy key gs, s.target = some s.site := by
  intro s hs
  obtain ⟨np, hnp, h1, h2⟩ := mem_callSitesBy hs
  rw [h2, h1]
  apply gmLookup_of_mem
  · unfold groupMapBy
    rw [List.map_map]
    exact hinj
  · unfold groupMapBy
    exact List.mem_map.mpr ⟨np, hnp, rfl⟩

/-- every callable a group has gets its call site -/
theorem nodeSites_sub_callSitesBy (key : GNode → κ) (gs : List GTop) (np : GNode × GPos)
    (hnp : np ∈ allNodes gs) :
    ∀ s ∈ nodeSites key (groupMapBy key gs) np, s ∈ callSitesBy key gs := by
  intro s hs
  unfold allNodes at hnp
  obtain ⟨gt, hgt, hin⟩ := List.mem_flatMap.mp hnp
  unfold callSitesBy
  refine List.mem_flatMap.mpr ⟨gt, hgt, ?_⟩
  unfold topNodes at hin
  unfold topSites
  rcases List.mem_cons.mp hin with hhead | htail
  · subst hhead
    by_cases he : gt.1.subs.isEmpty = true
    · simp only [he, if_true]; exact hs
    · simp only [he, Bool.false_eq_true, if_false]
      unfold nodeSites at hs
      simp only [List.mem_append] at hs ⊢
      rcases hs with (h | h) | h
      · exact Or.inl (Or.inl (Or.inl h))
      · exact Or.inl (Or.inl (Or.inr h))
      · exact Or.inr h
  · have he : gt.1.subs.isEmpty = false := by
      cases hsub : gt.1.subs with
      | nil => simp [hsub] at htail
      | cons a l => rfl
    simp only [he, Bool.false_eq_true, if_false, List.mem_append]
    exact Or.inl (Or.inr (List.mem_flatMap.mpr ⟨np, htail, hs⟩))

end groupmap

end PysphVerif.Codegen
