import PysphVerif.Lemmas.PArraySpecOps6
/-!
C06: `add_property` with data at the record level.
-/
namespace PysphVerif.PArray

theorem fill_eq_extend (paN q : PA) (m : Nat) (c : Col) (hn : paN.n = 0) (hc : c.data = [])
    (hs : paN.stride = q.stride) (hd : paN.defaults = q.defaults) :
    extendCol paN m c = fillCol q m c := by
  unfold extendCol fillCol
  rw [hc, rowsOf_nil, hn]
  unfold resizeRows
  have : defaultRow paN c.name = defaultRow q c.name := by
    unfold defaultRow PA.strideOf PA.defaultOf; rw [hs, hd]
  simp [this]

theorem setData_same_length (dst src nd : List Int) (h : setData dst src = some nd)
    (hl : src.length = dst.length) : nd = src := by
  unfold setData at h
  split at h
  · simp only [Option.some.injEq] at h
    rw [← h, List.drop_of_length_le (by omega), List.append_nil]
  · exact absurd h (by simp)

theorem find?_name_none_iff (P : List Col) (nm : String) :
    P.find? (fun (c : Col) => c.name == nm) = none ↔ nm ∉ P.map Col.name := by
  rw [List.find?_eq_none]
  constructor
  · intro h hm
    obtain ⟨c, hc, e⟩ := List.mem_map.mp hm
    exact h c hc (by simp [e])
  · intro h c hc e
    exact h ((by simpa using e : c.name = nm) ▸ List.mem_map_of_mem hc)

/-- **`add_property` with data** (valid arguments: an existing property is
re-added with its own stride; the data is a whole number of rows, exactly one
per particle unless the array is empty) refines `specAddProperty` -/
theorem addProperty_data_refines {pa : PA} {name ctype : String} {dflt : Option Int}
    {stride : Nat} {d : List Int} (h : Inv pa) (h1 : 1 ≤ stride) (hd : d.length ≠ 0)
    (hpres : name ∈ pa.props.map Col.name → stride = pa.strideOf name)
    (hdiv : d.length % stride = 0) (hlen : pa.n ≠ 0 → d.length = pa.n * stride) :
    ∃ pa', pa.addProperty name ctype dflt (some d) stride = some pa' ∧
      absPA pa' = specAddProperty name dflt (some d) stride (absPA pa) := by
  have hm : d.length / stride * stride = d.length :=
    Nat.div_mul_cancel (Nat.dvd_of_mod_eq_zero hdiv)
  have hm0 : d.length / stride ≠ 0 := by
    intro e; rw [e] at hm; omega
  have h3 : name = "tag" → stride = 1 := by
    intro e
    have := hpres (e ▸ h.toF.tagMem)
    rw [this, e, h.tagStride]
  obtain ⟨paN, hN⟩ := addProperty_nodata_isSome pa name ctype dflt stride
  obtain ⟨hiN, hnN, hsoN, hsnN, hnamesN, habsN⟩ := addProperty_nodata_abs h h1
    (fun hmem => Or.inr (Or.inl (hpres hmem))) h3 hN
  obtain ⟨hdfN, hstN, hprN⟩ := addProperty_nodata_struct hN
  have hs' : addStride pa name stride = stride := by
    unfold addStride
    split
    · rename_i hp
      split
      · exact (hpres ((hasProp_iff pa name).mp hp)).symm
      · rfl
    · rfl
  rw [hs'] at hsnN habsN
  have hnameN : name ∈ paN.props.map Col.name := by
    rw [hnamesN]; split
    · rename_i hp; exact (hasProp_iff pa name).mp hp
    · simp
  -- the array the column is written into: `paN`, grown to the rows of the data if empty
  obtain ⟨paF, hiF, hstF, hdfF, hnF, habsF, hprF⟩ : ∃ paF : PA, Inv paF ∧ paF.stride = paN.stride ∧
      paF.defaults = paN.defaults ∧ d.length = paF.n * stride ∧
      absPA paF = ⟨(absPA paN).dflt,
        if pa.n = 0 then List.replicate (d.length / stride) (absPA paN).dflt else (absPA paN).recs⟩ ∧
      paF.props = if pa.n = 0 then paN.props.map (extendCol paN (d.length / stride)) else paN.props := by
    by_cases hn0 : pa.n = 0
    · obtain ⟨hiE, hnE⟩ := inv_extend hiN (d.length / stride)
      refine ⟨paN.extend (d.length / stride), hiE, extend_stride _ _, extend_defaults _ _, ?_, ?_, ?_⟩
      · rw [hnE, hnN, hn0, Nat.zero_add, hm]
      · rw [extend_refines hiN, if_pos hn0]
        unfold specExtend
        have : (absPA paN).recs = [] := particles_of_n_zero paN (by rw [hnN, hn0])
        rw [this]; rfl
      · rw [if_pos hn0, extend_props _ _ hm0]
    · exact ⟨paN, hiN, rfl, rfl, by rw [hnN]; exact hlen hn0, by rw [if_neg hn0], by rw [if_neg hn0]⟩
  have hnamesF : paF.props.map Col.name = paN.props.map Col.name := by
    rw [hprF]; split
    · rw [List.map_map]; rfl
    · rfl
  obtain ⟨cF, hcolF⟩ := col?_isSome_of_mem paF name (by rw [hnamesF]; exact hnameN)
  obtain ⟨hcFm, hcFn⟩ := col?_some paF name cF hcolF
  have hsF : paF.strideOf name = stride := by
    unfold PA.strideOf; rw [hstF]; exact hsnN
  have hcFl : cF.data.length = d.length := by
    rw [(hiF.len cF hcFm).2, hcFn, hsF, ← hnF]
  have huniq : ∀ c ∈ paF.props, c.name = name → c = cF :=
    fun c hc e => eq_of_name_eq hiF.nodup hc hcFm (e.trans hcFn.symm)
  -- `addBase` is `paF.props`, without the new column when the name is new
  have hfill : ∀ c ∈ pa.props, pa.n = 0 →
      extendCol paN (d.length / stride) c = fillCol (addPA1 pa name dflt stride) (d.length / stride) c := by
    intro c hc hn0
    apply fill_eq_extend paN _ _ c (by rw [hnN, hn0])
    · exact List.length_eq_zero_iff.mp (by rw [(h.len c hc).2, hn0, Nat.zero_mul])
    · rw [hstN]; rfl
    · rw [hdfN]; rfl
  have hbaseNames : (addBase pa name dflt stride d).map Col.name = pa.props.map Col.name := by
    unfold addBase; split
    · rw [List.map_map]; rfl
    · rfl
  have hbase : paF.props = addBase pa name dflt stride d ++
      (if pa.hasProp name then [] else [cF]) ∧
      (pa.hasProp name = false → cF.ctype = ctype) := by
    by_cases hp : pa.hasProp name = true
    · rw [if_pos hp] at hprN
      simp only [hp, if_true, List.append_nil]
      refine ⟨?_, fun e => by simp at e⟩
      rw [hprF, hprN]
      unfold addBase
      split
      · rename_i hn0
        exact List.map_congr_left (fun c hc => hfill c hc hn0)
      · rfl
    · rw [if_neg hp] at hprN
      have hp' : pa.hasProp name = false := by simpa using hp
      simp only [hp', Bool.false_eq_true, if_false]
      have hnm : name ∉ pa.props.map Col.name := (hasProp_false_iff pa name).mp hp'
      have key : ∃ x : Col, x.name = name ∧ x.ctype = ctype ∧
          paF.props = addBase pa name dflt stride d ++ [x] := by
        rw [hprF, hprN]
        unfold addBase
        split
        · rename_i hn0
          refine ⟨extendCol paN (d.length / stride)
            ⟨name, ctype, List.replicate (pa.n * stride) (addDv pa name dflt)⟩, rfl, rfl, ?_⟩
          rw [List.map_append]
          congr 1
          exact List.map_congr_left (fun c hc => hfill c hc hn0)
        · exact ⟨_, rfl, rfl, rfl⟩
      obtain ⟨x, hxn, hxc, hx⟩ := key
      have : cF = x := by
        have := hcFm
        rw [hx] at this
        rcases List.mem_append.mp this with e | e
        · have hmem : cF.name ∈ (addBase pa name dflt stride d).map Col.name :=
            List.mem_map_of_mem e
          rw [hbaseNames, hcFn] at hmem
          exact absurd hmem hnm
        · simpa using e
      rw [this]
      exact ⟨hx, fun _ => hxc⟩
  -- the operation does not raise
  obtain ⟨pa', hr⟩ := addProperty_data_isSome (pa := pa) (name := name) (ctype := ctype)
    (dflt := dflt) (stride := stride) hd
    (by
      by_cases hn0 : pa.n = 0
      · exact Or.inl hn0
      · refine Or.inr ⟨?_, hdiv⟩
        rw [hlen hn0, Nat.mul_div_cancel _ (by omega)])
    (by
      intro c hc
      have hcm : c ∈ paF.props := by
        rw [hbase.1]; exact List.mem_append_left _ (List.mem_of_find?_eq_some hc)
      have hcn : c.name = name := by simpa using List.find?_some hc
      rw [huniq c hcm hcn, hcFl])
  refine ⟨pa', hr, ?_⟩
  obtain ⟨hdf', hst', hcases⟩ := addProperty_data_struct hd hr
  have hprops' : pa'.props = setColL paF.props { cF with data := d } := by
    rcases hcases with ⟨c, nd, hfind, hsd, hpr⟩ | ⟨hnone, hpr⟩
    · have hcB : c ∈ addBase pa name dflt stride d := List.mem_of_find?_eq_some hfind
      have hcm : c ∈ paF.props := by rw [hbase.1]; exact List.mem_append_left _ hcB
      have hcn : c.name = name := by simpa using List.find?_some hfind
      have hcc : c = cF := huniq c hcm hcn
      have hp : pa.hasProp name = true := by
        have hmem : c.name ∈ (addBase pa name dflt stride d).map Col.name :=
          List.mem_map_of_mem hcB
        rw [hbaseNames, hcn] at hmem
        exact (hasProp_iff pa name).mpr hmem
      have hnd : nd = d := setData_same_length _ _ _ hsd (by rw [hcc, hcFl])
      rw [hpr, hnd, hcc, hbase.1, hp]
      simp
    · have hnm : name ∉ pa.props.map Col.name := by
        rw [← hbaseNames]; exact (find?_name_none_iff _ _).mp hnone
      have hp' : pa.hasProp name = false := (hasProp_false_iff pa name).mpr hnm
      rw [hpr, setColL_new _ _ (by rw [hbaseNames]; exact hnm), hbase.1, hp']
      simp only [Bool.false_eq_true, if_false]
      rw [setColL_replace _ _ (by show cF.name ∈ _; simp)]
      rw [List.map_append]
      congr 1
      · symm
        rw [List.map_congr_left (g := id), List.map_id]
        intro c hc
        have : c.name ≠ cF.name := by
          rw [hcFn]; intro e
          have hmem : c.name ∈ (addBase pa name dflt stride d).map Col.name :=
            List.mem_map_of_mem hc
          rw [hbaseNames, e] at hmem
          exact hnm hmem
        show (if c.name == cF.name then _ else _) = _
        simp [this]
      · simp only [List.map_cons, List.map_nil]
        show _ = [(if cF.name == cF.name then _ else _)]
        simp only [beq_self_eq_true, if_true]
        rw [← hcFn, ← hbase.2 hp']
  have hA : absPA pa' = absPA (paF.setCol { cF with data := d }) := by
    apply absPA_congr_fields
    · rw [hprops', setCol_props]
    · rw [hst', setCol_stride, hstF, hstN]; rfl
    · rw [hdf', setCol_defaults, hdfF, hdfN]; rfl
  rw [hA, setColData_abs hiF cF hcFm d hcFl.symm, habsF, hcFn, hsF]
  -- compare with the record-list function
  have hrl : (rowsOf stride d).length = d.length / stride :=
    (rowsOf_uniform _ (by omega) (d.length / stride) d hm.symm).1
  have hkeys : (recKeys (absPA pa).dflt).contains name = pa.hasProp name := by
    rw [absPA_dflt_keys]
    by_cases hp : pa.hasProp name = true
    · rw [hp]; simpa using (hasProp_iff pa name).mp hp
    · have hp' : pa.hasProp name = false := by simpa using hp
      rw [hp']; simpa using (hasProp_false_iff pa name).mp hp'
  have hsl : specAddStride (absPA pa) name stride = stride := by
    unfold specAddStride
    rw [hkeys]
    split
    · rename_i hp
      have hmem := (hasProp_iff pa name).mp hp
      rw [lookupD_absPA_dflt name hmem, List.length_replicate, ← hpres hmem]
    · rfl
  have hdv : specAddDv (absPA pa) name dflt = addDv pa name dflt := by
    unfold addDv specAddDv
    cases dflt with
    | some v => rfl
    | none =>
      simp only [hkeys]
      split
      · rename_i hp
        have hmem := (hasProp_iff pa name).mp hp
        rw [lookupD_absPA_dflt name hmem]
        obtain ⟨c, hc, hcn⟩ := List.mem_map.mp hmem
        have := (h.len c hc).1
        rw [hcn] at this
        cases hs : pa.strideOf name with
        | zero => omega
        | succ k => rfl
      · rfl
  obtain ⟨x, xs, rfl⟩ : ∃ x xs, d = x :: xs := by
    cases d with
    | nil => simp at hd
    | cons x xs => exact ⟨x, xs, rfl⟩
  unfold specAddProperty
  simp only [hsl, hdv, habsN]
  have hlen0 : ((absPA pa).recs.length = 0) ↔ pa.n = 0 := by
    show (particles pa).length = 0 ↔ _
    rw [particles_length]
  by_cases hn0 : pa.n = 0
  · rw [if_pos hn0, if_pos (hlen0.mpr hn0)]
    congr 1
    rw [← hrl, zipWith_replicate_left]
  · rw [if_neg hn0, if_neg (fun e => hn0 (hlen0.mp e))]
    congr 1
    by_cases hp : pa.hasProp name = true
    · simp only [hp, if_true]
    · have hp' : pa.hasProp name = false := by simpa using hp
      simp only [hp', Bool.false_eq_true, if_false]
      rw [List.zipWith_map_left]
      apply zipWith_congr_left
      intro r hr row
      apply setField_snoc
      have hnm : name ∉ pa.props.map Col.name := (hasProp_false_iff pa name).mp hp'
      change r ∈ particles pa at hr
      unfold particles at hr
      obtain ⟨k, _, rfl⟩ := List.mem_map.mp hr
      unfold particleAt
      rw [List.map_map]
      exact hnm

theorem hasProp_keys (pa : PA) (name : String) :
    (recKeys (absPA pa).dflt).contains name = pa.hasProp name := by
  rw [absPA_dflt_keys]
  by_cases hp : pa.hasProp name = true
  · rw [hp]; simpa using (hasProp_iff pa name).mp hp
  · have hp' : pa.hasProp name = false := by simpa using hp
    rw [hp']; simpa using (hasProp_false_iff pa name).mp hp'

/-- **`add_property` without data** refines `specAddProperty` -/
theorem addProperty_nodata_refines {pa : PA} {name ctype : String} {dflt : Option Int}
    {stride : Nat} (h : Inv pa) (h1 : 1 ≤ stride)
    (hpres : name ∈ pa.props.map Col.name → stride = 1 ∨ stride = pa.strideOf name) :
    ∃ pa', pa.addProperty name ctype dflt none stride = some pa' ∧
      absPA pa' = specAddProperty name dflt none stride (absPA pa) := by
  have h3 : name = "tag" → stride = 1 := by
    intro e
    rcases hpres (e ▸ h.toF.tagMem) with h' | h'
    · exact h'
    · rw [h', e, h.tagStride]
  obtain ⟨paN, hN⟩ := addProperty_nodata_isSome pa name ctype dflt stride
  obtain ⟨_, _, _, _, _, habsN⟩ := addProperty_nodata_abs h h1
    (fun hmem => (hpres hmem).elim Or.inl (fun e => Or.inr (Or.inl e))) h3 hN
  refine ⟨paN, hN, ?_⟩
  rw [habsN]
  have hsl : specAddStride (absPA pa) name stride = addStride pa name stride := by
    unfold specAddStride addStride
    rw [hasProp_keys]
    split
    · rename_i hp
      have hmem := (hasProp_iff pa name).mp hp
      rw [lookupD_absPA_dflt name hmem, List.length_replicate]
      rcases hpres hmem with e | e
      · rw [if_pos e]
      · split
        · rfl
        · exact e.symm
    · rfl
  have hdv : specAddDv (absPA pa) name dflt = addDv pa name dflt := by
    unfold addDv specAddDv
    cases dflt with
    | some v => rfl
    | none =>
      simp only [hasProp_keys]
      split
      · rename_i hp
        have hmem := (hasProp_iff pa name).mp hp
        rw [lookupD_absPA_dflt name hmem]
        obtain ⟨c, hc, hcn⟩ := List.mem_map.mp hmem
        have := (h.len c hc).1
        rw [hcn] at this
        cases hs : pa.strideOf name with
        | zero => omega
        | succ k => rfl
      · rfl
  unfold specAddProperty specAddNoData
  simp only [hsl, hdv, hasProp_keys]

theorem refines_setAt_opt {st : State} {s : Nat} {pa : PA} (hs : st[s]? = some pa)
    (r : Option PA) (f : RA → RA)
    (hsome : ∀ pa', r = some pa' → (absPA pa').equiv (f (absPA pa)))
    (hnone : r = none → f (absPA pa) = absPA pa) :
    poolEquiv (absState (setAt st s r)) (modifySlot (absState st) s f) := by
  cases r with
  | none => exact refines_unchanged hs f (RA.equiv_of_eq (hnone rfl).symm)
  | some pa' => exact refines_set hs f (hsome pa' rfl)

theorem specSetProp_not_prop (pa : PA) (nm : String) (d : List Int) (h : pa.hasProp nm = false) :
    specSetProp nm d (absPA pa) = absPA pa := by
  unfold specSetProp
  rw [hasProp_keys, h]
  rfl

end PysphVerif.PArray
