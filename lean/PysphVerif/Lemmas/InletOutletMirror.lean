import PysphVerif.Lemmas.InletOutlet
import Mathlib.Data.List.Basic
import Mathlib.Data.List.Induction
import Mathlib.Data.List.Perm.Basic
import Mathlib.Data.List.Perm.Subperm
import Mathlib.Data.List.Nodup
/-!
Helper lemmas for C16, second part: naturality of the swap-remove
(`removeRows` with one index list acts the same way on every array of the same
length: it commutes with `map`), what the ParticleArray operations reduce to on
an array all of whose particles are Local (`align_particles` makes no move, the
real-particle view is the whole array), and label bookkeeping (`lbl`) for the
outlet updates.  Same proofs as `Lemmas/PArrayPerm.lean` for the structurally
identical definitions of namespace `PysphVerif.PArray`.
-/
namespace PysphVerif.InletOutlet
open List

section generic
variable {β γ δ : Type}

theorem swapRemove_concat (l : List β) (a : β) (i : Nat) :
    swapRemove (l ++ [a]) i =
      if i < l.length then l.set i a else if i = l.length then l else l ++ [a] := by
  unfold swapRemove
  by_cases h1 : i < l.length
  · have : i < (l ++ [a]).length := by simp; omega
    simp only [this, if_true, List.getLast?_append, List.getLast?_singleton, h1]
    simp [h1]
  · by_cases h2 : i = l.length
    · subst h2
      simp
    · have : ¬ i < (l ++ [a]).length := by simp; omega
      rw [if_neg this, if_neg h1, if_neg h2]

theorem swapRemove_nil (i : Nat) : swapRemove ([] : List β) i = [] := by
  simp [swapRemove]

theorem swapRemove_subset (l : List β) (i : Nat) : ∀ x ∈ swapRemove l i, x ∈ l := by
  induction l using List.reverseRecOn with
  | nil => simp [swapRemove_nil]
  | append_singleton l a _ =>
    intro x hx
    rw [swapRemove_concat] at hx
    split_ifs at hx
    · rcases List.mem_or_eq_of_mem_set hx with h | h
      · simp [h]
      · simp [h]
    · simp [hx]
    · exact hx

/-- the swap-remove of one row does the same thing to every column -/
theorem swapRemove_map (f : β → γ) (l : List β) (i : Nat) :
    (swapRemove l i).map f = swapRemove (l.map f) i := by
  induction l using List.reverseRecOn with
  | nil => simp [swapRemove_nil]
  | append_singleton l a _ =>
    rw [List.map_append, List.map_singleton, swapRemove_concat, swapRemove_concat]
    simp only [List.length_map]
    split_ifs <;> simp [List.map_set]

theorem removeRows_nil (l : List β) : removeRows [] l = l := by
  simp [removeRows]

theorem removeRows_concat (idx : List Nat) (i : Nat) (l : List β) :
    removeRows (idx ++ [i]) l = removeRows idx (swapRemove l i) := by
  simp [removeRows]

theorem removeRows_subset (idx : List Nat) (l : List β) : ∀ x ∈ removeRows idx l, x ∈ l := by
  induction idx using List.reverseRecOn generalizing l with
  | nil => simp [removeRows_nil]
  | append_singleton idx i ih =>
    intro x hx
    rw [removeRows_concat] at hx
    exact swapRemove_subset l i x (ih _ x hx)

/-- `remove(sorted_indices)` does the same thing to every column: the slot
permutation it performs depends on the index list and the length only -/
theorem removeRows_map (f : β → γ) (idx : List Nat) (l : List β) :
    (removeRows idx l).map f = removeRows idx (l.map f) := by
  induction idx using List.reverseRecOn generalizing l with
  | nil => simp [removeRows_nil]
  | append_singleton idx i ih =>
    rw [removeRows_concat, removeRows_concat, ih, swapRemove_map]

/-- two arrays whose images under `f`, `g` agree slot by slot still agree after
the same rows are removed from both -/
theorem removeRows_map_eq (f : β → δ) (g : γ → δ) (idx : List Nat) (l : List β) (l' : List γ)
    (h : l.map f = l'.map g) : (removeRows idx l).map f = (removeRows idx l').map g := by
  rw [removeRows_map, removeRows_map, h]

/-- `removeRows` with one index list commutes with `zip` of two equally long
arrays -/
theorem removeRows_zip (idx : List Nat) (l : List β) (l' : List γ) (h : l.length = l'.length) :
    removeRows idx (List.zip l l') = List.zip (removeRows idx l) (removeRows idx l') := by
  have h1 : (removeRows idx (List.zip l l')).map Prod.fst = removeRows idx l := by
    rw [removeRows_map, ← List.unzip_fst, List.unzip_zip_left (Nat.le_of_eq h)]
  have h2 : (removeRows idx (List.zip l l')).map Prod.snd = removeRows idx l' := by
    rw [removeRows_map, ← List.unzip_snd, List.unzip_zip_right (Nat.le_of_eq h.symm)]
  rw [← h1, ← h2, ← List.unzip_fst, ← List.unzip_snd, List.zip_unzip]

end generic

/-! ### arrays holding Local particles only -/
section particles
variable {α : Type}

theorem alignFold_all_true (ls : List Bool) (k : Nat) (h : ∀ b ∈ ls, b = true) :
    (List.zip (List.range' k ls.length) ls).foldl alignStep (List.range k, k, 0)
      = (List.range (k + ls.length), k + ls.length, 0) := by
  induction ls generalizing k with
  | nil => simp
  | cons b ls ih =>
    have hb : b = true := h b (by simp)
    subst hb
    simp only [List.length_cons, List.range'_succ, List.zip_cons_cons, List.foldl_cons]
    have hstep : alignStep (List.range k, k, 0) (k, true) = (List.range (k + 1), k + 1, 0) := by
      simp [alignStep, List.range_succ]
    rw [hstep, ih (k + 1) (fun b hb => h b (by simp [hb]))]
    simp [Nat.add_assoc, Nat.add_comm 1 ls.length]

/-- all flags Local: the index array is the identity, no move -/
theorem alignIndex_all_true (L : List Bool) (h : ∀ b ∈ L, b = true) :
    alignIndex L = (List.range L.length, L.length, 0) := by
  unfold alignIndex
  rw [List.range_eq_range']
  have := alignFold_all_true L 0 h
  simpa [List.range_eq_range'] using this

/-- `align_particles` on an array of Local particles changes nothing -/
theorem align_of_all_local (l : List (Particle α)) (h : ∀ p ∈ l, isLocal p = true) :
    align l = l := by
  unfold align
  rw [alignIndex_all_true (l.map isLocal) (by
    intro b hb
    obtain ⟨p, hp, rfl⟩ := List.mem_map.mp hb
    exact h p hp)]
  simp

theorem nReal_of_all_local (l : List (Particle α)) (h : ∀ p ∈ l, isLocal p = true) :
    nReal l = l.length := by
  unfold nReal
  rw [List.filter_eq_self.mpr h]

theorem realView_of_all_local (l : List (Particle α)) (h : ∀ p ∈ l, isLocal p = true) :
    realView l = l := by
  unfold realView
  rw [nReal_of_all_local l h, List.take_length]

theorem addParticles_of_all_local (given l : List (Particle α))
    (h : ∀ p ∈ l ++ given, isLocal p = true) : addParticles given l = l ++ given := by
  unfold addParticles
  split
  · exact align_of_all_local _ h
  · rfl

theorem removeParticles_of_all_local (idx : List Nat) (l l' : List (Particle α))
    (h : ∀ p ∈ l, isLocal p = true) (hr : removeParticles idx l = some l') :
    l' = removeRows idx l := by
  unfold removeParticles at hr
  split at hr
  · cases hr
  · cases hr
    split
    · exact align_of_all_local _ (fun p hp => h p (removeRows_subset idx l p hp))
    · rfl

/-- the same `remove_particles(idx)` applied to two all-Local arrays carrying
the same labels slot by slot leaves them carrying the same labels slot by slot -/
theorem removeParticles_labels_aligned (idx : List Nat) (o g o' g' : List (Particle α))
    (ho : ∀ p ∈ o, isLocal p = true) (hg : ∀ p ∈ g, isLocal p = true)
    (h1 : removeParticles idx o = some o') (h2 : removeParticles idx g = some g')
    (hl : g.map (·.lbl) = o.map (·.lbl)) : g'.map (·.lbl) = o'.map (·.lbl) := by
  rw [removeParticles_of_all_local idx o o' ho h1, removeParticles_of_all_local idx g g' hg h2]
  exact removeRows_map_eq _ _ idx g o hl

end particles

end PysphVerif.InletOutlet

/-! ### the mirror outlet's temporary array `pa_add` when every particle is Local -/
namespace PysphVerif.InletOutlet
open List
section mirror
variable {α : Type}

theorem where_all_local (pred : Particle α → Bool) (F : List (Particle α))
    (hF : ∀ p ∈ F, isLocal p = true) :
    gather (whereFrom pred 0 (realView F)) F = F.filter pred := by
  rw [gather_where_realView, realView_of_all_local F hF]

/-- the rows `extract_particles` + `get_property_arrays()` hand to
`add_particles` are, in order, the images of the selected particles -/
theorem arrivals_of_all_local (pred : Particle α → Bool) (c : Particle α → Particle α)
    (F : List (Particle α)) (hF : ∀ p ∈ F, isLocal p = true)
    (hc : ∀ p, isLocal p = true → isLocal (c p) = true) :
    (if (whereFrom pred 0 (realView F)).length = 0 then []
     else realView (align ((gather (whereFrom pred 0 (realView F)) F).map c)))
      = (F.filter pred).map c := by
  have hall : ∀ q ∈ (F.filter pred).map c, isLocal q = true := by
    intro q hq
    obtain ⟨p, hp, rfl⟩ := List.mem_map.mp hq
    exact hc p (hF p (List.mem_filter.mp hp).1)
  rw [where_all_local pred F hF]
  split
  · rename_i h0
    rw [whereFrom_length, realView_of_all_local F hF] at h0
    rw [List.eq_nil_of_length_eq_zero h0]; rfl
  · rw [align_of_all_local _ hall, realView_of_all_local _ hall]

theorem ghost_arrivals_of_all_local (pred : Particle α → Bool) (c : Particle α → Particle α)
    (F g : List (Particle α)) (hF : ∀ p ∈ F, isLocal p = true) (hg : ∀ p ∈ g, isLocal p = true)
    (hc : ∀ p, isLocal p = true → isLocal (c p) = true) :
    (if (whereFrom pred 0 (realView F)).length > 0 then
       addParticles (realView (align ((gather (whereFrom pred 0 (realView F)) F).map c))) g
     else g) = g ++ (F.filter pred).map c := by
  have hall : ∀ q ∈ (F.filter pred).map c, isLocal q = true := by
    intro q hq
    obtain ⟨p, hp, rfl⟩ := List.mem_map.mp hq
    exact hc p (hF p (List.mem_filter.mp hp).1)
  rw [where_all_local pred F hF]
  split
  · rw [align_of_all_local _ hall, realView_of_all_local _ hall]
    apply addParticles_of_all_local
    intro p hp
    rcases List.mem_append.mp hp with h | h
    · exact hg p h
    · exact hall p h
  · rename_i h0
    rw [whereFrom_length, realView_of_all_local F hF] at h0
    have : F.filter pred = [] := List.eq_nil_of_length_eq_zero (by omega)
    rw [this]; simp

theorem copyInto_lbl (m : Mask) (d p : Particle α) (h : m.lbl = true) :
    (copyInto m d p).lbl = p.lbl := by
  simp [copyInto, h]

end mirror
end PysphVerif.InletOutlet

/-! ### labels: an outlet update never creates a label -/
namespace PysphVerif.InletOutlet
open List
section labels
variable {α : Type}

theorem nodup_of_subperm {γ : Type} {l₁ l₂ : List γ} (h : l₁.Subperm l₂) (hd : l₂.Nodup) :
    l₁.Nodup := by
  obtain ⟨l, hp, hs⟩ := h
  exact hp.nodup_iff.mp (hd.sublist hs)

theorem subperm_map {γ δ : Type} (f : γ → δ) {l₁ l₂ : List γ} (h : l₁.Subperm l₂) :
    (l₁.map f).Subperm (l₂.map f) := by
  obtain ⟨l, hp, hs⟩ := h
  exact ⟨l.map f, hp.map f, hs.map f⟩

/-- the real-particle view of an aligned array holds (some of) its particles -/
theorem realView_align_subperm (l : List (Particle α)) : (realView (align l)).Subperm l :=
  (realView_align_perm l).subperm.trans (List.filter_sublist (l := l) (p := isLocal)).subperm

/-- bookkeeping of one outlet update in terms of labels: the source loses `L`,
the destination gains `Arr` (labels among those of `L`) and loses `D` -/
theorem labels_step_subperm {A A' O O' L D Arr : List (Particle α)}
    (h1 : (A' ++ L).Perm A) (h2 : (O' ++ D).Perm (O ++ Arr))
    (h3 : (Arr.map (·.lbl)).Subperm (L.map (·.lbl))) :
    ((A' ++ O').map (·.lbl)).Subperm ((A ++ O).map (·.lbl)) := by
  have e1 : (O'.map (·.lbl)).Subperm (O.map (·.lbl) ++ L.map (·.lbl)) := by
    have a : (O'.map (·.lbl)).Subperm ((O' ++ D).map (·.lbl)) := by
      rw [List.map_append]; exact (List.sublist_append_left _ _).subperm
    have b : ((O' ++ D).map (·.lbl)).Perm (O.map (·.lbl) ++ Arr.map (·.lbl)) := by
      rw [← List.map_append]; exact h2.map _
    exact a.trans (b.subperm.trans ((Subperm.refl _).append h3))
  have e2 : (A'.map (·.lbl) ++ (O.map (·.lbl) ++ L.map (·.lbl))).Perm
      ((A ++ O).map (·.lbl)) := by
    have : ((A' ++ L).map (·.lbl)).Perm (A.map (·.lbl)) := h1.map _
    rw [List.map_append] at this
    rw [List.map_append]
    refine List.Perm.trans ?_ (this.append_right _)
    rw [List.append_assoc]
    exact List.Perm.append_left _ List.perm_append_comm
  rw [List.map_append]
  exact (((Subperm.refl _).append e1)).trans e2.subperm

theorem map_lbl_mapIdx (f : Nat → Particle α → Particle α) (l : List (Particle α))
    (h : ∀ i p, (f i p).lbl = p.lbl) : (l.mapIdx f).map (·.lbl) = l.map (·.lbl) := by
  apply List.ext_getElem
  · simp
  · intro i h1 h2
    simp [h]

end labels
end PysphVerif.InletOutlet

set_option linter.unusedSectionVars false
/-! ### `IOEvaluate` touches neither `tag` nor `lbl` -/
namespace PysphVerif.InletOutlet
open List
section evalOne
variable {α : Type} [Add α] [Sub α] [Mul α] [Neg α] [LT α] [DecidableLT α]
  [OfNat α 1] [OfNat α 2]

theorem evalOne_all_local (zn : Zone α) (d : α) (l : List (Particle α))
    (h : ∀ p ∈ l, isLocal p = true) : ∀ p ∈ l.map (evalOne zn d), isLocal p = true := by
  intro q hq
  obtain ⟨p, hp, rfl⟩ := List.mem_map.mp hq
  exact h p hp

theorem map_lbl_evalOne (zn : Zone α) (d : α) (l : List (Particle α)) :
    (l.map (evalOne zn d)).map (·.lbl) = l.map (·.lbl) := by
  simp [evalOne]

end evalOne
end PysphVerif.InletOutlet
