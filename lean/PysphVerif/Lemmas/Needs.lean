import PysphVerif.Model.Needs
/-!
Helper lemmas for C20 (`Model/Needs.lean`).

* `Reach` — the specification of "precomputed symbol reachable from the loop
  arguments"; `mem_closure_iff` shows the `while not done` loop of
  `Group._setup_precomputed` computes exactly that set (fuel suffices).
* distributivity of `Group.get_array_names` over the equations of a group.
* inversion lemmas for the checker.
-/
namespace PysphVerif.Needs

/-! ## table -/

theorem Table.has_iff (t : Table) (s : Name) : t.has s = true ↔ s ∈ t.map (·.1) := by
  simp only [Table.has, List.any_eq_true, List.mem_map, beq_iff_eq]

/-! ## reachability -/

/-- `s` is a precomputed symbol the group must compute: it is a loop argument,
or occurs in the code block of one that must be computed -/
inductive Reach (t : Table) (args : List Name) : Name → Prop where
  | base {s : Name} : s ∈ args → s ≠ "self" → t.has s = true → Reach t args s
  | step {s s' : Name} : Reach t args s → s' ∈ t.syms s → t.has s' = true → Reach t args s'

theorem Reach.mono {t : Table} {a b : List Name} (h : ∀ x ∈ a, x ∈ b) {s : Name}
    (hr : Reach t a s) : Reach t b s := by
  induction hr with
  | base h1 h2 h3 => exact Reach.base (h _ h1) h2 h3
  | step _ h2 h3 ih => exact Reach.step ih h2 h3

theorem reach_flatMap {α : Type} (t : Table) (f : α → List Name) (l : List α) (s : Name) :
    Reach t (l.flatMap f) s ↔ ∃ e ∈ l, Reach t (f e) s := by
  constructor
  · intro hr
    induction hr with
    | base h1 h2 h3 =>
      obtain ⟨e, he, hs⟩ := List.mem_flatMap.mp h1
      exact ⟨e, he, Reach.base hs h2 h3⟩
    | step _ h2 h3 ih =>
      obtain ⟨e, he, hr⟩ := ih
      exact ⟨e, he, Reach.step hr h2 h3⟩
  · rintro ⟨e, he, hr⟩
    exact hr.mono (fun x hx => List.mem_flatMap.mpr ⟨e, he, hx⟩)

/-! ## the closure loop -/

theorem mem_newSyms (t : Table) (pre found : List Name) (x : Name) :
    x ∈ newSyms t pre found ↔ (∃ f ∈ found, x ∈ t.syms f) ∧ t.has x = true ∧ x ∉ pre := by
  simp only [newSyms, List.mem_eraseDups, List.mem_filter, List.mem_flatMap, Bool.and_eq_true,
    Bool.not_eq_true', List.contains_eq_mem, decide_eq_false_iff_not]

/-- number of table keys not yet in `pre` -/
def mu (t : Table) (pre : List Name) : Nat :=
  ((t.map (·.1)).filter (fun k => !pre.contains k)).length

theorem filter_length_lt (l : List Name) (p q : Name → Bool) (hpq : ∀ x, q x = true → p x = true)
    (x : Name) (hx : x ∈ l) (hp : p x = true) (hq : q x = false) :
    (l.filter q).length < (l.filter p).length := by
  induction l with
  | nil => cases hx
  | cons a as ih =>
    have hle : (as.filter q).length ≤ (as.filter p).length := by
      clear ih hx
      induction as with
      | nil => simp
      | cons b bs ihb =>
        simp only [List.filter_cons]
        cases hqb : q b
        · cases hpb : p b <;> simp <;> omega
        · simp [hpq b hqb]; omega
    rcases List.mem_cons.mp hx with rfl | hx'
    · simp only [List.filter_cons, hp, hq, if_true]
      simp only [Bool.false_eq_true, if_false, List.length_cons]
      omega
    · have := ih hx'
      simp only [List.filter_cons]
      cases hqa : q a
      · cases hpa : p a <;> simp <;> omega
      · simp [hpq a hqa]; omega

theorem mu_lt (t : Table) (pre new : List Name) (x : Name) (hx : x ∈ new)
    (hk : t.has x = true) (hnp : x ∉ pre) : mu t (pre ++ new) < mu t pre := by
  unfold mu
  apply filter_length_lt _ _ _ _ x ((Table.has_iff t x).mp hk)
  · simp [hnp]
  · simp [hx]
  · intro y hy
    simp only [Bool.not_eq_true', List.contains_eq_mem, decide_eq_false_iff_not,
      List.mem_append, not_or] at hy ⊢
    exact hy.1

theorem mu_le (t : Table) (pre : List Name) : mu t pre ≤ t.length := by
  unfold mu
  exact Nat.le_trans (List.length_filter_le _ _) (by simp)

/-- loop invariant of `_setup_precomputed` -/
structure Inv (t : Table) (args pre found : List Name) : Prop where
  sound : ∀ s ∈ pre, Reach t args s
  sub : ∀ s ∈ found, s ∈ pre
  closed : ∀ s ∈ pre, s ∉ found → ∀ s' ∈ t.syms s, t.has s' = true → s' ∈ pre

theorem closureLoop_spec (t : Table) (args : List Name) (fuel : Nat) (pre found : List Name)
    (hinv : Inv t args pre found) (hfuel : mu t pre < fuel) :
    (∀ s ∈ pre, s ∈ closureLoop t fuel pre found) ∧
    (∀ s ∈ closureLoop t fuel pre found, Reach t args s) ∧
    (∀ s ∈ closureLoop t fuel pre found, ∀ s' ∈ t.syms s, t.has s' = true →
      s' ∈ closureLoop t fuel pre found) := by
  induction fuel generalizing pre found with
  | zero => omega
  | succ fuel ih =>
    simp only [closureLoop]
    by_cases hnew : (newSyms t pre found).isEmpty = true
    · simp only [hnew, if_true]
      refine ⟨fun s hs => hs, hinv.sound, ?_⟩
      intro s hs s' hs' hk
      by_cases hsf : s ∈ found
      · by_cases hp : s' ∈ pre
        · exact hp
        · have : s' ∈ newSyms t pre found := (mem_newSyms t pre found s').mpr ⟨⟨s, hsf, hs'⟩, hk, hp⟩
          rw [List.isEmpty_iff.mp hnew] at this
          cases this
      · exact hinv.closed s hs hsf s' hs' hk
    · simp only [hnew]
      have hne : newSyms t pre found ≠ [] := fun h => hnew (by simp [h])
      obtain ⟨x, hx⟩ := List.exists_mem_of_ne_nil _ hne
      have hx' := (mem_newSyms t pre found x).mp hx
      have hinv' : Inv t args (pre ++ newSyms t pre found) (newSyms t pre found) := by
        refine ⟨?_, ?_, ?_⟩
        · intro s hs
          rcases List.mem_append.mp hs with h | h
          · exact hinv.sound s h
          · obtain ⟨⟨f, hf, hsf⟩, hk, _⟩ := (mem_newSyms t pre found s).mp h
            exact Reach.step (hinv.sound f (hinv.sub f hf)) hsf hk
        · intro s hs
          exact List.mem_append.mpr (Or.inr hs)
        · intro s hs hsn s' hs' hk
          rcases List.mem_append.mp hs with h | h
          · by_cases hsf : s ∈ found
            · by_cases hp : s' ∈ pre
              · exact List.mem_append.mpr (Or.inl hp)
              · exact List.mem_append.mpr
                  (Or.inr ((mem_newSyms t pre found s').mpr ⟨⟨s, hsf, hs'⟩, hk, hp⟩))
            · exact List.mem_append.mpr (Or.inl (hinv.closed s h hsf s' hs' hk))
          · exact absurd h hsn
      have hf' : mu t (pre ++ newSyms t pre found) < fuel := by
        have := mu_lt t pre (newSyms t pre found) x hx hx'.2.1 hx'.2.2
        omega
      obtain ⟨h1, h2, h3⟩ := ih _ _ hinv' hf'
      exact ⟨fun s hs => h1 s (List.mem_append.mpr (Or.inl hs)), h2, h3⟩

/-- `Group._setup_precomputed` computes exactly the reachable precomputed symbols -/
theorem mem_closure_iff (t : Table) (args : List Name) (s : Name) :
    s ∈ closure t args ↔ Reach t args s := by
  have hp0 : ∀ x, x ∈ ((args.filter (fun s => s != "self")).filter (fun s => t.has s)).eraseDups ↔
      (x ∈ args ∧ x ≠ "self") ∧ t.has x = true := by
    intro x
    simp only [List.mem_eraseDups, List.mem_filter, bne_iff_ne, ne_eq]
  have hinv : Inv t args
      ((args.filter (fun s => s != "self")).filter (fun s => t.has s)).eraseDups
      ((args.filter (fun s => s != "self")).filter (fun s => t.has s)).eraseDups := by
    refine ⟨?_, fun s hs => hs, fun s hs hns => absurd hs hns⟩
    intro x hx
    obtain ⟨⟨h1, h2⟩, h3⟩ := (hp0 x).mp hx
    exact Reach.base h1 h2 h3
  obtain ⟨h1, h2, h3⟩ := closureLoop_spec t args (t.length + 1) _ _ hinv
    (Nat.lt_succ_of_le (mu_le t _))
  constructor
  · exact h2 s
  · intro hr
    induction hr with
    | base ha hs hk => exact h1 _ ((hp0 _).mpr ⟨⟨ha, hs⟩, hk⟩)
    | step _ hs hk ih => exact h3 _ ih _ hs hk

/-! ## `Group.get_array_names` -/

theorem mem_preSyms (t : Table) (eqs : List Eqn) (n : Name) :
    n ∈ preSyms t eqs ↔ ∃ e ∈ eqs, ∃ s, Reach t e.loopArgs s ∧ n ∈ t.syms s := by
  simp only [preSyms, List.mem_flatMap, mem_closure_iff, reach_flatMap]
  constructor
  · rintro ⟨s, ⟨e, he, hr⟩, hn⟩
    exact ⟨e, he, s, hr, hn⟩
  · rintro ⟨e, he, s, hr, hn⟩
    exact ⟨s, ⟨e, he, hr⟩, hn⟩

/-- the destination-array names an equation needs: a `d_*` argument of one of
the five methods, or a `d_*` array in the code block of a reachable
precomputed symbol -/
def NeedsDst (t : Table) (e : Eqn) (n : Name) : Prop :=
  isDstArr n = true ∧ (n ∈ e.allArgs ∨ ∃ s, Reach t e.loopArgs s ∧ n ∈ t.syms s)

/-- the same for the `s_*` names, needed of every source -/
def NeedsSrc (t : Table) (e : Eqn) (n : Name) : Prop :=
  isSrcArr n = true ∧ (n ∈ e.allArgs ∨ ∃ s, Reach t e.loopArgs s ∧ n ∈ t.syms s)

theorem mem_groupDstNames (t : Table) (eqs : List Eqn) (n : Name) :
    n ∈ groupDstNames t eqs ↔ ∃ e ∈ eqs, NeedsDst t e n := by
  simp only [groupDstNames, List.mem_append, List.mem_filter, List.mem_flatMap, mem_preSyms,
    NeedsDst]
  constructor
  · rintro (⟨⟨e, he, hn⟩, hd⟩ | ⟨⟨e, he, s, hr, hn⟩, hd⟩)
    · exact ⟨e, he, hd, Or.inl hn⟩
    · exact ⟨e, he, hd, Or.inr ⟨s, hr, hn⟩⟩
  · rintro ⟨e, he, hd, (hn | ⟨s, hr, hn⟩)⟩
    · exact Or.inl ⟨⟨e, he, hn⟩, hd⟩
    · exact Or.inr ⟨⟨e, he, s, hr, hn⟩, hd⟩

theorem mem_groupSrcNames (t : Table) (eqs : List Eqn) (n : Name) :
    n ∈ groupSrcNames t eqs ↔ ∃ e ∈ eqs, NeedsSrc t e n := by
  simp only [groupSrcNames, List.mem_append, List.mem_filter, List.mem_flatMap, mem_preSyms,
    NeedsSrc]
  constructor
  · rintro (⟨⟨e, he, hn⟩, hd⟩ | ⟨⟨e, he, s, hr, hn⟩, hd⟩)
    · exact ⟨e, he, hd, Or.inl hn⟩
    · exact ⟨e, he, hd, Or.inr ⟨s, hr, hn⟩⟩
  · rintro ⟨e, he, hd, (hn | ⟨s, hr, hn⟩)⟩
    · exact Or.inl ⟨⟨e, he, hn⟩, hd⟩
    · exact Or.inr ⟨⟨e, he, s, hr, hn⟩, hd⟩

theorem mem_groupNeeds_dst (t : Table) (e : Eqn) (n : Name) :
    n ∈ (groupNeeds t e).2 ↔ NeedsDst t e n := by
  simp [groupNeeds, mem_groupDstNames]

theorem mem_groupNeeds_src (t : Table) (e : Eqn) (n : Name) :
    n ∈ (groupNeeds t e).1 ↔ NeedsSrc t e n := by
  simp [groupNeeds, mem_groupSrcNames]

/-! ## sorting -/

theorem mem_insertSorted (x a : Name) (l : List Name) :
    a ∈ insertSorted x l ↔ a = x ∨ a ∈ l := by
  induction l with
  | nil => simp [insertSorted]
  | cons y ys ih =>
    simp only [insertSorted]
    split
    · simp
    · simp only [List.mem_cons, ih]
      constructor
      · rintro (h | h | h)
        · exact Or.inr (Or.inl h)
        · exact Or.inl h
        · exact Or.inr (Or.inr h)
      · rintro (h | h | h)
        · exact Or.inr (Or.inl h)
        · exact Or.inl h
        · exact Or.inr (Or.inr h)

theorem mem_sortNames (a : Name) (l : List Name) : a ∈ sortNames l ↔ a ∈ l := by
  induction l with
  | nil => simp [sortNames]
  | cons y ys ih =>
    simp only [sortNames, List.foldr_cons] at ih ⊢
    rw [mem_insertSorted, ih]
    simp

/-! ## arrays -/

theorem findArr_name {arrs : List PArr} {n : Name} {a : PArr} (h : findArr arrs n = some a) :
    a.name = n ∧ a ∈ arrs := by
  unfold findArr at h
  have h1 := List.find?_some h
  have h2 := List.mem_of_find?_eq_some h
  exact ⟨by simpa using h1, by simpa using h2⟩

theorem subset_iff (a b : List Name) : subset a b = true ↔ ∀ x ∈ a, x ∈ b := by
  simp [subset]

theorem checkArray_none {a : PArr} {need : List Name} (h : checkArray a need = none) :
    ∀ x ∈ need, x ∈ a.props := by
  unfold checkArray at h
  split at h
  · rename_i hs
    simp only [strictSubset, Bool.and_eq_true] at hs
    exact (subset_iff _ _).mp hs.1
  · cases h

theorem checkArray_some {a : PArr} {need : List Name} {err : Name × List Name}
    (h : checkArray a need = some err) :
    err.1 = a.name ∧ (∀ x, x ∈ err.2 ↔ x ∈ need ∧ x ∉ a.props) ∧
    ((∃ x ∈ need, x ∉ a.props) ∨ ∀ x ∈ a.props, x ∈ need) := by
  unfold checkArray at h
  split at h
  · cases h
  · rename_i hs
    cases h
    refine ⟨rfl, ?_, ?_⟩
    · intro x; simp
    · simp only [strictSubset, Bool.and_eq_true, Bool.not_eq_true', not_and,
        Bool.not_eq_false] at hs
      by_cases h1 : subset need a.props = true
      · right; exact (subset_iff _ _).mp (hs h1)
      · left
        have : ¬ ∀ x ∈ need, x ∈ a.props := fun h => h1 ((subset_iff _ _).mpr h)
        simpa using this

/-! ## first error -/

theorem firstError_ok (f : Eqn → Verdict) (es : List Eqn) :
    firstError f es = Verdict.ok ↔ ∀ e ∈ es, f e = Verdict.ok := by
  induction es with
  | nil => simp [firstError]
  | cons e es ih =>
    simp only [firstError, List.mem_cons, forall_eq_or_imp]
    cases h : f e <;> simp [ih]

/-- a reported error is the verdict of the first equation that fails -/
theorem firstError_err (f : Eqn → Verdict) (es : List Eqn) (v : Verdict)
    (h : firstError f es = v) (hv : v ≠ Verdict.ok) :
    ∃ pre e post, es = pre ++ e :: post ∧ (∀ x ∈ pre, f x = Verdict.ok) ∧ f e = v := by
  induction es with
  | nil => simp [firstError] at h; exact absurd h.symm hv
  | cons e es ih =>
    simp only [firstError] at h
    cases hfe : f e with
    | ok =>
      rw [hfe] at h
      obtain ⟨pre, e', post, h1, h2, h3⟩ := ih h
      refine ⟨e :: pre, e', post, by simp [h1], ?_, h3⟩
      intro x hx
      rcases List.mem_cons.mp hx with rfl | hx
      · exact hfe
      · exact h2 x hx
    | invalidDest a b =>
      rw [hfe] at h
      exact ⟨[], e, es, rfl, by simp, by rw [hfe]; exact h⟩
    | invalidSource a b =>
      rw [hfe] at h
      exact ⟨[], e, es, rfl, by simp, by rw [hfe]; exact h⟩
    | missing a b =>
      rw [hfe] at h
      exact ⟨[], e, es, rfl, by simp, by rw [hfe]; exact h⟩

theorem firstSError_ok {α : Type} (f : α → SVerdict) (l : List α) :
    firstSError f l = SVerdict.ok ↔ ∀ x ∈ l, f x = SVerdict.ok := by
  induction l with
  | nil => simp [firstSError]
  | cons x xs ih =>
    simp only [firstSError, List.mem_cons, forall_eq_or_imp]
    cases h : f x <;> simp [ih]

theorem firstSError_err {α : Type} (f : α → SVerdict) (l : List α) (v : SVerdict)
    (h : firstSError f l = v) (hv : v ≠ SVerdict.ok) : ∃ x ∈ l, f x = v := by
  induction l with
  | nil => simp [firstSError] at h; exact absurd h.symm hv
  | cons x xs ih =>
    simp only [firstSError] at h
    cases hfx : f x with
    | ok =>
      rw [hfx] at h
      obtain ⟨y, hy, hfy⟩ := ih h
      exact ⟨y, List.mem_cons_of_mem _ hy, hfy⟩
    | invalidStepper a =>
      rw [hfx] at h
      exact ⟨x, List.mem_cons_self, by rw [hfx]; exact h⟩
    | missing a b c =>
      rw [hfx] at h
      exact ⟨x, List.mem_cons_self, by rw [hfx]; exact h⟩

/-! ## inversion of `check_equation_array_properties` -/

theorem checkEquationWith_ok {needs : Eqn → List Name × List Name} {arrs : List PArr} {e : Eqn}
    (h : checkEquationWith needs arrs e = Verdict.ok) :
    ∃ d, findArr arrs e.dest = some d ∧ (∀ n ∈ (needs e).2, strip n ∈ d.props) ∧
      ∀ s ∈ e.sources.getD [], ∃ a, findArr arrs s = some a ∧
        ∀ n ∈ (needs e).1, strip n ∈ a.props := by
  unfold checkEquationWith at h
  cases hd : findArr arrs e.dest with
  | none => rw [hd] at h; cases h
  | some d =>
    rw [hd] at h
    simp only at h
    refine ⟨d, rfl, ?_⟩
    cases hs : e.sources with
    | none =>
      rw [hs] at h
      simp only at h
      cases hc : checkArray d ((needs e).2.map strip) with
      | none =>
        refine ⟨?_, by simp⟩
        intro n hn
        exact checkArray_none hc _ (List.mem_map.mpr ⟨n, hn, rfl⟩)
      | some err => rw [hc] at h; cases h
    | some srcs =>
      rw [hs] at h
      simp only at h
      cases hf : srcs.find? (fun s => (findArr arrs s).isNone) with
      | some s => rw [hf] at h; cases h
      | none =>
        rw [hf] at h
        simp only at h
        split at h
        · rename_i hemp
          simp only [List.isEmpty_iff, List.append_eq_nil_iff, List.filterMap_eq_nil_iff] at hemp
          obtain ⟨h1, h2⟩ := hemp
          have hc : checkArray d ((needs e).2.map strip) = none := by
            cases hcc : checkArray d ((needs e).2.map strip) with
            | none => rfl
            | some x => rw [hcc] at h1; simp at h1
          refine ⟨?_, ?_⟩
          · intro n hn
            exact checkArray_none hc _ (List.mem_map.mpr ⟨n, hn, rfl⟩)
          · intro s hsm
            simp only [Option.getD_some] at hsm
            have hnone := List.find?_eq_none.mp hf s hsm
            cases ha : findArr arrs s with
            | none => rw [ha] at hnone; simp at hnone
            | some a =>
              refine ⟨a, rfl, ?_⟩
              have := h2 s hsm
              simp only [checkSrc, ha] at this
              intro n hn
              exact checkArray_none this _ (List.mem_map.mpr ⟨n, hn, rfl⟩)
        · cases h

theorem checkEquationWith_invalidDest {needs : Eqn → List Name × List Name} {arrs : List PArr}
    {e : Eqn} {n d : Name} (h : checkEquationWith needs arrs e = Verdict.invalidDest n d) :
    n = e.name ∧ d = e.dest ∧ findArr arrs e.dest = none := by
  unfold checkEquationWith at h
  cases hd : findArr arrs e.dest with
  | none =>
    rw [hd] at h
    simp only [Verdict.invalidDest.injEq] at h
    exact ⟨h.1.symm, h.2.symm, rfl⟩
  | some a =>
    rw [hd] at h
    simp only at h
    split at h
    · split at h <;> cases h
    · split at h
      · cases h
      · split at h <;> cases h

theorem checkEquationWith_invalidSource {needs : Eqn → List Name × List Name} {arrs : List PArr}
    {e : Eqn} {n s : Name} (h : checkEquationWith needs arrs e = Verdict.invalidSource n s) :
    n = e.name ∧ (∃ d, findArr arrs e.dest = some d) ∧
    ∃ srcs, e.sources = some srcs ∧ s ∈ srcs ∧ findArr arrs s = none := by
  unfold checkEquationWith at h
  cases hd : findArr arrs e.dest with
  | none => rw [hd] at h; cases h
  | some a =>
    rw [hd] at h
    simp only at h
    split at h
    · split at h <;> cases h
    · rename_i srcs hs
      split at h
      · rename_i s' hf
        simp only [Verdict.invalidSource.injEq] at h
        refine ⟨h.1.symm, ⟨a, rfl⟩, srcs, hs, ?_, ?_⟩
        · rw [← h.2]; exact List.mem_of_find?_eq_some hf
        · have := List.find?_some hf
          rw [← h.2]
          simpa using this
      · split at h <;> cases h

/-- the content of a "missing properties" error -/
theorem checkEquationWith_missing {needs : Eqn → List Name × List Name} {arrs : List PArr}
    {e : Eqn} {n : Name} {errs : List (Name × List Name)}
    (h : checkEquationWith needs arrs e = Verdict.missing n errs) :
    n = e.name ∧ errs ≠ [] ∧ ∃ d, findArr arrs e.dest = some d ∧
    (∀ s ∈ e.sources.getD [], ∃ a, findArr arrs s = some a) ∧
    -- every entry is about the destination or a source, and lists exactly the
    -- needed names that array lacks
    (∀ err ∈ errs,
      (err.1 = e.dest ∧ (∀ x, x ∈ err.2 ↔ x ∈ (needs e).2.map strip ∧ x ∉ d.props) ∧
        ((∃ x ∈ (needs e).2.map strip, x ∉ d.props) ∨ ∀ x ∈ d.props, x ∈ (needs e).2.map strip)) ∨
      (∃ s ∈ e.sources.getD [], ∃ a, findArr arrs s = some a ∧ err.1 = s ∧
        (∀ x, x ∈ err.2 ↔ x ∈ (needs e).1.map strip ∧ x ∉ a.props) ∧
        ((∃ x ∈ (needs e).1.map strip, x ∉ a.props) ∨
          ∀ x ∈ a.props, x ∈ (needs e).1.map strip))) ∧
    -- and nothing that is missing is left out
    (∀ x ∈ (needs e).2.map strip, x ∉ d.props → ∃ err ∈ errs, err.1 = e.dest ∧ x ∈ err.2) ∧
    (∀ s ∈ e.sources.getD [], ∀ a, findArr arrs s = some a →
      ∀ x ∈ (needs e).1.map strip, x ∉ a.props → ∃ err ∈ errs, err.1 = s ∧ x ∈ err.2) := by
  unfold checkEquationWith at h
  cases hd : findArr arrs e.dest with
  | none => rw [hd] at h; cases h
  | some d =>
    have hdn := (findArr_name hd).1
    rw [hd] at h
    simp only at h
    cases hs : e.sources with
    | none =>
      rw [hs] at h
      simp only at h
      cases hc : checkArray d ((needs e).2.map strip) with
      | none => rw [hc] at h; cases h
      | some err =>
        rw [hc] at h
        simp only [Verdict.missing.injEq] at h
        obtain ⟨hn, herrs⟩ := h
        obtain ⟨c1, c2, c3⟩ := checkArray_some hc
        subst herrs
        refine ⟨hn.symm, by simp, d, rfl, by simp, ?_, ?_, by simp⟩
        · intro err' he'
          simp only [List.mem_singleton] at he'
          subst he'
          left
          exact ⟨by rw [c1, hdn], c2, c3⟩
        · intro x hx hxd
          exact ⟨err, by simp, by rw [c1, hdn], (c2 x).mpr ⟨hx, hxd⟩⟩
    | some srcs =>
      rw [hs] at h
      simp only at h
      cases hf : srcs.find? (fun s => (findArr arrs s).isNone) with
      | some s => rw [hf] at h; cases h
      | none =>
        rw [hf] at h
        simp only at h
        have hall : ∀ s ∈ srcs, ∃ a, findArr arrs s = some a := by
          intro s hsm
          have hnone := List.find?_eq_none.mp hf s hsm
          cases ha : findArr arrs s with
          | none => rw [ha] at hnone; simp at hnone
          | some a => exact ⟨a, rfl⟩
        split at h
        · cases h
        · rename_i hne
          simp only [Verdict.missing.injEq] at h
          obtain ⟨hn, herrs⟩ := h
          subst herrs
          refine ⟨hn.symm, ?_, d, rfl, ?_, ?_, ?_, ?_⟩
          · intro h0; exact hne (by simp [h0])
          · simpa using hall
          · intro err he
            rcases List.mem_append.mp he with he | he
            · left
              have hc : checkArray d ((needs e).2.map strip) = some err := by
                cases hcc : checkArray d ((needs e).2.map strip) with
                | none => rw [hcc] at he; simp at he
                | some x => rw [hcc] at he; simp at he; rw [he]
              obtain ⟨c1, c2, c3⟩ := checkArray_some hc
              exact ⟨by rw [c1, hdn], c2, c3⟩
            · right
              obtain ⟨s, hsm, hcs⟩ := List.mem_filterMap.mp he
              obtain ⟨a, ha⟩ := hall s hsm
              simp only [checkSrc, ha] at hcs
              obtain ⟨c1, c2, c3⟩ := checkArray_some hcs
              exact ⟨s, by simpa using hsm, a, ha, by rw [c1, (findArr_name ha).1], c2, c3⟩
          · intro x hx hxd
            cases hcc : checkArray d ((needs e).2.map strip) with
            | none => exact absurd (checkArray_none hcc x hx) hxd
            | some err =>
              obtain ⟨c1, c2, _⟩ := checkArray_some hcc
              exact ⟨err, List.mem_append.mpr (Or.inl (by simp)), by rw [c1, hdn],
                (c2 x).mpr ⟨hx, hxd⟩⟩
          · intro s hsm a ha x hx hxa
            simp only [Option.getD_some] at hsm
            cases hcc : checkArray a ((needs e).1.map strip) with
            | none => exact absurd (checkArray_none hcc x hx) hxa
            | some err =>
              obtain ⟨c1, c2, _⟩ := checkArray_some hcc
              refine ⟨err, List.mem_append.mpr (Or.inr ?_), by rw [c1, (findArr_name ha).1],
                (c2 x).mpr ⟨hx, hxa⟩⟩
              exact List.mem_filterMap.mpr ⟨s, hsm, by simp only [checkSrc, ha]; exact hcc⟩

end PysphVerif.Needs
