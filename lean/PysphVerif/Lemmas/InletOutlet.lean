import PysphVerif.Model.InletOutlet
/-!
Helper lemmas for C16 (core Lean only): what `np.where` + `copy_values`,
`np.where` + fancy-index update, and `np.where` + swap-remove compute, and that
`align_particles` is a permutation.
-/
namespace PysphVerif.InletOutlet
open List

section generic
variable {β : Type}

/-! ### `np.where` -/

theorem whereFrom_bounds (pred : β → Bool) (v : List β) (k : Nat) :
    ∀ i ∈ whereFrom pred k v, k ≤ i ∧ i < k + v.length := by
  induction v generalizing k with
  | nil => intro i hi; simp [whereFrom] at hi
  | cons a v ih =>
    intro i hi
    simp only [whereFrom] at hi
    split at hi
    · rcases List.mem_cons.mp hi with h | h
      · subst h; simp
      · have := ih (k + 1) i h; simp only [List.length_cons]; omega
    · have := ih (k + 1) i hi; simp only [List.length_cons]; omega

theorem whereFrom_sorted (pred : β → Bool) (v : List β) (k : Nat) :
    (whereFrom pred k v).Pairwise (· < ·) := by
  induction v generalizing k with
  | nil => simp [whereFrom]
  | cons a v ih =>
    simp only [whereFrom]
    split
    · refine List.pairwise_cons.mpr ⟨?_, ih (k + 1)⟩
      intro j hj
      have := whereFrom_bounds pred v (k + 1) j hj
      omega
    · exact ih (k + 1)

theorem whereFrom_length (pred : β → Bool) (v : List β) (k : Nat) :
    (whereFrom pred k v).length = (v.filter pred).length := by
  induction v generalizing k with
  | nil => simp [whereFrom]
  | cons a v ih =>
    simp only [whereFrom, List.filter_cons]
    split <;> simp [ih (k + 1)]

/-- `copy_values` of the `np.where` indices picks exactly the rows satisfying
the condition, in order -/
theorem gather_whereFrom (pred : β → Bool) (pre v post : List β) :
    gather (whereFrom pred pre.length v) (pre ++ v ++ post) = v.filter pred := by
  induction v generalizing pre with
  | nil => simp [whereFrom, gather]
  | cons a v ih =>
    have e : pre ++ a :: v ++ post = (pre ++ [a]) ++ v ++ post := by simp
    have ih' := ih (pre ++ [a])
    simp only [List.length_append, List.length_singleton] at ih'
    simp only [whereFrom, List.filter_cons]
    split
    · simp only [gather, List.filterMap_cons]
      have : (pre ++ a :: v ++ post)[pre.length]? = some a := by
        simp
      rw [this]
      simp only
      rw [e]
      exact congrArg (a :: ·) ih'
    · rw [e]; exact ih'

theorem modify_append_cons {γ : Type} (pre post : List γ) (b : γ) (f : γ → γ) :
    (pre ++ b :: post).modify pre.length f = pre ++ f b :: post := by
  induction pre with
  | nil => simp
  | cons a pre ih => simp [ih]

/-- the fancy-index update `arr[idx] op= c` with `idx = np.where(cond(v))`
applied to an array `gv` of the same length: row `i` changes iff `cond(v[i])` -/
theorem foldl_modify_whereFrom {γ : Type} (pred : β → Bool) (f : γ → γ) (v : List β)
    (pre gv post : List γ) (h : v.length = gv.length) :
    (whereFrom pred pre.length v).foldl (fun acc i => acc.modify i f) (pre ++ gv ++ post)
      = pre ++ List.zipWith (fun p q => if pred p then f q else q) v gv ++ post := by
  induction v generalizing pre gv with
  | nil =>
    cases gv with
    | nil => simp [whereFrom]
    | cons b gv => simp at h
  | cons a v ih =>
    cases gv with
    | nil => simp at h
    | cons b gv =>
      simp only [List.length_cons, Nat.add_right_cancel_iff] at h
      simp only [whereFrom, List.zipWith_cons_cons]
      split
      · rename_i hp
        simp only [List.foldl_cons]
        have e1 : (pre ++ b :: gv ++ post).modify pre.length f = (pre ++ [f b]) ++ gv ++ post := by
          have := modify_append_cons pre (gv ++ post) b f
          simpa using this
        rw [e1]
        have ih' := ih (pre ++ [f b]) gv h
        simp only [List.length_append, List.length_singleton] at ih'
        rw [ih']; simp
      · rename_i hp
        have e1 : pre ++ b :: gv ++ post = (pre ++ [b]) ++ gv ++ post := by simp
        rw [e1]
        have ih' := ih (pre ++ [b]) gv h
        simp only [List.length_append, List.length_singleton] at ih'
        rw [ih']; simp

/-! ### swap-remove -/

theorem swapRemove_eq (l : List β) (i : Nat) (h : i < l.length) (hne : l ≠ []) :
    swapRemove l i = (l.set i (l.getLast hne)).dropLast := by
  unfold swapRemove
  rw [if_pos h, List.getLast?_eq_some_getLast hne]

theorem ne_nil_of_lt_length {l : List β} {i : Nat} (h : i < l.length) : l ≠ [] := by
  intro e; subst e; simp at h

theorem swapRemove_length (l : List β) (i : Nat) (h : i < l.length) :
    (swapRemove l i).length = l.length - 1 := by
  rw [swapRemove_eq l i h (ne_nil_of_lt_length h)]; simp

theorem swapRemove_getElem?_lt (l : List β) (i j : Nat) (h : i < l.length) (hj : j < i) :
    (swapRemove l i)[j]? = l[j]? := by
  rw [swapRemove_eq l i h (ne_nil_of_lt_length h)]
  simp only [List.dropLast_eq_take, List.length_set]
  rw [List.getElem?_take_of_lt (by omega), List.getElem?_set]
  have : i ≠ j := by omega
  simp [this]

/-- removing one row: the array is, up to order, the removed row plus the rest -/
theorem swapRemove_perm (l : List β) (i : Nat) (h : i < l.length) :
    (swapRemove l i ++ [l[i]]).Perm l := by
  have hne := ne_nil_of_lt_length h
  rw [swapRemove_eq l i h hne]
  generalize hlast : l.getLast hne = last
  have hsplit : l = l.dropLast ++ [last] := by
    rw [← hlast]; exact (List.dropLast_concat_getLast hne).symm
  generalize l.dropLast = init at hsplit
  subst hsplit
  simp only [List.length_append, List.length_singleton] at h
  by_cases hi : i < init.length
  · have e1 : (init ++ [last]).set i last = init.set i last ++ [last] := by
      rw [List.set_append_left _ _ hi]
    have e2 : (init ++ [last])[i] = init[i] := by
      rw [List.getElem_append_left hi]
    rw [e1, e2, List.dropLast_concat]
    have h1 : init = init.take i ++ init[i] :: init.drop (i + 1) := by simp
    have h2 : init.set i last = init.take i ++ last :: init.drop (i + 1) := by
      rw [List.set_eq_take_append_cons_drop]; simp [hi]
    rw [h2]
    conv => rhs; rw [h1]
    simp only [List.append_assoc, List.cons_append]
    refine List.Perm.append_left _ ?_
    -- last :: (D ++ [x]) ~ x :: (D ++ [last])
    have p1 : (last :: (init.drop (i + 1) ++ [init[i]])).Perm
        (init[i] :: last :: init.drop (i + 1)) := by
      refine (List.Perm.cons _ List.perm_append_comm).trans ?_
      exact List.Perm.swap _ _ _
    have p2 : (init[i] :: (init.drop (i + 1) ++ [last])).Perm
        (init[i] :: last :: init.drop (i + 1)) :=
      List.Perm.cons _ List.perm_append_comm
    exact p1.trans p2.symm
  · have hi' : i = init.length := by omega
    subst hi'
    have e1 : (init ++ [last]).set init.length last = init ++ [last] := by
      rw [List.set_append_right _ _ (Nat.le_refl _)]; simp
    have e2 : (init ++ [last])[init.length] = last := by simp
    rw [e1, e2, List.dropLast_concat]

theorem filterMap_congr' {γ δ : Type} (f g : γ → Option δ) (l : List γ)
    (h : ∀ x ∈ l, f x = g x) : l.filterMap f = l.filterMap g := by
  induction l with
  | nil => rfl
  | cons a l ih =>
    simp only [List.filterMap_cons, h a (by simp)]
    rw [ih (fun x hx => h x (by simp [hx]))]

theorem foldl_swapRemove_perm (ridx : List Nat) (l : List β)
    (hs : ridx.Pairwise (· > ·)) (hb : ∀ i ∈ ridx, i < l.length) :
    (ridx.foldl swapRemove l ++ gather ridx l).Perm l := by
  induction ridx generalizing l with
  | nil => simp [gather]
  | cons i rest ih =>
    have hi : i < l.length := hb i (by simp)
    have hs' : rest.Pairwise (· > ·) := (List.pairwise_cons.mp hs).2
    have hlt : ∀ j ∈ rest, j < i := fun j hj => (List.pairwise_cons.mp hs).1 j hj
    have hb' : ∀ j ∈ rest, j < (swapRemove l i).length := by
      intro j hj
      rw [swapRemove_length l i hi]
      have := hlt j hj; omega
    have e2 : gather rest (swapRemove l i) = gather rest l := by
      unfold gather
      apply filterMap_congr'
      intro j hj
      exact swapRemove_getElem?_lt l i j hi (hlt j hj)
    have e3 : gather (i :: rest) l = l[i] :: gather rest l := by
      simp [gather, List.getElem?_eq_getElem hi]
    have ih' := ih (swapRemove l i) hs' hb'
    rw [e2] at ih'
    rw [List.foldl_cons, e3]
    refine List.perm_middle.trans ?_
    refine (List.Perm.cons _ ih').trans ?_
    exact (List.perm_append_comm (l₁ := [l[i]])).trans (swapRemove_perm l i hi)

/-- `remove_particles` on an ascending, in-range index list: what is left plus
the removed rows is the old array -/
theorem removeRows_perm (idx : List Nat) (l : List β)
    (hs : idx.Pairwise (· < ·)) (hb : ∀ i ∈ idx, i < l.length) :
    (removeRows idx l ++ gather idx l).Perm l := by
  have h1 := foldl_swapRemove_perm idx.reverse l
    (by simpa [List.pairwise_reverse] using hs) (by simpa using hb)
  have h2 : (gather idx.reverse l).Perm (gather idx l) :=
    List.Perm.filterMap _ (List.reverse_perm idx)
  exact (List.Perm.append_left _ h2.symm).trans h1

/-! ### `align_particles` -/

theorem set_append_perm (l : List β) (i : Nat) (a : β) (hi : i < l.length) :
    (l.set i a ++ [l[i]]).Perm (l ++ [a]) := by
  have h1 : l = l.take i ++ l[i] :: l.drop (i + 1) := by simp
  have h2 : l.set i a = l.take i ++ a :: l.drop (i + 1) := by
    rw [List.set_eq_take_append_cons_drop]; simp [hi]
  rw [h2]
  conv => rhs; rw [h1]
  simp only [List.append_assoc, List.cons_append]
  refine List.Perm.append_left _ ?_
  have p1 : (a :: (l.drop (i + 1) ++ [l[i]])).Perm (l[i] :: a :: l.drop (i + 1)) :=
    (List.Perm.cons _ List.perm_append_comm).trans (List.Perm.swap _ _ _)
  have p2 : (l[i] :: (l.drop (i + 1) ++ [a])).Perm (l[i] :: a :: l.drop (i + 1)) :=
    List.Perm.cons _ List.perm_append_comm
  exact p1.trans p2.symm

/-- invariant of the index-building loop of `align_particles` after `k` rows of
the flag list `L`: the index array is a permutation of `0..k-1`, its first
`next` entries point at Local rows, the others at non-Local rows, `next` counts
the Local rows seen, and without any move the index array is the identity -/
def AInv (L : List Bool) (k : Nat) (st : List Nat × Nat × Nat) : Prop :=
  st.1.length = k ∧ st.2.1 ≤ k ∧ st.1.Perm (List.range k) ∧
  (∀ j, j < st.2.1 → ∃ v, st.1[j]? = some v ∧ L[v]? = some true) ∧
  (∀ j, st.2.1 ≤ j → j < k → ∃ v, st.1[j]? = some v ∧ L[v]? = some false) ∧
  st.2.1 = ((L.take k).filter id).length ∧
  (st.2.2 = 0 → st.1 = List.range k)

theorem AInv_step (L : List Bool) (k : Nat) (st : List Nat × Nat × Nat) (b : Bool)
    (h : AInv L k st) (hb : L[k]? = some b) : AInv L (k + 1) (alignStep st (k, b)) := by
  obtain ⟨idx, next, moves⟩ := st
  obtain ⟨hlen, hle, hperm, hloc, hnon, hcnt, hid⟩ := h
  simp only at hlen hle hperm hloc hnon hcnt hid
  have htake : L.take (k + 1) = L.take k ++ [b] := by
    rw [List.take_add_one, hb]; rfl
  unfold alignStep
  cases b with
  | false =>
    simp only [Bool.false_eq_true, if_false]
    unfold AInv; dsimp only
    refine ⟨by simp [hlen], by omega, ?_, ?_, ?_, ?_, ?_⟩
    · rw [List.range_succ]; exact List.Perm.append_right _ hperm
    · intro j hj
      obtain ⟨v, hv, hl⟩ := hloc j hj
      exact ⟨v, by rw [List.getElem?_append_left (by omega)]; exact hv, hl⟩
    · intro j hj1 hj2
      by_cases hjk : j < k
      · obtain ⟨v, hv, hl⟩ := hnon j hj1 hjk
        exact ⟨v, by rw [List.getElem?_append_left (by omega)]; exact hv, hl⟩
      · have : j = k := by omega
        subst this
        exact ⟨j, by rw [← hlen]; simp, hb⟩
    · rw [htake]; simp [hcnt]
    · intro hm; rw [hid hm, List.range_succ]
  | true =>
    simp only [if_true]
    by_cases hk : k = next
    · subst hk
      simp only [bne_self_eq_false, Bool.false_eq_true, if_false]
      unfold AInv; dsimp only
      refine ⟨by simp [hlen], by omega, ?_, ?_, ?_, ?_, ?_⟩
      · rw [List.range_succ]; exact List.Perm.append_right _ hperm
      · intro j hj
        by_cases hjk : j < k
        · obtain ⟨v, hv, hl⟩ := hloc j hjk
          exact ⟨v, by rw [List.getElem?_append_left (by omega)]; exact hv, hl⟩
        · have : j = k := by omega
          subst this
          exact ⟨j, by rw [← hlen]; simp, hb⟩
      · intro j hj1 hj2; omega
      · rw [htake]; simp [← hcnt]
      · intro hm; rw [hid hm, List.range_succ]
    · have hne : (k != next) = true := by simp [hk]
      simp only [hne, if_true]
      have hnk : next < k := by omega
      have hni : next < idx.length := by omega
      obtain ⟨v0, hv0, hl0⟩ := hnon next (Nat.le_refl _) hnk
      have hv0' : idx[next] = v0 := by
        have := List.getElem?_eq_getElem hni
        rw [this] at hv0; exact Option.some.inj hv0
      have hgetD : idx.getD next 0 = v0 := by
        rw [List.getD_eq_getElem?_getD, hv0]; rfl
      rw [hgetD]
      unfold AInv; dsimp only
      refine ⟨by simp [hlen], by omega, ?_, ?_, ?_, ?_, ?_⟩
      · rw [List.range_succ, ← hv0']
        exact (set_append_perm idx next k hni).trans (List.Perm.append_right _ hperm)
      · intro j hj
        by_cases hjn : j < next
        · obtain ⟨v, hv, hl⟩ := hloc j hjn
          refine ⟨v, ?_, hl⟩
          rw [List.getElem?_append_left (by simp; omega), List.getElem?_set]
          have : next ≠ j := by omega
          simp [this, hv]
        · have : j = next := by omega
          subst this
          refine ⟨k, ?_, hb⟩
          rw [List.getElem?_append_left (by simp; omega), List.getElem?_set]
          simp [hni]
      · intro j hj1 hj2
        by_cases hjk : j < k
        · obtain ⟨v, hv, hl⟩ := hnon j (by omega) hjk
          refine ⟨v, ?_, hl⟩
          rw [List.getElem?_append_left (by simp; omega), List.getElem?_set]
          have : next ≠ j := by omega
          simp [this, hv]
        · have : j = k := by omega
          subst this
          refine ⟨v0, ?_, hl0⟩
          have : (idx.set next j).length = j := by simp [hlen]
          rw [List.getElem?_append_right (by omega)]
          simp [this]
      · rw [htake]; simp [← hcnt]
      · intro hm; simp at hm

theorem AInv_fold (L : List Bool) (ls : List Bool) (k : Nat) (st : List Nat × Nat × Nat)
    (h : AInv L k st) (hl : ∀ j, j < ls.length → L[k + j]? = ls[j]?) :
    AInv L (k + ls.length) ((List.zip (List.range' k ls.length) ls).foldl alignStep st) := by
  induction ls generalizing k st with
  | nil => simpa using h
  | cons b ls ih =>
    simp only [List.length_cons, List.range'_succ, List.zip_cons_cons, List.foldl_cons]
    have hb : L[k]? = some b := by simpa using hl 0 (by simp)
    have h' := AInv_step L k st b h hb
    have := ih (k + 1) _ h' (by
      intro j hj
      have := hl (j + 1) (by simp; omega)
      simpa [Nat.add_assoc, Nat.add_comm 1 j] using this)
    simpa [Nat.add_assoc, Nat.add_comm 1 ls.length] using this

theorem AInv_alignIndex (L : List Bool) : AInv L L.length (alignIndex L) := by
  unfold alignIndex
  rw [List.range_eq_range']
  have := AInv_fold L L 0 ([], 0, 0)
    ⟨rfl, Nat.le_refl _, by simp, by intro j hj; exact absurd hj (Nat.not_lt_zero _),
     by intro j h1 h2; exact absurd h2 (Nat.not_lt_zero _), by simp, by intro _; rfl⟩ (by intro j hj; simp)
  simpa using this

theorem filterMap_range_getElem? (l : List β) (n : Nat) (h : n ≤ l.length) :
    (List.range n).filterMap (fun i => l[i]?) = l.take n := by
  induction n with
  | zero => simp
  | succ n ih =>
    rw [List.range_succ, List.filterMap_append, ih (by omega), List.take_add_one]
    simp [List.getElem?_eq_getElem (show n < l.length by omega)]

/-- gathering through a permutation of `0..n-1` permutes the rows -/
theorem gather_perm_of_perm_range (idx : List Nat) (l : List β)
    (h : idx.Perm (List.range l.length)) : (gather idx l).Perm l := by
  have h1 : (gather idx l).Perm ((List.range l.length).filterMap (fun i => l[i]?)) :=
    List.Perm.filterMap _ h
  rw [filterMap_range_getElem? l l.length (Nat.le_refl _), List.take_length] at h1
  exact h1

theorem gather_getElem? (idx : List Nat) (l : List β) (h : ∀ v ∈ idx, v < l.length) (j : Nat) :
    (gather idx l)[j]? = idx[j]?.bind (fun i => l[i]?) := by
  induction idx generalizing j with
  | nil => simp [gather]
  | cons v idx ih =>
    have hv : v < l.length := h v (by simp)
    have ih' := ih (fun w hw => h w (by simp [hw]))
    simp only [gather, List.filterMap_cons, List.getElem?_eq_getElem hv] at ih' ⊢
    cases j with
    | zero => simp [List.getElem?_eq_getElem hv]
    | succ j => simpa using ih' j

end generic

/-! ## particles -/
section particles
variable {α : Type}

theorem align_eq_gather (l : List (Particle α)) :
    align l = gather (alignIndex (l.map isLocal)).1 l := by
  unfold align
  split
  · rfl
  · rename_i hm
    have hinv := AInv_alignIndex (l.map isLocal)
    have h0 : (alignIndex (l.map isLocal)).2.2 = 0 := by omega
    have := hinv.2.2.2.2.2.2 h0
    rw [this, List.length_map]
    unfold gather
    rw [filterMap_range_getElem? l l.length (Nat.le_refl _), List.take_length]

/-- `align_particles` only permutes the particles -/
theorem align_perm (l : List (Particle α)) : (align l).Perm l := by
  rw [align_eq_gather]
  apply gather_perm_of_perm_range
  have := (AInv_alignIndex (l.map isLocal)).2.2.1
  simpa using this

theorem nReal_perm {l l' : List (Particle α)} (h : l.Perm l') : nReal l = nReal l' :=
  (List.Perm.filter isLocal h).length_eq

theorem map_isLocal_getElem? (l : List (Particle α)) (v : Nat) (b : Bool)
    (h : (l.map isLocal)[v]? = some b) : ∃ p, l[v]? = some p ∧ isLocal p = b := by
  rw [List.getElem?_map] at h
  cases hp : l[v]? with
  | none => rw [hp] at h; simp at h
  | some p => rw [hp] at h; exact ⟨p, rfl, by simpa using h⟩

/-- after `align_particles` the first `num_real_particles` slots hold Local
particles, the other slots non-Local ones -/
theorem align_real_first (l : List (Particle α)) (j : Nat) (p : Particle α)
    (h : (align l)[j]? = some p) : (j < nReal l → isLocal p = true) ∧
      (nReal l ≤ j → isLocal p = false) := by
  have hinv := AInv_alignIndex (l.map isLocal)
  obtain ⟨hlen, hle, hperm, hloc, hnon, hcnt, _⟩ := hinv
  have hnext : (alignIndex (l.map isLocal)).2.1 = nReal l := by
    rw [hcnt, List.take_of_length_le (Nat.le_refl _), List.filter_map]
    simp [nReal]
  have hb : ∀ v ∈ (alignIndex (l.map isLocal)).1, v < l.length := by
    intro v hv
    have := (List.Perm.mem_iff hperm).mp hv
    simpa using this
  rw [align_eq_gather, gather_getElem? _ _ hb] at h
  have hj : j < l.length := by
    cases hi : (alignIndex (l.map isLocal)).1[j]? with
    | none => rw [hi] at h; simp at h
    | some v =>
      have := (List.getElem?_eq_some_iff.mp hi).1
      rw [hlen] at this; simpa using this
  constructor
  · intro hlt
    obtain ⟨v, hv, hl⟩ := hloc j (by rw [hnext]; exact hlt)
    rw [hv] at h
    obtain ⟨q, hq, hql⟩ := map_isLocal_getElem? l v true hl
    simp only [Option.bind_some] at h
    rw [hq] at h
    cases h; exact hql
  · intro hge
    obtain ⟨v, hv, hl⟩ := hnon j (by rw [hnext]; exact hge) (by simpa using hj)
    rw [hv] at h
    obtain ⟨q, hq, hql⟩ := map_isLocal_getElem? l v false hl
    simp only [Option.bind_some] at h
    rw [hq] at h
    cases h; exact hql

theorem realView_align_all_local (l : List (Particle α)) :
    ∀ p ∈ realView (align l), isLocal p = true := by
  intro p hp
  unfold realView at hp
  rw [nReal_perm (align_perm l)] at hp
  obtain ⟨j, hj⟩ := List.mem_iff_getElem?.mp hp
  rw [List.getElem?_take] at hj
  split at hj
  · rename_i hlt; exact (align_real_first l j p hj).1 hlt
  · simp at hj

theorem drop_align_all_nonlocal (l : List (Particle α)) :
    ∀ p ∈ (align l).drop (nReal l), isLocal p = false := by
  intro p hp
  obtain ⟨j, hj⟩ := List.mem_iff_getElem?.mp hp
  rw [List.getElem?_drop] at hj
  exact (align_real_first l _ p hj).2 (by omega)

/-- the real-particle view of an aligned array is, up to order, its Local
particles -/
theorem realView_align_perm (l : List (Particle α)) :
    (realView (align l)).Perm (l.filter isLocal) := by
  have h1 : (align l).filter isLocal = realView (align l) := by
    have hsplit : align l = realView (align l) ++ (align l).drop (nReal l) := by
      unfold realView
      rw [nReal_perm (align_perm l)]
      exact (List.take_append_drop _ _).symm
    conv => lhs; rw [hsplit]
    rw [List.filter_append]
    have e1 : (realView (align l)).filter isLocal = realView (align l) :=
      List.filter_eq_self.mpr (realView_align_all_local l)
    have e2 : ((align l).drop (nReal l)).filter isLocal = [] :=
      List.filter_eq_nil_iff.mpr (by
        intro p hp; simp [drop_align_all_nonlocal l p hp])
    rw [e1, e2, List.append_nil]
  rw [← h1]
  exact List.Perm.filter _ (align_perm l)

end particles


/-! ## the ParticleArray operations as the update bodies use them -/
section ops
variable {α : Type}

theorem copyInto_all (d p : Particle α) : copyInto Mask.all d p = p := by
  cases p; rfl

theorem realView_split (l : List (Particle α)) : l = realView l ++ l.drop (nReal l) :=
  (List.take_append_drop _ _).symm

/-- indices selected on the real-particle view are inside the view -/
theorem where_realView_bounds (pred : Particle α → Bool) (l : List (Particle α)) :
    ∀ i ∈ whereFrom pred 0 (realView l), i < (realView l).length := by
  intro i hi
  have := whereFrom_bounds pred (realView l) 0 i hi
  omega

theorem realView_length_le (l : List (Particle α)) : (realView l).length ≤ l.length := by
  unfold realView; simp [List.length_take]; omega

theorem nReal_le_length (l : List (Particle α)) : nReal l ≤ l.length := by
  unfold nReal; exact List.length_filter_le _ _

theorem realView_length (l : List (Particle α)) : (realView l).length = nReal l := by
  unfold realView; simp [List.length_take, nReal_le_length]

theorem gather_where_realView (pred : Particle α → Bool) (l : List (Particle α)) :
    gather (whereFrom pred 0 (realView l)) l = (realView l).filter pred := by
  have := gather_whereFrom pred [] (realView l) (l.drop (nReal l))
  simp only [List.length_nil, List.nil_append] at this
  rw [← realView_split l] at this
  exact this

/-- `extract_particles` with the `np.where` indices of the real view: the
destination gains exactly one (masked) copy of each selected particle -/
theorem extractInto_perm (m : Mask) (d : Particle α) (pred : Particle α → Bool)
    (src dst : List (Particle α)) :
    (extractInto m d src (whereFrom pred 0 (realView src)) dst).Perm
      (dst ++ ((realView src).filter pred).map (copyInto m d)) := by
  unfold extractInto
  split
  · rename_i h0
    have : (realView src).filter pred = [] := by
      rw [whereFrom_length] at h0
      exact List.eq_nil_of_length_eq_zero h0
    rw [this]; simp
  · rw [gather_where_realView]
    exact align_perm _

/-- `remove_particles` with the `np.where` indices of the real view: the old
array is, up to order, what is left plus the selected particles -/
theorem removeParticles_perm (pred : Particle α → Bool) (l l' : List (Particle α))
    (h : removeParticles (whereFrom pred 0 (realView l)) l = some l') :
    (l' ++ (realView l).filter pred).Perm l := by
  unfold removeParticles at h
  split at h
  · cases h
  · have hp := removeRows_perm (whereFrom pred 0 (realView l)) l
      (whereFrom_sorted _ _ _)
      (fun i hi => Nat.lt_of_lt_of_le (where_realView_bounds pred l i hi) (realView_length_le l))
    rw [gather_where_realView] at hp
    cases h
    split
    · exact (List.Perm.append_right _ (align_perm _)).trans hp
    · exact hp

theorem removeParticles_isSome (pred : Particle α → Bool) (l : List (Particle α)) :
    ∃ l', removeParticles (whereFrom pred 0 (realView l)) l = some l' := by
  unfold removeParticles
  have : ¬ (whereFrom pred 0 (realView l)).length > l.length := by
    rw [whereFrom_length]
    have := List.length_filter_le pred (realView l)
    have := realView_length_le l
    omega
  simp [this]

/-- the fancy-index update through the `np.where` indices of array `v`'s real
view, applied to an array `g` at least as long as that view -/
theorem modify_where_realView (pred : Particle α → Bool) (f : Particle α → Particle α)
    (v g : List (Particle α)) (hg : nReal v ≤ g.length) :
    (whereFrom pred 0 (realView v)).foldl (fun acc i => acc.modify i f) g
      = List.zipWith (fun p q => if pred p then f q else q) (realView v) (g.take (nReal v))
        ++ g.drop (nReal v) := by
  have h := foldl_modify_whereFrom pred f (realView v) [] (g.take (nReal v)) (g.drop (nReal v))
    (by rw [realView_length]; simp [List.length_take]; omega)
  simp only [List.length_nil, List.nil_append, List.take_append_drop] at h
  exact h

theorem modifyAt_self (pred : Particle α → Bool) (f : Particle α → Particle α)
    (v : List (Particle α)) :
    modifyAt f (whereFrom pred 0 (realView v)) v
      = some ((realView v).map (fun p => if pred p then f p else p) ++ v.drop (nReal v)) := by
  unfold modifyAt
  have hall : (whereFrom pred 0 (realView v)).all (fun i => decide (i < nReal v)) = true := by
    rw [List.all_eq_true]
    intro i hi
    have := where_realView_bounds pred v i hi
    rw [realView_length] at this
    simpa using this
  rw [if_pos hall, modify_where_realView pred f v v (nReal_le_length v)]
  have : v.take (nReal v) = realView v := rfl
  rw [this, List.zipWith_self]

theorem modifyAt_other (pred : Particle α → Bool) (f : Particle α → Particle α)
    (v g g' : List (Particle α)) (hg : nReal v ≤ g.length)
    (h : modifyAt f (whereFrom pred 0 (realView v)) g = some g') :
    g' = List.zipWith (fun p q => if pred p then f q else q) (realView v) (g.take (nReal v))
        ++ g.drop (nReal v) := by
  unfold modifyAt at h
  split at h
  · cases h; exact modify_where_realView pred f v g hg
  · cases h

end ops

end PysphVerif.InletOutlet
